import Proofs.LFU
import Proofs.Pickle
import Proofs.PickleEnc
import Proofs.Path
import Proofs.Distance
