import Proofs.LFU
import Proofs.Pickle
