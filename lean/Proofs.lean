import Proofs.LFU
