import Model.Py.Value
/-! Well-formedness of values: dictionary keys and set members are hashable (scalars or tuples of
hashables) and pairwise different. -/
namespace Py

mutual
/-- hashable in the model: scalars and tuples of hashables -/
def hashable : PyVal → Bool
  | .none | .bool _ | .int _ | .float _ _ | .str _ | .bytes _ => true
  | .tuple xs => hashableL xs
  | _ => false
def hashableL : List PyVal → Bool
  | [] => true
  | x :: xs => hashable x && hashableL xs
end

def distinctKeys : List PyVal → Bool
  | [] => true
  | k :: ks => !(ks.any (fun k' => keyEq k k')) && !(ks.any (fun k' => keyEq k' k)) && distinctKeys ks

mutual
def wf : PyVal → Bool
  | .list xs | .tuple xs => wfL xs
  | .set xs | .frozenset xs => xs.all hashable && distinctKeys xs
  | .dict kvs => (kvs.map (·.1)).all hashable && distinctKeys (kvs.map (·.1)) && wfP kvs
  | _ => true
def wfL : List PyVal → Bool
  | [] => true
  | x :: xs => wf x && wfL xs
def wfP : List (PyVal × PyVal) → Bool
  | [] => true
  | (_, v) :: rest => wf v && wfP rest
end

end Py
