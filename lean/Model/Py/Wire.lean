import Model.Py.Value
import Model.Wire
/-! Wire codec for `PyVal` (prefix tokens). -/
namespace Py
open Wire

def parseVal : Nat → List String → Option (PyVal × List String)
  | 0, _ => none
  | fuel + 1, t :: rest =>
    let many (n : Nat) (ts : List String) : Option (List PyVal × List String) :=
      n.fold (fun _ _ acc => do
        let (xs, ts) ← acc
        let (x, ts) ← parseVal fuel ts
        pure (xs ++ [x], ts)) (some ([], ts))
    let rec pairUp : List PyVal → Option (List (PyVal × PyVal))
      | [] => some []
      | [_] => none
      | k :: v :: r => (pairUp r).map ((k, v) :: ·)
    if t == "N" then some (.none, rest)
    else if t == "T" then some (.bool true, rest)
    else if t == "F" then some (.bool false, rest)
    else
      let body := (t.drop 1).toString
      match t.toList.head? with
      | some 'i' => body.toInt?.map (fun i => (.int i, rest))
      | some 'f' =>
        match body.splitOn "/" with
        | [n, s] => do pure (.float (← n.toInt?) (← s.toNat?), rest)
        | _ => none
      | some 's' => (decStr body).map (fun s => (.str s, rest))
      | some 'b' => (decStr body).map (fun s => (.bytes s, rest))
      | some 'L' => do let n ← body.toNat?; let (xs, r) ← many n rest; pure (.list xs, r)
      | some 'U' => do let n ← body.toNat?; let (xs, r) ← many n rest; pure (.tuple xs, r)
      | some 'S' => do let n ← body.toNat?; let (xs, r) ← many n rest; pure (.set xs, r)
      | some 'Z' => do let n ← body.toNat?; let (xs, r) ← many n rest; pure (.frozenset xs, r)
      | some 'D' => do
        let n ← body.toNat?
        let (xs, r) ← many (2 * n) rest
        let ps ← pairUp xs
        pure (.dict ps, r)
      | _ => none
  | _, [] => none

/-- parse `k` values from a token list -/
def parseVals (k : Nat) (ts : List String) : Option (List PyVal × List String) :=
  k.fold (fun _ _ acc => do
    let (xs, ts) ← acc
    let (x, ts) ← parseVal (ts.length + 1) ts
    pure (xs ++ [x], ts)) (some ([], ts))

mutual
def showVal : PyVal → String
  | .none => "N"
  | .bool b => if b then "T" else "F"
  | .int i => "i" ++ toString i
  | .float n s => "f" ++ toString n ++ "/" ++ toString s
  | .str s => "s" ++ encStr s
  | .bytes s => "b" ++ encStr s
  | .list xs => "L" ++ toString xs.length ++ showValL xs
  | .tuple xs => "U" ++ toString xs.length ++ showValL xs
  | .set xs => "S" ++ toString xs.length ++ showValS xs
  | .frozenset xs => "Z" ++ toString xs.length ++ showValS xs
  | .dict kvs => "D" ++ toString kvs.length ++ showValP kvs
def showValL : List PyVal → String
  | [] => ""
  | x :: xs => " " ++ showVal x ++ showValL xs
/-- set members in canonical (sorted by rendering) order -/
def showValS (xs : List PyVal) : String :=
  String.join ((Wire.sortStrings (showValList xs)).map (" " ++ ·))
def showValList : List PyVal → List String
  | [] => []
  | x :: xs => showVal x :: showValList xs
def showValP : List (PyVal × PyVal) → String
  | [] => ""
  | (k, v) :: xs => " " ++ showVal k ++ " " ++ showVal v ++ showValP xs
end

end Py
