/-!
The shared value universe of the diff / hash / delta / search models.

`float` is a *short decimal* `num / 10^scale` (see DESIGN §3): on that set Python float equality,
int/float cross equality and `repr` coincide with the rational reading.  `set`/`frozenset` carry an
arbitrary listing of their members; `dict` is in insertion order.
-/
namespace Py

inductive PyVal where
  | none
  | bool (b : Bool)
  | int (i : Int)
  | float (num : Int) (scale : Nat)
  | str (s : String)
  | bytes (s : String)                 -- ASCII / UTF-8 text of the bytes
  | list (xs : List PyVal)
  | tuple (xs : List PyVal)
  | set (xs : List PyVal)
  | frozenset (xs : List PyVal)
  | dict (kvs : List (PyVal × PyVal))
deriving Repr, Inhabited

/-- `type(v).__name__` -/
def typeName : PyVal → String
  | .none => "NoneType" | .bool _ => "bool" | .int _ => "int" | .float _ _ => "float"
  | .str _ => "str" | .bytes _ => "bytes" | .list _ => "list" | .tuple _ => "tuple"
  | .set _ => "set" | .frozenset _ => "frozenset" | .dict _ => "dict"

def pow10 (n : Nat) : Int := (10 : Int) ^ n

/-- `repr`/`str` of a short-decimal float: at least one fractional digit, no exponent -/
def floatRepr (num : Int) (scale : Nat) : String :=
  let neg := num < 0
  let a := num.natAbs
  let p := 10 ^ scale
  let ip := a / p
  let fp := a % p
  let fs := toString fp
  let frac := if scale = 0 then "0" else String.ofList (List.replicate (scale - fs.length) '0') ++ fs
  (if neg then "-" else "") ++ toString ip ++ "." ++ frac

mutual
/-- structural equality with types (kernel-reducible): the "structural copy" of C02, leaf equality of C05/C07 -/
def strictEq : PyVal → PyVal → Bool
  | .none, .none => true
  | .bool a, .bool b => a == b
  | .int a, .int b => a == b
  | .float n s, .float n' s' => n * pow10 s' == n' * pow10 s
  | .str a, .str b => a == b
  | .bytes a, .bytes b => a == b
  | .list a, .list b => strictEqL a b
  | .tuple a, .tuple b => strictEqL a b
  | .set a, .set b => strictEqL a b
  | .frozenset a, .frozenset b => strictEqL a b
  | .dict a, .dict b => strictEqP a b
  | _, _ => false
def strictEqL : List PyVal → List PyVal → Bool
  | [], [] => true
  | x :: xs, y :: ys => strictEq x y && strictEqL xs ys
  | _, _ => false
def strictEqP : List (PyVal × PyVal) → List (PyVal × PyVal) → Bool
  | [], [] => true
  | (k, v) :: xs, (k', v') :: ys => strictEq k k' && strictEq v v' && strictEqP xs ys
  | _, _ => false
end

/-- numeric value as a pair (numerator, scale) for bool/int/float -/
def numOf : PyVal → Option (Int × Nat)
  | .bool b => some (if b then 1 else 0, 0)
  | .int i => some (i, 0)
  | .float n s => some (n, s)
  | _ => Option.none

/-- two numeric values (bool/int/float) compare equal -/
def numEq (x y : PyVal) : Bool :=
  match numOf x, numOf y with
  | some (n, s), some (n', s') => n * pow10 s' == n' * pow10 s
  | _, _ => false

mutual
/-- identity of dictionary keys and set members: Python `==` on the hashables of the model
(scalars compared numerically across bool/int/float, str, bytes, None, tuples elementwise).
Frozensets as keys / members are outside the model universe. -/
def keyEq : PyVal → PyVal → Bool
  | .none, .none => true
  | .str a, .str b => a == b
  | .bytes a, .bytes b => a == b
  | .tuple a, .tuple b => keyEqL a b
  | .bool a, y => numEq (.bool a) y
  | .int a, y => numEq (.int a) y
  | .float n s, y => numEq (.float n s) y
  | _, _ => false
def keyEqL : List PyVal → List PyVal → Bool
  | [], [] => true
  | x :: xs, y :: ys => keyEq x y && keyEqL xs ys
  | _, _ => false
end

def memKey (x : PyVal) (ys : List PyVal) : Bool := ys.any (keyEq x)
def subsetKey (xs ys : List PyVal) : Bool := xs.all (fun x => memKey x ys)

def dictGet (kvs : List (PyVal × PyVal)) (k : PyVal) : Option PyVal :=
  (kvs.find? (fun p => keyEq p.1 k)).map (·.2)

mutual
/-- Python `==` (`1 == 1.0 == True`; `list ≠ tuple`; `set == frozenset`; lists/tuples
elementwise; sets as sets of keys; dicts as maps) -/
def pyEq : PyVal → PyVal → Bool
  | .none, .none => true
  | .str a, .str b => a == b
  | .bytes a, .bytes b => a == b
  | .list a, .list b => pyEqL a b
  | .tuple a, .tuple b => pyEqL a b
  | .set a, .set b | .set a, .frozenset b | .frozenset a, .set b | .frozenset a, .frozenset b =>
    a.length == b.length && subsetKey a b
  | .dict a, .dict b => a.length == b.length && dictSub a b
  | .bool a, y => numEq (.bool a) y
  | .int a, y => numEq (.int a) y
  | .float n s, y => numEq (.float n s) y
  | _, _ => false
def pyEqL : List PyVal → List PyVal → Bool
  | [], [] => true
  | x :: xs, y :: ys => pyEq x y && pyEqL xs ys
  | _, _ => false
def dictSub : List (PyVal × PyVal) → List (PyVal × PyVal) → Bool
  | [], _ => true
  | (k, v) :: rest, other =>
    (match dictGet other k with
     | some v' => pyEq v v'
     | Option.none => false) && dictSub rest other
end

instance : BEq PyVal := ⟨strictEq⟩

def isContainer : PyVal → Bool
  | .list _ | .tuple _ | .set _ | .frozenset _ | .dict _ => true
  | _ => false

end Py
