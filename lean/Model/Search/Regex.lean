/-!
A small backtracking matcher for the regular-expression subset the correspondence harness uses
(literals, `.`, `\d`, `\w`, `\s`, escaped punctuation, `[...]` classes with ranges and negation, the
postfix operators `* + ?`, and the anchors `^` / `$`).  Driver only: the theorems take the compiled
search predicate as a parameter.
-/
namespace Search

inductive Atom where
  | any | lit (c : Char) | digit | word | space | cls (cs : List (Char × Char)) (neg : Bool)
deriving Repr

inductive Quant where
  | one | star | plus | opt
deriving Repr, BEq

structure RNode where
  atom : Atom
  q : Quant
deriving Repr

structure Regex where
  anchoredStart : Bool
  nodes : List RNode
  anchoredEnd : Bool
deriving Repr

def isWord (c : Char) : Bool := c.isAlphanum || c == '_'

def atomMatch : Atom → Char → Bool
  | .any, c => c != '\n'
  | .lit x, c => x == c
  | .digit, c => c.isDigit
  | .word, c => isWord c
  | .space, c => c == ' ' || c == '\t' || c == '\n' || c == '\r' || c == '\x0b' || c == '\x0c'
  | .cls rs neg, c => (rs.any fun r => r.1 ≤ c && c ≤ r.2) != neg

def starK (a : Atom) (k : List Char → Bool) : List Char → Bool
  | [] => k []
  | c :: cs => k (c :: cs) || (atomMatch a c && starK a k cs)

def matchHere (endA : Bool) : List RNode → List Char → Bool
  | [], cs => !endA || cs.isEmpty || cs == ['\n']
  | ⟨a, .one⟩ :: ns, c :: cs => atomMatch a c && matchHere endA ns cs
  | ⟨_, .one⟩ :: _, [] => false
  | ⟨a, .opt⟩ :: ns, cs =>
    matchHere endA ns cs || (match cs with | c :: cs' => atomMatch a c && matchHere endA ns cs' | [] => false)
  | ⟨a, .star⟩ :: ns, cs => starK a (matchHere endA ns) cs
  | ⟨a, .plus⟩ :: ns, c :: cs => atomMatch a c && starK a (matchHere endA ns) cs
  | ⟨_, .plus⟩ :: _, [] => false

def rtails : List Char → List (List Char)
  | [] => [[]]
  | c :: cs => (c :: cs) :: rtails cs

/-- `re.compile(p).search(s) is not None` -/
def Regex.search (r : Regex) (s : String) : Bool :=
  let cs := s.toList
  if r.anchoredStart then matchHere r.anchoredEnd r.nodes cs
  else (rtails cs).any (matchHere r.anchoredEnd r.nodes)

/-- class body after `[`: returns ranges and the rest after `]` -/
def parseClass : List Char → List (Char × Char) → Option (List (Char × Char) × List Char)
  | [], _ => none
  | ']' :: rest, acc => some (acc.reverse, rest)
  | '\\' :: c :: rest, acc => parseClass rest ((c, c) :: acc)
  | a :: '-' :: b :: rest, acc => if b == ']' then parseClass (b :: rest) (('-', '-') :: (a, a) :: acc) else parseClass rest ((a, b) :: acc)
  | a :: rest, acc => parseClass rest ((a, a) :: acc)

def parseNodes (fuel : Nat) (cs : List Char) (acc : List RNode) : Option (List RNode × Bool) :=
  match fuel with
  | 0 => none
  | fuel + 1 =>
    let withQ (a : Atom) (rest : List Char) : Option (List RNode × Bool) :=
      match rest with
      | '*' :: r => parseNodes fuel r (⟨a, .star⟩ :: acc)
      | '+' :: r => parseNodes fuel r (⟨a, .plus⟩ :: acc)
      | '?' :: r => parseNodes fuel r (⟨a, .opt⟩ :: acc)
      | r => parseNodes fuel r (⟨a, .one⟩ :: acc)
    match cs with
    | [] => some (acc.reverse, false)
    | ['$'] => some (acc.reverse, true)
    | '.' :: rest => withQ .any rest
    | '\\' :: 'd' :: rest => withQ .digit rest
    | '\\' :: 'w' :: rest => withQ .word rest
    | '\\' :: 's' :: rest => withQ .space rest
    | '\\' :: c :: rest => if c.isAlphanum then none else withQ (.lit c) rest
    | '[' :: '^' :: rest => (parseClass rest []).bind fun (rs, r) => withQ (.cls rs true) r
    | '[' :: rest => (parseClass rest []).bind fun (rs, r) => withQ (.cls rs false) r
    | c :: rest =>
      if c == '*' || c == '+' || c == '?' || c == '(' || c == ')' || c == '|' || c == '{' || c == '}' || c == '$' || c == '^' || c == '\\' then none
      else withQ (.lit c) rest

def parseRegex (p : String) : Option Regex :=
  let cs := p.toList
  let (st, cs') := match cs with | '^' :: r => (true, r) | r => (false, r)
  (parseNodes (cs'.length + 1) cs' []).map fun (ns, e) => { anchoredStart := st, nodes := ns, anchoredEnd := e }

end Search
