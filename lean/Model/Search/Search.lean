import Model.Py.Value
import Model.Py.WF
import Model.Path.Path
/-!
Model of `DeepSearch` (`deepdiff/search.py`): `__search` and its `__search_*` family, the matching
modes and `__skip_this`.  The compiled regular expression and the exclude-regex test are opaque
predicates (`SEnv`); the driver instantiates them with `Model/Search/Regex.lean`.
Every hit carries the path text the code builds *and* the key sequence of the location, so the
theorems can speak about locations without parsing text (that layer is C09).
-/
namespace Search
open Py

structure SCfg where
  caseSensitive : Bool := false       -- as passed
  matchString : Bool := false
  useRegexp : Bool := false
  strict : Bool := true
  exPaths : List String := []
  exTypes : List String := []

structure SEnv where
  re : String → Bool := fun _ => false        -- `item.search(text) is not None` for the compiled (processed) item
  exRe : String → Bool := fun _ => false      -- some exclude_regex_paths pattern matches

structure Hit where
  isPath : Bool            -- matched_paths (true) / matched_values (false)
  path : String
  keys : List PyVal
  val : PyVal
deriving Repr

def lower (s : String) : String := s.map Char.toLower

/-- `str(x)` for the scalars of the universe -/
def pyStr : PyVal → String
  | .str s => s
  | .none => "None"
  | .bool b => if b then "True" else "False"
  | .int i => toString i
  | .float n s => floatRepr n s
  | _ => "?"

def isNumber : PyVal → Bool
  | .int _ | .float _ _ | .bool _ => true
  | _ => false

def isNone : PyVal → Bool
  | .none => true
  | _ => false

def isStr : PyVal → Bool
  | .str _ => true
  | _ => false

/-- `self.case_sensitive`: the option for string items, always true otherwise -/
def effCS (c : SCfg) (item : PyVal) : Bool := if isStr item then c.caseSensitive else true

/-- the item after `__init__`: lower-cased when insensitive, `str(item)` for a number under loose checking -/
def prepItem (c : SCfg) (item : PyVal) : PyVal :=
  let it := match item with
    | .str s => if c.caseSensitive then PyVal.str s else .str (lower s)
    | x => x
  if !c.strict && isNumber it then .str (pyStr it) else it

/-- `isinstance(x, ty)` for the built-in type names (`bool` is an `int`) -/
def isInstance (x : PyVal) (ty : String) : Bool :=
  typeName x == ty || (ty == "int" && (match x with | .bool _ => true | _ => false))

def skipThis (c : SCfg) (env : SEnv) (x : PyVal) (parent : String) : Bool :=
  c.exPaths.contains parent || env.exRe parent || c.exTypes.any (isInstance x)

def tailsOf : List Char → List (List Char)
  | [] => [[]]
  | c :: cs => (c :: cs) :: tailsOf cs

/-- Python `a in b` on strings -/
def infixB (a b : String) : Bool := (tailsOf b.toList).any (fun t => a.toList.isPrefixOf t)

/-- `__search_str` decision for the text of a string object -/
def strMatch (c : SCfg) (env : SEnv) (cs : Bool) (item : PyVal) (s : String) : Bool :=
  let text := if cs then s else lower s
  if c.useRegexp then env.re text
  else match item with
    | .str it => if c.matchString then it == text else infixB it text
    | _ => false

/-- `__search_numbers` decision -/
def numMatch (c : SCfg) (env : SEnv) (cs : Bool) (item obj : PyVal) : Bool :=
  let text := if cs then pyStr obj else lower (pyStr obj)
  if c.useRegexp then !c.strict && env.re text
  else pyEq item obj || (!c.strict && (match item with | .str it => it == text | _ => false))

/-- does a leaf match the item under the chosen mode -/
def leafMatch (c : SCfg) (env : SEnv) (cs : Bool) (item : PyVal) : PyVal → Bool
  | .str s => (isStr item || c.useRegexp) && strMatch c env cs item s
  | .int i => numMatch c env cs item (.int i)
  | .float n s => numMatch c env cs item (.float n s)
  | .bool b => numMatch c env cs item (.bool b)
  | .none => !c.useRegexp && isNone item
  | _ => false

def keyText : PyVal → String
  | .str s => String.ofList (Path.stringifyElement s.toList true)
  | k => pyStr k

def childPath (parent : String) (k : PyVal) : String := parent ++ "[" ++ keyText k ++ "]"
def indexPath (parent : String) (i : Nat) : String := parent ++ "[" ++ toString i ++ "]"

/-- the `matched_paths` test on the text of a dictionary child path -/
def pathMatch (c : SCfg) (env : SEnv) (cs : Bool) (item : PyVal) (np : String) : Bool :=
  let t := if cs then np else lower np
  if c.useRegexp then env.re t           -- str(compiled pattern) never occurs in a path of the universe
  else if c.matchString then pyStr item == t else infixB (pyStr item) t

def casedThing (cs : Bool) : PyVal → PyVal
  | .str s => if cs then .str s else .str (lower s)
  | x => x

mutual
/-- `__search(obj, item, parent)` -/
def search (c : SCfg) (env : SEnv) (cs : Bool) (item : PyVal) : PyVal → String → List PyVal → List Hit
  | .str s, parent, keys =>
    if skipThis c env (.str s) parent then []
    else if (isStr item || c.useRegexp) && strMatch c env cs item s then [⟨false, parent, keys, .str s⟩] else []
  | .dict kvs, parent, keys => if skipThis c env (.dict kvs) parent then [] else searchDict c env cs item kvs parent keys
  | .list xs, parent, keys => if skipThis c env (.list xs) parent then [] else searchIter c env cs item xs 0 parent keys
  | .tuple xs, parent, keys => if skipThis c env (.tuple xs) parent then [] else searchIter c env cs item xs 0 parent keys
  | .set xs, parent, keys => if skipThis c env (.set xs) parent then [] else searchIter c env cs item xs 0 parent keys
  | .frozenset xs, parent, keys => if skipThis c env (.frozenset xs) parent then [] else searchIter c env cs item xs 0 parent keys
  | .bytes _, _, _ => []          -- outside the universe
  | v, parent, keys =>            -- numbers and None
    if skipThis c env v parent then []
    else if leafMatch c env cs item v then [⟨false, parent, keys, v⟩] else []
/-- `__search_dict` -/
def searchDict (c : SCfg) (env : SEnv) (cs : Bool) (item : PyVal) : List (PyVal × PyVal) → String → List PyVal → List Hit
  | [], _, _ => []
  | (k, v) :: rest, parent, keys =>
    let np := childPath parent k
    (if skipThis c env v np then []
     else (if pathMatch c env cs item np then [⟨true, np, keys ++ [k], v⟩] else []) ++ search c env cs item v np (keys ++ [k]))
    ++ searchDict c env cs item rest parent keys
/-- `__search_iterable` from index `i` -/
def searchIter (c : SCfg) (env : SEnv) (cs : Bool) (item : PyVal) : List PyVal → Nat → String → List PyVal → List Hit
  | [], _, _, _ => []
  | x :: rest, i, parent, keys =>
    let np := indexPath parent i
    (if skipThis c env x np then []
     else if !c.useRegexp && pyEq (casedThing cs x) item then [⟨false, np, keys ++ [.int i], x⟩]
     else search c env cs item x np (keys ++ [.int i]))
    ++ searchIter c env cs item rest (i + 1) parent keys
end

/-- `DeepSearch(obj, item, **cfg)`: hits in report order -/
def deepSearch (c : SCfg) (env : SEnv) (obj item : PyVal) : List Hit :=
  search c env (effCS c item) (prepItem c item) obj "root" []

end Search
