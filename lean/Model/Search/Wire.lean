import Model.Search.Search
import Model.Search.Regex
import Model.Py.Wire
/-!
`SEARCH <cs> <match_string> <use_regexp> <strict> E <n> <paths..> T <n> <types..> R <n> <patterns..> <item> <obj>`
→ the sorted hits `P|<path>|<value>` / `V|<path>|<value>`, `{}` when there is none,
`RAISED:TypeError` when a regular expression is asked for with a non-string item.
-/
namespace Search
open Py Wire

def takeStrs (n : Nat) (ts : List String) : Option (List String × List String) :=
  n.fold (fun _ _ acc => do
    let (xs, ts) ← acc
    match ts with
    | t :: r => do let s ← decStr t; pure (xs ++ [s], r)
    | [] => none) (some ([], ts))

def showHit (h : Hit) : String :=
  (if h.isPath then "P|" else "V|") ++ encStr h.path ++ "|" ++ (showVal h.val).replace " " ","

def searchLine (ts : List String) : String :=
  match ts with
  | cs :: ms :: ur :: st :: "E" :: ne :: rest =>
    match ne.toNat?.bind (fun n => takeStrs n rest) with
    | some (ex, "T" :: nt :: rest) =>
      match nt.toNat?.bind (fun n => takeStrs n rest) with
      | some (tys, "R" :: nr :: rest) =>
        match nr.toNat?.bind (fun n => takeStrs n rest) with
        | some (rxs, rest) =>
          match parseVals 2 rest with
          | some ([item, obj], []) =>
            let c : SCfg := { caseSensitive := cs == "T", matchString := ms == "T", useRegexp := ur == "T", strict := st == "T",
                              exPaths := ex, exTypes := tys }
            match rxs.mapM parseRegex with
            | none => "bad-op"
            | some exr =>
              let it := prepItem c item
              if c.useRegexp then
                match it with
                | .str p =>
                  match parseRegex p with
                  | none => "bad-op"
                  | some r =>
                    let env : SEnv := { re := r.search, exRe := fun s => exr.any (·.search s) }
                    let hs := (deepSearch c env obj item).map showHit
                    if hs.isEmpty then "{}" else " ".intercalate (sortStrings hs).eraseDups
                | _ => "RAISED:TypeError"
              else
                let env : SEnv := { exRe := fun s => exr.any (·.search s) }
                let hs := (deepSearch c env obj item).map showHit
                if hs.isEmpty then "{}" else " ".intercalate (sortStrings hs).eraseDups
          | _ => "bad-op"
        | none => "bad-op"
      | _ => "bad-op"
    | _ => "bad-op"
  | _ => "bad-op"

end Search
