/-
Model of deepdiff/lfucache.py (LFUCache with plain values, i.e. `set(key, value=v)`).

The heap of the implementation (a doubly linked list of FreqNodes, each owning a doubly linked
list of CacheNodes, plus the `cache` dict) is abstracted to a list of buckets: ascending `freq`,
head = `freq_link_head`, each bucket in FIFO order (head = `cache_head`).  The harness walks the
real heap after every operation and maps it to this bucket list.

`stamp` and `clock` are ghost fields: the implementation has no such data.  A stamp records the
clock value at which the entry's use count last changed (creation, or a successful get); the
operations only ever *write* them, and the driver never prints them.  They exist so that "has had
that count longest" can be stated.
-/
namespace LFU

structure Ent where
  key : Nat
  val : Nat
  stamp : Nat
deriving Repr, DecidableEq

structure Bucket where
  freq : Nat
  ents : List Ent
deriving Repr, DecidableEq

structure State where
  cap : Nat
  clock : Nat
  buckets : List Bucket
deriving Repr, DecidableEq

def init (cap : Nat) : State := { cap := cap, clock := 0, buckets := [] }

/-- all entries, bucket by bucket, each paired with its bucket's freq -/
def flat : List Bucket → List (Nat × Ent)
  | [] => []
  | b :: rest => b.ents.map (fun e => (b.freq, e)) ++ flat rest

def size (bs : List Bucket) : Nat := (flat bs).length

def lookup (bs : List Bucket) (k : Nat) : Option (Nat × Ent) :=
  (flat bs).find? (fun p => p.2.key == k)

def hasKey (bs : List Bucket) (k : Nat) : Bool := (lookup bs k).isSome

/-- `cache_node.content = value` for an existing key -/
def update (k v : Nat) : List Bucket → List Bucket
  | [] => []
  | b :: rest =>
    { b with ents := b.ents.map (fun e => if e.key == k then { e with val := v } else e) }
      :: update k v rest

/-- the target of `move_forward`: append to the next FreqNode when it has frequency `f`
(`append_cache_to_tail`), else a fresh FreqNode is linked in (`insert_after_me`) -/
def attach (f : Nat) (e : Ent) : List Bucket → List Bucket
  | nb :: rr =>
    if nb.freq = f then { nb with ents := nb.ents ++ [e] } :: rr
    else ⟨f, [e]⟩ :: nb :: rr
  | [] => [⟨f, [e]⟩]

/-- `move_forward(cache_node, freq_node)` for the node with key `k` -/
def moveFwd (clock k : Nat) : List Bucket → List Bucket
  | [] => []
  | b :: rest =>
    match b.ents.find? (fun e => e.key == k) with
    | none => b :: moveFwd clock k rest
    | some e =>
      let remaining := b.ents.filter (fun x => x.key != k)      -- free_myself
      let rest' := attach (b.freq + 1) { e with stamp := clock } rest
      if remaining.isEmpty then rest' else { b with ents := remaining } :: rest'

/-- `dump_cache()`; returns the evicted key.  The two `none` branches are where the code would
raise `AttributeError` on `None`; they are unreachable when `0 < cap` (see `dump_some`). -/
def dump : List Bucket → List Bucket × Option Nat
  | [] => ([], none)
  | b :: rest =>
    match b.ents with
    | [] => (b :: rest, none)
    | e :: es => (if es.isEmpty then rest else { b with ents := es } :: rest, some e.key)

/-- `create_cache_node(key, None, value)` -/
def create (clock k v : Nat) : List Bucket → List Bucket
  | [] => [⟨0, [⟨k, v, clock⟩]⟩]
  | b :: rest =>
    if b.freq = 0 then { b with ents := b.ents ++ [⟨k, v, clock⟩] } :: rest
    else ⟨0, [⟨k, v, clock⟩]⟩ :: b :: rest

inductive Op where
  | get (k : Nat)
  | set (k v : Nat)
deriving Repr, DecidableEq

/-- what an operation lets the caller (or, for `evicted`, the heap walk) observe -/
inductive Out where
  | notFound
  | found (v : Nat)
  | stored (evicted : Option Nat)
deriving Repr, DecidableEq

def step (s : State) : Op → State × Out
  | .get k =>
    match lookup s.buckets k with
    | some (_, e) =>
      ({ s with buckets := moveFwd s.clock k s.buckets, clock := s.clock + 1 }, .found e.val)
    | none => (s, .notFound)
  | .set k v =>
    if hasKey s.buckets k then
      ({ s with buckets := update k v s.buckets }, .stored none)
    else if s.cap ≤ size s.buckets then
      let (bs, ev) := dump s.buckets
      ({ s with buckets := create s.clock k v bs, clock := s.clock + 1 }, .stored ev)
    else
      ({ s with buckets := create s.clock k v s.buckets, clock := s.clock + 1 }, .stored none)

def run (s : State) : List Op → State × List Out
  | [] => (s, [])
  | op :: ops =>
    let (s1, o) := step s op
    let (s2, os) := run s1 ops
    (s2, o :: os)

/-- state after a history -/
def exec (s : State) (ops : List Op) : State := ops.foldl (fun s op => (step s op).1) s

end LFU
