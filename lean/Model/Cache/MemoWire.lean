import Model.Cache.Memo
/-! `MEMO <cap> <ev> <ev> …` with events `c<k>` (membership test), `g<k>` (get), `s<k>` (set, value = key id)
↦ for every `c` event `H` / `M`.  A memo query is `c g` on a hit and `c … s` on a miss (`Memo.query`). -/
namespace Memo
open LFU

def memoLine (toks : List String) : String :=
  match toks with
  | capS :: evs =>
    match capS.toNat? with
    | some cap =>
      if cap = 0 then "ValueError" else
      let rec go (s : State) (es : List String) (acc : List String) : List String :=
        match es with
        | [] => acc.reverse
        | e :: es =>
          match (e.drop 1).toString.toNat? with
          | none => ("bad-op" :: acc).reverse
          | some k =>
            if e.startsWith "c" then go s es ((if hasKey s.buckets k then "H" else "M") :: acc)
            else if e.startsWith "g" then go (step s (.get k)).1 es acc
            else if e.startsWith "s" then go (step s (.set k k)).1 es acc
            else ("bad-op" :: acc).reverse
      " ".intercalate (go (init cap) evs [])
    | none => "bad-op"
  | [] => "bad-op"

/-- a query is the event sequence `c g` (hit) or `c s` (miss) -/
theorem query_as_events (F : Nat → Nat) (s : State) (key : Nat) :
    query F s true key =
      (match (step s (.get key)).2 with
       | .found v => (v, (step s (.get key)).1)
       | _ => (F key, (step (step s (.get key)).1 (.set key (F key))).1)) := by
  unfold query
  simp only [if_true]
  cases h : step s (.get key) with
  | mk s' o => cases o <;> simp

end Memo
