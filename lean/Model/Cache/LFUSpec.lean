import Model.Cache.LFU
/-!
The abstract specification C18 is stated against: one step of a *bounded least-frequently-used
map*.  The abstract state is the bag of entries `(uses, ⟨key, val, stamp⟩)`; the order of the list
carries no meaning (every clause is stated through membership / permutation).  `stamp` is the
clock value at which the entry attained its current use count.
-/
namespace LFU

abbrev AEnt := Nat × Ent

/-- `a` is evicted before `b`: fewer uses, or equally many and has had that count longer -/
def lexLt (a b : AEnt) : Prop := a.1 < b.1 ∨ (a.1 = b.1 ∧ a.2.stamp < b.2.stamp)

inductive SpecStep (cap clock : Nat) (A : List AEnt) : Op → Out → List AEnt → Prop
  /-- get of an absent key: not found, nothing changes -/
  | getMiss (k : Nat) : (∀ p ∈ A, p.2.key ≠ k) → SpecStep cap clock A (.get k) .notFound A
  /-- successful get: returns the stored value and counts exactly one use -/
  | getHit (k u : Nat) (e : Ent) (A' : List AEnt) : (u, e) ∈ A → e.key = k →
      A'.Perm ((u + 1, { e with stamp := clock }) :: A.filter (fun p => p.2.key != k)) →
      SpecStep cap clock A (.get k) (.found e.val) A'
  /-- set of a present key: replaces the value; use count and age are untouched -/
  | setOld (k v : Nat) (A' : List AEnt) : (∃ p ∈ A, p.2.key = k) →
      A' = A.map (fun p => if p.2.key == k then (p.1, { p.2 with val := v }) else p) →
      SpecStep cap clock A (.set k v) (.stored none) A'
  /-- set of a new key with room left -/
  | setNew (k v : Nat) (A' : List AEnt) : (∀ p ∈ A, p.2.key ≠ k) → A.length < cap →
      A'.Perm ((0, ⟨k, v, clock⟩) :: A) →
      SpecStep cap clock A (.set k v) (.stored none) A'
  /-- set of a new key when full: the victim is the entry with the fewest uses, and among those
  the one that has had that count longest -/
  | setEvict (k v : Nat) (victim : AEnt) (A' : List AEnt) : (∀ p ∈ A, p.2.key ≠ k) → cap ≤ A.length →
      victim ∈ A → (∀ p ∈ A, p ≠ victim → lexLt victim p) →
      A'.Perm ((0, ⟨k, v, clock⟩) :: A.filter (fun p => p.2.key != victim.2.key)) →
      SpecStep cap clock A (.set k v) (.stored (some victim.2.key)) A'

end LFU

namespace LFU

/-- Reference reading of a history for one key: the last value set for `k`, forgotten when the
cache reports `k` as evicted.  (`trace` = operations paired with what they returned.) -/
def refStep (k : Nat) (m : Option Nat) : Op × Out → Option Nat
  | (.set k' v, .stored ev) => if k' = k then some v else if ev = some k then none else m
  | _ => m

def refVal (k : Nat) (trace : List (Op × Out)) : Option Nat := trace.foldl (refStep k) none

/-- the trace of a run -/
def trace (s : State) : List Op → List (Op × Out)
  | [] => []
  | op :: ops => (op, (step s op).2) :: trace (step s op).1 ops

def HasVal (A : List AEnt) (k v : Nat) : Prop := ∃ p ∈ A, p.2.key = k ∧ p.2.val = v

/-- number of successful gets of `k` since it was last inserted (insertion = a `set` of `k` while
absent; we track it from the trace: reset on a storing `set k` that happened while `k` was absent,
i.e. after an eviction of `k` or at the start) -/
def refUses (k : Nat) : Option Nat → Op × Out → Option Nat
  | none, (.set k' _, .stored ev) => if k' = k then some 0 else if ev = some k then none else none
  | some n, (.set k' _, .stored ev) => if k' = k then some n else if ev = some k then none else some n
  | some n, (.get k', .found _) => if k' = k then some (n + 1) else some n
  | m, _ => m

def HasUses (A : List AEnt) (k u : Nat) : Prop := ∃ p ∈ A, p.2.key = k ∧ p.1 = u

end LFU
