import Model.Cache.LFU
/-! Line protocol for the LFU model: `LFU <cap> g<k> s<k>:<v> …` ↦ `<out>@<state> …` -/
namespace LFU

def showState (bs : List Bucket) : String :=
  if bs.isEmpty then "-" else
  "|".intercalate (bs.map fun b =>
    toString b.freq ++ "[" ++ ",".intercalate (b.ents.map fun e => toString e.key ++ "=" ++ toString e.val) ++ "]")

def showOut : Out → String
  | .notFound => "nf"
  | .found v => "v" ++ toString v
  | .stored none => "ok"
  | .stored (some k) => "ev" ++ toString k

def parseOp (t : String) : Option Op :=
  if t.startsWith "g" then (t.drop 1).toString.toNat?.map Op.get
  else if t.startsWith "s" then
    match (t.drop 1).toString.splitOn ":" with
    | [k, v] => do let k ← k.toNat?; let v ← v.toNat?; pure (Op.set k v)
    | _ => none
  else none

def runLine (toks : List String) : String :=
  match toks with
  | capS :: opsS =>
    match capS.toNat? with
    | none => "bad-op"
    | some cap =>
      if cap = 0 then "ValueError" else
      let rec go (s : State) (ts : List String) (acc : List String) : List String :=
        match ts with
        | [] => acc.reverse
        | t :: ts =>
          match parseOp t with
          | none => ("bad-op" :: acc).reverse
          | some op =>
            let (s', o) := step s op
            go s' ts ((showOut o ++ "@" ++ showState s'.buckets) :: acc)
      " ".intercalate (go (init cap) opsS [])
  | [] => "bad-op"

end LFU
