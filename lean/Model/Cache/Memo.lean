import Model.Cache.LFU
/-!
Model of the memoisation in `DeepDiff._get_rough_distance_of_hashed_objs` (and, with another
function, of the pairs cache in `_get_most_in_common_pairs_in_iterables`): when the distance cache
is enabled the key is looked up (`key in cache` then `cache.get(key)`, which counts a use); on a
miss the value is computed and stored with `cache.set`.  `F` is the computation being memoised as
a function of the cache key; the cache is the LFU model of C18.  Auto-tuning switches the cache off
and on between queries: `enabled` is arbitrary per query.
-/
namespace Memo
open LFU

def query (F : Nat → Nat) (s : State) (enabled : Bool) (key : Nat) : Nat × State :=
  if enabled then
    match step s (.get key) with
    | (s', .found v) => (v, s')
    | (s', _) => (F key, (step s' (.set key (F key))).1)
  else (F key, s)

/-- a run of queries: the values returned, in order -/
def run (F : Nat → Nat) (s : State) : List (Bool × Nat) → List Nat × State
  | [] => ([], s)
  | (en, k) :: rest =>
    let (v, s1) := query F s en k
    let (vs, s2) := run F s1 rest
    (v :: vs, s2)

end Memo
