import Model.Generated.Tables
/-!
Model of unpickling as `deepdiff.serialization._RestrictedUnpickler` performs it.

The stack machine follows `pickle._Unpickler` (the reference implementation of the C unpickler):
a value stack, a metastack for MARK, a memo.  Objects are *values*; results of calls are kept
symbolic (`call`, `newobj`, …): what an allowed callable does when called is outside the model.
All global resolution goes through `findClass`, which mirrors `find_class` of the restricted
unpickler: membership of the exact string `module + "." + name` in the allow-list
(`Gen.safeToImport`, regenerated from the source, plus the caller's `safe_to_import`), then a
lookup whose outcome (module loaded? attribute present?) is an input (`Env`).

Not modelled: sharing of *mutable* containers through the memo (a `BINGET` yields the value the
object had when it was memoised), out-of-band buffers, and byte-level framing (the harness feeds
the op list produced by `pickletools.genops`).
-/
namespace Pickle

inductive PObj where
  | none
  | bool (b : Bool)
  | int (i : Int)
  | float (repr : String)
  | str (s : String)
  | bytes (s : String)
  | bytearray (s : String)
  | list (xs : List PObj)
  | tuple (xs : List PObj)
  | dict (kvs : List (PObj × PObj))
  | set (xs : List PObj)
  | frozenset (xs : List PObj)
  | glob (m n : String)                       -- a resolved global
  | noneType                                  -- persistent_load("<<NoneType>>")
  | call (f : PObj) (args : PObj)             -- REDUCE: f(*args)
  | newobj (cls : PObj) (args : PObj)         -- NEWOBJ: cls.__new__(cls, *args)
  | newobjEx (cls : PObj) (args : PObj) (kw : PObj)
  | inst (cls : PObj) (args : List PObj)      -- INST / OBJ
  | built (obj : PObj) (state : PObj)         -- BUILD
  | extended (obj : PObj) (items : List PObj) -- APPEND(S)/SETITEM(S)/ADDITEMS on a constructed object (obj.extend / obj[k]=v / obj.add)
deriving Repr, Inhabited

mutual
/-- structural equality (kernel-reducible, unlike a derived `BEq` on a nested inductive) -/
def PObj.beq : PObj → PObj → Bool
  | .none, .none => true
  | .bool a, .bool b => a == b
  | .int a, .int b => a == b
  | .float a, .float b => a == b
  | .str a, .str b => a == b
  | .bytes a, .bytes b => a == b
  | .bytearray a, .bytearray b => a == b
  | .list a, .list b => PObj.beqL a b
  | .tuple a, .tuple b => PObj.beqL a b
  | .dict a, .dict b => PObj.beqP a b
  | .set a, .set b => PObj.beqL a b
  | .frozenset a, .frozenset b => PObj.beqL a b
  | .glob m n, .glob m' n' => m == m' && n == n'
  | .noneType, .noneType => true
  | .call f a, .call f' a' => PObj.beq f f' && PObj.beq a a'
  | .newobj f a, .newobj f' a' => PObj.beq f f' && PObj.beq a a'
  | .newobjEx f a k, .newobjEx f' a' k' => PObj.beq f f' && PObj.beq a a' && PObj.beq k k'
  | .inst f a, .inst f' a' => PObj.beq f f' && PObj.beqL a a'
  | .built f a, .built f' a' => PObj.beq f f' && PObj.beq a a'
  | .extended f a, .extended f' a' => PObj.beq f f' && PObj.beqL a a'
  | _, _ => false
def PObj.beqL : List PObj → List PObj → Bool
  | [], [] => true
  | x :: xs, y :: ys => PObj.beq x y && PObj.beqL xs ys
  | _, _ => false
def PObj.beqP : List (PObj × PObj) → List (PObj × PObj) → Bool
  | [], [] => true
  | (k, v) :: xs, (k', v') :: ys => PObj.beq k k' && PObj.beq v v' && PObj.beqP xs ys
  | _, _ => false
end

instance : BEq PObj := ⟨PObj.beq⟩

inductive Resolve where | ok | noModule | noAttr
deriving Repr, BEq, DecidableEq

/-- outcome of `sys.modules[module]` / `getattr(module_obj, name)` for names that pass the gate -/
abbrev Env := String → String → Resolve

inductive Err where
  | forbidden (m n : String)       -- ForbiddenModule
  | moduleNotFound (m n : String)  -- ModuleNotFoundError
  | attrError (m n : String)       -- AttributeError from getattr
  | vm (what : String)             -- any other unpickling error (malformed program)
deriving Repr, BEq, DecidableEq

inductive Event where
  | resolved (m n : String)        -- find_class returned the global
  | called (f : PObj)              -- a callable was invoked (REDUCE/NEWOBJ/NEWOBJ_EX/INST/OBJ) or state set (BUILD)
deriving Repr, BEq

/-- `find_class(module, name)` -/
def findClass (safe : List String) (env : Env) (m n : String) : Except Err PObj :=
  if (m ++ "." ++ n) ∈ safe then
    match env m n with
    | .ok => .ok (.glob m n)
    | .noModule => .error (.moduleNotFound m n)
    | .noAttr => .error (.attrError m n)
  else .error (.forbidden m n)

inductive Op where
  | proto (n : Nat) | frame | stop
  | none | newtrue | newfalse
  | int (i : Int)                       -- INT, BININT, BININT1, BININT2, LONG, LONG1, LONG4
  | float (repr : String)               -- FLOAT, BINFLOAT
  | str (s : String)                    -- UNICODE, BINUNICODE*, SHORT_BINUNICODE, STRING, BINSTRING, SHORT_BINSTRING
  | bytes (s : String)                  -- BINBYTES*, SHORT_BINBYTES
  | bytearray (s : String)              -- BYTEARRAY8
  | emptyList | emptyTuple | emptyDict | emptySet
  | mark | pop | popMark | dup
  | append | appends | setitem | setitems | additems
  | list | tuple | tuple1 | tuple2 | tuple3 | dict | frozenset
  | put (i : Nat) | get (i : Nat) | memoize        -- PUT/BINPUT/LONG_BINPUT, GET/BINGET/LONG_BINGET
  | global (m n : String) | stackGlobal | instOp (m n : String) | obj
  | newobj | newobjEx | reduce | build
  | ext (code : Int)                    -- EXT1/2/4
  | persid (pid : String) | binpersid
  | unsupported (name : String)         -- NEXT_BUFFER, READONLY_BUFFER, anything else
deriving Repr, BEq

structure St where
  stack : List PObj := []               -- top of stack = head
  marks : List (List PObj) := []         -- metastack (saved stacks below each MARK)
  memo : List (Nat × PObj) := []
  events : List Event := []             -- newest first
  extCache : List (Int × PObj) := []    -- copyreg._extension_cache: process-wide; filled by EXT loads of ANY unpickler
deriving Repr

structure Cfg where
  safe : List String                    -- SAFE_TO_IMPORT ∪ safe_to_import
  env : Env
  ext : List (Int × (String × String))  -- copyreg._inverted_registry

def memoGet (memo : List (Nat × PObj)) (i : Nat) : Option PObj :=
  (memo.find? (fun p => p.1 == i)).map (·.2)

/-- keys compare with Python `==` restricted to the cases the model can decide: structural
equality, with `bool`/`int` numerically identified -/
def keyEq : PObj → PObj → Bool
  | .bool a, .int b => (if a then 1 else 0) == b
  | .int a, .bool b => a == (if b then 1 else 0)
  | a, b => a == b

def dictSet (kvs : List (PObj × PObj)) (k v : PObj) : List (PObj × PObj) :=
  if kvs.any (fun p => keyEq p.1 k) then kvs.map (fun p => if keyEq p.1 k then (p.1, v) else p)
  else kvs ++ [(k, v)]

def setAdd (xs : List PObj) (x : PObj) : List PObj :=
  if xs.any (fun y => keyEq y x) then xs else xs ++ [x]

def pairUp : List PObj → Option (List (PObj × PObj))
  | [] => some []
  | [_] => Option.none
  | k :: v :: rest => (pairUp rest).map (fun r => (k, v) :: r)

/-- callable as far as the model can tell: a resolved global, or the symbolic result of a call -/
def callable : PObj → Bool
  | .glob _ _ | .call _ _ | .newobj _ _ | .newobjEx _ _ _ | .inst _ _ | .built _ _ | .extended _ _ => true
  | _ => false

/-- the symbolic result of a call (an object whose methods the VM may invoke) -/
def constructed : PObj → Bool
  | .call _ _ | .newobj _ _ | .newobjEx _ _ _ | .inst _ _ | .built _ _ | .extended _ _ => true
  | _ => false

/-- `persistent_load(pid)` of the restricted unpickler -/
def persistentLoad : PObj → PObj
  | .str s => if s = "<<NoneType>>" then .noneType else .none
  | _ => .none

/-- pop everything above the topmost MARK (items oldest first) and restore the stack below it -/
def popMark (s : St) : Except Err (List PObj × St) :=
  match s.marks with
  | [] => .error (.vm "no MARK")
  | saved :: rest => .ok (s.stack.reverse, { s with stack := saved, marks := rest })

def push (s : St) (o : PObj) : St := { s with stack := o :: s.stack }

def step (c : Cfg) (s : St) : Op → Except Err St
  | .proto n => if n ≤ 5 then .ok s else .error (.vm "unsupported protocol")
  | .frame => .ok s
  | .stop => .ok s     -- handled by `run`
  | .none => .ok (push s .none)
  | .newtrue => .ok (push s (.bool true))
  | .newfalse => .ok (push s (.bool false))
  | .int i => .ok (push s (.int i))
  | .float r => .ok (push s (.float r))
  | .str x => .ok (push s (.str x))
  | .bytes x => .ok (push s (.bytes x))
  | .bytearray x => .ok (push s (.bytearray x))
  | .emptyList => .ok (push s (.list []))
  | .emptyTuple => .ok (push s (.tuple []))
  | .emptyDict => .ok (push s (.dict []))
  | .emptySet => .ok (push s (.set []))
  | .mark => .ok { s with marks := s.stack :: s.marks, stack := [] }
  | .pop =>
    match s.stack with
    | _ :: rest => .ok { s with stack := rest }
    | [] => match s.marks with
      | saved :: m => .ok { s with stack := saved, marks := m }     -- pop_mark
      | [] => .error (.vm "pop from empty stack")
  | .popMark => do let (_, s') ← popMark s; pure s'
  | .dup =>
    match s.stack with
    | x :: rest => .ok { s with stack := x :: x :: rest }
    | [] => .error (.vm "stack underflow")
  | .append =>
    match s.stack with
    | v :: .list xs :: rest => .ok { s with stack := .list (xs ++ [v]) :: rest }
    | v :: o :: rest =>
      if constructed o then .ok { s with stack := .extended o [v] :: rest, events := .called o :: s.events }
      else .error (.vm "APPEND")
    | _ => .error (.vm "APPEND")
  | .appends => do
    let (items, s') ← popMark s
    match s'.stack with
    | .list xs :: rest => pure { s' with stack := .list (xs ++ items) :: rest }
    | o :: rest =>
      if constructed o then pure { s' with stack := .extended o items :: rest, events := .called o :: s'.events }
      else throw (.vm "APPENDS")
    | _ => throw (.vm "APPENDS")
  | .setitem =>
    match s.stack with
    | v :: k :: .dict kvs :: rest => .ok { s with stack := .dict (dictSet kvs k v) :: rest }
    | v :: k :: o :: rest =>
      if constructed o then .ok { s with stack := .extended o [k, v] :: rest, events := .called o :: s.events }
      else .error (.vm "SETITEM")
    | _ => .error (.vm "SETITEM")
  | .setitems => do
    let (items, s') ← popMark s
    match s'.stack, pairUp items with
    | .dict kvs :: rest, some ps =>
      pure { s' with stack := .dict (ps.foldl (fun acc p => dictSet acc p.1 p.2) kvs) :: rest }
    | o :: rest, some _ =>
      if constructed o then pure { s' with stack := .extended o items :: rest, events := .called o :: s'.events }
      else throw (.vm "SETITEMS")
    | _, _ => throw (.vm "SETITEMS")
  | .additems => do
    let (items, s') ← popMark s
    match s'.stack with
    | .set xs :: rest => pure { s' with stack := .set (items.foldl setAdd xs) :: rest }
    | o :: rest =>
      if constructed o then pure { s' with stack := .extended o items :: rest, events := .called o :: s'.events }
      else throw (.vm "ADDITEMS")
    | _ => throw (.vm "ADDITEMS")
  | .list => do let (items, s') ← popMark s; pure (push s' (.list items))
  | .tuple => do let (items, s') ← popMark s; pure (push s' (.tuple items))
  | .tuple1 =>
    match s.stack with
    | a :: rest => .ok { s with stack := .tuple [a] :: rest }
    | _ => .error (.vm "TUPLE1")
  | .tuple2 =>
    match s.stack with
    | b :: a :: rest => .ok { s with stack := .tuple [a, b] :: rest }
    | _ => .error (.vm "TUPLE2")
  | .tuple3 =>
    match s.stack with
    | d :: b :: a :: rest => .ok { s with stack := .tuple [a, b, d] :: rest }
    | _ => .error (.vm "TUPLE3")
  | .dict => do
    let (items, s') ← popMark s
    match pairUp items with
    | some ps => pure (push s' (.dict (ps.foldl (fun acc p => dictSet acc p.1 p.2) [])))
    | Option.none => throw (.vm "DICT")
  | .frozenset => do let (items, s') ← popMark s; pure (push s' (.frozenset (items.foldl setAdd [])))
  | .put i =>
    match s.stack with
    | x :: _ => .ok { s with memo := (i, x) :: s.memo }
    | [] => .error (.vm "PUT on empty stack")
  | .memoize =>
    match s.stack with
    | x :: _ => .ok { s with memo := (s.memo.length, x) :: s.memo }
    | [] => .error (.vm "MEMOIZE on empty stack")
  | .get i =>
    match memoGet s.memo i with
    | some x => .ok (push s x)
    | Option.none => .error (.vm "memo key missing")
  | .global m n => do
    let g ← findClass c.safe c.env m n
    pure { push s g with events := .resolved m n :: s.events }
  | .stackGlobal =>
    match s.stack with
    | .str n :: .str m :: rest => do
      let g ← findClass c.safe c.env m n
      pure { s with stack := g :: rest, events := .resolved m n :: s.events }
    | _ => .error (.vm "STACK_GLOBAL requires str")
  | .instOp m n => do
    let (args, s') ← popMark s
    let g ← findClass c.safe c.env m n
    pure { push s' (.inst g args) with events := .called g :: .resolved m n :: s'.events }
  | .obj => do
    let (items, s') ← popMark s
    match items with
    | cls :: args =>
      if callable cls then pure { push s' (.inst cls args) with events := .called cls :: s'.events }
      else throw (.vm "OBJ class not callable")
    | [] => throw (.vm "OBJ")
  | .newobj =>
    match s.stack with
    | .tuple args :: cls :: rest =>
      if callable cls then
        .ok { s with stack := .newobj cls (.tuple args) :: rest, events := .called cls :: s.events }
      else .error (.vm "NEWOBJ class argument isn't a type object")
    | _ => .error (.vm "NEWOBJ")
  | .newobjEx =>
    match s.stack with
    | .dict kw :: .tuple args :: cls :: rest =>
      if callable cls then
        .ok { s with stack := .newobjEx cls (.tuple args) (.dict kw) :: rest, events := .called cls :: s.events }
      else .error (.vm "NEWOBJ_EX class argument isn't a type object")
    | _ => .error (.vm "NEWOBJ_EX")
  | .reduce =>
    match s.stack with
    | .tuple args :: f :: rest =>
      if callable f then
        .ok { s with stack := .call f (.tuple args) :: rest, events := .called f :: s.events }
      else .error (.vm "REDUCE: not callable")
    | _ => .error (.vm "REDUCE")
  | .build =>
    match s.stack with
    | state :: o :: rest =>
      if callable o then
        .ok { s with stack := .built o state :: rest, events := .called o :: s.events }
      else .error (.vm "BUILD on plain data")
    | _ => .error (.vm "BUILD")
  | .ext code =>
    if code ≤ 0 then .error (.vm "EXT specifies code <= 0") else
    match s.extCache.find? (fun p => p.1 == code) with
    | some (_, o) => .ok (push s o)          -- CPython serves a cached extension without calling find_class
    | Option.none =>
    match c.ext.find? (fun p => p.1 == code) with
    | some (_, (m, n)) => do
      let g ← findClass c.safe c.env m n
      pure { push s g with events := .resolved m n :: s.events, extCache := (code, g) :: s.extCache }
    | Option.none => .error (.vm "unregistered extension code")
  | .persid pid => .ok (push s (persistentLoad (.str pid)))
  | .binpersid =>
    match s.stack with
    | pid :: rest => .ok { s with stack := persistentLoad pid :: rest }
    | [] => .error (.vm "BINPERSID")
  | .unsupported _ => .error (.vm "unsupported opcode")

/-- execute a program; `STOP` returns the top of the stack -/
def run (c : Cfg) : St → List Op → Except Err (PObj × St)
  | _, [] => .error (.vm "ran off the end without STOP")
  | s, .stop :: _ =>
    match s.stack with
    | x :: _ => .ok (x, s)
    | [] => .error (.vm "STOP on empty stack")
  | s, op :: ops =>
    match step c s op with
    | .ok s' => run c s' ops
    | .error e => .error e

/-- the states a run passes through (for statements about "every step") -/
def states (c : Cfg) : St → List Op → List St
  | s, [] => [s]
  | s, .stop :: _ => [s]
  | s, op :: ops =>
    match step c s op with
    | .ok s' => s :: states c s' ops
    | .error _ => [s]

end Pickle
