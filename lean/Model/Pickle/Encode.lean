import Model.Pickle.VM
/-!
The protocol-4 pickler as `Delta.dumps()` drives it (`_RestrictedPickler`, `pickle.Pickler.save`),
for the delta vocabulary: plain data, types as values (`STACK_GLOBAL`), `NoneType` through the
persistent id `"<<NoneType>>"`, and objects pickled through `__reduce_ex__` (`REDUCE`, `NEWOBJ`,
`BUILD`).  Deviations from CPython's pickler, none of which change what is decoded: no `FRAME`
length, no `BINGET` reuse of an already memoised object (tree-shaped payloads), no batching of
more than 1000 items into several `APPENDS`/`SETITEMS`/`ADDITEMS`.
-/
namespace Pickle

mutual
def enc : PObj → List Op
  | .none => [.none]
  | .bool b => [if b then .newtrue else .newfalse]
  | .int i => [.int i]
  | .float r => [.float r]
  | .str s => [.str s, .memoize]
  | .bytes s => [.bytes s, .memoize]
  | .tuple xs =>
    match xs with
    | [] => [.emptyTuple]
    | [a] => enc a ++ [.tuple1, .memoize]
    | [a, b] => enc a ++ (enc b ++ [.tuple2, .memoize])
    | [a, b, d] => enc a ++ (enc b ++ (enc d ++ [.tuple3, .memoize]))
    | a :: b :: d :: e :: rest => .mark :: (encL (a :: b :: d :: e :: rest) ++ [.tuple, .memoize])
  | .list xs =>
    match xs with
    | [] => [.emptyList, .memoize]
    | [a] => .emptyList :: .memoize :: (enc a ++ [.append])
    | a :: b :: rest => .emptyList :: .memoize :: .mark :: (encL (a :: b :: rest) ++ [.appends])
  | .dict kvs =>
    match kvs with
    | [] => [.emptyDict, .memoize]
    | [(k, v)] => .emptyDict :: .memoize :: (enc k ++ (enc v ++ [.setitem]))
    | p :: q :: rest => .emptyDict :: .memoize :: .mark :: (encP (p :: q :: rest) ++ [.setitems])
  | .set xs =>
    match xs with
    | [] => [.emptySet, .memoize]
    | a :: rest => .emptySet :: .memoize :: .mark :: (encL (a :: rest) ++ [.additems])
  | .frozenset xs => .mark :: (encL xs ++ [.frozenset, .memoize])
  | .glob m n => [.str m, .memoize, .str n, .memoize, .stackGlobal, .memoize]
  | .noneType => [.str "<<NoneType>>", .memoize, .binpersid]
  | .call f a => enc f ++ (enc a ++ [.reduce, .memoize])
  | .newobj f a => enc f ++ (enc a ++ [.newobj, .memoize])
  | .built o st => enc o ++ (enc st ++ [.build])
  | .bytearray _ | .newobjEx _ _ _ | .inst _ _ | .extended _ _ => [.unsupported "not in the delta vocabulary"]
def encL : List PObj → List Op
  | [] => []
  | x :: xs => enc x ++ encL xs
def encP : List (PObj × PObj) → List Op
  | [] => []
  | (k, v) :: xs => enc k ++ (enc v ++ encP xs)
end

/-- `pickle_dump(obj)`: PROTO 4, FRAME, the object, STOP -/
def dump (o : PObj) : List Op := .proto 4 :: .frame :: (enc o ++ [.stop])

/-- run a list of ops that contains no STOP -/
def execOps (c : Cfg) : St → List Op → Except Err St
  | s, [] => .ok s
  | s, op :: ops =>
    match step c s op with
    | .ok s' => execOps c s' ops
    | .error e => .error e

def pairwiseNe (xs : List PObj) : Bool :=
  match xs with
  | [] => true
  | x :: rest => rest.all (fun y => !keyEq x y) && pairwiseNe rest

mutual
/-- the payloads the encoder is specified for: every global allowed and resolvable, dict keys /
set items pairwise different, calls only on callables with tuple arguments -/
def encodable (c : Cfg) : PObj → Bool
  | .none | .bool _ | .int _ | .float _ | .str _ | .bytes _ | .noneType => true
  | .tuple xs | .list xs => encodableL c xs
  | .set xs | .frozenset xs => encodableL c xs && pairwiseNe xs
  | .dict kvs => encodableP c kvs && pairwiseNe (kvs.map (·.1))
  | .glob m n => decide ((m ++ "." ++ n) ∈ c.safe) && decide (c.env m n = .ok)
  | .call f a | .newobj f a =>
    encodable c f && encodable c a && callable f && (match a with | .tuple _ => true | _ => false)
  | .built o st => encodable c o && encodable c st && callable o
  | .bytearray _ | .newobjEx _ _ _ | .inst _ _ | .extended _ _ => false
def encodableL (c : Cfg) : List PObj → Bool
  | [] => true
  | x :: xs => encodable c x && encodableL c xs
def encodableP (c : Cfg) : List (PObj × PObj) → Bool
  | [] => true
  | (k, v) :: xs => encodable c k && encodable c v && encodableP c xs
end

end Pickle
