import Model.Pickle.Encode
import Model.Wire
/-! Line protocol for the pickle VM.
`PKL S <k> <safe…> X <k> (<code> <m> <n>)… E <k> (<m> <n> <flag>)… P <op>…` -/
namespace Pickle
open Wire

mutual
def render : PObj → String
  | .none => "N"
  | .bool b => if b then "T" else "F"
  | .int i => "i" ++ toString i
  | .float r => "f" ++ encStr r
  | .str s => "s" ++ encStr s
  | .bytes s => "b" ++ encStr s
  | .bytearray s => "y" ++ encStr s
  | .list xs => "L(" ++ ",".intercalate (renderL xs) ++ ")"
  | .tuple xs => "U(" ++ ",".intercalate (renderL xs) ++ ")"
  | .dict kvs => "D(" ++ ",".intercalate (renderP kvs) ++ ")"
  | .set xs => "S(" ++ ",".intercalate (sortStrings (renderL xs)) ++ ")"
  | .frozenset xs => "Z(" ++ ",".intercalate (sortStrings (renderL xs)) ++ ")"
  | .glob m n => "G" ++ encStr m ++ "/" ++ encStr n
  | .noneType => "NT"
  | .call f a => "C(" ++ render f ++ ";" ++ render a ++ ")"
  | .newobj c a => "O(" ++ render c ++ ";" ++ render a ++ ")"
  | .newobjEx c a k => "OX(" ++ render c ++ ";" ++ render a ++ ";" ++ render k ++ ")"
  | .inst c a => "I(" ++ render c ++ ";" ++ ",".intercalate (renderL a) ++ ")"
  | .built o st => "B(" ++ render o ++ ";" ++ render st ++ ")"
  | .extended o xs => "E(" ++ render o ++ ";" ++ ",".intercalate (renderL xs) ++ ")"
def renderL : List PObj → List String
  | [] => []
  | x :: xs => render x :: renderL xs
def renderP : List (PObj × PObj) → List String
  | [] => []
  | (k, v) :: xs => (render k ++ ":" ++ render v) :: renderP xs
end

def renderErr : Err → String
  | .forbidden m n => "forbidden " ++ encStr (m ++ "." ++ n)
  | .moduleNotFound m n => "modnotfound " ++ encStr (m ++ "." ++ n)
  | .attrError m n => "attrerror " ++ encStr (m ++ "." ++ n)
  | .vm _ => "vmerror"

def renderEvent : Event → String
  | .resolved m n => "r:" ++ encStr (m ++ "." ++ n)
  | .called f => "c:" ++ render f

def parseOp (t : String) : Option Op :=
  let (name, arg) := splitEq t
  let two (k : String → String → Op) : Option Op :=
    match arg.splitOn "," with
    | [a, b] => do let a ← decStr a; let b ← decStr b; pure (k a b)
    | _ => none
  match name with
  | "proto" => arg.toNat?.map Op.proto
  | "frame" => some .frame
  | "stop" => some .stop
  | "none" => some .none
  | "newtrue" => some .newtrue
  | "newfalse" => some .newfalse
  | "int" => arg.toInt?.map Op.int
  | "float" => (decStr arg).map Op.float
  | "str" => (decStr arg).map Op.str
  | "bytes" => (decStr arg).map Op.bytes
  | "bytearray" => (decStr arg).map Op.bytearray
  | "emptylist" => some .emptyList
  | "emptytuple" => some .emptyTuple
  | "emptydict" => some .emptyDict
  | "emptyset" => some .emptySet
  | "mark" => some .mark
  | "pop" => some .pop
  | "popmark" => some .popMark
  | "dup" => some .dup
  | "append" => some .append
  | "appends" => some .appends
  | "setitem" => some .setitem
  | "setitems" => some .setitems
  | "additems" => some .additems
  | "list" => some .list
  | "tuple" => some .tuple
  | "tuple1" => some .tuple1
  | "tuple2" => some .tuple2
  | "tuple3" => some .tuple3
  | "dict" => some .dict
  | "frozenset" => some .frozenset
  | "put" => arg.toNat?.map Op.put
  | "get" => arg.toNat?.map Op.get
  | "memoize" => some .memoize
  | "global" => two Op.global
  | "stackglobal" => some .stackGlobal
  | "inst" => two Op.instOp
  | "obj" => some .obj
  | "newobj" => some .newobj
  | "newobjex" => some .newobjEx
  | "reduce" => some .reduce
  | "build" => some .build
  | "ext" => arg.toInt?.map Op.ext
  | "persid" => (decStr arg).map Op.persid
  | "binpersid" => some .binpersid
  | "unsupported" => some (.unsupported arg)
  | _ => none

def parseFlag : String → Option Resolve
  | "ok" => some .ok | "nomod" => some .noModule | "noattr" => some .noAttr | _ => none

def takeN {α} (n : Nat) (per : Nat) (ts : List String) (f : List String → Option α) :
    Option (List α × List String) :=
  match n with
  | 0 => some ([], ts)
  | n + 1 =>
    if ts.length < per then none else do
      let a ← f (ts.take per)
      let (as, rest) ← takeN n per (ts.drop per) f
      pure (a :: as, rest)

def runLine (ts : List String) : String :=
  let parsed : Option (Cfg × List Op) := do
    match ts with
    | "S" :: k :: rest =>
      let k ← k.toNat?
      let (safe, rest) ← takeN k 1 rest (fun l => l.head? >>= decStr)
      match rest with
      | "X" :: k :: rest =>
        let k ← k.toNat?
        let (ext, rest) ← takeN k 3 rest (fun l => match l with
          | [c, m, n] => do pure ((← c.toInt?), ((← decStr m), (← decStr n)))
          | _ => none)
        match rest with
        | "E" :: k :: rest =>
          let k ← k.toNat?
          let (envl, rest) ← takeN k 3 rest (fun l => match l with
            | [m, n, f] => do pure ((← decStr m), (← decStr n), (← parseFlag f))
            | _ => none)
          match rest with
          | "P" :: ops =>
            let ops ← ops.mapM parseOp
            let env : Env := fun m n =>
              match envl.find? (fun e => e.1 == m && e.2.1 == n) with
              | some e => e.2.2
              | none => .noModule
            pure ({ safe := Gen.safeToImport ++ safe, env := env, ext := ext }, ops)
          | _ => none
        | _ => none
      | _ => none
    | _ => none
  match parsed with
  | none => "bad-op"
  | some (c, ops) =>
    match run c {} ops with
    | .ok (o, s) => "ok " ++ render o ++ " ev=" ++ "|".intercalate (s.events.reverse.map renderEvent)
    | .error e =>
      let evs := match (states c {} ops).getLast? with
        | some st => st.events.reverse
        | none => []
      renderErr e ++ " ev=" ++ "|".intercalate (evs.map renderEvent)

/-- `FC S <k> <safe…> <m> <n> <flag>`: the bare find_class decision -/
def fcLine (ts : List String) : String :=
  let parsed : Option (List String × String × String × Resolve) := do
    match ts with
    | "S" :: k :: rest =>
      let k ← k.toNat?
      let (safe, rest) ← takeN k 1 rest (fun l => l.head? >>= decStr)
      match rest with
      | [m, n, f] => pure (safe, (← decStr m), (← decStr n), (← parseFlag f))
      | _ => none
    | _ => none
  match parsed with
  | none => "bad-op"
  | some (safe, m, n, f) =>
    match findClass (Gen.safeToImport ++ safe) (fun _ _ => f) m n with
    | .ok o => "ok " ++ render o
    | .error e => renderErr e

end Pickle

namespace Pickle
open Wire

/-- prefix-token parser for objects sent by the harness (`ENC` requests); fuel = token count -/
def parseObj : Nat → List String → Option (PObj × List String)
  | 0, _ => none
  | fuel + 1, t :: rest =>
    let many (n : Nat) (ts : List String) : Option (List PObj × List String) :=
      n.fold (fun _ _ acc => do
        let (xs, ts) ← acc
        let (x, ts) ← parseObj fuel ts
        pure (xs ++ [x], ts)) (some ([], ts))
    if t == "N" then some (.none, rest)
    else if t == "T" then some (.bool true, rest)
    else if t == "F" then some (.bool false, rest)
    else if t == "NT" then some (.noneType, rest)
    else if t == "C" then do
      let (f, r) ← parseObj fuel rest; let (a, r) ← parseObj fuel r; pure (.call f a, r)
    else if t == "O" then do
      let (f, r) ← parseObj fuel rest; let (a, r) ← parseObj fuel r; pure (.newobj f a, r)
    else if t == "B" then do
      let (f, r) ← parseObj fuel rest; let (a, r) ← parseObj fuel r; pure (.built f a, r)
    else
      let body := (t.drop 1).toString
      match t.toList.head? with
      | some 'i' => body.toInt?.map (fun i => (.int i, rest))
      | some 'f' => (decStr body).map (fun s => (.float s, rest))
      | some 's' => (decStr body).map (fun s => (.str s, rest))
      | some 'b' => (decStr body).map (fun s => (.bytes s, rest))
      | some 'G' =>
        match body.splitOn "/" with
        | [m, n] => do pure (.glob (← decStr m) (← decStr n), rest)
        | _ => none
      | some 'L' => do let n ← body.toNat?; let (xs, r) ← many n rest; pure (.list xs, r)
      | some 'U' => do let n ← body.toNat?; let (xs, r) ← many n rest; pure (.tuple xs, r)
      | some 'S' => do let n ← body.toNat?; let (xs, r) ← many n rest; pure (.set xs, r)
      | some 'Z' => do let n ← body.toNat?; let (xs, r) ← many n rest; pure (.frozenset xs, r)
      | some 'D' => do
        let n ← body.toNat?
        let (xs, r) ← many (2 * n) rest
        let ps ← pairUp xs
        pure (.dict ps, r)
      | _ => none
  | _, [] => none

def showOp : Op → String
  | .proto n => "proto=" ++ toString n | .frame => "frame" | .stop => "stop"
  | .none => "none" | .newtrue => "newtrue" | .newfalse => "newfalse"
  | .int i => "int=" ++ toString i | .float r => "float=" ++ encStr r | .str s => "str=" ++ encStr s
  | .bytes s => "bytes=" ++ encStr s | .bytearray s => "bytearray=" ++ encStr s
  | .emptyList => "emptylist" | .emptyTuple => "emptytuple" | .emptyDict => "emptydict" | .emptySet => "emptyset"
  | .mark => "mark" | .pop => "pop" | .popMark => "popmark" | .dup => "dup"
  | .append => "append" | .appends => "appends" | .setitem => "setitem" | .setitems => "setitems" | .additems => "additems"
  | .list => "list" | .tuple => "tuple" | .tuple1 => "tuple1" | .tuple2 => "tuple2" | .tuple3 => "tuple3"
  | .dict => "dict" | .frozenset => "frozenset"
  | .put i => "put=" ++ toString i | .get i => "get=" ++ toString i | .memoize => "memoize"
  | .global m n => "global=" ++ encStr m ++ "," ++ encStr n | .stackGlobal => "stackglobal"
  | .instOp m n => "inst=" ++ encStr m ++ "," ++ encStr n | .obj => "obj"
  | .newobj => "newobj" | .newobjEx => "newobjex" | .reduce => "reduce" | .build => "build"
  | .ext c => "ext=" ++ toString c | .persid p => "persid=" ++ encStr p | .binpersid => "binpersid"
  | .unsupported n => "unsupported=" ++ n

/-- `ENC <obj tokens>`: the model pickler's op list for the object, then what the model VM makes of it -/
def encLine (ts : List String) : String :=
  match parseObj (ts.length + 1) ts with
  | some (o, []) =>
    let ops := dump o
    let c : Cfg := { safe := Gen.safeToImport, env := fun _ _ => .ok, ext := [] }
    let back := match run c {} ops with
      | .ok (o', _) => if render o' == render o then "roundtrip-ok" else "roundtrip-DIFF " ++ render o'
      | .error e => "roundtrip-" ++ renderErr e
    back ++ " ops=" ++ " ".intercalate (ops.map showOp)
  | _ => "bad-op"

end Pickle
