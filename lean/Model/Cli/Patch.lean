import Model.Cli.SaveFS
import Model.Delta.Apply
/-!
Model of the two commands of C20 as functions over the file system of `Model/Cli/SaveFS.lean`:

    deep diff A B --create-patch     load both files, DeepDiff, Delta(diff).dumps() to stdout
    deep patch A patch [--backup]    Delta(delta_path=patch); content = load(A); save(delta + content, A)

The text layers are parameters (`Codec`): reading and writing a document (`load_path_content` / `json_dumps`) and
persisting a delta (`pickle_dump` / `pickle_load`, property C14).  Everything between them is the diff model, the payload
builder and `Delta.__add__` of the Delta model.
-/
namespace CliPatch
open Py Diff Delta SaveFS

structure Codec where
  parse : String → Option PyVal          -- load_path_content: `none` = the file does not load
  render : PyVal → Option String         -- json_dumps: `none` = it raises
  dumpDelta : DeltaD → String            -- Delta.dumps()
  loadDelta : String → Option DeltaD     -- Delta(delta_path=...)

/-- `deep diff A B --create-patch`: what is written to stdout; `none` = the command exits with an error -/
def cliDiff (C : Codec) (cfg : DCfg) (al : Align) (hashOf : PyVal → String) (fs : FS) (pA pB : String) : Option String :=
  match fs pA, fs pB with
  | some sa, some sb =>
    match C.parse sa, C.parse sb with
    | some a, some b => some (C.dumpDelta (buildDelta true false a b (deepDiff cfg al hashOf a b)))
    | _, _ => Option.none
  | _, _ => Option.none

/-- `deep patch A patch [--backup]` with a fault injected into the save: the new file system and whether the command
reported an error; `none` = it exits before touching anything (the patch or `A` does not load) -/
def cliPatch (C : Codec) (fs : FS) (pA pD : String) (keep : Bool) (f : Fault) : Option (FS × Bool) :=
  match fs pD with
  | Option.none => Option.none
  | some sd =>
    match C.loadDelta sd with
    | Option.none => Option.none
    | some d =>
      match fs pA with
      | Option.none => Option.none
      | some sa =>
        match C.parse sa with
        | Option.none => Option.none
        | some a => save (C.render (applyDelta false d a).root) fs pA keep f

end CliPatch
