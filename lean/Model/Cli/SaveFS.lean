/-!
Model of `deepdiff.serialization.save_content_to_path` / `_save_content` (the JSON branch) as a
state machine over a file system `path ↦ content`, with a fault injected at one of the steps of
`_save_content` (open the target, serialise, write, close).

    backup_path = f"{path}.bak"
    os.rename(path, backup_path)
    try:     _save_content(...)           # with open(path,'w') as f: s = json_dumps(c); f.write(s)
    except:  os.rename(backup_path, path); raise
    else:    if not keep_backup: os.remove(backup_path)

POSIX semantics assumed for rename (atomically replaces the destination) and remove; a failure of
the *restoring* rename itself is not modelled.
-/
namespace SaveFS

abbrev FS := String → Option String

def FS.set (fs : FS) (p : String) (v : Option String) : FS := fun q => if q = p then v else fs q

/-- `os.rename(a, b)` when `a` exists -/
def rename (fs : FS) (a b : String) : FS := (fs.set b (fs a)).set a none

inductive Fault where
  | none
  | openFails                       -- open(path, 'w') raises: the target is not created
  | serialiseFails                  -- json_dumps raises (injected, or the content is not serialisable)
  | writeFails (partialText : String)   -- write raises after `partialText` reached the file
  | closeFails (written : String)   -- close/flush raises; `written` is what reached the file
deriving Repr, DecidableEq

/-- `_save_content(content, path, 'json')`: returns the new file system and whether it raised -/
def saveContent (ser : Option String) (fs : FS) (path : String) (f : Fault) : FS × Bool :=
  match f with
  | .openFails => (fs, true)
  | _ =>
    let fs1 := fs.set path (some "")            -- open(path, 'w') creates / truncates
    match f, ser with
    | .serialiseFails, _ => (fs1, true)
    | _, Option.none => (fs1, true)             -- json_dumps raises on its own
    | .writeFails part, some _ => (fs1.set path (some part), true)
    | .closeFails w, some _ => (fs1.set path (some w), true)
    | _, some s => (fs1.set path (some s), false)

def bak (path : String) : String := path ++ ".bak"

/-- `save_content_to_path(content, path, 'json', keep_backup)`; `none` when `path` does not exist
(the first rename raises FileNotFoundError and nothing changes) -/
def save (ser : Option String) (fs : FS) (path : String) (keep : Bool) (f : Fault) : Option (FS × Bool) :=
  match fs path with
  | Option.none => Option.none
  | some _ =>
    let fs1 := rename fs path (bak path)
    let (fs2, raised) := saveContent ser fs1 path f
    if raised then some (rename fs2 (bak path) path, true)
    else if keep then some (fs2, false)
    else some (fs2.set (bak path) Option.none, false)

end SaveFS

namespace SaveFS

/-- `SAVEFS <keep T|F> <fault none|open|ser|write|close> <ser enc|-> <orig enc> <partial enc>` -/
def saveLine (dec : String → Option String) (enc : String → String) (ts : List String) : String :=
  match ts with
  | [keep, fault, ser, orig, part] =>
    match dec orig, dec part with
    | some orig, some part =>
      let serO : Option String := if ser == "-" then none else dec ser
      let f : Option Fault := match fault with
        | "none" => some .none | "open" => some .openFails | "ser" => some .serialiseFails
        | "write" => some (.writeFails part) | "close" => some (.closeFails part) | _ => Option.none
      match f with
      | some f =>
        let fs : FS := fun p => if p = "A.json" then some orig else Option.none
        match save serO fs "A.json" (keep == "T") f with
        | some (fs', raised) =>
          let sh (o : Option String) := match o with | some s => enc s | Option.none => "-"
          "A=" ++ sh (fs' "A.json") ++ " BAK=" ++ sh (fs' "A.json.bak") ++ " raised=" ++ (if raised then "T" else "F")
        | Option.none => "missing"
      | Option.none => "bad-op"
    | _, _ => "bad-op"
  | _ => "bad-op"

end SaveFS
