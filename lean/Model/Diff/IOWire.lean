import Model.Diff.IgnoreOrder
import Model.Diff.Wire
/-! `IODIFF <rep> <thrN> <thrD> <ignorePrivate> <verbose> P <n> (<path> <addedHash> <removedHash>)* <t1> <t2>` -/
namespace DiffIO
open Py Diff

def takePairs (n : Nat) (ts : List String) : Option (Pairs × List String) :=
  n.fold (fun _ _ acc => do
    let (ps, ts) ← acc
    match ts with
    | p :: a :: r :: rest => do
      let path ← Wire.decStr p
      pure (ps ++ [(path, a, r)], rest)
    | _ => none) (some ([], ts))

def iodiffLine (ts : List String) : String :=
  match ts with
  | rp :: tn :: td :: ip :: vb :: "P" :: np :: rest =>
    match tn.toNat?, td.toNat?, vb.toNat?, np.toNat? with
    | some tn, some td, some vb, some np =>
      match takePairs np rest with
      | some (ps, rest) =>
        match parseVals 2 rest with
        | some ([a, b], []) =>
          let c : IOCfg := { rep := rp == "T", thrNum := tn, thrDen := td, ignorePrivate := ip == "T" }
          let hashOf := Hash.deepHash { ignoreRepetition := !c.rep } Sha256.hex
          let r := deepDiff c hashOf ps a b
          showEntries (textView vb r.tree)
        | _ => "bad-op"
      | none => "bad-op"
    | _, _, _, _ => "bad-op"
  | _ => "bad-op"

end DiffIO
