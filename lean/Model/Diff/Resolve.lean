import Model.Diff.Ordered
/-! Resolving the t1-side / t2-side of a level in the inputs (what `extract(t1, path)` /
`extract(t2, new_path)` do once the path string is parsed — C09). -/
namespace Diff
open Py

/-- `obj[param]` -/
def getItem : PyVal → PyVal → Option PyVal
  | .dict kvs, k => dictGet kvs k
  | .list xs, .int i => if 0 ≤ i then xs[i.toNat]? else Option.none
  | .tuple xs, .int i => if 0 ≤ i then xs[i.toNat]? else Option.none
  | _, _ => Option.none

/-- follow the t1-side (`useT2 = false`) or t2-side params of the steps; set steps are not
addressable -/
def follow (root : PyVal) : List Step → Bool → Option PyVal
  | [], _ => some root
  | s :: rest, useT2 =>
    match s.rel, (if useT2 then s.p2 else s.p1) with
    | .set, _ => Option.none
    | _, some p => (getItem root p).bind (fun c => follow c rest useT2)
    | _, Option.none => Option.none

/-- an entry is *backed by the inputs*: its steps extend `steps0`, its t1 (when present) is what
the t1-side params lead to in `a`, its t2 what the t2-side params lead to in `b` -/
def Backed (a b : PyVal) (steps0 : List Step) (e : Cat × Level) : Prop :=
  ∃ rest, e.2.steps = steps0 ++ rest ∧
    (∀ v, e.2.t1 = some v → follow a rest false = some v) ∧
    (∀ v, e.2.t2 = some v → follow b rest true = some v)

def isSetCat : Cat → Bool
  | .setAdded | .setRemoved => true
  | _ => false

end Diff
