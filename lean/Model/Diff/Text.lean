import Model.Diff.Ordered
import Model.Py.Wire
/-!
`TextResult._from_tree_results` (the text view) as a list of entries, and the canonical wire
rendering used by the correspondence check.
-/
namespace Diff
open Py

inductive Field where
  | val (v : PyVal)
  | typ (name : String)
  | path (p : Option String)
  | udiff                        -- a unified text diff of old/new value is attached
  | idxs (xs : List Nat)
deriving Repr

structure TextEntry where
  cat : String
  key : Option String            -- the path (or the peculiar `path[item]` string of set items); none = unrepresentable
  fields : List (String × Field)
deriving Repr

/-- `str(item)` for the items that can appear in a set; `none` outside the modelled cases -/
def pyStr : PyVal → Option String
  | .none => some "None"
  | .bool b => some (if b then "True" else "False")
  | .int i => some (toString i)
  | .float n s => some (floatRepr n s)
  | .str s => some s
  | _ => Option.none

def itemOf (l : Level) : PyVal := (l.t2.orElse (fun _ => l.t1)).getD .none

def entryOf (verbose : Nat) (c : Cat) (l : Level) : Option TextEntry :=
  let p := pathStr l.steps false
  let p2 := pathStr l.steps true
  let newPath : List (String × Field) := if verbose > 1 && p != p2 then [("new_path", .path p2)] else []
  match c with
  | .typeChanges =>
    some ⟨c.name, p,
      [("old_type", .typ (typeName (l.t1.getD .none))), ("new_type", .typ (typeName (l.t2.getD .none)))] ++ newPath ++
      (if verbose ≥ 1 then [("old_value", .val (l.t1.getD .none)), ("new_value", .val (l.t2.getD .none))] else [])⟩
  | .dictAdded | .dictRemoved =>
    some ⟨c.name, p, if verbose ≥ 2 then [("value", .val (itemOf l))] else []⟩
  | .valuesChanged =>
    if verbose > 0 then
      some ⟨c.name, p, [("new_value", .val (l.t2.getD .none)), ("old_value", .val (l.t1.getD .none))] ++ newPath ++
        (if l.udiff then [("diff", .udiff)] else [])⟩
    else Option.none
  | .iterAdded | .iterRemoved => some ⟨c.name, p, [("value", .val (itemOf l))]⟩
  | .iterMoved =>
    if verbose > 1 then some ⟨c.name, p, [("new_path", .path p2), ("value", .val (l.t2.getD .none))]⟩ else Option.none
  | .setAdded | .setRemoved =>
    let up := pathStr l.steps.dropLast false
    let item := if c == .setAdded then l.t2.getD .none else l.t1.getD .none
    let shown : Option String := match item with
      | .str s => some ("'" ++ s ++ "'")
      | .bytes _ => Option.none
      | v => pyStr v
    some ⟨c.name, (shown.map fun s => (up.getD "None") ++ "[" ++ s ++ "]"), []⟩
  | .repetitionChange =>
    some ⟨c.name, p, [("old_indexes", .idxs l.repOld), ("new_indexes", .idxs l.repNew), ("value", .val (l.t1.getD .none))]⟩

/-- the text view at a verbosity level -/
def textView (verbose : Nat) (t : Tree) : List TextEntry := t.filterMap (fun e => entryOf verbose e.1 e.2)

/-! ### wire -/

def showField : Field → String
  | .val v => "v:" ++ (showVal v).replace " " ","
  | .typ n => "t:" ++ n
  | .path p => "p:" ++ (p.map Wire.encStr).getD "None"
  | .udiff => "udiff"
  | .idxs xs => "x:" ++ ",".intercalate (xs.map toString)

def showEntry (e : TextEntry) : String :=
  e.cat ++ "|" ++ (e.key.map Wire.encStr).getD "None" ++ "|" ++ ";".intercalate (e.fields.map fun (n, f) => n ++ "=" ++ showField f)

def showEntries (es : List TextEntry) : String :=
  if es.isEmpty then "{}" else " ".intercalate (Wire.sortStrings (es.map showEntry))

end Diff
