import Model.Diff.Tree
/-!
Model of `DeepDiff._diff` and the `_diff_*` family for ordered comparison
(`ignore_order=False`): dispatch, `_diff_dict` (key sets, threshold shortcut), `_diff_iterable_in_order`
(difflib pass vs pairwise pass), `_diff_by_forming_pairs_and_comparing_one_by_one`, `_diff_set`,
`_diff_str`, numbers/booleans, and `mutual_add_removes_to_become_value_changes`.

Oracles: `al` = `difflib.SequenceMatcher(a, b, autojunk=False).get_opcodes()`; `hashOf` =
`DeepHash(item, **deephash_parameters)[item]` (used by `_diff_set`).
-/
namespace Diff
open Py

abbrev Align := List PyVal → List PyVal → List Opcode

structure DCfg where
  zip : Bool := false                  -- zip_ordered_iterables
  thrNum : Nat := 33                   -- threshold_to_diff_deeper = thrNum / thrDen
  thrDen : Nat := 100
  ignorePrivate : Bool := true
  reportRepetition : Bool := false
  exclude : List String := []          -- exclude_paths (already in `root…` form)
  excludePrefix : List String := []    -- exclude_regex_paths of the anchored form  ^<escaped path>(\[|$)
  incl : List String := []             -- include_paths
deriving Repr

/-- `needle in hay` for strings -/
def isSubstr (needle hay : String) : Bool :=
  let n := needle.toList
  let rec go : List Char → Bool
    | [] => n.isEmpty
    | c :: cs => (n.isPrefixOf (c :: cs)) || go cs
  go hay.toList

/-- `_skip_this(level)` for the path-based options (`level.path()` is `none` for set members) -/
def skipPath (cfg : DCfg) (lp : Option String) : Bool :=
  let p := lp.getD "None"
  let s0 := !cfg.exclude.isEmpty && lp.isSome && cfg.exclude.contains p
  if !cfg.incl.isEmpty && p != "root" then
    if lp.isSome && cfg.incl.contains p then s0
    else !(cfg.incl.any (fun pre => isSubstr pre p || isSubstr p pre))
  else if !cfg.excludePrefix.isEmpty && cfg.excludePrefix.any (fun pre => p == pre || p.startsWith (pre ++ "[")) then true
  else s0

def skipSteps (cfg : DCfg) (steps : List Step) : Bool := skipPath cfg (pathStr steps false)

/-- `_skip_this_key(level, key)` (only consulted when include_paths is given) -/
def skipKey (cfg : DCfg) (steps : List Step) (key : PyVal) : Bool :=
  if cfg.incl.isEmpty then false
  else
    let lp := (pathStr steps false).getD "None"
    let keyTxt : String := match key with
      | .str s => s | .int i => toString i | .float n sc => floatRepr n sc | .none => "None"
      | .bool b => if b then "True" else "False" | _ => "?"
    let kp := lp ++ "['" ++ keyTxt ++ "']"
    if cfg.incl.contains kp then false
    else if cfg.incl.contains lp then false
    else if cfg.incl.any (fun pre => isSubstr kp pre) then false
    else
      -- a higher level included as a whole
      let ups := (List.range steps.length).map (fun n => (pathStr (steps.take n) false).getD "None")
      !(ups.any (fun u => cfg.incl.contains u))

/-- `isinstance(item, basic_types)` within the universe -/
def isBasic : PyVal → Bool
  | .none | .bool _ | .int _ | .float _ _ | .str _ | .bytes _ => true
  | _ => false

def isPrivate : PyVal → Bool
  | .str s => s.startsWith "__"
  | _ => false

/-- Python `str.splitlines()` (line boundaries: \n \r \r\n \v \f \x1c \x1d \x1e \x85    ) -/
def isLineBreak (c : Char) : Bool :=
  c == '\n' || c == '\r' || c.toNat == 0x0b || c.toNat == 0x0c || c.toNat == 0x1c || c.toNat == 0x1d ||
  c.toNat == 0x1e || c.toNat == 0x85 || c.toNat == 0x2028 || c.toNat == 0x2029

def splitLinesAux : List Char → List Char → List (List Char)
  | [], cur => if cur.isEmpty then [] else [cur.reverse]
  | '\r' :: '\n' :: rest, cur => cur.reverse :: splitLinesAux rest []
  | c :: rest, cur => if isLineBreak c then cur.reverse :: splitLinesAux rest [] else splitLinesAux rest (c :: cur)

def splitLines (s : String) : List (List Char) := splitLinesAux s.toList []

def strText : PyVal → Option String
  | .str s => some s
  | .bytes s => some s
  | _ => Option.none

/-- the comparison of two non-container values of the same type: `_diff_str`, `_diff_numbers`,
`_diff_booleans`; `None` vs `None` is the identity shortcut -/
def leafDiff (steps : List Step) (a b : PyVal) : Tree :=
  match a, b with
  | .str s, .str t | .bytes s, .bytes t =>
    if s == t then []
    else
      let multi := s.contains '\n' || t.contains '\n'
      let ud := multi && splitLines s != splitLines t
      [(.valuesChanged, { steps := steps, t1 := some a, t2 := some b, udiff := ud })]
  | .none, .none => []
  | a, b => if numEq a b then [] else [(.valuesChanged, { steps := steps, t1 := some a, t2 := some b })]

def keysOf (cfg : DCfg) (steps : List Step) (kvs : List (PyVal × PyVal)) : List PyVal :=
  (kvs.map (·.1)).filter (fun k => !(cfg.ignorePrivate && isPrivate k) && !skipKey cfg steps k)

/-- entries that `_report_result` lets through -/
def keepReported (cfg : DCfg) (t : Tree) : Tree := t.filter (fun e => !skipSteps cfg e.2.steps)

/-- `len(intersect) / union_len < threshold` with `union_len > 1`, threshold non-zero -/
def belowThreshold (cfg : DCfg) (inter union : Nat) : Bool :=
  cfg.thrNum != 0 && union > 1 && inter * cfg.thrDen < cfg.thrNum * union

def removedLevel (steps : List Step) (rel : Rel) (p : PyVal) (v : PyVal) : Level :=
  { steps := steps ++ [⟨rel, some p, Option.none⟩], t1 := some v, t2 := Option.none }
def addedLevel (steps : List Step) (rel : Rel) (p : PyVal) (v : PyVal) : Level :=
  { steps := steps ++ [⟨rel, Option.none, some p⟩], t1 := Option.none, t2 := some v }

/-- the pairwise pass over two chunks of *basic* items (no recursion needed: children are scalars):
`zip_longest` with index offsets, moved items when the indexes differ and the values are `==` -/
def pairBasic (steps : List Step) (i j : Nat) : List PyVal → List PyVal → Tree
  | [], [] => []
  | x :: xs, [] => (.iterRemoved, removedLevel steps .iter (.int i) x) :: pairBasic steps (i + 1) (j + 1) xs []
  | [], y :: ys => (.iterAdded, addedLevel steps .iter (.int j) y) :: pairBasic steps (i + 1) (j + 1) [] ys
  | x :: xs, y :: ys =>
    let st : Step := ⟨.iter, some (.int i), some (.int j)⟩
    let here : Tree :=
      if i != j && pyEq x y then [(.iterMoved, { steps := steps ++ [st], t1 := some x, t2 := some y })]
      else if typeName x != typeName y then [(.typeChanges, { steps := steps ++ [st], t1 := some x, t2 := some y })]
      else leafDiff (steps ++ [st]) x y
    here ++ pairBasic steps (i + 1) (j + 1) xs ys

/-- `_diff_ordered_iterable_by_difflib`: the entries the opcodes give -/
def opcodeEntries (steps : List Step) (xs ys : List PyVal) : List Opcode → Tree
  | [] => []
  | op :: ops =>
    let here : Tree :=
      if op.tag == "replace" then
        pairBasic steps op.i1 op.j1 ((xs.drop op.i1).take (op.i2 - op.i1)) ((ys.drop op.j1).take (op.j2 - op.j1))
      else if op.tag == "delete" then
        (((xs.drop op.i1).take (op.i2 - op.i1)).zipIdx).map
          (fun (x, k) => (Cat.iterRemoved, removedLevel steps .iter (.int (k + op.i1)) x))
      else if op.tag == "insert" then
        (((ys.drop op.j1).take (op.j2 - op.j1)).zipIdx).map
          (fun (y, k) => (Cat.iterAdded, addedLevel steps .iter (.int (k + op.j1)) y))
      else []
    here ++ opcodeEntries steps xs ys ops

/-- `_diff_iterable_in_order`; `pairwise` is the recursive pairwise pass, used when the difflib
path does not apply -/
def iterInOrder (cfg : DCfg) (al : Align) (steps : List Step) (xs ys : List PyVal) (pairwise : Unit → Result) : Result :=
  if !cfg.zip && xs.all isBasic && ys.all isBasic then
    let ops := al xs ys
    let pass1 := keepReported cfg (opcodeEntries steps xs ys ops)
    if pass1.length ≥ 1 then
      let pass2 := keepReported cfg (pairBasic steps 0 0 xs ys)
      if pass1.length == 1 then (if pass2.length == 0 then ⟨pass2, []⟩ else ⟨pass1, []⟩)
      else if pass1.length ≥ pass2.length then ⟨pass2, []⟩ else ⟨pass1, [(steps, ops)]⟩
    else ⟨pass1, []⟩
  else pairwise ()

/-- `_diff_set`: items whose hash is only on one side -/
def diffSet (hashOf : PyVal → String) (steps : List Step) (xs ys : List PyVal) : Tree :=
  let h1 := xs.map hashOf
  let h2 := ys.map hashOf
  let added := ys.filter (fun y => !h1.contains (hashOf y))
  let removed := xs.filter (fun x => !h2.contains (hashOf x))
  added.map (fun y => (Cat.setAdded, { steps := steps ++ [⟨.set, Option.none, Option.none⟩], t1 := Option.none, t2 := some y })) ++
  removed.map (fun x => (Cat.setRemoved, { steps := steps ++ [⟨.set, Option.none, Option.none⟩], t1 := some x, t2 := Option.none }))

mutual
/-- `_diff(level)` for ordered comparison -/
def diffV (cfg : DCfg) (al : Align) (hashOf : PyVal → String) (steps : List Step) : PyVal → PyVal → Result
  | .dict kvs1, b =>
    match b with
    | .dict kvs2 =>
      let k1 := keysOf cfg steps kvs1
      let k2 := keysOf cfg steps kvs2
      let inter := k2.filter (fun k => k1.any (fun k' => keyEq k' k))
      let added := k2.filter (fun k => !k1.any (fun k' => keyEq k' k))
      let removed := k1.filter (fun k => !k2.any (fun k' => keyEq k' k))
      let unionKeys := k2 ++ removed
      let unionLen := if cfg.exclude.isEmpty then unionKeys.length
        else (unionKeys.filter (fun k => !cfg.exclude.contains ((pathStr (steps ++ [⟨.dict, some k, some k⟩]) false).getD "None"))).length
      if belowThreshold cfg inter.length unionLen then
        ⟨[(.valuesChanged, { steps := steps, t1 := some (.dict kvs1), t2 := some b })], []⟩
      else
        let addedE : Tree := added.map (fun k => (Cat.dictAdded, addedLevel steps .dict k ((dictGet kvs2 k).getD .none)))
        let removedE : Tree := removed.map (fun k => (Cat.dictRemoved, removedLevel steps .dict k ((dictGet kvs1 k).getD .none)))
        -- children are computed along t1's entries (structural) and emitted in the order of t2's keys
        let children := diffKVs cfg al hashOf steps kvs1 kvs2 k2
        let ordered : Result := inter.foldl (fun acc k =>
          match children.find? (fun p => keyEq p.1 k) with
          | some (_, r) => acc ++ r
          | Option.none => acc) {}
        ⟨addedE ++ removedE, []⟩ ++ ordered
    | _ => ⟨[(.typeChanges, { steps := steps, t1 := some (.dict kvs1), t2 := some b })], []⟩
  | .list xs, b =>
    match b with
    | .list ys => iterInOrder cfg al steps xs ys (fun _ => diffPairs cfg al hashOf steps 0 xs ys)
    | _ => ⟨[(.typeChanges, { steps := steps, t1 := some (.list xs), t2 := some b })], []⟩
  | .tuple xs, b =>
    match b with
    | .tuple ys => iterInOrder cfg al steps xs ys (fun _ => diffPairs cfg al hashOf steps 0 xs ys)
    | _ => ⟨[(.typeChanges, { steps := steps, t1 := some (.tuple xs), t2 := some b })], []⟩
  | .set xs, b =>
    match b with
    | .set ys => ⟨diffSet hashOf steps xs ys, []⟩
    | _ => ⟨[(.typeChanges, { steps := steps, t1 := some (.set xs), t2 := some b })], []⟩
  | .frozenset xs, b =>
    match b with
    | .frozenset ys => ⟨diffSet hashOf steps xs ys, []⟩
    | _ => ⟨[(.typeChanges, { steps := steps, t1 := some (.frozenset xs), t2 := some b })], []⟩
  | a, b =>
    if typeName a != typeName b then ⟨[(.typeChanges, { steps := steps, t1 := some a, t2 := some b })], []⟩
    else ⟨leafDiff steps a b, []⟩
/-- for every entry of t1 whose key is also in t2 (and is compared): the child diff, keyed by t2's key object -/
def diffKVs (cfg : DCfg) (al : Align) (hashOf : PyVal → String) (steps : List Step) :
    List (PyVal × PyVal) → List (PyVal × PyVal) → List PyVal → List (PyVal × Result)
  | [], _, _ => []
  | (k1, v1) :: rest, kvs2, k2s =>
    let tail := diffKVs cfg al hashOf steps rest kvs2 k2s
    if cfg.ignorePrivate && isPrivate k1 then tail
    else match k2s.find? (fun k => keyEq k1 k) with
      | some k =>
        match dictGet kvs2 k with
        | some v2 =>
          let st := steps ++ [⟨.dict, some k, some k⟩]
          (k, if skipSteps cfg st then {} else diffV cfg al hashOf st v1 v2) :: tail
        | Option.none => tail
      | Option.none => tail
/-- the pairwise pass over whole iterables (`t1_from_index is None`): same index on both sides -/
def diffPairs (cfg : DCfg) (al : Align) (hashOf : PyVal → String) (steps : List Step) (i : Nat) :
    List PyVal → List PyVal → Result
  | [], [] => {}
  | x :: xs, [] =>
    ⟨[(.iterRemoved, removedLevel steps .iter (.int i) x)], []⟩ ++ diffPairs cfg al hashOf steps (i + 1) xs []
  | [], y :: ys =>
    ⟨(.iterAdded, addedLevel steps .iter (.int i) y) :: ((ys.zipIdx).map fun (y', k) => (Cat.iterAdded, addedLevel steps .iter (.int (i + 1 + k)) y')), []⟩
  | x :: xs, y :: ys =>
    (if skipSteps cfg (steps ++ [⟨.iter, some (.int i), some (.int i)⟩]) then {}
     else diffV cfg al hashOf (steps ++ [⟨.iter, some (.int i), some (.int i)⟩]) x y) ++ diffPairs cfg al hashOf steps (i + 1) xs ys
end

/-- `TreeResult.mutual_add_removes_to_become_value_changes` (run when `report_repetition` is off):
an added and a removed iterable item with the same path become one `values_changed` -/
def mutualAddRemoves (t : Tree) : Tree :=
  let added := t.filter (fun e => e.1 == Cat.iterAdded)
  let removed := t.filter (fun e => e.1 == Cat.iterRemoved)
  let pathOf (l : Level) := pathStr l.steps false
  let mutualPath (p : Option String) := p.isSome && added.any (fun e => pathOf e.2 == p) && removed.any (fun e => pathOf e.2 == p)
  let kept := t.filter (fun e => !((e.1 == Cat.iterAdded || e.1 == Cat.iterRemoved) && mutualPath (pathOf e.2)))
  let merged : Tree := removed.filterMap (fun e =>
    if mutualPath (pathOf e.2) then
      match added.find? (fun a => pathOf a.2 == pathOf e.2) with
      | some a => some (Cat.valuesChanged, { e.2 with t2 := a.2.t2 })
      | Option.none => Option.none
    else Option.none)
  kept ++ merged

/-- `DeepDiff(t1, t2, ...)` up to the tree -/
def deepDiff (cfg : DCfg) (al : Align) (hashOf : PyVal → String) (t1 t2 : PyVal) : Result :=
  let r := if skipSteps cfg [] then {} else diffV cfg al hashOf [] t1 t2
  let r := { r with tree := keepReported cfg r.tree }
  if cfg.reportRepetition then r else { r with tree := mutualAddRemoves r.tree }

/-- the result as it stands when `deep_distance` is computed in `DeepDiff.__init__`: before `_get_view_results` folds
added / removed pairs of one path into `values_changed` -/
def diffUnmerged (cfg : DCfg) (al : Align) (hashOf : PyVal → String) (t1 t2 : PyVal) : Result :=
  let r := if skipSteps cfg [] then {} else diffV cfg al hashOf [] t1 t2
  { r with tree := keepReported cfg r.tree }

end Diff
