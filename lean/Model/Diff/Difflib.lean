import Model.Diff.Tree
/-!
A port of `difflib.SequenceMatcher(None, a, b, autojunk=False).get_opcodes()` (no junk, no
"popular" elements), for the driver: the theorems quantify over every valid alignment oracle, the
driver needs *the* one difflib computes.  Element equality is Python `==` on scalars (`keyEq`).
-/
namespace Diff
open Py

/-- longest matching block in a[alo:ahi], b[blo:bhi]: (i, j, size); earliest `i`, then earliest `j` among the longest -/
def findLongest (a b : Array PyVal) (alo ahi blo bhi : Nat) : Nat × Nat × Nat := Id.run do
  let mut best : Nat × Nat × Nat := (alo, blo, 0)
  let mut j2len : Array Nat := Array.replicate (b.size + 1) 0     -- j2len[j+1] = length of match ending at (i-1, j)
  for i in [alo:ahi] do
    let mut nw : Array Nat := Array.replicate (b.size + 1) 0
    for j in [blo:bhi] do
      if keyEq a[i]! b[j]! then
        let k := j2len[j]! + 1        -- j2len.get(j-1) lives at index j
        nw := nw.set! (j + 1) k
        if k > best.2.2 then best := (i + 1 - k, j + 1 - k, k)
    j2len := nw
  return best

/-- matching blocks of a[alo:ahi] / b[blo:bhi] in ascending order -/
def matchBlocks (a b : Array PyVal) : Nat → Nat → Nat → Nat → Nat → List (Nat × Nat × Nat)
  | 0, _, _, _, _ => []
  | fuel + 1, alo, ahi, blo, bhi =>
    let (i, j, k) := findLongest a b alo ahi blo bhi
    if k == 0 then []
    else
      let left := if alo < i && blo < j then matchBlocks a b fuel alo i blo j else []
      let right := if i + k < ahi && j + k < bhi then matchBlocks a b fuel (i + k) ahi (j + k) bhi else []
      left ++ [(i, j, k)] ++ right

/-- collapse adjacent equal blocks, as `get_matching_blocks` does -/
def collapse : List (Nat × Nat × Nat) → List (Nat × Nat × Nat)
  | (i1, j1, k1) :: (i2, j2, k2) :: rest =>
    if i1 + k1 == i2 && j1 + k1 == j2 then collapse ((i1, j1, k1 + k2) :: rest)
    else (i1, j1, k1) :: collapse ((i2, j2, k2) :: rest)
  | l => l
termination_by l => l.length

def opcodesFrom (blocks : List (Nat × Nat × Nat)) (i j : Nat) : List Opcode :=
  match blocks with
  | [] => []
  | (ai, bj, size) :: rest =>
    let tag := if i < ai && j < bj then "replace" else if i < ai then "delete" else if j < bj then "insert" else ""
    let pre := if tag == "" then [] else [Opcode.mk tag i ai j bj]
    let eq := if size != 0 then [Opcode.mk "equal" ai (ai + size) bj (bj + size)] else []
    pre ++ eq ++ opcodesFrom rest (ai + size) (bj + size)

/-- `get_opcodes()` -/
def difflibOpcodes (xs ys : List PyVal) : List Opcode :=
  let a := xs.toArray
  let b := ys.toArray
  let blocks := collapse (matchBlocks a b (a.size + b.size + 1) 0 a.size 0 b.size) ++ [(a.size, b.size, 0)]
  opcodesFrom blocks 0 0

end Diff
