import Model.Diff.Ordered
/-!
Model of `DeepDiff._diff` with `ignore_order=True`: lists and tuples go through
`_diff_iterable_with_deephash` (hash tables of both sides, added / removed hash sets, pairing of an
added with a removed item, recursive diff of a pair, `repetition_change`), everything else as in the
ordered model (`_diff_dict` with the threshold shortcut, `_diff_set`, leaves).

Which added hash is paired with which removed hash is decided by the distance machinery
(`_get_most_in_common_pairs_in_iterables`: rough distances, `cutoff_distance_for_pairs`,
`cutoff_intersection_for_pairs`, `max_passes`, the distance cache): all of that is the oracle `P`.
The theorems quantify over every `P`; the driver receives the pairs the real run computed.
`hashOf` is `DeepHash(item, ignore_repetition = not report_repetition)[item]`.
-/
namespace DiffIO
open Py Diff

structure IOCfg where
  rep : Bool := false                  -- report_repetition
  thrNum : Nat := 33
  thrDen : Nat := 100
  ignorePrivate : Bool := true
deriving Repr

/-- pairs chosen at a level: (level path, added hash, removed hash) -/
abbrev Pairs := List (String × String × String)

structure HEntry where
  h : String
  idxs : List Nat
  item : PyVal
deriving Repr

/-- `_create_hashtable`: hash ↦ (indexes, first item), in first-occurrence order -/
def hashTable (hashOf : PyVal → String) (xs : List PyVal) : List HEntry :=
  (xs.zipIdx).foldl (fun acc (x, i) =>
    let h := hashOf x
    if acc.any (fun e => e.h == h) then acc.map (fun e => if e.h == h then { e with idxs := e.idxs ++ [i] } else e)
    else acc ++ [{ h := h, idxs := [i], item := x }]) []

def HEntry.idx0 (e : HEntry) : Nat := e.idxs.headD 0

def toDCfg (c : IOCfg) : DCfg := { thrNum := c.thrNum, thrDen := c.thrDen, ignorePrivate := c.ignorePrivate }

/-- lazily computed child diffs: `M[i][j] p1 p2` is the diff of `xs[i]` with `ys[j]` one level deeper
under the child relationship params `p1` (t1 side) and `p2` (t2 side) -/
abbrev Matrix := List (List (Nat → Nat → Result))

def Matrix.get (m : Matrix) (i j p1 p2 : Nat) : Result :=
  match m[i]? with
  | some row => (match row[j]? with | some f => f p1 p2 | none => {})
  | none => {}

def addedOf (t1 t2 : List HEntry) : List HEntry := t2.filter (fun e => !t1.any (fun e' => e'.h == e.h))
def removedOf (t1 t2 : List HEntry) : List HEntry := t1.filter (fun e => !t2.any (fun e' => e'.h == e.h))

/-- one added hash: diffed against its partner (which is consumed) or reported as added.
State: result so far, removed hashes already used. -/
def pairStep (c : IOCfg) (P : Pairs) (lp : String) (steps : List Step) (removed : List HEntry) (m : Matrix)
    (acc : Result × List String) (a : HEntry) : Result × List String :=
  let partner : Option HEntry :=
    match P.find? (fun p => p.1 == lp && p.2.1 == a.h) with
    | some p => removed.find? (fun r => r.h == p.2.2 && !acc.2.contains r.h)
    | none => none
  let index2 : Option Nat := if a.idxs.length == 1 then some a.idx0 else none
  match partner with
  | some r =>
    if c.rep then (r.idxs.foldl (fun res i => res ++ m.get r.idx0 a.idx0 i (index2.getD i)) acc.1, acc.2 ++ [r.h])
    else (acc.1 ++ m.get r.idx0 a.idx0 r.idx0 a.idx0, acc.2 ++ [r.h])
  | none =>
    if c.rep then
      (acc.1 ++ ⟨a.idxs.map (fun (i : Nat) => (Cat.iterAdded, addedLevel steps .iter (.int (index2.getD i)) a.item)), []⟩, acc.2)
    else (acc.1 ++ ⟨[(Cat.iterAdded, addedLevel steps .iter (.int a.idx0) a.item)], []⟩, acc.2)

def removedEntries (c : IOCfg) (steps : List Step) (unpaired : List HEntry) : Tree :=
  if c.rep then unpaired.flatMap (fun r => r.idxs.map (fun (i : Nat) => (Cat.iterRemoved, removedLevel steps .iter (.int i) r.item)))
  else unpaired.map (fun r => (Cat.iterRemoved, removedLevel steps .iter (.int r.idx0) r.item))

/-- `repetition_change` for hashes on both sides with different multiplicities (only with report_repetition) -/
def repEntries (c : IOCfg) (steps : List Step) (t1 t2 : List HEntry) : Tree :=
  if c.rep then
    t2.filterMap (fun e2 =>
      match t1.find? (fun e1 => e1.h == e2.h) with
      | some e1 =>
        if e1.idxs.length != e2.idxs.length then
          some (Cat.repetitionChange, { steps := steps ++ [⟨.iter, some (.int e1.idx0), some (.int e1.idx0)⟩], t1 := some e1.item, t2 := some e2.item,
                                        repOld := e1.idxs, repNew := e2.idxs })
        else none
      | none => none)
  else []

/-- `_diff_iterable_with_deephash` given the hash tables and the child diffs -/
def ioIter (c : IOCfg) (P : Pairs) (steps : List Step) (t1 t2 : List HEntry) (m : Matrix) : Result :=
  let lp := (pathStr steps false).getD "None"
  let st := (addedOf t1 t2).foldl (pairStep c P lp steps (removedOf t1 t2) m) ({}, [])
  st.1 ++ ⟨removedEntries c steps ((removedOf t1 t2).filter (fun r => !st.2.contains r.h)) ++ repEntries c steps t1 t2, []⟩

mutual
/-- `_diff(level)` with `ignore_order=True` -/
def diffV (c : IOCfg) (hashOf : PyVal → String) (P : Pairs) (steps : List Step) : PyVal → PyVal → Result
  | .dict kvs1, b =>
    match b with
    | .dict kvs2 =>
      let cfg := toDCfg c
      let k1 := keysOf cfg steps kvs1
      let k2 := keysOf cfg steps kvs2
      let inter := k2.filter (fun k => k1.any (fun k' => keyEq k' k))
      let added := k2.filter (fun k => !k1.any (fun k' => keyEq k' k))
      let removed := k1.filter (fun k => !k2.any (fun k' => keyEq k' k))
      if belowThreshold cfg inter.length (k2.length + removed.length) then
        ⟨[(.valuesChanged, { steps := steps, t1 := some (.dict kvs1), t2 := some b })], []⟩
      else
        let addedE : Tree := added.map (fun k => (Cat.dictAdded, addedLevel steps .dict k ((dictGet kvs2 k).getD .none)))
        let removedE : Tree := removed.map (fun k => (Cat.dictRemoved, removedLevel steps .dict k ((dictGet kvs1 k).getD .none)))
        let children := diffKVs c hashOf P steps kvs1 kvs2 k2
        let ordered : Result := inter.foldl (fun acc k =>
          match children.find? (fun p => keyEq p.1 k) with
          | some (_, r) => acc ++ r
          | Option.none => acc) {}
        ⟨addedE ++ removedE, []⟩ ++ ordered
    | _ => ⟨[(.typeChanges, { steps := steps, t1 := some (.dict kvs1), t2 := some b })], []⟩
  | .list xs, b =>
    match b with
    | .list ys => ioIter c P steps (hashTable hashOf xs) (hashTable hashOf ys) (rows c hashOf P steps xs ys)
    | _ => ⟨[(.typeChanges, { steps := steps, t1 := some (.list xs), t2 := some b })], []⟩
  | .tuple xs, b =>
    match b with
    | .tuple ys => ioIter c P steps (hashTable hashOf xs) (hashTable hashOf ys) (rows c hashOf P steps xs ys)
    | _ => ⟨[(.typeChanges, { steps := steps, t1 := some (.tuple xs), t2 := some b })], []⟩
  | .set xs, b =>
    match b with
    | .set ys => ⟨diffSet hashOf steps xs ys, []⟩
    | _ => ⟨[(.typeChanges, { steps := steps, t1 := some (.set xs), t2 := some b })], []⟩
  | .frozenset xs, b =>
    match b with
    | .frozenset ys => ⟨diffSet hashOf steps xs ys, []⟩
    | _ => ⟨[(.typeChanges, { steps := steps, t1 := some (.frozenset xs), t2 := some b })], []⟩
  | a, b =>
    if typeName a != typeName b then ⟨[(.typeChanges, { steps := steps, t1 := some a, t2 := some b })], []⟩
    else ⟨leafDiff steps a b, []⟩
def diffKVs (c : IOCfg) (hashOf : PyVal → String) (P : Pairs) (steps : List Step) :
    List (PyVal × PyVal) → List (PyVal × PyVal) → List PyVal → List (PyVal × Result)
  | [], _, _ => []
  | (k1, v1) :: rest, kvs2, k2s =>
    let tail := diffKVs c hashOf P steps rest kvs2 k2s
    if c.ignorePrivate && isPrivate k1 then tail
    else match k2s.find? (fun k => keyEq k1 k) with
      | some k =>
        match dictGet kvs2 k with
        | some v2 => (k, diffV c hashOf P (steps ++ [⟨.dict, some k, some k⟩]) v1 v2) :: tail
        | Option.none => tail
      | Option.none => tail
/-- one lazily evaluated child diff per (item of t1, item of t2) -/
def rows (c : IOCfg) (hashOf : PyVal → String) (P : Pairs) (steps : List Step) : List PyVal → List PyVal → Matrix
  | [], _ => []
  | x :: xs, ys =>
    (ys.map fun y => fun p1 p2 => diffV c hashOf P (steps ++ [⟨.iter, some (.int p1), some (.int p2)⟩]) x y) :: rows c hashOf P steps xs ys
end

/-- `DeepDiff(t1, t2, ignore_order=True, report_repetition=c.rep, ...)` up to the tree -/
def deepDiff (c : IOCfg) (hashOf : PyVal → String) (P : Pairs) (t1 t2 : PyVal) : Result :=
  let r := diffV c hashOf P [] t1 t2
  if c.rep then r else { r with tree := mutualAddRemoves r.tree }

end DiffIO
