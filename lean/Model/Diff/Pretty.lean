import Model.Diff.Text
/-! `pretty()`: one statement per tree level (categories in sorted key order; levels in report
order); the statement text is not modelled, only which level it is about. -/
namespace Diff

def prettyKeys : List Cat :=
  [.dictAdded, .dictRemoved, .iterAdded, .iterMoved, .iterRemoved, .repetitionChange, .setAdded, .setRemoved, .typeChanges, .valuesChanged]

/-- the levels `pretty()` prints a statement for, in its order -/
def prettyStatements (t : Tree) : List (Cat × Level) :=
  prettyKeys.flatMap (fun c => t.filter (fun e => e.1 == c))

/-- documented visibility of a category in the text view at a verbosity level -/
def visible (verbose : Nat) : Cat → Bool
  | .valuesChanged => verbose > 0
  | .iterMoved => verbose > 1
  | _ => true

end Diff
