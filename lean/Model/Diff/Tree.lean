import Model.Py.Value
import Model.Path.Path
/-!
The result tree of a diff: a list of (category, level) in report order.  A level is the chain of
child relationships from the root plus the two leaf objects (`none` = `notpresent`).
-/
namespace Diff
open Py

inductive Cat where
  | typeChanges | dictAdded | dictRemoved | valuesChanged | iterAdded | iterRemoved | iterMoved
  | setAdded | setRemoved | repetitionChange
deriving Repr, DecidableEq

def Cat.name : Cat → String
  | .typeChanges => "type_changes" | .dictAdded => "dictionary_item_added" | .dictRemoved => "dictionary_item_removed"
  | .valuesChanged => "values_changed" | .iterAdded => "iterable_item_added" | .iterRemoved => "iterable_item_removed"
  | .iterMoved => "iterable_item_moved" | .setAdded => "set_item_added" | .setRemoved => "set_item_removed"
  | .repetitionChange => "repetition_change"

inductive Rel where | dict | iter | set
deriving Repr, DecidableEq

/-- one parent→child step: the relationship class and the params of the t1-side and t2-side
`ChildRelationship` (`none` when that side's child is `notpresent`) -/
structure Step where
  rel : Rel
  p1 : Option PyVal
  p2 : Option PyVal
deriving Repr

structure Level where
  steps : List Step
  t1 : Option PyVal
  t2 : Option PyVal
  udiff : Bool := false            -- `additional['diff']` attached (multi-line string change)
  repOld : List Nat := []          -- repetition_change: old / new indexes
  repNew : List Nat := []
deriving Repr

abbrev Tree := List (Cat × Level)

structure Opcode where
  tag : String
  i1 : Nat
  i2 : Nat
  j1 : Nat
  j2 : Nat
deriving Repr, DecidableEq

/-- result of a diff run: the tree and the `_iterable_opcodes` recorded (keyed by the list's steps) -/
structure Result where
  tree : Tree := []
  opcodes : List (List Step × List Opcode) := []
deriving Repr

def Result.append (a b : Result) : Result := ⟨a.tree ++ b.tree, a.opcodes ++ b.opcodes⟩
instance : Append Result := ⟨Result.append⟩

/-- a PyVal used as a dictionary key / index, as a `Path.Key`; tuples, bytes, containers have no
model rendering (`none`) -/
def toPathKey : PyVal → Option Path.Key
  | .str s => some (.str s.toList)
  | .int i => some (.int i)
  | .float n s => some (.float (floatRepr n s).toList)
  | .none => some .none
  | .bool b => some (.bool b)
  | _ => Option.none

/-- the param a step contributes on the t1 side (`t1_child_rel or t2_child_rel`) / t2 side -/
def Step.param (s : Step) (useT2 : Bool) : Option PyVal :=
  if useT2 then s.p2.orElse (fun _ => s.p1) else s.p1.orElse (fun _ => s.p2)

/-- `level.path(use_t2)`; `none` when some step is not representable (odd keys) -/
def pathChars (steps : List Step) (useT2 : Bool) : Option (List Char) :=
  steps.foldl (fun acc s => do
    let cs ← acc
    match s.rel with
    | .set => pure (cs ++ [':'])      -- SetRelationship: param None, no param_repr_format ↦ ":"
    | _ =>
      let p ← s.param useT2
      let k ← toPathKey p
      pure (cs ++ Path.renderKey k)) (some Path.rootChars)

def pathStr (steps : List Step) (useT2 : Bool) : Option String := (pathChars steps useT2).map String.ofList

end Diff
