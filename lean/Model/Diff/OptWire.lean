import Model.Diff.Options
import Model.Diff.Wire
/-! `DIFFO <zip> <thrN> <thrD> <ignorePrivate> <verbose> <case> <strtype> <numtype> <sig|-> <epsNum/epsScale|-> T <n> <type names…> <t1> <t2>` -/
namespace DiffO
open Py Diff

def diffoLine (ts : List String) : String :=
  match ts with
  | z :: tn :: td :: ip :: vb :: ic :: ist :: int_ :: sg :: ep :: "T" :: nt :: rest =>
    match tn.toNat?, td.toNat?, vb.toNat?, nt.toNat? with
    | some tn, some td, some vb, some nt =>
      if rest.length < nt then "bad-op" else
      match (rest.take nt).mapM Wire.decStr, parseVals 2 (rest.drop nt) with
      | some tys, some ([a, b], []) =>
        let eps : Option (Int × Nat) := match ep.splitOn "/" with
          | [n, s] => (match n.toInt?, s.toNat? with | some n, some s => some (n, s) | _, _ => none)
          | _ => none
        let o : OCfg := { base := { zip := z == "T", thrNum := tn, thrDen := td, ignorePrivate := ip == "T" },
                          ignoreCase := ic == "T", ignoreStrType := ist == "T", ignoreNumType := int_ == "T",
                          sigDigits := sg.toNat?, mathEps := eps, excludeTypes := tys }
        let r := deepDiff o difflibOpcodes a b
        showEntries (textView vb r.tree) ++ " OPS " ++ showOps r
      | _, _ => "bad-op"
    | _, _, _, _ => "bad-op"
  | _ => "bad-op"

end DiffO
