import Model.Diff.Ordered
/-!
The ordered comparison under the ignore / tolerance options (C11): `ignore_string_case`,
`ignore_string_type_changes`, `ignore_numeric_type_changes`, `significant_digits` (notation `f`),
`math_epsilon`, `exclude_types`, on top of the base configuration (alignment mode, dictionary
threshold, private keys).  A second, option-aware copy of the `_diff` family: the path options of
`Model/Diff/Ordered.lean` are not combined with these.

Mirrors: the type-group test of `_diff`, `_diff_str`, `_diff_numbers` (`number_to_string`,
`math.isclose`), `_get_clean_to_keys_mapping` in `_diff_dict` (child paths carry the *clean* key),
`_skip_this` for `exclude_types`, and the DeepHash pre-image of a scalar under the same options
(`_diff_set`).
-/
namespace DiffO
open Py Diff

structure OCfg where
  base : DCfg := {}
  ignoreCase : Bool := false
  ignoreStrType : Bool := false
  ignoreNumType : Bool := false
  sigDigits : Option Nat := none          -- as passed
  mathEps : Option (Int × Nat) := none    -- decimal numerator / scale
  excludeTypes : List String := []
deriving Repr

/-- `get_significant_digits`: 12 when numeric types are ignored and nothing was given -/
def OCfg.sig (o : OCfg) : Option Nat :=
  match o.sigDigits with
  | some d => some d
  | none => if o.ignoreNumType then some 12 else none

def lower (s : String) : String := s.map Char.toLower

/-- `n / 10^k` rounded half to even -/
def roundHalfEven (n : Int) (k : Nat) : Int :=
  let p : Int := pow10 k
  let q := n.fdiv p
  let r := n - q * p
  if 2 * r < p then q else if 2 * r > p then q + 1 else if q % 2 == 0 then q else q + 1

def padLeft (w : Nat) (s : String) : String := String.ofList (List.replicate (w - s.length) '0') ++ s

/-- `number_to_string(x, d, 'f')` for the exact decimal `n / 10^s` -/
def numberToString (n : Int) (s d : Nat) : String :=
  let m : Int := if s ≤ d then n * pow10 (d - s) else roundHalfEven n (s - d)
  let a := m.natAbs
  let ip := a / 10 ^ d
  let fp := a % 10 ^ d
  (if m < 0 then "-" else "") ++ toString ip ++ (if d == 0 then "" else "." ++ padLeft d (toString fp))

def numText (o : OCfg) (v : PyVal) : String :=
  match numOf v with
  | some (n, s) =>
    (match o.sig with
     | some d => numberToString n s d
     | none => match v with
       | .bool b => if b then "True" else "False"
       | .int i => toString i
       | .float n s => floatRepr n s
       | _ => "")
  | none => ""

/-- `math.isclose(a, b, abs_tol=eps)` (`rel_tol = 1e-9`) on exact decimals -/
def isClose (a b : PyVal) (eps : Int × Nat) : Bool :=
  match numOf a, numOf b with
  | some (n, s), some (n', s') =>
    let S := max (max s s') eps.2 + 9
    let A : Int := n * pow10 (S - s)
    let B : Int := n' * pow10 (S - s')
    let E : Int := eps.1 * pow10 (S - eps.2)
    let diff := (A - B).natAbs
    let big := max A.natAbs B.natAbs
    -- rel_tol * big = big / 10^9
    decide ((diff : Int) * pow10 9 ≤ max (big : Int) (E * pow10 9)) || diff == 0
  | _, _ => false

/-- `isinstance(x, (int, float, complex, Decimal))`: the default type test accepts subclasses, so `bool` counts -/
def isNumLike : PyVal → Bool
  | .int _ | .float _ _ | .bool _ => true
  | _ => false

def isStrLike : PyVal → Bool
  | .str _ | .bytes _ => true
  | _ => false

/-- the `report_type_change` decision of `_diff`: types equal, or both in one ignored group -/
def sameGroup (o : OCfg) (a b : PyVal) : Bool :=
  typeName a == typeName b || (o.ignoreStrType && isStrLike a && isStrLike b) || (o.ignoreNumType && isNumLike a && isNumLike b)

def isInstance (x : PyVal) (ty : String) : Bool :=
  typeName x == ty || (ty == "int" && (match x with | .bool _ => true | _ => false))

/-- `_skip_this(level)` for `exclude_types` (either side) -/
def skipTypes (o : OCfg) (a b : Option PyVal) : Bool :=
  o.excludeTypes.any (fun ty => (match a with | some x => isInstance x ty | none => false) || (match b with | some y => isInstance y ty | none => false))

def keepReported (o : OCfg) (t : Tree) : Tree := t.filter (fun e => !skipTypes o e.2.t1 e.2.t2)

def textOf : PyVal → String
  | .str s => s
  | .bytes s => s
  | _ => ""

/-- `_diff_str` rewrites level.t1 / level.t2 to lower case: the report shows the lowered values -/
def lowered (o : OCfg) (v : PyVal) : PyVal :=
  if o.ignoreCase then (match v with | .str s => PyVal.str (lower s) | .bytes s => .bytes (lower s) | x => x) else v

/-- do `_diff_str` / `_diff_numbers` / `_diff_booleans` find two values (that passed the type test) equal -/
def leafSame (o : OCfg) (a b : PyVal) : Bool :=
  match a, b with
  | .none, .none => true
  | .bool _, b => numEq a b                     -- `_diff_booleans`: t1 != t2
  | a, b =>
    if isStrLike a && isStrLike b then textOf (lowered o a) == textOf (lowered o b)
    else if (numOf a).isSome && (numOf b).isSome then
      match o.mathEps with
      | some eps => isClose a b eps
      | none =>
        match o.sig with
        | none => numEq a b
        | some _ =>
          let ty (v : PyVal) := if typeName a != typeName b then "" else if o.ignoreNumType then "number" else typeName v
          ty a ++ ":" ++ numText o a == ty b ++ ":" ++ numText o b
    else false

/-- the comparison of two values that passed the type test -/
def leafDiff (o : OCfg) (steps : List Step) (a b : PyVal) : Tree :=
  if leafSame o a b then []
  else if isStrLike a && isStrLike b then
    let s := textOf (lowered o a)
    let t := textOf (lowered o b)
    let multi := s.contains '\n' || t.contains '\n'
    [(.valuesChanged, { steps := steps, t1 := some (lowered o a), t2 := some (lowered o b), udiff := multi && splitLines s != splitLines t })]
  else [(.valuesChanged, { steps := steps, t1 := some a, t2 := some b })]

/-- `_get_clean_to_keys_mapping` for one key -/
def cleanKey (o : OCfg) (k : PyVal) : PyVal :=
  let c : PyVal :=
    match k with
    | .bytes s => if o.ignoreStrType then .str s else k
    | .bool _ | .int _ | .float _ _ =>
      (match o.sig with
       | some _ => .str ((if o.ignoreNumType then "number" else typeName k) ++ ":" ++ numText o k)
       | none => k)
    | _ => k
  match c with
  | .str s => if o.ignoreCase then .str (lower s) else c
  | _ => c

def cleaning (o : OCfg) : Bool := o.ignoreStrType || o.ignoreNumType || o.ignoreCase

/-- the DeepHash pre-image of a scalar under the options (what `_diff_set` compares) -/
def scalarKey (o : OCfg) : PyVal → String
  | .none => "NONE"
  | .bool b => if b then "bool:true" else "bool:false"
  | .str s => let t := if o.ignoreStrType then s else "str:" ++ s; if o.ignoreCase then lower t else t
  | .bytes s => let t := if o.ignoreStrType then s else "bytes:" ++ s; if o.ignoreCase then lower t else t
  | v => (if o.ignoreNumType then "number" else typeName v) ++ ":" ++ numText o v

def diffSet (o : OCfg) (steps : List Step) (xs ys : List PyVal) : Tree :=
  -- members of an excluded type get no digest (`DeepHash` skips them), so `_create_hashtable` leaves them out on both sides:
  -- they are neither reported nor do they stand for a member the options identify with them
  let keep (v : PyVal) : Bool := !skipTypes o (some v) Option.none
  Diff.diffSet (scalarKey o) steps (xs.filter keep) (ys.filter keep)

/-- `isinstance(item, basic_types)` -/
def pairBasic (o : OCfg) (steps : List Step) (i j : Nat) : List PyVal → List PyVal → Tree
  | [], [] => []
  | x :: xs, [] => (.iterRemoved, removedLevel steps .iter (.int i) x) :: pairBasic o steps (i + 1) (j + 1) xs []
  | [], y :: ys => (.iterAdded, addedLevel steps .iter (.int j) y) :: pairBasic o steps (i + 1) (j + 1) [] ys
  | x :: xs, y :: ys =>
    let st : Step := ⟨.iter, some (.int i), some (.int j)⟩
    let here : Tree :=
      if i != j && pyEq x y then [(.iterMoved, { steps := steps ++ [st], t1 := some x, t2 := some y })]
      else if skipTypes o (some x) (some y) then []
      else if !sameGroup o x y then [(.typeChanges, { steps := steps ++ [st], t1 := some x, t2 := some y })]
      else leafDiff o (steps ++ [st]) x y
    here ++ pairBasic o steps (i + 1) (j + 1) xs ys

def opcodeEntries (o : OCfg) (steps : List Step) (xs ys : List PyVal) : List Opcode → Tree
  | [] => []
  | op :: ops =>
    let here : Tree :=
      if op.tag == "replace" then
        pairBasic o steps op.i1 op.j1 ((xs.drop op.i1).take (op.i2 - op.i1)) ((ys.drop op.j1).take (op.j2 - op.j1))
      else if op.tag == "delete" then
        (((xs.drop op.i1).take (op.i2 - op.i1)).zipIdx).map
          (fun (x, k) => (Cat.iterRemoved, removedLevel steps .iter (.int (k + op.i1)) x))
      else if op.tag == "insert" then
        (((ys.drop op.j1).take (op.j2 - op.j1)).zipIdx).map
          (fun (y, k) => (Cat.iterAdded, addedLevel steps .iter (.int (k + op.j1)) y))
      else []
    here ++ opcodeEntries o steps xs ys ops

def iterInOrder (o : OCfg) (al : Align) (steps : List Step) (xs ys : List PyVal) (pairwise : Unit → Result) : Result :=
  if !o.base.zip && xs.all isBasic && ys.all isBasic then
    let ops := al xs ys
    let pass1 := keepReported o (opcodeEntries o steps xs ys ops)
    if pass1.length ≥ 1 then
      let pass2 := keepReported o (pairBasic o steps 0 0 xs ys)
      if pass1.length == 1 then (if pass2.length == 0 then ⟨pass2, []⟩ else ⟨pass1, []⟩)
      else if pass1.length ≥ pass2.length then ⟨pass2, []⟩ else ⟨pass1, [(steps, ops)]⟩
    else ⟨pass1, []⟩
  else pairwise ()

/-- keys compared (private ones dropped), as (clean key, original key), first clean key wins -/
def cleanKeys (o : OCfg) (kvs : List (PyVal × PyVal)) : List (PyVal × PyVal) :=
  let ks := (kvs.map (·.1)).filter (fun k => !(o.base.ignorePrivate && isPrivate k))
  ks.foldl (fun acc k =>
    let c := if cleaning o then cleanKey o k else k
    if acc.any (fun p => keyEq p.1 c) then acc else acc ++ [(c, k)]) []

mutual
/-- `_diff(level)` under the options -/
def diffV (o : OCfg) (al : Align) (steps : List Step) : PyVal → PyVal → Result
  | .dict kvs1, b =>
    if skipTypes o (some (.dict kvs1)) (some b) then {} else
    match b with
    | .dict kvs2 =>
      let k1 := cleanKeys o kvs1
      let k2 := cleanKeys o kvs2
      let inter := k2.filter (fun k => k1.any (fun k' => keyEq k'.1 k.1))
      let added := k2.filter (fun k => !k1.any (fun k' => keyEq k'.1 k.1))
      let removed := k1.filter (fun k => !k2.any (fun k' => keyEq k'.1 k.1))
      let unionLen := k2.length + removed.length
      if belowThreshold o.base inter.length unionLen then
        ⟨[(.valuesChanged, { steps := steps, t1 := some (.dict kvs1), t2 := some b })], []⟩
      else
        let addedE : Tree := added.map (fun k => (Cat.dictAdded, addedLevel steps .dict k.2 ((dictGet kvs2 k.2).getD .none)))
        let removedE : Tree := removed.map (fun k => (Cat.dictRemoved, removedLevel steps .dict k.2 ((dictGet kvs1 k.2).getD .none)))
        let children := diffKVs o al steps kvs1 kvs2 k1 k2
        let ordered : Result := inter.foldl (fun acc k =>
          match children.find? (fun p => keyEq p.1 k.1) with
          | some (_, r) => acc ++ r
          | Option.none => acc) {}
        ⟨addedE ++ removedE, []⟩ ++ ordered
    | _ => ⟨[(.typeChanges, { steps := steps, t1 := some (.dict kvs1), t2 := some b })], []⟩
  | .list xs, b =>
    if skipTypes o (some (.list xs)) (some b) then {} else
    match b with
    | .list ys => iterInOrder o al steps xs ys (fun _ => diffPairs o al steps 0 xs ys)
    | _ => ⟨[(.typeChanges, { steps := steps, t1 := some (.list xs), t2 := some b })], []⟩
  | .tuple xs, b =>
    if skipTypes o (some (.tuple xs)) (some b) then {} else
    match b with
    | .tuple ys => iterInOrder o al steps xs ys (fun _ => diffPairs o al steps 0 xs ys)
    | _ => ⟨[(.typeChanges, { steps := steps, t1 := some (.tuple xs), t2 := some b })], []⟩
  | .set xs, b =>
    if skipTypes o (some (.set xs)) (some b) then {} else
    match b with
    | .set ys => ⟨diffSet o steps xs ys, []⟩
    | _ => ⟨[(.typeChanges, { steps := steps, t1 := some (.set xs), t2 := some b })], []⟩
  | .frozenset xs, b =>
    if skipTypes o (some (.frozenset xs)) (some b) then {} else
    match b with
    | .frozenset ys => ⟨diffSet o steps xs ys, []⟩
    | _ => ⟨[(.typeChanges, { steps := steps, t1 := some (.frozenset xs), t2 := some b })], []⟩
  | a, b =>
    if skipTypes o (some a) (some b) then {}
    else if !sameGroup o a b then ⟨[(.typeChanges, { steps := steps, t1 := some a, t2 := some b })], []⟩
    else ⟨leafDiff o steps a b, []⟩
/-- children along t1's entries: (clean key, child diff) -/
def diffKVs (o : OCfg) (al : Align) (steps : List Step) :
    List (PyVal × PyVal) → List (PyVal × PyVal) → List (PyVal × PyVal) → List (PyVal × PyVal) → List (PyVal × Result)
  | [], _, _, _ => []
  | (k1, v1) :: rest, kvs2, ck1, ck2 =>
    let tail := diffKVs o al steps rest kvs2 ck1 ck2
    -- is k1 the original key of one of t1's compared clean keys, and does t2 have that clean key?
    match ck1.find? (fun p => strictEq p.2 k1) with
    | some (c, _) =>
      (match ck2.find? (fun p => keyEq p.1 c) with
       | some (c2, k2) =>
         (match dictGet kvs2 k2 with
          | some v2 => (c2, diffV o al (steps ++ [⟨.dict, some c2, some c2⟩]) v1 v2) :: tail
          | Option.none => tail)
       | Option.none => tail)
    | Option.none => tail
def diffPairs (o : OCfg) (al : Align) (steps : List Step) (i : Nat) : List PyVal → List PyVal → Result
  | [], [] => {}
  | x :: xs, [] =>
    ⟨[(.iterRemoved, removedLevel steps .iter (.int i) x)], []⟩ ++ diffPairs o al steps (i + 1) xs []
  | [], y :: ys =>
    ⟨(.iterAdded, addedLevel steps .iter (.int i) y) :: ((ys.zipIdx).map fun (y', k) => (Cat.iterAdded, addedLevel steps .iter (.int (i + 1 + k)) y')), []⟩
  | x :: xs, y :: ys =>
    diffV o al (steps ++ [⟨.iter, some (.int i), some (.int i)⟩]) x y ++ diffPairs o al steps (i + 1) xs ys
end

def deepDiff (o : OCfg) (al : Align) (t1 t2 : PyVal) : Result :=
  let r := diffV o al [] t1 t2
  let r := { r with tree := keepReported o r.tree }
  { r with tree := mutualAddRemoves r.tree }

end DiffO
