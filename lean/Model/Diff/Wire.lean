import Model.Diff.Text
import Model.Diff.Difflib
import Model.Hash.Prep
import Model.Hash.Sha256
/-! `DIFF <zip T|F> <thrNum> <thrDen> <ignorePrivate T|F> <verbose> <t1> <t2>` ↦ canonical text view, then
` OPS ` and the recorded opcode paths. -/
namespace Diff
open Py

def hashForDiff (v : PyVal) : String := Hash.deepHash {} Sha256.hex v

def showOps (r : Result) : String :=
  " ".intercalate (Wire.sortStrings (r.opcodes.map fun (steps, ops) =>
    ((pathStr steps false).map Wire.encStr).getD "None" ++ ":" ++
      ",".intercalate (ops.map fun o => o.tag ++ "/" ++ toString o.i1 ++ "/" ++ toString o.i2 ++ "/" ++ toString o.j1 ++ "/" ++ toString o.j2)))

def diffLine (ts : List String) : String :=
  match ts with
  | z :: tn :: td :: ip :: vb :: rest =>
    match tn.toNat?, td.toNat?, vb.toNat?, parseVals 2 rest with
    | some tn, some td, some vb, some ([a, b], []) =>
      let cfg : DCfg := { zip := z == "T", thrNum := tn, thrDen := td, ignorePrivate := ip == "T" }
      let r := deepDiff cfg difflibOpcodes hashForDiff a b
      showEntries (textView vb r.tree) ++ " OPS " ++ showOps r
    | _, _, _, _ => "bad-op"
  | _ => "bad-op"

/-- `DIFFX <zip> <thrNum> <thrDen> <ignorePrivate> <verbose> E <k> <paths…> R <k> <paths…> I <k> <paths…> <t1> <t2>` -/
def diffxLine (ts : List String) : String :=
  let takeStrs (k : Nat) (ts : List String) : Option (List String × List String) :=
    if ts.length < k then none else ((ts.take k).mapM Wire.decStr).map (fun xs => (xs, ts.drop k))
  match ts with
  | z :: tn :: td :: ip :: vb :: "E" :: ke :: rest =>
    match tn.toNat?, td.toNat?, vb.toNat?, ke.toNat? with
    | some tn, some td, some vb, some ke =>
      match takeStrs ke rest with
      | some (ex, "R" :: kr :: rest) =>
        match kr.toNat? >>= (fun kr => takeStrs kr rest) with
        | some (rx, "I" :: ki :: rest) =>
          match ki.toNat? >>= (fun ki => takeStrs ki rest) with
          | some (inc, rest) =>
            match parseVals 2 rest with
            | some ([a, b], []) =>
              let cfg : DCfg := { zip := z == "T", thrNum := tn, thrDen := td, ignorePrivate := ip == "T",
                                  exclude := ex, excludePrefix := rx, incl := inc }
              let r := deepDiff cfg difflibOpcodes hashForDiff a b
              showEntries (textView vb r.tree) ++ " OPS " ++ showOps r
            | _ => "bad-op"
          | _ => "bad-op"
        | _ => "bad-op"
      | _ => "bad-op"
    | _, _, _, _ => "bad-op"
  | _ => "bad-op"

end Diff
