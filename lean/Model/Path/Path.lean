/-!
Model of deepdiff/path.py (`_path_to_elements`, `_add_to_elements`, `stringify_element`,
`stringify_path`, `parse_path`, `extract`) and of `ChildRelationship.stringify_param` for
dictionary keys / list indexes (model.py).  Strings are `List Char` so that the character machine
is a fold.

External functions are parameters: `le` is `ast.literal_eval` on an element's text (`none` =
it raises ValueError/SyntaxError), `reprOf` is `repr` on a non-string key.
-/
namespace Path

/-- U+1D1C0, the escape marker `stringify_element` puts before quotes when a key has both kinds -/
def esc : Char := Char.ofNat 0x1D1C0

inductive Key where
  | str (s : List Char)
  | int (i : Int)
  | float (repr : List Char)      -- a float is identified with its repr (short decimals; see DESIGN §3)
  | none
  | bool (b : Bool)
deriving Repr, DecidableEq

inductive Action where | get | getattr
deriving Repr, DecidableEq

/-- `stringify_element(param, quote_str)`; `quoted = true` stands for `quote_str = "'{}'"`,
`false` for `quote_str = None` -/
def stringifyElement (p : List Char) (quoted : Bool) : List Char :=
  let hasQ := p.contains '\''
  let hasD := p.contains '"'
  if hasQ && hasD && !quoted then
    '"' :: ((p.flatMap fun c => if c == '"' || c == '\'' then [esc, c] else [c]) ++ ['"'])
  else if hasQ then '"' :: (p ++ ['"'])
  else if hasD then '\'' :: (p ++ ['\''])
  else if quoted then '\'' :: (p ++ ['\'']) else p

/-- `repr` of a non-string key -/
def reprKey : Key → List Char
  | .int i => (toString i).toList
  | .float r => r
  | .none => "None".toList
  | .bool true => "True".toList
  | .bool false => "False".toList
  | .str s => s

/-- `DictRelationship / SubscriptableIterableRelationship .get_param_repr()` -/
def renderKey : Key → List Char
  | .str s => '[' :: (stringifyElement s true ++ [']'])
  | k => '[' :: (reprKey k ++ [']'])

def rootChars : List Char := ['r', 'o', 'o', 't']

/-- `level.path()`: "root" followed by every relationship's param repr -/
def renderPath (keys : List Key) : List Char :=
  rootChars ++ keys.flatMap renderKey

/-! ### the parser -/

inductive Inside where | no | dot | bracket
deriving Repr, DecidableEq

structure PState where
  elem : List Char := []
  inside : Inside := .no
  prev : Option Char := none
  brackets : Nat := 0                 -- `brackets` only ever holds '[' entries: its length
  inQuotes : Bool := false
  quoteUsed : Option Char := none
  elements : List (Key × Action) := []
deriving Repr

abbrev LitEval := List Char → Option Key

def startsWithDunder : List Char → Bool
  | '_' :: '_' :: _ => true
  | _ => false

def stripQuotes (e : List Char) : List Char :=
  match e.head?, e.getLast? with
  | some a, some b => if a == b && (a == '"' || a == '\'') then (e.drop 1).dropLast else e
  | _, _ => e

/-- `_add_to_elements(elements, elem, inside)` -/
def addToElements (le : LitEval) (elements : List (Key × Action)) (elem : List Char) (inside : Inside) :
    List (Key × Action) :=
  if elem.isEmpty then elements
  else if startsWithDunder elem then elements
  else
    let action := if inside == .dot then Action.getattr else Action.get
    if elem.contains esc || elem.contains '\\' then elements ++ [(.str (stripQuotes elem), action)]
    else match le elem with
      | some k => elements ++ [(k, action)]
      | none => elements ++ [(.str (stripQuotes elem), action)]

def isQuote (c : Char) : Bool := c == '"' || c == '\''

/-- one iteration of the `for char in path` loop -/
def step (le : LitEval) (st : PState) (c : Char) : PState :=
  let st' : PState :=
    if st.prev == some esc then { st with elem := st.elem ++ [c] }
    else if isQuote c then
      let st1 := { st with elem := st.elem ++ [c] }
      if !(st.inQuotes && st.quoteUsed != some c) then
        if !st.inQuotes then { st1 with inQuotes := true, quoteUsed := some c }
        else { st1 with inQuotes := false, quoteUsed := none,
                        elements := addToElements le st.elements st1.elem st.inside, elem := [] }
      else st1
    else if st.inQuotes then { st with elem := st.elem ++ [c] }
    else if c == '[' then
      match st.inside with
      | .dot => { st with elements := addToElements le st.elements st.elem st.inside, inside := .bracket, elem := [] }
      | .bracket => { st with elem := st.elem ++ [c] }
      | .no => { st with inside := .bracket, brackets := st.brackets + 1, elem := [] }
    else if c == '.' then
      match st.inside with
      | .bracket => { st with elem := st.elem ++ [c] }
      | .dot => { st with elements := addToElements le st.elements st.elem st.inside, elem := [] }
      | .no => { st with inside := .dot, elem := [] }
    else if c == ']' then
      let b := st.brackets - 1
      if b > 0 then { st with brackets := b, elem := st.elem ++ [c] }
      else { st with brackets := b, elements := addToElements le st.elements st.elem st.inside, elem := [], inside := .no }
    else { st with elem := st.elem ++ [c] }
  { st' with prev := some c }

def finish (le : LitEval) (st : PState) : List (Key × Action) :=
  if st.elem.isEmpty then st.elements else addToElements le st.elements st.elem st.inside

/-- `_path_to_elements(path, root_element=None)` -/
def pathToElements (le : LitEval) (path : List Char) : List (Key × Action) :=
  finish le ((path.drop 4).foldl (step le) {})

/-- `parse_path(path)` -/
def parsePath (le : LitEval) (path : List Char) : List Key := (pathToElements le path).map (·.1)

/-- one element of `stringify_path` -/
def stringifyOne (k : Key) (a : Action) : List Char :=
  let e := match k, a with
    | .str s, .get => stringifyElement s true
    | k, _ => reprKey k
  match a with
  | .get => '[' :: (e ++ [']'])
  | .getattr => '.' :: e

/-- `stringify_path(path, root_element=('root', rootAction))` for a list of bare elements: the
first element takes the root element's action, the others GET -/
def stringifyPath (keys : List Key) (rootAction : Action) : List Char :=
  match keys with
  | [] => rootChars
  | k0 :: rest => rootChars ++ stringifyOne k0 rootAction ++ rest.flatMap (fun k => stringifyOne k .get)

end Path
