import Model.Path.Path
/-! A concrete `literal_eval` for the element texts the path parser can meet (white space around the
expression is ignored, as the Python tokenizer does):
quoted strings without backslash / line break / NUL, decimal ints, float reprs, `None`, `True`,
`False`.  Everything else "raises" (`none`).  Used by the driver; the theorems quantify over every
`LitEval` that satisfies `LE`/`RE` and `leImpl_ok` shows this one does. -/
namespace Path

def isDigit (c : Char) : Bool := c.isDigit

def allDigits (cs : List Char) : Bool := !cs.isEmpty && cs.all isDigit

def parseNat (cs : List Char) : Nat := cs.foldl (fun n c => n * 10 + (c.toNat - '0'.toNat)) 0

def isFloatText (cs : List Char) : Bool :=
  -- [-]digits.digits[e[+-]digits] | [-]digits e[+-]digits | inf / nan are NOT literals
  let body := match cs with | '-' :: r => r | r => r
  let (mant, exp) := body.span (fun c => c != 'e')
  let (ip, fp) := mant.span (fun c => c != '.')
  let expOk := match exp with
    | [] => true
    | _ :: '+' :: ds => allDigits ds
    | _ :: '-' :: ds => allDigits ds
    | _ :: ds => allDigits ds
  let mantOk := match fp with
    | [] => allDigits ip && !exp.isEmpty
    | _ :: fd => allDigits ip && (allDigits fd || fd.isEmpty)
  mantOk && expOk

def leCore : LitEval := fun e =>
  match e with
  | [] => none
  | q :: rest =>
    if q == '"' || q == '\'' then
      match rest.getLast? with
      | some q' =>
        let body := rest.dropLast
        if q' == q && !rest.isEmpty && !body.contains q && !body.contains '\\' && !body.contains '\n'
            && !body.contains '\r' && !body.contains (Char.ofNat 0) then some (.str body) else none
      | none => none
    else if e == "None".toList then some .none
    else if e == "True".toList then some (.bool true)
    else if e == "False".toList then some (.bool false)
    else if allDigits e then some (.int (parseNat e))
    else match e with
      | '-' :: ds => if allDigits ds then some (.int (-(parseNat ds : Int))) else if isFloatText e then some (.float e) else none
      | _ => if isFloatText e then some (.float e) else none

/-- the white space the Python tokenizer ignores around an expression -/
def isWs (c : Char) : Bool := c == ' ' || c == '\t' || c == '\n' || c == '\r' || c == Char.ofNat 12

def stripWs (e : List Char) : List Char := ((e.dropWhile isWs).reverse.dropWhile isWs).reverse

/-- an indented first line: after `lstrip(" \t")` the text starts with blank lines followed by an indented
expression (`"\n\t'x'"`), which the parser rejects with IndentationError (a SyntaxError) -/
def indentedStart (e : List Char) : Bool :=
  let e1 := e.dropWhile (fun c => c == ' ' || c == '\t')
  let w := e1.takeWhile isWs
  let lastLine := (w.reverse.takeWhile (fun c => !(c == '\n' || c == '\r'))).reverse
  (w.any (fun c => c == '\n' || c == '\r')) && !lastLine.isEmpty && (e1.dropWhile isWs).length > 0

/-- `ast.literal_eval` on an element text: leading blanks and tabs are stripped, blank lines and trailing
white space are ignored by the parser, an indented first line is an error -/
def leImpl : LitEval := fun e => if indentedStart e then none else leCore (stripWs e)

end Path
