import Model.Path.Path
/-! `extract(obj, path)` = `_get_nested_obj(obj, _path_to_elements(path, root_element=None))` on a
small object universe (dict / list / opaque leaf). -/
namespace Path

inductive Obj where
  | leaf (id : Nat)
  | dict (kvs : List (Key × Obj))
  | list (xs : List Obj)
deriving Repr

/-- `obj[elem]`: dict lookup by key, list indexing by a non-negative int; anything else raises -/
def getItem : Obj → Key → Option Obj
  | .dict kvs, k => (kvs.find? (fun p => p.1 == k)).map (·.2)
  | .list xs, .int i => if 0 ≤ i then xs[i.toNat]? else none
  | _, _ => none

def getNested (o : Obj) (elems : List (Key × Action)) : Option Obj :=
  elems.foldlM (fun o e => match e.2 with
    | .get => getItem o e.1
    | .getattr => none) o

def extract (le : LitEval) (o : Obj) (path : List Char) : Option Obj := getNested o (pathToElements le path)

/-- the location a key sequence denotes -/
def getAt (o : Obj) (keys : List Key) : Option Obj := keys.foldlM getItem o

end Path
