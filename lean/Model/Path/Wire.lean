import Model.Path.LitEval
import Model.Wire
namespace Path
open Wire

def encL (cs : List Char) : String := encStr (String.ofList cs)
def decL (t : String) : Option (List Char) := (decStr t).map String.toList

def parseKey (t : String) : Option Key :=
  if t == "N" then some .none else if t == "T" then some (.bool true) else if t == "F" then some (.bool false) else
  let body := (t.drop 1).toString
  match t.toList.head? with
  | some 's' => (decL body).map Key.str
  | some 'i' => body.toInt?.map Key.int
  | some 'f' => (decL body).map Key.float
  | _ => none

def showKey : Key → String
  | .str s => "s" ++ encL s
  | .int i => "i" ++ toString i
  | .float r => "f" ++ encL r
  | .none => "N"
  | .bool true => "T"
  | .bool false => "F"

def showElems (es : List (Key × Action)) : String :=
  if es.isEmpty then "-" else
  " ".intercalate (es.map fun (k, a) => showKey k ++ (match a with | .get => ":G" | .getattr => ":A"))

def renderLine (ts : List String) : String :=
  match ts.mapM parseKey with
  | some ks => encL (renderPath ks)
  | none => "bad-op"

def parseLine (ts : List String) : String :=
  match ts with
  | [p] => match decL p with
    | some cs => showElems (pathToElements leImpl cs)
    | none => "bad-op"
  | _ => "bad-op"

def leLine (ts : List String) : String :=
  match ts with
  | [p] => match decL p with
    | some cs => match leImpl cs with
      | some k => showKey k
      | none => "raises"
    | none => "bad-op"
  | _ => "bad-op"

def stringifyLine (ts : List String) : String :=
  match ts with
  | a :: ks =>
    match ks.mapM parseKey, a with
    | some ks, "G" => encL (stringifyPath ks .get)
    | some ks, "A" => encL (stringifyPath ks .getattr)
    | _, _ => "bad-op"
  | _ => "bad-op"

end Path
