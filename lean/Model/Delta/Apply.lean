import Model.Delta.Build
import Model.Generated.Tables
/-!
Model of `Delta.__add__`: the phases (in the order regenerated from the source) applied to a base
value.  Mutation by reference becomes functional update; what matters of the reference semantics is
kept explicitly: only the *immediate* container of a changed element is coerced from tuple to list
(and recorded for `_do_post_process`), and it must be re-attached to a mutable parent.
-/
namespace Delta
open Py Diff

structure AState where
  root : PyVal
  post : List DPath := []          -- post_process_paths_to_convert (insertion order)
  errs : Nat := 0                  -- errors logged (raise_errors=False) 
  raised : Option String := none   -- an exception that escapes __add__
deriving Repr

def getAt (root : PyVal) (path : DPath) : Option PyVal := path.foldlM getItem root

/-- replace the value at `path` (every step must exist); ancestors are rebuilt whatever their type -/
def replaceAt : PyVal → DPath → PyVal → Option PyVal
  | _, [], v => some v
  | root, k :: rest, v =>
    match getItem root k with
    | Option.none => Option.none
    | some child =>
      match replaceAt child rest v with
      | Option.none => Option.none
      | some child' =>
        match root, k with
        | .dict kvs, _ => some (.dict (kvs.map fun p => if keyEq p.1 k then (p.1, child') else p))
        | .list xs, .int i => some (.list (xs.set i.toNat child'))
        | .tuple xs, .int i => some (.tuple (xs.set i.toNat child'))
        | _, _ => Option.none

def dictSetK (kvs : List (PyVal × PyVal)) (k v : PyVal) : List (PyVal × PyVal) :=
  if kvs.any (fun p => keyEq p.1 k) then kvs.map (fun p => if keyEq p.1 k then (p.1, v) else p) else kvs ++ [(k, v)]

/-- `_simple_set_elem_value(obj, elem, value)` on a mutable `obj`: (new obj, failed?) -/
def setElem (obj elem v : PyVal) : PyVal × Bool :=
  match obj, elem with
  | .dict kvs, k => (.dict (dictSetK kvs k v), false)
  | .list xs, .int i =>
    if 0 ≤ i && i.toNat < xs.length then (.list (xs.set i.toNat v), false)
    else if i == xs.length then (.list (xs ++ [v]), false)
    else (obj, true)
  | _, _ => (obj, true)

def isTuple : PyVal → Bool
  | .tuple _ => true
  | _ => false

def isMutableContainer : PyVal → Bool
  | .list _ | .dict _ => true
  | _ => false

def addPost (post : List DPath) (p : DPath) : List DPath := if post.contains p then post else post ++ [p]

/-- apply `f` to the container at `objPath` (after tuple→list coercion when needed), re-attach it.
Mirrors `_set_new_value` / `_del_elem`: returns the new state. -/
def withContainer (st : AState) (objPath : DPath) (f : PyVal → PyVal × Bool) : AState :=
  match getAt st.root objPath with
  | Option.none => { st with errs := st.errs + 1 }
  | some obj =>
    if isTuple obj then
      let st1 := { st with post := addPost st.post objPath }
      let objL := PyVal.list (seqItems obj)
      -- re-attach to the parent: the Delta object for the root, else the parent must take item assignment
      let parentOK := match objPath with
        | [] => true
        | _ => match getAt st.root objPath.dropLast with
          | some p => isMutableContainer p
          | Option.none => false
      let (new, failed) := f objL
      if parentOK then
        match replaceAt st.root objPath new with
        | some r => { st1 with root := r, errs := st1.errs + (if failed then 1 else 0) }
        | Option.none => { st1 with errs := st1.errs + 1 }
      else { st1 with errs := st1.errs + 1 + (if failed then 1 else 0) }
    else
      let (new, failed) := f obj
      match replaceAt st.root objPath new with
      | some r => { st with root := r, errs := st.errs + (if failed then 1 else 0) }
      | Option.none => { st with errs := st.errs + 1 }

/-- `_set_new_value` for the element at `path` -/
def setNewValue (st : AState) (path : DPath) (v : PyVal) : AState :=
  match path.getLast? with
  | Option.none => { st with root := v }                    -- setattr(self, 'root', v)
  | some elem => withContainer st path.dropLast (fun obj => setElem obj elem v)

/-- one entry of `_do_values_or_type_changed` -/
def applyChange (bidir : Bool) (isType verify : Bool) (st : AState) (c : Change) : AState :=
  match c.path.getLast? with
  | Option.none =>
    -- the root itself
    let cur := st.root
    let newV := if isType && c.newValue.isNone then castTo c.newType cur else c.newValue
    match newV with
    | Option.none => { st with errs := st.errs + 1 }
    | some v =>
      let st' := { st with root := v }
      if verify && bidir && !(match c.oldValue with | some o => pyEq o cur | Option.none => false) then { st' with errs := st'.errs + 1 } else st'
  | some elem =>
    match getAt st.root c.path.dropLast with
    | Option.none => { st with errs := st.errs + 1 }
    | some obj =>
      match getItem obj elem with
      | Option.none => { st with errs := st.errs + 1 }
      | some cur =>
        let newV := if isType && c.newValue.isNone then castTo c.newType cur else c.newValue
        match newV with
        | Option.none => { st with errs := st.errs + 1 }
        | some v =>
          let st' := setNewValue st c.path v
          if verify && bidir && !(match c.oldValue with | some o => pyEq o cur | Option.none => false) then { st' with errs := st'.errs + 1 } else st'

/-- Python ordering of two path elements when `sorted` compares the key lists; `none` = TypeError -/
def cmpElem : PyVal → PyVal → Option Ordering
  | .str a, .str b => some (compare a b)
  | a, b =>
    match numOf a, numOf b with
    | some (n, s), some (n', s') => some (compare (n * pow10 s') (n' * pow10 s))
    | _, _ => Option.none

def cmpPath : DPath → DPath → Option Ordering
  | [], [] => some .eq
  | [], _ :: _ => some .lt
  | _ :: _, [] => some .gt
  | a :: as, b :: bs =>
    if keyEq a b then cmpPath as bs     -- list comparison first finds the first index where the items differ (==)
    else match cmpElem a b with
      | some .eq => cmpPath as bs
      | o => o

/-- `str(elem)` as `_sort_comparison` uses it -/
def elemStr : PyVal → String
  | .str s => s
  | .none => "None"
  | .bool b => if b then "True" else "False"
  | .int i => toString i
  | .float n s => floatRepr n s
  | _ => "?"

/-- `Delta._sort_comparison` (the fallback when the keyed sort raised TypeError): elements of
different type (or `None`) are compared as strings, elements of the same type natively; a pair that
still cannot be ordered is skipped -/
def cmpFallback : DPath → DPath → Option Ordering
  | a :: as, b :: bs =>
    let o : Option Ordering :=
      if typeName a != typeName b || a == PyVal.none then some (compare (elemStr a) (elemStr b))
      else cmpElem a b
    match o with
    | some .eq | Option.none => cmpFallback as bs
    | some r => some r
  | _, _ => some .eq

/-- `sorted(items, key=path elements)` with the `cmp_to_key(_sort_comparison)` fallback.  Which pairs
a sort actually compares is not modelled: the keyed sort is taken to fail as soon as *some* pair is
incomparable, and the fallback to fail as soon as some pair makes the comparator raise. -/
def sortPaths {α} (xs : List (DPath × α)) (desc : Bool) : Option (List (DPath × α)) :=
  let sortBy (cmp : DPath → DPath → Option Ordering) : List (DPath × α) :=
    xs.mergeSort (fun a b => match cmp a.1 b.1 with
      | some .gt => desc
      | some .lt => !desc
      | _ => true)
  let ix := xs.zipIdx
  let allPairs (cmp : DPath → DPath → Option Ordering) : Bool :=
    ix.all (fun a => ix.all (fun b => a.2 == b.2 || (cmp a.1.1 b.1.1).isSome))
  if allPairs cmpPath then some (sortBy cmpPath)
  else if allPairs cmpFallback then some (sortBy cmpFallback)
  else Option.none

/-- `_find_closest_iterable_element_for_index` -/
def findClosest (xs : List PyVal) (elem : Nat) (expected : PyVal) : Option Nat :=
  let cands := (xs.zipIdx.filter (fun p => pyEq p.1 expected)).map (·.2)
  cands.foldl (fun best i =>
    let d := if i ≥ elem then i - elem else elem - i
    match best with
    | Option.none => some i
    | some b => let db := if b ≥ elem then b - elem else elem - b
                if d < db then some i else some b) Option.none

def delElem (obj elem : PyVal) : PyVal × Bool :=
  match obj, elem with
  | .dict kvs, k => if kvs.any (fun p => keyEq p.1 k) then (.dict (kvs.filter fun p => !keyEq p.1 k), false) else (obj, true)
  | .list xs, .int i => if 0 ≤ i && i.toNat < xs.length then (.list (xs.eraseIdx i.toNat), false) else (obj, true)
  | _, _ => (obj, true)

/-- one entry of `_do_item_removed` -/
def applyRemoved (bidir : Bool) (st : AState) (e : DPath × PyVal) : AState :=
  match e.1.getLast? with
  | Option.none => { st with errs := st.errs + 1 }
  | some elem =>
    match getAt st.root e.1.dropLast with
    | Option.none => { st with errs := st.errs + 1 }
    | some obj =>
      let cur := getItem obj elem
      let look := match cur with | some c => !pyEq c e.2 | Option.none => true
      let (elem', cur') : Option PyVal × Option PyVal :=
        match look, obj, elem with
        | true, .list xs, .int i =>
          match findClosest xs i.toNat e.2 with
          | some j => (some (.int j), some e.2)
          | Option.none => (Option.none, cur)
        | _, _, _ => (some elem, cur)
      match elem', cur' with
      | some el, some c =>
        let st' := withContainer st e.1.dropLast (fun o => delElem o el)
        if bidir && !pyEq e.2 c then { st' with errs := st'.errs + 1 } else st'
      | _, _ => st

/-- one entry of `_do_item_added` -/
def applyAdded (insert : Bool) (st : AState) (e : DPath × PyVal) : AState :=
  match e.1.getLast? with
  | Option.none => { st with root := e.2 }
  | some elem =>
    match getAt st.root e.1.dropLast with
    | Option.none => { st with errs := st.errs + 1 }
    | some obj =>
      match insert, obj, elem with
      | true, .tuple xs, .int i =>
        if 0 ≤ i && i.toNat < xs.length then                     -- coerced to a list first, then insert + set
          withContainer st e.1.dropLast (fun objL => (PyVal.list ((seqItems objL).take i.toNat ++ [e.2] ++ (seqItems objL).drop i.toNat), false))
        else setNewValue st e.1 e.2
      | true, .list xs, .int i =>
        if 0 ≤ i && i.toNat < xs.length then
          match replaceAt st.root e.1.dropLast (.list ((xs.take i.toNat) ++ [e.2] ++ (xs.drop i.toNat))) with
          | some r => { st with root := r }
          | Option.none => { st with errs := st.errs + 1 }
        else setNewValue st e.1 e.2
      | _, _, _ => setNewValue st e.1 e.2

def setUnion (xs ys : List PyVal) : List PyVal := ys.foldl (fun acc y => if acc.any (keyEq y) then acc else acc ++ [y]) xs
def setDiff (xs ys : List PyVal) : List PyVal := xs.filter (fun x => !ys.any (keyEq x))

def applySetItems (add : Bool) (st : AState) (e : DPath × List PyVal) : AState :=
  match getAt st.root e.1 with
  | some (.set xs) =>
    let new := PyVal.set (if add then setUnion xs e.2 else setDiff xs e.2)
    (match e.1 with
     | [] => { st with root := new }
     | _ => match getAt st.root e.1.dropLast with
       | some p => if isMutableContainer p then (match replaceAt st.root e.1 new with | some r => { st with root := r } | Option.none => { st with errs := st.errs + 1 })
                   else { st with errs := st.errs + 1 }
       | Option.none => { st with errs := st.errs + 1 })
  | some (.frozenset xs) =>
    let new := PyVal.frozenset (if add then setUnion xs e.2 else setDiff xs e.2)
    (match e.1 with
     | [] => { st with root := new }
     | _ => match getAt st.root e.1.dropLast with
       | some p => if isMutableContainer p then (match replaceAt st.root e.1 new with | some r => { st with root := r } | Option.none => { st with errs := st.errs + 1 })
                   else { st with errs := st.errs + 1 }
       | Option.none => { st with errs := st.errs + 1 })
  | _ => { st with errs := st.errs + 1 }

/-- the item list `_do_iterable_opcodes` rebuilds from the old items and the recorded opcodes -/
def replayOps (xs : List PyVal) (ops : List OpV) : List PyVal :=
  ops.foldl (fun acc o =>
      if o.tag == "replace" || o.tag == "insert" then acc ++ o.newValues.getD []
      else if o.tag == "equal" then acc ++ (xs.drop o.i1).take (o.i2 - o.i1)
      else acc) []

/-- `_do_iterable_opcodes` for one path: the new item list; a list is updated in place
(`obj[:] = transformed`), a tuple is rebuilt and re-instated in its own container (which must take
item assignment) -/
def applyOpcodes (st : AState) (e : DPath × List OpV) : AState :=
  let build (xs : List PyVal) : List PyVal := replayOps xs e.2
  match getAt st.root e.1 with
  | some (.list xs) =>
    (match replaceAt st.root e.1 (.list (build xs)) with
     | some r => { st with root := r }
     | Option.none => { st with errs := st.errs + 1 })
  | some (.tuple xs) =>
    let parentOK := match e.1 with
      | [] => true
      | _ => match getAt st.root e.1.dropLast with
        | some p => isMutableContainer p
        | Option.none => false
    if parentOK then
      (match replaceAt st.root e.1 (.tuple (build xs)) with
       | some r => { st with root := r }
       | Option.none => { st with errs := st.errs + 1 })
    else { st with errs := st.errs + 1 }
  | _ => { st with errs := st.errs + 1 }

/-- `_do_post_process`: convert the coerced lists back; coercing *during* the loop changes the dict
being iterated: RuntimeError -/
def postProcess (st : AState) : AState :=
  st.post.foldl (fun s p =>
    if s.raised.isSome then s else
    let before := s.post.length
    let s' := applyChange false true false s { path := p, oldType := "list", newType := "tuple" }
    if s'.post.length != before then { s' with raised := some "RuntimeError" } else s') st

def phase (bidir : Bool) (d : DeltaD) (name : String) (st : AState) : AState :=
  if st.raised.isSome then st else
  match name with
  | "_do_values_changed" => d.valuesChanged.foldl (applyChange bidir false true) st
  | "_do_set_item_added" => d.setAdded.foldl (applySetItems true) st
  | "_do_set_item_removed" => d.setRemoved.foldl (applySetItems false) st
  | "_do_type_changes" => d.typeChanges.foldl (applyChange bidir true true) st
  | "_do_iterable_opcodes" => d.opcodes.foldl applyOpcodes st
  | "_do_iterable_item_removed" =>
    (match sortPaths d.iterRemoved true with
     | some xs => xs.foldl (applyRemoved bidir) st
     | Option.none => { st with raised := some "TypeError" })
  | "_do_iterable_item_added" =>
    (match sortPaths d.iterAdded false with
     | some xs => xs.foldl (fun s e => if s.raised.isSome then s else applyAdded true s e) st
     | Option.none => { st with raised := some "TypeError" })
  | "_do_dictionary_item_added" => d.dictAdded.foldl (applyAdded false) st
  | "_do_dictionary_item_removed" =>
    (match sortPaths d.dictRemoved true with
     | some xs => xs.foldl (applyRemoved bidir) st
     | Option.none => { st with raised := some "TypeError" })
  | "_do_post_process" => postProcess st
  | _ => st          -- pre_process (numpy), ignore_order, attributes: nothing to do in this universe

/-- `base + Delta(...)` -/
def applyDelta (bidir : Bool) (d : DeltaD) (base : PyVal) : AState :=
  Gen.deltaPhases.foldl (fun st name => phase bidir d name st) { root := base }

end Delta
