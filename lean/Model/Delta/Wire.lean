import Model.Delta.Reverse
import Model.Diff.Wire
/-! `DELTA <bidir> <always> <zip> <thrN> <thrD> <t1> <t2> <base> <base2>` -/
namespace Delta
open Py Diff

def showPath (p : DPath) : String := if p.isEmpty then "root" else "/".intercalate (p.map fun k => (showVal k).replace " " ",")
def vs (v : PyVal) : String := (showVal v).replace " " ","
def ovs (n : String) (o : Option PyVal) : List String := match o with | some v => [n ++ "=" ++ vs v] | Option.none => []

def showChange (cat : String) (isType : Bool) (c : Change) : String :=
  cat ++ "|" ++ showPath c.path ++ "|" ++ ";".intercalate (
    (if isType then ["old_type=" ++ c.oldType, "new_type=" ++ c.newType] else []) ++
    (match c.newPath with | some p => ["new_path=" ++ showPath p] | Option.none => []) ++
    ovs "old_value" c.oldValue ++ ovs "new_value" c.newValue)

def showOpV (o : OpV) : String :=
  o.tag ++ "/" ++ toString o.i1 ++ "/" ++ toString o.i2 ++ "/" ++ toString o.j1 ++ "/" ++ toString o.j2 ++
  "/old=" ++ (match o.oldValues with | some xs => "+".intercalate (xs.map vs) | Option.none => "-") ++
  "/new=" ++ (match o.newValues with | some xs => "+".intercalate (xs.map vs) | Option.none => "-")

def showDelta (d : DeltaD) : String :=
  let es : List String :=
    d.typeChanges.map (showChange "type_changes" true) ++
    d.valuesChanged.map (showChange "values_changed" false) ++
    d.dictAdded.map (fun e => "dictionary_item_added|" ++ showPath e.1 ++ "|" ++ vs e.2) ++
    d.dictRemoved.map (fun e => "dictionary_item_removed|" ++ showPath e.1 ++ "|" ++ vs e.2) ++
    d.iterAdded.map (fun e => "iterable_item_added|" ++ showPath e.1 ++ "|" ++ vs e.2) ++
    d.iterRemoved.map (fun e => "iterable_item_removed|" ++ showPath e.1 ++ "|" ++ vs e.2) ++
    d.iterMoved.map (fun e => "iterable_item_moved|" ++ showPath e.1 ++ "|" ++ showPath e.2.1 ++ ";" ++ vs e.2.2) ++
    d.setAdded.map (fun e => "set_item_added|" ++ showPath e.1 ++ "|" ++ "+".intercalate (Wire.sortStrings (e.2.map vs))) ++
    d.setRemoved.map (fun e => "set_item_removed|" ++ showPath e.1 ++ "|" ++ "+".intercalate (Wire.sortStrings (e.2.map vs))) ++
    d.opcodes.map (fun e => "_iterable_opcodes|" ++ showPath e.1 ++ "|" ++ ",".intercalate (e.2.map showOpV))
  if es.isEmpty then "{}" else " ".intercalate (Wire.sortStrings es)

def showState (s : AState) : String :=
  match s.raised with
  | some x => "RAISED:" ++ x
  | Option.none => vs s.root ++ " errs=" ++ (if s.errs > 0 then "1" else "0")

def deltaLine (ts : List String) : String :=
  match ts with
  | bd :: aw :: z :: tn :: td :: rest =>
    match tn.toNat?, td.toNat?, parseVals 4 rest with
    | some tn, some td, some ([t1, t2, base, base2], []) =>
      let cfg : DCfg := { zip := z == "T", thrNum := tn, thrDen := td }
      let r := deepDiff cfg difflibOpcodes hashForDiff t1 t2
      let bidir := bd == "T"
      let d := buildDelta (!bidir) (aw == "T" || bidir) t1 t2 r
      let fwd := applyDelta bidir d base
      showDelta d ++ " ;; " ++ showState fwd ++ " ;; " ++ (match subDelta bidir d base2 with | .ok rev => showState rev | .error _ => "refused")
    | _, _, _ => "bad-op"
  | _ => "bad-op"

end Delta
