import Model.Diff.Ordered
import Model.Diff.Resolve
import Model.Diff.Text
/-!
Model of `DeepDiff._to_delta_dict` / `DeltaResult._from_tree_results`: the delta payload built from
the diff tree.  Paths are key sequences (the string layer is C09).
-/
namespace Delta
open Py Diff

abbrev DPath := List PyVal

structure Change where
  path : DPath
  newPath : Option DPath := none          -- given when the t2-side path differs
  oldValue : Option PyVal := none
  newValue : Option PyVal := none
  oldType : String := ""
  newType : String := ""
deriving Repr

structure OpV where
  tag : String
  i1 : Nat
  i2 : Nat
  j1 : Nat
  j2 : Nat
  oldValues : Option (List PyVal) := none
  newValues : Option (List PyVal) := none
deriving Repr

structure DeltaD where
  typeChanges : List Change := []
  dictAdded : List (DPath × PyVal) := []
  dictRemoved : List (DPath × PyVal) := []
  valuesChanged : List Change := []
  iterAdded : List (DPath × PyVal) := []
  iterRemoved : List (DPath × PyVal) := []
  iterMoved : List (DPath × DPath × PyVal) := []      -- path, new_path, value
  setRemoved : List (DPath × List PyVal) := []
  setAdded : List (DPath × List PyVal) := []
  opcodes : List (DPath × List OpV) := []
deriving Repr

def sidePath (steps : List Step) (useT2 : Bool) : Option DPath := steps.mapM (fun s => s.param useT2)

/-- Python's `new_type(old_value)` for the built-in types of the universe; `none` = it raises -/
def castTo (ty : String) (v : PyVal) : Option PyVal :=
  match ty, v with
  | "int", .bool b => some (.int (if b then 1 else 0))
  | "int", .int i => some (.int i)
  | "int", .float n s => some (.int (Int.tdiv n (pow10 s)))
  | "float", .bool b => some (.float (if b then 1 else 0) 0)
  | "float", .int i => some (.float i 0)
  | "float", .float n s => some (.float n s)
  | "bool", .none => some (.bool false)
  | "bool", .bool b => some (.bool b)
  | "bool", .int i => some (.bool (i != 0))
  | "bool", .float n _ => some (.bool (n != 0))
  | "bool", .str s => some (.bool (!s.isEmpty))
  | "bool", .bytes s => some (.bool (!s.isEmpty))
  | "bool", .list xs | "bool", .tuple xs | "bool", .set xs | "bool", .frozenset xs => some (.bool (!xs.isEmpty))
  | "bool", .dict kvs => some (.bool (!kvs.isEmpty))
  | "str", .none => some (.str "None")
  | "str", .bool b => some (.str (if b then "True" else "False"))
  | "str", .int i => some (.str (toString i))
  | "str", .float n s => some (.str (floatRepr n s))
  | "str", .str s => some (.str s)
  | "list", .list xs | "list", .tuple xs | "list", .set xs | "list", .frozenset xs => some (.list xs)
  | "tuple", .list xs | "tuple", .tuple xs | "tuple", .set xs | "tuple", .frozenset xs => some (.tuple xs)
  | "set", .list xs | "set", .tuple xs | "set", .set xs | "set", .frozenset xs => some (.set xs)
  | "frozenset", .list xs | "frozenset", .tuple xs | "frozenset", .set xs | "frozenset", .frozenset xs => some (.frozenset xs)
  | "list", .str s => some (.list (s.toList.map fun c => .str (String.singleton c)))
  | "tuple", .str s => some (.tuple (s.toList.map fun c => .str (String.singleton c)))
  | "set", .str s => some (.set ((s.toList.map fun c => PyVal.str (String.singleton c)).eraseDups))
  | "frozenset", .str s => some (.frozenset ((s.toList.map fun c => PyVal.str (String.singleton c)).eraseDups))
  | "bytes", .bytes s => some (.bytes s)
  | "bytes", .list [] | "bytes", .tuple [] | "bytes", .set [] | "bytes", .frozenset [] | "bytes", .dict [] => some (.bytes "")
  | "bytes", .int 0 | "bytes", .bool false => some (.bytes "")            -- bytes(n) is n zero bytes
  | "dict", .str "" | "dict", .bytes "" => some (.dict [])
  | "list", .bytes "" => some (.list [])
  | "tuple", .bytes "" => some (.tuple [])
  | "set", .bytes "" => some (.set [])
  | "frozenset", .bytes "" => some (.frozenset [])
  | "dict", .dict kvs => some (.dict kvs)
  | "dict", .list [] | "dict", .tuple [] | "dict", .set [] | "dict", .frozenset [] => some (.dict [])
  | "set", .dict kvs => some (.set (kvs.map (·.1)))
  | "frozenset", .dict kvs => some (.frozenset (kvs.map (·.1)))
  | "list", .dict kvs => some (.list (kvs.map (·.1)))
  | "tuple", .dict kvs => some (.tuple (kvs.map (·.1)))
  | _, _ => Option.none            -- everything else: not modelled (treated as "conversion does not reproduce the value")

/-- opcodes with the old/new slices, as `_diff_ordered_iterable_by_difflib` records them -/
def withValues (xs ys : List PyVal) (ops : List Opcode) : List OpV :=
  ops.map fun o =>
    if o.tag == "equal" then { tag := o.tag, i1 := o.i1, i2 := o.i2, j1 := o.j1, j2 := o.j2 }
    else { tag := o.tag, i1 := o.i1, i2 := o.i2, j1 := o.j1, j2 := o.j2,
           oldValues := some ((xs.drop o.i1).take (o.i2 - o.i1)), newValues := some ((ys.drop o.j1).take (o.j2 - o.j1)) }

def seqItems : PyVal → List PyVal
  | .list xs | .tuple xs => xs
  | _ => []

/-- group set items by the path of their set, first occurrence order -/
def groupSet (entries : List (DPath × PyVal)) : List (DPath × List PyVal) :=
  entries.foldl (fun acc (p, v) =>
    if acc.any (fun q => q.1 == p) then acc.map (fun q => if q.1 == p then (q.1, q.2 ++ [v]) else q)
    else acc ++ [(p, [v])]) []

/-- `_to_delta_dict(directed, always_include_values)` for an ordered diff of `t1`, `t2` -/
def buildDelta (directed always : Bool) (t1 t2 : PyVal) (r : Result) : DeltaD :=
  let opPaths : List DPath := r.opcodes.filterMap (fun (steps, _) => sidePath steps false)
  let underOps (steps : List Step) : Bool :=
    match sidePath steps.dropLast false with
    | some p => opPaths.contains p
    | Option.none => false
  let stripOld (c : Change) : Change := if directed then { c with oldValue := Option.none } else c
  let cat (c : Cat) := r.tree.filter (fun e => e.1 == c)
  let plain (c : Cat) (skipOps : Bool) : List (DPath × PyVal) :=
    (cat c).filterMap fun e =>
      if skipOps && underOps e.2.steps then Option.none
      else (sidePath e.2.steps false).map (fun p => (p, itemOf e.2))
  { typeChanges := (cat .typeChanges).filterMap fun e => do
      let p ← sidePath e.2.steps false
      let p2 ← sidePath e.2.steps true
      let a := e.2.t1.getD .none
      let b := e.2.t2.getD .none
      let incl := match castTo (typeName b) a with
        | some c => !(pyEq c b)
        | Option.none => true
      pure (stripOld { path := p, newPath := if p == p2 then Option.none else some p2, oldType := typeName a, newType := typeName b,
                       oldValue := if incl || always then some a else Option.none,
                       newValue := if incl || always then some b else Option.none })
    dictAdded := plain .dictAdded false
    dictRemoved := plain .dictRemoved false
    valuesChanged := (cat .valuesChanged).filterMap fun e => do
      let p ← sidePath e.2.steps false
      let p2 ← sidePath e.2.steps true
      pure (stripOld { path := p, newPath := if p == p2 then Option.none else some p2,
                       oldValue := e.2.t1, newValue := e.2.t2 })
    iterAdded := plain .iterAdded true
    iterRemoved := plain .iterRemoved true
    iterMoved := (cat .iterMoved).filterMap fun e =>
      if underOps e.2.steps then Option.none
      else do
        let p ← sidePath e.2.steps false
        let p2 ← sidePath e.2.steps true
        pure (p, p2, e.2.t2.getD .none)
    setRemoved := groupSet ((cat .setRemoved).filterMap fun e => (sidePath e.2.steps.dropLast false).map (fun p => (p, e.2.t1.getD .none)))
    setAdded := groupSet ((cat .setAdded).filterMap fun e => (sidePath e.2.steps.dropLast false).map (fun p => (p, e.2.t2.getD .none)))
    opcodes := r.opcodes.filterMap fun (steps, ops) => do
      let p ← sidePath steps false
      let xs := seqItems ((follow t1 steps false).getD .none)
      let ys := seqItems ((follow t2 steps true).getD .none)
      let vs := withValues xs ys ops
      pure (p, if directed && !always then vs.map (fun o => { o with oldValues := Option.none }) else vs) }

end Delta
