import Model.Delta.Apply
/-! `Delta._get_reverse_diff` -/
namespace Delta
open Py Diff

def reverseDelta (d : DeltaD) : DeltaD :=
  { typeChanges := d.typeChanges.map fun c =>
      { path := c.newPath.getD c.path, oldType := c.newType, newType := c.oldType,
        oldValue := c.newValue, newValue := c.oldValue }
    valuesChanged := d.valuesChanged.map fun c =>
      { path := c.newPath.getD c.path, oldValue := c.newValue, newValue := c.oldValue }
    dictAdded := d.dictRemoved
    dictRemoved := d.dictAdded
    iterAdded := d.iterRemoved
    iterRemoved := d.iterAdded
    iterMoved := d.iterMoved.map fun (p, np, v) => (np, p, v)
    setAdded := d.setRemoved
    setRemoved := d.setAdded
    opcodes := d.opcodes.map fun (p, ops) => (p, ops.map fun o =>
      { tag := if o.tag == "delete" then "insert" else if o.tag == "insert" then "delete" else o.tag,
        i1 := o.j1, i2 := o.j2, j1 := o.i1, j2 := o.i2, oldValues := o.newValues, newValues := o.oldValues }) }

/-- `base - delta`: a delta that was not built with `bidirectional=True` refuses (ValueError) -/
def subDelta (bidir : Bool) (d : DeltaD) (base : PyVal) : Except String AState :=
  if bidir then .ok (applyDelta true (reverseDelta d) base) else .error "ValueError"

end Delta
