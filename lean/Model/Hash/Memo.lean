import Model.Hash.Prep
import Model.Py.WF
/-!
`DeepHash._hash` with its memo table `self.hashes`: a hashable object is looked up before anything is
computed and stored afterwards; the keys are compared with Python's `==` (after booleans have been
replaced by `BoolObj` members, so `True` never meets `1` at the top level — inside a tuple it does).
Unhashable objects are stored under their `id` and are never found again in a tree-shaped value.
-/
namespace Hash
open Py

abbrev Table := List (PyVal × (String × Nat))

/-- equality of two keys of `self.hashes` -/
def tblEq : PyVal → PyVal → Bool
  | .bool a, .bool b => a == b
  | .bool _, _ => false
  | _, .bool _ => false
  | .frozenset a, .frozenset b => pyEq (.frozenset a) (.frozenset b)
  | x, y => keyEq x y

/-- objects that can be keys of `self.hashes` -/
def memoisable : PyVal → Bool
  | .frozenset xs => xs.all hashable
  | v => hashable v

def lookup (T : Table) (v : PyVal) : Option (String × Nat) := (T.find? (fun p => tblEq p.1 v)).map (·.2)

/-- the lookup before and the store after the computation -/
def memoize (T : Table) (v : PyVal) (compute : Table → (String × Nat) × Table) : (String × Nat) × Table :=
  if memoisable v then
    match lookup T v with
    | some r => (r, T)
    | none => let (r, T1) := compute T; (r, T1 ++ [(v, r)])
  else compute T

mutual
/-- `_hash(obj)` with the table threaded through: ((hash, count), table afterwards) -/
def hashM (cfg : HCfg) (H : String → String) : Table → PyVal → (String × Nat) × Table
  | T, .none => memoize T .none (fun T => (hashV cfg H .none, T))
  | T, .bool b => memoize T (.bool b) (fun T => (hashV cfg H (.bool b), T))
  | T, .int i => memoize T (.int i) (fun T => (hashV cfg H (.int i), T))
  | T, .float n s => memoize T (.float n s) (fun T => (hashV cfg H (.float n s), T))
  | T, .str s => memoize T (.str s) (fun T => (hashV cfg H (.str s), T))
  | T, .bytes s => memoize T (.bytes s) (fun T => (hashV cfg H (.bytes s), T))
  | T, .list xs =>
    let r := hashML cfg H T xs
    ((finish cfg H false (prepIterable cfg "list" r.1.1), r.1.2 + 1), r.2)
  | T, .set xs =>
    let r := hashML cfg H T xs
    ((finish cfg H false (prepIterable cfg "set" r.1.1), r.1.2 + 1), r.2)
  | T, .tuple xs =>
    if memoisable (.tuple xs) then
      match lookup T (.tuple xs) with
      | some r => (r, T)
      | none =>
        let r := hashML cfg H T xs
        let res := (finish cfg H false (prepIterable cfg "tuple" r.1.1), r.1.2 + 1)
        (res, r.2 ++ [(.tuple xs, res)])
    else
      let r := hashML cfg H T xs
      ((finish cfg H false (prepIterable cfg "tuple" r.1.1), r.1.2 + 1), r.2)
  | T, .frozenset xs =>
    if memoisable (.frozenset xs) then
      match lookup T (.frozenset xs) with
      | some r => (r, T)
      | none =>
        let r := hashML cfg H T xs
        let res := (finish cfg H false (prepIterable cfg "frozenset" r.1.1), r.1.2 + 1)
        (res, r.2 ++ [(.frozenset xs, res)])
    else
      let r := hashML cfg H T xs
      ((finish cfg H false (prepIterable cfg "frozenset" r.1.1), r.1.2 + 1), r.2)
  | T, .dict kvs =>
    let r := hashMP cfg H T kvs
    ((finish cfg H false ("dict:{" ++ joinWith ";" (sortStr r.1.1) ++ "}"), r.1.2 + 1), r.2)
def hashML (cfg : HCfg) (H : String → String) : Table → List PyVal → (List String × Nat) × Table
  | T, [] => (([], 0), T)
  | T, x :: xs =>
    let r1 := hashM cfg H T x
    let r2 := hashML cfg H r1.2 xs
    ((r1.1.1 :: r2.1.1, r1.1.2 + r2.1.2), r2.2)
def hashMP (cfg : HCfg) (H : String → String) : Table → List (PyVal × PyVal) → (List String × Nat) × Table
  | T, [] => (([], 0), T)
  | T, (k, v) :: rest =>
    if cfg.ignorePrivate && isPrivateKey k then
      let r := hashMP cfg H T rest
      ((r.1.1, r.1.2 + 1), r.2)
    else
      let rk := hashM cfg H T k
      let rv := hashM cfg H rk.2 v
      let r := hashMP cfg H rv.2 rest
      (((rk.1.1 ++ ":" ++ rv.1.1) :: r.1.1, r.1.2 + 1 + rv.1.2), r.2)
end

/-- `DeepHash(w)` followed by `DeepHash(v, hashes=<the first table>)`: the two digests -/
def deepHashShared (cfg : HCfg) (H : String → String) (w v : PyVal) : (String × Nat) × (String × Nat) :=
  let r1 := hashM cfg H [] w
  let r2 := hashM cfg H r1.2 v
  (r1.1, r2.1)

end Hash
