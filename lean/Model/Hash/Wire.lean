import Model.Hash.Prep
import Model.Hash.Sha256
import Model.Py.Wire
import Model.Hash.Memo
namespace Hash
open Py

/-- cfg token: 7 flags `ignoreRepetition ignoreOrder ignoreStringType ignoreStringCase ignoreNumericType ignorePrivate applyHash` as T/F characters -/
def parseCfg (t : String) : Option HCfg :=
  match t.toList.map (· == 'T') with
  | [a, b, c, d, e, f, g] => some { ignoreRepetition := a, ignoreOrder := b, ignoreStringType := c, ignoreStringCase := d,
                                    ignoreNumericType := e, ignorePrivate := f, applyHash := g }
  | _ => none

/-- `HASH <cfg> <value>` ↦ `<hash or serialisation, dotted code points> <count>` -/
def hashLine (ts : List String) : String :=
  match ts with
  | c :: rest =>
    match parseCfg c, parseVal (rest.length + 1) rest with
    | some cfg, some (v, []) =>
      let (h, n) := hashV cfg Sha256.hex v
      Wire.encStr h ++ " " ++ toString n
    | _, _ => "bad-op"
  | _ => "bad-op"

/-- `HASHM <cfg> <w> <v>`: `DeepHash(w)`, then `DeepHash(v, hashes=<that table>)` ↦ `<hash w> <count> <hash v> <count>` -/
def hashmLine (ts : List String) : String :=
  match ts with
  | c :: rest =>
    match parseCfg c, parseVal (rest.length + 1) rest with
    | some cfg, some (w, rest2) =>
      (match parseVal (rest2.length + 1) rest2 with
       | some (v, []) =>
         let r := deepHashShared cfg Sha256.hex w v
         Wire.encStr r.1.1 ++ " " ++ toString r.1.2 ++ " " ++ Wire.encStr r.2.1 ++ " " ++ toString r.2.2
       | _ => "bad-op")
    | _, _ => "bad-op"
  | _ => "bad-op"

end Hash
