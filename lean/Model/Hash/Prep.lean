import Model.Py.Value
/-!
Model of `deepdiff.deephash.DeepHash._hash` and its `_prep_*` helpers for the value universe
`PyVal`, as a pure function of the value (no memo table; see `Model/Hash/Memo.lean` for the table).
`H` is the hasher (`sha256hex` by default), a parameter.
-/
namespace Hash
open Py

structure HCfg where
  ignoreRepetition : Bool := true
  ignoreOrder : Bool := true            -- ignore_iterable_order
  ignoreStringType : Bool := false      -- ignore_string_type_changes
  ignoreStringCase : Bool := false
  ignoreNumericType : Bool := false     -- ignore_numeric_type_changes (significant_digits not set: numbers printed by str())
  ignorePrivate : Bool := true          -- ignore_private_variables
  applyHash : Bool := true
deriving Repr, DecidableEq

def sortStr (xs : List String) : List String := xs.mergeSort (fun a b => decide (a ≤ b))

/-- `prepare_string_for_hashing` applied to a `str` -/
def cleanStr (cfg : HCfg) (typeTag : String) (s : String) : String :=
  let s := if cfg.ignoreStringCase then s.toLower else s          -- the text is folded before the type prefix is added
  if cfg.ignoreStringType then s else typeTag ++ ":" ++ s

/-- the distinct strings in first-occurrence order (the key order of the `defaultdict(int)` that
`_prep_iterable` fills) -/
def dedupFirst : List String → List String
  | [] => []
  | x :: xs => x :: (dedupFirst xs).filter (fun y => y != x)

/-- item hash ↦ number of occurrences, in first-occurrence order -/
def countDedup (hs : List String) : List (String × Nat) := (dedupFirst hs).map (fun x => (x, hs.count x))

def isPrivateKey : PyVal → Bool
  | .str s => s.startsWith "__"
  | _ => false

/-- `sep.join(xs)` -/
def joinWith (sep : String) : List String → String
  | [] => ""
  | [x] => x
  | x :: y :: rest => x ++ sep ++ joinWith sep (y :: rest)

/-- finish `_hash`: re-tag non-strings as `str:` (the `prepare_string_for_hashing(result)` call) and apply the hasher -/
def finish (cfg : HCfg) (H : String → String) (isStrObj : Bool) (result : String) : String :=
  if cfg.applyHash then
    H (if isStrObj then result else cleanStr cfg "str" result)
  else result

def numStr : PyVal → String
  | .int i => toString i
  | .float n s => floatRepr n s
  | _ => ""

mutual
/-- `_hash(obj)`: (hash, count) -/
def hashV (cfg : HCfg) (H : String → String) : PyVal → String × Nat
  | .none => (finish cfg H false "NONE", 1)
  | .bool b => (finish cfg H false (if b then "bool:true" else "bool:false"), 1)
  | .int i => (finish cfg H false ((if cfg.ignoreNumericType then "number" else "int") ++ ":" ++ toString i), 1)
  | .float n s => (finish cfg H false ((if cfg.ignoreNumericType then "number" else "float") ++ ":" ++ floatRepr n s), 1)
  | .str s => (finish cfg H true (cleanStr cfg "str" s), 1)
  | .bytes s => (finish cfg H true (cleanStr cfg "bytes" s), 1)
  | .list xs => let (hs, c) := hashL cfg H xs; (finish cfg H false (prepIterable cfg "list" hs), c + 1)
  | .tuple xs => let (hs, c) := hashL cfg H xs; (finish cfg H false (prepIterable cfg "tuple" hs), c + 1)
  | .set xs => let (hs, c) := hashL cfg H xs; (finish cfg H false (prepIterable cfg "set" hs), c + 1)
  | .frozenset xs => let (hs, c) := hashL cfg H xs; (finish cfg H false (prepIterable cfg "frozenset" hs), c + 1)
  | .dict kvs =>
    let (es, c) := hashP cfg H kvs
    (finish cfg H false ("dict:{" ++ joinWith ";" (sortStr es) ++ "}"), c + 1)
/-- the item hashes of an iterable, in iteration order, and the sum of their counts -/
def hashL (cfg : HCfg) (H : String → String) : List PyVal → List String × Nat
  | [] => ([], 0)
  | x :: xs =>
    let (h, c) := hashV cfg H x
    let (hs, cs) := hashL cfg H xs
    (h :: hs, c + cs)
/-- the `keyhash:valuehash` entries of a dict in insertion order, and the count contribution -/
def hashP (cfg : HCfg) (H : String → String) : List (PyVal × PyVal) → List String × Nat
  | [] => ([], 0)
  | (k, v) :: rest =>
    let (es, cs) := hashP cfg H rest
    if cfg.ignorePrivate && isPrivateKey k then (es, cs + 1)
    else
      let (kh, _) := hashV cfg H k
      let (vh, vc) := hashV cfg H v
      ((kh ++ ":" ++ vh) :: es, cs + 1 + vc)
/-- `_prep_iterable` after the item hashes are known -/
def prepIterable (cfg : HCfg) (typeTag : String) (hs : List String) : String :=
  let d := countDedup hs
  let items := if cfg.ignoreRepetition then d.map (·.1) else d.map (fun p => p.1 ++ "|" ++ toString p.2)
  let items := if cfg.ignoreOrder then sortStr items else items
  typeTag ++ ":" ++ joinWith "," items
end

/-- `DeepHash(v, **cfg)[v]` -/
def deepHash (cfg : HCfg) (H : String → String) (v : PyVal) : String := (hashV cfg H v).1

end Hash
