import Model.Generated.Tables
/-!
Model of `deepdiff.distance._get_numbers_distance` and the date/time wrappers, over exact
rationals.  Python converts both operands to `float`; the model is the real-number reading of the
same expression (IEEE rounding, overflow to inf and the float conversion of huge ints are not in
the model; see the float findings in C19).
-/
namespace Dist

def absR (x : Rat) : Rat := if x < 0 then -x else x
def minR (x y : Rat) : Rat := if x ≤ y then x else y

/-- `_get_numbers_distance(num1, num2, max_)` with `use_log_scale=False` -/
def numDist (a b mx : Rat) : Rat :=
  if a = b then 0
  else if mx = 0 then mx                       -- `if not max_: return max_` (cutoff_distance_for_pairs = 0)
  else
    let divisor := (a + b) / mx
    if divisor = 0 then mx else minR mx (absR ((a - b) / divisor))

/-- the values `get_numeric_types_distance` accepts -/
inductive Val where
  | number (q : Rat)
  | datetime (us : Int)                    -- microseconds since the epoch
  | date (ordinal : Int)
  | timedelta (us : Int)
  | time (h m s us : Nat)
deriving Repr, DecidableEq

/-- `time_to_seconds`: the seconds since midnight, with the fraction of a second when there is one -/
def timeToSeconds (h m s us : Nat) : Rat :=
  if us = 0 then (((h * 60 + m) * 60 + s : Nat) : Rat) else (((h * 60 + m) * 60 + s : Nat) : Rat) + (us : Rat) / 1000000

/-- `get_numeric_types_distance`: first row of `TYPES_TO_DIST_FUNC` both operands are instances
of.  A `datetime` is also a `date`; `ordOf` gives `toordinal()` of a datetime (a parameter:
calendar arithmetic is not modelled). -/
def typedDist (ordOf : Int → Int) (x y : Val) (mx : Rat) : Option Rat :=
  match x, y with
  | .number a, .number b => some (numDist a b mx)
  | .datetime a, .datetime b => some (numDist ((a : Rat) / 1000000) ((b : Rat) / 1000000) mx)
  | .datetime a, .date b => some (numDist (ordOf a) b mx)
  | .date a, .datetime b => some (numDist a (ordOf b) mx)
  | .date a, .date b => some (numDist a b mx)
  | .timedelta a, .timedelta b => some (numDist ((a : Rat) / 1000000) ((b : Rat) / 1000000) mx)
  | .time h m s u, .time h' m' s' u' => some (numDist (timeToSeconds h m s u) (timeToSeconds h' m' s' u') mx)
  | _, _ => none

end Dist
