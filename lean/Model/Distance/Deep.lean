import Model.Delta.Build
import Model.Delta.Wire
import Model.Hash.Prep
/-!
Model of `DistanceMixin._get_rough_distance` for two values that are not both numbers / dates (those take the number
distance of `Model/Distance/Numbers.lean`):

    diff_length = _get_item_length(self._to_delta_dict(report_repetition_required=False))
    if diff_length == 0: return 0
    return diff_length / (rough_length(t1) + rough_length(t2))

`_get_item_length` counts the leaves of the delta dictionary (numbers, strings and type objects count 1, `None` and empty
containers 0, keys are not counted, keys that start with an underscore -- the internal keys of the delta dictionary, but
also such keys of the user's own dictionaries -- and `new_path` are skipped).  The rough length of a value is the count
`DeepHash` keeps next to its digest.  The result is kept as numerator and denominator.
-/
namespace Dist
open Py Diff Delta

/-- keys `_get_item_length` leaves out of the count -/
def internalKey : PyVal → Bool
  | .str s => s.startsWith "_" || s == "deep_distance" || s == "new_path"
  | _ => false

mutual
/-- `_get_item_length` on a value of the universe -/
def itemLen : PyVal → Nat
  | .none => 0
  | .bool _ => 1
  | .int _ => 1
  | .float _ _ => 1
  | .str _ => 1
  | .bytes _ => 1
  | .list xs => itemLenL xs
  | .tuple xs => itemLenL xs
  | .set xs => itemLenL xs
  | .frozenset xs => itemLenL xs
  | .dict kvs => itemLenKV kvs
def itemLenL : List PyVal → Nat
  | [] => 0
  | x :: xs => itemLen x + itemLenL xs
def itemLenKV : List (PyVal × PyVal) → Nat
  | [] => 0
  | (k, v) :: rest => (if internalKey k then 0 else itemLen v) + itemLenKV rest
end

def optLen : Option PyVal → Nat
  | some v => itemLen v
  | Option.none => 0

/-- one `values_changed` / `type_changes` entry: old_type and new_type are classes (1 each), `new_path` is skipped -/
def changeLen (isType : Bool) (c : Change) : Nat := (if isType then 2 else 0) + optLen c.oldValue + optLen c.newValue

def sumBy {α} (f : α → Nat) : List α → Nat
  | [] => 0
  | x :: xs => f x + sumBy f xs

/-- `_get_item_length` on the delta dictionary (`_iterable_opcodes` starts with an underscore: skipped) -/
def payloadLen (d : DeltaD) : Nat :=
  sumBy (changeLen true) d.typeChanges + sumBy (changeLen false) d.valuesChanged +
  sumBy (fun e => itemLen e.2) d.dictAdded + sumBy (fun e => itemLen e.2) d.dictRemoved +
  sumBy (fun e => itemLen e.2) d.iterAdded + sumBy (fun e => itemLen e.2) d.iterRemoved +
  sumBy (fun e => itemLen e.2.2) d.iterMoved +
  sumBy (fun e => itemLenL e.2) d.setRemoved + sumBy (fun e => itemLenL e.2) d.setAdded

mutual
/-- the count `DeepHash` keeps for a value (`ip` = ignore_private_variables): 1 per leaf, 1 per container, 1 per dictionary key -/
def roughLen (ip : Bool) : PyVal → Nat
  | .list xs => roughLenL ip xs + 1
  | .tuple xs => roughLenL ip xs + 1
  | .set xs => roughLenL ip xs + 1
  | .frozenset xs => roughLenL ip xs + 1
  | .dict kvs => roughLenKV ip kvs + 1
  | _ => 1
def roughLenL (ip : Bool) : List PyVal → Nat
  | [] => 0
  | x :: xs => roughLen ip x + roughLenL ip xs
def roughLenKV (ip : Bool) : List (PyVal × PyVal) → Nat
  | [] => 0
  | (k, v) :: rest => (if ip && Hash.isPrivateKey k then 1 else 1 + roughLen ip v) + roughLenKV ip rest
end

/-- numerator and denominator of `deep_distance` for an ordered comparison -/
def deepDistance (cfg : DCfg) (al : Align) (hashOf : PyVal → String) (t1 t2 : PyVal) : Nat × Nat :=
  (payloadLen (buildDelta true false t1 t2 (diffUnmerged cfg al hashOf t1 t2)), roughLen cfg.ignorePrivate t1 + roughLen cfg.ignorePrivate t2)

/-- `DDIST <zip> <thrN> <thrD> <t1> <t2>` -/
def ddistLine (ts : List String) : String :=
  match ts with
  | z :: tn :: td :: rest =>
    match tn.toNat?, td.toNat?, parseVals 2 rest with
    | some tn, some td, some ([t1, t2], []) =>
      let cfg : DCfg := { zip := z == "T", thrNum := tn, thrDen := td }
      let r := deepDistance cfg difflibOpcodes hashForDiff t1 t2
      toString r.1 ++ " " ++ toString r.2
    | _, _, _ => "bad-op"
  | _ => "bad-op"

end Dist
