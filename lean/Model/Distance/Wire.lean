import Model.Distance.Numbers
namespace Dist

def parseRat (t : String) : Option Rat :=
  match t.splitOn "/" with
  | [n] => n.toInt?.map (fun i => (i : Rat))
  | [n, d] => do
    let n ← n.toInt?; let d ← d.toNat?
    if d = 0 then none else pure ((n : Rat) / (d : Rat))
  | _ => none

def showRat (q : Rat) : String := toString q.num ++ "/" ++ toString q.den

/-- `NDIST a b max` -/
def ndistLine (ts : List String) : String :=
  match ts.mapM parseRat with
  | some [a, b, mx] => showRat (numDist a b mx)
  | _ => "bad-op"

end Dist
