import Model.Distance.Numbers
namespace Dist

def parseRat (t : String) : Option Rat :=
  match t.splitOn "/" with
  | [n] => n.toInt?.map (fun i => (i : Rat))
  | [n, d] => do
    let n ← n.toInt?; let d ← d.toNat?
    if d = 0 then none else pure ((n : Rat) / (d : Rat))
  | _ => none

def showRat (q : Rat) : String := toString q.num ++ "/" ++ toString q.den

/-- `NDIST a b max` -/
def ndistLine (ts : List String) : String :=
  match ts.mapM parseRat with
  | some [a, b, mx] => showRat (numDist a b mx)
  | _ => "bad-op"

/-- `TDIST kind args… max`: `get_numeric_types_distance` for two values of one kind
(`time h m s us h' m' s' us'`, `datetime us us'`, `date ord ord'`, `timedelta us us'`) -/
def tdistLine (ts : List String) : String :=
  let out (r : Option Rat) : String := match r with | some q => showRat q | none => "none"
  match ts with
  | ["time", h, m, s, u, h', m', s', u', mx] =>
    (match [h, m, s, u, h', m', s', u'].mapM String.toNat?, parseRat mx with
     | some [h, m, s, u, h', m', s', u'], some mx => out (typedDist (fun _ => 0) (.time h m s u) (.time h' m' s' u') mx)
     | _, _ => "bad-op")
  | [kind, a, b, mx] =>
    (match a.toInt?, b.toInt?, parseRat mx with
     | some a, some b, some mx =>
       if kind = "datetime" then out (typedDist (fun _ => 0) (.datetime a) (.datetime b) mx)
       else if kind = "date" then out (typedDist (fun _ => 0) (.date a) (.date b) mx)
       else if kind = "timedelta" then out (typedDist (fun _ => 0) (.timedelta a) (.timedelta b) mx)
       else "bad-op"
     | _, _, _ => "bad-op")
  | _ => "bad-op"

end Dist
