/-! Shared helpers for the line protocol. Strings travel as dotted decimal code points; the empty
string is `_`. -/
namespace Wire

def encStr (s : String) : String :=
  if s.isEmpty then "_" else ".".intercalate (s.toList.map (fun c => toString c.toNat))

def decStr (t : String) : Option String :=
  if t == "_" then some "" else
  (t.splitOn ".").foldr (fun p acc => do
    let a ← acc
    let n ← p.toNat?
    pure (String.singleton (Char.ofNat n) ++ a)) (some "")

def sortStrings (xs : List String) : List String := (xs.toArray.qsort (· < ·)).toList

/-- split `a=b` at the first `=` -/
def splitEq (t : String) : String × String :=
  match t.splitOn "=" with
  | [a] => (a, "")
  | a :: rest => (a, "=".intercalate rest)
  | [] => ("", "")

end Wire
