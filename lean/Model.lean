import Model.Cache.LFU
import Model.Cache.LFUWire
import Model.Pickle.VM
import Model.Pickle.Encode
import Model.Pickle.Wire
