import Model.Cache.LFU
import Model.Cache.LFUWire
