import Properties.C18
