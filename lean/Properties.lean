import Properties.C18
import Properties.C15
import Properties.C14
import Properties.C09
import Properties.C19
import Properties.C20
