import Properties.C18
import Properties.C15
