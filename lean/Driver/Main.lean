import Model.Distance.Deep
import Model

def handle (line : String) : String :=
  match (line.trimAscii.toString.splitOn " ").filter (· ≠ "") with
  | "LFU" :: rest => LFU.runLine rest
  | "MEMO" :: rest => Memo.memoLine rest
  | "PKL" :: rest => Pickle.runLine rest
  | "FC" :: rest => Pickle.fcLine rest
  | "ENC" :: rest => Pickle.encLine rest
  | "PRENDER" :: rest => Path.renderLine rest
  | "PPARSE" :: rest => Path.parseLine rest
  | "PSTRINGIFY" :: rest => Path.stringifyLine rest
  | "PLE" :: rest => Path.leLine rest
  | "NDIST" :: rest => Dist.ndistLine rest
  | "TDIST" :: rest => Dist.tdistLine rest
  | "DDIST" :: rest => Dist.ddistLine rest
  | "HASH" :: rest => Hash.hashLine rest
  | "HASHM" :: rest => Hash.hashmLine rest
  | "DIFF" :: rest => Diff.diffLine rest
  | "DIFFX" :: rest => Diff.diffxLine rest
  | "DIFFO" :: rest => DiffO.diffoLine rest
  | "IODIFF" :: rest => DiffIO.iodiffLine rest
  | "DELTA" :: rest => Delta.deltaLine rest
  | "SEARCH" :: rest => Search.searchLine rest
  | "SAVEFS" :: rest => SaveFS.saveLine Wire.decStr Wire.encStr rest
  | _ => "bad-op"

partial def loop (h : IO.FS.Stream) (out : IO.FS.Stream) : IO Unit := do
  let line ← h.getLine
  if line.isEmpty then return ()
  out.putStrLn (handle line)
  loop h out

def main : IO Unit := do
  let out ← IO.getStdout
  loop (← IO.getStdin) out
  out.flush
