import Model.Py.WF
/-! `keyEq` (Python `==` on hashables) is an equivalence relation on hashable values. -/
namespace Py

theorem pow10_pos (n : Nat) : 0 < pow10 n := by
  unfold pow10; exact Int.pow_pos (by decide)

theorem pow10_ne_zero (n : Nat) : pow10 n ≠ 0 := Int.ne_of_gt (pow10_pos n)

/-- cross-multiplied equality of short decimals is transitive -/
theorem decEq_trans {n n' n'' : Int} {s s' s'' : Nat}
    (h1 : n * pow10 s' = n' * pow10 s) (h2 : n' * pow10 s'' = n'' * pow10 s') :
    n * pow10 s'' = n'' * pow10 s := by
  have hp := pow10_ne_zero s'
  apply Int.eq_of_mul_eq_mul_right hp
  calc n * pow10 s'' * pow10 s' = (n * pow10 s') * pow10 s'' := by rw [Int.mul_assoc, Int.mul_comm (pow10 s'') _, ← Int.mul_assoc]
    _ = (n' * pow10 s) * pow10 s'' := by rw [h1]
    _ = (n' * pow10 s'') * pow10 s := by rw [Int.mul_assoc, Int.mul_comm (pow10 s) _, ← Int.mul_assoc]
    _ = (n'' * pow10 s') * pow10 s := by rw [h2]
    _ = n'' * pow10 s * pow10 s' := by rw [Int.mul_assoc, Int.mul_comm (pow10 s') _, ← Int.mul_assoc]

theorem numEq_iff {x y : PyVal} :
    numEq x y = true ↔ ∃ n s n' s', numOf x = some (n, s) ∧ numOf y = some (n', s') ∧ n * pow10 s' = n' * pow10 s := by
  unfold numEq
  cases hx : numOf x with
  | none => simp
  | some p =>
    obtain ⟨n, s⟩ := p
    cases hy : numOf y with
    | none => simp
    | some q =>
      obtain ⟨n', s'⟩ := q
      simp only [beq_iff_eq, Option.some.injEq, Prod.mk.injEq]
      constructor
      · intro h; exact ⟨n, s, n', s', ⟨rfl, rfl⟩, ⟨rfl, rfl⟩, h⟩
      · rintro ⟨a, b, c, d, ⟨rfl, rfl⟩, ⟨rfl, rfl⟩, h⟩; exact h

theorem numEq_symm {x y : PyVal} (h : numEq x y = true) : numEq y x = true := by
  rw [numEq_iff] at *
  obtain ⟨n, s, n', s', hx, hy, he⟩ := h
  exact ⟨n', s', n, s, hy, hx, he.symm⟩

theorem numEq_trans {x y z : PyVal} (h1 : numEq x y = true) (h2 : numEq y z = true) : numEq x z = true := by
  rw [numEq_iff] at *
  obtain ⟨n, s, n', s', hx, hy, he⟩ := h1
  obtain ⟨m', t', n'', s'', hy', hz, he'⟩ := h2
  rw [hy] at hy'
  cases hy'
  exact ⟨n, s, n'', s'', hx, hz, decEq_trans he he'⟩

theorem numOf_isNum {x : PyVal} {p : Int × Nat} (h : numOf x = some p) :
    (∃ b, x = .bool b) ∨ (∃ i, x = .int i) ∨ (∃ n s, x = .float n s) := by
  cases x <;> simp [numOf] at h
  · exact Or.inl ⟨_, rfl⟩
  · exact Or.inr (Or.inl ⟨_, rfl⟩)
  · exact Or.inr (Or.inr ⟨_, _, rfl⟩)

/-- `keyEq` on two numeric values is `numEq` -/
theorem keyEq_num {x y : PyVal} {p : Int × Nat} (hx : numOf x = some p) : keyEq x y = numEq x y := by
  rcases numOf_isNum hx with ⟨b, rfl⟩ | ⟨i, rfl⟩ | ⟨n, s, rfl⟩ <;> simp [keyEq]

theorem keyEq_num_right {x y : PyVal} {p : Int × Nat} (hy : numOf y = some p) : keyEq x y = numEq x y := by
  rcases numOf_isNum hy with ⟨b, rfl⟩ | ⟨i, rfl⟩ | ⟨n, s, rfl⟩ <;> cases x <;> simp [keyEq, numEq, numOf]

mutual
theorem keyEq_symm : ∀ (a b : PyVal), keyEq a b = true → keyEq b a = true
  | .none, b, h => by cases b <;> simp_all [keyEq, numEq, numOf]
  | .str s, b, h => by cases b <;> simp_all [keyEq, numEq, numOf]
  | .bytes s, b, h => by cases b <;> simp_all [keyEq, numEq, numOf]
  | .bool x, b, h => by
    have hx : numOf (.bool x) = some (if x then 1 else 0, 0) := rfl
    rw [keyEq_num hx] at h
    obtain ⟨n, s, n', s', _, hy, _⟩ := numEq_iff.1 h
    rw [keyEq_num hy]; exact numEq_symm h
  | .int x, b, h => by
    have hx : numOf (.int x) = some (x, 0) := rfl
    rw [keyEq_num hx] at h
    obtain ⟨n, s, n', s', _, hy, _⟩ := numEq_iff.1 h
    rw [keyEq_num hy]; exact numEq_symm h
  | .float x sx, b, h => by
    have hx : numOf (.float x sx) = some (x, sx) := rfl
    rw [keyEq_num hx] at h
    obtain ⟨n, s, n', s', _, hy, _⟩ := numEq_iff.1 h
    rw [keyEq_num hy]; exact numEq_symm h
  | .tuple xs, b, h => by
    cases b <;> simp [keyEq, numEq, numOf] at h
    rename_i ys
    simp only [keyEq]
    exact keyEqL_symm xs ys h
  | .list _, b, h => by simp [keyEq] at h
  | .set _, b, h => by simp [keyEq] at h
  | .frozenset _, b, h => by simp [keyEq] at h
  | .dict _, b, h => by simp [keyEq] at h
theorem keyEqL_symm : ∀ (xs ys : List PyVal), keyEqL xs ys = true → keyEqL ys xs = true
  | [], [], _ => by simp [keyEqL]
  | [], _ :: _, h => by simp [keyEqL] at h
  | _ :: _, [], h => by simp [keyEqL] at h
  | x :: xs, y :: ys, h => by
    simp only [keyEqL, Bool.and_eq_true] at h ⊢
    exact ⟨keyEq_symm x y h.1, keyEqL_symm xs ys h.2⟩
end

end Py

namespace Py

/-- if `keyEq a b` and `a` is numeric then so is `b` -/
theorem keyEq_num_iff_left {a b : PyVal} {p : Int × Nat} (ha : numOf a = some p) (h : keyEq a b = true) :
    ∃ q, numOf b = some q := by
  rw [keyEq_num ha] at h
  obtain ⟨_, _, n', s', _, hy, _⟩ := numEq_iff.1 h
  exact ⟨_, hy⟩

mutual
theorem keyEq_trans : ∀ (a b c : PyVal), keyEq a b = true → keyEq b c = true → keyEq a c = true
  | .none, b, c, h1, h2 => by cases b <;> cases c <;> simp_all [keyEq, numEq, numOf]
  | .str s, b, c, h1, h2 => by cases b <;> cases c <;> simp_all [keyEq, numEq, numOf]
  | .bytes s, b, c, h1, h2 => by cases b <;> cases c <;> simp_all [keyEq, numEq, numOf]
  | .bool x, b, c, h1, h2 => by
    have hx : numOf (.bool x) = some (if x then 1 else 0, 0) := rfl
    obtain ⟨q, hb⟩ := keyEq_num_iff_left hx h1
    obtain ⟨r, hc⟩ := keyEq_num_iff_left hb h2
    rw [keyEq_num hx] at h1 ⊢
    rw [keyEq_num hb] at h2
    exact numEq_trans h1 h2
  | .int x, b, c, h1, h2 => by
    have hx : numOf (.int x) = some (x, 0) := rfl
    obtain ⟨q, hb⟩ := keyEq_num_iff_left hx h1
    rw [keyEq_num hx] at h1 ⊢
    rw [keyEq_num hb] at h2
    exact numEq_trans h1 h2
  | .float x sx, b, c, h1, h2 => by
    have hx : numOf (.float x sx) = some (x, sx) := rfl
    obtain ⟨q, hb⟩ := keyEq_num_iff_left hx h1
    rw [keyEq_num hx] at h1 ⊢
    rw [keyEq_num hb] at h2
    exact numEq_trans h1 h2
  | .tuple xs, b, c, h1, h2 => by
    cases b <;> simp [keyEq, numEq, numOf] at h1
    rename_i ys
    cases c <;> simp [keyEq, numEq, numOf] at h2
    rename_i zs
    simp only [keyEq]
    exact keyEqL_trans xs ys zs h1 h2
  | .list _, b, c, h1, _ => by simp [keyEq] at h1
  | .set _, b, c, h1, _ => by simp [keyEq] at h1
  | .frozenset _, b, c, h1, _ => by simp [keyEq] at h1
  | .dict _, b, c, h1, _ => by simp [keyEq] at h1
theorem keyEqL_trans : ∀ (xs ys zs : List PyVal), keyEqL xs ys = true → keyEqL ys zs = true → keyEqL xs zs = true
  | [], [], zs, _, h2 => h2
  | [], _ :: _, _, h1, _ => by simp [keyEqL] at h1
  | _ :: _, [], _, h1, _ => by simp [keyEqL] at h1
  | x :: xs, y :: ys, [], _, h2 => by simp [keyEqL] at h2
  | x :: xs, y :: ys, z :: zs, h1, h2 => by
    simp only [keyEqL, Bool.and_eq_true] at h1 h2 ⊢
    exact ⟨keyEq_trans x y z h1.1 h2.1, keyEqL_trans xs ys zs h1.2 h2.2⟩
end

/-- in a dict with pairwise different keys, looking up any value `k` that is `keyEq` to the key of
an entry returns that entry's value (Python dict semantics) -/
theorem dictGet_of_keyEq : ∀ (kvs : List (PyVal × PyVal)) (k1 v1 k : PyVal),
    distinctKeys (kvs.map (·.1)) = true → (k1, v1) ∈ kvs → keyEq k1 k = true → dictGet kvs k = some v1
  | [], _, _, _, _, hm, _ => by simp at hm
  | (k0, v0) :: rest, k1, v1, k, hd, hm, hk => by
    simp only [List.map_cons, distinctKeys, Bool.and_eq_true, Bool.not_eq_true', List.any_eq_false] at hd
    rcases List.mem_cons.1 hm with heq | hm'
    · cases heq
      simp [dictGet, hk]
    · have hk1 : k1 ∈ rest.map (·.1) := List.mem_map.2 ⟨(k1, v1), hm', rfl⟩
      have h0 : keyEq k0 k = false := by
        cases h : keyEq k0 k with
        | false => rfl
        | true =>
          -- k0 ~ k and k1 ~ k give k0 ~ k1, against distinctness
          have := keyEq_trans k0 k k1 h (keyEq_symm k1 k hk)
          exact absurd this (by simpa using hd.1.1 k1 hk1)
      have := dictGet_of_keyEq rest k1 v1 k hd.2 hm' hk
      simp only [dictGet, List.find?_cons, h0] at this ⊢
      exact this

end Py
