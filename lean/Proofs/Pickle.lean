import Model.Pickle.VM
/-! Helper lemmas for C15: the allow-list gate is an invariant of the unpickling machine. -/
namespace Pickle

mutual
/-- every resolved global occurring anywhere inside the object is on the allow-list -/
def allowed (safe : List String) : PObj → Bool
  | .glob m n => decide ((m ++ "." ++ n) ∈ safe)
  | .list xs | .tuple xs | .set xs | .frozenset xs => allowedL safe xs
  | .dict kvs => allowedP safe kvs
  | .call f a | .newobj f a | .built f a => allowed safe f && allowed safe a
  | .newobjEx f a k => allowed safe f && allowed safe a && allowed safe k
  | .inst f a | .extended f a => allowed safe f && allowedL safe a
  | _ => true
def allowedL (safe : List String) : List PObj → Bool
  | [] => true
  | x :: xs => allowed safe x && allowedL safe xs
def allowedP (safe : List String) : List (PObj × PObj) → Bool
  | [] => true
  | (k, v) :: xs => allowed safe k && allowed safe v && allowedP safe xs
end

theorem allowedL_iff {safe : List String} {xs : List PObj} :
    allowedL safe xs = true ↔ ∀ x ∈ xs, allowed safe x = true := by
  induction xs with
  | nil => simp [allowedL]
  | cons x xs ih => simp [allowedL, ih]

theorem allowedP_iff {safe : List String} {xs : List (PObj × PObj)} :
    allowedP safe xs = true ↔ ∀ p ∈ xs, allowed safe p.1 = true ∧ allowed safe p.2 = true := by
  induction xs with
  | nil => simp [allowedP]
  | cons x xs ih => obtain ⟨k, v⟩ := x; simp [allowedP, ih, and_assoc]

def evAllowed (safe : List String) : Event → Bool
  | .resolved m n => decide ((m ++ "." ++ n) ∈ safe)
  | .called f => allowed safe f

/-- the gate invariant: nothing reachable from the machine state mentions a global outside the
allow-list, and nothing outside it was ever resolved or called -/
structure StOK (safe : List String) (s : St) : Prop where
  stack : allowedL safe s.stack = true
  marks : ∀ st ∈ s.marks, allowedL safe st = true
  memo : ∀ p ∈ s.memo, allowed safe p.2 = true
  events : ∀ e ∈ s.events, evAllowed safe e = true
  cache : ∀ p ∈ s.extCache, allowed safe p.2 = true

theorem findClass_ok {safe : List String} {env : Env} {m n : String} {o : PObj}
    (h : findClass safe env m n = .ok o) : (m ++ "." ++ n) ∈ safe ∧ o = .glob m n := by
  unfold findClass at h
  split at h
  · rename_i hm
    split at h <;> simp_all
  · simp at h

theorem findClass_forbidden {safe : List String} {env : Env} {m n : String}
    (h : (m ++ "." ++ n) ∉ safe) : findClass safe env m n = .error (.forbidden m n) := by
  simp [findClass, h]

theorem findClass_err_forbidden {safe : List String} {env : Env} {m n m' n' : String}
    (h : findClass safe env m n = .error (.forbidden m' n')) : m' = m ∧ n' = n ∧ (m ++ "." ++ n) ∉ safe := by
  unfold findClass at h
  split at h
  · split at h <;> simp at h
  · simp at h; exact ⟨h.1.symm, h.2.symm, by assumption⟩

theorem allowedL_append {safe : List String} {xs ys : List PObj} :
    allowedL safe (xs ++ ys) = (allowedL safe xs && allowedL safe ys) := by
  induction xs with
  | nil => simp [allowedL]
  | cons x xs ih => simp [allowedL, ih, Bool.and_assoc]

theorem allowedL_reverse {safe : List String} {xs : List PObj} :
    allowedL safe xs.reverse = allowedL safe xs := by
  rw [Bool.eq_iff_iff, allowedL_iff, allowedL_iff]; simp

theorem allowedP_dictSet {safe : List String} {kvs : List (PObj × PObj)} {k v : PObj}
    (h : allowedP safe kvs = true) (hk : allowed safe k = true) (hv : allowed safe v = true) :
    allowedP safe (dictSet kvs k v) = true := by
  rw [allowedP_iff] at *
  unfold dictSet
  split
  · intro p hp
    obtain ⟨q, hq, rfl⟩ := List.mem_map.1 hp
    split
    · exact ⟨(h q hq).1, hv⟩
    · exact h q hq
  · intro p hp
    rcases List.mem_append.1 hp with hp | hp
    · exact h p hp
    · simp at hp; subst hp; exact ⟨hk, hv⟩

theorem allowedL_setAdd {safe : List String} {xs : List PObj} {x : PObj}
    (h : allowedL safe xs = true) (hx : allowed safe x = true) : allowedL safe (setAdd xs x) = true := by
  unfold setAdd
  split
  · exact h
  · rw [allowedL_append]; simp [h, allowedL, hx]

theorem allowedL_foldl_setAdd {safe : List String} (items xs : List PObj)
    (h : allowedL safe xs = true) (hi : allowedL safe items = true) :
    allowedL safe (items.foldl setAdd xs) = true := by
  induction items generalizing xs with
  | nil => exact h
  | cons i items ih =>
    simp only [allowedL, Bool.and_eq_true] at hi
    exact ih _ (allowedL_setAdd h hi.1) hi.2

theorem pairUp_allowed {safe : List String} {items : List PObj} {ps : List (PObj × PObj)}
    (h : pairUp items = some ps) (hi : allowedL safe items = true) : allowedP safe ps = true := by
  induction items using pairUp.induct generalizing ps with
  | case1 => simp [pairUp] at h; subst h; rfl
  | case2 => simp [pairUp] at h
  | case3 k v rest ih =>
    simp only [pairUp, Option.map_eq_some_iff] at h
    obtain ⟨r, hr, rfl⟩ := h
    simp only [allowedL, Bool.and_eq_true] at hi
    simp only [allowedP, Bool.and_eq_true]
    exact ⟨⟨hi.1, hi.2.1⟩, ih hr hi.2.2⟩

theorem allowedP_foldl_dictSet {safe : List String} (ps kvs : List (PObj × PObj))
    (h : allowedP safe kvs = true) (hp : allowedP safe ps = true) :
    allowedP safe (ps.foldl (fun acc p => dictSet acc p.1 p.2) kvs) = true := by
  induction ps generalizing kvs with
  | nil => exact h
  | cons p ps ih =>
    obtain ⟨k, v⟩ := p
    simp only [allowedP, Bool.and_eq_true] at hp
    exact ih _ (allowedP_dictSet h hp.1.1 hp.1.2) hp.2

theorem memoGet_allowed {safe : List String} {memo : List (Nat × PObj)} {i : Nat} {x : PObj}
    (h : ∀ p ∈ memo, allowed safe p.2 = true) (hg : memoGet memo i = some x) : allowed safe x = true := by
  unfold memoGet at hg
  simp only [Option.map_eq_some_iff] at hg
  obtain ⟨p, hp, rfl⟩ := hg
  exact h p (List.mem_of_find?_eq_some hp)

theorem popMark_ok {safe : List String} {s s' : St} {items : List PObj} (hs : StOK safe s)
    (h : popMark s = .ok (items, s')) : allowedL safe items = true ∧ StOK safe s' := by
  unfold popMark at h
  split at h
  · simp at h
  · rename_i saved rest hm
    simp only [Except.ok.injEq, Prod.mk.injEq] at h
    obtain ⟨rfl, rfl⟩ := h
    refine ⟨by rw [allowedL_reverse]; exact hs.stack, ?_, ?_, hs.memo, hs.events, hs.cache⟩
    · exact hs.marks saved (by rw [hm]; simp)
    · intro st hst; exact hs.marks st (by rw [hm]; simp [hst])

end Pickle

namespace Pickle

theorem StOK.push {safe : List String} {s : St} (hs : StOK safe s) {o : PObj}
    (ho : allowed safe o = true) : StOK safe (Pickle.push s o) :=
  ⟨by simp [Pickle.push, allowedL, ho, hs.stack], hs.marks, hs.memo, hs.events, hs.cache⟩

theorem StOK.setStack {safe : List String} {s : St} (hs : StOK safe s) {st : List PObj}
    (h : allowedL safe st = true) : StOK safe { s with stack := st } :=
  ⟨h, hs.marks, hs.memo, hs.events, hs.cache⟩

theorem StOK.withEvent {safe : List String} {s : St} (hs : StOK safe s) {st : List PObj} {e : Event}
    (h : allowedL safe st = true) (he : evAllowed safe e = true) :
    StOK safe { s with stack := st, events := e :: s.events } :=
  ⟨h, hs.marks, hs.memo, by intro x hx; rcases List.mem_cons.1 hx with rfl | hx; exact he; exact hs.events x hx, hs.cache⟩

theorem callable_or_constructed_allowed (safe : List String) (o : PObj) (h : allowed safe o = true) :
    evAllowed safe (.called o) = true := h

set_option maxHeartbeats 1000000 in
/-- one VM step preserves the gate invariant -/
theorem step_ok {c : Cfg} {s s' : St} {op : Op} (hs : StOK c.safe s) (h : step c s op = .ok s') :
    StOK c.safe s' := by
  have hst := hs.stack
  cases op <;> simp only [step] at h
  case proto n => split at h <;> simp at h; subst h; exact hs
  case frame => simp at h; subst h; exact hs
  case stop => simp at h; subst h; exact hs
  case none => simp at h; subst h; exact hs.push rfl
  case newtrue => simp at h; subst h; exact hs.push rfl
  case newfalse => simp at h; subst h; exact hs.push rfl
  case int i => simp at h; subst h; exact hs.push rfl
  case float r => simp at h; subst h; exact hs.push rfl
  case str x => simp at h; subst h; exact hs.push rfl
  case bytes x => simp at h; subst h; exact hs.push rfl
  case bytearray x => simp at h; subst h; exact hs.push rfl
  case emptyList => simp at h; subst h; exact hs.push rfl
  case emptyTuple => simp at h; subst h; exact hs.push rfl
  case emptyDict => simp at h; subst h; exact hs.push rfl
  case emptySet => simp at h; subst h; exact hs.push rfl
  case mark =>
    simp at h; subst h
    exact ⟨rfl, by intro st hst'; rcases List.mem_cons.1 hst' with rfl | h1; exact hs.stack; exact hs.marks st h1, hs.memo, hs.events, hs.cache⟩
  case pop =>
    split at h
    · rename_i x rest hstk
      simp at h; subst h
      rw [hstk] at hst; simp only [allowedL, Bool.and_eq_true] at hst
      exact hs.setStack hst.2
    · split at h
      · rename_i saved m hm
        simp at h; subst h
        exact ⟨hs.marks saved (by rw [hm]; simp), by intro st h1; exact hs.marks st (by rw [hm]; simp [h1]), hs.memo, hs.events, hs.cache⟩
      · simp at h
  case popMark =>
    cases hp : popMark s with
    | error e => rw [hp] at h; simp [bind, Except.bind] at h
    | ok r =>
      obtain ⟨items, s1⟩ := r
      rw [hp] at h; simp [bind, Except.bind, pure, Except.pure] at h; subst h
      exact (popMark_ok hs hp).2
  case dup =>
    split at h
    · rename_i x rest hstk
      simp at h; subst h
      rw [hstk] at hst; simp only [allowedL, Bool.and_eq_true] at hst
      exact hs.setStack (by simp [allowedL, hst.1, hst.2])
    · simp at h

  case append =>
    split at h
    · rename_i v xs rest hstk
      simp at h; subst h
      rw [hstk] at hst; simp only [allowedL, allowed, Bool.and_eq_true] at hst
      exact hs.setStack (by simp [allowedL, allowed, allowedL_append, hst.1, hst.2.1, hst.2.2])
    · rename_i v o rest _ hstk
      split at h
      · simp at h; subst h
        rw [hstk] at hst; simp only [allowedL, Bool.and_eq_true] at hst
        exact hs.withEvent (by simp [allowedL, allowed, hst.1, hst.2.1, hst.2.2]) hst.2.1
      · simp at h
    · simp at h
  case appends =>
    cases hp : popMark s with
    | error e => rw [hp] at h; simp [bind, Except.bind] at h
    | ok r =>
      obtain ⟨items, s1⟩ := r
      obtain ⟨hi, h1⟩ := popMark_ok hs hp
      have hst1 := h1.stack
      rw [hp] at h; simp only [bind, Except.bind, pure, Except.pure] at h
      split at h
      · rename_i xs rest hstk
        simp at h; subst h
        rw [hstk] at hst1; simp only [allowedL, allowed, Bool.and_eq_true] at hst1
        exact h1.setStack (by simp [allowedL, allowed, allowedL_append, hi, hst1.1, hst1.2])
      · rename_i o rest _ hstk
        split at h
        · simp at h; subst h
          rw [hstk] at hst1; simp only [allowedL, Bool.and_eq_true] at hst1
          exact h1.withEvent (by simp [allowedL, allowed, hi, hst1.1, hst1.2]) hst1.1
        · simp [throw, throwThe, MonadExceptOf.throw] at h
      · simp [throw, throwThe, MonadExceptOf.throw] at h
  case setitem =>
    split at h
    · rename_i v k kvs rest hstk
      simp at h; subst h
      rw [hstk] at hst; simp only [allowedL, allowed, Bool.and_eq_true] at hst
      exact hs.setStack (by simp [allowedL, allowed, allowedP_dictSet hst.2.2.1 hst.2.1 hst.1, hst.2.2.2])
    · rename_i v k o rest _ hstk
      split at h
      · simp at h; subst h
        rw [hstk] at hst; simp only [allowedL, Bool.and_eq_true] at hst
        exact hs.withEvent (by simp [allowedL, allowed, hst.1, hst.2.1, hst.2.2.1, hst.2.2.2]) hst.2.2.1
      · simp at h
    · simp at h
  case setitems =>
    cases hp : popMark s with
    | error e => rw [hp] at h; simp [bind, Except.bind] at h
    | ok r =>
      obtain ⟨items, s1⟩ := r
      obtain ⟨hi, h1⟩ := popMark_ok hs hp
      have hst1 := h1.stack
      rw [hp] at h; simp only [bind, Except.bind, pure, Except.pure] at h
      split at h
      · rename_i kvs rest ps hstk hpu
        simp at h; subst h
        rw [hstk] at hst1; simp only [allowedL, allowed, Bool.and_eq_true] at hst1
        exact h1.setStack (by simp [allowedL, allowed, allowedP_foldl_dictSet ps kvs hst1.1 (pairUp_allowed hpu hi), hst1.2])
      · rename_i o rest _ _ hstk _
        split at h
        · simp at h; subst h
          rw [hstk] at hst1; simp only [allowedL, Bool.and_eq_true] at hst1
          exact h1.withEvent (by simp [allowedL, allowed, hi, hst1.1, hst1.2]) hst1.1
        · simp [throw, throwThe, MonadExceptOf.throw] at h
      · simp [throw, throwThe, MonadExceptOf.throw] at h
  case additems =>
    cases hp : popMark s with
    | error e => rw [hp] at h; simp [bind, Except.bind] at h
    | ok r =>
      obtain ⟨items, s1⟩ := r
      obtain ⟨hi, h1⟩ := popMark_ok hs hp
      have hst1 := h1.stack
      rw [hp] at h; simp only [bind, Except.bind, pure, Except.pure] at h
      split at h
      · rename_i xs rest hstk
        simp at h; subst h
        rw [hstk] at hst1; simp only [allowedL, allowed, Bool.and_eq_true] at hst1
        exact h1.setStack (by simp [allowedL, allowed, allowedL_foldl_setAdd items xs hst1.1 hi, hst1.2])
      · rename_i o rest _ hstk
        split at h
        · simp at h; subst h
          rw [hstk] at hst1; simp only [allowedL, Bool.and_eq_true] at hst1
          exact h1.withEvent (by simp [allowedL, allowed, hi, hst1.1, hst1.2]) hst1.1
        · simp [throw, throwThe, MonadExceptOf.throw] at h
      · simp [throw, throwThe, MonadExceptOf.throw] at h
  case list =>
    cases hp : popMark s with
    | error e => rw [hp] at h; simp [bind, Except.bind] at h
    | ok r =>
      obtain ⟨items, s1⟩ := r
      obtain ⟨hi, h1⟩ := popMark_ok hs hp
      rw [hp] at h; simp [bind, Except.bind, pure, Except.pure] at h; subst h
      exact h1.push (by simp [allowed, hi])
  case tuple =>
    cases hp : popMark s with
    | error e => rw [hp] at h; simp [bind, Except.bind] at h
    | ok r =>
      obtain ⟨items, s1⟩ := r
      obtain ⟨hi, h1⟩ := popMark_ok hs hp
      rw [hp] at h; simp [bind, Except.bind, pure, Except.pure] at h; subst h
      exact h1.push (by simp [allowed, hi])
  case tuple1 =>
    split at h
    · rename_i a rest hstk
      simp at h; subst h
      rw [hstk] at hst; simp only [allowedL, Bool.and_eq_true] at hst
      exact hs.setStack (by simp [allowedL, allowed, hst.1, hst.2])
    · simp at h
  case tuple2 =>
    split at h
    · rename_i b a rest hstk
      simp at h; subst h
      rw [hstk] at hst; simp only [allowedL, Bool.and_eq_true] at hst
      exact hs.setStack (by simp [allowedL, allowed, hst.1, hst.2.1, hst.2.2])
    · simp at h
  case tuple3 =>
    split at h
    · rename_i d b a rest hstk
      simp at h; subst h
      rw [hstk] at hst; simp only [allowedL, Bool.and_eq_true] at hst
      exact hs.setStack (by simp [allowedL, allowed, hst.1, hst.2.1, hst.2.2.1, hst.2.2.2])
    · simp at h
  case dict =>
    cases hp : popMark s with
    | error e => rw [hp] at h; simp [bind, Except.bind] at h
    | ok r =>
      obtain ⟨items, s1⟩ := r
      obtain ⟨hi, h1⟩ := popMark_ok hs hp
      rw [hp] at h; simp only [bind, Except.bind, pure, Except.pure] at h
      split at h
      · rename_i ps hpu
        simp at h; subst h
        exact h1.push (by simp [allowed, allowedP_foldl_dictSet ps [] rfl (pairUp_allowed hpu hi)])
      · simp [throw, throwThe, MonadExceptOf.throw] at h
  case frozenset =>
    cases hp : popMark s with
    | error e => rw [hp] at h; simp [bind, Except.bind] at h
    | ok r =>
      obtain ⟨items, s1⟩ := r
      obtain ⟨hi, h1⟩ := popMark_ok hs hp
      rw [hp] at h; simp [bind, Except.bind, pure, Except.pure] at h; subst h
      exact h1.push (by simp [allowed, allowedL_foldl_setAdd items [] rfl hi])
  case put i =>
    split at h
    · rename_i x rest hstk
      simp at h; subst h
      rw [hstk] at hst; simp only [allowedL, Bool.and_eq_true] at hst
      exact ⟨hs.stack, hs.marks, by intro p hp; rcases List.mem_cons.1 hp with rfl | hp; exact hst.1; exact hs.memo p hp, hs.events, hs.cache⟩
    · simp at h
  case memoize =>
    split at h
    · rename_i x rest hstk
      simp at h; subst h
      rw [hstk] at hst; simp only [allowedL, Bool.and_eq_true] at hst
      exact ⟨hs.stack, hs.marks, by intro p hp; rcases List.mem_cons.1 hp with rfl | hp; exact hst.1; exact hs.memo p hp, hs.events, hs.cache⟩
    · simp at h
  case get i =>
    split at h
    · rename_i x hg
      simp at h; subst h
      exact hs.push (memoGet_allowed hs.memo hg)
    · simp at h
  case global m n =>
    cases hf : findClass c.safe c.env m n with
    | error e => rw [hf] at h; simp [bind, Except.bind] at h
    | ok g =>
      obtain ⟨hmem, rfl⟩ := findClass_ok hf
      rw [hf] at h; simp [bind, Except.bind, pure, Except.pure] at h; subst h
      exact ⟨by simp [Pickle.push, allowedL, allowed, hmem, hs.stack], hs.marks, hs.memo,
        by intro x hx; rcases List.mem_cons.1 hx with rfl | hx; simp [evAllowed, hmem]; exact hs.events x hx, hs.cache⟩
  case stackGlobal =>
    split at h
    · rename_i n m rest hstk
      cases hf : findClass c.safe c.env m n with
      | error e => rw [hf] at h; simp [bind, Except.bind] at h
      | ok g =>
        obtain ⟨hmem, rfl⟩ := findClass_ok hf
        rw [hf] at h; simp [bind, Except.bind, pure, Except.pure] at h; subst h
        rw [hstk] at hst; simp only [allowedL, Bool.and_eq_true] at hst
        exact hs.withEvent (by simp [allowedL, allowed, hmem, hst.2.2]) (by simp [evAllowed, hmem])
    · simp at h
  case instOp m n =>
    cases hp : popMark s with
    | error e => rw [hp] at h; simp [bind, Except.bind] at h
    | ok r =>
      obtain ⟨items, s1⟩ := r
      obtain ⟨hi, h1⟩ := popMark_ok hs hp
      rw [hp] at h; simp only [bind, Except.bind] at h
      cases hf : findClass c.safe c.env m n with
      | error e => rw [hf] at h; simp at h
      | ok g =>
        obtain ⟨hmem, rfl⟩ := findClass_ok hf
        rw [hf] at h; simp [pure, Except.pure] at h; subst h
        refine ⟨by simp [Pickle.push, allowedL, allowed, hmem, hi, h1.stack], h1.marks, h1.memo, ?_, h1.cache⟩
        intro x hx
        simp only [List.mem_cons] at hx
        rcases hx with rfl | rfl | hx
        · simp [evAllowed, allowed, hmem]
        · simp [evAllowed, hmem]
        · exact h1.events x hx
  case obj =>
    cases hp : popMark s with
    | error e => rw [hp] at h; simp [bind, Except.bind] at h
    | ok r =>
      obtain ⟨items, s1⟩ := r
      obtain ⟨hi, h1⟩ := popMark_ok hs hp
      rw [hp] at h; simp only [bind, Except.bind] at h
      split at h
      · rename_i cls args
        simp only [allowedL, Bool.and_eq_true] at hi
        split at h
        · simp [pure, Except.pure] at h; subst h
          refine ⟨by simp [Pickle.push, allowedL, allowed, hi.1, hi.2, h1.stack], h1.marks, h1.memo, ?_, h1.cache⟩
          intro x hx; rcases List.mem_cons.1 hx with rfl | hx; exact hi.1; exact h1.events x hx
        · simp [throw, throwThe, MonadExceptOf.throw] at h
      · simp [throw, throwThe, MonadExceptOf.throw] at h
  case newobj =>
    split at h
    · rename_i args cls rest hstk
      split at h
      · simp at h; subst h
        rw [hstk] at hst; simp only [allowedL, allowed, Bool.and_eq_true] at hst
        exact hs.withEvent (by simp [allowedL, allowed, hst.1, hst.2.1, hst.2.2]) hst.2.1
      · simp at h
    · simp at h
  case newobjEx =>
    split at h
    · rename_i kw args cls rest hstk
      split at h
      · simp at h; subst h
        rw [hstk] at hst; simp only [allowedL, allowed, Bool.and_eq_true] at hst
        exact hs.withEvent (by simp [allowedL, allowed, hst.1, hst.2.1, hst.2.2.1, hst.2.2.2]) hst.2.2.1
      · simp at h
    · simp at h
  case reduce =>
    split at h
    · rename_i args f rest hstk
      split at h
      · simp at h; subst h
        rw [hstk] at hst; simp only [allowedL, allowed, Bool.and_eq_true] at hst
        exact hs.withEvent (by simp [allowedL, allowed, hst.1, hst.2.1, hst.2.2]) hst.2.1
      · simp at h
    · simp at h
  case build =>
    split at h
    · rename_i state o rest hstk
      split at h
      · simp at h; subst h
        rw [hstk] at hst; simp only [allowedL, Bool.and_eq_true] at hst
        exact hs.withEvent (by simp [allowedL, allowed, hst.1, hst.2.1, hst.2.2]) hst.2.1
      · simp at h
    · simp at h
  case ext code =>
    split at h
    · simp at h
    · split at h
      · rename_i o hfind
        simp at h; subst h
        exact hs.push (hs.cache _ (List.mem_of_find?_eq_some hfind))
      split at h
      · rename_i m n _
        cases hf : findClass c.safe c.env m n with
        | error e => rw [hf] at h; simp [bind, Except.bind] at h
        | ok g =>
          obtain ⟨hmem, rfl⟩ := findClass_ok hf
          rw [hf] at h; simp [bind, Except.bind, pure, Except.pure] at h; subst h
          exact ⟨by simp [Pickle.push, allowedL, allowed, hmem, hs.stack], hs.marks, hs.memo,
            by intro x hx; rcases List.mem_cons.1 hx with rfl | hx; simp [evAllowed, hmem]; exact hs.events x hx,
            by intro x hx; rcases List.mem_cons.1 hx with rfl | hx; simp [allowed, hmem]; exact hs.cache x hx⟩
      · simp at h
  case persid pid =>
    simp at h; subst h
    exact hs.push (by unfold persistentLoad; split <;> (try split) <;> rfl)
  case binpersid =>
    split at h
    · rename_i pid rest hstk
      simp at h; subst h
      rw [hstk] at hst; simp only [allowedL, Bool.and_eq_true] at hst
      exact hs.setStack (by simp only [allowedL, Bool.and_eq_true]; exact ⟨by unfold persistentLoad; split <;> (try split) <;> rfl, hst.2⟩)
    · simp at h
  case unsupported nm => simp at h

end Pickle

namespace Pickle

theorem init_ok (safe : List String) (cache : List (Int × PObj)) (hc : ∀ p ∈ cache, allowed safe p.2 = true) :
    StOK safe { extCache := cache } :=
  ⟨rfl, by intro st h; simp at h, by intro p h; simp at h, by intro e h; simp at h, hc⟩

theorem run_ok {c : Cfg} {s s' : St} {prog : List Op} {o : PObj} (hs : StOK c.safe s)
    (h : run c s prog = .ok (o, s')) : StOK c.safe s' ∧ allowed c.safe o = true := by
  induction prog generalizing s with
  | nil => simp [run] at h
  | cons op ops ih =>
    unfold run at h
    split at h
    · cases h
    · rename_i s0 _ heq
      simp only [List.cons.injEq] at heq
      split at h
      · rename_i x rest hstk
        simp only [Except.ok.injEq, Prod.mk.injEq] at h
        obtain ⟨rfl, rfl⟩ := h
        have := hs.stack
        rw [hstk] at this
        simp only [allowedL, Bool.and_eq_true] at this
        exact ⟨hs, this.1⟩
      · cases h
    · rename_i s0 op0 ops0 _ heq
      simp only [List.cons.injEq] at heq
      obtain ⟨rfl, rfl⟩ := heq
      split at h
      · rename_i s1 hstep
        exact ih (step_ok hs hstep) h
      · cases h

theorem states_ok {c : Cfg} {s : St} {prog : List Op} (hs : StOK c.safe s) :
    ∀ st ∈ states c s prog, StOK c.safe st := by
  induction prog generalizing s with
  | nil => intro st h; simp [states] at h; subst h; exact hs
  | cons op ops ih =>
    intro st h
    unfold states at h
    split at h
    · rename_i heq; cases heq
    · simp at h; subst h; exact hs
    · rename_i s0 op0 ops0 _ heq
      simp only [List.cons.injEq] at heq
      obtain ⟨rfl, rfl⟩ := heq
      split at h
      · rename_i s1 hstep
        rcases List.mem_cons.1 h with rfl | h
        · exact hs
        · exact ih (step_ok hs hstep) st h
      · simp at h; subst h; exact hs

theorem popMark_err {s : St} {e : Err} (h : popMark s = .error e) : ∃ w, e = .vm w := by
  unfold popMark at h
  split at h
  · simp at h; exact ⟨_, h.symm⟩
  · simp at h

theorem bind_popMark_forbidden {α : Type} {s : St} {f : List PObj × St → Except Err α} {m n : String}
    (h : (popMark s >>= f) = .error (.forbidden m n)) :
    ∃ r, popMark s = .ok r ∧ f r = .error (.forbidden m n) := by
  cases hp : popMark s with
  | error e =>
    obtain ⟨w, rfl⟩ := popMark_err hp
    rw [hp] at h; simp [bind, Except.bind] at h
  | ok r => rw [hp] at h; exact ⟨r, rfl, h⟩

theorem bind_findClass_forbidden {α : Type} {safe : List String} {env : Env} {m n m' n' : String}
    {f : PObj → Except Err α} (hf : ∀ g, ∀ m n, f g ≠ .error (.forbidden m n))
    (h : (findClass safe env m n >>= f) = .error (.forbidden m' n')) : (m' ++ "." ++ n') ∉ safe := by
  cases hc : findClass safe env m n with
  | error e =>
    rw [hc] at h; simp [bind, Except.bind] at h; subst h
    obtain ⟨rfl, rfl, hn⟩ := findClass_err_forbidden hc
    exact hn
  | ok g => rw [hc] at h; exact absurd h (hf g _ _)

/-- a `forbidden` outcome can only come from `findClass` refusing that very name -/
theorem step_forbidden {c : Cfg} {s : St} {op : Op} {m n : String}
    (h : step c s op = .error (.forbidden m n)) : (m ++ "." ++ n) ∉ c.safe := by
  cases op <;> simp only [step] at h
  case global m0 n0 => exact bind_findClass_forbidden (by intro g a b; simp [pure, Except.pure]) h
  case stackGlobal =>
    split at h
    · exact bind_findClass_forbidden (by intro g a b; simp [pure, Except.pure]) h
    · simp at h
  case instOp m0 n0 =>
    obtain ⟨r, _, h2⟩ := bind_popMark_forbidden h
    exact bind_findClass_forbidden (by intro g a b; simp [pure, Except.pure]) h2
  case ext code =>
    split at h
    · simp at h
    · split at h
      · simp at h
      split at h
      · exact bind_findClass_forbidden (by intro g a b; simp [pure, Except.pure]) h
      · simp at h
  all_goals first
    | (simp at h; done)
    | (obtain ⟨r, _, h2⟩ := bind_popMark_forbidden h
       revert h2
       simp only [pure, Except.pure, throw, throwThe, MonadExceptOf.throw, Pickle.push]
       repeat' split
       all_goals simp)
    | (revert h; repeat' split
       all_goals simp)

theorem run_forbidden {c : Cfg} {s : St} {prog : List Op} {m n : String}
    (h : run c s prog = .error (.forbidden m n)) : (m ++ "." ++ n) ∉ c.safe := by
  induction prog generalizing s with
  | nil => simp [run] at h
  | cons op ops ih =>
    unfold run at h
    split at h
    · simp at h
    · split at h <;> simp at h
    · rename_i s0 op0 ops0 _ heq
      simp only [List.cons.injEq] at heq
      obtain ⟨rfl, rfl⟩ := heq
      split at h
      · exact ih h
      · rename_i e hstep
        simp at h; subst h
        exact step_forbidden hstep

end Pickle
