import Proofs.DeepDistanceList
import Proofs.DeltaSet
/-!
deep_distance of two sets of scalars: the numerator is the number of counted members that were removed or added, the
denominator the two sizes plus the two containers; so the distance is below 1, and positive as soon as one of those
members is not `None`.
-/
namespace Dist
open Py Diff Delta

theorem set_diffUnmerged (cfg : DCfg) (hp : Diff.Plain cfg) (al : Align) (hashOf : PyVal → String) (xs ys : List PyVal) :
    diffUnmerged cfg al hashOf (.set xs) (.set ys) = ⟨diffSet hashOf [] xs ys, []⟩ := by
  unfold diffUnmerged
  simp only [skipSteps_plain hp, Bool.false_eq_true, if_false, diffV, keepReported_plain hp]

theorem itemLenL_le_length : ∀ (xs : List PyVal), (∀ x ∈ xs, isBasic x = true) → itemLenL xs ≤ xs.length
  | [], _ => by simp [itemLenL]
  | x :: xs, h => by
    have h1 := itemLen_basic_le_one x (h x (List.mem_cons_self ..))
    have h2 := itemLenL_le_length xs (fun y hy => h y (List.mem_cons_of_mem _ hy))
    simp only [itemLenL, List.length_cons]; omega

theorem itemLen_basic_pos (v : PyVal) (h : isBasic v = true) (hn : v ≠ .none) : 0 < itemLen v := by
  cases v <;> simp [isBasic] at h <;> simp_all [itemLen]

theorem itemLenL_pos : ∀ (xs : List PyVal), xs ≠ [] → (∀ x ∈ xs, isBasic x = true ∧ x ≠ .none) → 0 < itemLenL xs
  | [], h, _ => absurd rfl h
  | x :: xs, _, h => by
    have := itemLen_basic_pos x (h x (List.mem_cons_self ..)).1 (h x (List.mem_cons_self ..)).2
    simp only [itemLenL]; omega

/-- the set payload has no moved items either -/
theorem set_no_moved (hashOf : PyVal → String) (directed always : Bool) (t1 t2 : PyVal) (xs ys : List PyVal) :
    (buildDelta directed always t1 t2 ⟨diffSet hashOf [] xs ys, []⟩).iterMoved = [] := by
  have hf : (diffSet hashOf [] xs ys).filter (fun e => e.1 == Cat.iterMoved) = [] := by
    rw [List.filter_eq_nil_iff]
    intro e he
    rw [diffSet_root] at he
    rcases List.mem_append.1 he with h | h <;> obtain ⟨x, _, rfl⟩ := List.mem_map.1 h <;> simp [fSA, fSR]
  simp [buildDelta, hf]

/-- **sets of scalars**: numerator, denominator, and the gap of 2 between them -/
theorem set_deep_distance (cfg : DCfg) (hp : Diff.Plain cfg) (al : Align) (hashOf : PyVal → String)
    (xs ys : List PyVal) (hbx : ∀ x ∈ xs, isBasic x = true) (hby : ∀ y ∈ ys, isBasic y = true) :
    (deepDistance cfg al hashOf (.set xs) (.set ys)).1 = itemLenL (setRemovedL hashOf xs ys) + itemLenL (setAddedL hashOf xs ys) ∧
    (deepDistance cfg al hashOf (.set xs) (.set ys)).2 = xs.length + ys.length + 2 ∧
    (deepDistance cfg al hashOf (.set xs) (.set ys)).1 + 2 ≤ (deepDistance cfg al hashOf (.set xs) (.set ys)).2 := by
  obtain ⟨hA, hR, hV, hT, hDA, hDR, hIA, hIR, _⟩ := set_payload hashOf true false (.set xs) (.set ys) xs ys
  have hM := set_no_moved hashOf true false (.set xs) (.set ys) xs ys
  have hnum : (deepDistance cfg al hashOf (.set xs) (.set ys)).1 = itemLenL (setRemovedL hashOf xs ys) + itemLenL (setAddedL hashOf xs ys) := by
    unfold deepDistance
    rw [set_diffUnmerged cfg hp al hashOf xs ys]
    unfold payloadLen
    rw [hA, hR, hV, hT, hDA, hDR, hIA, hIR, hM]
    simp only [sumBy, Nat.zero_add, Nat.add_zero]
    split <;> split <;> simp_all [sumBy, itemLenL]
  have hden : (deepDistance cfg al hashOf (.set xs) (.set ys)).2 = xs.length + ys.length + 2 := by
    unfold deepDistance
    simp only [roughLen, roughLenL_basic _ xs hbx, roughLenL_basic _ ys hby]
    omega
  refine ⟨hnum, hden, ?_⟩
  rw [hnum, hden]
  have h1 : itemLenL (setRemovedL hashOf xs ys) ≤ xs.length := by
    have := itemLenL_le_length (setRemovedL hashOf xs ys) (fun x hx => hbx x (List.mem_filter.1 hx).1)
    have := List.length_filter_le (fun x => !(ys.map hashOf).contains (hashOf x)) xs
    unfold setRemovedL at *; omega
  have h2 : itemLenL (setAddedL hashOf xs ys) ≤ ys.length := by
    have := itemLenL_le_length (setAddedL hashOf xs ys) (fun y hy => hby y (List.mem_filter.1 hy).1)
    have := List.length_filter_le (fun y => !(xs.map hashOf).contains (hashOf y)) ys
    unfold setAddedL at *; omega
  omega

/-- **positive when the diff is non-empty**, for sets of scalars without `None` -/
theorem set_deep_pos (cfg : DCfg) (hp : Diff.Plain cfg) (al : Align) (hashOf : PyVal → String)
    (xs ys : List PyVal) (hbx : ∀ x ∈ xs, isBasic x = true ∧ x ≠ .none) (hby : ∀ y ∈ ys, isBasic y = true ∧ y ≠ .none)
    (hne : (deepDiff cfg al hashOf (.set xs) (.set ys)).tree ≠ []) :
    0 < (deepDistance cfg al hashOf (.set xs) (.set ys)).1 := by
  rw [(set_deep_distance cfg hp al hashOf xs ys (fun x hx => (hbx x hx).1) (fun y hy => (hby y hy).1)).1]
  rw [set_deepDiff cfg hp al hashOf xs ys, diffSet_root] at hne
  simp only [ne_eq, List.append_eq_nil_iff, List.map_eq_nil_iff] at hne
  have hne' : setAddedL hashOf xs ys ≠ [] ∨ setRemovedL hashOf xs ys ≠ [] := by
    by_cases h : setAddedL hashOf xs ys = []
    · exact Or.inr (fun h' => hne ⟨h, h'⟩)
    · exact Or.inl h
  rcases hne' with h | h
  · have := itemLenL_pos _ h (fun y hy => hby y (List.mem_filter.1 hy).1)
    omega
  · have := itemLenL_pos _ h (fun x hx => hbx x (List.mem_filter.1 hx).1)
    omega

theorem frozenset_diffUnmerged (cfg : DCfg) (hp : Diff.Plain cfg) (al : Align) (hashOf : PyVal → String) (xs ys : List PyVal) :
    diffUnmerged cfg al hashOf (.frozenset xs) (.frozenset ys) = ⟨diffSet hashOf [] xs ys, []⟩ := by
  unfold diffUnmerged
  simp only [skipSteps_plain hp, Bool.false_eq_true, if_false, diffV, keepReported_plain hp]

/-- **frozensets of scalars**: numerator, denominator, and the gap of 2 between them -/
theorem frozenset_deep_distance (cfg : DCfg) (hp : Diff.Plain cfg) (al : Align) (hashOf : PyVal → String)
    (xs ys : List PyVal) (hbx : ∀ x ∈ xs, isBasic x = true) (hby : ∀ y ∈ ys, isBasic y = true) :
    (deepDistance cfg al hashOf (.frozenset xs) (.frozenset ys)).1 = itemLenL (setRemovedL hashOf xs ys) + itemLenL (setAddedL hashOf xs ys) ∧
    (deepDistance cfg al hashOf (.frozenset xs) (.frozenset ys)).2 = xs.length + ys.length + 2 ∧
    (deepDistance cfg al hashOf (.frozenset xs) (.frozenset ys)).1 + 2 ≤ (deepDistance cfg al hashOf (.frozenset xs) (.frozenset ys)).2 := by
  obtain ⟨hA, hR, hV, hT, hDA, hDR, hIA, hIR, _⟩ := set_payload hashOf true false (.frozenset xs) (.frozenset ys) xs ys
  have hM := set_no_moved hashOf true false (.frozenset xs) (.frozenset ys) xs ys
  have hnum : (deepDistance cfg al hashOf (.frozenset xs) (.frozenset ys)).1 = itemLenL (setRemovedL hashOf xs ys) + itemLenL (setAddedL hashOf xs ys) := by
    unfold deepDistance
    rw [frozenset_diffUnmerged cfg hp al hashOf xs ys]
    unfold payloadLen
    rw [hA, hR, hV, hT, hDA, hDR, hIA, hIR, hM]
    simp only [sumBy, Nat.zero_add, Nat.add_zero]
    split <;> split <;> simp_all [sumBy, itemLenL]
  have hden : (deepDistance cfg al hashOf (.frozenset xs) (.frozenset ys)).2 = xs.length + ys.length + 2 := by
    unfold deepDistance
    simp only [roughLen, roughLenL_basic _ xs hbx, roughLenL_basic _ ys hby]
    omega
  refine ⟨hnum, hden, ?_⟩
  rw [hnum, hden]
  have h1 : itemLenL (setRemovedL hashOf xs ys) ≤ xs.length := by
    have := itemLenL_le_length (setRemovedL hashOf xs ys) (fun x hx => hbx x (List.mem_filter.1 hx).1)
    have := List.length_filter_le (fun x => !(ys.map hashOf).contains (hashOf x)) xs
    unfold setRemovedL at *; omega
  have h2 : itemLenL (setAddedL hashOf xs ys) ≤ ys.length := by
    have := itemLenL_le_length (setAddedL hashOf xs ys) (fun y hy => hby y (List.mem_filter.1 hy).1)
    have := List.length_filter_le (fun y => !(xs.map hashOf).contains (hashOf y)) ys
    unfold setAddedL at *; omega
  omega

theorem frozenset_deepDiff (cfg : DCfg) (hp : Diff.Plain cfg) (al : Align) (hashOf : PyVal → String) (xs ys : List PyVal) :
    deepDiff cfg al hashOf (.frozenset xs) (.frozenset ys) = ⟨diffSet hashOf [] xs ys, []⟩ := by
  have hnoiter : ∀ e ∈ diffSet hashOf [] xs ys, e.1 ≠ Cat.iterAdded ∧ e.1 ≠ Cat.iterRemoved := by
    intro e he
    rw [diffSet_root] at he
    rcases List.mem_append.1 he with h | h <;> obtain ⟨x, _, rfl⟩ := List.mem_map.1 h <;> exact ⟨by simp [fSA, fSR], by simp [fSA, fSR]⟩
  unfold deepDiff
  simp only [skipSteps_plain hp, Bool.false_eq_true, if_false, diffV, keepReported_plain hp]
  split
  · rfl
  · simp only [mutualAddRemoves_noiter _ hnoiter]

/-- **positive when the diff is non-empty**, for frozensets of scalars without `None` -/
theorem frozenset_deep_pos (cfg : DCfg) (hp : Diff.Plain cfg) (al : Align) (hashOf : PyVal → String)
    (xs ys : List PyVal) (hbx : ∀ x ∈ xs, isBasic x = true ∧ x ≠ .none) (hby : ∀ y ∈ ys, isBasic y = true ∧ y ≠ .none)
    (hne : (deepDiff cfg al hashOf (.frozenset xs) (.frozenset ys)).tree ≠ []) :
    0 < (deepDistance cfg al hashOf (.frozenset xs) (.frozenset ys)).1 := by
  rw [(frozenset_deep_distance cfg hp al hashOf xs ys (fun x hx => (hbx x hx).1) (fun y hy => (hby y hy).1)).1]
  rw [frozenset_deepDiff cfg hp al hashOf xs ys, diffSet_root] at hne
  simp only [ne_eq, List.append_eq_nil_iff, List.map_eq_nil_iff] at hne
  have hne' : setAddedL hashOf xs ys ≠ [] ∨ setRemovedL hashOf xs ys ≠ [] := by
    by_cases h : setAddedL hashOf xs ys = []
    · exact Or.inr (fun h' => hne ⟨h, h'⟩)
    · exact Or.inl h
  rcases hne' with h | h
  · have := itemLenL_pos _ h (fun y hy => hby y (List.mem_filter.1 hy).1)
    omega
  · have := itemLenL_pos _ h (fun x hx => hbx x (List.mem_filter.1 hx).1)
    omega

end Dist
