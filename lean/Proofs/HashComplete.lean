import Proofs.HashSound
import Proofs.Framing
/-!
The converse of `HashSound` for the DeepHash model: equal digests decode — for an injective hasher with
separator-free outputs, inside NoSpoof — to the ignore-order verdict.  Together:
`dh a = dh b ↔ verdict a b ↔ the order-ignoring diff is empty`.
-/
namespace DiffIO
open Py Diff Hash

/-- the hasher's outputs are non-empty and free of the framing characters (hex digests are) -/
def Hex (H : String → String) : Prop :=
  ∀ s, H s ≠ "" ∧ ∀ ch ∈ (H s).toList, ch ≠ ',' ∧ ch ≠ '|' ∧ ch ≠ ':' ∧ ch ≠ ';'

/-- `repr` of a float determines the float (Python's round-trip guarantee, for canonical short decimals) -/
def ReprInj : Prop :=
  ∀ (n n' : Int) (s s' : Nat), canonFloat n s → canonFloat n' s' → floatRepr n s = floatRepr n' s' → n = n' ∧ s = s'

/-! ### the pre-image of a digest: `tag ":" rest` -/

def tagOf : PyVal → String
  | .none => "NONE" | .bool _ => "bool" | .int _ => "int" | .float _ _ => "float" | .str _ => "str" | .bytes _ => "bytes"
  | .list _ => "list" | .tuple _ => "tuple" | .set _ => "set" | .frozenset _ => "frozenset" | .dict _ => "dict"

/-- what follows `tag:` in the serialisation of a non-string value -/
def restOf (c : IOCfg) (H : String → String) : PyVal → String
  | .bool b => if b then "true" else "false"
  | .int i => toString i
  | .float n s => floatRepr n s
  | .list xs => joinWith "," (let d := countDedup (xs.map (dh c H)); sortStr (if (hcfg c).ignoreRepetition then d.map (·.1) else d.map (fun p => p.1 ++ "|" ++ toString p.2)))
  | .tuple xs => joinWith "," (let d := countDedup (xs.map (dh c H)); sortStr (if (hcfg c).ignoreRepetition then d.map (·.1) else d.map (fun p => p.1 ++ "|" ++ toString p.2)))
  | .set xs => joinWith "," (let d := countDedup (xs.map (dh c H)); sortStr (if (hcfg c).ignoreRepetition then d.map (·.1) else d.map (fun p => p.1 ++ "|" ++ toString p.2)))
  | .frozenset xs => joinWith "," (let d := countDedup (xs.map (dh c H)); sortStr (if (hcfg c).ignoreRepetition then d.map (·.1) else d.map (fun p => p.1 ++ "|" ++ toString p.2)))
  | .dict kvs => "{" ++ joinWith ";" (sortStr ((kvs.filter (fun p => !(c.ignorePrivate && isPrivate p.1))).map (fun p => dh c H p.1 ++ ":" ++ dh c H p.2))) ++ "}"
  | _ => ""

def isStrLeaf : PyVal → Bool
  | .str _ | .bytes _ => true
  | _ => false

/-- the string that is hashed -/
theorem dh_pre (c : IOCfg) (H : String → String) : ∀ v : PyVal,
    dh c H v = H (match v with
      | .str s => "str" ++ ":" ++ s
      | .bytes s => "bytes" ++ ":" ++ s
      | .none => "str" ++ ":" ++ "NONE"
      | v => "str" ++ ":" ++ (tagOf v ++ ":" ++ restOf c H v))
  | .none => by simp [dh, deepHash, hashV, finish, cleanStr, hcfg]
  | .bool b => by cases b <;> simp [dh, deepHash, hashV, finish, cleanStr, hcfg, tagOf, restOf] <;> rfl
  | .int i => by simp [dh, deepHash, hashV, finish, cleanStr, hcfg, tagOf, restOf]
  | .float n s => by simp [dh, deepHash, hashV, finish, cleanStr, hcfg, tagOf, restOf]
  | .str s => by simp [dh, deepHash, hashV, finish, cleanStr, hcfg]
  | .bytes s => by simp [dh, deepHash, hashV, finish, cleanStr, hcfg]
  | .list xs => by rw [dh_list]; simp [finish, cleanStr, hcfg, prepIterable, tagOf, restOf]
  | .tuple xs => by rw [dh_tuple]; simp [finish, cleanStr, hcfg, prepIterable, tagOf, restOf]
  | .set xs => by rw [dh_set]; simp [finish, cleanStr, hcfg, prepIterable, tagOf, restOf]
  | .frozenset xs => by rw [dh_frozenset]; simp [finish, cleanStr, hcfg, prepIterable, tagOf, restOf]
  | .dict kvs => by
    rw [dh_dict]
    simp only [finish, cleanStr, hcfg, tagOf, restOf, Bool.false_eq_true, if_false, if_true]
    congr 1

/-! ### taking a pre-image apart -/

theorem colon_split (a b a' b' : String) (ha : ':' ∉ a.toList) (ha' : ':' ∉ a'.toList)
    (h : a ++ ":" ++ b = a' ++ ":" ++ b') : a = a' ∧ b = b' := by
  have e : (":" : String) = String.singleton ':' := by decide
  rw [e] at h
  exact append_sep_str_inj ':' a b a' b' ha ha' h

theorem tag_no_colon (v : PyVal) : ':' ∉ (tagOf v).toList := by
  cases v <;> simp [tagOf]

def spoofTags : List String := ["bool", "int", "float", "list", "tuple", "set", "frozenset", "dict"]

/-- a string leaf that does not spell the serialisation of a non-string value (NoSpoof) -/
def noSpoofS (s : String) : Prop := s ≠ "NONE" ∧ ∀ tag rest, tag ∈ spoofTags → s ≠ tag ++ ":" ++ rest

def isOther : PyVal → Bool
  | .str _ | .bytes _ | .none => false
  | _ => true

theorem tag_mem_spoof (v : PyVal) (h : isOther v = true) : tagOf v ∈ spoofTags := by
  cases v <;> simp [isOther] at h <;> simp [tagOf, spoofTags]

/-- what equal digests say about two values, one level deep -/
theorem pre_analysis (c : IOCfg) (H : String → String) (hinj : Function.Injective H) (a b : PyVal)
    (hsa : ∀ s, a = .str s → noSpoofS s) (hsb : ∀ s, b = .str s → noSpoofS s)
    (h : dh c H a = dh c H b) :
    (∃ s, a = .str s ∧ b = .str s) ∨ (∃ s, a = .bytes s ∧ b = .bytes s) ∨ (a = .none ∧ b = .none) ∨
    (isOther a = true ∧ isOther b = true ∧ tagOf a = tagOf b ∧ restOf c H a = restOf c H b) := by
  rw [dh_pre, dh_pre] at h
  have h' := hinj h
  have hstr : ':' ∉ ("str" : String).toList := by decide
  have hbytes : ':' ∉ ("bytes" : String).toList := by decide
  have hnone : ∀ (t r : String), ("NONE" : String) ≠ t ++ ":" ++ r := by
    intro t r he
    have := congrArg String.toList he
    simp only [String.toList_append] at this
    have hm : ':' ∈ ("NONE" : String).toList := by rw [this]; simp
    revert hm; decide
  -- classify a and b
  cases a with
  | str s =>
    cases b with
    | str t => exact Or.inl ⟨s, rfl, by rw [(colon_split _ _ _ _ hstr hstr h').2]⟩
    | bytes t => exact absurd (colon_split _ _ _ _ hstr hbytes h').1 (by decide)
    | none =>
      have := (colon_split _ _ _ _ hstr hstr h').2
      exact absurd this (hsa s rfl).1
    | _ =>
      all_goals (
        have := (colon_split _ _ _ _ hstr hstr h').2
        exact absurd this ((hsa s rfl).2 _ _ (tag_mem_spoof _ rfl)))
  | bytes s =>
    cases b with
    | bytes t => exact Or.inr (Or.inl ⟨s, rfl, by rw [(colon_split _ _ _ _ hbytes hbytes h').2]⟩)
    | _ => all_goals exact absurd (colon_split _ _ _ _ hbytes hstr h').1 (by decide)
  | none =>
    cases b with
    | none => exact Or.inr (Or.inr (Or.inl ⟨rfl, rfl⟩))
    | str t =>
      have := (colon_split _ _ _ _ hstr hstr h').2
      exact absurd this.symm (hsb t rfl).1
    | bytes t => exact absurd (colon_split _ _ _ _ hstr hbytes h').1 (by decide)
    | _ => all_goals exact absurd (colon_split _ _ _ _ hstr hstr h').2 (hnone _ _)
  | _ =>
    all_goals (
      cases b with
      | str t =>
        have := (colon_split _ _ _ _ hstr hstr h').2
        exact absurd this.symm ((hsb t rfl).2 _ _ (tag_mem_spoof _ rfl))
      | bytes t => exact absurd (colon_split _ _ _ _ hstr hbytes h').1 (by decide)
      | none => exact absurd (colon_split _ _ _ _ hstr hstr h').2.symm (hnone _ _)
      | _ =>
        all_goals (
          have h2 := (colon_split _ _ _ _ hstr hstr h').2
          have h3 := colon_split _ _ _ _ (tag_no_colon _) (tag_no_colon _) h2
          exact Or.inr (Or.inr (Or.inr ⟨rfl, rfl, h3.1, h3.2⟩))))

end DiffIO
