import Proofs.HashSound
import Proofs.Framing
import Std.Data.String.ToNat
import Std.Data.String.ToInt
/-!
The converse of `HashSound` for the DeepHash model: equal digests decode — for an injective hasher with
separator-free outputs, inside NoSpoof — to the ignore-order verdict.  Together:
`dh a = dh b ↔ verdict a b ↔ the order-ignoring diff is empty`.
-/
namespace DiffIO
open Py Diff Hash

/-- the hasher's outputs are non-empty and free of the framing characters (hex digests are) -/
def Hex (H : String → String) : Prop :=
  ∀ s, H s ≠ "" ∧ ∀ ch ∈ (H s).toList, ch ≠ ',' ∧ ch ≠ '|' ∧ ch ≠ ':' ∧ ch ≠ ';'

/-- `repr` of a float determines the float (Python's round-trip guarantee, for canonical short decimals) -/
def ReprInj : Prop :=
  ∀ (n n' : Int) (s s' : Nat), canonFloat n s → canonFloat n' s' → floatRepr n s = floatRepr n' s' → n = n' ∧ s = s'

/-! ### the pre-image of a digest: `tag ":" rest` -/

def tagOf : PyVal → String
  | .none => "NONE" | .bool _ => "bool" | .int _ => "int" | .float _ _ => "float" | .str _ => "str" | .bytes _ => "bytes"
  | .list _ => "list" | .tuple _ => "tuple" | .set _ => "set" | .frozenset _ => "frozenset" | .dict _ => "dict"

/-- what follows `tag:` in the serialisation of a non-string value -/
def restOf (c : IOCfg) (H : String → String) : PyVal → String
  | .bool b => if b then "true" else "false"
  | .int i => toString i
  | .float n s => floatRepr n s
  | .list xs => joinWith "," (let d := countDedup (xs.map (dh c H)); sortStr (if (hcfg c).ignoreRepetition then d.map (·.1) else d.map (fun p => p.1 ++ "|" ++ toString p.2)))
  | .tuple xs => joinWith "," (let d := countDedup (xs.map (dh c H)); sortStr (if (hcfg c).ignoreRepetition then d.map (·.1) else d.map (fun p => p.1 ++ "|" ++ toString p.2)))
  | .set xs => joinWith "," (let d := countDedup (xs.map (dh c H)); sortStr (if (hcfg c).ignoreRepetition then d.map (·.1) else d.map (fun p => p.1 ++ "|" ++ toString p.2)))
  | .frozenset xs => joinWith "," (let d := countDedup (xs.map (dh c H)); sortStr (if (hcfg c).ignoreRepetition then d.map (·.1) else d.map (fun p => p.1 ++ "|" ++ toString p.2)))
  | .dict kvs => "{" ++ joinWith ";" (sortStr ((kvs.filter (fun p => !(c.ignorePrivate && isPrivate p.1))).map (fun p => dh c H p.1 ++ ":" ++ dh c H p.2))) ++ "}"
  | _ => ""

def isStrLeaf : PyVal → Bool
  | .str _ | .bytes _ => true
  | _ => false

/-- the string that is hashed -/
theorem dh_pre (c : IOCfg) (H : String → String) : ∀ v : PyVal,
    dh c H v = H (match v with
      | .str s => "str" ++ ":" ++ s
      | .bytes s => "bytes" ++ ":" ++ s
      | .none => "str" ++ ":" ++ "NONE"
      | v => "str" ++ ":" ++ (tagOf v ++ ":" ++ restOf c H v))
  | .none => by simp [dh, deepHash, hashV, finish, cleanStr, hcfg]
  | .bool b => by cases b <;> simp [dh, deepHash, hashV, finish, cleanStr, hcfg, tagOf, restOf] <;> rfl
  | .int i => by simp [dh, deepHash, hashV, finish, cleanStr, hcfg, tagOf, restOf]
  | .float n s => by simp [dh, deepHash, hashV, finish, cleanStr, hcfg, tagOf, restOf]
  | .str s => by simp [dh, deepHash, hashV, finish, cleanStr, hcfg]
  | .bytes s => by simp [dh, deepHash, hashV, finish, cleanStr, hcfg]
  | .list xs => by rw [dh_list]; simp [finish, cleanStr, hcfg, prepIterable, tagOf, restOf]
  | .tuple xs => by rw [dh_tuple]; simp [finish, cleanStr, hcfg, prepIterable, tagOf, restOf]
  | .set xs => by rw [dh_set]; simp [finish, cleanStr, hcfg, prepIterable, tagOf, restOf]
  | .frozenset xs => by rw [dh_frozenset]; simp [finish, cleanStr, hcfg, prepIterable, tagOf, restOf]
  | .dict kvs => by
    rw [dh_dict]
    simp only [finish, cleanStr, hcfg, tagOf, restOf, Bool.false_eq_true, if_false, if_true]
    congr 1

/-! ### taking a pre-image apart -/

theorem colon_split (a b a' b' : String) (ha : ':' ∉ a.toList) (ha' : ':' ∉ a'.toList)
    (h : a ++ ":" ++ b = a' ++ ":" ++ b') : a = a' ∧ b = b' := by
  have e : (":" : String) = String.singleton ':' := by decide
  rw [e] at h
  exact append_sep_str_inj ':' a b a' b' ha ha' h

theorem tag_no_colon (v : PyVal) : ':' ∉ (tagOf v).toList := by
  cases v <;> simp [tagOf]

def spoofTags : List String := ["bool", "int", "float", "list", "tuple", "set", "frozenset", "dict"]

/-- a string leaf that does not spell the serialisation of a non-string value (NoSpoof) -/
def noSpoofS (s : String) : Prop := s ≠ "NONE" ∧ ∀ tag rest, tag ∈ spoofTags → s ≠ tag ++ ":" ++ rest

def isOther : PyVal → Bool
  | .str _ | .bytes _ | .none => false
  | _ => true

theorem tag_mem_spoof (v : PyVal) (h : isOther v = true) : tagOf v ∈ spoofTags := by
  cases v <;> simp [isOther] at h <;> simp [tagOf, spoofTags]

/-- what equal digests say about two values, one level deep -/
theorem pre_analysis (c : IOCfg) (H : String → String) (hinj : Function.Injective H) (a b : PyVal)
    (hsa : ∀ s, a = .str s → noSpoofS s) (hsb : ∀ s, b = .str s → noSpoofS s)
    (h : dh c H a = dh c H b) :
    (∃ s, a = .str s ∧ b = .str s) ∨ (∃ s, a = .bytes s ∧ b = .bytes s) ∨ (a = .none ∧ b = .none) ∨
    (isOther a = true ∧ isOther b = true ∧ tagOf a = tagOf b ∧ restOf c H a = restOf c H b) := by
  rw [dh_pre, dh_pre] at h
  have h' := hinj h
  have hstr : ':' ∉ ("str" : String).toList := by decide
  have hbytes : ':' ∉ ("bytes" : String).toList := by decide
  have hnone : ∀ (t r : String), ("NONE" : String) ≠ t ++ ":" ++ r := by
    intro t r he
    have := congrArg String.toList he
    simp only [String.toList_append] at this
    have hm : ':' ∈ ("NONE" : String).toList := by rw [this]; simp
    revert hm; decide
  -- classify a and b
  cases a with
  | str s =>
    cases b with
    | str t => exact Or.inl ⟨s, rfl, by rw [(colon_split _ _ _ _ hstr hstr h').2]⟩
    | bytes t => exact absurd (colon_split _ _ _ _ hstr hbytes h').1 (by decide)
    | none =>
      have := (colon_split _ _ _ _ hstr hstr h').2
      exact absurd this (hsa s rfl).1
    | _ =>
      all_goals (
        have := (colon_split _ _ _ _ hstr hstr h').2
        exact absurd this ((hsa s rfl).2 _ _ (tag_mem_spoof _ rfl)))
  | bytes s =>
    cases b with
    | bytes t => exact Or.inr (Or.inl ⟨s, rfl, by rw [(colon_split _ _ _ _ hbytes hbytes h').2]⟩)
    | _ => all_goals exact absurd (colon_split _ _ _ _ hbytes hstr h').1 (by decide)
  | none =>
    cases b with
    | none => exact Or.inr (Or.inr (Or.inl ⟨rfl, rfl⟩))
    | str t =>
      have := (colon_split _ _ _ _ hstr hstr h').2
      exact absurd this.symm (hsb t rfl).1
    | bytes t => exact absurd (colon_split _ _ _ _ hstr hbytes h').1 (by decide)
    | _ => all_goals exact absurd (colon_split _ _ _ _ hstr hstr h').2 (hnone _ _)
  | _ =>
    all_goals (
      cases b with
      | str t =>
        have := (colon_split _ _ _ _ hstr hstr h').2
        exact absurd this.symm ((hsb t rfl).2 _ _ (tag_mem_spoof _ rfl))
      | bytes t => exact absurd (colon_split _ _ _ _ hstr hbytes h').1 (by decide)
      | none => exact absurd (colon_split _ _ _ _ hstr hstr h').2.symm (hnone _ _)
      | _ =>
        all_goals (
          have h2 := (colon_split _ _ _ _ hstr hstr h').2
          have h3 := colon_split _ _ _ _ (tag_no_colon _) (tag_no_colon _) h2
          exact Or.inr (Or.inr (Or.inr ⟨rfl, rfl, h3.1, h3.2⟩))))

/-! ### hash tables have one entry per hash -/

theorem tstep_map_h (hashOf : PyVal → String) (acc : List HEntry) (p : PyVal × Nat) :
    (tstep hashOf acc p).map (·.h) = if acc.any (fun e => e.h == hashOf p.1) then acc.map (·.h) else acc.map (·.h) ++ [hashOf p.1] := by
  unfold tstep
  split
  · rw [List.map_map]
    apply List.map_congr_left
    intro e _
    simp only [Function.comp]
    split <;> rfl
  · simp

theorem foldl_nodupH (hashOf : PyVal → String) :
    ∀ (l : List (PyVal × Nat)) (acc : List HEntry), (acc.map (·.h)).Nodup → ((l.foldl (tstep hashOf) acc).map (·.h)).Nodup := by
  intro l
  induction l with
  | nil => intro acc h; simpa using h
  | cons p l ih =>
    intro acc h
    rw [List.foldl_cons]
    apply ih
    rw [tstep_map_h]
    split
    · exact h
    · rename_i hany
      rw [List.nodup_append]
      refine ⟨h, by simp, ?_⟩
      intro a ha b hb
      simp only [List.mem_singleton] at hb
      subst hb
      intro heq
      apply hany
      rw [List.any_eq_true]
      obtain ⟨e, he, rfl⟩ := List.mem_map.1 ha
      exact ⟨e, he, by simp [heq]⟩

theorem hashTable_nodupH (hashOf : PyVal → String) (xs : List PyVal) : ((hashTable hashOf xs).map (·.h)).Nodup := by
  rw [hashTable_eq_foldl]
  exact foldl_nodupH hashOf _ [] (by simp)

theorem find_of_nodupH : ∀ (t : List HEntry), (t.map (·.h)).Nodup → ∀ e ∈ t, t.find? (fun e' => e'.h == e.h) = some e
  | [], _, e, he => by simp at he
  | x :: t, hn, e, he => by
    rw [List.map_cons, List.nodup_cons] at hn
    rcases List.mem_cons.1 he with rfl | he'
    · simp
    · have hne : x.h ≠ e.h := fun heq => hn.1 (heq ▸ List.mem_map.2 ⟨e, he', rfl⟩)
      rw [List.find?_cons]
      have : (x.h == e.h) = false := by simpa using hne
      rw [this]
      exact find_of_nodupH t hn.2 e he'

/-- from equal members (and multiplicities, when repetition counts) to the list verdict -/
theorem iter_verdict_of (c : IOCfg) (hashOf : PyVal → String) (xs ys : List PyVal)
    (hmem : ∀ h, h ∈ xs.map hashOf ↔ h ∈ ys.map hashOf)
    (hcnt : c.rep = true → ∀ h, (xs.map hashOf).count h = (ys.map hashOf).count h) :
    ((addedOf (hashTable hashOf xs) (hashTable hashOf ys)).isEmpty && (removedOf (hashTable hashOf xs) (hashTable hashOf ys)).isEmpty &&
      (repEntries c [] (hashTable hashOf xs) (hashTable hashOf ys)).isEmpty) = true := by
  simp only [Bool.and_eq_true, isEmpty_iff_nil]
  refine ⟨⟨?_, ?_⟩, ?_⟩
  · rw [addedOf_nil_iff]
    intro e he
    exact (hashTable_hasH hashOf xs e.h).2 ((hmem e.h).2 ((hashTable_hasH hashOf ys e.h).1 ⟨e, he, rfl⟩))
  · rw [removedOf_nil_iff]
    intro e he
    exact (hashTable_hasH hashOf ys e.h).2 ((hmem e.h).1 ((hashTable_hasH hashOf xs e.h).1 ⟨e, he, rfl⟩))
  · unfold repEntries
    cases hrep : c.rep with
    | false => simp
    | true =>
      simp only [if_true, List.filterMap_eq_nil_iff]
      intro e2 he2
      cases hf1 : (hashTable hashOf xs).find? (fun e1 => e1.h == e2.h) with
      | none => rfl
      | some e1 =>
        have h1 : cnt (hashTable hashOf xs) e2.h = e1.idxs.length := by unfold cnt; rw [hf1]; rfl
        have h2 : cnt (hashTable hashOf ys) e2.h = e2.idxs.length := by
          unfold cnt; rw [find_of_nodupH _ (hashTable_nodupH hashOf ys) e2 he2]; rfl
        rw [hashTable_cnt] at h1 h2
        have := hcnt hrep e2.h
        have hlen : e1.idxs.length = e2.idxs.length := by omega
        simp [hlen]

/-! ### reading the members (and multiplicities) back from a serialised iterable -/

/-- a digest-like string: non-empty, none of the framing characters -/
def HexS (s : String) : Prop := s ≠ "" ∧ ∀ ch ∈ s.toList, ch ≠ ',' ∧ ch ≠ '|' ∧ ch ≠ ':' ∧ ch ≠ ';'

def itemsOf (cfg : HCfg) (hs : List String) : List String :=
  let d := countDedup hs
  sortStr (if cfg.ignoreRepetition then d.map (·.1) else d.map (fun p => p.1 ++ "|" ++ toString p.2))

theorem sortStr_perm_self (xs : List String) : (sortStr xs).Perm xs := List.mergeSort_perm _ _

theorem digits_of_toString (n : Nat) : ∀ ch ∈ (toString n).toList, ch.isDigit = true := by
  intro ch h
  have e : (toString n).toList = Nat.toDigits 10 n := by simp [toString, Nat.repr]
  rw [e] at h
  exact Nat.isDigit_of_mem_toDigits (by decide) (by decide) h

theorem toString_nat_inj {m n : Nat} (h : toString m = toString n) : m = n := Nat.repr_injective h

theorem countDedup_fst (hs : List String) : (countDedup hs).map (·.1) = dedupFirst hs := by
  unfold countDedup
  rw [List.map_map]
  have : ((fun p : String × Nat => p.1) ∘ fun x => (x, List.count x hs)) = id := rfl
  rw [this, List.map_id]

theorem countDedup_item (hs : List String) :
    (countDedup hs).map (fun p => p.1 ++ "|" ++ toString p.2) = (dedupFirst hs).map (fun x => x ++ "|" ++ toString (hs.count x)) := by
  unfold countDedup
  rw [List.map_map]
  rfl

theorem item_split (h h' : String) (n n' : Nat) (hh : HexS h) (hh' : HexS h')
    (he : h ++ "|" ++ toString n = h' ++ "|" ++ toString n') : h = h' ∧ n = n' := by
  have e : ("|" : String) = String.singleton '|' := by decide
  rw [e] at he
  have hb : ∀ s, HexS s → '|' ∉ s.toList := fun s hs hm => (hs.2 _ hm).2.1 rfl
  obtain ⟨h1, h2⟩ := append_sep_str_inj '|' _ _ _ _ (hb h hh) (hb h' hh') he
  exact ⟨h1, toString_nat_inj h2⟩

theorem items_parts (cfg : HCfg) (hs : List String) (hx : ∀ h ∈ hs, HexS h) :
    ∀ x ∈ itemsOf cfg hs, ',' ∉ x.toList ∧ x ≠ "" := by
  intro x hxm
  unfold itemsOf at hxm
  rw [(sortStr_perm_self _).mem_iff] at hxm
  cases hrep : cfg.ignoreRepetition with
  | true =>
    simp only [hrep, if_true] at hxm
    rw [countDedup_fst, mem_dedupFirst] at hxm
    have := hx x hxm
    exact ⟨fun hm => (this.2 _ hm).1 rfl, this.1⟩
  | false =>
    simp only [hrep, Bool.false_eq_true, if_false] at hxm
    rw [countDedup_item] at hxm
    obtain ⟨h, hh, rfl⟩ := List.mem_map.1 hxm
    rw [mem_dedupFirst] at hh
    have := hx h hh
    constructor
    · intro hm
      simp only [String.toList_append, List.mem_append] at hm
      rcases hm with (hm | hm) | hm
      · exact (this.2 _ hm).1 rfl
      · revert hm; decide
      · have := digits_of_toString _ _ hm
        revert this; decide
    · intro he
      have := congrArg String.toList he
      simp [String.toList_append] at this

/-- equal serialisations list the same item hashes (with the same multiplicities unless repetition is ignored) -/
theorem items_inv (cfg : HCfg) (hs1 hs2 : List String) (h1 : ∀ h ∈ hs1, HexS h) (h2 : ∀ h ∈ hs2, HexS h)
    (h : joinWith "," (itemsOf cfg hs1) = joinWith "," (itemsOf cfg hs2)) :
    (∀ x, x ∈ hs1 ↔ x ∈ hs2) ∧ (cfg.ignoreRepetition = false → ∀ x, hs1.count x = hs2.count x) := by
  have e : ("," : String) = String.singleton ',' := by decide
  rw [e] at h
  have hitems := joinWith_inj ',' _ _ (items_parts cfg hs1 h1) (items_parts cfg hs2 h2) h
  unfold itemsOf at hitems
  cases hrep : cfg.ignoreRepetition with
  | true =>
    simp only [hrep, if_true, countDedup_fst] at hitems
    have hp : (dedupFirst hs1).Perm (dedupFirst hs2) :=
      (sortStr_perm_self _).symm.trans (hitems ▸ sortStr_perm_self _)
    refine ⟨fun x => ?_, fun hf => by simp at hf⟩
    rw [← mem_dedupFirst, ← mem_dedupFirst (hs := hs2)]
    exact hp.mem_iff
  | false =>
    simp only [hrep, Bool.false_eq_true, if_false, countDedup_item] at hitems
    have hp : ((dedupFirst hs1).map (fun x => x ++ "|" ++ toString (hs1.count x))).Perm
              ((dedupFirst hs2).map (fun x => x ++ "|" ++ toString (hs2.count x))) :=
      (sortStr_perm_self _).symm.trans (hitems ▸ sortStr_perm_self _)
    have key : ∀ (a b : List String), (∀ h ∈ a, HexS h) → (∀ h ∈ b, HexS h) →
        (∀ y, y ∈ (dedupFirst a).map (fun x => x ++ "|" ++ toString (a.count x)) → y ∈ (dedupFirst b).map (fun x => x ++ "|" ++ toString (b.count x))) →
        ∀ x ∈ a, x ∈ b ∧ a.count x = b.count x := by
      intro a b ha hb hsub x hxa
      have := hsub _ (List.mem_map.2 ⟨x, mem_dedupFirst.2 hxa, rfl⟩)
      obtain ⟨x', hx', heq⟩ := List.mem_map.1 this
      rw [mem_dedupFirst] at hx'
      obtain ⟨e1, e2⟩ := item_split _ _ _ _ (hb x' hx') (ha x hxa) heq
      subst e1
      exact ⟨hx', e2.symm⟩
    have k12 := key hs1 hs2 h1 h2 (fun y hy => hp.mem_iff.1 hy)
    have k21 := key hs2 hs1 h2 h1 (fun y hy => hp.mem_iff.2 hy)
    refine ⟨fun x => ⟨fun hx => (k12 x hx).1, fun hx => (k21 x hx).1⟩, fun _ x => ?_⟩
    by_cases hx : x ∈ hs1
    · exact (k12 x hx).2
    · have hx' : x ∉ hs2 := fun hm => hx (k21 x hm).1
      rw [List.count_eq_zero_of_not_mem hx, List.count_eq_zero_of_not_mem hx']

/-! ### the converse of `HashSound`, one level (everything but dictionaries) -/

theorem verdict_leaf_refl (c : IOCfg) (hashOf : PyVal → String) (a : PyVal) (ha : isBasic a = true) : verdict c hashOf a a = true := by
  cases a <;> simp [isBasic] at ha <;> simp [verdict, typeName, leafDiff, numEq, numOf]

theorem hex_map (c : IOCfg) (H : String → String) (hex : Hex H) (xs : List PyVal) : ∀ h ∈ xs.map (dh c H), HexS h := by
  intro h hm
  obtain ⟨x, _, rfl⟩ := List.mem_map.1 hm
  rw [dh_pre]
  exact hex _

theorem set_verdict_of (hashOf : PyVal → String) (xs ys : List PyVal) (hmem : ∀ h, h ∈ xs.map hashOf ↔ h ∈ ys.map hashOf) :
    (diffSet hashOf [] xs ys).isEmpty = true := by
  rw [isEmpty_iff_nil]
  unfold diffSet
  simp only [List.append_eq_nil_iff, List.map_eq_nil_iff, List.filter_eq_nil_iff]
  constructor
  · intro y hy
    have := (hmem (hashOf y)).2 (List.mem_map.2 ⟨y, hy, rfl⟩)
    simpa using this
  · intro x hx
    have := (hmem (hashOf x)).1 (List.mem_map.2 ⟨x, hx, rfl⟩)
    simpa using this

/-- equal digests of two values that are not dictionaries: the order-ignoring verdict holds (so the
order-ignoring diff is empty), for an injective hasher with separator-free digests, inside NoSpoof -/
theorem hashComplete_nondict (c : IOCfg) (H : String → String) (hinj : Function.Injective H) (hex : Hex H) (hrepr : ReprInj)
    (a b : PyVal) (hsa : ∀ s, a = .str s → noSpoofS s) (hsb : ∀ s, b = .str s → noSpoofS s)
    (hfa : ∀ n s, a = .float n s → canonFloat n s) (hfb : ∀ n s, b = .float n s → canonFloat n s)
    (hnd : ∀ kvs, a ≠ .dict kvs) (h : dh c H a = dh c H b) : verdict c (dh c H) a b = true := by
  rcases pre_analysis c H hinj a b hsa hsb h with ⟨s, rfl, rfl⟩ | ⟨s, rfl, rfl⟩ | ⟨rfl, rfl⟩ | ⟨hoa, hob, htag, hrest⟩
  · exact verdict_leaf_refl _ _ _ rfl
  · exact verdict_leaf_refl _ _ _ rfl
  · exact verdict_leaf_refl _ _ _ rfl
  · have iter : ∀ xs ys : List PyVal,
        joinWith "," (itemsOf (hcfg c) (xs.map (dh c H))) = joinWith "," (itemsOf (hcfg c) (ys.map (dh c H))) →
        (∀ h, h ∈ xs.map (dh c H) ↔ h ∈ ys.map (dh c H)) ∧ (c.rep = true → ∀ h, (xs.map (dh c H)).count h = (ys.map (dh c H)).count h) := by
      intro xs ys he
      obtain ⟨h1, h2⟩ := items_inv (hcfg c) _ _ (hex_map c H hex xs) (hex_map c H hex ys) he
      exact ⟨h1, fun hr => h2 (by simp [hcfg, hr])⟩
    cases a <;> simp [isOther] at hoa <;> cases b <;> simp [isOther, tagOf] at hob htag
    · -- bool
      rename_i x y
      have : x = y := by
        cases x <;> cases y <;> simp [restOf] at hrest <;> first | rfl | (exfalso; revert hrest; decide)
      subst this
      exact verdict_leaf_refl _ _ _ rfl
    · rename_i x y
      have : x = y := Int.repr_injective (by simpa [restOf] using hrest)
      subst this
      exact verdict_leaf_refl _ _ _ rfl
    · rename_i n s n' s'
      obtain ⟨e1, e2⟩ := hrepr n n' s s' (hfa n s rfl) (hfb n' s' rfl) (by simpa [restOf] using hrest)
      subst e1; subst e2
      exact verdict_leaf_refl _ _ _ rfl
    · rename_i xs ys
      obtain ⟨hm, hc⟩ := iter xs ys hrest
      simp only [verdict]
      exact iter_verdict_of c (dh c H) xs ys hm hc
    · rename_i xs ys
      obtain ⟨hm, hc⟩ := iter xs ys hrest
      simp only [verdict]
      exact iter_verdict_of c (dh c H) xs ys hm hc
    · rename_i xs ys
      obtain ⟨hm, _⟩ := iter xs ys hrest
      simp only [verdict]
      exact set_verdict_of (dh c H) xs ys hm
    · rename_i xs ys
      obtain ⟨hm, _⟩ := iter xs ys hrest
      simp only [verdict]
      exact set_verdict_of (dh c H) xs ys hm
    · rename_i kvs _
      exact absurd rfl (hnd kvs)

/-! ### dictionaries, and the full converse -/

mutual
/-- the domain of `hashComplete`: NoSpoof for string leaves, canonical floats, and (recursively through
dictionary values) dictionaries with pairwise different, hashable keys from the key universe `K` -/
def domC (K : List PyVal) : PyVal → Prop
  | .dict kvs => distinctKeys (kvs.map (·.1)) = true ∧ (∀ k ∈ kvs.map (·.1), hashable k = true ∧ k ∈ K) ∧ domCP K kvs
  | .str s => noSpoofS s
  | .float n s => canonFloat n s
  | _ => True
def domCP (K : List PyVal) : List (PyVal × PyVal) → Prop
  | [] => True
  | (_, v) :: rest => domC K v ∧ domCP K rest
end

theorem domCP_all {K : List PyVal} : ∀ {kvs : List (PyVal × PyVal)}, domCP K kvs → ∀ p ∈ kvs, domC K p.2
  | [], _, p, hp => by simp at hp
  | (k, v) :: rest, h, p, hp => by
    simp only [domCP] at h
    rcases List.mem_cons.1 hp with rfl | hp'
    · exact h.1
    · exact domCP_all h.2 p hp'

/-- the keys of the universe are scalars inside NoSpoof -/
def KeyOk (K : List PyVal) : Prop := ∀ k ∈ K, isBasic k = true ∧ domC K k

theorem hs_of_domC {K : List PyVal} {a : PyVal} (h : domC K a) : ∀ s, a = .str s → noSpoofS s := by
  intro s e; subst e; simpa [domC] using h

theorem hf_of_domC {K : List PyVal} {a : PyVal} (h : domC K a) : ∀ n s, a = .float n s → canonFloat n s := by
  intro n s e; subst e; simpa [domC] using h

/-- scalars inside NoSpoof with equal digests are the same scalar -/
theorem dh_leaf_inj (c : IOCfg) (H : String → String) (hinj : Function.Injective H) (hrepr : ReprInj) (a b : PyVal)
    (ha : isBasic a = true) (hb : isBasic b = true)
    (hsa : ∀ s, a = .str s → noSpoofS s) (hsb : ∀ s, b = .str s → noSpoofS s)
    (hfa : ∀ n s, a = .float n s → canonFloat n s) (hfb : ∀ n s, b = .float n s → canonFloat n s)
    (h : dh c H a = dh c H b) : a = b := by
  rcases pre_analysis c H hinj a b hsa hsb h with ⟨s, rfl, rfl⟩ | ⟨s, rfl, rfl⟩ | ⟨rfl, rfl⟩ | ⟨hoa, hob, htag, hrest⟩
  · rfl
  · rfl
  · rfl
  · cases a <;> simp [isOther] at hoa <;> simp [isBasic] at ha <;> cases b <;> simp [isOther, tagOf] at hob htag
    · rename_i x y
      have : x = y := by
        cases x <;> cases y <;> simp [restOf] at hrest <;> first | rfl | (exfalso; revert hrest; decide)
      rw [this]
    · rename_i x y
      have : x = y := Int.repr_injective (by simpa [restOf] using hrest)
      rw [this]
    · rename_i n s n' s'
      obtain ⟨e1, e2⟩ := hrepr n n' s s' (hfa n s rfl) (hfb n' s' rfl) (by simpa [restOf] using hrest)
      rw [e1, e2]

theorem entry_parts (c : IOCfg) (H : String → String) (hex : Hex H) (k v : PyVal) :
    ';' ∉ (dh c H k ++ ":" ++ dh c H v).toList ∧ dh c H k ++ ":" ++ dh c H v ≠ "" := by
  have hk : HexS (dh c H k) := by rw [dh_pre]; exact hex _
  have hv : HexS (dh c H v) := by rw [dh_pre]; exact hex _
  constructor
  · intro hm
    simp only [String.toList_append, List.mem_append] at hm
    rcases hm with (hm | hm) | hm
    · exact (hk.2 _ hm).2.2.2 rfl
    · revert hm; decide
    · exact (hv.2 _ hm).2.2.2 rfl
  · intro he
    have := congrArg String.toList he
    simp [String.toList_append] at this

theorem dict_complete (K : List PyVal) (hK : StrictK K) (hKo : KeyOk K) (c : IOCfg) (H : String → String)
    (hinj : Function.Injective H) (hex : Hex H) (hrepr : ReprInj) (kvs1 kvs2 : List (PyVal × PyVal))
    (hd1 : domC K (.dict kvs1)) (hd2 : domC K (.dict kvs2))
    (ihP : ∀ p ∈ kvs1, ∀ y, domC K p.2 → domC K y → dh c H p.2 = dh c H y → verdict c (dh c H) p.2 y = true)
    (hrest : restOf c H (.dict kvs1) = restOf c H (.dict kvs2)) : verdict c (dh c H) (.dict kvs1) (.dict kvs2) = true := by
  simp only [domC] at hd1 hd2
  obtain ⟨hdk1, hkk1, hp1⟩ := hd1
  obtain ⟨hdk2, hkk2, hp2⟩ := hd2
  simp only [restOf] at hrest
  rw [entries_by_keys c H kvs1 hdk1 (fun k hk => (hkk1 k hk).1), entries_by_keys c H kvs2 hdk2 (fun k hk => (hkk2 k hk).1)] at hrest
  unfold verdict
  simp only [Bool.and_eq_true, isEmpty_iff_nil, List.all_eq_true]
  have hsub1 : ∀ k ∈ keysOf (toDCfg c) [] kvs1, k ∈ kvs1.map (·.1) := fun k hk => (List.mem_filter.1 hk).1
  have hsub2 : ∀ k ∈ keysOf (toDCfg c) [] kvs2, k ∈ kvs2.map (·.1) := fun k hk => (List.mem_filter.1 hk).1
  have hnpOf : ∀ kvs k, k ∈ keysOf (toDCfg c) [] kvs → (c.ignorePrivate && isPrivate k) = false := by
    intro kvs k hk
    have := (List.mem_filter.1 hk).2
    simp only [toDCfg, Bool.and_eq_true, Bool.not_eq_true'] at this
    exact this.1
  generalize hk1 : keysOf (toDCfg c) [] kvs1 = k1 at *
  generalize hk2 : keysOf (toDCfg c) [] kvs2 = k2 at *
  -- strip the braces and the separators
  have hJ : joinWith ";" (sortStr (k1.map (fun k => dh c H k ++ ":" ++ dh c H (valOf kvs1 k)))) =
            joinWith ";" (sortStr (k2.map (fun k => dh c H k ++ ":" ++ dh c H (valOf kvs2 k)))) := by
    have h' := congrArg String.toList hrest
    simp only [String.toList_append] at h'
    exact String.toList_inj.1 (List.append_cancel_left (List.append_cancel_right h'))
  have e : (";" : String) = String.singleton ';' := by decide
  rw [e] at hJ
  have parts : ∀ (ks : List PyVal) (kvs : List (PyVal × PyVal)),
      ∀ x ∈ sortStr (ks.map (fun k => dh c H k ++ ":" ++ dh c H (valOf kvs k))), ';' ∉ x.toList ∧ x ≠ "" := by
    intro ks kvs x hx
    rw [(sortStr_perm_self _).mem_iff] at hx
    obtain ⟨k, _, rfl⟩ := List.mem_map.1 hx
    exact entry_parts c H hex k _
  have hS := joinWith_inj ';' _ _ (parts k1 kvs1) (parts k2 kvs2) hJ
  have hperm : (k1.map (fun k => dh c H k ++ ":" ++ dh c H (valOf kvs1 k))).Perm (k2.map (fun k => dh c H k ++ ":" ++ dh c H (valOf kvs2 k))) :=
    (sortStr_perm_self _).symm.trans (hS ▸ sortStr_perm_self _)
  have hcol : ∀ v : PyVal, ':' ∉ (dh c H v).toList := by
    intro v hm
    have : HexS (dh c H v) := by rw [dh_pre]; exact hex _
    exact (this.2 _ hm).2.2.1 rfl
  -- an entry of one side is an entry of the other: same key, values with equal digests
  have key : ∀ (ka kb : List PyVal) (kvsa kvsb : List (PyVal × PyVal)),
      (∀ k ∈ ka, k ∈ K) → (∀ k ∈ kb, k ∈ K) →
      (∀ y, y ∈ ka.map (fun k => dh c H k ++ ":" ++ dh c H (valOf kvsa k)) → y ∈ kb.map (fun k => dh c H k ++ ":" ++ dh c H (valOf kvsb k))) →
      ∀ k ∈ ka, k ∈ kb ∧ dh c H (valOf kvsa k) = dh c H (valOf kvsb k) := by
    intro ka kb kvsa kvsb hka hkb hsub k hk
    have := hsub _ (List.mem_map.2 ⟨k, hk, rfl⟩)
    obtain ⟨k', hk', heq⟩ := List.mem_map.1 this
    obtain ⟨e1, e2⟩ := colon_split _ _ _ _ (hcol k') (hcol k) heq
    have ho := hKo k (hka k hk)
    have ho' := hKo k' (hkb k' hk')
    have : k' = k := dh_leaf_inj c H hinj hrepr k' k ho'.1 ho.1 (hs_of_domC ho'.2) (hs_of_domC ho.2) (hf_of_domC ho'.2) (hf_of_domC ho.2) e1
    subst this
    exact ⟨hk', e2.symm⟩
  have hK1 : ∀ k ∈ k1, k ∈ K := fun k hk => (hkk1 k (hsub1 k hk)).2
  have hK2 : ∀ k ∈ k2, k ∈ K := fun k hk => (hkk2 k (hsub2 k hk)).2
  have k12 := key k1 k2 kvs1 kvs2 hK1 hK2 (fun y hy => hperm.mem_iff.1 hy)
  have k21 := key k2 k1 kvs2 kvs1 hK2 hK1 (fun y hy => hperm.mem_iff.2 hy)
  refine ⟨⟨?_, ?_⟩, ?_⟩
  · rw [List.filter_eq_nil_iff]
    intro k hk
    simp only [Bool.not_eq_true, Bool.not_eq_false', List.any_eq_true]
    exact ⟨k, (k21 k hk).1, keyEq_refl k (hkk2 k (hsub2 k hk)).1⟩
  · rw [List.filter_eq_nil_iff]
    intro k hk
    simp only [Bool.not_eq_true, Bool.not_eq_false', List.any_eq_true]
    exact ⟨k, (k12 k hk).1, keyEq_refl k (hkk1 k (hsub1 k hk)).1⟩
  · intro k hinter
    have hk : k ∈ k2 := (List.mem_filter.1 hinter).1
    have hk1m : k ∈ k1 := (k21 k hk).1
    obtain ⟨⟨ka, v1⟩, hp1m0, hp1k⟩ := List.mem_map.1 (hsub1 k hk1m)
    obtain ⟨⟨kb, v2⟩, hp2m0, hp2k⟩ := List.mem_map.1 (hsub2 k hk)
    simp only at hp1k hp2k
    have hp1m : (k, v1) ∈ kvs1 := by rw [← hp1k]; exact hp1m0
    have hp2m : (k, v2) ∈ kvs2 := by rw [← hp2k]; exact hp2m0
    have hhk : hashable k = true := (hkk1 k (hsub1 k hk1m)).1
    have hkK : k ∈ K := hK1 k hk1m
    have hg1 : dictGet kvs1 k = some v1 := dictGet_self kvs1 k v1 hdk1 hhk hp1m
    have hg2 : dictGet kvs2 k = some v2 := dictGet_self kvs2 k v2 hdk2 hhk hp2m
    have hnp : (c.ignorePrivate && isPrivate k) = false := hnpOf kvs1 k (by rw [hk1]; exact hk1m)
    have hfind : k2.find? (fun x => keyEq k x) = some k := by
      cases hf : k2.find? (fun x => keyEq k x) with
      | none =>
        have := List.find?_eq_none.1 hf k hk
        simp [keyEq_refl k hhk] at this
      | some x =>
        have hx : x ∈ k2 := List.mem_of_find?_eq_some hf
        have hxe : keyEq k x = true := by have := List.find?_some hf; simpa using this
        rw [hK k hkK x (hK2 x hx) hxe]
    have hmemV : (k, verdict c (dh c H) v1 v2) ∈ verdictKVs c (dh c H) kvs1 kvs2 k2 :=
      (mem_verdictKVs c (dh c H) kvs2 k2 kvs1 _).2 ⟨k, v1, k, v2, hp1m, hnp, hfind, hg2, rfl⟩
    have hfu : (verdictKVs c (dh c H) kvs1 kvs2 k2).find? (fun p => keyEq p.1 k) = some (k, verdict c (dh c H) v1 v2) := by
      apply find_unique _ _ _ (keyEq_refl k hhk) hmemV
      intro q hq hqk
      obtain ⟨ka, va, kk, vb, hma, _, hfa, hgb, rfl⟩ := (mem_verdictKVs c (dh c H) kvs2 k2 kvs1 q).1 hq
      have hkk2m : kk ∈ k2 := List.mem_of_find?_eq_some hfa
      have hkke : keyEq ka kk = true := by have := List.find?_some hfa; simpa using this
      have hkaK : ka ∈ K := (hkk1 ka (List.mem_map.2 ⟨(ka, va), hma, rfl⟩)).2
      have hkkK : kk ∈ K := hK2 kk hkk2m
      have e1 : kk = k := hK kk hkkK k hkK hqk
      have e2 : ka = kk := hK ka hkaK kk hkkK hkke
      subst e1
      subst e2
      have : dictGet kvs1 ka = some va := dictGet_self kvs1 ka va hdk1 hhk hma
      rw [hg1] at this
      rw [hg2] at hgb
      cases this; cases hgb
      rfl
    rw [hfu]
    simp only
    have hv := (k12 k hk1m).2
    simp only [valOf, hg1, hg2, Option.getD_some] at hv
    exact ihP (k, v1) hp1m v2 (domCP_all hp1 _ hp1m) (domCP_all hp2 _ hp2m) hv

mutual
/-- **the converse of HashSound for the DeepHash model**: inside the domain, values with equal digests are
values the ignore-order verdict cannot tell apart -/
theorem hashComplete_V (K : List PyVal) (hK : StrictK K) (hKo : KeyOk K) (c : IOCfg) (H : String → String)
    (hinj : Function.Injective H) (hex : Hex H) (hrepr : ReprInj) :
    ∀ (x y : PyVal), domC K x → domC K y → dh c H x = dh c H y → verdict c (dh c H) x y = true
  | .dict kvs1, y, dx, dy, h => by
    rcases pre_analysis c H hinj (.dict kvs1) y (hs_of_domC dx) (hs_of_domC dy) h with ⟨s, e, _⟩ | ⟨s, e, _⟩ | ⟨e, _⟩ | ⟨_, hob, htag, hrest⟩
    · cases e
    · cases e
    · cases e
    · cases y <;> simp [isOther, tagOf] at hob htag
      rename_i kvs2
      exact dict_complete K hK hKo c H hinj hex hrepr kvs1 kvs2 dx dy (hashComplete_P K hK hKo c H hinj hex hrepr kvs1) hrest
  | .list xs, y, dx, dy, h => hashComplete_nondict c H hinj hex hrepr _ y (hs_of_domC dx) (hs_of_domC dy) (hf_of_domC dx) (hf_of_domC dy) (by intro kvs e; cases e) h
  | .tuple xs, y, dx, dy, h => hashComplete_nondict c H hinj hex hrepr _ y (hs_of_domC dx) (hs_of_domC dy) (hf_of_domC dx) (hf_of_domC dy) (by intro kvs e; cases e) h
  | .set xs, y, dx, dy, h => hashComplete_nondict c H hinj hex hrepr _ y (hs_of_domC dx) (hs_of_domC dy) (hf_of_domC dx) (hf_of_domC dy) (by intro kvs e; cases e) h
  | .frozenset xs, y, dx, dy, h => hashComplete_nondict c H hinj hex hrepr _ y (hs_of_domC dx) (hs_of_domC dy) (hf_of_domC dx) (hf_of_domC dy) (by intro kvs e; cases e) h
  | .none, y, dx, dy, h => hashComplete_nondict c H hinj hex hrepr _ y (hs_of_domC dx) (hs_of_domC dy) (hf_of_domC dx) (hf_of_domC dy) (by intro kvs e; cases e) h
  | .bool _, y, dx, dy, h => hashComplete_nondict c H hinj hex hrepr _ y (hs_of_domC dx) (hs_of_domC dy) (hf_of_domC dx) (hf_of_domC dy) (by intro kvs e; cases e) h
  | .int _, y, dx, dy, h => hashComplete_nondict c H hinj hex hrepr _ y (hs_of_domC dx) (hs_of_domC dy) (hf_of_domC dx) (hf_of_domC dy) (by intro kvs e; cases e) h
  | .float _ _, y, dx, dy, h => hashComplete_nondict c H hinj hex hrepr _ y (hs_of_domC dx) (hs_of_domC dy) (hf_of_domC dx) (hf_of_domC dy) (by intro kvs e; cases e) h
  | .str _, y, dx, dy, h => hashComplete_nondict c H hinj hex hrepr _ y (hs_of_domC dx) (hs_of_domC dy) (hf_of_domC dx) (hf_of_domC dy) (by intro kvs e; cases e) h
  | .bytes _, y, dx, dy, h => hashComplete_nondict c H hinj hex hrepr _ y (hs_of_domC dx) (hs_of_domC dy) (hf_of_domC dx) (hf_of_domC dy) (by intro kvs e; cases e) h
theorem hashComplete_P (K : List PyVal) (hK : StrictK K) (hKo : KeyOk K) (c : IOCfg) (H : String → String)
    (hinj : Function.Injective H) (hex : Hex H) (hrepr : ReprInj) :
    ∀ (kvs : List (PyVal × PyVal)) (p : PyVal × PyVal), p ∈ kvs → ∀ (y : PyVal), domC K p.2 → domC K y →
      dh c H p.2 = dh c H y → verdict c (dh c H) p.2 y = true
  | (_, v) :: _, _, .head _, y, d1, d2, h => hashComplete_V K hK hKo c H hinj hex hrepr v y d1 d2 h
  | _ :: rest, p, .tail _ hm, y, d1, d2, h => hashComplete_P K hK hKo c H hinj hex hrepr rest p hm y d1 d2 h
end

/-! ### `ReprInj` holds: the rendering of canonical short decimals is injective -/

def fracL (n : Int) (s : Nat) : List Char :=
  if s = 0 then ['0'] else List.replicate (s - (Nat.toDigits 10 (n.natAbs % 10 ^ s)).length) '0' ++ Nat.toDigits 10 (n.natAbs % 10 ^ s)

theorem floatRepr_toList (n : Int) (s : Nat) :
    (floatRepr n s).toList = (if n < 0 then ['-'] else []) ++ Nat.toDigits 10 (n.natAbs / 10 ^ s) ++ '.' :: fracL n s := by
  unfold floatRepr fracL
  simp only [String.toList_append, Nat.toString_eq_repr, Nat.toList_repr]
  have h1 : (if n < 0 then "-" else "").toList = (if n < 0 then ['-'] else []) := by
    split <;> simp_all
  rw [h1]
  have h2 : (".":String).toList = ['.'] := by decide
  rw [h2]
  have h3 : (if s = 0 then "0" else String.ofList (List.replicate (s - (n.natAbs % 10 ^ s).repr.length) '0') ++ (n.natAbs % 10 ^ s).repr).toList
      = (if s = 0 then ['0'] else List.replicate (s - (Nat.toDigits 10 (n.natAbs % 10 ^ s)).length) '0' ++ Nat.toDigits 10 (n.natAbs % 10 ^ s)) := by
    split
    · decide
    · simp [String.toList_append, Nat.repr_eq_ofList_toDigits]
  rw [h3]
  simp

theorem fracL_length (n : Int) (s : Nat) : (fracL n s).length = if s = 0 then 1 else s := by
  unfold fracL
  split
  · rfl
  · rename_i hs
    have hlt : n.natAbs % 10 ^ s < 10 ^ s := Nat.mod_lt _ (Nat.pow_pos (by decide))
    have := (Nat.length_toDigits_le_iff (b := 10) (n := n.natAbs % 10 ^ s) (k := s) (by decide) (by omega)).2 hlt
    simp only [List.length_append, List.length_replicate]
    omega

theorem fracL_value (n : Int) (s : Nat) : Nat.ofDigitChars 10 (fracL n s) 0 = n.natAbs % 10 ^ s := by
  unfold fracL
  split
  · rename_i hs
    subst hs
    simp [Nat.ofDigitChars, Nat.mod_one]
  · rw [Nat.ofDigitChars_append, Nat.ofDigitChars_replicate_zero, Nat.mul_zero, Nat.ofDigitChars_ten_toDigits]

theorem digits_no (ch : Char) (hd : ch.isDigit = false) (k : Nat) : ch ∉ Nat.toDigits 10 k := by
  intro hm
  have := Nat.isDigit_of_mem_toDigits (b := 10) (by decide) (by decide) hm
  rw [hd] at this; cases this

theorem toDigits_inj {a b : Nat} (h : Nat.toDigits 10 a = Nat.toDigits 10 b) : a = b := by
  have := congrArg (fun l => Nat.ofDigitChars 10 l 0) h
  simpa using this

theorem reprInj : ReprInj := by
  intro n n' s s' hc hc' h
  have hl := congrArg String.toList h
  rw [floatRepr_toList, floatRepr_toList] at hl
  have hpre : ∀ (m : Int) (k : Nat), '.' ∉ (if m < 0 then ['-'] else []) ++ Nat.toDigits 10 k := by
    intro m k hm
    rw [List.mem_append] at hm
    rcases hm with hm | hm
    · split at hm <;> simp at hm
    · exact digits_no '.' (by decide) k hm
  obtain ⟨h1, h2⟩ := Hash.append_sep_inj '.' _ _ _ _ (hpre n _) (hpre n' _) hl
  have hlen := congrArg List.length h2
  rw [fracL_length, fracL_length] at hlen
  have hval := congrArg (fun l => Nat.ofDigitChars 10 l 0) h2
  simp only [fracL_value] at hval
  -- sign and integer part
  have hsign : (n < 0 ↔ n' < 0) ∧ n.natAbs / 10 ^ s = n'.natAbs / 10 ^ s' := by
    by_cases hn : n < 0 <;> by_cases hn' : n' < 0 <;> simp only [hn, hn', if_true, if_false, List.nil_append, List.cons_append, List.cons.injEq, true_and] at h1
    · exact ⟨by simp [hn, hn'], toDigits_inj h1⟩
    · exfalso
      have : '-' ∈ Nat.toDigits 10 (n'.natAbs / 10 ^ s') := by rw [← h1]; simp
      exact digits_no '-' (by decide) _ this
    · exfalso
      have : '-' ∈ Nat.toDigits 10 (n.natAbs / 10 ^ s) := by rw [h1]; simp
      exact digits_no '-' (by decide) _ this
    · exact ⟨by simp [hn, hn'], toDigits_inj h1⟩
  obtain ⟨hs1, hs2⟩ := hsign
  have fin : s = s' → n = n' ∧ s = s' := by
    intro e
    subst e
    refine ⟨?_, rfl⟩
    have ha : n.natAbs = n'.natAbs := by
      rw [← Nat.div_add_mod n.natAbs (10 ^ s), ← Nat.div_add_mod n'.natAbs (10 ^ s), hs2, hval]
    omega
  by_cases e : s = s'
  · exact fin e
  · exfalso
    -- lengths force {0, 1}
    have : (s = 0 ∧ s' = 1) ∨ (s = 1 ∧ s' = 0) := by
      split at hlen <;> split at hlen <;> omega
    rcases this with ⟨rfl, rfl⟩ | ⟨rfl, rfl⟩
    · simp only [Nat.pow_zero, Nat.mod_one, Nat.pow_one] at hval
      rcases hc' with h0 | hm
      · omega
      · omega
    · simp only [Nat.pow_zero, Nat.mod_one, Nat.pow_one] at hval
      rcases hc with h0 | hm
      · omega
      · omega

/-! ### the hypotheses on the hasher are satisfiable: an injective function with separator-free, non-empty outputs -/

def enc (ch : Char) : List Char :=
  if ch = ',' then ['\\', 'a'] else if ch = '|' then ['\\', 'b'] else if ch = ':' then ['\\', 'c']
  else if ch = ';' then ['\\', 'd'] else if ch = '\\' then ['\\', 'e'] else [ch]

/-- an injective "hasher" with non-empty, separator-free outputs (escape the framing characters) -/
def escH (s : String) : String := "h" ++ String.ofList (s.toList.flatMap enc)

theorem enc_cases (ch : Char) :
    (ch = ',' ∧ enc ch = ['\\', 'a']) ∨ (ch = '|' ∧ enc ch = ['\\', 'b']) ∨ (ch = ':' ∧ enc ch = ['\\', 'c']) ∨
    (ch = ';' ∧ enc ch = ['\\', 'd']) ∨ (ch = '\\' ∧ enc ch = ['\\', 'e']) ∨
    (ch ≠ ',' ∧ ch ≠ '|' ∧ ch ≠ ':' ∧ ch ≠ ';' ∧ ch ≠ '\\' ∧ enc ch = [ch]) := by
  unfold enc
  by_cases h1 : ch = ','
  · subst h1; exact Or.inl ⟨rfl, by decide⟩
  by_cases h2 : ch = '|'
  · subst h2; exact Or.inr (Or.inl ⟨rfl, by decide⟩)
  by_cases h3 : ch = ':'
  · subst h3; exact Or.inr (Or.inr (Or.inl ⟨rfl, by decide⟩))
  by_cases h4 : ch = ';'
  · subst h4; exact Or.inr (Or.inr (Or.inr (Or.inl ⟨rfl, by decide⟩)))
  by_cases h5 : ch = '\\'
  · subst h5; exact Or.inr (Or.inr (Or.inr (Or.inr (Or.inl ⟨rfl, by decide⟩))))
  · exact Or.inr (Or.inr (Or.inr (Or.inr (Or.inr ⟨h1, h2, h3, h4, h5, by simp [h1, h2, h3, h4, h5]⟩))))

theorem enc_prefix (c1 c2 : Char) (r1 r2 : List Char) (h : enc c1 ++ r1 = enc c2 ++ r2) : c1 = c2 ∧ r1 = r2 := by
  rcases enc_cases c1 with ⟨e1, h1⟩ | ⟨e1, h1⟩ | ⟨e1, h1⟩ | ⟨e1, h1⟩ | ⟨e1, h1⟩ | ⟨n1, n2, n3, n4, n5, h1⟩ <;>
  rcases enc_cases c2 with ⟨e2, h2⟩ | ⟨e2, h2⟩ | ⟨e2, h2⟩ | ⟨e2, h2⟩ | ⟨e2, h2⟩ | ⟨m1, m2, m3, m4, m5, h2⟩ <;>
  rw [h1, h2] at h <;> simp at h <;> grind

theorem flatMap_enc_inj : ∀ l1 l2 : List Char, l1.flatMap enc = l2.flatMap enc → l1 = l2
  | [], [], _ => rfl
  | [], c :: l, h => by
    exfalso
    simp only [List.flatMap_nil, List.flatMap_cons] at h
    rcases enc_cases c with ⟨_, h1⟩ | ⟨_, h1⟩ | ⟨_, h1⟩ | ⟨_, h1⟩ | ⟨_, h1⟩ | ⟨_, _, _, _, _, h1⟩ <;> rw [h1] at h <;> simp at h
  | c :: l, [], h => by
    exfalso
    simp only [List.flatMap_nil, List.flatMap_cons] at h
    rcases enc_cases c with ⟨_, h1⟩ | ⟨_, h1⟩ | ⟨_, h1⟩ | ⟨_, h1⟩ | ⟨_, h1⟩ | ⟨_, _, _, _, _, h1⟩ <;> rw [h1] at h <;> simp at h
  | c1 :: l1, c2 :: l2, h => by
    simp only [List.flatMap_cons] at h
    obtain ⟨e, hr⟩ := enc_prefix _ _ _ _ h
    rw [e, flatMap_enc_inj l1 l2 hr]

theorem escH_injective : Function.Injective escH := by
  intro a b h
  unfold escH at h
  have := congrArg String.toList h
  simp only [String.toList_append, String.toList_ofList] at this
  exact String.toList_inj.1 (flatMap_enc_inj _ _ (List.append_cancel_left this))

theorem escH_hex : Hex escH := by
  intro s
  constructor
  · intro h
    have := congrArg String.toList h
    simp [escH, String.toList_append] at this
  · intro ch hm
    simp only [escH, String.toList_append, String.toList_ofList, List.mem_append, List.mem_flatMap] at hm
    rcases hm with hm | ⟨c, _, hc⟩
    · have : ch = 'h' := by simpa using hm
      subst this; decide
    · rcases enc_cases c with ⟨_, h1⟩ | ⟨_, h1⟩ | ⟨_, h1⟩ | ⟨_, h1⟩ | ⟨_, h1⟩ | ⟨n1, n2, n3, n4, _, h1⟩ <;> rw [h1] at hc <;> simp at hc
      all_goals first | (rcases hc with rfl | rfl <;> decide) | (subst hc; exact ⟨n1, n2, n3, n4⟩)

end DiffIO
