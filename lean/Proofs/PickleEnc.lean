import Model.Pickle.Encode
/-! C14: the VM inverts the pickler on every encodable payload. -/
namespace Pickle

/-- `s'` is `s` with the given stack; memo and events may have grown -/
def Lands (s s' : St) (stk : List PObj) : Prop :=
  s'.stack = stk ∧ s'.marks = s.marks ∧ s'.extCache = s.extCache

theorem execOps_cons {c : Cfg} {s s1 : St} {op : Op} {ops : List Op} (h : step c s op = .ok s1) :
    execOps c s (op :: ops) = execOps c s1 ops := by
  simp [execOps, h]

theorem execOps_append {c : Cfg} {s s1 : St} {a b : List Op} (h : execOps c s a = .ok s1) :
    execOps c s (a ++ b) = execOps c s1 b := by
  induction a generalizing s with
  | nil => simp [execOps] at h; subst h; rfl
  | cons op ops ih =>
    simp only [List.cons_append, execOps] at h ⊢
    split at h
    · exact ih h
    · cases h

def unpair : List (PObj × PObj) → List PObj
  | [] => []
  | (k, v) :: rest => k :: v :: unpair rest

theorem pairUp_unpair (kvs : List (PObj × PObj)) : pairUp (unpair kvs) = some kvs := by
  induction kvs with
  | nil => rfl
  | cons p rest ih => obtain ⟨k, v⟩ := p; simp [unpair, pairUp, ih]

theorem dictSet_fresh (kvs : List (PObj × PObj)) (k v : PObj)
    (h : kvs.all (fun p => !keyEq p.1 k) = true) : dictSet kvs k v = kvs ++ [(k, v)] := by
  unfold dictSet
  have : kvs.any (fun p => keyEq p.1 k) = false := by
    rw [List.any_eq_false]; intro p hp
    have := List.all_eq_true.1 h p hp
    simpa using this
  simp [this]

theorem setAdd_fresh (xs : List PObj) (x : PObj) (h : xs.all (fun y => !keyEq y x) = true) :
    setAdd xs x = xs ++ [x] := by
  unfold setAdd
  have : xs.any (fun y => keyEq y x) = false := by
    rw [List.any_eq_false]; intro p hp
    have := List.all_eq_true.1 h p hp
    simpa using this
  simp [this]

theorem pairwiseNe_cross {a b : List PObj} (h : pairwiseNe (a ++ b) = true) :
    ∀ x ∈ a, ∀ y ∈ b, (!keyEq x y) = true := by
  induction a with
  | nil => intro x hx; cases hx
  | cons z a ih =>
    simp only [List.cons_append, pairwiseNe, Bool.and_eq_true, List.all_eq_true] at h
    intro x hx y hy
    rcases List.mem_cons.1 hx with rfl | hx
    · exact h.1 y (List.mem_append_right _ hy)
    · exact ih h.2 x hx y hy

theorem foldl_setAdd_fresh (items acc : List PObj) (h : pairwiseNe (acc ++ items) = true) :
    items.foldl setAdd acc = acc ++ items := by
  induction items generalizing acc with
  | nil => simp
  | cons x items ih =>
    have hx : acc.all (fun y => !keyEq y x) = true := by
      rw [List.all_eq_true]; intro y hy
      exact pairwiseNe_cross h y hy x (by simp)
    simp only [List.foldl_cons, setAdd_fresh acc x hx]
    rw [ih (acc ++ [x]) (by simpa using h)]
    simp

theorem foldl_dictSet_fresh (ps acc : List (PObj × PObj))
    (h : pairwiseNe ((acc ++ ps).map (·.1)) = true) :
    ps.foldl (fun a p => dictSet a p.1 p.2) acc = acc ++ ps := by
  induction ps generalizing acc with
  | nil => simp
  | cons p ps ih =>
    have hx : acc.all (fun q => !keyEq q.1 p.1) = true := by
      rw [List.all_eq_true]; intro q hq
      rw [List.map_append] at h
      exact pairwiseNe_cross h q.1 (List.mem_map.2 ⟨q, hq, rfl⟩) p.1 (by simp)
    simp only [List.foldl_cons, dictSet_fresh acc p.1 p.2 hx]
    rw [ih (acc ++ [p]) (by simpa using h)]
    simp

end Pickle

namespace Pickle

theorem Lands.refl_push (s : St) (o : PObj) : Lands s (push s o) (o :: s.stack) := ⟨rfl, rfl, rfl⟩

theorem step_memoize {c : Cfg} {s : St} {x : PObj} {rest : List PObj} (h : s.stack = x :: rest) :
    step c s .memoize = .ok { s with memo := (s.memo.length, x) :: s.memo } := by
  simp [step, h]

/-- after a successful run of `a`, continue with `b` -/
theorem exec_then {c : Cfg} {s s1 : St} {a b : List Op} (h : execOps c s a = .ok s1) :
    execOps c s (a ++ b) = execOps c s1 b := execOps_append h

theorem unpair_reverse_pairUp (kvs : List (PObj × PObj)) :
    pairUp ((unpair kvs).reverse.reverse) = some kvs := by simp [pairUp_unpair]

theorem persistentLoad_noneType : persistentLoad (.str "<<NoneType>>") = .noneType := by
  simp [persistentLoad]

set_option maxHeartbeats 2000000
mutual
theorem enc_ok (c : Cfg) : ∀ (o : PObj), encodable c o = true → ∀ s : St,
    ∃ s', execOps c s (enc o) = .ok s' ∧ Lands s s' (o :: s.stack)
  | .none, _, s => ⟨push s .none, by simp [enc, execOps, step], Lands.refl_push _ _⟩
  | .bool b, _, s => by
    cases b <;> exact ⟨push s _, by simp [enc, execOps, step], Lands.refl_push _ _⟩
  | .int i, _, s => ⟨push s (.int i), by simp [enc, execOps, step], Lands.refl_push _ _⟩
  | .float r, _, s => ⟨push s (.float r), by simp [enc, execOps, step], Lands.refl_push _ _⟩
  | .str x, _, s => ⟨{ s with stack := .str x :: s.stack, memo := (s.memo.length, .str x) :: s.memo },
      by simp [enc, execOps, step, push], rfl, rfl, rfl⟩
  | .bytes x, _, s => ⟨{ s with stack := .bytes x :: s.stack, memo := (s.memo.length, .bytes x) :: s.memo },
      by simp [enc, execOps, step, push], rfl, rfl, rfl⟩
  | .noneType, _, s => ⟨{ s with stack := .noneType :: s.stack, memo := (s.memo.length, .str "<<NoneType>>") :: s.memo },
      by simp [enc, execOps, step, push, persistentLoad_noneType], rfl, rfl, rfl⟩
  | .glob m n, h, s => by
    simp only [encodable, Bool.and_eq_true, decide_eq_true_eq] at h
    have hf : findClass c.safe c.env m n = .ok (.glob m n) := by simp [findClass, h.1, h.2]
    exact ⟨{ s with stack := .glob m n :: s.stack,
                    memo := (s.memo.length + 1 + 1, .glob m n) :: (s.memo.length + 1, .str n) :: (s.memo.length, .str m) :: s.memo,
                    events := .resolved m n :: s.events },
      by simp [enc, execOps, step, push, hf, bind, Except.bind, pure, Except.pure], rfl, rfl, rfl⟩
  | .tuple xs, h, s => by
    match xs, h with
    | [], _ => exact ⟨push s (.tuple []), by simp [enc, execOps, step], Lands.refl_push _ _⟩
    | [a], h =>
      simp only [encodable, encodableL, Bool.and_eq_true] at h
      obtain ⟨s1, e1, l1⟩ := enc_ok c a h.1 s
      simp only [enc]; rw [exec_then e1]; simp [execOps, step, l1.1]
      exact ⟨rfl, l1.2.1, l1.2.2⟩
    | [a, b], h =>
      simp only [encodable, encodableL, Bool.and_eq_true] at h
      obtain ⟨s1, e1, l1⟩ := enc_ok c a h.1 s
      obtain ⟨s2, e2, l2⟩ := enc_ok c b h.2.1 s1
      simp only [enc]; rw [exec_then e1, exec_then e2]; simp [execOps, step, l2.1, l1.1]
      exact ⟨rfl, l2.2.1.trans l1.2.1, l2.2.2.trans l1.2.2⟩
    | [a, b, d], h =>
      simp only [encodable, encodableL, Bool.and_eq_true] at h
      obtain ⟨s1, e1, l1⟩ := enc_ok c a h.1 s
      obtain ⟨s2, e2, l2⟩ := enc_ok c b h.2.1 s1
      obtain ⟨s3, e3, l3⟩ := enc_ok c d h.2.2.1 s2
      simp only [enc]; rw [exec_then e1, exec_then e2, exec_then e3]
      simp [execOps, step, l3.1, l2.1, l1.1]
      exact ⟨rfl, l3.2.1.trans (l2.2.1.trans l1.2.1), l3.2.2.trans (l2.2.2.trans l1.2.2)⟩
    | a :: b :: d :: e :: rest, h =>
      simp only [encodable] at h
      obtain ⟨s1, e1, l1⟩ := encL_ok c (a :: b :: d :: e :: rest) h
        { s with marks := s.stack :: s.marks, stack := [] }
      have hpm : popMark s1 = .ok ((a :: b :: d :: e :: rest), { s1 with stack := s.stack, marks := s.marks }) := by
        simp [popMark, l1.2.1, l1.1]
      simp only [enc]
      rw [execOps_cons (s1 := { s with marks := s.stack :: s.marks, stack := [] }) (by simp [step])]
      rw [exec_then e1]
      simp [execOps, step, hpm, bind, Except.bind, pure, Except.pure, push]
      exact ⟨rfl, rfl, l1.2.2⟩
  | .list xs, h, s => by
    match xs, h with
    | [], _ => exact ⟨{ s with stack := (.list [] :: s.stack), memo := (s.memo.length, .list []) :: s.memo },
        by simp [enc, execOps, step, push], rfl, rfl, rfl⟩
    | [a], h =>
      simp only [encodable, encodableL, Bool.and_eq_true] at h
      obtain ⟨s1, e1, l1⟩ := enc_ok c a h.1
        { s with stack := (.list [] :: s.stack), memo := (s.memo.length, .list []) :: s.memo }
      simp only [enc]
      rw [execOps_cons (s1 := push s (.list [])) (by simp [step])]
      rw [execOps_cons (s1 := { s with stack := (.list [] :: s.stack), memo := (s.memo.length, .list []) :: s.memo })
            (by simp [step, push])]
      rw [exec_then e1]; simp [execOps, step, l1.1]
      exact ⟨rfl, l1.2.1, l1.2.2⟩
    | a :: b :: rest, h =>
      simp only [encodable] at h
      obtain ⟨s1, e1, l1⟩ := encL_ok c (a :: b :: rest) h
        { s with marks := ((.list [] :: s.stack) :: s.marks), stack := [], memo := (s.memo.length, .list []) :: s.memo }
      have hpm : popMark s1 = .ok ((a :: b :: rest), { s1 with stack := (.list [] :: s.stack), marks := s.marks }) := by
        simp [popMark, l1.2.1, l1.1]
      simp only [enc]
      rw [execOps_cons (s1 := push s (.list [])) (by simp [step])]
      rw [execOps_cons (s1 := { s with stack := (.list [] :: s.stack), memo := (s.memo.length, .list []) :: s.memo })
            (by simp [step, push])]
      rw [execOps_cons (s1 := { s with marks := ((.list [] :: s.stack) :: s.marks), stack := [], memo := (s.memo.length, .list []) :: s.memo }) (by simp [step])]
      rw [exec_then e1]
      simp [execOps, step, hpm, bind, Except.bind, pure, Except.pure]
      exact ⟨rfl, rfl, l1.2.2⟩
  | .dict kvs, h, s => by
    match kvs, h with
    | [], _ => exact ⟨{ s with stack := (.dict [] :: s.stack), memo := (s.memo.length, .dict []) :: s.memo },
        by simp [enc, execOps, step, push], rfl, rfl, rfl⟩
    | [(k, v)], h =>
      simp only [encodable, encodableP, Bool.and_eq_true] at h
      obtain ⟨s1, e1, l1⟩ := enc_ok c k h.1.1.1
        { s with stack := (.dict [] :: s.stack), memo := (s.memo.length, .dict []) :: s.memo }
      obtain ⟨s2, e2, l2⟩ := enc_ok c v h.1.1.2 s1
      simp only [enc]
      rw [execOps_cons (s1 := push s (.dict [])) (by simp [step])]
      rw [execOps_cons (s1 := { s with stack := (.dict [] :: s.stack), memo := (s.memo.length, .dict []) :: s.memo })
            (by simp [step, push])]
      rw [exec_then e1, exec_then e2]; simp [execOps, step, l2.1, l1.1, dictSet]
      exact ⟨rfl, l2.2.1.trans l1.2.1, l2.2.2.trans l1.2.2⟩
    | p :: q :: rest, h =>
      simp only [encodable, Bool.and_eq_true] at h
      obtain ⟨s1, e1, l1⟩ := encP_ok c (p :: q :: rest) h.1
        { s with marks := ((.dict [] :: s.stack) :: s.marks), stack := [], memo := (s.memo.length, .dict []) :: s.memo }
      have hpm : popMark s1 = .ok (unpair (p :: q :: rest), { s1 with stack := (.dict [] :: s.stack), marks := s.marks }) := by
        simp [popMark, l1.2.1, l1.1]
      have hfold := foldl_dictSet_fresh (p :: q :: rest) [] (by simpa using h.2)
      simp only [enc]
      rw [execOps_cons (s1 := push s (.dict [])) (by simp [step])]
      rw [execOps_cons (s1 := { s with stack := (.dict [] :: s.stack), memo := (s.memo.length, .dict []) :: s.memo })
            (by simp [step, push])]
      rw [execOps_cons (s1 := { s with marks := ((.dict [] :: s.stack) :: s.marks), stack := [], memo := (s.memo.length, .dict []) :: s.memo }) (by simp [step])]
      rw [exec_then e1]
      simp only [execOps, step, hpm, bind, Except.bind, pure, Except.pure, pairUp_unpair, hfold]
      simp
      exact ⟨rfl, rfl, l1.2.2⟩
  | .set xs, h, s => by
    match xs, h with
    | [], _ => exact ⟨{ s with stack := (.set [] :: s.stack), memo := (s.memo.length, .set []) :: s.memo },
        by simp [enc, execOps, step, push], rfl, rfl, rfl⟩
    | a :: rest, h =>
      simp only [encodable, Bool.and_eq_true] at h
      obtain ⟨s1, e1, l1⟩ := encL_ok c (a :: rest) h.1
        { s with marks := ((.set [] :: s.stack) :: s.marks), stack := [], memo := (s.memo.length, .set []) :: s.memo }
      have hpm : popMark s1 = .ok ((a :: rest), { s1 with stack := (.set [] :: s.stack), marks := s.marks }) := by
        simp [popMark, l1.2.1, l1.1]
      have hfold := foldl_setAdd_fresh (a :: rest) [] (by simpa using h.2)
      simp only [enc]
      rw [execOps_cons (s1 := push s (.set [])) (by simp [step])]
      rw [execOps_cons (s1 := { s with stack := (.set [] :: s.stack), memo := (s.memo.length, .set []) :: s.memo })
            (by simp [step, push])]
      rw [execOps_cons (s1 := { s with marks := ((.set [] :: s.stack) :: s.marks), stack := [], memo := (s.memo.length, .set []) :: s.memo }) (by simp [step])]
      rw [exec_then e1]
      simp only [execOps, step, hpm, bind, Except.bind, pure, Except.pure, hfold]
      simp
      exact ⟨rfl, rfl, l1.2.2⟩
  | .frozenset xs, h, s => by
    simp only [encodable, Bool.and_eq_true] at h
    obtain ⟨s1, e1, l1⟩ := encL_ok c xs h.1 { s with marks := s.stack :: s.marks, stack := [] }
    have hpm : popMark s1 = .ok (xs, { s1 with stack := s.stack, marks := s.marks }) := by
      simp [popMark, l1.2.1, l1.1]
    have hfold := foldl_setAdd_fresh xs [] (by simpa using h.2)
    simp only [enc]
    rw [execOps_cons (s1 := { s with marks := s.stack :: s.marks, stack := [] }) (by simp [step])]
    rw [exec_then e1]
    simp only [execOps, step, hpm, bind, Except.bind, pure, Except.pure, hfold, push]
    simp
    exact ⟨rfl, rfl, l1.2.2⟩
  | .call f a, h, s => by
    simp only [encodable, Bool.and_eq_true] at h
    obtain ⟨s1, e1, l1⟩ := enc_ok c f h.1.1.1 s
    obtain ⟨s2, e2, l2⟩ := enc_ok c a h.1.1.2 s1
    match a, h with
    | .tuple args, h =>
      simp only [enc]; rw [exec_then e1, exec_then e2]
      simp [execOps, step, l2.1, l1.1, h.1.2]
      exact ⟨rfl, l2.2.1.trans l1.2.1, l2.2.2.trans l1.2.2⟩
  | .newobj f a, h, s => by
    simp only [encodable, Bool.and_eq_true] at h
    obtain ⟨s1, e1, l1⟩ := enc_ok c f h.1.1.1 s
    obtain ⟨s2, e2, l2⟩ := enc_ok c a h.1.1.2 s1
    match a, h with
    | .tuple args, h =>
      simp only [enc]; rw [exec_then e1, exec_then e2]
      simp [execOps, step, l2.1, l1.1, h.1.2]
      exact ⟨rfl, l2.2.1.trans l1.2.1, l2.2.2.trans l1.2.2⟩
  | .built o st, h, s => by
    simp only [encodable, Bool.and_eq_true] at h
    obtain ⟨s1, e1, l1⟩ := enc_ok c o h.1.1 s
    obtain ⟨s2, e2, l2⟩ := enc_ok c st h.1.2 s1
    simp only [enc]; rw [exec_then e1, exec_then e2]
    simp [execOps, step, l2.1, l1.1, h.2]
    exact ⟨rfl, l2.2.1.trans l1.2.1, l2.2.2.trans l1.2.2⟩
  | .bytearray _, h, _ => by simp [encodable] at h
  | .newobjEx _ _ _, h, _ => by simp [encodable] at h
  | .inst _ _, h, _ => by simp [encodable] at h
  | .extended _ _, h, _ => by simp [encodable] at h
theorem encL_ok (c : Cfg) : ∀ (xs : List PObj), encodableL c xs = true → ∀ s : St,
    ∃ s', execOps c s (encL xs) = .ok s' ∧ Lands s s' (xs.reverse ++ s.stack)
  | [], _, s => ⟨s, by simp [encL, execOps], by simp [Lands]⟩
  | x :: xs, h, s => by
    simp only [encodableL, Bool.and_eq_true] at h
    obtain ⟨s1, e1, l1⟩ := enc_ok c x h.1 s
    obtain ⟨s2, e2, l2⟩ := encL_ok c xs h.2 s1
    refine ⟨s2, ?_, ?_⟩
    · simp only [encL]; rw [exec_then e1]; exact e2
    · exact ⟨by rw [l2.1, l1.1]; simp, l2.2.1.trans l1.2.1, l2.2.2.trans l1.2.2⟩
theorem encP_ok (c : Cfg) : ∀ (kvs : List (PObj × PObj)), encodableP c kvs = true → ∀ s : St,
    ∃ s', execOps c s (encP kvs) = .ok s' ∧ Lands s s' ((unpair kvs).reverse ++ s.stack)
  | [], _, s => ⟨s, by simp [encP, execOps], by simp [Lands, unpair]⟩
  | (k, v) :: rest, h, s => by
    simp only [encodableP, Bool.and_eq_true] at h
    obtain ⟨s1, e1, l1⟩ := enc_ok c k h.1.1 s
    obtain ⟨s2, e2, l2⟩ := enc_ok c v h.1.2 s1
    obtain ⟨s3, e3, l3⟩ := encP_ok c rest h.2 s2
    refine ⟨s3, ?_, ?_⟩
    · simp only [encP]; rw [exec_then e1, exec_then e2]; exact e3
    · exact ⟨by rw [l3.1, l2.1, l1.1]; simp [unpair], l3.2.1.trans (l2.2.1.trans l1.2.1),
        l3.2.2.trans (l2.2.2.trans l1.2.2)⟩
end

end Pickle


namespace Pickle

mutual
theorem enc_nostop : ∀ (o : PObj), Op.stop ∉ enc o
  | .none | .int _ | .float _ | .str _ | .bytes _ | .noneType | .glob _ _ => by simp [enc]
  | .bool b => by cases b <;> simp [enc]
  | .bytearray _ | .newobjEx _ _ _ | .inst _ _ | .extended _ _ => by simp [enc]
  | .tuple xs => by
    match xs with
    | [] => simp [enc]
    | [a] => simp [enc, enc_nostop a]
    | [a, b] => simp [enc, enc_nostop a, enc_nostop b]
    | [a, b, d] => simp [enc, enc_nostop a, enc_nostop b, enc_nostop d]
    | a :: b :: d :: e :: rest => simp [enc, encL_nostop (a :: b :: d :: e :: rest)]
  | .list xs => by
    match xs with
    | [] => simp [enc]
    | [a] => simp [enc, enc_nostop a]
    | a :: b :: rest => simp [enc, encL_nostop (a :: b :: rest)]
  | .dict kvs => by
    match kvs with
    | [] => simp [enc]
    | [(k, v)] => simp [enc, enc_nostop k, enc_nostop v]
    | p :: q :: rest => simp [enc, encP_nostop (p :: q :: rest)]
  | .set xs => by
    match xs with
    | [] => simp [enc]
    | a :: rest => simp [enc, encL_nostop (a :: rest)]
  | .frozenset xs => by simp [enc, encL_nostop xs]
  | .call f a => by simp [enc, enc_nostop f, enc_nostop a]
  | .newobj f a => by simp [enc, enc_nostop f, enc_nostop a]
  | .built f a => by simp [enc, enc_nostop f, enc_nostop a]
theorem encL_nostop : ∀ (xs : List PObj), Op.stop ∉ encL xs
  | [] => by simp [encL]
  | x :: xs => by simp [encL, enc_nostop x, encL_nostop xs]
theorem encP_nostop : ∀ (kvs : List (PObj × PObj)), Op.stop ∉ encP kvs
  | [] => by simp [encP]
  | (k, v) :: rest => by simp [encP, enc_nostop k, enc_nostop v, encP_nostop rest]
end

theorem run_of_execOps {c : Cfg} {s s' : St} {ops : List Op} (hns : Op.stop ∉ ops)
    (h : execOps c s ops = .ok s') :
    run c s (ops ++ [.stop]) = match s'.stack with
      | x :: _ => .ok (x, s')
      | [] => .error (.vm "STOP on empty stack") := by
  induction ops generalizing s with
  | nil => simp [execOps] at h; subst h; simp [run]; split <;> simp_all
  | cons op ops ih =>
    simp only [List.mem_cons, not_or] at hns
    simp only [execOps] at h
    split at h
    · rename_i s1 hs
      have : run c s (op :: (ops ++ [.stop])) = run c s1 (ops ++ [.stop]) := by
        cases op <;> simp_all [run]
      simp only [List.cons_append]
      rw [this]; exact ih hns.2 h
    · cases h

end Pickle
