import Model.Cache.Memo
import Proofs.LFU
/-! The memoised computation returns what the direct computation returns, whatever the capacity,
the history of queries and the on/off schedule. -/
namespace Memo
open LFU

/-- every value held for a key is the function's value at that key -/
def Coherent (F : Nat → Nat) (s : State) : Prop := ∀ k v, HasVal (flat s.buckets) k v → v = F k

theorem specStep_vals {cap c : Nat} {A A' : List AEnt} {op : Op} {out : Out} (h : SpecStep cap c A op out A') :
    ∀ k' v', HasVal A' k' v' → HasVal A k' v' ∨ op = .set k' v' := by
  intro k' v' hv
  obtain ⟨p, hp, hpk, hpv⟩ := hv
  cases h with
  | getMiss k0 hk => exact Or.inl ⟨p, hp, hpk, hpv⟩
  | getHit k0 u e A1 hmem hkey hperm =>
    rcases List.mem_cons.1 (hperm.mem_iff.1 hp) with rfl | hp
    · exact Or.inl ⟨(u, e), hmem, by simpa using hpk, by simpa using hpv⟩
    · exact Or.inl ⟨p, (List.mem_filter.1 hp).1, hpk, hpv⟩
  | setOld k0 v0 A1 hex heq =>
    subst heq
    obtain ⟨q, hq, rfl⟩ := List.mem_map.1 hp
    by_cases hqk : (q.2.key == k0) = true
    · simp only [hqk, if_true] at hpk hpv
      have : q.2.key = k0 := by simpa using hqk
      right; rw [← hpk, ← hpv, this]
    · simp only [hqk, Bool.false_eq_true, if_false] at hpk hpv
      exact Or.inl ⟨q, hq, hpk, hpv⟩
  | setNew k0 v0 A1 hk hlen hperm =>
    rcases List.mem_cons.1 (hperm.mem_iff.1 hp) with rfl | hp
    · right; simp at hpk hpv; rw [hpk, hpv]
    · exact Or.inl ⟨p, hp, hpk, hpv⟩
  | setEvict k0 v0 victim A1 hk hlen hv hmin hperm =>
    rcases List.mem_cons.1 (hperm.mem_iff.1 hp) with rfl | hp
    · right; simp at hpk hpv; rw [hpk, hpv]
    · exact Or.inl ⟨p, (List.mem_filter.1 hp).1, hpk, hpv⟩

theorem specStep_found {cap c : Nat} {A A' : List AEnt} {k v : Nat} (h : SpecStep cap c A (.get k) (.found v) A') :
    HasVal A k v := by
  cases h with
  | getHit k0 u e A1 hmem hkey hperm => exact ⟨(u, e), hmem, hkey, rfl⟩

theorem step_coherent (F : Nat → Nat) (s : State) (op : Op) (hinv : Inv s) (hcap : 0 < s.cap) (hco : Coherent F s)
    (hop : ∀ k v, op = .set k v → v = F k) : Coherent F (step s op).1 := by
  intro k v hv
  rcases specStep_vals (step_spec s op hinv hcap).2 k v hv with h | h
  · exact hco k v h
  · exact hop k v h

/-- **one query is transparent** and leaves the cache coherent -/
theorem query_transparent (F : Nat → Nat) (s : State) (hinv : Inv s) (hcap : 0 < s.cap) (hco : Coherent F s)
    (enabled : Bool) (key : Nat) :
    (query F s enabled key).1 = F key ∧ Inv (query F s enabled key).2 ∧ (query F s enabled key).2.cap = s.cap ∧
      Coherent F (query F s enabled key).2 := by
  unfold query
  cases enabled with
  | false => exact ⟨rfl, hinv, rfl, hco⟩
  | true =>
    simp only [if_true]
    have hs := step_spec s (.get key) hinv hcap
    have hc := step_cap s (.get key)
    have hco1 := step_coherent F s (.get key) hinv hcap hco (by intro k v h; cases h)
    cases hout : (step s (.get key)).2 with
    | found v =>
      have hspec := hs.2
      rw [hout] at hspec
      have := hco key v (specStep_found hspec)
      have e : step s (.get key) = ((step s (.get key)).1, Out.found v) := by rw [← hout]
      rw [e]
      exact ⟨this, hs.1, hc, hco1⟩
    | notFound =>
      have e : step s (.get key) = ((step s (.get key)).1, Out.notFound) := by rw [← hout]
      rw [e]
      have hs2 := step_spec (step s (.get key)).1 (.set key (F key)) hs.1 (by omega)
      refine ⟨rfl, hs2.1, by rw [step_cap, hc], ?_⟩
      exact step_coherent F _ _ hs.1 (by omega) hco1 (by intro k v h; cases h; rfl)
    | stored ev =>
      have e : step s (.get key) = ((step s (.get key)).1, Out.stored ev) := by rw [← hout]
      rw [e]
      have hs2 := step_spec (step s (.get key)).1 (.set key (F key)) hs.1 (by omega)
      refine ⟨rfl, hs2.1, by rw [step_cap, hc], ?_⟩
      exact step_coherent F _ _ hs.1 (by omega) hco1 (by intro k v h; cases h; rfl)

/-- **every run of queries returns the direct values** -/
theorem run_transparent (F : Nat → Nat) : ∀ (qs : List (Bool × Nat)) (s : State), Inv s → 0 < s.cap → Coherent F s →
    (run F s qs).1 = qs.map (fun q => F q.2)
  | [], _, _, _, _ => rfl
  | (en, k) :: rest, s, hinv, hcap, hco => by
    obtain ⟨h1, h2, h3, h4⟩ := query_transparent F s hinv hcap hco en k
    have ih := run_transparent F rest (query F s en k).2 h2 (by omega) h4
    simp only [run, List.map_cons]
    rw [ih, h1]

theorem init_coherent (F : Nat → Nat) (cap : Nat) : Coherent F (init cap) := by
  intro k v h
  obtain ⟨p, hp, _, _⟩ := h
  simp [init, flat] at hp

end Memo
