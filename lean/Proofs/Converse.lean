import Proofs.Diff
/-!
The converse of `C02_copy_empty` for the ordered model: an empty diff means the two values are equal
(Python `==`, `pyEq`).  Assumptions, each explicit: no path restriction (`Plain`), dictionary keys from
a universe on which `==` is identity and which holds no ignored private key, set members from a
universe on which the item hash is injective, and a difflib oracle whose all-`equal` answers are
right (`AlignSound`).
-/
namespace Diff
open Py

/-- no `exclude_paths`, `exclude_regex_paths`, `include_paths` -/
structure Plain (cfg : DCfg) : Prop where
  ex : cfg.exclude = []
  exP : cfg.excludePrefix = []
  inc : cfg.incl = []

theorem skipSteps_plain {cfg : DCfg} (h : Plain cfg) (steps : List Step) : skipSteps cfg steps = false := by
  simp [skipSteps, skipPath, h.ex, h.exP, h.inc]

theorem keepReported_plain {cfg : DCfg} (h : Plain cfg) (t : Tree) : keepReported cfg t = t := by
  unfold keepReported
  rw [List.filter_eq_self]
  intro e _
  simp [skipSteps_plain h]

theorem skipKey_plain {cfg : DCfg} (h : Plain cfg) (steps : List Step) (k : PyVal) : skipKey cfg steps k = false := by
  simp [skipKey, h.inc]

theorem keysOf_plain {cfg : DCfg} (h : Plain cfg) (steps : List Step) (kvs : List (PyVal × PyVal))
    (hk : ∀ k ∈ kvs.map (·.1), (cfg.ignorePrivate && isPrivate k) = false) : keysOf cfg steps kvs = kvs.map (·.1) := by
  unfold keysOf
  rw [List.filter_eq_self]
  intro k hk'
  simp [hk k hk', skipKey_plain h]

/-- the difflib oracle is right when it answers "all equal": if its opcodes produce no entry for two
lists of scalars, the lists are equal item by item -/
def AlignSound (al : Align) : Prop :=
  ∀ (steps : List Step) (xs ys : List PyVal), xs.all isBasic = true → ys.all isBasic = true →
    opcodeEntries steps xs ys (al xs ys) = [] → pyEqL xs ys = true

/-- `==` on the key universe is identity -/
def StrictKeys (K : List PyVal) : Prop := ∀ k ∈ K, ∀ k' ∈ K, keyEq k k' = true → k = k'

mutual
/-- the domain of the converse: dictionaries with pairwise different hashable keys from `K`, sets
without repeated members, all from `S` -/
def domE (K S : List PyVal) : PyVal → Prop
  | .dict kvs => distinctKeys (kvs.map (·.1)) = true ∧ (∀ k ∈ kvs.map (·.1), hashable k = true ∧ k ∈ K) ∧ domEP K S kvs
  | .list xs => domEL K S xs
  | .tuple xs => domEL K S xs
  | .set xs => xs.Nodup ∧ ∀ x ∈ xs, x ∈ S
  | .frozenset xs => xs.Nodup ∧ ∀ x ∈ xs, x ∈ S
  | _ => True
def domEL (K S : List PyVal) : List PyVal → Prop
  | [] => True
  | x :: xs => domE K S x ∧ domEL K S xs
def domEP (K S : List PyVal) : List (PyVal × PyVal) → Prop
  | [] => True
  | (_, v) :: rest => domE K S v ∧ domEP K S rest
end

theorem domEP_all {K S : List PyVal} : ∀ {kvs : List (PyVal × PyVal)}, domEP K S kvs → ∀ p ∈ kvs, domE K S p.2
  | [], _, p, hp => by simp at hp
  | (k, v) :: rest, h, p, hp => by
    simp only [domEP] at h
    rcases List.mem_cons.1 hp with rfl | hp'
    · exact h.1
    · exact domEP_all h.2 p hp'

/-! ### leaves and scalar lists -/

theorem leafDiff_nil (steps : List Step) (a b : PyVal) (ha : isBasic a = true) (ht : typeName a = typeName b)
    (h : leafDiff steps a b = []) : pyEq a b = true := by
  cases a <;> simp [isBasic] at ha <;> cases b <;> simp [typeName] at ht
  · simp [pyEq]
  all_goals (
    simp only [leafDiff] at h
    split at h
    · rename_i hn
      simpa [pyEq] using hn
    · simp at h)

theorem pairBasic_nil (steps : List Step) : ∀ (i : Nat) (xs ys : List PyVal), xs.all isBasic = true → ys.all isBasic = true →
    pairBasic steps i i xs ys = [] → pyEqL xs ys = true
  | _, [], [], _, _, _ => rfl
  | _, _ :: _, [], _, _, h => by simp [pairBasic] at h
  | _, [], _ :: _, _, _, h => by simp [pairBasic] at h
  | i, x :: xs, y :: ys, hx, hy, h => by
    simp only [List.all_cons, Bool.and_eq_true] at hx hy
    simp only [pairBasic, List.append_eq_nil_iff] at h
    obtain ⟨h1, h2⟩ := h
    have ih := pairBasic_nil steps (i + 1) xs ys hx.2 hy.2 h2
    have hii : (i != i) = false := by simp
    simp only [hii, Bool.false_and, Bool.false_eq_true, if_false] at h1
    simp only [pyEqL, Bool.and_eq_true]
    refine ⟨?_, ih⟩
    split at h1
    · simp at h1
    · rename_i ht
      have ht' : typeName x = typeName y := by simpa using ht
      exact leafDiff_nil _ x y hx.1 ht' h1

theorem iterInOrder_nil {cfg : DCfg} (hp : Plain cfg) (al : Align) (hal : AlignSound al) (steps : List Step)
    (xs ys : List PyVal) (pw : Unit → Result) (h : (iterInOrder cfg al steps xs ys pw).tree = []) :
    pyEqL xs ys = true ∨ (pw ()).tree = [] := by
  unfold iterInOrder at h
  split at h
  · rename_i hcond
    simp only [Bool.and_eq_true] at hcond
    left
    simp only [keepReported_plain hp] at h
    generalize hp1 : opcodeEntries steps xs ys (al xs ys) = p1 at h
    generalize hp2 : pairBasic steps 0 0 xs ys = p2 at h
    have key : p1 = [] ∨ p2 = [] := by
      by_cases h1 : p1.length ≥ 1
      · right
        rw [if_pos h1] at h
        by_cases hA : (p1.length == 1) = true
        · rw [if_pos hA] at h
          by_cases hB : (p2.length == 0) = true
          · rw [if_pos hB] at h; exact h
          · rw [if_neg hB] at h
            have h' : p1 = [] := h
            subst h'; simp at h1
        · rw [if_neg hA] at h
          by_cases hC : p1.length ≥ p2.length
          · rw [if_pos hC] at h; exact h
          · rw [if_neg hC] at h
            have h' : p1 = [] := h
            subst h'; simp at h1
      · left; rw [if_neg h1] at h; exact h
    rcases key with k1 | k2
    · subst hp1; exact hal steps xs ys hcond.1.2 hcond.2 k1
    · subst hp2; exact pairBasic_nil steps 0 xs ys hcond.1.2 hcond.2 k2
  · right; exact h

/-! ### sets -/

theorem diffSet_nil (hashOf : PyVal → String) (S : List PyVal)
    (hS : ∀ x ∈ S, hashable x = true ∧ ∀ y ∈ S, hashOf x = hashOf y → x = y)
    (steps : List Step) (xs ys : List PyVal) (hn1 : xs.Nodup) (hn2 : ys.Nodup)
    (h1 : ∀ x ∈ xs, x ∈ S) (h2 : ∀ y ∈ ys, y ∈ S) (h : diffSet hashOf steps xs ys = []) :
    (xs.length == ys.length && subsetKey xs ys) = true := by
  unfold diffSet at h
  simp only [List.append_eq_nil_iff, List.map_eq_nil_iff, List.filter_eq_nil_iff] at h
  have hxy : ∀ x ∈ xs, x ∈ ys := by
    intro x hx
    have := h.2 x hx
    simp only [Bool.not_eq_true, Bool.not_eq_false', List.contains_eq_mem, List.mem_map, decide_eq_true_eq] at this
    obtain ⟨y, hy, he⟩ := this
    have : x = y := (hS x (h1 x hx)).2 y (h2 y hy) he.symm
    rw [this]; exact hy
  have hyx : ∀ y ∈ ys, y ∈ xs := by
    intro y hy
    have := h.1 y hy
    simp only [Bool.not_eq_true, Bool.not_eq_false', List.contains_eq_mem, List.mem_map, decide_eq_true_eq] at this
    obtain ⟨x, hx, he⟩ := this
    have : x = y := (hS x (h1 x hx)).2 y (h2 y hy) he
    rw [← this]; exact hx
  have hperm : xs.Perm ys := (List.perm_ext_iff_of_nodup hn1 hn2).2 (fun a => ⟨hxy a, hyx a⟩)
  simp only [Bool.and_eq_true, beq_iff_eq]
  refine ⟨hperm.length_eq, ?_⟩
  unfold subsetKey memKey
  rw [List.all_eq_true]
  intro x hx
  rw [List.any_eq_true]
  exact ⟨x, hxy x hx, keyEq_refl x (hS x (h1 x hx)).1⟩

/-! ### dictionaries -/

theorem mem_diffKVs (cfg : DCfg) (al : Align) (hashOf : PyVal → String) (steps : List Step) (kvs2 : List (PyVal × PyVal)) (k2s : List PyVal) :
    ∀ (kvs1 : List (PyVal × PyVal)) (q : PyVal × Result),
      q ∈ diffKVs cfg al hashOf steps kvs1 kvs2 k2s ↔
        ∃ k1 v1 kk v2, (k1, v1) ∈ kvs1 ∧ (cfg.ignorePrivate && isPrivate k1) = false ∧ k2s.find? (fun k => keyEq k1 k) = some kk ∧
          dictGet kvs2 kk = some v2 ∧
          q = (kk, if skipSteps cfg (steps ++ [⟨.dict, some kk, some kk⟩]) then {} else diffV cfg al hashOf (steps ++ [⟨.dict, some kk, some kk⟩]) v1 v2)
  | [], q => by simp [diffKVs]
  | (k, v) :: rest, q => by
    have ih := mem_diffKVs cfg al hashOf steps kvs2 k2s rest q
    simp only [diffKVs]
    by_cases hp : (cfg.ignorePrivate && isPrivate k) = true
    · simp only [hp, if_true, ih]
      constructor
      · rintro ⟨k1, v1, kk, v2, hm, h⟩; exact ⟨k1, v1, kk, v2, List.mem_cons_of_mem _ hm, h⟩
      · rintro ⟨k1, v1, kk, v2, hm, hnp, h⟩
        rcases List.mem_cons.1 hm with heq | hm'
        · cases heq; rw [hp] at hnp; cases hnp
        · exact ⟨k1, v1, kk, v2, hm', hnp, h⟩
    · have hp' : (cfg.ignorePrivate && isPrivate k) = false := by simpa using hp
      simp only [hp', Bool.false_eq_true, if_false]
      cases hf : k2s.find? (fun x => keyEq k x) with
      | none =>
        simp only [ih]
        constructor
        · rintro ⟨k1, v1, kk, v2, hm, h⟩; exact ⟨k1, v1, kk, v2, List.mem_cons_of_mem _ hm, h⟩
        · rintro ⟨k1, v1, kk, v2, hm, hnp, hfk, h⟩
          rcases List.mem_cons.1 hm with heq | hm'
          · cases heq; rw [hf] at hfk; cases hfk
          · exact ⟨k1, v1, kk, v2, hm', hnp, hfk, h⟩
      | some kk0 =>
        simp only
        cases hg : dictGet kvs2 kk0 with
        | none =>
          simp only [ih]
          constructor
          · rintro ⟨k1, v1, kk, v2, hm, h⟩; exact ⟨k1, v1, kk, v2, List.mem_cons_of_mem _ hm, h⟩
          · rintro ⟨k1, v1, kk, v2, hm, hnp, hfk, hdg, h⟩
            rcases List.mem_cons.1 hm with heq | hm'
            · cases heq; rw [hf] at hfk; cases hfk; rw [hg] at hdg; cases hdg
            · exact ⟨k1, v1, kk, v2, hm', hnp, hfk, hdg, h⟩
        | some v20 =>
          rw [List.mem_cons, ih]
          constructor
          · rintro (rfl | ⟨k1, v1, kk, v2, hm, h⟩)
            · exact ⟨k, v, kk0, v20, List.mem_cons_self .., hp', hf, hg, rfl⟩
            · exact ⟨k1, v1, kk, v2, List.mem_cons_of_mem _ hm, h⟩
          · rintro ⟨k1, v1, kk, v2, hm, hnp, hfk, hdg, h⟩
            rcases List.mem_cons.1 hm with heq | hm'
            · cases heq
              rw [hf] at hfk; cases hfk; rw [hg] at hdg; cases hdg
              exact Or.inl h
            · exact Or.inr ⟨k1, v1, kk, v2, hm', hnp, hfk, hdg, h⟩

theorem foldl_tree_nil (children : List (PyVal × Result)) (f : Result → PyVal → Result)
    (hf : ∀ acc k, f acc k = match children.find? (fun p => keyEq p.1 k) with
      | some (_, r) => acc ++ r
      | Option.none => acc) :
    ∀ (ks : List PyVal) (acc : Result), (ks.foldl f acc).tree = [] →
      acc.tree = [] ∧ ∀ k ∈ ks, ∀ k' r, children.find? (fun p => keyEq p.1 k) = some (k', r) → r.tree = [] := by
  intro ks
  induction ks with
  | nil => intro acc h; exact ⟨h, by intro k hk; simp at hk⟩
  | cons k ks ih =>
    intro acc h
    rw [List.foldl_cons] at h
    obtain ⟨h1, h2⟩ := ih (f acc k) h
    rw [hf] at h1
    cases hfind : children.find? (fun p => keyEq p.1 k) with
    | none =>
      rw [hfind] at h1
      refine ⟨h1, ?_⟩
      intro k0 hk0 k' r hfr
      rcases List.mem_cons.1 hk0 with rfl | hk0'
      · rw [hfind] at hfr; cases hfr
      · exact h2 k0 hk0' k' r hfr
    | some p =>
      obtain ⟨k1, r1⟩ := p
      rw [hfind] at h1
      simp only [Result.append_def, List.append_eq_nil_iff] at h1
      refine ⟨h1.1, ?_⟩
      intro k0 hk0 k' r hfr
      rcases List.mem_cons.1 hk0 with rfl | hk0'
      · rw [hfind] at hfr; cases hfr; exact h1.2
      · exact h2 k0 hk0' k' r hfr

theorem dictSub_of_forall : ∀ (kvs1 kvs2 : List (PyVal × PyVal)),
    (∀ p ∈ kvs1, ∃ v', dictGet kvs2 p.1 = some v' ∧ pyEq p.2 v' = true) → dictSub kvs1 kvs2 = true
  | [], _, _ => by simp [dictSub]
  | (k, v) :: rest, kvs2, h => by
    obtain ⟨v', hg, he⟩ := h (k, v) (List.mem_cons_self ..)
    simp only [dictSub, hg, he, Bool.true_and]
    exact dictSub_of_forall rest kvs2 (fun p hp => h p (List.mem_cons_of_mem _ hp))

theorem find_unique' {β} (l : List (PyVal × β)) (k : PyVal) (b : β) (hk : keyEq k k = true) (hm : (k, b) ∈ l)
    (hu : ∀ p ∈ l, keyEq p.1 k = true → p = (k, b)) : l.find? (fun p => keyEq p.1 k) = some (k, b) := by
  induction l with
  | nil => simp at hm
  | cons q l ih =>
    simp only [List.find?_cons]
    by_cases hq : keyEq q.1 k = true
    · rw [hq, hu q (List.mem_cons_self ..) hq]
    · have hq' : keyEq q.1 k = false := by simpa using hq
      rw [hq']
      rcases List.mem_cons.1 hm with heq | hm'
      · rw [← heq] at hq; simp [hk] at hq
      · exact ih hm' (fun p hp => hu p (List.mem_cons_of_mem _ hp))

theorem nodup_of_distinctKeys' : ∀ (ks : List PyVal), distinctKeys ks = true → (∀ k ∈ ks, hashable k = true) → ks.Nodup
  | [], _, _ => List.nodup_nil
  | k :: ks, hd, hh => by
    simp only [distinctKeys, Bool.and_eq_true, Bool.not_eq_true', List.any_eq_false] at hd
    rw [List.nodup_cons]
    refine ⟨?_, nodup_of_distinctKeys' ks hd.2 (fun x hx => hh x (List.mem_cons_of_mem _ hx))⟩
    intro hmem
    have := hd.1.1 k hmem
    rw [keyEq_refl k (hh k (List.mem_cons_self ..))] at this
    exact absurd rfl this

theorem dictGet_self' (kvs : List (PyVal × PyVal)) (k v : PyVal) (hd : distinctKeys (kvs.map (·.1)) = true)
    (hh : hashable k = true) (hm : (k, v) ∈ kvs) : dictGet kvs k = some v :=
  dictGet_of_entry kvs k v k hd hm (List.mem_map.2 ⟨(k, v), hm, rfl⟩) (keyEq_refl k hh)

/-- the dictionary case, given the converse for the values -/
theorem dict_conv {cfg : DCfg} (hp : Plain cfg) (al : Align) (hashOf : PyVal → String) (K S : List PyVal) (hK : StrictKeys K)
    (hpriv : ∀ k ∈ K, (cfg.ignorePrivate && isPrivate k) = false)
    (steps : List Step) (kvs1 kvs2 : List (PyVal × PyVal))
    (hd1 : domE K S (.dict kvs1)) (hd2 : domE K S (.dict kvs2))
    (ihP : ∀ p ∈ kvs1, ∀ (y : PyVal) (st : List Step), domE K S p.2 → domE K S y → (diffV cfg al hashOf st p.2 y).tree = [] → pyEq p.2 y = true)
    (h : (diffV cfg al hashOf steps (.dict kvs1) (.dict kvs2)).tree = []) : pyEq (.dict kvs1) (.dict kvs2) = true := by
  simp only [domE] at hd1 hd2
  obtain ⟨hdk1, hkk1, hp1⟩ := hd1
  obtain ⟨hdk2, hkk2, hp2⟩ := hd2
  have hk1 := keysOf_plain hp steps kvs1 (fun k hk => hpriv k (hkk1 k hk).2)
  have hk2 := keysOf_plain hp steps kvs2 (fun k hk => hpriv k (hkk2 k hk).2)
  unfold diffV at h
  simp only [hk1, hk2, hp.ex, List.isEmpty_nil, if_true] at h
  generalize hg1 : kvs1.map (·.1) = k1 at *
  generalize hg2 : kvs2.map (·.1) = k2 at *
  split at h
  · simp at h
  · simp only [Result.append_def, List.append_eq_nil_iff, List.map_eq_nil_iff] at h
    obtain ⟨⟨hadd, hrem⟩, hord⟩ := h
    have hnd1 : k1.Nodup := nodup_of_distinctKeys' _ hdk1 (fun k hk => (hkk1 k hk).1)
    have hnd2 : k2.Nodup := nodup_of_distinctKeys' _ hdk2 (fun k hk => (hkk2 k hk).1)
    have h21 : ∀ k ∈ k2, k ∈ k1 := by
      intro k hk
      have := (List.filter_eq_nil_iff.1 hadd) k hk
      simp only [Bool.not_eq_true, Bool.not_eq_false', List.any_eq_true] at this
      obtain ⟨k', hk', heq⟩ := this
      have : k' = k := hK k' (hkk1 k' hk').2 k (hkk2 k hk).2 heq
      rw [← this]; exact hk'
    have h12 : ∀ k ∈ k1, k ∈ k2 := by
      intro k hk
      have := (List.filter_eq_nil_iff.1 hrem) k hk
      simp only [Bool.not_eq_true, Bool.not_eq_false', List.any_eq_true] at this
      obtain ⟨k', hk', heq⟩ := this
      have : k' = k := hK k' (hkk2 k' hk').2 k (hkk1 k hk).2 heq
      rw [← this]; exact hk'
    have hperm : k1.Perm k2 := (List.perm_ext_iff_of_nodup hnd1 hnd2).2 (fun k => ⟨h12 k, h21 k⟩)
    have hlen : kvs1.length = kvs2.length := by
      have := hperm.length_eq
      rw [← hg1, ← hg2, List.length_map, List.length_map] at this
      exact this
    have hchildren := foldl_tree_nil (diffKVs cfg al hashOf steps kvs1 kvs2 k2) _ (fun _ _ => rfl) _ _ hord
    simp only [pyEq, Bool.and_eq_true, beq_iff_eq]
    refine ⟨hlen, ?_⟩
    apply dictSub_of_forall
    rintro ⟨k, v1⟩ hm1
    have hk1m : k ∈ k1 := by rw [← hg1]; exact List.mem_map.2 ⟨(k, v1), hm1, rfl⟩
    have hk : k ∈ k2 := h12 k hk1m
    obtain ⟨⟨kb, v2⟩, hp2m0, hp2k⟩ := List.mem_map.1 (by rw [← hg2] at hk; exact hk)
    simp only at hp2k
    have hp2m : (k, v2) ∈ kvs2 := by rw [← hp2k]; exact hp2m0
    have hhk : hashable k = true := (hkk1 k hk1m).1
    have hkK : k ∈ K := (hkk1 k hk1m).2
    have hdk1' : distinctKeys (kvs1.map (·.1)) = true := by rw [hg1]; exact hdk1
    have hdk2' : distinctKeys (kvs2.map (·.1)) = true := by rw [hg2]; exact hdk2
    have hget1 : dictGet kvs1 k = some v1 := dictGet_self' kvs1 k v1 hdk1' hhk hm1
    have hget2 : dictGet kvs2 k = some v2 := dictGet_self' kvs2 k v2 hdk2' hhk hp2m
    have hinter : k ∈ k2.filter (fun k => k1.any (fun k' => keyEq k' k)) := by
      rw [List.mem_filter]
      exact ⟨hk, by rw [List.any_eq_true]; exact ⟨k, hk1m, keyEq_refl k hhk⟩⟩
    have hnp : (cfg.ignorePrivate && isPrivate k) = false := hpriv k hkK
    have hfind : k2.find? (fun x => keyEq k x) = some k := by
      cases hf : k2.find? (fun x => keyEq k x) with
      | none =>
        have := List.find?_eq_none.1 hf k hk
        simp [keyEq_refl k hhk] at this
      | some x =>
        have hx : x ∈ k2 := List.mem_of_find?_eq_some hf
        have hxe : keyEq k x = true := by have := List.find?_some hf; simpa using this
        rw [hK k hkK x (hkk2 x hx).2 hxe]
    have hsk : skipSteps cfg (steps ++ [⟨.dict, some k, some k⟩]) = false := skipSteps_plain hp _
    have hmemV : (k, diffV cfg al hashOf (steps ++ [⟨.dict, some k, some k⟩]) v1 v2) ∈ diffKVs cfg al hashOf steps kvs1 kvs2 k2 := by
      rw [mem_diffKVs]
      exact ⟨k, v1, k, v2, hm1, hnp, hfind, hget2, by simp [hsk]⟩
    have hfu : (diffKVs cfg al hashOf steps kvs1 kvs2 k2).find? (fun p => keyEq p.1 k) =
        some (k, diffV cfg al hashOf (steps ++ [⟨.dict, some k, some k⟩]) v1 v2) := by
      apply find_unique' _ _ _ (keyEq_refl k hhk) hmemV
      intro q hq hqk
      obtain ⟨ka, va, kk, vb, hma, _, hfa, hgb, rfl⟩ := (mem_diffKVs cfg al hashOf steps kvs2 k2 kvs1 q).1 hq
      have hkk2m : kk ∈ k2 := List.mem_of_find?_eq_some hfa
      have hkke : keyEq ka kk = true := by have := List.find?_some hfa; simpa using this
      have hkaK : ka ∈ K := (hkk1 ka (by rw [← hg1]; exact List.mem_map.2 ⟨(ka, va), hma, rfl⟩)).2
      have hkkK : kk ∈ K := (hkk2 kk hkk2m).2
      have e1 : kk = k := hK kk hkkK k hkK hqk
      have e2 : ka = kk := hK ka hkaK kk hkkK hkke
      subst e1
      subst e2
      have : dictGet kvs1 ka = some va := dictGet_self' kvs1 ka va hdk1' hhk hma
      rw [hget1] at this
      rw [hget2] at hgb
      cases this; cases hgb
      simp [hsk]
    have hnil := hchildren.2 k hinter _ _ hfu
    exact ⟨v2, hget2, ihP (k, v1) hm1 v2 _ (domEP_all hp1 _ hm1) (domEP_all hp2 _ hp2m) hnil⟩

/-! ### the theorem -/

mutual
/-- **empty ⇒ equal** for the ordered model -/
theorem conv_V {cfg : DCfg} (hp : Plain cfg) (al : Align) (hal : AlignSound al) (hashOf : PyVal → String) (K S : List PyVal)
    (hK : StrictKeys K) (hpriv : ∀ k ∈ K, (cfg.ignorePrivate && isPrivate k) = false)
    (hS : ∀ x ∈ S, hashable x = true ∧ ∀ y ∈ S, hashOf x = hashOf y → x = y) :
    ∀ (a b : PyVal) (steps : List Step), domE K S a → domE K S b → (diffV cfg al hashOf steps a b).tree = [] → pyEq a b = true
  | .dict kvs1, b, steps, da, db, h => by
    cases b with
    | dict kvs2 => exact dict_conv hp al hashOf K S hK hpriv steps kvs1 kvs2 da db (conv_P hp al hal hashOf K S hK hpriv hS kvs1) h
    | _ => all_goals simp [diffV] at h
  | .list xs, b, steps, da, db, h => by
    cases b with
    | list ys =>
      simp only [diffV] at h
      simp only [domE] at da db
      rcases iterInOrder_nil hp al hal steps xs ys _ h with h1 | h1
      · simpa [pyEq] using h1
      · simpa [pyEq] using conv_L hp al hal hashOf K S hK hpriv hS xs ys steps 0 da db h1
    | _ => all_goals simp [diffV] at h
  | .tuple xs, b, steps, da, db, h => by
    cases b with
    | tuple ys =>
      simp only [diffV] at h
      simp only [domE] at da db
      rcases iterInOrder_nil hp al hal steps xs ys _ h with h1 | h1
      · simpa [pyEq] using h1
      · simpa [pyEq] using conv_L hp al hal hashOf K S hK hpriv hS xs ys steps 0 da db h1
    | _ => all_goals simp [diffV] at h
  | .set xs, b, steps, da, db, h => by
    cases b with
    | set ys =>
      simp only [diffV] at h
      simp only [domE] at da db
      simpa [pyEq] using diffSet_nil hashOf S hS steps xs ys da.1 db.1 da.2 db.2 h
    | _ => all_goals simp [diffV] at h
  | .frozenset xs, b, steps, da, db, h => by
    cases b with
    | frozenset ys =>
      simp only [diffV] at h
      simp only [domE] at da db
      simpa [pyEq] using diffSet_nil hashOf S hS steps xs ys da.1 db.1 da.2 db.2 h
    | _ => all_goals simp [diffV] at h
  | .none, b, steps, _, _, h => by
    simp only [diffV] at h
    split at h
    · simp at h
    · rename_i ht
      exact leafDiff_nil steps _ b rfl (by simpa using ht) h
  | .bool _, b, steps, _, _, h => by
    simp only [diffV] at h
    split at h
    · simp at h
    · rename_i ht
      exact leafDiff_nil steps _ b rfl (by simpa using ht) h
  | .int _, b, steps, _, _, h => by
    simp only [diffV] at h
    split at h
    · simp at h
    · rename_i ht
      exact leafDiff_nil steps _ b rfl (by simpa using ht) h
  | .float _ _, b, steps, _, _, h => by
    simp only [diffV] at h
    split at h
    · simp at h
    · rename_i ht
      exact leafDiff_nil steps _ b rfl (by simpa using ht) h
  | .str _, b, steps, _, _, h => by
    simp only [diffV] at h
    split at h
    · simp at h
    · rename_i ht
      exact leafDiff_nil steps _ b rfl (by simpa using ht) h
  | .bytes _, b, steps, _, _, h => by
    simp only [diffV] at h
    split at h
    · simp at h
    · rename_i ht
      exact leafDiff_nil steps _ b rfl (by simpa using ht) h
theorem conv_P {cfg : DCfg} (hp : Plain cfg) (al : Align) (hal : AlignSound al) (hashOf : PyVal → String) (K S : List PyVal)
    (hK : StrictKeys K) (hpriv : ∀ k ∈ K, (cfg.ignorePrivate && isPrivate k) = false)
    (hS : ∀ x ∈ S, hashable x = true ∧ ∀ y ∈ S, hashOf x = hashOf y → x = y) :
    ∀ (kvs : List (PyVal × PyVal)) (p : PyVal × PyVal), p ∈ kvs → ∀ (y : PyVal) (st : List Step), domE K S p.2 → domE K S y →
      (diffV cfg al hashOf st p.2 y).tree = [] → pyEq p.2 y = true
  | (_, v) :: _, _, .head _, y, st, d1, d2, h => conv_V hp al hal hashOf K S hK hpriv hS v y st d1 d2 h
  | _ :: rest, p, .tail _ hm, y, st, d1, d2, h => conv_P hp al hal hashOf K S hK hpriv hS rest p hm y st d1 d2 h
theorem conv_L {cfg : DCfg} (hp : Plain cfg) (al : Align) (hal : AlignSound al) (hashOf : PyVal → String) (K S : List PyVal)
    (hK : StrictKeys K) (hpriv : ∀ k ∈ K, (cfg.ignorePrivate && isPrivate k) = false)
    (hS : ∀ x ∈ S, hashable x = true ∧ ∀ y ∈ S, hashOf x = hashOf y → x = y) :
    ∀ (xs ys : List PyVal) (steps : List Step) (i : Nat), domEL K S xs → domEL K S ys →
      (diffPairs cfg al hashOf steps i xs ys).tree = [] → pyEqL xs ys = true
  | [], [], _, _, _, _, _ => rfl
  | _ :: _, [], _, _, _, _, h => by simp [diffPairs, Result.append_def] at h
  | [], _ :: _, _, _, _, _, h => by simp [diffPairs] at h
  | x :: xs, y :: ys, steps, i, dx, dy, h => by
    simp only [domEL] at dx dy
    simp only [diffPairs, skipSteps_plain hp, Bool.false_eq_true, if_false, Result.append_def, List.append_eq_nil_iff] at h
    simp only [pyEqL, Bool.and_eq_true]
    exact ⟨conv_V hp al hal hashOf K S hK hpriv hS x y _ dx.1 dy.1 h.1,
           conv_L hp al hal hashOf K S hK hpriv hS xs ys steps (i + 1) dx.2 dy.2 h.2⟩
end

end Diff
