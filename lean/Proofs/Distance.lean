import Model.Distance.Numbers
import Mathlib.Tactic.Linarith
import Mathlib.Tactic.Positivity
import Mathlib.Algebra.Order.Field.Basic
import Mathlib.Algebra.Order.Field.Rat
/-! Helper lemmas for C19 (numeric distance). -/
namespace Dist

theorem absR_nonneg (x : Rat) : 0 ≤ absR x := by
  unfold absR; split <;> linarith

theorem absR_pos {x : Rat} (h : x ≠ 0) : 0 < absR x := by
  unfold absR
  split
  · linarith
  · rename_i hx
    push_neg at hx
    exact lt_of_le_of_ne hx (Ne.symm h)

theorem minR_le_left (x y : Rat) : minR x y ≤ x := by
  unfold minR; split <;> linarith

theorem minR_pos {x y : Rat} (hx : 0 < x) (hy : 0 < y) : 0 < minR x y := by
  unfold minR; split <;> assumption

theorem numDist_range (a b mx : Rat) (hmx : 0 < mx) : 0 ≤ numDist a b mx ∧ numDist a b mx ≤ mx := by
  unfold numDist
  have hne : mx ≠ 0 := ne_of_gt hmx
  split
  · exact ⟨le_refl _, le_of_lt hmx⟩
  · simp only [hne, if_false]
    split
    · exact ⟨le_of_lt hmx, le_refl _⟩
    · refine ⟨?_, minR_le_left _ _⟩
      unfold minR; split
      · exact le_of_lt hmx
      · exact absR_nonneg _

theorem numDist_zero_iff (a b mx : Rat) (hmx : 0 < mx) : numDist a b mx = 0 ↔ a = b := by
  constructor
  · intro h
    by_contra hab
    unfold numDist at h
    have hne : mx ≠ 0 := ne_of_gt hmx
    simp only [hab, hne, ↓reduceIte] at h
    split at h
    · linarith
    · rename_i hdiv
      have hsub : a - b ≠ 0 := sub_ne_zero.mpr hab
      have hq : (a - b) / ((a + b) / mx) ≠ 0 := div_ne_zero hsub hdiv
      have := minR_pos hmx (absR_pos hq)
      linarith
  · intro h; simp [numDist, h]

end Dist
