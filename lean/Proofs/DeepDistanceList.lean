import Proofs.DeepDistance
/-!
deep_distance of two lists of scalars compared position by position: numerator ≤ denominator + number of type changes.
-/
namespace Dist
open Py Diff Delta

theorem itemLen_basic_le_one (v : PyVal) (h : isBasic v = true) : itemLen v ≤ 1 := by
  cases v <;> simp [isBasic] at h <;> simp [itemLen]

theorem roughLen_basic (ip : Bool) (v : PyVal) (h : isBasic v = true) : roughLen ip v = 1 := by
  cases v <;> simp [isBasic] at h <;> simp [roughLen]

theorem roughLenL_basic (ip : Bool) : ∀ xs : List PyVal, (∀ x ∈ xs, isBasic x = true) → roughLenL ip xs = xs.length
  | [], _ => rfl
  | x :: xs, h => by
    simp only [roughLenL, List.length_cons, roughLen_basic ip x (h x (List.mem_cons_self ..)),
      roughLenL_basic ip xs (fun y hy => h y (List.mem_cons_of_mem _ hy))]
    omega

theorem sumBy_remsFrom (xs : List PyVal) (hb : ∀ x ∈ xs, isBasic x = true) : ∀ n, sumBy (fun e => itemLen e.2) (remsFrom n xs) ≤ xs.length := by
  induction xs with
  | nil => intro n; simp [remsFrom, sumBy]
  | cons x xs ih =>
    intro n
    have h1 := itemLen_basic_le_one x (hb x (List.mem_cons_self ..))
    have h2 := ih (fun y hy => hb y (List.mem_cons_of_mem _ hy)) (n + 1)
    simp only [remsFrom, sumBy, List.length_cons]; omega

theorem sumBy_addsFrom (ys : List PyVal) (hb : ∀ y ∈ ys, isBasic y = true) : ∀ n, sumBy (fun e => itemLen e.2) (addsFrom n ys) ≤ ys.length := by
  induction ys with
  | nil => intro n; simp [addsFrom, sumBy]
  | cons y ys ih =>
    intro n
    have h1 := itemLen_basic_le_one y (hb y (List.mem_cons_self ..))
    have h2 := ih (fun z hz => hb z (List.mem_cons_of_mem _ hz)) (n + 1)
    simp only [addsFrom, sumBy, List.length_cons]; omega

/-- two predicates that never hold together select at most the whole list -/
theorem filter_disjoint_length {α} (p q : α → Bool) (xs : List α) (h : ∀ x ∈ xs, ¬(p x = true ∧ q x = true)) :
    (xs.filter p).length + (xs.filter q).length ≤ xs.length := by
  induction xs with
  | nil => simp
  | cons x xs ih =>
    have := ih (fun y hy => h y (List.mem_cons_of_mem _ hy))
    have hx := h x (List.mem_cons_self ..)
    cases hp : p x <;> cases hq : q x <;> simp_all <;> omega

theorem sumBy_le_mul {α} (f : α → Nat) (c : Nat) (xs : List α) (h : ∀ x ∈ xs, f x ≤ c) : sumBy f xs ≤ c * xs.length := by
  induction xs with
  | nil => simp [sumBy]
  | cons x xs ih =>
    have := h x (List.mem_cons_self ..); have := ih (fun y hy => h y (List.mem_cons_of_mem _ hy))
    simp only [sumBy, List.length_cons, Nat.mul_succ]; omega

/-- **lists of scalars, position by position**: numerator ≤ denominator + number of type changes -/
theorem list_deep_distance (cfg : DCfg) (hp : Diff.Plain cfg) (hz : cfg.zip = true) (al : Align) (hashOf : PyVal → String)
    (xs ys : List PyVal) (hbx : ∀ x ∈ xs, isBasic x = true) (hby : ∀ y ∈ ys, isBasic y = true) :
    (deepDistance cfg al hashOf (.list xs) (.list ys)).1 ≤ (deepDistance cfg al hashOf (.list xs) (.list ys)).2 +
        (buildDelta true false (.list xs) (.list ys) (deepDiff cfg al hashOf (.list xs) (.list ys))).typeChanges.length ∧
    (deepDistance cfg al hashOf (.list xs) (.list ys)).2 = xs.length + ys.length + 2 := by
  have hdd := list_deepDiff_of_tree cfg hp al hashOf xs ys (list_diffV_zip cfg hp hz al hashOf xs ys hbx)
  obtain ⟨hV, hT, hR, hA⟩ := list_payload true false (.list xs) (.list ys) xs ys
  obtain ⟨e1, e2, _, e4, e5⟩ := build_empty_list true false (.list xs) (.list ys) (listT 0 xs ys) (listT_cats xs ys 0)
  have e3 : (buildDelta true false (.list xs) (.list ys) ⟨listT 0 xs ys, []⟩).iterMoved = [] := by
    have hf : (listT 0 xs ys).filter (fun e => e.1 == Cat.iterMoved) = [] := by
      rw [List.filter_eq_nil_iff]
      intro e he
      rcases listT_cats xs ys 0 e he with h' | h' | h' | h' <;> rw [h'] <;> decide
    simp [buildDelta, hf]
  have hdu := list_diffUnmerged_of_tree cfg hp al hashOf xs ys (list_diffV_zip cfg hp hz al hashOf xs ys hbx)
  unfold deepDistance
  rw [hdd, hdu]
  unfold payloadLen
  rw [hV, hT, hR, hA, e1, e2, e3, e4, e5]
  simp only [sumBy, Nat.add_zero, List.length_map, roughLen, roughLenL_basic _ xs hbx, roughLenL_basic _ ys hby]
  have hmx : min xs.length ys.length ≤ xs.length := Nat.min_le_left ..
  have hmy : min xs.length ys.length ≤ ys.length := Nat.min_le_right ..
  generalize min xs.length ys.length = m at hmx hmy ⊢
  -- the two kinds of changed positions are disjoint
  have hdis : ((List.range m).filter (pVi true xs ys)).length + ((List.range m).filter (pTi true false xs ys)).length ≤ m := by
    have := filter_disjoint_length (pVi true xs ys) (pTi true false xs ys) (List.range m) (by
      intro k _ ⟨h1, h2⟩
      rcases list_cls true false k (xs[k]?.getD .none) (ys[k]?.getD .none) with ⟨_, _, h⟩ | ⟨h, _, _⟩ | ⟨_, h, _⟩
      · simp [pVi, h] at h1
      · simp [pTi, h] at h2
      · simp [pTi, h] at h2)
    simpa using this
  have hvc : sumBy (changeLen false) (((List.range m).filter (pVi true xs ys)).map
      (fun (k : Nat) => vcChange true (.int k) (xs[k]?.getD .none) (ys[k]?.getD .none))) ≤ 1 * ((List.range m).filter (pVi true xs ys)).length := by
    rw [sumBy_map]
    apply sumBy_le_mul
    intro k hk
    have hk' : k < m := by simpa using (List.mem_filter.1 hk).1
    have hy : k < ys.length := by omega
    have : isBasic (ys[k]?.getD .none) = true := by
      rw [List.getElem?_eq_getElem hy]; exact hby _ (List.getElem_mem hy)
    have := itemLen_basic_le_one _ this
    simp only [changeLen, vcChange, optLen, if_true, Bool.false_eq_true, if_false]
    omega
  have htc : sumBy (changeLen true) (((List.range m).filter (pTi true false xs ys)).map
      (fun (k : Nat) => tcChange true false (.int k) (xs[k]?.getD .none) (ys[k]?.getD .none))) ≤ 3 * ((List.range m).filter (pTi true false xs ys)).length := by
    rw [sumBy_map]
    apply sumBy_le_mul
    intro k hk
    have hk' : k < m := by simpa using (List.mem_filter.1 hk).1
    have hy : k < ys.length := by omega
    have hb : isBasic (ys[k]?.getD .none) = true := by
      rw [List.getElem?_eq_getElem hy]; exact hby _ (List.getElem_mem hy)
    have hb1 := itemLen_basic_le_one _ hb
    have h1 : ∀ c : Bool, optLen (if c = true then some (ys[k]?.getD .none) else Option.none) ≤ itemLen (ys[k]?.getD .none) := by
      intro c; cases c <;> simp [optLen]
    simp only [changeLen, tcChange, if_true]
    exact Nat.add_le_add (b := 2) (d := 1) (by simp [optLen]) (Nat.le_trans (h1 _) hb1)
  have hr := sumBy_remsFrom (xs.drop m) (fun x hx => hbx x (List.mem_of_mem_drop hx)) m
  have ha := sumBy_addsFrom (ys.drop m) (fun y hy => hby y (List.mem_of_mem_drop hy)) m
  simp only [List.length_drop] at hr ha
  refine ⟨?_, by omega⟩
  omega

end Dist
