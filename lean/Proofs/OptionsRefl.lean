import Proofs.Options
import Proofs.Keys
/-!
# Under every option set a value is similar to itself

`sim o a a` for well-formed `a` (dictionary keys and set members hashable and pairwise different):
with `diffV_sim` this is "a copy gives an empty diff under every combination of the options of C11".
The work is in the dictionary case: the table of cleaned keys (`cleanKeys`, first key wins on a collision)
has pairwise different cleaned keys by construction, so looking a cleaned key up in it returns its own entry.
-/
namespace DiffO
open Py Diff

/-! ### identity of keys -/

theorem numEq_refl {x : PyVal} {p : Int × Nat} (h : numOf x = some p) : numEq x x = true := by
  unfold numEq; rw [h]; simp

mutual
theorem keyEq_refl : ∀ (a : PyVal), hashable a = true → keyEq a a = true
  | .none, _ => by simp [keyEq]
  | .bool b, _ => by simp only [keyEq]; exact numEq_refl (p := (if b then 1 else 0, 0)) rfl
  | .int i, _ => by simp only [keyEq]; exact numEq_refl (p := (i, 0)) rfl
  | .float n s, _ => by simp only [keyEq]; exact numEq_refl (p := (n, s)) rfl
  | .str _, _ => by simp [keyEq]
  | .bytes _, _ => by simp [keyEq]
  | .tuple xs, h => by simp only [hashable] at h; simp only [keyEq]; exact keyEqL_refl xs h
  | .list _, h => by simp [hashable] at h
  | .set _, h => by simp [hashable] at h
  | .frozenset _, h => by simp [hashable] at h
  | .dict _, h => by simp [hashable] at h
theorem keyEqL_refl : ∀ (xs : List PyVal), hashableL xs = true → keyEqL xs xs = true
  | [], _ => by simp [keyEqL]
  | x :: xs, h => by
    simp only [hashableL, Bool.and_eq_true] at h
    simp only [keyEqL, Bool.and_eq_true]
    exact ⟨keyEq_refl x h.1, keyEqL_refl xs h.2⟩
end

mutual
theorem keyEq_of_strictEq : ∀ (a b : PyVal), hashable a = true → strictEq a b = true → keyEq a b = true
  | .none, b, _, h => by cases b <;> simp_all [strictEq, keyEq]
  | .bool x, b, _, h => by cases b <;> simp_all [strictEq, keyEq, numEq, numOf]
  | .int x, b, _, h => by cases b <;> simp_all [strictEq, keyEq, numEq, numOf]
  | .float n s, b, _, h => by cases b <;> simp_all [strictEq, keyEq, numEq, numOf]
  | .str x, b, _, h => by cases b <;> simp_all [strictEq, keyEq]
  | .bytes x, b, _, h => by cases b <;> simp_all [strictEq, keyEq]
  | .tuple xs, b, hh, h => by
    cases b <;> simp only [strictEq, Bool.false_eq_true] at h
    simp only [hashable] at hh
    simp only [keyEq]
    exact keyEqL_of_strictEqL xs _ hh h
  | .list _, _, hh, _ => by simp [hashable] at hh
  | .set _, _, hh, _ => by simp [hashable] at hh
  | .frozenset _, _, hh, _ => by simp [hashable] at hh
  | .dict _, _, hh, _ => by simp [hashable] at hh
theorem keyEqL_of_strictEqL : ∀ (xs ys : List PyVal), hashableL xs = true → strictEqL xs ys = true → keyEqL xs ys = true
  | [], [], _, _ => by simp [keyEqL]
  | [], _ :: _, _, h => by simp [strictEqL] at h
  | _ :: _, [], _, h => by simp [strictEqL] at h
  | x :: xs, y :: ys, hh, h => by
    simp only [hashableL, Bool.and_eq_true] at hh
    simp only [strictEqL, Bool.and_eq_true] at h
    simp only [keyEqL, Bool.and_eq_true]
    exact ⟨keyEq_of_strictEq x y hh.1 h.1, keyEqL_of_strictEqL xs ys hh.2 h.2⟩
end

/-! ### the table of cleaned keys -/

theorem hashable_cleanKey (o : OCfg) (k : PyVal) (h : hashable k = true) : hashable (cleanKey o k) = true := by
  unfold cleanKey
  cases k <;> simp only [] <;> (repeat' split) <;> simp_all [hashable]

/-- what `cleanKeys` maintains while it folds over the keys -/
structure CKInv (keys : List PyVal) (acc : List (PyVal × PyVal)) : Prop where
  hash : ∀ p ∈ acc, hashable p.1 = true
  orig : ∀ p ∈ acc, p.2 ∈ keys
  pw : acc.Pairwise (fun p q => keyEq p.1 q.1 = false)

theorem ckInv_fold (o : OCfg) (keys : List PyVal) : ∀ (ks : List PyVal) (acc : List (PyVal × PyVal)),
    (∀ k ∈ ks, k ∈ keys ∧ hashable k = true) → CKInv keys acc →
    CKInv keys (ks.foldl (fun acc k =>
      let c := if cleaning o then cleanKey o k else k
      if acc.any (fun p => keyEq p.1 c) then acc else acc ++ [(c, k)]) acc)
  | [], acc, _, h => h
  | k :: ks, acc, hk, h => by
    simp only [List.foldl_cons]
    apply ckInv_fold o keys ks _ (fun k' hk' => hk k' (List.mem_cons_of_mem _ hk'))
    obtain ⟨hkin, hkh⟩ := hk k (List.mem_cons_self ..)
    have hc : hashable (if cleaning o then cleanKey o k else k) = true := by
      split
      · exact hashable_cleanKey o k hkh
      · exact hkh
    generalize (if cleaning o then cleanKey o k else k) = c at hc
    split
    · exact h
    · rename_i hany
      simp only [List.any_eq_true, not_exists, not_and, Bool.not_eq_true] at hany
      refine ⟨?_, ?_, ?_⟩
      · intro p hp
        rcases List.mem_append.1 hp with hp | hp
        · exact h.hash p hp
        · simp only [List.mem_singleton] at hp; rw [hp]; exact hc
      · intro p hp
        rcases List.mem_append.1 hp with hp | hp
        · exact h.orig p hp
        · simp only [List.mem_singleton] at hp; rw [hp]; exact hkin
      · rw [List.pairwise_append]
        refine ⟨h.pw, List.pairwise_singleton _ _, ?_⟩
        intro a ha b hb
        simp only [List.mem_singleton] at hb
        rw [hb]
        exact hany a ha

theorem cleanKeys_inv (o : OCfg) (kvs : List (PyVal × PyVal)) (hh : (kvs.map (·.1)).all hashable = true) :
    CKInv (kvs.map (·.1)) (cleanKeys o kvs) := by
  unfold cleanKeys
  apply ckInv_fold
  · intro k hk
    have hk' := (List.mem_filter.1 hk).1
    exact ⟨hk', (List.all_eq_true.1 hh) k hk'⟩
  · exact ⟨by simp, by simp, List.Pairwise.nil⟩

/-- in a table with pairwise different (reflexive) first components, looking the first component of an entry up finds that entry -/
theorem find_own (l : List (PyVal × PyVal)) (hpw : l.Pairwise (fun p q => keyEq p.1 q.1 = false)) (p : PyVal × PyVal) (hp : p ∈ l)
    (hr : keyEq p.1 p.1 = true) : l.find? (fun q => keyEq q.1 p.1) = some p := by
  induction l with
  | nil => simp at hp
  | cons q l ih =>
    rw [List.pairwise_cons] at hpw
    by_cases hq : keyEq q.1 p.1 = true
    · rcases List.mem_cons.1 hp with rfl | hp'
      · simp [hr]
      · have := hpw.1 p hp'
        rw [this] at hq; exact absurd hq (by simp)
    · have hq' : keyEq q.1 p.1 = false := by simpa using hq
      rcases List.mem_cons.1 hp with rfl | hp'
      · rw [hr] at hq'; exact absurd hq' (by simp)
      · simp only [List.find?_cons, hq']
        exact ih hpw.2 hp'

/-! ### reflexivity -/

theorem diffSet_self (o : OCfg) (xs : List PyVal) : (diffSet o [] xs xs).isEmpty = true := by
  unfold diffSet Diff.diffSet
  simp
  intro a ha h
  cases hs : skipTypes o (some a) none with
  | true => rfl
  | false => exact absurd rfl (h a ha hs)

theorem isClose_self (a : PyVal) (eps : Int × Nat) (p : Int × Nat) (h : numOf a = some p) : isClose a a eps = true := by
  unfold isClose
  rw [h]
  simp

theorem leafSame_self (o : OCfg) (a : PyVal) (ha : isBasic a = true) : leafSame o a a = true := by
  cases a <;> simp [isBasic] at ha
  · simp [leafSame]
  · rename_i b; simp only [leafSame]; exact numEq_refl (p := (if b then 1 else 0, 0)) rfl
  · rename_i i
    simp only [leafSame, isStrLike, Bool.false_eq_true, if_false, numOf, Option.isSome_some, Bool.and_self, if_true]
    split
    · exact isClose_self _ _ (i, 0) rfl
    · split
      · exact numEq_refl (p := (i, 0)) rfl
      · simp
  · rename_i n s
    simp only [leafSame, isStrLike, Bool.false_eq_true, if_false, numOf, Option.isSome_some, Bool.and_self, if_true]
    split
    · exact isClose_self _ _ (n, s) rfl
    · split
      · exact numEq_refl (p := (n, s)) rfl
      · simp
  · simp [leafSame, isStrLike]
  · simp [leafSame, isStrLike]

theorem sameGroup_self (o : OCfg) (a : PyVal) : sameGroup o a a = true := by simp [sameGroup]

theorem sizeOf_val_lt {k v : PyVal} {kvs : List (PyVal × PyVal)} (h : (k, v) ∈ kvs) : sizeOf v < sizeOf (PyVal.dict kvs) := by
  have h1 := List.sizeOf_lt_of_mem h
  have h2 : sizeOf v < sizeOf (k, v) := by simp; omega
  simp only [PyVal.dict.sizeOf_spec]
  omega

theorem wfP_mem {kvs : List (PyVal × PyVal)} (h : wfP kvs = true) {k v : PyVal} (hm : (k, v) ∈ kvs) : wf v = true := by
  induction kvs with
  | nil => simp at hm
  | cons p rest ih =>
    obtain ⟨k0, v0⟩ := p
    simp only [wfP, Bool.and_eq_true] at h
    rcases List.mem_cons.1 hm with heq | hm'
    · cases heq; exact h.1
    · exact ih h.2 hm'

theorem wfL_mem {xs : List PyVal} (h : wfL xs = true) {x : PyVal} (hm : x ∈ xs) : wf x = true := by
  induction xs with
  | nil => simp at hm
  | cons y ys ih =>
    simp only [wfL, Bool.and_eq_true] at h
    rcases List.mem_cons.1 hm with rfl | hm'
    · exact h.1
    · exact ih h.2 hm'

theorem simL_self (o : OCfg) : ∀ (xs : List PyVal), (∀ x ∈ xs, sim o x x = true) → simL o xs xs = true
  | [], _ => by simp [simL]
  | x :: xs, h => by
    simp only [simL, Bool.and_eq_true]
    exact ⟨h x (List.mem_cons_self ..), simL_self o xs (fun y hy => h y (List.mem_cons_of_mem _ hy))⟩

/-- the values under the keys of a well-formed dictionary are paired with themselves -/
theorem simKVs_self (o : OCfg) (kvs : List (PyVal × PyVal)) (hh : (kvs.map (·.1)).all hashable = true)
    (hd : distinctKeys (kvs.map (·.1)) = true) (hv : ∀ p ∈ kvs, sim o p.2 p.2 = true) :
    ∀ (rest : List (PyVal × PyVal)), (∀ p ∈ rest, p ∈ kvs) → simKVs o rest kvs (cleanKeys o kvs) (cleanKeys o kvs) = true
  | [], _ => by simp [simKVs]
  | (k1, v1) :: rest, hsub => by
    have inv := cleanKeys_inv o kvs hh
    simp only [simKVs, Bool.and_eq_true]
    refine ⟨?_, simKVs_self o kvs hh hd hv rest (fun p hp => hsub p (List.mem_cons_of_mem _ hp))⟩
    split
    · rename_i c k hf1
      have hmem : (c, k) ∈ cleanKeys o kvs := List.mem_of_find?_eq_some hf1
      have hse : strictEq k k1 = true := by simpa using List.find?_some hf1
      have hown := find_own _ inv.pw (c, k) hmem (keyEq_refl c (inv.hash _ hmem))
      simp only [] at hown
      rw [hown]
      simp only []
      have hkin : k ∈ kvs.map (·.1) := inv.orig _ hmem
      have hkh : hashable k = true := (List.all_eq_true.1 hh) k hkin
      have hk1 : (k1, v1) ∈ kvs := hsub _ (List.mem_cons_self ..)
      have hke : keyEq k1 k = true := keyEq_symm k k1 (keyEq_of_strictEq k k1 hkh hse)
      rw [dictGet_of_keyEq kvs k1 v1 k hd hk1 hke]
      exact hv (k1, v1) hk1
    · rfl

theorem sim_refl_aux (o : OCfg) : ∀ (n : Nat) (a : PyVal), sizeOf a ≤ n → wf a = true → sim o a a = true
  | 0, a, hn, _ => by cases a <;> simp at hn <;> omega
  | n + 1, a, hn, hw => by
    cases a with
    | none => exact sim_of_leafSame o rfl (sameGroup_self o _) (leafSame_self o _ rfl)
    | bool b => exact sim_of_leafSame o rfl (sameGroup_self o _) (leafSame_self o _ rfl)
    | int i => exact sim_of_leafSame o rfl (sameGroup_self o _) (leafSame_self o _ rfl)
    | float m s => exact sim_of_leafSame o rfl (sameGroup_self o _) (leafSame_self o _ rfl)
    | str s => exact sim_of_leafSame o rfl (sameGroup_self o _) (leafSame_self o _ rfl)
    | bytes s => exact sim_of_leafSame o rfl (sameGroup_self o _) (leafSame_self o _ rfl)
    | list xs =>
      simp only [wf] at hw
      have : simL o xs xs = true := simL_self o xs (fun x hx => sim_refl_aux o n x (by
        have := List.sizeOf_lt_of_mem hx; simp only [PyVal.list.sizeOf_spec] at hn; omega) (wfL_mem hw hx))
      unfold sim; simp [this]
    | tuple xs =>
      simp only [wf] at hw
      have : simL o xs xs = true := simL_self o xs (fun x hx => sim_refl_aux o n x (by
        have := List.sizeOf_lt_of_mem hx; simp only [PyVal.tuple.sizeOf_spec] at hn; omega) (wfL_mem hw hx))
      unfold sim; simp [this]
    | set xs => unfold sim; simp [diffSet_self o xs]
    | frozenset xs => unfold sim; simp [diffSet_self o xs]
    | dict kvs =>
      simp only [wf, Bool.and_eq_true] at hw
      obtain ⟨⟨hh, hd⟩, hp⟩ := hw
      have inv := cleanKeys_inv o kvs hh
      have hv : ∀ p ∈ kvs, sim o p.2 p.2 = true := by
        intro p hp'
        obtain ⟨k, v⟩ := p
        exact sim_refl_aux o n v (by have := sizeOf_val_lt hp'; omega) (wfP_mem hp hp')
      have hkv := simKVs_self o kvs hh hd hv kvs (fun p hp => hp)
      have hall : (cleanKeys o kvs).all (fun k => (cleanKeys o kvs).any (fun k' => keyEq k'.1 k.1)) = true := by
        rw [List.all_eq_true]
        intro p hp'
        rw [List.any_eq_true]
        exact ⟨p, hp', keyEq_refl p.1 (inv.hash p hp')⟩
      unfold sim
      simp [hall, hkv]

/-- **every well-formed value is similar to itself**, under every option set -/
theorem sim_refl (o : OCfg) (a : PyVal) (hw : wf a = true) : sim o a a = true :=
  sim_refl_aux o (sizeOf a) a (Nat.le_refl _) hw

end DiffO
