import Proofs.DeepDistance
/-!
Positivity of deep_distance on nested dictionaries: when every value that can be added, removed or put in place of another one
has a countable leaf (no `None`, no empty dictionary, no key that `_get_item_length` skips), a non-empty diff has a positive
numerator -- the clause the findings F17a-c refute outside this domain.
-/
namespace Dist
open Py Diff Delta

/-- values every part of which `_get_item_length` counts -/
inductive AllPos : PyVal → Prop
  | leaf {v : PyVal} : isBasic v = true → v ≠ .none → AllPos v
  | dict {kvs : List (PyVal × PyVal)} : kvs ≠ [] → (∀ p ∈ kvs, internalKey p.1 = false) → (∀ p ∈ kvs, AllPos p.2) → AllPos (.dict kvs)

theorem itemLen_pos_of_allPos : ∀ {v : PyVal}, AllPos v → 0 < itemLen v := by
  intro v h
  induction h with
  | @leaf v hb hn =>
    cases v <;> simp [isBasic] at hb <;> simp_all [itemLen]
  | @dict kvs hne hk _ ih =>
    cases kvs with
    | nil => exact absurd rfl hne
    | cons p rest =>
      obtain ⟨k, v⟩ := p
      have h1 := hk (k, v) (List.mem_cons_self ..)
      have h2 := ih (k, v) (List.mem_cons_self ..)
      simp only at h1 h2
      simp only [itemLen, itemLenKV, h1, Bool.false_eq_true, if_false]
      omega

theorem allPos_dict_inv {kvs : List (PyVal × PyVal)} (h : AllPos (.dict kvs)) : ∀ p ∈ kvs, AllPos p.2 := by
  cases h with
  | leaf hb _ => simp [isBasic] at hb
  | dict _ _ hv => exact hv

theorem sumBy_pos {α} (f : α → Nat) (xs : List α) (x : α) (hx : x ∈ xs) (h : 0 < f x) : 0 < sumBy f xs := by
  induction xs with
  | nil => cases hx
  | cons y ys ih =>
    simp only [sumBy]
    rcases List.mem_cons.1 hx with rfl | hy
    · omega
    · have := ih hy; omega

theorem allPos_valAt {kvs : List (PyVal × PyVal)} (hs : StrKeys kvs) (hn : (kvs.map (·.1)).Nodup) (h : AllPos (.dict kvs)) (k : PyVal)
    (hk : k ∈ kvs.map (·.1)) : AllPos (valAt kvs k) :=
  allPos_dict_inv h _ (valAt_mem kvs hs hn k hk)

/-- the level in terms of the children (the decomposition used by `J_deep_bound`, as a statement of its own) -/
theorem treeLen_dict {cfg : DCfg} (hp : Diff.Plain cfg) (al : Align) (hashOf : PyVal → String)
    (kvs1 kvs2 : List (PyVal × PyVal)) (j1 : J cfg.ignorePrivate (.dict kvs1)) (j2 : J cfg.ignorePrivate (.dict kvs2))
    (hthr : belowThreshold cfg (interK kvs1 kvs2).length ((kvs2.map (·.1)) ++ removedK kvs1 kvs2).length = false) :
    treeLen (diffV cfg al hashOf [] (.dict kvs1) (.dict kvs2)).tree =
      sumBy (fun k => treeLen (diffV cfg al hashOf [] (valAt kvs1 k) (valAt kvs2 k)).tree) (interK kvs1 kvs2) +
      sumBy (fun k => itemLen (valAt kvs2 k)) (addedK kvs1 kvs2) + sumBy (fun k => itemLen (valAt kvs1 k)) (removedK kvs1 kvs2) := by
  obtain ⟨hvc, htc, hda, hdr⟩ := dict_payload hp al hashOf true false kvs1 kvs2 j1 j2 hthr
  unfold treeLen
  rw [hvc, htc, hda, hdr]
  simp only [sumBy_flatMap, sumBy_map, sumBy_append, changeLen_consC', consP, sumBy_add]
  omega

/-- the tree of a level is empty only if no key was added or removed and every child's tree is empty -/
theorem tree_dict_nil {cfg : DCfg} (hp : Diff.Plain cfg) (al : Align) (hashOf : PyVal → String)
    (kvs1 kvs2 : List (PyVal × PyVal)) (j1 : J cfg.ignorePrivate (.dict kvs1)) (j2 : J cfg.ignorePrivate (.dict kvs2))
    (hthr : belowThreshold cfg (interK kvs1 kvs2).length ((kvs2.map (·.1)) ++ removedK kvs1 kvs2).length = false)
    (hne : (diffV cfg al hashOf [] (.dict kvs1) (.dict kvs2)).tree ≠ []) :
    addedK kvs1 kvs2 ≠ [] ∨ removedK kvs1 kvs2 ≠ [] ∨ ∃ k ∈ interK kvs1 kvs2, (diffV cfg al hashOf [] (valAt kvs1 k) (valAt kvs2 k)).tree ≠ [] := by
  obtain ⟨hs1, hn1, hp1, hv1⟩ := J_dict_inv j1
  obtain ⟨hs2, hn2, hp2, hv2⟩ := J_dict_inv j2
  have hpriv : ∀ k, k ∈ kvs1.map (·.1) ∨ k ∈ kvs2.map (·.1) → (cfg.ignorePrivate && isPrivate k) = false := by
    intro k hk
    rcases hk with hk | hk <;> obtain ⟨p, hpm, rfl⟩ := List.mem_map.1 hk
    · exact hp1 p hpm
    · exact hp2 p hpm
  rw [dict_tree hp al hashOf [] kvs1 kvs2 hs1 hs2 hn1 hn2 hpriv hthr] at hne
  by_cases ha : addedK kvs1 kvs2 = []
  · by_cases hr : removedK kvs1 kvs2 = []
    · refine Or.inr (Or.inr ?_)
      rw [ha, hr] at hne
      simp only [List.map_nil, List.nil_append, ne_eq, List.flatMap_eq_nil_iff] at hne
      obtain ⟨k, hk⟩ := Classical.not_forall.1 hne
      obtain ⟨hkm, hkne⟩ := Classical.not_imp.1 hk
      refine ⟨k, hkm, fun hnil => hkne ?_⟩
      have := (J_diff hp al hashOf (sizeOf (valAt kvs1 k)) (valAt kvs1 k) (valAt kvs2 k) (Nat.le_refl _)
        (J_of_valAt kvs1 j1 k) (J_of_valAt kvs2 j2 k)).2 [dstep k] []
      simp only [dstep, List.append_nil] at this
      rw [this, hnil]; rfl
    · exact Or.inr (Or.inl hr)
  · exact Or.inl ha

/-- **a non-empty diff of two nested dictionaries whose parts are all countable has a positive numerator** -/
theorem J_deep_pos {cfg : DCfg} (hp : Diff.Plain cfg) (al : Align) (hashOf : PyVal → String) :
    ∀ (n : Nat) (a b : PyVal), sizeOf a ≤ n → J cfg.ignorePrivate a → J cfg.ignorePrivate b → AllPos a → AllPos b →
      (diffV cfg al hashOf [] a b).tree ≠ [] → 0 < treeLen (diffV cfg al hashOf [] a b).tree := by
  intro n
  induction n with
  | zero => intro a b h; have := sizeOf_pos a; omega
  | succ n ih =>
    intro a b hsz ja jb pa pb hne
    rcases J_tree_small hp al hashOf a b ja jb with ⟨kvs1, kvs2, rfl, rfl, hthr⟩ | ⟨h, _⟩ | ⟨ud, h⟩ | h
    · obtain ⟨hs1, hn1, hp1, hv1⟩ := J_dict_inv ja
      obtain ⟨hs2, hn2, hp2, hv2⟩ := J_dict_inv jb
      have hfk := flatKeys kvs1 kvs2 hs1 hs2 hn1 hn2
      rw [treeLen_dict hp al hashOf kvs1 kvs2 ja jb hthr]
      rcases tree_dict_nil hp al hashOf kvs1 kvs2 ja jb hthr hne with ha | hr | ⟨k, hk, hkne⟩
      · obtain ⟨k, hk⟩ := List.exists_mem_of_ne_nil _ ha
        have := sumBy_pos (fun k => itemLen (valAt kvs2 k)) _ k hk
          (itemLen_pos_of_allPos (allPos_valAt hs2 hn2 pb k ((hfk.mem_added k).1 hk).1))
        omega
      · obtain ⟨k, hk⟩ := List.exists_mem_of_ne_nil _ hr
        have := sumBy_pos (fun k => itemLen (valAt kvs1 k)) _ k hk
          (itemLen_pos_of_allPos (allPos_valAt hs1 hn1 pa k ((hfk.mem_removed k).1 hk).1))
        omega
      · have hmem := (hfk.mem_inter k).1 hk
        have hchild := ih (valAt kvs1 k) (valAt kvs2 k)
          (by have := valAt_size kvs1 hs1 hn1 k hmem.1; omega)
          (J_of_valAt kvs1 ja k) (J_of_valAt kvs2 jb k) (allPos_valAt hs1 hn1 pa k hmem.1) (allPos_valAt hs2 hn2 pb k hmem.2) hkne
        have := sumBy_pos (fun k => treeLen (diffV cfg al hashOf [] (valAt kvs1 k) (valAt kvs2 k)).tree) _ k hk hchild
        omega
    · exact absurd h hne
    · rw [h]
      have hb := itemLen_pos_of_allPos pb
      simp [treeLen, catMap, sumBy, vcF, sidePath, changeLen, optLen]
      omega
    · rw [h]
      simp [treeLen, catMap, sumBy, tcF, sidePath, changeLen]
      omega

end Dist
