import Model.Hash.Memo
/-!
Transparency of DeepHash's memo table: with a table that only holds right answers, on a universe in
which two keys the table identifies hash equally (NoNumAlias), hashing through the table gives the
hash computed from scratch — for every table history, value, size and nesting.
-/
namespace Hash
open Py

/-- every entry of the table is the hash of its key -/
def Coherent (cfg : HCfg) (H : String → String) (T : Table) : Prop := ∀ p ∈ T, p.2 = hashV cfg H p.1

/-- on `U`, keys the table identifies hash equally -/
def NoAlias (cfg : HCfg) (H : String → String) (U : PyVal → Prop) : Prop :=
  ∀ x y, U x → U y → tblEq x y = true → hashV cfg H x = hashV cfg H y

/-- `U` contains the children (items, members, keys and values) of its members -/
structure ClosedU (U : PyVal → Prop) : Prop where
  list : ∀ xs, U (.list xs) → ∀ x ∈ xs, U x
  tuple : ∀ xs, U (.tuple xs) → ∀ x ∈ xs, U x
  set : ∀ xs, U (.set xs) → ∀ x ∈ xs, U x
  frozenset : ∀ xs, U (.frozenset xs) → ∀ x ∈ xs, U x
  dictK : ∀ kvs, U (.dict kvs) → ∀ p ∈ kvs, U p.1
  dictV : ∀ kvs, U (.dict kvs) → ∀ p ∈ kvs, U p.2

/-- the invariant of the table -/
def Inv (cfg : HCfg) (H : String → String) (U : PyVal → Prop) (T : Table) : Prop := Coherent cfg H T ∧ ∀ p ∈ T, U p.1

theorem lookup_sound {cfg : HCfg} {H : String → String} {U : PyVal → Prop} (hna : NoAlias cfg H U) {T : Table}
    (hT : Inv cfg H U T) {v : PyVal} (hv : U v) {r : String × Nat} (h : lookup T v = some r) : r = hashV cfg H v := by
  unfold lookup at h
  cases hf : T.find? (fun p => tblEq p.1 v) with
  | none => rw [hf] at h; cases h
  | some p =>
    rw [hf] at h
    simp only [Option.map_some, Option.some.injEq] at h
    have hm := List.mem_of_find?_eq_some hf
    have he : tblEq p.1 v = true := by have := List.find?_some hf; simpa using this
    rw [← h, hT.1 p hm]
    exact hna p.1 v (hT.2 p hm) hv he

theorem inv_store {cfg : HCfg} {H : String → String} {U : PyVal → Prop} {T : Table} (hT : Inv cfg H U T) {v : PyVal} (hv : U v) :
    Inv cfg H U (T ++ [(v, hashV cfg H v)]) := by
  constructor
  · intro p hp
    rcases List.mem_append.1 hp with h | h
    · exact hT.1 p h
    · simp only [List.mem_singleton] at h; subst h; rfl
  · intro p hp
    rcases List.mem_append.1 hp with h | h
    · exact hT.2 p h
    · simp only [List.mem_singleton] at h; subst h; exact hv

/-- a memoised leaf -/
theorem memoize_leaf {cfg : HCfg} {H : String → String} {U : PyVal → Prop} (hna : NoAlias cfg H U) {T : Table}
    (hT : Inv cfg H U T) {v : PyVal} (hv : U v) :
    (memoize T v (fun T => (hashV cfg H v, T))).1 = hashV cfg H v ∧ Inv cfg H U (memoize T v (fun T => (hashV cfg H v, T))).2 := by
  unfold memoize
  split
  · cases hl : lookup T v with
    | none => exact ⟨(by first | rfl | trivial), inv_store hT hv⟩
    | some r => exact ⟨lookup_sound hna hT hv hl, hT⟩
  · exact ⟨(by first | rfl | trivial), hT⟩

theorem hashV_list_eq (cfg : HCfg) (H : String → String) (tag : String) (xs : List PyVal) :
    (finish cfg H false (prepIterable cfg tag (hashL cfg H xs).1), (hashL cfg H xs).2 + 1) =
    ((finish cfg H false (prepIterable cfg tag (hashL cfg H xs).1), (hashL cfg H xs).2 + 1) : String × Nat) := rfl

mutual
/-- **the memo table is transparent** -/
theorem memo_V {cfg : HCfg} {H : String → String} {U : PyVal → Prop} (hU : ClosedU U) (hna : NoAlias cfg H U) :
    ∀ (v : PyVal) (T : Table), Inv cfg H U T → U v →
      (hashM cfg H T v).1 = hashV cfg H v ∧ Inv cfg H U (hashM cfg H T v).2
  | .none, T, hT, hv => by simp only [hashM]; exact memoize_leaf hna hT hv
  | .bool b, T, hT, hv => by simp only [hashM]; exact memoize_leaf hna hT hv
  | .int i, T, hT, hv => by simp only [hashM]; exact memoize_leaf hna hT hv
  | .float n s, T, hT, hv => by simp only [hashM]; exact memoize_leaf hna hT hv
  | .str s, T, hT, hv => by simp only [hashM]; exact memoize_leaf hna hT hv
  | .bytes s, T, hT, hv => by simp only [hashM]; exact memoize_leaf hna hT hv
  | .list xs, T, hT, hv => by
    obtain ⟨h1, h2⟩ := memo_L hU hna xs T hT (hU.list xs hv)
    simp only [hashM, hashV, h1]
    exact ⟨(by first | rfl | trivial), h2⟩
  | .set xs, T, hT, hv => by
    obtain ⟨h1, h2⟩ := memo_L hU hna xs T hT (hU.set xs hv)
    simp only [hashM, hashV, h1]
    exact ⟨(by first | rfl | trivial), h2⟩
  | .tuple xs, T, hT, hv => by
    obtain ⟨h1, h2⟩ := memo_L hU hna xs T hT (hU.tuple xs hv)
    have hval : hashV cfg H (.tuple xs) = (finish cfg H false (prepIterable cfg "tuple" (hashL cfg H xs).1), (hashL cfg H xs).2 + 1) := by
      simp only [hashV]
    simp only [hashM]
    split
    · cases hl : lookup T (.tuple xs) with
      | some r => exact ⟨lookup_sound hna hT hv hl, hT⟩
      | none =>
        simp only [h1]
        rw [← hval]
        exact ⟨(by first | rfl | trivial), inv_store h2 hv⟩
    · simp only [h1]
      rw [← hval]
      exact ⟨(by first | rfl | trivial), h2⟩
  | .frozenset xs, T, hT, hv => by
    obtain ⟨h1, h2⟩ := memo_L hU hna xs T hT (hU.frozenset xs hv)
    have hval : hashV cfg H (.frozenset xs) = (finish cfg H false (prepIterable cfg "frozenset" (hashL cfg H xs).1), (hashL cfg H xs).2 + 1) := by
      simp only [hashV]
    simp only [hashM]
    split
    · cases hl : lookup T (.frozenset xs) with
      | some r => exact ⟨lookup_sound hna hT hv hl, hT⟩
      | none =>
        simp only [h1]
        rw [← hval]
        exact ⟨(by first | rfl | trivial), inv_store h2 hv⟩
    · simp only [h1]
      rw [← hval]
      exact ⟨(by first | rfl | trivial), h2⟩
  | .dict kvs, T, hT, hv => by
    obtain ⟨h1, h2⟩ := memo_P hU hna kvs T hT (hU.dictK kvs hv) (hU.dictV kvs hv)
    simp only [hashM, hashV, h1]
    exact ⟨(by first | rfl | trivial), h2⟩
theorem memo_L {cfg : HCfg} {H : String → String} {U : PyVal → Prop} (hU : ClosedU U) (hna : NoAlias cfg H U) :
    ∀ (xs : List PyVal) (T : Table), Inv cfg H U T → (∀ x ∈ xs, U x) →
      (hashML cfg H T xs).1 = hashL cfg H xs ∧ Inv cfg H U (hashML cfg H T xs).2
  | [], T, hT, _ => by simp only [hashML, hashL]; exact ⟨(by first | rfl | trivial), hT⟩
  | x :: xs, T, hT, hx => by
    obtain ⟨h1, h2⟩ := memo_V hU hna x T hT (hx x (List.mem_cons_self ..))
    obtain ⟨h3, h4⟩ := memo_L hU hna xs _ h2 (fun y hy => hx y (List.mem_cons_of_mem _ hy))
    simp only [hashML, hashL, h1, h3]
    exact ⟨(by first | rfl | trivial), h4⟩
theorem memo_P {cfg : HCfg} {H : String → String} {U : PyVal → Prop} (hU : ClosedU U) (hna : NoAlias cfg H U) :
    ∀ (kvs : List (PyVal × PyVal)) (T : Table), Inv cfg H U T → (∀ p ∈ kvs, U p.1) → (∀ p ∈ kvs, U p.2) →
      (hashMP cfg H T kvs).1 = hashP cfg H kvs ∧ Inv cfg H U (hashMP cfg H T kvs).2
  | [], T, hT, _, _ => by simp only [hashMP, hashP]; exact ⟨(by first | rfl | trivial), hT⟩
  | (k, v) :: rest, T, hT, hk, hv => by
    have hk' : ∀ p ∈ rest, U p.1 := fun p hp => hk p (List.mem_cons_of_mem _ hp)
    have hv' : ∀ p ∈ rest, U p.2 := fun p hp => hv p (List.mem_cons_of_mem _ hp)
    simp only [hashMP, hashP]
    split
    · obtain ⟨h3, h4⟩ := memo_P hU hna rest T hT hk' hv'
      simp only [h3]
      exact ⟨(by first | rfl | trivial), h4⟩
    · obtain ⟨h1, h2⟩ := memo_V hU hna k T hT (hk (k, v) (List.mem_cons_self ..))
      obtain ⟨h1', h2'⟩ := memo_V hU hna v _ h2 (hv (k, v) (List.mem_cons_self ..))
      obtain ⟨h3, h4⟩ := memo_P hU hna rest _ h2' hk' hv'
      simp only [h1, h1', h3]
      exact ⟨(by first | rfl | trivial), h4⟩
end

end Hash
