import Proofs.DeltaList
import Model.Delta.Reverse
/-!
The round trip for sets of scalars: `_diff_set` decides membership by the item hashes, `Delta` applies the added members
with a union and the removed ones with a difference (Python's `==` on the members).  Where neither `==` nor the item hash
identifies two different members (`SetDom`: no `1` next to `True`, an injective hash), the result is a set `==` the second.
-/
namespace Delta
open Py Diff

/-- grouping entries that all belong to the root set -/
theorem groupSet_root : ∀ (vs : List PyVal) (acc : List PyVal),
    (vs.map (fun v => (([] : DPath), v))).foldl (fun acc (pv : DPath × PyVal) =>
      if acc.any (fun q => q.1 == pv.1) then acc.map (fun q => if q.1 == pv.1 then (q.1, q.2 ++ [pv.2]) else q)
      else acc ++ [(pv.1, [pv.2])]) [(([] : DPath), acc)] = [(([] : DPath), acc ++ vs)]
  | [], acc => by simp
  | v :: vs, acc => by
    simp only [List.map_cons, List.foldl_cons]
    have h : ((([] : DPath)) == ([] : DPath)) = true := by decide
    simp only [List.any_cons, List.any_nil, h, Bool.or_false, if_true, List.map_cons, List.map_nil]
    rw [groupSet_root vs (acc ++ [v])]
    simp

theorem groupSet_root' (vs : List PyVal) (hne : vs ≠ []) : groupSet (vs.map (fun v => (([] : DPath), v))) = [(([] : DPath), vs)] := by
  cases vs with
  | nil => exact absurd rfl hne
  | cons v vs =>
    unfold groupSet
    simp only [List.map_cons, List.foldl_cons, List.any_nil, Bool.false_eq_true, if_false, List.nil_append]
    have := groupSet_root vs [v]
    simpa using this


theorem length_filter_split {α} (p : α → Bool) : ∀ (l : List α), (l.filter p).length + (l.filter (fun x => !p x)).length = l.length
  | [] => rfl
  | x :: l => by
    have ih := length_filter_split p l
    cases h : p x <;> simp [List.filter_cons, h] <;> omega

/-- no two members are identified by `==` or by the item hash -/
structure SetDom (hashOf : PyVal → String) (xs ys : List PyVal) : Prop where
  nd1 : xs.Nodup
  nd2 : ys.Nodup
  hinj : ∀ a ∈ xs ++ ys, ∀ b ∈ xs ++ ys, hashOf a = hashOf b → a = b
  hkey : ∀ a ∈ xs ++ ys, ∀ b ∈ xs ++ ys, (keyEq a b = true ↔ a = b)

theorem contains_hash_iff {hashOf : PyVal → String} {xs ys : List PyVal} (h : SetDom hashOf xs ys) (l : List PyVal)
    (hl : ∀ a ∈ l, a ∈ xs ++ ys) (y : PyVal) (hy : y ∈ xs ++ ys) : (l.map hashOf).contains (hashOf y) = true ↔ y ∈ l := by
  rw [List.contains_iff_mem, List.mem_map]
  constructor
  · rintro ⟨a, ha, he⟩
    rw [← h.hinj a (hl a ha) y hy he]; exact ha
  · intro hm; exact ⟨y, hm, rfl⟩

theorem any_keyEq_iff {hashOf : PyVal → String} {xs ys : List PyVal} (h : SetDom hashOf xs ys) (l : List PyVal)
    (hl : ∀ a ∈ l, a ∈ xs ++ ys) (y : PyVal) (hy : y ∈ xs ++ ys) : l.any (keyEq y) = true ↔ y ∈ l := by
  rw [List.any_eq_true]
  constructor
  · rintro ⟨a, ha, he⟩
    rw [(h.hkey y hy a (hl a ha)).1 he]; exact ha
  · intro hm; exact ⟨y, hm, (h.hkey y hy y hy).2 rfl⟩

/-- adding members that are all new: appended in order -/
theorem setUnion_new {hashOf : PyVal → String} {xs ys : List PyVal} (h : SetDom hashOf xs ys) :
    ∀ (A acc : List PyVal), (∀ a ∈ A, a ∈ xs ++ ys) → (∀ a ∈ acc, a ∈ xs ++ ys) → A.Nodup → (∀ a ∈ A, a ∉ acc) → setUnion acc A = acc ++ A
  | [], acc, _, _, _, _ => by simp [setUnion]
  | a :: A, acc, hA, hacc, hnd, hdis => by
    rw [List.nodup_cons] at hnd
    have ha := hA a (List.mem_cons_self ..)
    have hnot : acc.any (keyEq a) = false := by
      cases hc : acc.any (keyEq a) with
      | false => rfl
      | true => exact absurd ((any_keyEq_iff h acc hacc a ha).1 hc) (hdis a (List.mem_cons_self ..))
    have step : setUnion acc (a :: A) = setUnion (acc ++ [a]) A := by
      unfold setUnion
      rw [List.foldl_cons, hnot]
      rfl
    rw [step, setUnion_new h A (acc ++ [a]) (fun b hb => hA b (List.mem_cons_of_mem _ hb)) ?_ hnd.2 ?_]
    · simp
    · intro b hb
      rcases List.mem_append.1 hb with hb | hb
      · exact hacc b hb
      · simp at hb; rw [hb]; exact ha
    · intro b hb hm
      rcases List.mem_append.1 hm with hm | hm
      · exact hdis b (List.mem_cons_of_mem _ hb) hm
      · simp at hm; rw [hm] at hb; exact hnd.1 hb


/-- the members added and removed, as `_diff_set` computes them from the item hashes -/
def setAddedL (hashOf : PyVal → String) (xs ys : List PyVal) : List PyVal := ys.filter (fun y => !(xs.map hashOf).contains (hashOf y))
def setRemovedL (hashOf : PyVal → String) (xs ys : List PyVal) : List PyVal := xs.filter (fun x => !(ys.map hashOf).contains (hashOf x))

def fSA (y : PyVal) : Cat × Level := (Cat.setAdded, { steps := [⟨.set, Option.none, Option.none⟩], t1 := Option.none, t2 := some y })
def fSR (x : PyVal) : Cat × Level := (Cat.setRemoved, { steps := [⟨.set, Option.none, Option.none⟩], t1 := some x, t2 := Option.none })

theorem diffSet_root (hashOf : PyVal → String) (xs ys : List PyVal) :
    diffSet hashOf [] xs ys = (setAddedL hashOf xs ys).map fSA ++ (setRemovedL hashOf xs ys).map fSR := rfl

theorem filter_cat_map (c : Cat) (f : PyVal → Cat × Level) (l : List PyVal) (b : Bool) (h : ∀ x, ((f x).1 == c) = b) :
    (l.map f).filter (fun e => e.1 == c) = if b then l.map f else [] := by
  cases b with
  | true => simp only [if_true]; rw [List.filter_eq_self]; intro e he; obtain ⟨x, _, rfl⟩ := List.mem_map.1 he; exact h x
  | false =>
    simp only [Bool.false_eq_true, if_false]; rw [List.filter_eq_nil_iff]; intro e he; obtain ⟨x, _, rfl⟩ := List.mem_map.1 he
    rw [h x]; simp

theorem set_payload (hashOf : PyVal → String) (directed always : Bool) (t1 t2 : PyVal) (xs ys : List PyVal) :
    let d := buildDelta directed always t1 t2 ⟨diffSet hashOf [] xs ys, []⟩
    d.setAdded = (if setAddedL hashOf xs ys = [] then [] else [(([] : DPath), setAddedL hashOf xs ys)]) ∧
    d.setRemoved = (if setRemovedL hashOf xs ys = [] then [] else [(([] : DPath), setRemovedL hashOf xs ys)]) ∧
    d.valuesChanged = [] ∧ d.typeChanges = [] ∧ d.dictAdded = [] ∧ d.dictRemoved = [] ∧ d.iterAdded = [] ∧ d.iterRemoved = [] ∧ d.opcodes = [] := by
  intro d
  have hcat : ∀ c : Cat, (diffSet hashOf [] xs ys).filter (fun e => e.1 == c) =
      (if (Cat.setAdded == c) then (setAddedL hashOf xs ys).map fSA else []) ++ (if (Cat.setRemoved == c) then (setRemovedL hashOf xs ys).map fSR else []) := by
    intro c
    rw [diffSet_root, List.filter_append, filter_cat_map c fSA _ (Cat.setAdded == c) (fun _ => rfl),
      filter_cat_map c fSR _ (Cat.setRemoved == c) (fun _ => rfl)]
  have mapA : ∀ l : List PyVal, (l.map fSA).filterMap (fun e => Option.map (fun p => (p, e.2.t2.getD PyVal.none)) (sidePath e.2.steps.dropLast false)) =
      l.map (fun v => (([] : DPath), v)) := by
    intro l
    induction l with
    | nil => rfl
    | cons a l ih => simp only [List.map_cons, List.filterMap_cons, ih]; rfl
  have mapR : ∀ l : List PyVal, (l.map fSR).filterMap (fun e => Option.map (fun p => (p, e.2.t1.getD PyVal.none)) (sidePath e.2.steps.dropLast false)) =
      l.map (fun v => (([] : DPath), v)) := by
    intro l
    induction l with
    | nil => rfl
    | cons a l ih => simp only [List.map_cons, List.filterMap_cons, ih]; rfl
  refine ⟨?_, ?_, ?_, ?_, ?_, ?_, ?_, ?_, ?_⟩
  · show groupSet (((diffSet hashOf [] xs ys).filter (fun e => e.1 == Cat.setAdded)).filterMap _) = _
    rw [hcat]
    simp only [beq_self_eq_true, if_true, show (Cat.setRemoved == Cat.setAdded) = false from rfl, Bool.false_eq_true, if_false, List.append_nil]
    rw [mapA]
    split
    · rename_i h0; rw [h0]; rfl
    · rename_i h0; exact groupSet_root' _ h0
  · show groupSet (((diffSet hashOf [] xs ys).filter (fun e => e.1 == Cat.setRemoved)).filterMap _) = _
    rw [hcat]
    simp only [beq_self_eq_true, if_true, show (Cat.setAdded == Cat.setRemoved) = false from rfl, Bool.false_eq_true, if_false, List.nil_append]
    rw [mapR]
    split
    · rename_i h0; rw [h0]; rfl
    · rename_i h0; exact groupSet_root' _ h0
  · show ((diffSet hashOf [] xs ys).filter (fun e => e.1 == Cat.valuesChanged)).filterMap _ = []
    rw [hcat]; rfl
  · show ((diffSet hashOf [] xs ys).filter (fun e => e.1 == Cat.typeChanges)).filterMap _ = []
    rw [hcat]; rfl
  · show ((diffSet hashOf [] xs ys).filter (fun e => e.1 == Cat.dictAdded)).filterMap _ = []
    rw [hcat]; rfl
  · show ((diffSet hashOf [] xs ys).filter (fun e => e.1 == Cat.dictRemoved)).filterMap _ = []
    rw [hcat]; rfl
  · show ((diffSet hashOf [] xs ys).filter (fun e => e.1 == Cat.iterAdded)).filterMap _ = []
    rw [hcat]; rfl
  · show ((diffSet hashOf [] xs ys).filter (fun e => e.1 == Cat.iterRemoved)).filterMap _ = []
    rw [hcat]; rfl
  · rfl


theorem foldl_setItems (add : Bool) (st : AState) (xs A : List PyVal) (hr : st.root = .set xs) :
    (if A = [] then [] else [(([] : DPath), A)]).foldl (applySetItems add) st =
      { st with root := .set (if add then setUnion xs A else setDiff xs A) } := by
  split
  · rename_i h0
    subst h0
    cases add
    · have : setDiff xs [] = xs := by simp [setDiff]
      simp [this, ← hr]
    · simp [setUnion, ← hr]
  · simp [applySetItems, getAt, hr]

/-- a payload with set items only, applied to a root set -/
theorem set_apply (bidir : Bool) (d : DeltaD) (xs A R : List PyVal)
    (hA : d.setAdded = (if A = [] then [] else [(([] : DPath), A)])) (hR : d.setRemoved = (if R = [] then [] else [(([] : DPath), R)]))
    (he : d.valuesChanged = [] ∧ d.typeChanges = [] ∧ d.dictAdded = [] ∧ d.dictRemoved = [] ∧ d.iterAdded = [] ∧ d.iterRemoved = [] ∧ d.opcodes = []) :
    applyDelta bidir d (.set xs) = { root := .set (setDiff (setUnion xs A) R) } := by
  obtain ⟨e1, e2, e3, e4, e5, e6, e7⟩ := he
  unfold applyDelta
  simp only [Gen.deltaPhases, List.foldl_cons, List.foldl_nil]
  have p1 : phase bidir d "_do_pre_process" { root := .set xs } = { root := .set xs } := by simp [phase]
  have p2 : phase bidir d "_do_values_changed" { root := .set xs } = { root := .set xs } := by simp [phase, e1]
  rw [p1, p2]
  have p3 : phase bidir d "_do_set_item_added" { root := .set xs } = { root := .set (setUnion xs A) } := by
    have := foldl_setItems true { root := .set xs } xs A rfl
    simp only [if_true] at this
    simp [phase, hA, this]
  rw [p3]
  have p4 : phase bidir d "_do_set_item_removed" { root := .set (setUnion xs A) } = { root := .set (setDiff (setUnion xs A) R) } := by
    have := foldl_setItems false { root := .set (setUnion xs A) } (setUnion xs A) R rfl
    simp only [Bool.false_eq_true, if_false] at this
    simp [phase, hR, this]
  rw [p4]
  generalize hst : ({ root := .set (setDiff (setUnion xs A) R) } : AState) = st
  have hr : st.raised = none := by rw [← hst]
  have hp : st.post = [] := by rw [← hst]
  have q1 : phase bidir d "_do_type_changes" st = st := by simp [phase, hr, e2]
  have q2 : phase bidir d "_do_iterable_opcodes" st = st := by simp [phase, hr, e7]
  have q3 : phase bidir d "_do_iterable_item_removed" st = st := by simp [phase, hr, e6, sortPaths_nil]
  have q4 : phase bidir d "_do_iterable_item_added" st = st := by simp [phase, hr, e5, sortPaths_nil]
  have q5 : phase bidir d "_do_ignore_order" st = st := by unfold phase; split <;> rfl
  have q6 : phase bidir d "_do_dictionary_item_added" st = st := by simp [phase, hr, e3]
  have q7 : phase bidir d "_do_dictionary_item_removed" st = st := by simp [phase, hr, e4, sortPaths_nil]
  have q8 : phase bidir d "_do_attribute_added" st = st := by unfold phase; split <;> rfl
  have q9 : phase bidir d "_do_attribute_removed" st = st := by unfold phase; split <;> rfl
  have q10 : phase bidir d "_do_post_process" st = st := by simp [phase, hr, postProcess, hp]
  rw [q1, q2, q3, q4, q5, q6, q7, q8, q9, q10]


/-- **sets of scalars**: union with the added members, then difference with the removed ones, is a set `==` the second -/
theorem set_result {hashOf : PyVal → String} {xs ys : List PyVal} (h : SetDom hashOf xs ys) :
    pyEq (.set (setDiff (setUnion xs (setAddedL hashOf xs ys)) (setRemovedL hashOf xs ys))) (.set ys) = true := by
  have hxs : ∀ a ∈ xs, a ∈ xs ++ ys := fun a ha => List.mem_append_left _ ha
  have hys : ∀ a ∈ ys, a ∈ xs ++ ys := fun a ha => List.mem_append_right _ ha
  have memA : ∀ a, a ∈ setAddedL hashOf xs ys ↔ a ∈ ys ∧ a ∉ xs := by
    intro a
    simp only [setAddedL, List.mem_filter, Bool.not_eq_true']
    constructor
    · rintro ⟨h1, h2⟩
      refine ⟨h1, fun hx => ?_⟩
      rw [(contains_hash_iff h xs hxs a (hys a h1)).2 hx] at h2; cases h2
    · rintro ⟨h1, h2⟩
      refine ⟨h1, ?_⟩
      cases hc : (xs.map hashOf).contains (hashOf a) with
      | false => rfl
      | true => exact absurd ((contains_hash_iff h xs hxs a (hys a h1)).1 hc) h2
  have memR : ∀ a, a ∈ setRemovedL hashOf xs ys ↔ a ∈ xs ∧ a ∉ ys := by
    intro a
    simp only [setRemovedL, List.mem_filter, Bool.not_eq_true']
    constructor
    · rintro ⟨h1, h2⟩
      refine ⟨h1, fun hy => ?_⟩
      rw [(contains_hash_iff h ys hys a (hxs a h1)).2 hy] at h2; cases h2
    · rintro ⟨h1, h2⟩
      refine ⟨h1, ?_⟩
      cases hc : (ys.map hashOf).contains (hashOf a) with
      | false => rfl
      | true => exact absurd ((contains_hash_iff h ys hys a (hxs a h1)).1 hc) h2
  generalize hAe : setAddedL hashOf xs ys = A at *
  generalize hRe : setRemovedL hashOf xs ys = R at *
  have hAsub : ∀ a ∈ A, a ∈ xs ++ ys := fun a ha => hys a ((memA a).1 ha).1
  have hRsub : ∀ a ∈ R, a ∈ xs ++ ys := fun a ha => hxs a ((memR a).1 ha).1
  have hAnd : A.Nodup := by rw [← hAe]; exact h.nd2.sublist List.filter_sublist
  have hU : setUnion xs A = xs ++ A := setUnion_new h A xs hAsub hxs hAnd (fun a ha => ((memA a).1 ha).2)
  rw [hU]
  have hkeep : ∀ x ∈ xs ++ A, (!R.any (keyEq x)) = true ↔ x ∈ ys := by
    intro x hx
    have hxm : x ∈ xs ++ ys := by
      rcases List.mem_append.1 hx with h1 | h1
      · exact hxs x h1
      · exact hAsub x h1
    have := any_keyEq_iff h R hRsub x hxm
    constructor
    · intro hk
      have hnot : x ∉ R := by
        intro hr; rw [this.2 hr] at hk; cases hk
      rcases List.mem_append.1 hx with h1 | h1
      · exact Classical.byContradiction (fun hny => hnot ((memR x).2 ⟨h1, hny⟩))
      · exact ((memA x).1 h1).1
    · intro hy
      cases hc : R.any (keyEq x) with
      | false => rfl
      | true => exact absurd hy ((memR x).1 (this.1 hc)).2
  have hD : setDiff (xs ++ A) R = xs.filter (fun x => !R.any (keyEq x)) ++ A := by
    unfold setDiff
    rw [List.filter_append]
    congr 1
    rw [List.filter_eq_self]
    intro a ha
    exact (hkeep a (List.mem_append_right _ ha)).2 ((memA a).1 ha).1
  rw [hD]
  simp only [pyEq, Bool.and_eq_true, beq_iff_eq]
  constructor
  · -- the lengths
    have hperm : (xs.filter (fun x => !R.any (keyEq x))).Perm (ys.filter (fun y => (xs.map hashOf).contains (hashOf y))) := by
      rw [List.perm_ext_iff_of_nodup (h.nd1.sublist List.filter_sublist) (h.nd2.sublist List.filter_sublist)]
      intro z
      simp only [List.mem_filter]
      constructor
      · rintro ⟨h1, h2⟩
        have hy := (hkeep z (List.mem_append_left _ h1)).1 h2
        exact ⟨hy, (contains_hash_iff h xs hxs z (hys z hy)).2 h1⟩
      · rintro ⟨h1, h2⟩
        have hx := (contains_hash_iff h xs hxs z (hys z h1)).1 h2
        exact ⟨hx, (hkeep z (List.mem_append_left _ hx)).2 h1⟩
    have hsplit := length_filter_split (fun y => (xs.map hashOf).contains (hashOf y)) ys
    have hA' : A = ys.filter (fun y => !(xs.map hashOf).contains (hashOf y)) := by rw [← hAe]; rfl
    rw [List.length_append, hperm.length_eq, hA']
    exact hsplit
  · -- every member is a member of the second set
    unfold subsetKey memKey
    rw [List.all_eq_true]
    intro r hr
    have hry : r ∈ ys := by
      rcases List.mem_append.1 hr with h1 | h1
      · obtain ⟨h2, h3⟩ := List.mem_filter.1 h1
        exact (hkeep r (List.mem_append_left _ h2)).1 h3
      · exact ((memA r).1 h1).1
    exact (any_keyEq_iff h ys hys r (hys r hry)).2 hry


theorem SetDom.symm {hashOf : PyVal → String} {xs ys : List PyVal} (h : SetDom hashOf xs ys) : SetDom hashOf ys xs :=
  ⟨h.nd2, h.nd1,
   fun a ha b hb => h.hinj a (by rcases List.mem_append.1 ha with x | x; exact List.mem_append_right _ x; exact List.mem_append_left _ x)
     b (by rcases List.mem_append.1 hb with x | x; exact List.mem_append_right _ x; exact List.mem_append_left _ x),
   fun a ha b hb => h.hkey a (by rcases List.mem_append.1 ha with x | x; exact List.mem_append_right _ x; exact List.mem_append_left _ x)
     b (by rcases List.mem_append.1 hb with x | x; exact List.mem_append_right _ x; exact List.mem_append_left _ x)⟩

theorem set_deepDiff (cfg : DCfg) (hp : Diff.Plain cfg) (al : Align) (hashOf : PyVal → String) (xs ys : List PyVal) :
    deepDiff cfg al hashOf (.set xs) (.set ys) = ⟨diffSet hashOf [] xs ys, []⟩ := by
  have hnoiter : ∀ e ∈ diffSet hashOf [] xs ys, e.1 ≠ Cat.iterAdded ∧ e.1 ≠ Cat.iterRemoved := by
    intro e he
    rw [diffSet_root] at he
    rcases List.mem_append.1 he with h | h <;> obtain ⟨x, _, rfl⟩ := List.mem_map.1 h <;> exact ⟨by simp [fSA, fSR], by simp [fSA, fSR]⟩
  unfold deepDiff
  simp only [skipSteps_plain hp, Bool.false_eq_true, if_false, diffV, keepReported_plain hp]
  split
  · rfl
  · simp only [mutualAddRemoves_noiter _ hnoiter]

/-- the round trip for two sets of scalars, plain or bidirectional, and the way back -/
theorem set_roundtrip (cfg : DCfg) (hp : Diff.Plain cfg) (al : Align) (hashOf : PyVal → String) (bidir directed always : Bool)
    (xs ys : List PyVal) (h : SetDom hashOf xs ys) :
    (∃ r, applyDelta bidir (buildDelta directed always (.set xs) (.set ys) (deepDiff cfg al hashOf (.set xs) (.set ys))) (.set xs) = { root := .set r } ∧
        pyEq (.set r) (.set ys) = true) ∧
    (∃ r, subDelta true (buildDelta directed always (.set xs) (.set ys) (deepDiff cfg al hashOf (.set xs) (.set ys))) (.set ys) = .ok { root := .set r } ∧
        pyEq (.set r) (.set xs) = true) := by
  rw [set_deepDiff cfg hp al hashOf xs ys]
  obtain ⟨hA, hR, he⟩ := set_payload hashOf directed always (.set xs) (.set ys) xs ys
  constructor
  · exact ⟨_, set_apply bidir _ xs _ _ hA hR he, set_result h⟩
  · refine ⟨_, ?_, set_result h.symm⟩
    simp only [subDelta, if_true]
    congr 1
    obtain ⟨e1, e2, e3, e4, e5, e6, e7⟩ := he
    apply set_apply true _ ys (setAddedL hashOf ys xs) (setRemovedL hashOf ys xs)
    · show (buildDelta directed always (.set xs) (.set ys) ⟨diffSet hashOf [] xs ys, []⟩).setRemoved = _
      rw [hR]; rfl
    · show (buildDelta directed always (.set xs) (.set ys) ⟨diffSet hashOf [] xs ys, []⟩).setAdded = _
      rw [hA]; rfl
    · simp [reverseDelta, e1, e2, e3, e4, e5, e6, e7]

end Delta
