import Proofs.DeltaRoot
import Proofs.Spec
/-!
The round trip for flat dictionaries (JSON objects with scalar values): groundwork on how each phase
of `Delta.__add__` acts on a root dictionary.
-/
namespace Delta
open Py Diff

/-- a phase step on a root dictionary: `values_changed` / `type_changes` with the new value given -/
theorem applyChange_dict_given (isType : Bool) (st : AState) (kvs : List (PyVal × PyVal)) (k cur v : PyVal) (c : Change)
    (hr : st.root = .dict kvs) (hg : dictGet kvs k = some cur) (hp : c.path = [k]) (hv : c.newValue = some v) :
    applyChange false isType true st c = { st with root := .dict (dictSetK kvs k v) } := by
  unfold applyChange
  simp only [hp, List.getLast?_singleton, List.dropLast_singleton, getAt, List.foldlM_nil, hr]
  simp [getItem, hg, hv, setNewValue, withContainer, getAt, isTuple, setElem, replaceAt, hr]

/-- a `type_changes` entry without values: the value is re-derived with `new_type(old_value)` -/
theorem applyChange_dict_cast (st : AState) (kvs : List (PyVal × PyVal)) (k cur cv : PyVal) (c : Change)
    (hr : st.root = .dict kvs) (hg : dictGet kvs k = some cur) (hp : c.path = [k]) (hv : c.newValue = Option.none)
    (hc : castTo c.newType cur = some cv) :
    applyChange false true true st c = { st with root := .dict (dictSetK kvs k cv) } := by
  unfold applyChange
  simp only [hp, List.getLast?_singleton, List.dropLast_singleton, getAt, List.foldlM_nil, hr]
  simp [getItem, hg, hv, hc, setNewValue, withContainer, getAt, isTuple, setElem, replaceAt, hr]

theorem applyAdded_dict (st : AState) (kvs : List (PyVal × PyVal)) (k v : PyVal) (hr : st.root = .dict kvs) :
    applyAdded false st ([k], v) = { st with root := .dict (dictSetK kvs k v) } := by
  unfold applyAdded
  simp [getAt, hr, setNewValue, withContainer, isTuple, setElem, replaceAt]

theorem applyRemoved_dict (bidir : Bool) (st : AState) (kvs : List (PyVal × PyVal)) (k v c : PyVal) (hr : st.root = .dict kvs)
    (hg : dictGet kvs k = some c) (hver : bidir = true → pyEq v c = true) :
    applyRemoved bidir st ([k], v) = { st with root := .dict (kvs.filter fun p => !keyEq p.1 k) } := by
  have hany : kvs.any (fun p => keyEq p.1 k) = true := by
    unfold dictGet at hg
    cases hf : kvs.find? (fun p => keyEq p.1 k) with
    | none => rw [hf] at hg; cases hg
    | some q =>
      rw [List.any_eq_true]
      exact ⟨q, List.mem_of_find?_eq_some hf, by have := List.find?_some hf; simpa using this⟩
  unfold applyRemoved
  simp only [List.getLast?_singleton, List.dropLast_singleton, getAt, List.foldlM_nil, hr]
  cases bidir with
  | false => simp [getItem, hg, withContainer, getAt, isTuple, delElem, hany, replaceAt, hr]
  | true => simp [getItem, hg, withContainer, getAt, isTuple, delElem, hany, replaceAt, hr, hver rfl]

end Delta

namespace Delta
open Py Diff

/-! ### association lists with string keys -/

def StrKeys (kvs : List (PyVal × PyVal)) : Prop := ∀ p ∈ kvs, ∃ s, p.1 = .str s

theorem keyEq_str_iff {a b : PyVal} (ha : ∃ s, a = .str s) (hb : ∃ s, b = .str s) : keyEq a b = true ↔ a = b := by
  obtain ⟨s, rfl⟩ := ha
  obtain ⟨t, rfl⟩ := hb
  simp [keyEq]

theorem dictGet_none_iff (kvs : List (PyVal × PyVal)) (hs : StrKeys kvs) (k : PyVal) (hk : ∃ s, k = .str s) :
    dictGet kvs k = Option.none ↔ k ∉ kvs.map (·.1) := by
  unfold dictGet
  rw [Option.map_eq_none_iff, List.find?_eq_none]
  constructor
  · intro h hm
    obtain ⟨p, hp, rfl⟩ := List.mem_map.1 hm
    have := h p hp
    rw [(keyEq_str_iff (hs p hp) hk).2 rfl] at this
    exact this rfl
  · intro h p hp hke
    have hke' : keyEq p.1 k = true := by simpa using hke
    have := (keyEq_str_iff (hs p hp) hk).1 hke'
    exact h (this ▸ List.mem_map.2 ⟨p, hp, rfl⟩)

theorem dictGet_of_mem (kvs : List (PyVal × PyVal)) (hs : StrKeys kvs) (hn : (kvs.map (·.1)).Nodup) (k v : PyVal)
    (hm : (k, v) ∈ kvs) : dictGet kvs k = some v := by
  induction kvs with
  | nil => simp at hm
  | cons q rest ih =>
    have hq := hs q (List.mem_cons_self ..)
    rw [List.map_cons, List.nodup_cons] at hn
    rcases List.mem_cons.1 hm with rfl | hm'
    · have : keyEq k k = true := (keyEq_str_iff hq hq).2 rfl
      simp [dictGet, List.find?_cons, this]
    · have hne : q.1 ≠ k := fun e => hn.1 (e ▸ List.mem_map.2 ⟨(k, v), hm', rfl⟩)
      have hk : ∃ s, k = .str s := hs (k, v) (List.mem_cons_of_mem _ hm')
      have hf : keyEq q.1 k = false := by
        cases h : keyEq q.1 k with
        | false => rfl
        | true => exact absurd ((keyEq_str_iff hq hk).1 h) hne
      have := ih (fun p hp => hs p (List.mem_cons_of_mem _ hp)) hn.2 hm'
      simp only [dictGet, List.find?_cons, hf] at this ⊢
      exact this

theorem mem_of_dictGet (kvs : List (PyVal × PyVal)) (hs : StrKeys kvs) (k v : PyVal) (hk : ∃ s, k = .str s)
    (h : dictGet kvs k = some v) : (k, v) ∈ kvs := by
  unfold dictGet at h
  cases hf : kvs.find? (fun p => keyEq p.1 k) with
  | none => rw [hf] at h; cases h
  | some q =>
    rw [hf] at h
    simp only [Option.map_some, Option.some.injEq] at h
    have hq := List.mem_of_find?_eq_some hf
    have hke : keyEq q.1 k = true := by have := List.find?_some hf; simpa using this
    have := (keyEq_str_iff (hs q hq) hk).1 hke
    rw [← this, ← h]
    exact hq

/-- one operation of a dictionary program: set a key, or delete it -/
def stepOp (kvs : List (PyVal × PyVal)) (op : PyVal × Option PyVal) : List (PyVal × PyVal) :=
  match op.2 with
  | some v => dictSetK kvs op.1 v
  | Option.none => kvs.filter (fun p => !keyEq p.1 op.1)

def runOps (ops : List (PyVal × Option PyVal)) (kvs : List (PyVal × PyVal)) : List (PyVal × PyVal) := ops.foldl stepOp kvs

theorem strKeys_step (kvs : List (PyVal × PyVal)) (hs : StrKeys kvs) (op : PyVal × Option PyVal) (hk : ∃ s, op.1 = .str s) :
    StrKeys (stepOp kvs op) := by
  unfold stepOp
  cases h : op.2 with
  | none =>
    intro p hp
    exact hs p (List.mem_filter.1 hp).1
  | some v =>
    simp only
    unfold dictSetK
    split
    · intro p hp
      obtain ⟨q, hq, rfl⟩ := List.mem_map.1 hp
      split
      · exact hs q hq
      · exact hs q hq
    · intro p hp
      rcases List.mem_append.1 hp with hp | hp
      · exact hs p hp
      · simp only [List.mem_singleton] at hp; subst hp; exact hk

theorem nodup_step (kvs : List (PyVal × PyVal)) (hs : StrKeys kvs) (hn : (kvs.map (·.1)).Nodup) (op : PyVal × Option PyVal)
    (hk : ∃ s, op.1 = .str s) : ((stepOp kvs op).map (·.1)).Nodup := by
  unfold stepOp
  cases h : op.2 with
  | none => exact hn.sublist (List.filter_sublist.map _)
  | some v =>
    simp only
    unfold dictSetK
    split
    · have : (kvs.map (fun p => if keyEq p.1 op.1 then (p.1, v) else p)).map (·.1) = kvs.map (·.1) := by
        rw [List.map_map]
        apply List.map_congr_left
        intro p _
        simp only [Function.comp]
        split <;> rfl
      rw [this]; exact hn
    · rename_i hany
      rw [List.map_append, List.nodup_append]
      refine ⟨hn, by simp, ?_⟩
      intro a ha b hb
      simp only [List.map_cons, List.map_nil, List.mem_singleton] at hb
      subst hb
      intro e
      apply hany
      rw [List.any_eq_true]
      obtain ⟨p, hp, rfl⟩ := List.mem_map.1 ha
      exact ⟨p, hp, (keyEq_str_iff (hs p hp) hk).2 e⟩

theorem get_step_same (kvs : List (PyVal × PyVal)) (hs : StrKeys kvs) (hn : (kvs.map (·.1)).Nodup) (op : PyVal × Option PyVal)
    (hk : ∃ s, op.1 = .str s) : dictGet (stepOp kvs op) op.1 = op.2 := by
  have hs' := strKeys_step kvs hs op hk
  have hn' := nodup_step kvs hs hn op hk
  cases h : op.2 with
  | none =>
    rw [dictGet_none_iff _ hs' _ hk]
    intro hm
    obtain ⟨p, hp, he⟩ := List.mem_map.1 hm
    unfold stepOp at hp
    rw [h] at hp
    have := (List.mem_filter.1 hp).2
    rw [he, (keyEq_str_iff hk hk).2 rfl] at this
    simp at this
  | some v =>
    apply dictGet_of_mem _ hs' hn'
    unfold stepOp dictSetK
    rw [h]
    simp only
    split
    · rename_i hany
      rw [List.any_eq_true] at hany
      obtain ⟨p, hp, hke⟩ := hany
      have : p.1 = op.1 := (keyEq_str_iff (hs p hp) hk).1 hke
      refine List.mem_map.2 ⟨p, hp, ?_⟩
      have hrefl : keyEq op.1 op.1 = true := (keyEq_str_iff hk hk).2 rfl
      simp [hke, this, hrefl]
    · simp

theorem find_map_set (kvs : List (PyVal × PyVal)) (k0 k v : PyVal)
    (hf : ∀ p : PyVal × PyVal, p ∈ kvs → keyEq p.1 k0 = true → keyEq p.1 k = false) :
    (kvs.map (fun p => if keyEq p.1 k0 then (p.1, v) else p)).find? (fun p => keyEq p.1 k) = kvs.find? (fun p => keyEq p.1 k) := by
  induction kvs with
  | nil => rfl
  | cons q rest ih =>
    have ih' := ih (fun p hp => hf p (List.mem_cons_of_mem _ hp))
    by_cases hq : keyEq q.1 k0 = true
    · have h3 := hf q (List.mem_cons_self ..) hq
      simp only [List.map_cons, hq, if_true, List.find?_cons, h3, ih']
    · have hq' : keyEq q.1 k0 = false := by simpa using hq
      simp only [List.map_cons, hq', Bool.false_eq_true, if_false, List.find?_cons]
      split
      · rfl
      · exact ih'

theorem get_step_other (kvs : List (PyVal × PyVal)) (hs : StrKeys kvs) (op : PyVal × Option PyVal)
    (hk : ∃ s, op.1 = .str s) (k : PyVal) (hk' : ∃ s, k = .str s) (hne : op.1 ≠ k) :
    dictGet (stepOp kvs op) k = dictGet kvs k := by
  have hf : ∀ p : PyVal × PyVal, p ∈ kvs → keyEq p.1 op.1 = true → keyEq p.1 k = false := by
    intro p hp h1
    have e1 := (keyEq_str_iff (hs p hp) hk).1 h1
    cases h2 : keyEq p.1 k with
    | false => rfl
    | true => exact absurd ((keyEq_str_iff (hs p hp) hk').1 h2 ▸ e1.symm) hne
  unfold stepOp
  cases h : op.2 with
  | none =>
    simp only [dictGet]
    congr 1
    induction kvs with
    | nil => rfl
    | cons q rest ih =>
      have ih' := ih (fun p hp => hs p (List.mem_cons_of_mem _ hp)) (fun p hp => hf p (List.mem_cons_of_mem _ hp))
      by_cases hq : keyEq q.1 op.1 = true
      · have := hf q (List.mem_cons_self ..) hq
        simp only [List.filter_cons, hq, Bool.not_true, Bool.false_eq_true, if_false, List.find?_cons, this, ih']
      · have hq' : keyEq q.1 op.1 = false := by simpa using hq
        simp only [List.filter_cons, hq', Bool.not_false, if_true, List.find?_cons, ih']
  | some v =>
    simp only
    unfold dictSetK
    split
    · simp only [dictGet]
      congr 1
      exact find_map_set kvs op.1 k v hf
    · simp only [dictGet, List.find?_append]
      have : keyEq op.1 k = false := by
        cases h2 : keyEq op.1 k with
        | false => rfl
        | true => exact absurd ((keyEq_str_iff hk hk').1 h2) hne
      simp [List.find?_cons, this]

/-- what a dictionary program with pairwise different keys leaves under each key -/
theorem runOps_spec : ∀ (ops : List (PyVal × Option PyVal)) (kvs : List (PyVal × PyVal)), StrKeys kvs → (kvs.map (·.1)).Nodup →
    (∀ op ∈ ops, ∃ s, op.1 = .str s) → (ops.map (·.1)).Nodup →
    StrKeys (runOps ops kvs) ∧ ((runOps ops kvs).map (·.1)).Nodup ∧
    ∀ k, (∃ s, k = .str s) →
      (∀ r, (k, r) ∈ ops → dictGet (runOps ops kvs) k = r) ∧ (k ∉ ops.map (·.1) → dictGet (runOps ops kvs) k = dictGet kvs k)
  | [], kvs, hs, hn, _, _ => ⟨hs, hn, fun k _ => ⟨by intro r hr; simp at hr, fun _ => rfl⟩⟩
  | op :: ops, kvs, hs, hn, hks, hnd => by
    have hk0 := hks op (List.mem_cons_self ..)
    rw [List.map_cons, List.nodup_cons] at hnd
    have hs1 := strKeys_step kvs hs op hk0
    have hn1 := nodup_step kvs hs hn op hk0
    obtain ⟨h1, h2, h3⟩ := runOps_spec ops (stepOp kvs op) hs1 hn1 (fun o ho => hks o (List.mem_cons_of_mem _ ho)) hnd.2
    refine ⟨h1, h2, ?_⟩
    intro k hk
    obtain ⟨ha, hb⟩ := h3 k hk
    constructor
    · intro r hr
      rcases List.mem_cons.1 hr with he | hr'
      · -- this operation; no later one touches the key
        have hnot : k ∉ ops.map (·.1) := by
          have : op.1 = k := by rw [← he]
          rw [← this]; exact hnd.1
        show dictGet (runOps ops (stepOp kvs op)) k = r
        rw [hb hnot]
        have e1 : op.1 = k := by rw [← he]
        have e2 : op.2 = r := by rw [← he]
        rw [← e1, ← e2]
        exact get_step_same kvs hs hn op hk0
      · exact ha r hr'
    · intro hnot
      have hne : op.1 ≠ k := fun e => hnot (by rw [List.map_cons]; exact List.mem_cons.2 (Or.inl e.symm))
      have hnot' : k ∉ ops.map (·.1) := fun hm => hnot (by rw [List.map_cons]; exact List.mem_cons_of_mem _ hm)
      show dictGet (runOps ops (stepOp kvs op)) k = dictGet kvs k
      rw [hb hnot', get_step_other kvs hs op hk0 k hk hne]

/-! ### the phases of `Delta.__add__` on a root dictionary, as dictionary programs -/

/-- the value a `values_changed` / `type_changes` entry writes: the recorded new value, or `new_type(current)` -/
def resolve (isType : Bool) (c : Change) (cur : PyVal) : Option PyVal :=
  if isType && c.newValue.isNone then castTo c.newType cur else c.newValue

theorem applyChange_dict (bidir isType : Bool) (st : AState) (kvs : List (PyVal × PyVal)) (k cur res : PyVal) (c : Change)
    (hr : st.root = .dict kvs) (hg : dictGet kvs k = some cur) (hp : c.path = [k]) (hv : resolve isType c cur = some res)
    (hver : bidir = true → ∃ o, c.oldValue = some o ∧ pyEq o cur = true) :
    applyChange bidir isType true st c = { st with root := .dict (stepOp kvs (k, some res)) } := by
  unfold resolve at hv
  have hv' : (if isType = true ∧ c.newValue = Option.none then castTo c.newType cur else c.newValue) = some res := by
    rw [← hv]
    cases isType <;> cases hn : c.newValue <;> simp [hn]
  unfold applyChange
  simp only [hp, List.getLast?_singleton, List.dropLast_singleton, getAt, List.foldlM_nil, hr]
  cases bidir with
  | false => simp [getItem, hg, hv', setNewValue, withContainer, getAt, isTuple, setElem, replaceAt, hr, stepOp]
  | true =>
    obtain ⟨o, ho, heq⟩ := hver rfl
    simp [getItem, hg, hv', setNewValue, withContainer, getAt, isTuple, setElem, replaceAt, hr, stepOp, ho, heq]

/-- one item of a change phase: the entry, its key, the value currently under the key, the value written -/
structure ChItem where
  c : Change
  k : PyVal
  cur : PyVal
  res : PyVal

/-- what `_do_verify_changes` asks of an entry of a bidirectional delta: the recorded old value `==` the current one -/
def Verified (bidir : Bool) (c : Change) (cur : PyVal) : Prop := bidir = true → ∃ o, c.oldValue = some o ∧ pyEq o cur = true

theorem fold_changes (bidir isType : Bool) : ∀ (items : List ChItem) (st : AState) (kvs : List (PyVal × PyVal)),
    st.root = .dict kvs → StrKeys kvs →
    (∀ i ∈ items, i.c.path = [i.k] ∧ resolve isType i.c i.cur = some i.res ∧ (∃ s, i.k = .str s) ∧ dictGet kvs i.k = some i.cur ∧ Verified bidir i.c i.cur) →
    (items.map (·.k)).Nodup →
    (items.map (·.c)).foldl (applyChange bidir isType true) st =
      { st with root := .dict (runOps (items.map (fun i => (i.k, some i.res))) kvs) }
  | [], st, kvs, hr, _, _, _ => by simp [runOps, ← hr]
  | i :: items, st, kvs, hr, hs, hi, hnd => by
    obtain ⟨hp, hv, hk, hg, hver⟩ := hi i (List.mem_cons_self ..)
    rw [List.map_cons, List.nodup_cons] at hnd
    rw [List.map_cons, List.foldl_cons, applyChange_dict bidir isType st kvs i.k i.cur i.res i.c hr hg hp hv hver]
    have hs1 := strKeys_step kvs hs (i.k, some i.res) hk
    rw [fold_changes bidir isType items _ (stepOp kvs (i.k, some i.res)) rfl hs1 ?_ hnd.2]
    · simp [runOps]
    · intro j hj
      obtain ⟨hp', hv', hk', hg', hver'⟩ := hi j (List.mem_cons_of_mem _ hj)
      refine ⟨hp', hv', hk', ?_, hver'⟩
      have hne : i.k ≠ j.k := fun e => hnd.1 (e ▸ List.mem_map.2 ⟨j, hj, rfl⟩)
      rw [get_step_other kvs hs (i.k, some i.res) hk j.k hk' hne]
      exact hg'

theorem fold_added : ∀ (adds : List (PyVal × PyVal)) (st : AState) (kvs : List (PyVal × PyVal)), st.root = .dict kvs →
    (adds.map (fun p => (([p.1] : DPath), p.2))).foldl (applyAdded false) st =
      { st with root := .dict (runOps (adds.map (fun p => (p.1, some p.2))) kvs) }
  | [], st, kvs, hr => by simp [runOps, ← hr]
  | a :: adds, st, kvs, hr => by
    rw [List.map_cons, List.foldl_cons, applyAdded_dict st kvs a.1 a.2 hr]
    rw [fold_added adds _ (dictSetK kvs a.1 a.2) rfl]
    simp [runOps, stepOp]

theorem fold_removed (bidir : Bool) : ∀ (rems : List (DPath × PyVal)) (st : AState) (kvs : List (PyVal × PyVal)), st.root = .dict kvs → StrKeys kvs →
    (∀ e ∈ rems, ∃ k, e.1 = [k] ∧ (∃ s, k = .str s) ∧ ∃ c, dictGet kvs k = some c ∧ (bidir = true → pyEq e.2 c = true)) →
    (rems.map (fun e => e.1.headD .none)).Nodup →
    rems.foldl (applyRemoved bidir) st =
      { st with root := .dict (runOps (rems.map (fun e => (e.1.headD .none, Option.none))) kvs) }
  | [], st, kvs, hr, _, _, _ => by simp [runOps, ← hr]
  | e :: rems, st, kvs, hr, hs, he, hnd => by
    obtain ⟨k, hp, hk, c, hg, hver⟩ := he e (List.mem_cons_self ..)
    rw [List.map_cons, List.nodup_cons] at hnd
    have hek : e.1.headD .none = k := by rw [hp]; rfl
    have heq : e = ([k], e.2) := by rw [← hp]
    rw [List.foldl_cons, heq, applyRemoved_dict bidir st kvs k e.2 c hr hg hver]
    have hstep : (kvs.filter fun p => !keyEq p.1 k) = stepOp kvs (k, Option.none) := rfl
    rw [hstep]
    have hs1 := strKeys_step kvs hs (k, Option.none) hk
    rw [fold_removed bidir rems _ (stepOp kvs (k, Option.none)) rfl hs1 ?_ hnd.2]
    · simp [runOps, hek]
    · intro e' he'
      obtain ⟨k', hp', hk', c', hg', hver'⟩ := he e' (List.mem_cons_of_mem _ he')
      refine ⟨k', hp', hk', c', ?_, hver'⟩
      have hne : k ≠ k' := by
        intro e0
        apply hnd.1
        rw [hek, e0]
        exact List.mem_map.2 ⟨e', he', by rw [hp']; rfl⟩
      rw [get_step_other kvs hs (k, Option.none) hk k' hk' hne]
      exact hg'

/-! ### the whole application -/

theorem cmpPath_str (a b : PyVal) (ha : ∃ s, a = .str s) (hb : ∃ s, b = .str s) : (cmpPath [a] [b]).isSome = true := by
  obtain ⟨s, rfl⟩ := ha
  obtain ⟨t, rfl⟩ := hb
  simp only [cmpPath, cmpElem]
  split
  · rfl
  · cases compare s t <;> rfl

theorem sortPaths_str {α} (xs : List (DPath × α)) (desc : Bool) (h : ∀ e ∈ xs, ∃ k, e.1 = [k] ∧ ∃ s, k = .str s) :
    ∃ ys, sortPaths xs desc = some ys ∧ ys.Perm xs := by
  have hall : (xs.zipIdx).all (fun a => (xs.zipIdx).all (fun b => a.2 == b.2 || (cmpPath a.1.1 b.1.1).isSome)) = true := by
    rw [List.all_eq_true]
    intro a ha
    rw [List.all_eq_true]
    intro b hb
    have ha' : a.1 ∈ xs := (List.mem_zipIdx' ha).2 ▸ List.getElem_mem _ |> fun h => by
      obtain ⟨_, h2⟩ := List.mem_zipIdx' ha
      rw [h2]; exact List.getElem_mem _
    have hb' : b.1 ∈ xs := by
      obtain ⟨_, h2⟩ := List.mem_zipIdx' hb
      rw [h2]; exact List.getElem_mem _
    obtain ⟨k, hk, hs⟩ := h a.1 ha'
    obtain ⟨k', hk', hs'⟩ := h b.1 hb'
    rw [hk, hk', cmpPath_str k k' hs hs']
    simp
  unfold sortPaths
  simp only [hall, if_true]
  exact ⟨_, rfl, List.mergeSort_perm _ _⟩


theorem phase_noop (bidir : Bool) (d : DeltaD) (st : AState) (name : String)
    (h : name = "_do_pre_process" ∨ name = "_do_ignore_order" ∨ name = "_do_attribute_added" ∨ name = "_do_attribute_removed") :
    phase bidir d name st = st := by
  rcases h with rfl | rfl | rfl | rfl <;> (unfold phase; split <;> rfl)

theorem phase_vc (bidir : Bool) (d : DeltaD) (st : AState) (h : st.raised = none) :
    phase bidir d "_do_values_changed" st = d.valuesChanged.foldl (applyChange bidir false true) st := by
  simp [phase, h]

theorem phase_tc (bidir : Bool) (d : DeltaD) (st : AState) (h : st.raised = none) :
    phase bidir d "_do_type_changes" st = d.typeChanges.foldl (applyChange bidir true true) st := by
  simp [phase, h]

theorem phase_da (bidir : Bool) (d : DeltaD) (st : AState) (h : st.raised = none) :
    phase bidir d "_do_dictionary_item_added" st = d.dictAdded.foldl (applyAdded false) st := by
  simp [phase, h]

theorem phase_dr (bidir : Bool) (d : DeltaD) (st : AState) (h : st.raised = none) (ys : List (DPath × PyVal)) (hs : sortPaths d.dictRemoved true = some ys) :
    phase bidir d "_do_dictionary_item_removed" st = ys.foldl (applyRemoved bidir) st := by
  simp [phase, h, hs]

theorem phase_empty_lists (bidir : Bool) (d : DeltaD) (st : AState) (h : st.raised = none) (hp : st.post = [])
    (he : d.setAdded = [] ∧ d.setRemoved = [] ∧ d.opcodes = [] ∧ d.iterAdded = [] ∧ d.iterRemoved = []) (name : String)
    (hn : name = "_do_set_item_added" ∨ name = "_do_set_item_removed" ∨ name = "_do_iterable_opcodes" ∨ name = "_do_iterable_item_removed" ∨
          name = "_do_iterable_item_added" ∨ name = "_do_post_process") :
    phase bidir d name st = st := by
  obtain ⟨h1, h2, h3, h4, h5⟩ := he
  rcases hn with rfl | rfl | rfl | rfl | rfl | rfl <;> simp [phase, h, h1, h2, h3, h4, h5, sortPaths_nil, postProcess, hp]

/-- the four phases that touch a root dictionary, as one dictionary program -/
theorem applyDelta_flat (bidir : Bool) (d : DeltaD) (kvs : List (PyVal × PyVal)) (hs : StrKeys kvs) (hn : (kvs.map (·.1)).Nodup)
    (vcI tcI : List ChItem) (adds : List (PyVal × PyVal)) (rems : List (DPath × PyVal))
    (hvc : d.valuesChanged = vcI.map (·.c)) (htc : d.typeChanges = tcI.map (·.c))
    (hadd : d.dictAdded = adds.map (fun p => (([p.1] : DPath), p.2))) (hrem : d.dictRemoved = rems)
    (he : d.setAdded = [] ∧ d.setRemoved = [] ∧ d.opcodes = [] ∧ d.iterAdded = [] ∧ d.iterRemoved = [])
    (hvcI : ∀ i ∈ vcI, i.c.path = [i.k] ∧ resolve false i.c i.cur = some i.res ∧ (∃ s, i.k = .str s) ∧ dictGet kvs i.k = some i.cur ∧ Verified bidir i.c i.cur)
    (htcI : ∀ i ∈ tcI, i.c.path = [i.k] ∧ resolve true i.c i.cur = some i.res ∧ (∃ s, i.k = .str s) ∧ dictGet kvs i.k = some i.cur ∧ Verified bidir i.c i.cur)
    (haddI : ∀ p ∈ adds, ∃ s, p.1 = .str s)
    (hremI : ∀ e ∈ rems, ∃ k, e.1 = [k] ∧ (∃ s, k = .str s) ∧ ∃ c, dictGet kvs k = some c ∧ (bidir = true → pyEq e.2 c = true))
    (hdisj : (vcI.map (·.k) ++ tcI.map (·.k) ++ adds.map (·.1) ++ rems.map (fun e => e.1.headD .none)).Nodup) :
    ∃ ys : List (DPath × PyVal), ys.Perm rems ∧
      applyDelta bidir d (.dict kvs) =
        { root := .dict (runOps (vcI.map (fun i => (i.k, some i.res)) ++ tcI.map (fun i => (i.k, some i.res)) ++
                                 adds.map (fun p => (p.1, some p.2)) ++ ys.map (fun e => (e.1.headD .none, Option.none))) kvs) } := by
  -- the key lists are pairwise disjoint
  rw [List.nodup_append] at hdisj
  obtain ⟨hd123, hd4, hdx4⟩ := hdisj
  rw [List.nodup_append] at hd123
  obtain ⟨hd12, hd3, hdx3⟩ := hd123
  rw [List.nodup_append] at hd12
  obtain ⟨hd1, hd2, hdx2⟩ := hd12
  obtain ⟨ys, hsort, hperm⟩ := sortPaths_str rems true (fun e he' => by obtain ⟨k, h1, h2, _⟩ := hremI e he'; exact ⟨k, h1, h2⟩)
  refine ⟨ys, hperm, ?_⟩
  -- the programs of the four phases
  let opsV : List (PyVal × Option PyVal) := vcI.map (fun i => (i.k, some i.res))
  let opsT : List (PyVal × Option PyVal) := tcI.map (fun i => (i.k, some i.res))
  let opsA : List (PyVal × Option PyVal) := adds.map (fun p => (p.1, some p.2))
  have kV : opsV.map (·.1) = vcI.map (·.k) := by simp [opsV, List.map_map, Function.comp]
  have kT : opsT.map (·.1) = tcI.map (·.k) := by simp [opsT, List.map_map, Function.comp]
  have kA : opsA.map (·.1) = adds.map (·.1) := by simp [opsA, List.map_map, Function.comp]
  have sV : ∀ op ∈ opsV, ∃ s, op.1 = .str s := by
    intro op hop; obtain ⟨i, hi, rfl⟩ := List.mem_map.1 hop; exact (hvcI i hi).2.2.1
  have sT : ∀ op ∈ opsT, ∃ s, op.1 = .str s := by
    intro op hop; obtain ⟨i, hi, rfl⟩ := List.mem_map.1 hop; exact (htcI i hi).2.2.1
  have sA : ∀ op ∈ opsA, ∃ s, op.1 = .str s := by
    intro op hop; obtain ⟨p, hp, rfl⟩ := List.mem_map.1 hop; exact haddI p hp
  -- after values_changed
  obtain ⟨hs1, hn1, g1⟩ := runOps_spec opsV kvs hs hn sV (by rw [kV]; exact hd1)
  -- after type_changes
  obtain ⟨hs2, hn2, g2⟩ := runOps_spec opsT (runOps opsV kvs) hs1 hn1 sT (by rw [kT]; exact hd2)
  -- after dictionary_item_added
  obtain ⟨hs3, hn3, g3⟩ := runOps_spec opsA (runOps opsT (runOps opsV kvs)) hs2 hn2 sA (by rw [kA]; exact hd3)
  -- evaluate the phases
  unfold applyDelta
  simp only [Gen.deltaPhases, List.foldl_cons, List.foldl_nil]
  rw [phase_noop bidir d _ "_do_pre_process" (Or.inl rfl)]
  rw [phase_vc bidir d _ rfl, hvc, fold_changes bidir false vcI _ kvs rfl hs hvcI hd1]
  rw [phase_empty_lists bidir d _ rfl rfl he "_do_set_item_added" (Or.inl rfl)]
  rw [phase_empty_lists bidir d _ rfl rfl he "_do_set_item_removed" (Or.inr (Or.inl rfl))]
  rw [phase_tc bidir d _ rfl, htc, fold_changes bidir true tcI _ (runOps opsV kvs) rfl hs1 ?_ hd2]
  · rw [phase_empty_lists bidir d _ rfl rfl he "_do_iterable_opcodes" (Or.inr (Or.inr (Or.inl rfl)))]
    rw [phase_empty_lists bidir d _ rfl rfl he "_do_iterable_item_removed" (Or.inr (Or.inr (Or.inr (Or.inl rfl))))]
    rw [phase_empty_lists bidir d _ rfl rfl he "_do_iterable_item_added" (Or.inr (Or.inr (Or.inr (Or.inr (Or.inl rfl)))))]
    rw [phase_noop bidir d _ "_do_ignore_order" (Or.inr (Or.inl rfl))]
    rw [phase_da bidir d _ rfl, hadd, fold_added adds _ (runOps opsT (runOps opsV kvs)) rfl]
    rw [phase_dr bidir d _ rfl ys (by rw [hrem]; exact hsort)]
    rw [fold_removed bidir ys _ (runOps opsA (runOps opsT (runOps opsV kvs))) rfl hs3 ?_ ?_]
    · rw [phase_noop bidir d _ "_do_attribute_added" (Or.inr (Or.inr (Or.inl rfl)))]
      rw [phase_noop bidir d _ "_do_attribute_removed" (Or.inr (Or.inr (Or.inr rfl)))]
      rw [phase_empty_lists bidir d _ rfl rfl he "_do_post_process" (Or.inr (Or.inr (Or.inr (Or.inr (Or.inr rfl)))))]
      simp only [runOps, List.foldl_append, opsV, opsT, opsA]
    · -- every removed key is still there, with some value
      intro e he'
      obtain ⟨k, hp, hk, c, hg, hver⟩ := hremI e (hperm.mem_iff.1 he')
      refine ⟨k, hp, hk, c, ?_, hver⟩
      have hkr : k ∈ rems.map (fun e => e.1.headD .none) := List.mem_map.2 ⟨e, hperm.mem_iff.1 he', by rw [hp]; rfl⟩
      have n3 : k ∉ opsA.map (·.1) := by
        rw [kA]; intro hm; exact hdx4 k (List.mem_append_right _ hm) k hkr rfl
      have n2 : k ∉ opsT.map (·.1) := by
        rw [kT]; intro hm; exact hdx4 k (List.mem_append_left _ (List.mem_append_right _ hm)) k hkr rfl
      have n1 : k ∉ opsV.map (·.1) := by
        rw [kV]; intro hm; exact hdx4 k (List.mem_append_left _ (List.mem_append_left _ hm)) k hkr rfl
      rw [(g3 k hk).2 n3, (g2 k hk).2 n2, (g1 k hk).2 n1]
      exact hg
    · exact (hperm.map _).nodup_iff.2 hd4
  · -- the values the type changes read are the original ones
    intro i hi
    obtain ⟨hp, hv, hk, hg, hver⟩ := htcI i hi
    refine ⟨hp, hv, hk, ?_, hver⟩
    have n1 : i.k ∉ opsV.map (·.1) := by
      rw [kV]; intro hm; exact hdx2 i.k hm i.k (List.mem_map.2 ⟨i, hi, rfl⟩) rfl
    rw [(g1 i.k hk).2 n1]
    exact hg

/-! ### the diff of two flat dictionaries -/

theorem leafDiff_shape' (steps : List Step) (a b : PyVal) :
    leafDiff steps a b = [] ∨ ∃ ud, leafDiff steps a b = [(.valuesChanged, { steps := steps, t1 := some a, t2 := some b, udiff := ud })] := by
  unfold leafDiff
  split
  all_goals first
    | (split
       · exact Or.inl rfl
       · exact Or.inr ⟨_, rfl⟩)
    | exact Or.inl rfl

theorem pyEq_refl_basic' (b : PyVal) (h : isBasic b = true) : pyEq b b = true := by
  cases b <;> simp [isBasic] at h <;> simp [pyEq, numEq, numOf]

/-- the diff of two scalars at a level -/
theorem diffV_basic (cfg : DCfg) (al : Align) (hashOf : PyVal → String) (st : List Step) (a b : PyVal) (ha : isBasic a = true) :
    (diffV cfg al hashOf st a b).tree =
      if typeName a != typeName b then [(.typeChanges, { steps := st, t1 := some a, t2 := some b })] else leafDiff st a b := by
  cases a <;> simp [isBasic] at ha <;> simp only [diffV] <;> split <;> rfl

/-- no iterable entry: nothing to merge -/
theorem mutualAddRemoves_noiter (t : Tree) (h : ∀ e ∈ t, e.1 ≠ Cat.iterAdded ∧ e.1 ≠ Cat.iterRemoved) : mutualAddRemoves t = t := by
  have ha : t.filter (fun e => e.1 == Cat.iterAdded) = [] := by
    rw [List.filter_eq_nil_iff]; intro e he; simpa using (h e he).1
  have hr : t.filter (fun e => e.1 == Cat.iterRemoved) = [] := by
    rw [List.filter_eq_nil_iff]; intro e he; simpa using (h e he).2
  unfold mutualAddRemoves
  simp only [ha, hr, List.any_nil, Bool.and_false, Bool.not_false, List.filterMap_nil, List.append_nil]
  rw [List.filter_eq_self]
  intro e _
  rfl

theorem distinctKeys_of_nodup_str : ∀ (ks : List PyVal), (∀ k ∈ ks, ∃ s, k = .str s) → ks.Nodup → distinctKeys ks = true
  | [], _, _ => rfl
  | k :: ks, hs, hn => by
    rw [List.nodup_cons] at hn
    have hk := hs k (List.mem_cons_self ..)
    simp only [distinctKeys, Bool.and_eq_true, Bool.not_eq_true', List.any_eq_false]
    refine ⟨⟨?_, ?_⟩, distinctKeys_of_nodup_str ks (fun x hx => hs x (List.mem_cons_of_mem _ hx)) hn.2⟩
    · intro x hx h
      exact hn.1 ((keyEq_str_iff hk (hs x (List.mem_cons_of_mem _ hx))).1 h ▸ hx)
    · intro x hx h
      exact hn.1 ((keyEq_str_iff (hs x (List.mem_cons_of_mem _ hx)) hk).1 h ▸ hx)

theorem strictKeys_str (K : List PyVal) (h : ∀ k ∈ K, ∃ s, k = .str s) : StrictKeys K :=
  fun k hk k' hk' he => (keyEq_str_iff (h k hk) (h k' hk')).1 he

theorem hashable_str {k : PyVal} (h : ∃ s, k = .str s) : hashable k = true := by
  obtain ⟨s, rfl⟩ := h; rfl

/-- the tree of the diff of two flat dictionaries with string keys (when the "too different" shortcut does not fire) -/
theorem flat_tree {cfg : DCfg} (hp : Diff.Plain cfg) (al : Align) (hashOf : PyVal → String) (kvs1 kvs2 : List (PyVal × PyVal))
    (hs1 : StrKeys kvs1) (hs2 : StrKeys kvs2) (hn1 : (kvs1.map (·.1)).Nodup) (hn2 : (kvs2.map (·.1)).Nodup)
    (hpriv : ∀ k, k ∈ kvs1.map (·.1) ∨ k ∈ kvs2.map (·.1) → (cfg.ignorePrivate && isPrivate k) = false)
    (hthr : belowThreshold cfg ((kvs2.map (·.1)).filter (fun k => (kvs1.map (·.1)).any (fun k' => keyEq k' k))).length
              ((kvs2.map (·.1)) ++ (kvs1.map (·.1)).filter (fun k => !(kvs2.map (·.1)).any (fun k' => keyEq k' k))).length = false) :
    (diffV cfg al hashOf [] (.dict kvs1) (.dict kvs2)).tree =
      ((kvs2.map (·.1)).filter (fun k => !(kvs1.map (·.1)).any (fun k' => keyEq k' k))).map
          (fun k => (Cat.dictAdded, addedLevel [] .dict k ((dictGet kvs2 k).getD .none))) ++
      ((kvs1.map (·.1)).filter (fun k => !(kvs2.map (·.1)).any (fun k' => keyEq k' k))).map
          (fun k => (Cat.dictRemoved, removedLevel [] .dict k ((dictGet kvs1 k).getD .none))) ++
      ((kvs2.map (·.1)).filter (fun k => (kvs1.map (·.1)).any (fun k' => keyEq k' k))).flatMap
          (fun k => (diffV cfg al hashOf [⟨.dict, some k, some k⟩] (valAt kvs1 k) (valAt kvs2 k)).tree) := by
  have hk1 := keysOf_plain hp [] kvs1 (fun k hk => hpriv k (Or.inl hk))
  have hk2 := keysOf_plain hp [] kvs2 (fun k hk => hpriv k (Or.inr hk))
  have hstr1 : ∀ k ∈ kvs1.map (·.1), ∃ s, k = .str s := by
    intro k hk; obtain ⟨p, hp', rfl⟩ := List.mem_map.1 hk; exact hs1 p hp'
  have hstr2 : ∀ k ∈ kvs2.map (·.1), ∃ s, k = .str s := by
    intro k hk; obtain ⟨p, hp', rfl⟩ := List.mem_map.1 hk; exact hs2 p hp'
  let K := kvs1.map (·.1) ++ kvs2.map (·.1)
  have hK : StrictKeys K := strictKeys_str K (fun k hk => by
    rcases List.mem_append.1 hk with h | h
    · exact hstr1 k h
    · exact hstr2 k h)
  have hdk1 := distinctKeys_of_nodup_str _ hstr1 hn1
  have hdk2 := distinctKeys_of_nodup_str _ hstr2 hn2
  have hkk1 : ∀ k ∈ kvs1.map (·.1), hashable k = true ∧ k ∈ K := fun k hk => ⟨hashable_str (hstr1 k hk), List.mem_append_left _ hk⟩
  have hkk2 : ∀ k ∈ kvs2.map (·.1), hashable k = true ∧ k ∈ K := fun k hk => ⟨hashable_str (hstr2 k hk), List.mem_append_right _ hk⟩
  conv => lhs; unfold diffV
  simp only [hk1, hk2, hp.ex, List.isEmpty_nil, if_true, hthr, Bool.false_eq_true, if_false]
  rw [Result.tree_append]
  generalize hT : (List.foldl _ ({} : Result) _).tree = T
  have hfl := foldl_children_flat' _ _ (fun _ _ => rfl) _ _ T hT
  subst hfl
  simp only [List.nil_append]
  congr 1
  apply flatMap_congr'
  intro k hk
  obtain ⟨hk2m, hany⟩ := List.mem_filter.1 hk
  rw [List.any_eq_true] at hany
  obtain ⟨k', hk'1, hke⟩ := hany
  have : k' = k := (keyEq_str_iff (hstr1 k' hk'1) (hstr2 k hk2m)).1 hke
  subst this
  obtain ⟨⟨ka, v1⟩, hm10, he1⟩ := List.mem_map.1 hk'1
  obtain ⟨⟨kb, v2⟩, hm20, he2⟩ := List.mem_map.1 hk2m
  simp only at he1 he2
  subst he1
  have hm2 : (ka, v2) ∈ kvs2 := by rw [← he2]; exact hm20
  have hh : hashable ka = true := hashable_str (hstr1 ka hk'1)
  rw [children_find (skipSteps_plain hp) al hashOf K hK [] kvs1 kvs2 hdk1 hkk1 hdk2 hkk2 (kvs2.map (·.1)) (fun k hk => hk) ka v1 v2 hm10 hm2 hk2m
    (hpriv ka (Or.inl hk'1))]
  simp only [valAt, dictGet_self' kvs1 ka v1 hdk1 hh hm10, dictGet_self' kvs2 ka v2 hdk2 hh hm2, Option.getD_some, List.nil_append]

/-! ### the payload built from that tree -/

/-- entries of one category, converted -/
def catMap {β} (c : Cat) (F : Cat × Level → Option β) (t : Tree) : List β := (t.filter (fun e => e.1 == c)).filterMap F

theorem catMap_append {β} (c : Cat) (F : Cat × Level → Option β) (t u : Tree) : catMap c F (t ++ u) = catMap c F t ++ catMap c F u := by
  simp [catMap, List.filter_append, List.filterMap_append]

theorem catMap_flatMap {β α} (c : Cat) (F : Cat × Level → Option β) (l : List α) (g : α → Tree) :
    catMap c F (l.flatMap g) = l.flatMap (fun a => catMap c F (g a)) := by
  simp only [catMap, List.filter_flatMap, List.filterMap_flatMap]

theorem catMap_other {β} (c c' : Cat) (F : Cat × Level → Option β) (t : Tree) (h : ∀ e ∈ t, e.1 = c') (hne : c' ≠ c) : catMap c F t = [] := by
  unfold catMap
  have : t.filter (fun e => e.1 == c) = [] := by
    rw [List.filter_eq_nil_iff]; intro e he; rw [h e he]; simpa using hne
  rw [this]; rfl

theorem catMap_same {β} (c : Cat) (F : Cat × Level → Option β) (t : Tree) (h : ∀ e ∈ t, e.1 = c) : catMap c F t = t.filterMap F := by
  unfold catMap
  rw [List.filter_eq_self.2]
  intro e he; rw [h e he]; simp

/-- the entry a pair of scalars under key `k` contributes to the tree -/
def childTree (k a b : PyVal) : Tree :=
  if typeName a != typeName b then [(.typeChanges, { steps := [⟨.dict, some k, some k⟩], t1 := some a, t2 := some b })]
  else leafDiff [⟨.dict, some k, some k⟩] a b

/-- the `values_changed` entry of the payload for key `k` -/
def vcChange (directed : Bool) (k a b : PyVal) : Change :=
  { path := [k], oldValue := if directed then Option.none else some a, newValue := some b }

/-- the `type_changes` entry of the payload for key `k` -/
def tcChange (directed always : Bool) (k a b : PyVal) : Change :=
  let incl := match castTo (typeName b) a with
    | some c => !(pyEq c b)
    | Option.none => true
  { path := [k], oldType := typeName a, newType := typeName b,
    oldValue := if directed then Option.none else (if incl || always then some a else Option.none),
    newValue := if incl || always then some b else Option.none }

def vcF (directed : Bool) : Cat × Level → Option Change := fun e => do
  let p ← sidePath e.2.steps false
  let p2 ← sidePath e.2.steps true
  pure ((fun (c : Change) => if directed then { c with oldValue := Option.none } else c)
    { path := p, newPath := if p == p2 then Option.none else some p2, oldValue := e.2.t1, newValue := e.2.t2 })

theorem childTree_cases (k a b : PyVal) :
    (typeName a ≠ typeName b ∧ childTree k a b = [(.typeChanges, { steps := [⟨.dict, some k, some k⟩], t1 := some a, t2 := some b })]) ∨
    (typeName a = typeName b ∧ childTree k a b = []  ∧ leafDiff [⟨.dict, some k, some k⟩] a b = []) ∨
    (typeName a = typeName b ∧ ∃ ud, childTree k a b = [(.valuesChanged, { steps := [⟨.dict, some k, some k⟩], t1 := some a, t2 := some b, udiff := ud })]) := by
  unfold childTree
  by_cases ht : typeName a = typeName b
  · have : (typeName a != typeName b) = false := by simpa using ht
    simp only [this, Bool.false_eq_true, if_false]
    rcases leafDiff_shape' [⟨.dict, some k, some k⟩] a b with h | ⟨ud, h⟩
    · exact Or.inr (Or.inl ⟨ht, h, h⟩)
    · exact Or.inr (Or.inr ⟨ht, ud, h⟩)
  · have : (typeName a != typeName b) = true := by simpa using ht
    simp only [this, if_true]
    exact Or.inl ⟨ht, trivial⟩


def tcF (directed always : Bool) : Cat × Level → Option Change := fun e => do
  let p ← sidePath e.2.steps false
  let p2 ← sidePath e.2.steps true
  let a := e.2.t1.getD .none
  let b := e.2.t2.getD .none
  let incl := match castTo (typeName b) a with
    | some c => !(pyEq c b)
    | Option.none => true
  pure ((fun (c : Change) => if directed then { c with oldValue := Option.none } else c)
    { path := p, newPath := if p == p2 then Option.none else some p2, oldType := typeName a, newType := typeName b,
      oldValue := if incl || always then some a else Option.none,
      newValue := if incl || always then some b else Option.none })

def plainF : Cat × Level → Option (DPath × PyVal) := fun e => (sidePath e.2.steps false).map (fun p => (p, itemOf e.2))

theorem build_fields (directed always : Bool) (t1 t2 : PyVal) (T : Tree) :
    (buildDelta directed always t1 t2 ⟨T, []⟩).valuesChanged = catMap .valuesChanged (vcF directed) T ∧
    (buildDelta directed always t1 t2 ⟨T, []⟩).typeChanges = catMap .typeChanges (tcF directed always) T ∧
    (buildDelta directed always t1 t2 ⟨T, []⟩).dictAdded = catMap .dictAdded plainF T ∧
    (buildDelta directed always t1 t2 ⟨T, []⟩).dictRemoved = catMap .dictRemoved plainF T := by
  refine ⟨?_, ?_, ?_, ?_⟩ <;> simp only [buildDelta, catMap] <;> rfl

theorem build_empty (directed always : Bool) (t1 t2 : PyVal) (T : Tree)
    (h : ∀ e ∈ T, e.1 = .typeChanges ∨ e.1 = .valuesChanged ∨ e.1 = .dictAdded ∨ e.1 = .dictRemoved) :
    (buildDelta directed always t1 t2 ⟨T, []⟩).setAdded = [] ∧ (buildDelta directed always t1 t2 ⟨T, []⟩).setRemoved = [] ∧
    (buildDelta directed always t1 t2 ⟨T, []⟩).opcodes = [] ∧ (buildDelta directed always t1 t2 ⟨T, []⟩).iterAdded = [] ∧
    (buildDelta directed always t1 t2 ⟨T, []⟩).iterRemoved = [] := by
  have hf : ∀ c : Cat, c ≠ .typeChanges → c ≠ .valuesChanged → c ≠ .dictAdded → c ≠ .dictRemoved → T.filter (fun e => e.1 == c) = [] := by
    intro c h1 h2 h3 h4
    rw [List.filter_eq_nil_iff]
    intro e he
    rcases h e he with h' | h' | h' | h' <;> rw [h'] <;> simp <;> first | exact h1.symm | exact h2.symm | exact h3.symm | exact h4.symm
  have f1 := hf .setAdded (by decide) (by decide) (by decide) (by decide)
  have f2 := hf .setRemoved (by decide) (by decide) (by decide) (by decide)
  have f3 := hf .iterAdded (by decide) (by decide) (by decide) (by decide)
  have f4 := hf .iterRemoved (by decide) (by decide) (by decide) (by decide)
  refine ⟨?_, ?_, ?_, ?_, ?_⟩ <;> simp [buildDelta, f1, f2, f3, f4, groupSet]

/-- what the entry of one key contributes to each field of the payload -/
theorem catMap_child (directed always : Bool) (k a b : PyVal) (hk : (k == k) = true) :
    catMap .dictAdded plainF (childTree k a b) = [] ∧ catMap .dictRemoved plainF (childTree k a b) = [] ∧
    ((typeName a ≠ typeName b ∧ catMap .typeChanges (tcF directed always) (childTree k a b) = [tcChange directed always k a b] ∧
        catMap .valuesChanged (vcF directed) (childTree k a b) = []) ∨
     (typeName a = typeName b ∧ leafDiff [⟨.dict, some k, some k⟩] a b = [] ∧ catMap .typeChanges (tcF directed always) (childTree k a b) = [] ∧
        catMap .valuesChanged (vcF directed) (childTree k a b) = []) ∨
     (typeName a = typeName b ∧ catMap .typeChanges (tcF directed always) (childTree k a b) = [] ∧
        catMap .valuesChanged (vcF directed) (childTree k a b) = [vcChange directed k a b])) := by
  rcases childTree_cases k a b with ⟨ht, h⟩ | ⟨ht, h, hl⟩ | ⟨ht, ud, h⟩
  · rw [h]
    refine ⟨by simp [catMap], by simp [catMap], Or.inl ⟨ht, ?_, by simp [catMap]⟩⟩
    cases directed <;> simp [catMap, tcF, tcChange, sidePath, Step.param, hk] <;> first | rfl | exact ⟨rfl, rfl⟩
  · rw [h]
    exact ⟨rfl, rfl, Or.inr (Or.inl ⟨ht, hl, rfl, rfl⟩)⟩
  · rw [h]
    refine ⟨by simp [catMap], by simp [catMap], Or.inr (Or.inr ⟨ht, by simp [catMap], ?_⟩)⟩
    cases directed <;> simp [catMap, vcF, vcChange, sidePath, Step.param, hk]

theorem catMap_added (ks : List PyVal) (val : PyVal → PyVal) :
    catMap .dictAdded plainF (ks.map (fun k => (Cat.dictAdded, addedLevel [] .dict k (val k)))) = ks.map (fun k => (([k] : DPath), val k)) ∧
    (∀ {β : Type} (c : Cat) (F : Cat × Level → Option β), c ≠ .dictAdded → catMap c F (ks.map (fun k => (Cat.dictAdded, addedLevel [] .dict k (val k)))) = []) := by
  constructor
  · rw [catMap_same _ _ _ (by intro e he; obtain ⟨k, _, rfl⟩ := List.mem_map.1 he; rfl), List.filterMap_map]
    induction ks with
    | nil => rfl
    | cons k ks ih =>
      simp only [List.filterMap_cons, List.map_cons, Function.comp] at ih ⊢
      rw [ih]
      simp [plainF, addedLevel, sidePath, Step.param, itemOf]
  · intro β c F hne
    exact catMap_other c .dictAdded F _ (by intro e he; obtain ⟨k, _, rfl⟩ := List.mem_map.1 he; rfl) (Ne.symm hne)

theorem catMap_removed (ks : List PyVal) (val : PyVal → PyVal) :
    catMap .dictRemoved plainF (ks.map (fun k => (Cat.dictRemoved, removedLevel [] .dict k (val k)))) = ks.map (fun k => (([k] : DPath), val k)) ∧
    (∀ {β : Type} (c : Cat) (F : Cat × Level → Option β), c ≠ .dictRemoved → catMap c F (ks.map (fun k => (Cat.dictRemoved, removedLevel [] .dict k (val k)))) = []) := by
  constructor
  · rw [catMap_same _ _ _ (by intro e he; obtain ⟨k, _, rfl⟩ := List.mem_map.1 he; rfl), List.filterMap_map]
    induction ks with
    | nil => rfl
    | cons k ks ih =>
      simp only [List.filterMap_cons, List.map_cons, Function.comp] at ih ⊢
      rw [ih]
      simp [plainF, removedLevel, sidePath, Step.param, itemOf]
  · intro β c F hne
    exact catMap_other c .dictRemoved F _ (by intro e he; obtain ⟨k, _, rfl⟩ := List.mem_map.1 he; rfl) (Ne.symm hne)

/-- two string-keyed dictionaries that hold `==` values under the same keys are `==` -/
theorem pyEq_dict_of_lookup (a b : List (PyVal × PyVal)) (hsa : StrKeys a) (hna : (a.map (·.1)).Nodup) (hsb : StrKeys b) (hnb : (b.map (·.1)).Nodup)
    (h : ∀ k, (∃ s, k = .str s) →
      (∀ x, dictGet a k = some x → ∃ y, dictGet b k = some y ∧ pyEq x y = true) ∧ (dictGet a k = Option.none → dictGet b k = Option.none)) :
    pyEq (.dict a) (.dict b) = true := by
  simp only [pyEq, Bool.and_eq_true, beq_iff_eq]
  constructor
  · have hperm : (a.map (·.1)).Perm (b.map (·.1)) := by
      rw [List.perm_ext_iff_of_nodup hna hnb]
      intro k
      constructor
      · intro hk
        obtain ⟨p, hp, rfl⟩ := List.mem_map.1 hk
        have hks := hsa p hp
        have hg : dictGet a p.1 = some p.2 := dictGet_of_mem a hsa hna p.1 p.2 hp
        obtain ⟨y, hy, _⟩ := (h p.1 hks).1 p.2 hg
        exact List.mem_map.2 ⟨(p.1, y), mem_of_dictGet b hsb p.1 y hks hy, rfl⟩
      · intro hk
        obtain ⟨p, hp, rfl⟩ := List.mem_map.1 hk
        have hks := hsb p hp
        rcases Classical.em (p.1 ∈ a.map (·.1)) with hin | hnot
        · exact hin
        · have hnone := (dictGet_none_iff a hsa p.1 hks).2 hnot
          have := (h p.1 hks).2 hnone
          rw [dictGet_of_mem b hsb hnb p.1 p.2 hp] at this
          cases this
    have := hperm.length_eq
    simpa using this
  · apply dictSub_of_forall
    intro p hp
    have hg : dictGet a p.1 = some p.2 := dictGet_of_mem a hsa hna p.1 p.2 hp
    exact (h p.1 (hsa p hp)).1 p.2 hg

theorem diffV_basic_opcodes (cfg : DCfg) (al : Align) (hashOf : PyVal → String) (st : List Step) (a b : PyVal) (ha : isBasic a = true) :
    (diffV cfg al hashOf st a b).opcodes = [] := by
  cases a <;> simp [isBasic] at ha <;> simp only [diffV] <;> split <;> rfl

theorem flat_opcodes (cfg : DCfg) (al : Align) (hashOf : PyVal → String) (kvs1 kvs2 : List (PyVal × PyVal))
    (hb1 : ∀ p ∈ kvs1, isBasic p.2 = true) : (diffV cfg al hashOf [] (.dict kvs1) (.dict kvs2)).opcodes = [] := by
  have hch : ∀ k2s, ∀ q ∈ diffKVs cfg al hashOf [] kvs1 kvs2 k2s, q.2.opcodes = [] := by
    intro k2s q hq
    obtain ⟨k1, v1, kk, v2, hm, _, _, _, rfl⟩ := (mem_diffKVs cfg al hashOf [] kvs2 k2s kvs1 q).1 hq
    simp only
    split
    · rfl
    · exact diffV_basic_opcodes cfg al hashOf _ v1 v2 (hb1 (k1, v1) hm)
  conv => lhs; unfold diffV
  simp only
  split <;> split
  · rfl
  · simp only [Result.append_def, List.nil_append]
    exact foldl_opcodes_nil _ _ (hch _)
  · rfl
  · simp only [Result.append_def, List.nil_append]
    exact foldl_opcodes_nil _ _ (hch _)

/-! ### assembling the round trip -/

theorem flatMap_opt {α β} (l : List α) (f : α → List β) (h : α → β) (p : α → Bool)
    (hp : ∀ x ∈ l, (p x = true → f x = [h x]) ∧ (p x = false → f x = [])) : l.flatMap f = (l.filter p).map h := by
  induction l with
  | nil => rfl
  | cons x l ih =>
    have ih' := ih (fun y hy => hp y (List.mem_cons_of_mem _ hy))
    obtain ⟨h1, h2⟩ := hp x (List.mem_cons_self ..)
    cases hpx : p x with
    | true => simp only [List.flatMap_cons, h1 hpx, List.filter_cons, hpx, if_true, List.map_cons, ih', List.singleton_append]
    | false => simp only [List.flatMap_cons, h2 hpx, List.filter_cons, hpx, Bool.false_eq_true, if_false, ih', List.nil_append]

theorem flatMap_nil' {α β} (l : List α) : l.flatMap (fun _ => ([] : List β)) = [] := by
  induction l with
  | nil => rfl
  | cons x l ih => simp [List.flatMap_cons, ih]

/-- what a `type_changes` entry writes is the new value, or a value `==` to it -/
theorem resolve_tc (directed always : Bool) (k a b : PyVal) :
    ∃ res, resolve true (tcChange directed always k a b) a = some res ∧ (res = b ∨ pyEq res b = true) := by
  unfold resolve tcChange
  cases hc : castTo (typeName b) a with
  | none => simp
  | some c =>
    by_cases he : pyEq c b = true
    · cases always <;> simp [he, hc]
    · have he' : pyEq c b = false := by simpa using he
      simp [he']

theorem valAt_basic (kvs : List (PyVal × PyVal)) (hb : ∀ p ∈ kvs, isBasic p.2 = true) (k : PyVal) : isBasic (valAt kvs k) = true := by
  unfold valAt dictGet
  cases hf : kvs.find? (fun p => keyEq p.1 k) with
  | none => rfl
  | some q => simpa using hb q (List.mem_of_find?_eq_some hf)

theorem dictGet_valAt (kvs : List (PyVal × PyVal)) (hs : StrKeys kvs) (hn : (kvs.map (·.1)).Nodup) (k : PyVal) (hk : k ∈ kvs.map (·.1)) :
    dictGet kvs k = some (valAt kvs k) := by
  obtain ⟨p, hp, rfl⟩ := List.mem_map.1 hk
  have := dictGet_of_mem kvs hs hn p.1 p.2 hp
  simp [valAt, this]

end Delta
