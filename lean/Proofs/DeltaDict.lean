import Proofs.DeltaRoot
/-!
The round trip for flat dictionaries (JSON objects with scalar values): groundwork on how each phase
of `Delta.__add__` acts on a root dictionary.
-/
namespace Delta
open Py Diff

/-- a phase step on a root dictionary: `values_changed` / `type_changes` with the new value given -/
theorem applyChange_dict_given (isType : Bool) (st : AState) (kvs : List (PyVal × PyVal)) (k cur v : PyVal) (c : Change)
    (hr : st.root = .dict kvs) (hg : dictGet kvs k = some cur) (hp : c.path = [k]) (hv : c.newValue = some v) :
    applyChange false isType true st c = { st with root := .dict (dictSetK kvs k v) } := by
  unfold applyChange
  simp only [hp, List.getLast?_singleton, List.dropLast_singleton, getAt, List.foldlM_nil, hr]
  simp [getItem, hg, hv, setNewValue, withContainer, getAt, isTuple, setElem, replaceAt, hr]

/-- a `type_changes` entry without values: the value is re-derived with `new_type(old_value)` -/
theorem applyChange_dict_cast (st : AState) (kvs : List (PyVal × PyVal)) (k cur cv : PyVal) (c : Change)
    (hr : st.root = .dict kvs) (hg : dictGet kvs k = some cur) (hp : c.path = [k]) (hv : c.newValue = Option.none)
    (hc : castTo c.newType cur = some cv) :
    applyChange false true true st c = { st with root := .dict (dictSetK kvs k cv) } := by
  unfold applyChange
  simp only [hp, List.getLast?_singleton, List.dropLast_singleton, getAt, List.foldlM_nil, hr]
  simp [getItem, hg, hv, hc, setNewValue, withContainer, getAt, isTuple, setElem, replaceAt, hr]

theorem applyAdded_dict (st : AState) (kvs : List (PyVal × PyVal)) (k v : PyVal) (hr : st.root = .dict kvs) :
    applyAdded false st ([k], v) = { st with root := .dict (dictSetK kvs k v) } := by
  unfold applyAdded
  simp [getAt, hr, setNewValue, withContainer, isTuple, setElem, replaceAt]

theorem applyRemoved_dict (st : AState) (kvs : List (PyVal × PyVal)) (k v c : PyVal) (hr : st.root = .dict kvs)
    (hg : dictGet kvs k = some c) :
    applyRemoved false st ([k], v) = { st with root := .dict (kvs.filter fun p => !keyEq p.1 k) } := by
  have hany : kvs.any (fun p => keyEq p.1 k) = true := by
    unfold dictGet at hg
    cases hf : kvs.find? (fun p => keyEq p.1 k) with
    | none => rw [hf] at hg; cases hg
    | some q =>
      rw [List.any_eq_true]
      exact ⟨q, List.mem_of_find?_eq_some hf, by have := List.find?_some hf; simpa using this⟩
  unfold applyRemoved
  simp only [List.getLast?_singleton, List.dropLast_singleton, getAt, List.foldlM_nil, hr]
  simp [getItem, hg, withContainer, getAt, isTuple, delElem, hany, replaceAt, hr]

end Delta

namespace Delta
open Py Diff

/-! ### association lists with string keys -/

def StrKeys (kvs : List (PyVal × PyVal)) : Prop := ∀ p ∈ kvs, ∃ s, p.1 = .str s

theorem keyEq_str_iff {a b : PyVal} (ha : ∃ s, a = .str s) (hb : ∃ s, b = .str s) : keyEq a b = true ↔ a = b := by
  obtain ⟨s, rfl⟩ := ha
  obtain ⟨t, rfl⟩ := hb
  simp [keyEq]

theorem dictGet_none_iff (kvs : List (PyVal × PyVal)) (hs : StrKeys kvs) (k : PyVal) (hk : ∃ s, k = .str s) :
    dictGet kvs k = Option.none ↔ k ∉ kvs.map (·.1) := by
  unfold dictGet
  rw [Option.map_eq_none_iff, List.find?_eq_none]
  constructor
  · intro h hm
    obtain ⟨p, hp, rfl⟩ := List.mem_map.1 hm
    have := h p hp
    rw [(keyEq_str_iff (hs p hp) hk).2 rfl] at this
    exact this rfl
  · intro h p hp hke
    have hke' : keyEq p.1 k = true := by simpa using hke
    have := (keyEq_str_iff (hs p hp) hk).1 hke'
    exact h (this ▸ List.mem_map.2 ⟨p, hp, rfl⟩)

theorem dictGet_of_mem (kvs : List (PyVal × PyVal)) (hs : StrKeys kvs) (hn : (kvs.map (·.1)).Nodup) (k v : PyVal)
    (hm : (k, v) ∈ kvs) : dictGet kvs k = some v := by
  induction kvs with
  | nil => simp at hm
  | cons q rest ih =>
    have hq := hs q (List.mem_cons_self ..)
    rw [List.map_cons, List.nodup_cons] at hn
    rcases List.mem_cons.1 hm with rfl | hm'
    · have : keyEq k k = true := (keyEq_str_iff hq hq).2 rfl
      simp [dictGet, List.find?_cons, this]
    · have hne : q.1 ≠ k := fun e => hn.1 (e ▸ List.mem_map.2 ⟨(k, v), hm', rfl⟩)
      have hk : ∃ s, k = .str s := hs (k, v) (List.mem_cons_of_mem _ hm')
      have hf : keyEq q.1 k = false := by
        cases h : keyEq q.1 k with
        | false => rfl
        | true => exact absurd ((keyEq_str_iff hq hk).1 h) hne
      have := ih (fun p hp => hs p (List.mem_cons_of_mem _ hp)) hn.2 hm'
      simp only [dictGet, List.find?_cons, hf] at this ⊢
      exact this

theorem mem_of_dictGet (kvs : List (PyVal × PyVal)) (hs : StrKeys kvs) (k v : PyVal) (hk : ∃ s, k = .str s)
    (h : dictGet kvs k = some v) : (k, v) ∈ kvs := by
  unfold dictGet at h
  cases hf : kvs.find? (fun p => keyEq p.1 k) with
  | none => rw [hf] at h; cases h
  | some q =>
    rw [hf] at h
    simp only [Option.map_some, Option.some.injEq] at h
    have hq := List.mem_of_find?_eq_some hf
    have hke : keyEq q.1 k = true := by have := List.find?_some hf; simpa using this
    have := (keyEq_str_iff (hs q hq) hk).1 hke
    rw [← this, ← h]
    exact hq

/-- one operation of a dictionary program: set a key, or delete it -/
def stepOp (kvs : List (PyVal × PyVal)) (op : PyVal × Option PyVal) : List (PyVal × PyVal) :=
  match op.2 with
  | some v => dictSetK kvs op.1 v
  | Option.none => kvs.filter (fun p => !keyEq p.1 op.1)

def runOps (ops : List (PyVal × Option PyVal)) (kvs : List (PyVal × PyVal)) : List (PyVal × PyVal) := ops.foldl stepOp kvs

theorem strKeys_step (kvs : List (PyVal × PyVal)) (hs : StrKeys kvs) (op : PyVal × Option PyVal) (hk : ∃ s, op.1 = .str s) :
    StrKeys (stepOp kvs op) := by
  unfold stepOp
  cases h : op.2 with
  | none =>
    intro p hp
    exact hs p (List.mem_filter.1 hp).1
  | some v =>
    simp only
    unfold dictSetK
    split
    · intro p hp
      obtain ⟨q, hq, rfl⟩ := List.mem_map.1 hp
      split
      · exact hs q hq
      · exact hs q hq
    · intro p hp
      rcases List.mem_append.1 hp with hp | hp
      · exact hs p hp
      · simp only [List.mem_singleton] at hp; subst hp; exact hk

theorem nodup_step (kvs : List (PyVal × PyVal)) (hs : StrKeys kvs) (hn : (kvs.map (·.1)).Nodup) (op : PyVal × Option PyVal)
    (hk : ∃ s, op.1 = .str s) : ((stepOp kvs op).map (·.1)).Nodup := by
  unfold stepOp
  cases h : op.2 with
  | none => exact hn.sublist (List.filter_sublist.map _)
  | some v =>
    simp only
    unfold dictSetK
    split
    · have : (kvs.map (fun p => if keyEq p.1 op.1 then (p.1, v) else p)).map (·.1) = kvs.map (·.1) := by
        rw [List.map_map]
        apply List.map_congr_left
        intro p _
        simp only [Function.comp]
        split <;> rfl
      rw [this]; exact hn
    · rename_i hany
      rw [List.map_append, List.nodup_append]
      refine ⟨hn, by simp, ?_⟩
      intro a ha b hb
      simp only [List.map_cons, List.map_nil, List.mem_singleton] at hb
      subst hb
      intro e
      apply hany
      rw [List.any_eq_true]
      obtain ⟨p, hp, rfl⟩ := List.mem_map.1 ha
      exact ⟨p, hp, (keyEq_str_iff (hs p hp) hk).2 e⟩

theorem get_step_same (kvs : List (PyVal × PyVal)) (hs : StrKeys kvs) (hn : (kvs.map (·.1)).Nodup) (op : PyVal × Option PyVal)
    (hk : ∃ s, op.1 = .str s) : dictGet (stepOp kvs op) op.1 = op.2 := by
  have hs' := strKeys_step kvs hs op hk
  have hn' := nodup_step kvs hs hn op hk
  cases h : op.2 with
  | none =>
    rw [dictGet_none_iff _ hs' _ hk]
    intro hm
    obtain ⟨p, hp, he⟩ := List.mem_map.1 hm
    unfold stepOp at hp
    rw [h] at hp
    have := (List.mem_filter.1 hp).2
    rw [he, (keyEq_str_iff hk hk).2 rfl] at this
    simp at this
  | some v =>
    apply dictGet_of_mem _ hs' hn'
    unfold stepOp dictSetK
    rw [h]
    simp only
    split
    · rename_i hany
      rw [List.any_eq_true] at hany
      obtain ⟨p, hp, hke⟩ := hany
      have : p.1 = op.1 := (keyEq_str_iff (hs p hp) hk).1 hke
      refine List.mem_map.2 ⟨p, hp, ?_⟩
      have hrefl : keyEq op.1 op.1 = true := (keyEq_str_iff hk hk).2 rfl
      simp [hke, this, hrefl]
    · simp

theorem find_map_set (kvs : List (PyVal × PyVal)) (k0 k v : PyVal)
    (hf : ∀ p : PyVal × PyVal, p ∈ kvs → keyEq p.1 k0 = true → keyEq p.1 k = false) :
    (kvs.map (fun p => if keyEq p.1 k0 then (p.1, v) else p)).find? (fun p => keyEq p.1 k) = kvs.find? (fun p => keyEq p.1 k) := by
  induction kvs with
  | nil => rfl
  | cons q rest ih =>
    have ih' := ih (fun p hp => hf p (List.mem_cons_of_mem _ hp))
    by_cases hq : keyEq q.1 k0 = true
    · have h3 := hf q (List.mem_cons_self ..) hq
      simp only [List.map_cons, hq, if_true, List.find?_cons, h3, ih']
    · have hq' : keyEq q.1 k0 = false := by simpa using hq
      simp only [List.map_cons, hq', Bool.false_eq_true, if_false, List.find?_cons]
      split
      · rfl
      · exact ih'

theorem get_step_other (kvs : List (PyVal × PyVal)) (hs : StrKeys kvs) (op : PyVal × Option PyVal)
    (hk : ∃ s, op.1 = .str s) (k : PyVal) (hk' : ∃ s, k = .str s) (hne : op.1 ≠ k) :
    dictGet (stepOp kvs op) k = dictGet kvs k := by
  have hf : ∀ p : PyVal × PyVal, p ∈ kvs → keyEq p.1 op.1 = true → keyEq p.1 k = false := by
    intro p hp h1
    have e1 := (keyEq_str_iff (hs p hp) hk).1 h1
    cases h2 : keyEq p.1 k with
    | false => rfl
    | true => exact absurd ((keyEq_str_iff (hs p hp) hk').1 h2 ▸ e1.symm) hne
  unfold stepOp
  cases h : op.2 with
  | none =>
    simp only [dictGet]
    congr 1
    induction kvs with
    | nil => rfl
    | cons q rest ih =>
      have ih' := ih (fun p hp => hs p (List.mem_cons_of_mem _ hp)) (fun p hp => hf p (List.mem_cons_of_mem _ hp))
      by_cases hq : keyEq q.1 op.1 = true
      · have := hf q (List.mem_cons_self ..) hq
        simp only [List.filter_cons, hq, Bool.not_true, Bool.false_eq_true, if_false, List.find?_cons, this, ih']
      · have hq' : keyEq q.1 op.1 = false := by simpa using hq
        simp only [List.filter_cons, hq', Bool.not_false, if_true, List.find?_cons, ih']
  | some v =>
    simp only
    unfold dictSetK
    split
    · simp only [dictGet]
      congr 1
      exact find_map_set kvs op.1 k v hf
    · simp only [dictGet, List.find?_append]
      have : keyEq op.1 k = false := by
        cases h2 : keyEq op.1 k with
        | false => rfl
        | true => exact absurd ((keyEq_str_iff hk hk').1 h2) hne
      simp [List.find?_cons, this]

/-- what a dictionary program with pairwise different keys leaves under each key -/
theorem runOps_spec : ∀ (ops : List (PyVal × Option PyVal)) (kvs : List (PyVal × PyVal)), StrKeys kvs → (kvs.map (·.1)).Nodup →
    (∀ op ∈ ops, ∃ s, op.1 = .str s) → (ops.map (·.1)).Nodup →
    StrKeys (runOps ops kvs) ∧ ((runOps ops kvs).map (·.1)).Nodup ∧
    ∀ k, (∃ s, k = .str s) →
      (∀ r, (k, r) ∈ ops → dictGet (runOps ops kvs) k = r) ∧ (k ∉ ops.map (·.1) → dictGet (runOps ops kvs) k = dictGet kvs k)
  | [], kvs, hs, hn, _, _ => ⟨hs, hn, fun k _ => ⟨by intro r hr; simp at hr, fun _ => rfl⟩⟩
  | op :: ops, kvs, hs, hn, hks, hnd => by
    have hk0 := hks op (List.mem_cons_self ..)
    rw [List.map_cons, List.nodup_cons] at hnd
    have hs1 := strKeys_step kvs hs op hk0
    have hn1 := nodup_step kvs hs hn op hk0
    obtain ⟨h1, h2, h3⟩ := runOps_spec ops (stepOp kvs op) hs1 hn1 (fun o ho => hks o (List.mem_cons_of_mem _ ho)) hnd.2
    refine ⟨h1, h2, ?_⟩
    intro k hk
    obtain ⟨ha, hb⟩ := h3 k hk
    constructor
    · intro r hr
      rcases List.mem_cons.1 hr with he | hr'
      · -- this operation; no later one touches the key
        have hnot : k ∉ ops.map (·.1) := by
          have : op.1 = k := by rw [← he]
          rw [← this]; exact hnd.1
        show dictGet (runOps ops (stepOp kvs op)) k = r
        rw [hb hnot]
        have e1 : op.1 = k := by rw [← he]
        have e2 : op.2 = r := by rw [← he]
        rw [← e1, ← e2]
        exact get_step_same kvs hs hn op hk0
      · exact ha r hr'
    · intro hnot
      have hne : op.1 ≠ k := fun e => hnot (by rw [List.map_cons]; exact List.mem_cons.2 (Or.inl e.symm))
      have hnot' : k ∉ ops.map (·.1) := fun hm => hnot (by rw [List.map_cons]; exact List.mem_cons_of_mem _ hm)
      show dictGet (runOps ops (stepOp kvs op)) k = dictGet kvs k
      rw [hb hnot', get_step_other kvs hs op hk0 k hk hne]

/-! ### the phases of `Delta.__add__` on a root dictionary, as dictionary programs -/

/-- the value a `values_changed` / `type_changes` entry writes: the recorded new value, or `new_type(current)` -/
def resolve (isType : Bool) (c : Change) (cur : PyVal) : Option PyVal :=
  if isType && c.newValue.isNone then castTo c.newType cur else c.newValue

theorem applyChange_dict (isType : Bool) (st : AState) (kvs : List (PyVal × PyVal)) (k cur res : PyVal) (c : Change)
    (hr : st.root = .dict kvs) (hg : dictGet kvs k = some cur) (hp : c.path = [k]) (hv : resolve isType c cur = some res) :
    applyChange false isType true st c = { st with root := .dict (stepOp kvs (k, some res)) } := by
  unfold resolve at hv
  have hv' : (if isType = true ∧ c.newValue = Option.none then castTo c.newType cur else c.newValue) = some res := by
    rw [← hv]
    cases isType <;> cases hn : c.newValue <;> simp [hn]
  unfold applyChange
  simp only [hp, List.getLast?_singleton, List.dropLast_singleton, getAt, List.foldlM_nil, hr]
  simp [getItem, hg, hv', setNewValue, withContainer, getAt, isTuple, setElem, replaceAt, hr, stepOp]

/-- one item of a change phase: the entry, its key, the value currently under the key, the value written -/
structure ChItem where
  c : Change
  k : PyVal
  cur : PyVal
  res : PyVal

theorem fold_changes (isType : Bool) : ∀ (items : List ChItem) (st : AState) (kvs : List (PyVal × PyVal)),
    st.root = .dict kvs → StrKeys kvs →
    (∀ i ∈ items, i.c.path = [i.k] ∧ resolve isType i.c i.cur = some i.res ∧ (∃ s, i.k = .str s) ∧ dictGet kvs i.k = some i.cur) →
    (items.map (·.k)).Nodup →
    (items.map (·.c)).foldl (applyChange false isType true) st =
      { st with root := .dict (runOps (items.map (fun i => (i.k, some i.res))) kvs) }
  | [], st, kvs, hr, _, _, _ => by simp [runOps, ← hr]
  | i :: items, st, kvs, hr, hs, hi, hnd => by
    obtain ⟨hp, hv, hk, hg⟩ := hi i (List.mem_cons_self ..)
    rw [List.map_cons, List.nodup_cons] at hnd
    rw [List.map_cons, List.foldl_cons, applyChange_dict isType st kvs i.k i.cur i.res i.c hr hg hp hv]
    have hs1 := strKeys_step kvs hs (i.k, some i.res) hk
    rw [fold_changes isType items _ (stepOp kvs (i.k, some i.res)) rfl hs1 ?_ hnd.2]
    · simp [runOps]
    · intro j hj
      obtain ⟨hp', hv', hk', hg'⟩ := hi j (List.mem_cons_of_mem _ hj)
      refine ⟨hp', hv', hk', ?_⟩
      have hne : i.k ≠ j.k := fun e => hnd.1 (e ▸ List.mem_map.2 ⟨j, hj, rfl⟩)
      rw [get_step_other kvs hs (i.k, some i.res) hk j.k hk' hne]
      exact hg'

theorem fold_added : ∀ (adds : List (PyVal × PyVal)) (st : AState) (kvs : List (PyVal × PyVal)), st.root = .dict kvs →
    (adds.map (fun p => (([p.1] : DPath), p.2))).foldl (applyAdded false) st =
      { st with root := .dict (runOps (adds.map (fun p => (p.1, some p.2))) kvs) }
  | [], st, kvs, hr => by simp [runOps, ← hr]
  | a :: adds, st, kvs, hr => by
    rw [List.map_cons, List.foldl_cons, applyAdded_dict st kvs a.1 a.2 hr]
    rw [fold_added adds _ (dictSetK kvs a.1 a.2) rfl]
    simp [runOps, stepOp]

theorem fold_removed : ∀ (rems : List (DPath × PyVal)) (st : AState) (kvs : List (PyVal × PyVal)), st.root = .dict kvs → StrKeys kvs →
    (∀ e ∈ rems, ∃ k, e.1 = [k] ∧ (∃ s, k = .str s) ∧ ∃ c, dictGet kvs k = some c) →
    (rems.map (fun e => e.1.headD .none)).Nodup →
    rems.foldl (applyRemoved false) st =
      { st with root := .dict (runOps (rems.map (fun e => (e.1.headD .none, Option.none))) kvs) }
  | [], st, kvs, hr, _, _, _ => by simp [runOps, ← hr]
  | e :: rems, st, kvs, hr, hs, he, hnd => by
    obtain ⟨k, hp, hk, c, hg⟩ := he e (List.mem_cons_self ..)
    rw [List.map_cons, List.nodup_cons] at hnd
    have hek : e.1.headD .none = k := by rw [hp]; rfl
    have heq : e = ([k], e.2) := by rw [← hp]
    rw [List.foldl_cons, heq, applyRemoved_dict st kvs k e.2 c hr hg]
    have hstep : (kvs.filter fun p => !keyEq p.1 k) = stepOp kvs (k, Option.none) := rfl
    rw [hstep]
    have hs1 := strKeys_step kvs hs (k, Option.none) hk
    rw [fold_removed rems _ (stepOp kvs (k, Option.none)) rfl hs1 ?_ hnd.2]
    · simp [runOps, hek]
    · intro e' he'
      obtain ⟨k', hp', hk', c', hg'⟩ := he e' (List.mem_cons_of_mem _ he')
      refine ⟨k', hp', hk', c', ?_⟩
      have hne : k ≠ k' := by
        intro e0
        apply hnd.1
        rw [hek, e0]
        exact List.mem_map.2 ⟨e', he', by rw [hp']; rfl⟩
      rw [get_step_other kvs hs (k, Option.none) hk k' hk' hne]
      exact hg'

/-! ### the whole application -/

theorem cmpPath_str (a b : PyVal) (ha : ∃ s, a = .str s) (hb : ∃ s, b = .str s) : (cmpPath [a] [b]).isSome = true := by
  obtain ⟨s, rfl⟩ := ha
  obtain ⟨t, rfl⟩ := hb
  simp only [cmpPath, cmpElem]
  split
  · rfl
  · cases compare s t <;> rfl

theorem sortPaths_str {α} (xs : List (DPath × α)) (desc : Bool) (h : ∀ e ∈ xs, ∃ k, e.1 = [k] ∧ ∃ s, k = .str s) :
    ∃ ys, sortPaths xs desc = some ys ∧ ys.Perm xs := by
  have hall : (xs.zipIdx).all (fun a => (xs.zipIdx).all (fun b => a.2 == b.2 || (cmpPath a.1.1 b.1.1).isSome)) = true := by
    rw [List.all_eq_true]
    intro a ha
    rw [List.all_eq_true]
    intro b hb
    have ha' : a.1 ∈ xs := (List.mem_zipIdx' ha).2 ▸ List.getElem_mem _ |> fun h => by
      obtain ⟨_, h2⟩ := List.mem_zipIdx' ha
      rw [h2]; exact List.getElem_mem _
    have hb' : b.1 ∈ xs := by
      obtain ⟨_, h2⟩ := List.mem_zipIdx' hb
      rw [h2]; exact List.getElem_mem _
    obtain ⟨k, hk, hs⟩ := h a.1 ha'
    obtain ⟨k', hk', hs'⟩ := h b.1 hb'
    rw [hk, hk', cmpPath_str k k' hs hs']
    simp
  unfold sortPaths
  simp only [hall, if_true]
  exact ⟨_, rfl, List.mergeSort_perm _ _⟩


theorem phase_noop (d : DeltaD) (st : AState) (name : String)
    (h : name = "_do_pre_process" ∨ name = "_do_ignore_order" ∨ name = "_do_attribute_added" ∨ name = "_do_attribute_removed") :
    phase false d name st = st := by
  rcases h with rfl | rfl | rfl | rfl <;> (unfold phase; split <;> rfl)

theorem phase_vc (d : DeltaD) (st : AState) (h : st.raised = none) :
    phase false d "_do_values_changed" st = d.valuesChanged.foldl (applyChange false false true) st := by
  simp [phase, h]

theorem phase_tc (d : DeltaD) (st : AState) (h : st.raised = none) :
    phase false d "_do_type_changes" st = d.typeChanges.foldl (applyChange false true true) st := by
  simp [phase, h]

theorem phase_da (d : DeltaD) (st : AState) (h : st.raised = none) :
    phase false d "_do_dictionary_item_added" st = d.dictAdded.foldl (applyAdded false) st := by
  simp [phase, h]

theorem phase_dr (d : DeltaD) (st : AState) (h : st.raised = none) (ys : List (DPath × PyVal)) (hs : sortPaths d.dictRemoved true = some ys) :
    phase false d "_do_dictionary_item_removed" st = ys.foldl (applyRemoved false) st := by
  simp [phase, h, hs]

theorem phase_empty_lists (d : DeltaD) (st : AState) (h : st.raised = none) (hp : st.post = [])
    (he : d.setAdded = [] ∧ d.setRemoved = [] ∧ d.opcodes = [] ∧ d.iterAdded = [] ∧ d.iterRemoved = []) (name : String)
    (hn : name = "_do_set_item_added" ∨ name = "_do_set_item_removed" ∨ name = "_do_iterable_opcodes" ∨ name = "_do_iterable_item_removed" ∨
          name = "_do_iterable_item_added" ∨ name = "_do_post_process") :
    phase false d name st = st := by
  obtain ⟨h1, h2, h3, h4, h5⟩ := he
  rcases hn with rfl | rfl | rfl | rfl | rfl | rfl <;> simp [phase, h, h1, h2, h3, h4, h5, sortPaths_nil, postProcess, hp]

/-- the four phases that touch a root dictionary, as one dictionary program -/
theorem applyDelta_flat (d : DeltaD) (kvs : List (PyVal × PyVal)) (hs : StrKeys kvs) (hn : (kvs.map (·.1)).Nodup)
    (vcI tcI : List ChItem) (adds : List (PyVal × PyVal)) (rems : List (DPath × PyVal))
    (hvc : d.valuesChanged = vcI.map (·.c)) (htc : d.typeChanges = tcI.map (·.c))
    (hadd : d.dictAdded = adds.map (fun p => (([p.1] : DPath), p.2))) (hrem : d.dictRemoved = rems)
    (he : d.setAdded = [] ∧ d.setRemoved = [] ∧ d.opcodes = [] ∧ d.iterAdded = [] ∧ d.iterRemoved = [])
    (hvcI : ∀ i ∈ vcI, i.c.path = [i.k] ∧ resolve false i.c i.cur = some i.res ∧ (∃ s, i.k = .str s) ∧ dictGet kvs i.k = some i.cur)
    (htcI : ∀ i ∈ tcI, i.c.path = [i.k] ∧ resolve true i.c i.cur = some i.res ∧ (∃ s, i.k = .str s) ∧ dictGet kvs i.k = some i.cur)
    (haddI : ∀ p ∈ adds, ∃ s, p.1 = .str s)
    (hremI : ∀ e ∈ rems, ∃ k, e.1 = [k] ∧ (∃ s, k = .str s) ∧ ∃ c, dictGet kvs k = some c)
    (hdisj : (vcI.map (·.k) ++ tcI.map (·.k) ++ adds.map (·.1) ++ rems.map (fun e => e.1.headD .none)).Nodup) :
    ∃ ys : List (DPath × PyVal), ys.Perm rems ∧
      applyDelta false d (.dict kvs) =
        { root := .dict (runOps (vcI.map (fun i => (i.k, some i.res)) ++ tcI.map (fun i => (i.k, some i.res)) ++
                                 adds.map (fun p => (p.1, some p.2)) ++ ys.map (fun e => (e.1.headD .none, Option.none))) kvs) } := by
  -- the key lists are pairwise disjoint
  rw [List.nodup_append] at hdisj
  obtain ⟨hd123, hd4, hdx4⟩ := hdisj
  rw [List.nodup_append] at hd123
  obtain ⟨hd12, hd3, hdx3⟩ := hd123
  rw [List.nodup_append] at hd12
  obtain ⟨hd1, hd2, hdx2⟩ := hd12
  obtain ⟨ys, hsort, hperm⟩ := sortPaths_str rems true (fun e he' => by obtain ⟨k, h1, h2, _⟩ := hremI e he'; exact ⟨k, h1, h2⟩)
  refine ⟨ys, hperm, ?_⟩
  -- the programs of the four phases
  let opsV : List (PyVal × Option PyVal) := vcI.map (fun i => (i.k, some i.res))
  let opsT : List (PyVal × Option PyVal) := tcI.map (fun i => (i.k, some i.res))
  let opsA : List (PyVal × Option PyVal) := adds.map (fun p => (p.1, some p.2))
  have kV : opsV.map (·.1) = vcI.map (·.k) := by simp [opsV, List.map_map, Function.comp]
  have kT : opsT.map (·.1) = tcI.map (·.k) := by simp [opsT, List.map_map, Function.comp]
  have kA : opsA.map (·.1) = adds.map (·.1) := by simp [opsA, List.map_map, Function.comp]
  have sV : ∀ op ∈ opsV, ∃ s, op.1 = .str s := by
    intro op hop; obtain ⟨i, hi, rfl⟩ := List.mem_map.1 hop; exact (hvcI i hi).2.2.1
  have sT : ∀ op ∈ opsT, ∃ s, op.1 = .str s := by
    intro op hop; obtain ⟨i, hi, rfl⟩ := List.mem_map.1 hop; exact (htcI i hi).2.2.1
  have sA : ∀ op ∈ opsA, ∃ s, op.1 = .str s := by
    intro op hop; obtain ⟨p, hp, rfl⟩ := List.mem_map.1 hop; exact haddI p hp
  -- after values_changed
  obtain ⟨hs1, hn1, g1⟩ := runOps_spec opsV kvs hs hn sV (by rw [kV]; exact hd1)
  -- after type_changes
  obtain ⟨hs2, hn2, g2⟩ := runOps_spec opsT (runOps opsV kvs) hs1 hn1 sT (by rw [kT]; exact hd2)
  -- after dictionary_item_added
  obtain ⟨hs3, hn3, g3⟩ := runOps_spec opsA (runOps opsT (runOps opsV kvs)) hs2 hn2 sA (by rw [kA]; exact hd3)
  -- evaluate the phases
  unfold applyDelta
  simp only [Gen.deltaPhases, List.foldl_cons, List.foldl_nil]
  rw [phase_noop d _ "_do_pre_process" (Or.inl rfl)]
  rw [phase_vc d _ rfl, hvc, fold_changes false vcI _ kvs rfl hs hvcI hd1]
  rw [phase_empty_lists d _ rfl rfl he "_do_set_item_added" (Or.inl rfl)]
  rw [phase_empty_lists d _ rfl rfl he "_do_set_item_removed" (Or.inr (Or.inl rfl))]
  rw [phase_tc d _ rfl, htc, fold_changes true tcI _ (runOps opsV kvs) rfl hs1 ?_ hd2]
  · rw [phase_empty_lists d _ rfl rfl he "_do_iterable_opcodes" (Or.inr (Or.inr (Or.inl rfl)))]
    rw [phase_empty_lists d _ rfl rfl he "_do_iterable_item_removed" (Or.inr (Or.inr (Or.inr (Or.inl rfl))))]
    rw [phase_empty_lists d _ rfl rfl he "_do_iterable_item_added" (Or.inr (Or.inr (Or.inr (Or.inr (Or.inl rfl)))))]
    rw [phase_noop d _ "_do_ignore_order" (Or.inr (Or.inl rfl))]
    rw [phase_da d _ rfl, hadd, fold_added adds _ (runOps opsT (runOps opsV kvs)) rfl]
    rw [phase_dr d _ rfl ys (by rw [hrem]; exact hsort)]
    rw [fold_removed ys _ (runOps opsA (runOps opsT (runOps opsV kvs))) rfl hs3 ?_ ?_]
    · rw [phase_noop d _ "_do_attribute_added" (Or.inr (Or.inr (Or.inl rfl)))]
      rw [phase_noop d _ "_do_attribute_removed" (Or.inr (Or.inr (Or.inr rfl)))]
      rw [phase_empty_lists d _ rfl rfl he "_do_post_process" (Or.inr (Or.inr (Or.inr (Or.inr (Or.inr rfl)))))]
      simp only [runOps, List.foldl_append, opsV, opsT, opsA]
    · -- every removed key is still there, with some value
      intro e he'
      obtain ⟨k, hp, hk, c, hg⟩ := hremI e (hperm.mem_iff.1 he')
      refine ⟨k, hp, hk, c, ?_⟩
      have hkr : k ∈ rems.map (fun e => e.1.headD .none) := List.mem_map.2 ⟨e, hperm.mem_iff.1 he', by rw [hp]; rfl⟩
      have n3 : k ∉ opsA.map (·.1) := by
        rw [kA]; intro hm; exact hdx4 k (List.mem_append_right _ hm) k hkr rfl
      have n2 : k ∉ opsT.map (·.1) := by
        rw [kT]; intro hm; exact hdx4 k (List.mem_append_left _ (List.mem_append_right _ hm)) k hkr rfl
      have n1 : k ∉ opsV.map (·.1) := by
        rw [kV]; intro hm; exact hdx4 k (List.mem_append_left _ (List.mem_append_left _ hm)) k hkr rfl
      rw [(g3 k hk).2 n3, (g2 k hk).2 n2, (g1 k hk).2 n1]
      exact hg
    · exact (hperm.map _).nodup_iff.2 hd4
  · -- the values the type changes read are the original ones
    intro i hi
    obtain ⟨hp, hv, hk, hg⟩ := htcI i hi
    refine ⟨hp, hv, hk, ?_⟩
    have n1 : i.k ∉ opsV.map (·.1) := by
      rw [kV]; intro hm; exact hdx2 i.k hm i.k (List.mem_map.2 ⟨i, hi, rfl⟩) rfl
    rw [(g1 i.k hk).2 n1]
    exact hg

end Delta
