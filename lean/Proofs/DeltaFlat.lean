import Proofs.DeltaDict
import Model.Delta.Reverse
import Proofs.Keys
/-!
The round trip for flat dictionaries (string keys, scalar values), forwards and backwards:
the payload of the diff tree in closed form (`flat_payload`), its application as a dictionary program
(`flat_apply_gen`), the forward instance (`flat_apply`), the reversed payload applied to the second
dictionary (`flat_apply_rev`), and the statements over `deepDiff` (`flat_dict_roundtrip`, `flat_dict_inverse`).
-/
namespace Delta
open Py Diff

/-- keys of the second dictionary that the first lacks, in the order of the second -/
def addedK (kvs1 kvs2 : List (PyVal × PyVal)) : List PyVal :=
  (kvs2.map (·.1)).filter (fun k => !(kvs1.map (·.1)).any (fun k' => keyEq k' k))
/-- keys of the first dictionary that the second lacks, in the order of the first -/
def removedK (kvs1 kvs2 : List (PyVal × PyVal)) : List PyVal :=
  (kvs1.map (·.1)).filter (fun k => !(kvs2.map (·.1)).any (fun k' => keyEq k' k))
/-- shared keys, in the order of the second dictionary -/
def interK (kvs1 kvs2 : List (PyVal × PyVal)) : List PyVal :=
  (kvs2.map (·.1)).filter (fun k => (kvs1.map (·.1)).any (fun k' => keyEq k' k))

/-- the tree of the diff of two flat dictionaries (`flat_tree`, with the children in closed form) -/
def flatT (kvs1 kvs2 : List (PyVal × PyVal)) : Tree :=
  (addedK kvs1 kvs2).map (fun k => (Cat.dictAdded, addedLevel [] .dict k ((dictGet kvs2 k).getD .none))) ++
  (removedK kvs1 kvs2).map (fun k => (Cat.dictRemoved, removedLevel [] .dict k ((dictGet kvs1 k).getD .none))) ++
  (interK kvs1 kvs2).flatMap (fun k => childTree k (valAt kvs1 k) (valAt kvs2 k))

structure FlatKeys (kvs1 kvs2 : List (PyVal × PyVal)) : Prop where
  str1 : ∀ k ∈ kvs1.map (·.1), ∃ s, k = .str s
  str2 : ∀ k ∈ kvs2.map (·.1), ∃ s, k = .str s
  mem_added : ∀ k, k ∈ addedK kvs1 kvs2 ↔ k ∈ kvs2.map (·.1) ∧ k ∉ kvs1.map (·.1)
  mem_removed : ∀ k, k ∈ removedK kvs1 kvs2 ↔ k ∈ kvs1.map (·.1) ∧ k ∉ kvs2.map (·.1)
  mem_inter : ∀ k, k ∈ interK kvs1 kvs2 ↔ k ∈ kvs1.map (·.1) ∧ k ∈ kvs2.map (·.1)
  nd_added : (addedK kvs1 kvs2).Nodup
  nd_removed : (removedK kvs1 kvs2).Nodup
  nd_inter : (interK kvs1 kvs2).Nodup

theorem flatKeys (kvs1 kvs2 : List (PyVal × PyVal)) (hs1 : StrKeys kvs1) (hs2 : StrKeys kvs2)
    (hn1 : (kvs1.map (·.1)).Nodup) (hn2 : (kvs2.map (·.1)).Nodup) : FlatKeys kvs1 kvs2 := by
  have hstr1 : ∀ k ∈ kvs1.map (·.1), ∃ s, k = .str s := by
    intro k hk; obtain ⟨p, hp', rfl⟩ := List.mem_map.1 hk; exact hs1 p hp'
  have hstr2 : ∀ k ∈ kvs2.map (·.1), ∃ s, k = .str s := by
    intro k hk; obtain ⟨p, hp', rfl⟩ := List.mem_map.1 hk; exact hs2 p hp'
  have many1 : ∀ k, (∃ s, k = .str s) → ((kvs1.map (·.1)).any (fun k' => keyEq k' k) = true ↔ k ∈ kvs1.map (·.1)) := by
    intro k hk
    rw [List.any_eq_true]
    constructor
    · rintro ⟨k', hk', he⟩; exact (keyEq_str_iff (hstr1 k' hk') hk).1 he ▸ hk'
    · intro h; exact ⟨k, h, (keyEq_str_iff hk hk).2 rfl⟩
  have many2 : ∀ k, (∃ s, k = .str s) → ((kvs2.map (·.1)).any (fun k' => keyEq k' k) = true ↔ k ∈ kvs2.map (·.1)) := by
    intro k hk
    rw [List.any_eq_true]
    constructor
    · rintro ⟨k', hk', he⟩; exact (keyEq_str_iff (hstr2 k' hk') hk).1 he ▸ hk'
    · intro h; exact ⟨k, h, (keyEq_str_iff hk hk).2 rfl⟩
  refine ⟨hstr1, hstr2, ?_, ?_, ?_, hn2.sublist List.filter_sublist, hn1.sublist List.filter_sublist, hn2.sublist List.filter_sublist⟩
  · intro k
    simp only [addedK, List.mem_filter, Bool.not_eq_true']
    constructor
    · rintro ⟨h2, hf⟩
      refine ⟨h2, fun h1 => ?_⟩
      rw [(many1 k (hstr2 k h2)).2 h1] at hf; cases hf
    · rintro ⟨h2, h1⟩
      refine ⟨h2, ?_⟩
      cases hany : (kvs1.map (·.1)).any (fun k' => keyEq k' k) with
      | false => rfl
      | true => exact absurd ((many1 k (hstr2 k h2)).1 hany) h1
  · intro k
    simp only [removedK, List.mem_filter, Bool.not_eq_true']
    constructor
    · rintro ⟨h1, hf⟩
      refine ⟨h1, fun h2 => ?_⟩
      rw [(many2 k (hstr1 k h1)).2 h2] at hf; cases hf
    · rintro ⟨h1, h2⟩
      refine ⟨h1, ?_⟩
      cases hany : (kvs2.map (·.1)).any (fun k' => keyEq k' k) with
      | false => rfl
      | true => exact absurd ((many2 k (hstr1 k h1)).1 hany) h2
  · intro k
    simp only [interK, List.mem_filter]
    constructor
    · rintro ⟨h2, hany⟩; exact ⟨(many1 k (hstr2 k h2)).1 hany, h2⟩
    · rintro ⟨h1, h2⟩; exact ⟨h2, (many1 k (hstr2 k h2)).2 h1⟩

/-- the `values_changed` / `type_changes` entries of the payload that come from key `k` -/
def VCk (directed : Bool) (kvs1 kvs2 : List (PyVal × PyVal)) (k : PyVal) : List Change :=
  catMap .valuesChanged (vcF directed) (childTree k (valAt kvs1 k) (valAt kvs2 k))
def TCk (directed always : Bool) (kvs1 kvs2 : List (PyVal × PyVal)) (k : PyVal) : List Change :=
  catMap .typeChanges (tcF directed always) (childTree k (valAt kvs1 k) (valAt kvs2 k))
def pVk (directed : Bool) (kvs1 kvs2 : List (PyVal × PyVal)) (k : PyVal) : Bool := !(VCk directed kvs1 kvs2 k).isEmpty
def pTk (directed always : Bool) (kvs1 kvs2 : List (PyVal × PyVal)) (k : PyVal) : Bool := !(TCk directed always kvs1 kvs2 k).isEmpty

theorem str_beq_self (k : PyVal) (h : ∃ s, k = PyVal.str s) : (k == k) = true := by
  obtain ⟨s, rfl⟩ := h
  show strictEq (PyVal.str s) (PyVal.str s) = true
  simp [strictEq]

/-- every shared key is of exactly one kind: its type changed, nothing changed, its value changed -/
theorem flat_cls (directed always : Bool) (kvs1 kvs2 : List (PyVal × PyVal)) (k : PyVal) (hk : ∃ s, k = .str s) :
    (typeName (valAt kvs1 k) ≠ typeName (valAt kvs2 k) ∧ pTk directed always kvs1 kvs2 k = true ∧ pVk directed kvs1 kvs2 k = false ∧
        TCk directed always kvs1 kvs2 k = [tcChange directed always k (valAt kvs1 k) (valAt kvs2 k)] ∧ VCk directed kvs1 kvs2 k = []) ∨
    (pTk directed always kvs1 kvs2 k = false ∧ pVk directed kvs1 kvs2 k = false ∧ TCk directed always kvs1 kvs2 k = [] ∧ VCk directed kvs1 kvs2 k = [] ∧
        typeName (valAt kvs1 k) = typeName (valAt kvs2 k) ∧ leafDiff [⟨.dict, some k, some k⟩] (valAt kvs1 k) (valAt kvs2 k) = []) ∨
    (typeName (valAt kvs1 k) = typeName (valAt kvs2 k) ∧ pTk directed always kvs1 kvs2 k = false ∧ pVk directed kvs1 kvs2 k = true ∧
        TCk directed always kvs1 kvs2 k = [] ∧ VCk directed kvs1 kvs2 k = [vcChange directed k (valAt kvs1 k) (valAt kvs2 k)]) := by
  obtain ⟨_, _, h⟩ := catMap_child directed always k (valAt kvs1 k) (valAt kvs2 k) (str_beq_self k hk)
  rcases h with ⟨ht, h1, h2⟩ | ⟨ht, hl, h1, h2⟩ | ⟨ht, h1, h2⟩
  · exact Or.inl ⟨ht, by simp [pTk, TCk, h1], by simp [pVk, VCk, h2], h1, h2⟩
  · exact Or.inr (Or.inl ⟨by simp [pTk, TCk, h1], by simp [pVk, VCk, h2], h1, h2, ht, hl⟩)
  · exact Or.inr (Or.inr ⟨ht, by simp [pTk, TCk, h1], by simp [pVk, VCk, h2], h1, h2⟩)

theorem flatT_cats (kvs1 kvs2 : List (PyVal × PyVal)) :
    ∀ e ∈ flatT kvs1 kvs2, e.1 = .typeChanges ∨ e.1 = .valuesChanged ∨ e.1 = .dictAdded ∨ e.1 = .dictRemoved := by
  intro e he
  simp only [flatT, List.mem_append, List.mem_map, List.mem_flatMap] at he
  rcases he with (⟨k, _, rfl⟩ | ⟨k, _, rfl⟩) | ⟨k, _, hek⟩
  · exact Or.inr (Or.inr (Or.inl rfl))
  · exact Or.inr (Or.inr (Or.inr rfl))
  · rcases childTree_cases k (valAt kvs1 k) (valAt kvs2 k) with ⟨_, h⟩ | ⟨_, h, _⟩ | ⟨_, ud, h⟩ <;> rw [h] at hek <;> simp at hek
    · rw [hek]; exact Or.inl rfl
    · rw [hek]; exact Or.inr (Or.inl rfl)

/-- **the payload of a flat diff tree, in closed form** -/
theorem flat_payload (directed always : Bool) (t1 t2 : PyVal) (kvs1 kvs2 : List (PyVal × PyVal)) (hk : FlatKeys kvs1 kvs2) :
    (buildDelta directed always t1 t2 ⟨flatT kvs1 kvs2, []⟩).valuesChanged =
      ((interK kvs1 kvs2).filter (pVk directed kvs1 kvs2)).map (fun k => vcChange directed k (valAt kvs1 k) (valAt kvs2 k)) ∧
    (buildDelta directed always t1 t2 ⟨flatT kvs1 kvs2, []⟩).typeChanges =
      ((interK kvs1 kvs2).filter (pTk directed always kvs1 kvs2)).map (fun k => tcChange directed always k (valAt kvs1 k) (valAt kvs2 k)) ∧
    (buildDelta directed always t1 t2 ⟨flatT kvs1 kvs2, []⟩).dictAdded = (addedK kvs1 kvs2).map (fun k => (([k] : DPath), valAt kvs2 k)) ∧
    (buildDelta directed always t1 t2 ⟨flatT kvs1 kvs2, []⟩).dictRemoved = (removedK kvs1 kvs2).map (fun k => (([k] : DPath), valAt kvs1 k)) := by
  obtain ⟨fV, fT, fA, fR⟩ := build_fields directed always t1 t2 (flatT kvs1 kvs2)
  have hstrI : ∀ k ∈ interK kvs1 kvs2, ∃ s, k = .str s := fun k hki => hk.str2 k ((hk.mem_inter k).1 hki).2
  refine ⟨?_, ?_, ?_, ?_⟩
  · rw [fV]
    simp only [flatT, catMap_append, catMap_flatMap]
    rw [(catMap_added _ _).2 (β := Change) .valuesChanged (vcF directed) (by decide),
      (catMap_removed _ _).2 (β := Change) .valuesChanged (vcF directed) (by decide), List.nil_append, List.nil_append]
    apply flatMap_opt
    intro k hki
    rcases flat_cls directed always kvs1 kvs2 k (hstrI k hki) with ⟨_, _, h2, _, h4⟩ | ⟨_, h2, _, h4, _⟩ | ⟨_, _, h2, _, h4⟩
    · exact ⟨fun h => (by rw [h2] at h; cases h), fun _ => h4⟩
    · exact ⟨fun h => (by rw [h2] at h; cases h), fun _ => h4⟩
    · exact ⟨fun _ => h4, fun h => (by rw [h2] at h; cases h)⟩
  · rw [fT]
    simp only [flatT, catMap_append, catMap_flatMap]
    rw [(catMap_added _ _).2 (β := Change) .typeChanges (tcF directed always) (by decide),
      (catMap_removed _ _).2 (β := Change) .typeChanges (tcF directed always) (by decide), List.nil_append, List.nil_append]
    apply flatMap_opt
    intro k hki
    rcases flat_cls directed always kvs1 kvs2 k (hstrI k hki) with ⟨_, h1, _, h3, _⟩ | ⟨h1, _, h3, _⟩ | ⟨_, h1, _, h3, _⟩
    · exact ⟨fun _ => h3, fun h => (by rw [h1] at h; cases h)⟩
    · exact ⟨fun h => (by rw [h1] at h; cases h), fun _ => h3⟩
    · exact ⟨fun h => (by rw [h1] at h; cases h), fun _ => h3⟩
  · rw [fA]
    simp only [flatT, catMap_append, catMap_flatMap]
    rw [(catMap_added _ _).1, (catMap_removed _ _).2 (β := DPath × PyVal) .dictAdded plainF (by decide)]
    have : (interK kvs1 kvs2).flatMap (fun k => catMap Cat.dictAdded plainF (childTree k (valAt kvs1 k) (valAt kvs2 k))) = [] := by
      rw [← flatMap_nil' (β := DPath × PyVal) (interK kvs1 kvs2)]
      apply flatMap_congr'
      intro k hki
      exact (catMap_child directed always k _ _ (str_beq_self k (hstrI k hki))).1
    rw [this]; simp; intro a _; rfl
  · rw [fR]
    simp only [flatT, catMap_append, catMap_flatMap]
    rw [(catMap_added _ _).2 (β := DPath × PyVal) .dictRemoved plainF (by decide), (catMap_removed _ _).1]
    have : (interK kvs1 kvs2).flatMap (fun k => catMap Cat.dictRemoved plainF (childTree k (valAt kvs1 k) (valAt kvs2 k))) = [] := by
      rw [← flatMap_nil' (β := DPath × PyVal) (interK kvs1 kvs2)]
      apply flatMap_congr'
      intro k hki
      exact (catMap_child directed always k _ _ (str_beq_self k (hstrI k hki))).2.1
    rw [this]; simp; intro a _; rfl

set_option maxHeartbeats 1000000 in
/-- **A flat payload applied to a flat dictionary**, in either direction mode: the delta's four fields are
given over a list `L` of shared keys, the added and the removed keys; every entry writes what the target holds. -/
theorem flat_apply_gen (bidir : Bool) (d : DeltaD) (kvsA kvsB : List (PyVal × PyVal))
    (hsA : StrKeys kvsA) (hsB : StrKeys kvsB) (hnA : (kvsA.map (·.1)).Nodup) (hnB : (kvsB.map (·.1)).Nodup)
    (hbA : ∀ p ∈ kvsA, isBasic p.2 = true) (hbB : ∀ p ∈ kvsB, isBasic p.2 = true)
    (L added removed : List PyVal) (hLn : L.Nodup) (haddn : added.Nodup) (hremn : removed.Nodup)
    (hLm : ∀ k, k ∈ L ↔ k ∈ kvsA.map (·.1) ∧ k ∈ kvsB.map (·.1))
    (haddm : ∀ k, k ∈ added ↔ k ∈ kvsB.map (·.1) ∧ k ∉ kvsA.map (·.1))
    (hremm : ∀ k, k ∈ removed ↔ k ∈ kvsA.map (·.1) ∧ k ∉ kvsB.map (·.1))
    (pV pT : PyVal → Bool) (vc tc : PyVal → Change)
    (hVC : d.valuesChanged = (L.filter pV).map vc) (hTC : d.typeChanges = (L.filter pT).map tc)
    (hDA : d.dictAdded = added.map (fun k => (([k] : DPath), valAt kvsB k)))
    (hDR : d.dictRemoved = removed.map (fun k => (([k] : DPath), valAt kvsA k)))
    (he : d.setAdded = [] ∧ d.setRemoved = [] ∧ d.opcodes = [] ∧ d.iterAdded = [] ∧ d.iterRemoved = [])
    (hvc : ∀ k ∈ L, pV k = true → pT k = false ∧ (vc k).path = [k] ∧ resolve false (vc k) (valAt kvsA k) = some (valAt kvsB k) ∧
        Verified bidir (vc k) (valAt kvsA k))
    (htc : ∀ k ∈ L, pT k = true → (tc k).path = [k] ∧
        (∃ res, resolve true (tc k) (valAt kvsA k) = some res ∧ (res = valAt kvsB k ∨ pyEq res (valAt kvsB k) = true)) ∧
        Verified bidir (tc k) (valAt kvsA k))
    (hsame : ∀ k ∈ L, pV k = false → pT k = false → pyEq (valAt kvsA k) (valAt kvsB k) = true) :
    ∃ r, applyDelta bidir d (.dict kvsA) = { root := r } ∧ pyEq r (.dict kvsB) = true := by
  have hstrA : ∀ k ∈ kvsA.map (·.1), ∃ s, k = .str s := by
    intro k hk; obtain ⟨p, hp', rfl⟩ := List.mem_map.1 hk; exact hsA p hp'
  have hstrB : ∀ k ∈ kvsB.map (·.1), ∃ s, k = .str s := by
    intro k hk; obtain ⟨p, hp', rfl⟩ := List.mem_map.1 hk; exact hsB p hp'
  let A : PyVal → PyVal := valAt kvsA
  let B : PyVal → PyVal := valAt kvsB
  have hkAof : ∀ k ∈ L, k ∈ kvsA.map (·.1) := fun k hk => ((hLm k).1 hk).1
  have hkBof : ∀ k ∈ L, k ∈ kvsB.map (·.1) := fun k hk => ((hLm k).1 hk).2
  let resT : PyVal → PyVal := fun k => (resolve true (tc k) (A k)).getD (B k)
  have hresT : ∀ k ∈ L, pT k = true → resolve true (tc k) (A k) = some (resT k) ∧ (resT k = B k ∨ pyEq (resT k) (B k) = true) := by
    intro k hk hp
    obtain ⟨_, ⟨res, h1, h2⟩, _⟩ := htc k hk hp
    have : resT k = res := by
      show (resolve true (tc k) (valAt kvsA k)).getD (valAt kvsB k) = res
      rw [h1]; rfl
    rw [this]; exact ⟨h1, h2⟩
  let vcI : List ChItem := (L.filter pV).map (fun k => ⟨vc k, k, A k, B k⟩)
  let tcI : List ChItem := (L.filter pT).map (fun k => ⟨tc k, k, A k, resT k⟩)
  let adds : List (PyVal × PyVal) := added.map (fun k => (k, B k))
  let rems : List (DPath × PyVal) := removed.map (fun k => (([k] : DPath), A k))
  have kvcI : vcI.map (·.k) = L.filter pV := by simp [vcI, List.map_map, Function.comp_def]
  have ktcI : tcI.map (·.k) = L.filter pT := by simp [tcI, List.map_map, Function.comp_def]
  have kadds : adds.map (·.1) = added := by simp [adds, List.map_map, Function.comp_def]
  have krems : rems.map (fun e => e.1.headD .none) = removed := by simp [rems, List.map_map, Function.comp_def]
  have hdisj : (vcI.map (·.k) ++ tcI.map (·.k) ++ adds.map (·.1) ++ rems.map (fun e => e.1.headD .none)).Nodup := by
    rw [kvcI, ktcI, kadds, krems]
    rw [List.nodup_append]
    refine ⟨?_, hremn, ?_⟩
    · rw [List.nodup_append]
      refine ⟨?_, haddn, ?_⟩
      · rw [List.nodup_append]
        refine ⟨hLn.sublist List.filter_sublist, hLn.sublist List.filter_sublist, ?_⟩
        intro a ha b hb hab
        subst hab
        obtain ⟨hi, hv⟩ := List.mem_filter.1 ha
        obtain ⟨_, ht⟩ := List.mem_filter.1 hb
        have := (hvc a hi hv).1
        rw [this] at ht; cases ht
      · intro a ha b hb hab
        subst hab
        have hi : a ∈ L := by
          rcases List.mem_append.1 ha with h | h <;> exact (List.mem_filter.1 h).1
        exact ((haddm a).1 hb).2 (hkAof a hi)
    · intro a ha b hb hab
      subst hab
      have h2 : a ∈ kvsB.map (·.1) := by
        rcases List.mem_append.1 ha with h | h
        · rcases List.mem_append.1 h with h | h <;> exact hkBof a (List.mem_filter.1 h).1
        · exact ((haddm a).1 h).1
      exact ((hremm a).1 hb).2 h2
  have hA : ∀ k, pyEq (A k) (A k) = true := fun k => pyEq_refl_basic' _ (valAt_basic kvsA hbA k)
  have hB : ∀ k, pyEq (B k) (B k) = true := fun k => pyEq_refl_basic' _ (valAt_basic kvsB hbB k)
  obtain ⟨ys, hperm, happly⟩ := applyDelta_flat bidir d kvsA hsA hnA vcI tcI adds rems
    (by rw [hVC]; simp [vcI, List.map_map, Function.comp_def])
    (by rw [hTC]; simp [tcI, List.map_map, Function.comp_def])
    (by rw [hDA]; simp [adds, List.map_map, Function.comp_def]; intro a _; rfl)
    (by rw [hDR])
    he
    (by
      intro i hi
      obtain ⟨k, hk, rfl⟩ := List.mem_map.1 hi
      obtain ⟨hki, hpv⟩ := List.mem_filter.1 hk
      obtain ⟨_, h1, h2, h3⟩ := hvc k hki hpv
      exact ⟨h1, h2, hstrB k (hkBof k hki), dictGet_valAt kvsA hsA hnA k (hkAof k hki), h3⟩)
    (by
      intro i hi
      obtain ⟨k, hk, rfl⟩ := List.mem_map.1 hi
      obtain ⟨hki, hpt⟩ := List.mem_filter.1 hk
      obtain ⟨h1, _, h3⟩ := htc k hki hpt
      exact ⟨h1, (hresT k hki hpt).1, hstrB k (hkBof k hki), dictGet_valAt kvsA hsA hnA k (hkAof k hki), h3⟩)
    (by
      intro p hp
      obtain ⟨k, hk, rfl⟩ := List.mem_map.1 hp
      exact hstrB k ((haddm k).1 hk).1)
    (by
      intro e he'
      obtain ⟨k, hk, rfl⟩ := List.mem_map.1 he'
      have hk1m := ((hremm k).1 hk).1
      exact ⟨k, rfl, hstrA k hk1m, _, dictGet_valAt kvsA hsA hnA k hk1m, fun _ => hA k⟩)
    hdisj
  refine ⟨_, happly, ?_⟩
  generalize hops : (vcI.map (fun i => (i.k, some i.res)) ++ tcI.map (fun i => (i.k, some i.res)) ++
      adds.map (fun p => (p.1, some p.2)) ++ ys.map (fun e => (e.1.headD .none, Option.none)) : List (PyVal × Option PyVal)) = ops
  have hkeys : ops.map (·.1) = vcI.map (·.k) ++ tcI.map (·.k) ++ adds.map (·.1) ++ ys.map (fun e => e.1.headD .none) := by
    rw [← hops]; simp [List.map_append, List.map_map, Function.comp_def]
  have hpk : (ys.map (fun e => e.1.headD .none)).Perm removed := by
    rw [← krems]; exact hperm.map _
  have hkeysP : (ops.map (·.1)).Perm (L.filter pV ++ L.filter pT ++ added ++ removed) := by
    rw [hkeys, kvcI, ktcI, kadds]
    exact List.Perm.append_left _ hpk
  have hnd : (ops.map (·.1)).Nodup := by
    rw [hkeysP.nodup_iff]
    rw [kvcI, ktcI, kadds, krems] at hdisj
    exact hdisj
  have memK : ∀ k, k ∈ ops.map (·.1) ↔ (k ∈ L ∧ pV k = true) ∨ (k ∈ L ∧ pT k = true) ∨ k ∈ added ∨ k ∈ removed := by
    intro k
    rw [hkeysP.mem_iff]
    simp only [List.mem_append, List.mem_filter, or_assoc]
  have hsops : ∀ op ∈ ops, ∃ s, op.1 = .str s := by
    intro op hop
    have hm : op.1 ∈ ops.map (·.1) := List.mem_map.2 ⟨op, hop, rfl⟩
    rcases (memK op.1).1 hm with ⟨h, _⟩ | ⟨h, _⟩ | h | h
    · exact hstrB _ (hkBof _ h)
    · exact hstrB _ (hkBof _ h)
    · exact hstrB _ ((haddm _).1 h).1
    · exact hstrA _ ((hremm _).1 h).1
  obtain ⟨hsR, hnR, g⟩ := runOps_spec ops kvsA hsA hnA hsops hnd
  apply pyEq_dict_of_lookup _ _ hsR hnR hsB hnB
  intro k hk
  obtain ⟨gin, gout⟩ := g k hk
  by_cases h2 : k ∈ kvsB.map (·.1)
  · have hg2 : dictGet kvsB k = some (B k) := dictGet_valAt kvsB hsB hnB k h2
    by_cases h1 : k ∈ kvsA.map (·.1)
    · have hi := (hLm k).2 ⟨h1, h2⟩
      cases cT : pT k with
      | true =>
        have hm : (k, some (resT k)) ∈ ops := by
          rw [← hops]
          apply List.mem_append_left; apply List.mem_append_left; apply List.mem_append_right
          exact List.mem_map.2 ⟨⟨tc k, k, A k, resT k⟩, List.mem_map.2 ⟨k, List.mem_filter.2 ⟨hi, cT⟩, rfl⟩, rfl⟩
        have hget := gin _ hm
        constructor
        · intro x hx
          rw [hget] at hx; cases hx
          refine ⟨B k, hg2, ?_⟩
          rcases (hresT k hi cT).2 with h | h
          · rw [h]; exact hB k
          · exact h
        · intro hnone; rw [hget] at hnone; cases hnone
      | false =>
        cases cV : pV k with
        | true =>
          have hm : (k, some (B k)) ∈ ops := by
            rw [← hops]
            apply List.mem_append_left; apply List.mem_append_left; apply List.mem_append_left
            exact List.mem_map.2 ⟨⟨vc k, k, A k, B k⟩, List.mem_map.2 ⟨k, List.mem_filter.2 ⟨hi, cV⟩, rfl⟩, rfl⟩
          have hget := gin _ hm
          constructor
          · intro x hx
            rw [hget] at hx; cases hx
            exact ⟨B k, hg2, hB k⟩
          · intro hnone; rw [hget] at hnone; cases hnone
        | false =>
          have hnot : k ∉ ops.map (·.1) := by
            rw [memK]
            rintro (⟨_, h⟩ | ⟨_, h⟩ | h | h)
            · rw [cV] at h; cases h
            · rw [cT] at h; cases h
            · exact ((haddm k).1 h).2 h1
            · exact ((hremm k).1 h).2 h2
          have hget := gout hnot
          rw [dictGet_valAt kvsA hsA hnA k h1] at hget
          constructor
          · intro x hx
            rw [hget] at hx; cases hx
            exact ⟨B k, hg2, hsame k hi cV cT⟩
          · intro hnone; rw [hget] at hnone; cases hnone
    · have ha : k ∈ added := (haddm k).2 ⟨h2, h1⟩
      have hm : (k, some (B k)) ∈ ops := by
        rw [← hops]
        apply List.mem_append_left; apply List.mem_append_right
        exact List.mem_map.2 ⟨(k, B k), List.mem_map.2 ⟨k, ha, rfl⟩, rfl⟩
      have hget := gin _ hm
      constructor
      · intro x hx
        rw [hget] at hx; cases hx
        exact ⟨B k, hg2, hB k⟩
      · intro hnone; rw [hget] at hnone; cases hnone
  · have hg2 : dictGet kvsB k = Option.none := (dictGet_none_iff kvsB hsB k hk).2 h2
    by_cases h1 : k ∈ kvsA.map (·.1)
    · have hr : k ∈ removed := (hremm k).2 ⟨h1, h2⟩
      have hm : (k, Option.none) ∈ ops := by
        rw [← hops]
        apply List.mem_append_right
        have : (([k] : DPath), A k) ∈ ys := hperm.mem_iff.2 (List.mem_map.2 ⟨k, hr, rfl⟩)
        exact List.mem_map.2 ⟨_, this, rfl⟩
      have hget := gin _ hm
      constructor
      · intro x hx; rw [hget] at hx; cases hx
      · intro _; exact hg2
    · have hnot : k ∉ ops.map (·.1) := by
        rw [memK]
        rintro (⟨h, _⟩ | ⟨h, _⟩ | h | h)
        · exact h2 (hkBof k h)
        · exact h2 (hkBof k h)
        · exact h2 ((haddm k).1 h).1
        · exact h1 ((hremm k).1 h).1
      have hget := gout hnot
      rw [(dictGet_none_iff kvsA hsA k hk).2 h1] at hget
      constructor
      · intro x hx; rw [hget] at hx; cases hx
      · intro _; exact hg2

theorem pyEq_symm_basic (a b : PyVal) (ha : isBasic a = true) (ht : typeName a = typeName b) (h : pyEq a b = true) : pyEq b a = true := by
  cases a <;> simp [isBasic] at ha <;> cases b <;> simp [typeName] at ht <;>
    first
    | rfl
    | (simp only [pyEq] at h ⊢; exact Py.numEq_symm h)
    | (simp only [pyEq, beq_iff_eq] at h ⊢; exact h.symm)

/-- forwards: the payload of the flat tree applied to the first dictionary, plain or bidirectional -/
theorem flat_apply (bidir directed always : Bool) (hmode : bidir = true → directed = false ∧ always = true)
    (kvs1 kvs2 : List (PyVal × PyVal))
    (hs1 : StrKeys kvs1) (hs2 : StrKeys kvs2) (hn1 : (kvs1.map (·.1)).Nodup) (hn2 : (kvs2.map (·.1)).Nodup)
    (hb1 : ∀ p ∈ kvs1, isBasic p.2 = true) (hb2 : ∀ p ∈ kvs2, isBasic p.2 = true) (t1 t2 : PyVal) :
    ∃ r, applyDelta bidir (buildDelta directed always t1 t2 ⟨flatT kvs1 kvs2, []⟩) (.dict kvs1) = { root := r } ∧ pyEq r (.dict kvs2) = true := by
  have hk := flatKeys kvs1 kvs2 hs1 hs2 hn1 hn2
  obtain ⟨hVC, hTC, hDA, hDR⟩ := flat_payload directed always t1 t2 kvs1 kvs2 hk
  have he := build_empty directed always t1 t2 (flatT kvs1 kvs2) (flatT_cats kvs1 kvs2)
  have hstrI : ∀ k ∈ interK kvs1 kvs2, ∃ s, k = .str s := fun k hki => hk.str2 k ((hk.mem_inter k).1 hki).2
  have hA : ∀ k, pyEq (valAt kvs1 k) (valAt kvs1 k) = true := fun k => pyEq_refl_basic' _ (valAt_basic kvs1 hb1 k)
  refine flat_apply_gen bidir _ kvs1 kvs2 hs1 hs2 hn1 hn2 hb1 hb2 (interK kvs1 kvs2) (addedK kvs1 kvs2) (removedK kvs1 kvs2)
    hk.nd_inter hk.nd_added hk.nd_removed hk.mem_inter hk.mem_added hk.mem_removed
    (pVk directed kvs1 kvs2) (pTk directed always kvs1 kvs2) _ _ hVC hTC hDA hDR he ?_ ?_ ?_
  · intro k hki hpv
    rcases flat_cls directed always kvs1 kvs2 k (hstrI k hki) with ⟨_, _, h, _⟩ | ⟨_, h, _⟩ | ⟨_, h1, _⟩
    · rw [h] at hpv; cases hpv
    · rw [h] at hpv; cases hpv
    · refine ⟨h1, rfl, by simp [resolve, vcChange], ?_⟩
      intro hb
      obtain ⟨rfl, _⟩ := hmode hb
      exact ⟨valAt kvs1 k, by simp [vcChange], hA k⟩
  · intro k hki hpt
    refine ⟨rfl, resolve_tc directed always k _ _, ?_⟩
    intro hb
    obtain ⟨rfl, rfl⟩ := hmode hb
    exact ⟨valAt kvs1 k, by simp [tcChange], hA k⟩
  · intro k hki hpv hpt
    rcases flat_cls directed always kvs1 kvs2 k (hstrI k hki) with ⟨_, h, _⟩ | ⟨_, _, _, _, ht, hl⟩ | ⟨_, _, h, _⟩
    · rw [h] at hpt; cases hpt
    · exact leafDiff_nil _ _ _ (valAt_basic kvs1 hb1 k) ht hl
    · rw [h] at hpv; cases hpv

/-- backwards: the reversed payload of a bidirectional delta applied to the second dictionary gives the first -/
theorem flat_apply_rev (kvs1 kvs2 : List (PyVal × PyVal))
    (hs1 : StrKeys kvs1) (hs2 : StrKeys kvs2) (hn1 : (kvs1.map (·.1)).Nodup) (hn2 : (kvs2.map (·.1)).Nodup)
    (hb1 : ∀ p ∈ kvs1, isBasic p.2 = true) (hb2 : ∀ p ∈ kvs2, isBasic p.2 = true) (t1 t2 : PyVal) :
    ∃ r, applyDelta true (reverseDelta (buildDelta false true t1 t2 ⟨flatT kvs1 kvs2, []⟩)) (.dict kvs2) = { root := r } ∧
      pyEq r (.dict kvs1) = true := by
  have hk := flatKeys kvs1 kvs2 hs1 hs2 hn1 hn2
  obtain ⟨hVC, hTC, hDA, hDR⟩ := flat_payload false true t1 t2 kvs1 kvs2 hk
  obtain ⟨e1, e2, e3, e4, e5⟩ := build_empty false true t1 t2 (flatT kvs1 kvs2) (flatT_cats kvs1 kvs2)
  have hstrI : ∀ k ∈ interK kvs1 kvs2, ∃ s, k = .str s := fun k hki => hk.str2 k ((hk.mem_inter k).1 hki).2
  have hB : ∀ k, pyEq (valAt kvs2 k) (valAt kvs2 k) = true := fun k => pyEq_refl_basic' _ (valAt_basic kvs2 hb2 k)
  refine flat_apply_gen true _ kvs2 kvs1 hs2 hs1 hn2 hn1 hb2 hb1 (interK kvs1 kvs2) (removedK kvs1 kvs2) (addedK kvs1 kvs2)
    hk.nd_inter hk.nd_removed hk.nd_added (fun k => (hk.mem_inter k).trans And.comm) hk.mem_removed hk.mem_added
    (pVk false kvs1 kvs2) (pTk false true kvs1 kvs2)
    (fun k => vcChange false k (valAt kvs2 k) (valAt kvs1 k)) (fun k => tcChange false true k (valAt kvs2 k) (valAt kvs1 k))
    ?_ ?_ ?_ ?_ ?_ ?_ ?_ ?_
  · simp only [reverseDelta, hVC, List.map_map]
    apply List.map_congr_left
    intro k _
    simp [vcChange]
  · simp only [reverseDelta, hTC, List.map_map]
    apply List.map_congr_left
    intro k _
    simp [tcChange]
  · simp only [reverseDelta, hDR]
  · simp only [reverseDelta, hDA]
  · simp [reverseDelta, e1, e2, e3, e4, e5]
  · intro k hki hpv
    rcases flat_cls false true kvs1 kvs2 k (hstrI k hki) with ⟨_, _, h, _⟩ | ⟨_, h, _⟩ | ⟨_, h1, _⟩
    · rw [h] at hpv; cases hpv
    · rw [h] at hpv; cases hpv
    · exact ⟨h1, rfl, by simp [resolve, vcChange], fun _ => ⟨valAt kvs2 k, by simp [vcChange], hB k⟩⟩
  · intro k hki hpt
    exact ⟨rfl, resolve_tc false true k _ _, fun _ => ⟨valAt kvs2 k, by simp [tcChange], hB k⟩⟩
  · intro k hki hpv hpt
    rcases flat_cls false true kvs1 kvs2 k (hstrI k hki) with ⟨_, h, _⟩ | ⟨_, _, _, _, ht, hl⟩ | ⟨_, _, h, _⟩
    · rw [h] at hpt; cases hpt
    · exact pyEq_symm_basic _ _ (valAt_basic kvs1 hb1 k) ht (leafDiff_nil _ _ _ (valAt_basic kvs1 hb1 k) ht hl)
    · rw [h] at hpv; cases hpv

theorem pyEq_dict_self (kvs : List (PyVal × PyVal)) (hs : StrKeys kvs) (hn : (kvs.map (·.1)).Nodup)
    (hb : ∀ p ∈ kvs, isBasic p.2 = true) : pyEq (.dict kvs) (.dict kvs) = true := by
  apply pyEq_dict_of_lookup kvs kvs hs hn hs hn
  intro k hk
  refine ⟨fun x hx => ⟨x, hx, ?_⟩, fun h => h⟩
  exact pyEq_refl_basic' x (hb _ (mem_of_dictGet kvs hs k x hk hx))

/-- a root-level `values_changed` whose recorded old value `==` the base: applied without error in either mode -/
theorem apply_root_value_bidir (bidir : Bool) (o v base : PyVal) (h : pyEq o base = true) :
    applyDelta bidir { valuesChanged := [{ path := [], oldValue := some o, newValue := some v }] } base = { root := v } := by
  cases bidir <;> simp [applyDelta, Gen.deltaPhases, phase, applyChange, sortPaths, postProcess, h]

/-- the "too different" shortcut: one `values_changed` at the root -/
theorem flat_shortcut {cfg : DCfg} (hp : Diff.Plain cfg) (al : Align) (hashOf : PyVal → String) (kvs1 kvs2 : List (PyVal × PyVal))
    (hpriv : ∀ k, k ∈ kvs1.map (·.1) ∨ k ∈ kvs2.map (·.1) → (cfg.ignorePrivate && isPrivate k) = false)
    (hthr : belowThreshold cfg (interK kvs1 kvs2).length ((kvs2.map (·.1)) ++ removedK kvs1 kvs2).length = true) :
    diffV cfg al hashOf [] (.dict kvs1) (.dict kvs2) =
      ⟨[(.valuesChanged, { steps := [], t1 := some (.dict kvs1), t2 := some (.dict kvs2) })], []⟩ := by
  have hk1 := keysOf_plain hp [] kvs1 (fun k hk => hpriv k (Or.inl hk))
  have hk2 := keysOf_plain hp [] kvs2 (fun k hk => hpriv k (Or.inr hk))
  conv => lhs; unfold diffV
  simp only [interK, removedK] at hthr
  simp only [hk1, hk2, hp.ex, List.isEmpty_nil, if_true, hthr]

/-- the diff of two flat dictionaries: the shortcut entry, or the flat tree -/
theorem flat_deepDiff (cfg : DCfg) (hp : Diff.Plain cfg) (al : Align) (hashOf : PyVal → String)
    (kvs1 kvs2 : List (PyVal × PyVal))
    (hs1 : StrKeys kvs1) (hs2 : StrKeys kvs2) (hn1 : (kvs1.map (·.1)).Nodup) (hn2 : (kvs2.map (·.1)).Nodup)
    (hb1 : ∀ p ∈ kvs1, isBasic p.2 = true)
    (hpriv : ∀ k, k ∈ kvs1.map (·.1) ∨ k ∈ kvs2.map (·.1) → (cfg.ignorePrivate && isPrivate k) = false) :
    deepDiff cfg al hashOf (.dict kvs1) (.dict kvs2) =
        ⟨[(.valuesChanged, { steps := [], t1 := some (.dict kvs1), t2 := some (.dict kvs2) })], []⟩ ∨
    deepDiff cfg al hashOf (.dict kvs1) (.dict kvs2) = ⟨flatT kvs1 kvs2, []⟩ := by
  have hk : ∀ t, keepReported cfg t = t := keepReported_plain hp
  have hd : (if skipSteps cfg [] then ({} : Result) else diffV cfg al hashOf [] (.dict kvs1) (.dict kvs2)) = diffV cfg al hashOf [] (.dict kvs1) (.dict kvs2) := by
    simp [skipSteps_plain hp]
  cases hthr : belowThreshold cfg (interK kvs1 kvs2).length ((kvs2.map (·.1)) ++ removedK kvs1 kvs2).length with
  | true =>
    left
    unfold deepDiff
    rw [hd, flat_shortcut hp al hashOf kvs1 kvs2 hpriv hthr]
    simp only [hk]
    split
    · rfl
    · simp [mutualAddRemoves]
  | false =>
    right
    have htree := flat_tree hp al hashOf kvs1 kvs2 hs1 hs2 hn1 hn2 hpriv hthr
    have hops := flat_opcodes cfg al hashOf kvs1 kvs2 hb1
    have hch : (interK kvs1 kvs2).flatMap
          (fun k => (diffV cfg al hashOf [⟨.dict, some k, some k⟩] (valAt kvs1 k) (valAt kvs2 k)).tree) =
        (interK kvs1 kvs2).flatMap (fun k => childTree k (valAt kvs1 k) (valAt kvs2 k)) := by
      apply flatMap_congr'
      intro k _
      rw [diffV_basic cfg al hashOf _ _ _ (valAt_basic kvs1 hb1 k)]
      rfl
    have htree' : (diffV cfg al hashOf [] (.dict kvs1) (.dict kvs2)).tree = flatT kvs1 kvs2 := by
      rw [htree]; unfold flatT; rw [← hch]; rfl
    have hcatT : ∀ e ∈ flatT kvs1 kvs2, e.1 ≠ Cat.iterAdded ∧ e.1 ≠ Cat.iterRemoved := by
      intro e he
      rcases flatT_cats kvs1 kvs2 e he with h | h | h | h <;> rw [h] <;> exact ⟨by simp, by simp⟩
    unfold deepDiff
    rw [hd]
    simp only [hk, htree', hops]
    split
    · rfl
    · simp only [mutualAddRemoves_noiter _ hcatT]

/-- the round trip for two flat dictionaries (string keys, scalar values), every plain configuration -/
theorem flat_dict_roundtrip (cfg : DCfg) (hp : Diff.Plain cfg) (al : Align) (hashOf : PyVal → String) (directed always : Bool)
    (kvs1 kvs2 : List (PyVal × PyVal))
    (hs1 : StrKeys kvs1) (hs2 : StrKeys kvs2) (hn1 : (kvs1.map (·.1)).Nodup) (hn2 : (kvs2.map (·.1)).Nodup)
    (hb1 : ∀ p ∈ kvs1, isBasic p.2 = true) (hb2 : ∀ p ∈ kvs2, isBasic p.2 = true)
    (hpriv : ∀ k, k ∈ kvs1.map (·.1) ∨ k ∈ kvs2.map (·.1) → (cfg.ignorePrivate && isPrivate k) = false) :
    ∃ r, applyDelta false (buildDelta directed always (.dict kvs1) (.dict kvs2) (deepDiff cfg al hashOf (.dict kvs1) (.dict kvs2))) (.dict kvs1)
        = { root := r } ∧ pyEq r (.dict kvs2) = true := by
  rcases flat_deepDiff cfg hp al hashOf kvs1 kvs2 hs1 hs2 hn1 hn2 hb1 hpriv with h | h <;> rw [h]
  · exact ⟨.dict kvs2, roundtrip_root_value directed always _ _ _, pyEq_dict_self kvs2 hs2 hn2 hb2⟩
  · exact flat_apply false directed always (fun h => by cases h) kvs1 kvs2 hs1 hs2 hn1 hn2 hb1 hb2 _ _

/-- **a bidirectional delta of two flat dictionaries inverts exactly**: `t1 + delta == t2` and `t2 - delta == t1`,
both without a logged error (the recorded old values are verified at every entry) -/
theorem flat_dict_bidirectional (cfg : DCfg) (hp : Diff.Plain cfg) (al : Align) (hashOf : PyVal → String)
    (kvs1 kvs2 : List (PyVal × PyVal))
    (hs1 : StrKeys kvs1) (hs2 : StrKeys kvs2) (hn1 : (kvs1.map (·.1)).Nodup) (hn2 : (kvs2.map (·.1)).Nodup)
    (hb1 : ∀ p ∈ kvs1, isBasic p.2 = true) (hb2 : ∀ p ∈ kvs2, isBasic p.2 = true)
    (hpriv : ∀ k, k ∈ kvs1.map (·.1) ∨ k ∈ kvs2.map (·.1) → (cfg.ignorePrivate && isPrivate k) = false) :
    (∃ r, applyDelta true (buildDelta false true (.dict kvs1) (.dict kvs2) (deepDiff cfg al hashOf (.dict kvs1) (.dict kvs2))) (.dict kvs1)
        = { root := r } ∧ pyEq r (.dict kvs2) = true) ∧
    (∃ r, subDelta true (buildDelta false true (.dict kvs1) (.dict kvs2) (deepDiff cfg al hashOf (.dict kvs1) (.dict kvs2))) (.dict kvs2)
        = .ok { root := r } ∧ pyEq r (.dict kvs1) = true) := by
  have e1 := pyEq_dict_self kvs1 hs1 hn1 hb1
  have e2 := pyEq_dict_self kvs2 hs2 hn2 hb2
  rcases flat_deepDiff cfg hp al hashOf kvs1 kvs2 hs1 hs2 hn1 hn2 hb1 hpriv with h | h <;> rw [h]
  · rw [build_root_value]
    constructor
    · exact ⟨.dict kvs2, apply_root_value_bidir true _ _ _ e1, e2⟩
    · refine ⟨.dict kvs1, ?_, e1⟩
      simp only [subDelta, if_true, reverseDelta, List.map_cons, List.map_nil, Option.getD_none]
      congr 1
      exact apply_root_value_bidir true _ _ _ e2
  · constructor
    · exact flat_apply true false true (fun _ => ⟨rfl, rfl⟩) kvs1 kvs2 hs1 hs2 hn1 hn2 hb1 hb2 _ _
    · obtain ⟨r, h1, h2⟩ := flat_apply_rev kvs1 kvs2 hs1 hs2 hn1 hn2 hb1 hb2 (.dict kvs1) (.dict kvs2)
      exact ⟨r, by simp only [subDelta, if_true, h1], h2⟩

end Delta
