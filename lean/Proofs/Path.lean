import Model.Path.LitEval
/-! Helper lemmas for C09: the character machine of `_path_to_elements` on rendered paths. -/
namespace Path

def run (le : LitEval) (st : PState) (cs : List Char) : PState := cs.foldl (step le) st

theorem run_append (le : LitEval) (st : PState) (a b : List Char) :
    run le st (a ++ b) = run le (run le st a) b := by simp [run, List.foldl_append]

theorem run_cons (le : LitEval) (st : PState) (c : Char) (cs : List Char) :
    run le st (c :: cs) = run le (step le st c) cs := rfl

def lastOr (pv : Option Char) (body : List Char) : Option Char :=
  match body.getLast? with
  | some c => some c
  | none => pv

theorem lastOr_cons (pv : Option Char) (c : Char) (body : List Char) :
    lastOr pv (c :: body) = lastOr (some c) body := by
  cases body with
  | nil => simp [lastOr]
  | cons d ds =>
    simp only [lastOr, List.getLast?_cons_cons]
    cases h : (d :: ds).getLast? with
    | some x => rfl
    | none => simp at h

theorem lastOr_ne_esc {pv : Option Char} {body : List Char} (hp : pv ≠ some esc) (hb : esc ∉ body) :
    lastOr pv body ≠ some esc := by
  unfold lastOr
  cases h : body.getLast? with
  | none => simpa using hp
  | some c =>
    simp only [ne_eq, Option.some.injEq]
    intro hc; subst hc
    exact hb (List.mem_of_getLast? h)

theorem esc_ne_quote : esc ≠ '\'' ∧ esc ≠ '"' ∧ esc ≠ '[' ∧ esc ≠ ']' ∧ esc ≠ '.' := by decide

/-- inside quotes, characters other than the closing quote and the escape marker are appended
verbatim and leave the rest of the state alone -/
theorem run_quoted_body (le : LitEval) (q : Char) (body e : List Char) (ins : Inside) (pv : Option Char)
    (b : Nat) (es : List (Key × Action))
    (hpv : pv ≠ some esc) (hbody : ∀ c ∈ body, c ≠ q ∧ c ≠ esc) :
    run le ⟨e, ins, pv, b, true, some q, es⟩ body = ⟨e ++ body, ins, lastOr pv body, b, true, some q, es⟩ := by
  induction body generalizing e pv with
  | nil => simp [run, lastOr]
  | cons c cs ih =>
    have hc := hbody c (by simp)
    have hcs : ∀ d ∈ cs, d ≠ q ∧ d ≠ esc := fun d hd => hbody d (by simp [hd])
    rw [run_cons, lastOr_cons]
    have hstep : step le ⟨e, ins, pv, b, true, some q, es⟩ c = ⟨e ++ [c], ins, some c, b, true, some q, es⟩ := by
      have h1 : (pv == some esc) = false := by simpa using hpv
      by_cases hq : isQuote c = true
      · have h2 : (some q != some c) = true := by
          simp only [bne_iff_ne, ne_eq, Option.some.injEq]; exact fun h => hc.1 h.symm
        simp [step, h1, hq, h2]
      · simp [step, h1, hq]
    rw [hstep, ih (e ++ [c]) (some c) (by simp [hc.2]) hcs]
    simp

/-- inside brackets and outside quotes, plain characters are appended verbatim -/
theorem run_plain_body (le : LitEval) (body e : List Char) (pv : Option Char) (b : Nat)
    (es : List (Key × Action)) (hpv : pv ≠ some esc)
    (hbody : ∀ c ∈ body, c ≠ '\'' ∧ c ≠ '"' ∧ c ≠ '[' ∧ c ≠ ']' ∧ c ≠ esc) :
    run le ⟨e, .bracket, pv, b, false, none, es⟩ body = ⟨e ++ body, .bracket, lastOr pv body, b, false, none, es⟩ := by
  induction body generalizing e pv with
  | nil => simp [run, lastOr]
  | cons c cs ih =>
    have hc := hbody c (by simp)
    have hcs : ∀ d ∈ cs, d ≠ '\'' ∧ d ≠ '"' ∧ d ≠ '[' ∧ d ≠ ']' ∧ d ≠ esc := fun d hd => hbody d (by simp [hd])
    rw [run_cons, lastOr_cons]
    have hstep : step le ⟨e, .bracket, pv, b, false, none, es⟩ c = ⟨e ++ [c], .bracket, some c, b, false, none, es⟩ := by
      have h1 : (pv == some esc) = false := by simpa using hpv
      have hq : isQuote c = false := by simp [isQuote, hc.1, hc.2.1]
      by_cases hd : c = '.'
      · subst hd; simp [step, h1, hq]
      · simp [step, h1, hq, hc.2.2.1, hc.2.2.2.1, hd]
    rw [hstep, ih (e ++ [c]) (some c) (by simp [hc.2.2.2.2]) hcs]
    simp

end Path

namespace Path

/-- the strings the round-trip is claimed for: not both kinds of quote, no escape marker -/
def SafeStr (p : List Char) : Prop := ¬ ('\'' ∈ p ∧ '"' ∈ p) ∧ esc ∉ p

/-- assumption on `ast.literal_eval` (LE): on a quoted text without backslash whose body does not
contain the delimiter it returns the body or raises -/
def LE (le : LitEval) : Prop :=
  ∀ (q : Char) (body : List Char), (q = '\'' ∨ q = '"') → q ∉ body → '\\' ∉ body →
    le (q :: (body ++ [q])) = some (.str body) ∨ le (q :: (body ++ [q])) = none

/-- a `repr` text the machine passes through untouched -/
def PlainRepr (r : List Char) : Prop :=
  r ≠ [] ∧ startsWithDunder r = false ∧
    ∀ c ∈ r, c ≠ '\'' ∧ c ≠ '"' ∧ c ≠ '[' ∧ c ≠ ']' ∧ c ≠ esc ∧ c ≠ '\\'

/-- the keys the round-trip is claimed for; for non-string keys the two facts about the external
`repr`/`literal_eval` pair are the assumption RE -/
def SafeKey (le : LitEval) : Key → Prop
  | .str p => SafeStr p
  | k => PlainRepr (reprKey k) ∧ le (reprKey k) = some k

theorem stripQuotes_quoted (q : Char) (p : List Char) (hq : q = '\'' ∨ q = '"') :
    stripQuotes (q :: (p ++ [q])) = p := by
  unfold stripQuotes
  have h1 : (q :: (p ++ [q])).head? = some q := rfl
  have h2 : (q :: (p ++ [q])).getLast? = some q := by
    rw [show q :: (p ++ [q]) = (q :: p) ++ [q] by rfl, List.getLast?_append]; simp
  rw [h1, h2]
  have h3 : (q == q && (q == '"' || q == '\'')) = true := by
    rcases hq with rfl | rfl <;> decide
  simp only [h3, ↓reduceIte]
  simp

theorem addToElements_quoted (le : LitEval) (hle : LE le) (es : List (Key × Action)) (q : Char) (p : List Char)
    (hq : q = '\'' ∨ q = '"') (hqp : q ∉ p) (hesc : esc ∉ p) :
    addToElements le es (q :: (p ++ [q])) .bracket = es ++ [(.str p, .get)] := by
  unfold addToElements
  have hne : (q :: (p ++ [q])).isEmpty = false := by simp
  have hdu : startsWithDunder (q :: (p ++ [q])) = false := by
    rcases hq with rfl | rfl <;> simp [startsWithDunder]
  have hqe : q ≠ esc := by rcases hq with rfl | rfl <;> decide
  have hqb : q ≠ '\\' := by rcases hq with rfl | rfl <;> decide
  have hce : (q :: (p ++ [q])).contains esc = false := by
    simp [hesc]; exact fun h => hqe h.symm
  simp only [hne, hdu, hce, Bool.false_eq_true, ↓reduceIte, Bool.false_or]
  have hact : (if (Inside.bracket == Inside.dot) = true then Action.getattr else Action.get) = Action.get := by decide
  by_cases hb : '\\' ∈ p
  · have : (q :: (p ++ [q])).contains '\\' = true := by simp [hb]
    simp only [this, ↓reduceIte, stripQuotes_quoted q p hq, hact]
  · have : (q :: (p ++ [q])).contains '\\' = false := by
      simp [hb]; exact fun h => hqb h.symm
    simp only [this, Bool.false_eq_true, ↓reduceIte]
    rcases hle q p hq hqp hb with h | h <;> simp only [h, stripQuotes_quoted q p hq, hact]

theorem addToElements_plain (le : LitEval) (es : List (Key × Action)) (r : List Char) (k : Key)
    (hr : PlainRepr r) (hle : le r = some k) :
    addToElements le es r .bracket = es ++ [(k, .get)] := by
  unfold addToElements
  obtain ⟨hne, hdu, hall⟩ := hr
  have h1 : r.isEmpty = false := by cases r <;> simp_all
  have h2 : r.contains esc = false := by
    simp only [List.contains_eq_mem, decide_eq_false_iff_not]; exact fun h => (hall _ h).2.2.2.2.1 rfl
  have h3 : r.contains '\\' = false := by
    simp only [List.contains_eq_mem, decide_eq_false_iff_not]; exact fun h => (hall _ h).2.2.2.2.2 rfl
  have hact : (if (Inside.bracket == Inside.dot) = true then Action.getattr else Action.get) = Action.get := by decide
  simp only [h1, hdu, h2, h3, Bool.false_eq_true, ↓reduceIte, Bool.or_self, hle, hact]

theorem addToElements_empty (le : LitEval) (es : List (Key × Action)) (ins : Inside) :
    addToElements le es [] ins = es := by simp [addToElements]

/-- the quote `stringify_element(p, "'{}'")` picks never occurs in `p` when `p` is a SafeStr -/
theorem stringifyElement_quoted (p : List Char) (hs : SafeStr p) :
    ∃ q, (q = '\'' ∨ q = '"') ∧ q ∉ p ∧ stringifyElement p true = q :: (p ++ [q]) := by
  unfold stringifyElement
  by_cases hq : '\'' ∈ p
  · have hd : '"' ∉ p := fun h => hs.1 ⟨hq, h⟩
    refine ⟨'"', Or.inr rfl, hd, ?_⟩
    simp [hq, hd]
  · by_cases hd : '"' ∈ p
    · exact ⟨'\'', Or.inl rfl, hq, by simp [hq, hd]⟩
    · exact ⟨'\'', Or.inl rfl, hq, by simp [hq, hd]⟩

/-- one rendered key, started in the idle state, appends exactly that key with action GET and
returns to the idle state -/
theorem run_renderKey (le : LitEval) (hle : LE le) (k : Key) (hk : SafeKey le k) (pv : Option Char)
    (es : List (Key × Action)) (hpv : pv ≠ some esc) :
    run le ⟨[], .no, pv, 0, false, none, es⟩ (renderKey k) =
      ⟨[], .no, some ']', 0, false, none, es ++ [(k, .get)]⟩ := by
  have h1 : (pv == some esc) = false := by simpa using hpv
  -- the opening bracket
  have hopen : step le ⟨[], .no, pv, 0, false, none, es⟩ '[' = ⟨[], .bracket, some '[', 1, false, none, es⟩ := by
    simp [step, h1, isQuote]
  cases k with
  | str p =>
    obtain ⟨q, hq, hqp, hse⟩ := stringifyElement_quoted p hk
    have hqe : q ≠ esc := by rcases hq with rfl | rfl <;> decide
    have hqq : isQuote q = true := by rcases hq with rfl | rfl <;> decide
    simp only [renderKey, hse, List.cons_append]
    rw [run_cons, hopen, run_cons]
    have hq1 : step le ⟨[], .bracket, some '[', 1, false, none, es⟩ q = ⟨[q], .bracket, some q, 1, true, some q, es⟩ := by
      have : (some '[' == some esc) = false := by decide
      simp [step, this, hqq]
    rw [hq1, show (p ++ [q]) ++ [']'] = p ++ ([q] ++ [']']) by simp, run_append]
    rw [run_quoted_body le q p [q] .bracket (some q) 1 es (by simp [hqe])
          (fun c hc => ⟨fun h => hqp (h ▸ hc), fun h => hk.2 (h ▸ hc)⟩)]
    have hlast : lastOr (some q) p ≠ some esc := lastOr_ne_esc (by simp [hqe]) hk.2
    have hl1 : (lastOr (some q) p == some esc) = false := by simpa using hlast
    rw [show [q] ++ [']'] = q :: [']'] by rfl, run_cons]
    have hq2 : step le ⟨[q] ++ p, .bracket, lastOr (some q) p, 1, true, some q, es⟩ q =
        ⟨[], .bracket, some q, 1, false, none, es ++ [(.str p, .get)]⟩ := by
      have := addToElements_quoted le hle es q p hq hqp hk.2
      simp [step, hl1, hqq, this]
    rw [hq2, run_cons]
    have hqe2 : (some q == some esc) = false := by simp [hqe]
    have hclose : step le ⟨[], .bracket, some q, 1, false, none, es ++ [(.str p, .get)]⟩ ']' =
        ⟨[], .no, some ']', 0, false, none, es ++ [(.str p, .get)]⟩ := by
      simp [step, hqe2, isQuote, addToElements_empty]
    rw [hclose]; rfl
  | int i =>
    obtain ⟨hr, hl⟩ := hk
    simp only [renderKey]
    rw [run_cons, hopen, run_append]
    rw [run_plain_body le _ [] (some '[') 1 es (by decide)
          (fun c hc => ⟨(hr.2.2 c hc).1, (hr.2.2 c hc).2.1, (hr.2.2 c hc).2.2.1, (hr.2.2 c hc).2.2.2.1, (hr.2.2 c hc).2.2.2.2.1⟩)]
    have hlast : lastOr (some '[') (reprKey (.int i)) ≠ some esc :=
      lastOr_ne_esc (by decide) (fun h => (hr.2.2 _ h).2.2.2.2.1 rfl)
    have hl1 : (lastOr (some '[') (reprKey (.int i)) == some esc) = false := by simpa using hlast
    rw [run_cons]
    have := addToElements_plain le es _ _ hr hl
    simp [step, hl1, isQuote, this, run]
  | float r =>
    obtain ⟨hr, hl⟩ := hk
    simp only [renderKey]
    rw [run_cons, hopen, run_append]
    rw [run_plain_body le _ [] (some '[') 1 es (by decide)
          (fun c hc => ⟨(hr.2.2 c hc).1, (hr.2.2 c hc).2.1, (hr.2.2 c hc).2.2.1, (hr.2.2 c hc).2.2.2.1, (hr.2.2 c hc).2.2.2.2.1⟩)]
    have hlast : lastOr (some '[') (reprKey (.float r)) ≠ some esc :=
      lastOr_ne_esc (by decide) (fun h => (hr.2.2 _ h).2.2.2.2.1 rfl)
    have hl1 : (lastOr (some '[') (reprKey (.float r)) == some esc) = false := by simpa using hlast
    rw [run_cons]
    have := addToElements_plain le es _ _ hr hl
    simp [step, hl1, isQuote, this, run]
  | none =>
    obtain ⟨hr, hl⟩ := hk
    simp only [renderKey]
    rw [run_cons, hopen, run_append]
    rw [run_plain_body le _ [] (some '[') 1 es (by decide)
          (fun c hc => ⟨(hr.2.2 c hc).1, (hr.2.2 c hc).2.1, (hr.2.2 c hc).2.2.1, (hr.2.2 c hc).2.2.2.1, (hr.2.2 c hc).2.2.2.2.1⟩)]
    have hlast : lastOr (some '[') (reprKey .none) ≠ some esc :=
      lastOr_ne_esc (by decide) (fun h => (hr.2.2 _ h).2.2.2.2.1 rfl)
    have hl1 : (lastOr (some '[') (reprKey .none) == some esc) = false := by simpa using hlast
    rw [run_cons]
    have := addToElements_plain le es _ _ hr hl
    simp [step, hl1, isQuote, this, run]
  | bool b =>
    obtain ⟨hr, hl⟩ := hk
    simp only [renderKey]
    rw [run_cons, hopen, run_append]
    rw [run_plain_body le _ [] (some '[') 1 es (by decide)
          (fun c hc => ⟨(hr.2.2 c hc).1, (hr.2.2 c hc).2.1, (hr.2.2 c hc).2.2.1, (hr.2.2 c hc).2.2.2.1, (hr.2.2 c hc).2.2.2.2.1⟩)]
    have hlast : lastOr (some '[') (reprKey (.bool b)) ≠ some esc :=
      lastOr_ne_esc (by decide) (fun h => (hr.2.2 _ h).2.2.2.2.1 rfl)
    have hl1 : (lastOr (some '[') (reprKey (.bool b)) == some esc) = false := by simpa using hlast
    rw [run_cons]
    have := addToElements_plain le es _ _ hr hl
    simp [step, hl1, isQuote, this, run]

theorem run_renderKeys (le : LitEval) (hle : LE le) (keys : List Key) (hk : ∀ k ∈ keys, SafeKey le k)
    (pv : Option Char) (es : List (Key × Action)) (hpv : pv ≠ some esc) :
    ∃ pv', pv' ≠ some esc ∧ run le ⟨[], .no, pv, 0, false, none, es⟩ (keys.flatMap renderKey) =
      ⟨[], .no, pv', 0, false, none, es ++ keys.map (fun k => (k, Action.get))⟩ := by
  induction keys generalizing pv es with
  | nil => exact ⟨pv, hpv, by simp [run]⟩
  | cons k ks ih =>
    simp only [List.flatMap_cons, run_append]
    rw [run_renderKey le hle k (hk k (by simp)) pv es hpv]
    obtain ⟨pv', hpv', h⟩ := ih (fun x hx => hk x (by simp [hx])) (some ']') (es ++ [(k, .get)]) (by decide)
    exact ⟨pv', hpv', by rw [h]; simp⟩

end Path
