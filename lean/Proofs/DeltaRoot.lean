import Proofs.Delta
import Proofs.Converse
/-!
The root case of the round trip `t1 + Delta(DeepDiff(t1, t2)) = t2`: whenever the diff is one entry at the
root (two scalars; two values of different types; two dictionaries that are "too different" and are
reported as one change), the delta built from it replaces the root by `t2` — or, for a type change
whose values the delta leaves out, by `new_type(t1)`, which is `== t2` by the very test that left
them out.
-/
namespace Delta
open Py Diff

theorem apply_root_value (o : Option PyVal) (v base : PyVal) :
    applyDelta false { valuesChanged := [{ path := [], oldValue := o, newValue := some v }] } base = { root := v } := by
  simp [applyDelta, Gen.deltaPhases, phase, applyChange, sortPaths, postProcess]

theorem apply_root_type_given (o : Option PyVal) (v base : PyVal) (ot nt : String) :
    applyDelta false { typeChanges := [{ path := [], oldValue := o, newValue := some v, oldType := ot, newType := nt }] } base = { root := v } := by
  simp [applyDelta, Gen.deltaPhases, phase, applyChange, sortPaths, postProcess]

theorem apply_root_type_cast (base c : PyVal) (ot nt : String) (h : castTo nt base = some c) :
    applyDelta false { typeChanges := [{ path := [], oldType := ot, newType := nt }] } base = { root := c } := by
  simp [applyDelta, Gen.deltaPhases, phase, applyChange, sortPaths, postProcess, h]

/-- the payload built from a diff that is one `values_changed` at the root -/
theorem build_root_value (directed always : Bool) (t1 t2 a b : PyVal) (ud : Bool) :
    buildDelta directed always t1 t2 ⟨[(.valuesChanged, { steps := [], t1 := some a, t2 := some b, udiff := ud })], []⟩ =
      { valuesChanged := [{ path := [], oldValue := if directed then Option.none else some a, newValue := some b }] } := by
  cases directed <;> simp [buildDelta, sidePath, groupSet]

/-- the payload built from a diff that is one `type_changes` at the root -/
theorem build_root_type (directed always : Bool) (t1 t2 a b : PyVal) :
    buildDelta directed always t1 t2 ⟨[(.typeChanges, { steps := [], t1 := some a, t2 := some b })], []⟩ =
      { typeChanges := [
          let incl := match castTo (typeName b) a with
            | some c => !(pyEq c b)
            | Option.none => true
          { path := [], oldType := typeName a, newType := typeName b,
            oldValue := if directed then Option.none else (if incl || always then some a else Option.none),
            newValue := if incl || always then some b else Option.none }] } := by
  cases directed <;> simp [buildDelta, sidePath, groupSet] <;> first | rfl | exact ⟨rfl, rfl⟩

/-- **Round trip when the whole difference is one root-level change of value.** -/
theorem roundtrip_root_value (directed always : Bool) (t1 t2 : PyVal) (ud : Bool) :
    applyDelta false (buildDelta directed always t1 t2 ⟨[(.valuesChanged, { steps := [], t1 := some t1, t2 := some t2, udiff := ud })], []⟩) t1
      = { root := t2 } := by
  rw [build_root_value]
  exact apply_root_value _ t2 t1

/-- **Round trip when the whole difference is one root-level change of type**: the result is `t2`, or
`new_type(t1)` when the delta leaves the values out, which it only does when that is `== t2`. -/
theorem roundtrip_root_type (directed always : Bool) (t1 t2 : PyVal) :
    ∃ r, applyDelta false (buildDelta directed always t1 t2 ⟨[(.typeChanges, { steps := [], t1 := some t1, t2 := some t2 })], []⟩) t1
      = { root := r } ∧ (r = t2 ∨ pyEq r t2 = true) := by
  rw [build_root_type]
  cases hc : castTo (typeName t2) t1 with
  | none =>
    simp only [Bool.true_or, if_true]
    exact ⟨t2, apply_root_type_given _ t2 t1 _ _, Or.inl rfl⟩
  | some c =>
    by_cases he : pyEq c t2 = true
    · cases always with
      | true =>
        simp only [he, Bool.not_true, Bool.false_or, if_true]
        exact ⟨t2, apply_root_type_given _ t2 t1 _ _, Or.inl rfl⟩
      | false =>
        simp only [he, Bool.not_true, Bool.or_false, Bool.false_eq_true, if_false]
        refine ⟨c, ?_, Or.inr he⟩
        cases directed <;> exact apply_root_type_cast t1 c _ _ hc
    · have he' : pyEq c t2 = false := by simpa using he
      simp only [he', Bool.not_false, Bool.true_or, if_true]
      exact ⟨t2, apply_root_type_given _ t2 t1 _ _, Or.inl rfl⟩

end Delta
