import Proofs.DeltaList
/-!
The round trip for lists of scalars in the default mode when DeepDiff keeps the difflib pass and records its opcodes:
`Delta` first applies the change entries (all of them at indexes inside blocks that are not `equal`), then rebuilds the
whole list from the opcodes; the rebuild only reads the `equal` blocks of the current list, which are intact.
-/
namespace Delta
open Py Diff

/-- the rebuild only reads the `equal` slices of the current list -/
theorem replay_agree (l xs : List PyVal) : ∀ (ops : List OpV) (acc : List PyVal),
    (∀ o ∈ ops, o.tag = "equal" → (l.drop o.i1).take (o.i2 - o.i1) = (xs.drop o.i1).take (o.i2 - o.i1)) →
    ops.foldl (stepR l) acc = ops.foldl (stepR xs) acc
  | [], _, _ => rfl
  | o :: ops, acc, h => by
    simp only [List.foldl_cons]
    have hs : stepR l acc o = stepR xs acc o := by
      unfold stepR
      split
      · rfl
      · split
        · rename_i _ he
          rw [h o (List.mem_cons_self ..) (by simpa using he)]
        · rfl
    rw [hs]
    exact replay_agree l xs ops _ (fun o' ho' => h o' (List.mem_cons_of_mem _ ho'))

theorem slice_agree (l xs : List PyVal) (i1 n : Nat) (h : ∀ t, t < n → l[i1 + t]? = xs[i1 + t]?) :
    (l.drop i1).take n = (xs.drop i1).take n := by
  apply List.ext_getElem?
  intro t
  rw [List.getElem?_take, List.getElem?_take]
  split
  · rename_i ht
    rw [List.getElem?_drop, List.getElem?_drop]
    exact h t ht
  · rfl

/-- a monotone tiling of the indexes of the first list -/
def MTiles (n : Nat) : Nat → List Opcode → Prop
  | i, [] => i = n
  | i, o :: rest => o.i1 = i ∧ o.i1 ≤ o.i2 ∧ MTiles n o.i2 rest

theorem MTiles_of_TilesO (xs ys : List PyVal) : ∀ (ops : List Opcode) (i j : Nat), TilesO xs ys i j ops → (∀ o ∈ ops, o.i1 ≤ o.i2) →
    MTiles xs.length i ops
  | [], i, j, h, _ => h.2
  | o :: rest, i, j, h, hm => by
    obtain ⟨h1, _, _, _, _, _, hrest⟩ := h
    exact ⟨h1, hm o (List.mem_cons_self ..), MTiles_of_TilesO xs ys rest _ _ hrest (fun o' ho' => hm o' (List.mem_cons_of_mem _ ho'))⟩

theorem MTiles_bounds (n : Nat) : ∀ (ops : List Opcode) (i : Nat), MTiles n i ops → i ≤ n ∧ ∀ o ∈ ops, i ≤ o.i1 ∧ o.i2 ≤ n
  | [], i, h => ⟨by rw [h]; exact Nat.le_refl _, by intro o ho; simp at ho⟩
  | o :: rest, i, h => by
    obtain ⟨h1, h2, h3⟩ := h
    obtain ⟨ih1, ih2⟩ := MTiles_bounds n rest o.i2 h3
    refine ⟨by omega, ?_⟩
    intro o' ho'
    rcases List.mem_cons.1 ho' with rfl | ho'
    · exact ⟨by omega, ih1⟩
    · have := ih2 o' ho'
      exact ⟨by omega, this.2⟩

/-- index `i` lies in a block that is not an `equal` block -/
def touched (ops : List Opcode) (i : Nat) : Prop := ∃ o ∈ ops, o.tag ≠ "equal" ∧ o.i1 ≤ i ∧ i < o.i2

/-- in a monotone tiling an index of an `equal` block is in no other block -/
theorem equal_untouched (n : Nat) : ∀ (ops : List Opcode) (i0 : Nat), MTiles n i0 ops →
    ∀ o ∈ ops, o.tag = "equal" → ∀ i, o.i1 ≤ i → i < o.i2 → ¬ touched ops i
  | [], _, _, o, ho, _, _, _, _ => by simp at ho
  | o' :: rest, i0, h, o, ho, heq, i, h1, h2 => by
    obtain ⟨e1, e2, e3⟩ := h
    obtain ⟨_, hb⟩ := MTiles_bounds n rest o'.i2 e3
    rintro ⟨o2, ho2, hne, h3, h4⟩
    rcases List.mem_cons.1 ho with hoe | hor
    · subst hoe
      rcases List.mem_cons.1 ho2 with ho2e | ho2r
      · subst ho2e; exact hne heq
      · have := (hb o2 ho2r).1; omega
    · rcases List.mem_cons.1 ho2 with ho2e | ho2r
      · subst ho2e
        have := (hb o hor).1; omega
      · exact equal_untouched n rest o'.i2 e3 o hor heq i h1 h2 ⟨o2, ho2r, hne, h3, h4⟩

theorem touched_lt (n : Nat) (ops : List Opcode) (i0 : Nat) (h : MTiles n i0 ops) (i : Nat) (ht : touched ops i) : i < n := by
  obtain ⟨o, ho, _, _, h2⟩ := ht
  have := ((MTiles_bounds n ops i0 h).2 o ho).2
  omega


/-- while the change phases run on a root list whose opcodes are recorded: still a list of the same length, the `equal` blocks intact -/
def OInv (xs : List PyVal) (ops : List Opcode) (st : AState) : Prop :=
  st.raised = none ∧ st.post = [] ∧ ∃ l, st.root = .list l ∧ l.length = xs.length ∧ ∀ i, ¬ touched ops i → l[i]? = xs[i]?

theorem applyChange_OInv (xs : List PyVal) (ops : List Opcode) (bidir isType verify : Bool) (st : AState) (c : Change) (i : Nat)
    (hp : c.path = [.int i]) (ht : touched ops i) (hlt : i < xs.length) (h : OInv xs ops st) :
    OInv xs ops (applyChange bidir isType verify st c) := by
  obtain ⟨hr, hpost, l, hroot, hlen, hag⟩ := h
  have hil : i < l.length := by omega
  have hgi : getItem (.list l) (.int i) = some l[i] := by
    simp [getItem, List.getElem?_eq_getElem hil]
  unfold applyChange
  simp only [hp, List.getLast?_singleton, List.dropLast_singleton, getAt, List.foldlM_nil, hroot, Option.pure_def, hgi]
  have hset : setNewValue st [.int i] = fun v => { st with root := .list (l.set i v) } := by
    funext v
    simp [setNewValue, withContainer, getAt, hroot, isTuple, setElem, hil, replaceAt]
  have hinv : ∀ v (e : Nat), OInv xs ops { root := .list (l.set i v), post := st.post, errs := e, raised := st.raised } := by
    intro v e
    refine ⟨hr, hpost, l.set i v, rfl, by rw [List.length_set]; exact hlen, ?_⟩
    intro j hj
    have hne : i ≠ j := fun e' => hj (e' ▸ ht)
    rw [List.getElem?_set_ne hne]
    exact hag j hj
  generalize (if (isType && c.newValue.isNone) = true then castTo c.newType l[i] else c.newValue) = nv
  cases nv with
  | none => exact ⟨hr, hpost, l, rfl, hlen, hag⟩
  | some v =>
    simp only [hset]
    split <;> (split <;> exact hinv _ _)

theorem foldl_changes_OInv (xs : List PyVal) (ops : List Opcode) (bidir isType verify : Bool) :
    ∀ (cs : List Change) (st : AState), (∀ c ∈ cs, ∃ i : Nat, c.path = [.int i] ∧ touched ops i ∧ i < xs.length) → OInv xs ops st →
      OInv xs ops (cs.foldl (applyChange bidir isType verify) st)
  | [], st, _, h => h
  | c :: cs, st, hc, h => by
    obtain ⟨i, hp, ht, hlt⟩ := hc c (List.mem_cons_self ..)
    exact foldl_changes_OInv xs ops bidir isType verify cs _ (fun c' hc' => hc c' (List.mem_cons_of_mem _ hc'))
      (applyChange_OInv xs ops bidir isType verify st c i hp ht hlt h)


theorem pairBasic_steps : ∀ (X Y : List PyVal) (i j : Nat) (e : Cat × Level), e ∈ pairBasic [] i j X Y → e.1 ≠ .iterAdded →
    ∃ (t : Nat) (p2 : Option PyVal), t < X.length ∧ e.2.steps = [⟨.iter, some (.int ((i + t : Nat) : Int)), p2⟩]
  | [], [], _, _, e, he, _ => by simp [pairBasic] at he
  | x :: X, [], i, j, e, he, hne => by
    simp only [pairBasic, List.mem_cons] at he
    rcases he with rfl | he
    · exact ⟨0, none, by simp, by simp [removedLevel]⟩
    · obtain ⟨t, p2, ht, hs⟩ := pairBasic_steps X [] (i + 1) (j + 1) e he hne
      exact ⟨t + 1, p2, by simp; omega, by rw [hs]; congr 4; omega⟩
  | [], y :: Y, i, j, e, he, hne => by
    simp only [pairBasic, List.mem_cons] at he
    rcases he with rfl | he
    · exact absurd rfl hne
    · obtain ⟨t, _, ht, _⟩ := pairBasic_steps [] Y (i + 1) (j + 1) e he hne
      simp at ht
  | x :: X, y :: Y, i, j, e, he, hne => by
    simp only [pairBasic, List.mem_append] at he
    rcases he with he | he
    · refine ⟨0, some (.int j), by simp, ?_⟩
      split at he
      · simp at he; rw [he]; rfl
      · split at he
        · simp at he; rw [he]; rfl
        · rw [leafDiff_steps _ x y e he]; rfl
    · obtain ⟨t, p2, ht, hs⟩ := pairBasic_steps X Y (i + 1) (j + 1) e he hne
      exact ⟨t + 1, p2, by simp; omega, by rw [hs]; congr 4; omega⟩

/-- every entry of the difflib pass except the added items sits at an index of a block that is not `equal` -/
theorem opcodeEntries_steps (xs ys : List PyVal) : ∀ (ops : List Opcode) (e : Cat × Level), e ∈ opcodeEntries [] xs ys ops → e.1 ≠ .iterAdded →
    ∃ (i : Nat) (p2 : Option PyVal), e.2.steps = [⟨.iter, some (.int i), p2⟩] ∧ touched ops i
  | [], e, he, _ => by simp [opcodeEntries] at he
  | o :: ops, e, he, hne => by
    simp only [opcodeEntries, List.mem_append] at he
    rcases he with he | he
    · have hlen : ((xs.drop o.i1).take (o.i2 - o.i1)).length ≤ o.i2 - o.i1 := by
        rw [List.length_take]; exact Nat.min_le_left _ _
      split at he
      · rename_i htag
        obtain ⟨t, p2, ht, hs⟩ := pairBasic_steps _ _ o.i1 o.j1 e he hne
        refine ⟨o.i1 + t, p2, hs, o, List.mem_cons_self .., ?_, by omega, by omega⟩
        intro h; rw [h] at htag; simp at htag
      · split at he
        · rename_i _ htag
          obtain ⟨⟨x, k⟩, hm, rfl⟩ := List.mem_map.1 he
          have hk : k < ((xs.drop o.i1).take (o.i2 - o.i1)).length := by
            have := List.mem_zipIdx' hm
            exact this.1
          refine ⟨k + o.i1, none, by simp [removedLevel], o, List.mem_cons_self .., ?_, by omega, by omega⟩
          intro h; rw [h] at htag; simp at htag
        · split at he
          · obtain ⟨⟨y, k⟩, _, rfl⟩ := List.mem_map.1 he
            exact absurd rfl hne
          · simp at he
    · obtain ⟨i, p2, hs, o', ho', h1, h2, h3⟩ := opcodeEntries_steps xs ys ops e he hne
      exact ⟨i, p2, hs, o', List.mem_cons_of_mem _ ho', h1, h2, h3⟩

/-- merging added and removed items keeps the steps of entries that are not added items -/
theorem mutualAddRemoves_steps (t : Tree) (e : Cat × Level) (he : e ∈ mutualAddRemoves t) (hne : e.1 ≠ .iterAdded) :
    ∃ e0 ∈ t, e0.1 ≠ .iterAdded ∧ e.2.steps = e0.2.steps := by
  unfold mutualAddRemoves at he
  simp only [List.mem_append, List.mem_filter, List.mem_filterMap] at he
  rcases he with ⟨hm, _⟩ | ⟨e0, ⟨hm0, hc0⟩, hsome⟩
  · exact ⟨e, hm, hne, rfl⟩
  · refine ⟨e0, hm0, ?_, ?_⟩
    · intro h; rw [h] at hc0; simp at hc0
    · split at hsome
      · split at hsome
        · simp only [Option.some.injEq] at hsome
          rw [← hsome]
        · cases hsome
      · cases hsome


/-- **A payload with recorded opcodes applied to a root list**: whatever the change entries do inside the blocks that are
not `equal` (and whether or not they log an error), the rebuild from the opcodes gives exactly the second list. -/
theorem opcode_apply (bidir : Bool) (d : DeltaD) (xs ys : List PyVal) (ops : List Opcode)
    (htiles : TilesO xs ys 0 0 ops) (hmono : ∀ o ∈ ops, o.i1 ≤ o.i2) (vs : List OpV)
    (hvc : ∀ c ∈ d.valuesChanged, ∃ i : Nat, c.path = [.int i] ∧ touched ops i)
    (htc : ∀ c ∈ d.typeChanges, ∃ i : Nat, c.path = [.int i] ∧ touched ops i)
    (hop : d.opcodes = [([], vs)]) (hvs : ∀ l, replayOps l vs = replayOps l (withValues xs ys ops))
    (he : d.setAdded = [] ∧ d.setRemoved = [] ∧ d.iterAdded = [] ∧ d.iterRemoved = [] ∧ d.dictAdded = [] ∧ d.dictRemoved = []) :
    (applyDelta bidir d (.list xs)).root = .list ys ∧ (applyDelta bidir d (.list xs)).raised = none := by
  obtain ⟨e1, e2, e3, e4, e5, e6⟩ := he
  have hmt := MTiles_of_TilesO xs ys ops 0 0 htiles hmono
  have hlt : ∀ i, touched ops i → i < xs.length := fun i ht => touched_lt xs.length ops 0 hmt i ht
  have h0 : OInv xs ops { root := .list xs } := ⟨rfl, rfl, xs, rfl, rfl, fun _ _ => rfl⟩
  -- the change phases keep the invariant
  have hV := foldl_changes_OInv xs ops bidir false true d.valuesChanged _
    (fun c hc => by obtain ⟨i, hp, ht⟩ := hvc c hc; exact ⟨i, hp, ht, hlt i ht⟩) h0
  have hT := foldl_changes_OInv xs ops bidir true true d.typeChanges _
    (fun c hc => by obtain ⟨i, hp, ht⟩ := htc c hc; exact ⟨i, hp, ht, hlt i ht⟩) hV
  generalize hst : d.typeChanges.foldl (applyChange bidir true true) (d.valuesChanged.foldl (applyChange bidir false true) { root := .list xs }) = st2 at hT
  obtain ⟨hr, hpost, l, hroot, hlen, hag⟩ := hT
  -- the rebuild
  have hreplay : replayOps l vs = ys := by
    rw [hvs, replayOps_eq, withValues_eq]
    rw [replay_agree l xs (ops.map (wv1 xs ys)) []]
    · have := replayOps_tiles xs ys ops htiles
      rw [replayOps_eq, withValues_eq] at this
      exact this
    · intro o ho htag
      obtain ⟨o0, ho0, rfl⟩ := List.mem_map.1 ho
      rw [wv1_tag] at htag
      rw [wv1_i1, wv1_i2]
      apply slice_agree
      intro t ht
      apply hag
      exact equal_untouched xs.length ops 0 hmt o0 ho0 htag (o0.i1 + t) (by omega) (by omega)
  unfold applyDelta
  simp only [Gen.deltaPhases, List.foldl_cons, List.foldl_nil]
  have p1 : phase bidir d "_do_pre_process" { root := .list xs } = { root := .list xs } := by simp [phase]
  have p2 : phase bidir d "_do_values_changed" { root := .list xs } = d.valuesChanged.foldl (applyChange bidir false true) { root := .list xs } := by
    simp [phase]
  rw [p1, p2]
  generalize hst1 : d.valuesChanged.foldl (applyChange bidir false true) { root := .list xs } = st1 at hst hV
  have hr1 : st1.raised = none := hV.1
  have p3 : phase bidir d "_do_set_item_added" st1 = st1 := by simp [phase, hr1, e1]
  have p4 : phase bidir d "_do_set_item_removed" st1 = st1 := by simp [phase, hr1, e2]
  have p5 : phase bidir d "_do_type_changes" st1 = st2 := by simp [phase, hr1, hst]
  rw [p3, p4, p5]
  have p6 : phase bidir d "_do_iterable_opcodes" st2 = { st2 with root := .list ys } := by
    simp [phase, hr, hop, applyOpcodes, getAt, hroot, replaceAt, hreplay]
  rw [p6]
  have p7 : ∀ (s : AState), s.raised = none → phase bidir d "_do_iterable_item_removed" s = s := by
    intro s hs; simp [phase, hs, e4, sortPaths_nil]
  have p8 : ∀ (s : AState), s.raised = none → phase bidir d "_do_iterable_item_added" s = s := by
    intro s hs; simp [phase, hs, e3, sortPaths_nil]
  have p9 : ∀ (s : AState), phase bidir d "_do_ignore_order" s = s := by
    intro s; unfold phase; split <;> rfl
  have p10 : ∀ (s : AState), s.raised = none → phase bidir d "_do_dictionary_item_added" s = s := by
    intro s hs; simp [phase, hs, e5]
  have p11 : ∀ (s : AState), s.raised = none → phase bidir d "_do_dictionary_item_removed" s = s := by
    intro s hs; simp [phase, hs, e6, sortPaths_nil]
  have p12 : ∀ (s : AState), phase bidir d "_do_attribute_added" s = s := by
    intro s; unfold phase; split <;> rfl
  have p13 : ∀ (s : AState), phase bidir d "_do_attribute_removed" s = s := by
    intro s; unfold phase; split <;> rfl
  have p14 : ∀ (s : AState), s.raised = none → s.post = [] → phase bidir d "_do_post_process" s = s := by
    intro s hs hp; simp [phase, hs, postProcess, hp]
  generalize hst3 : ({ st2 with root := PyVal.list ys } : AState) = st3
  have hr3 : st3.raised = none := by rw [← hst3]; exact hr
  have hp3 : st3.post = [] := by rw [← hst3]; exact hpost
  have hroot3 : st3.root = .list ys := by rw [← hst3]
  rw [p7 _ hr3, p8 _ hr3, p9, p10 _ hr3, p11 _ hr3, p12, p13, p14 _ hr3 hp3]
  exact ⟨hroot3, hr3⟩


theorem stepR_strip (l : List PyVal) (acc : List PyVal) (o : OpV) : stepR l acc { o with oldValues := Option.none } = stepR l acc o := rfl

theorem replay_strip (l : List PyVal) : ∀ (vs : List OpV) (acc : List PyVal),
    (vs.map (fun o => { o with oldValues := Option.none })).foldl (stepR l) acc = vs.foldl (stepR l) acc
  | [], _ => rfl
  | o :: vs, acc => by
    simp only [List.map_cons, List.foldl_cons, stepR_strip]
    exact replay_strip l vs _


/-- the payload of a tree of index-level entries of a root list, with the opcodes of the root recorded -/
theorem opcode_payload (directed always : Bool) (xs ys : List PyVal) (ops : List Opcode) (T : Tree)
    (h1 : ∀ e ∈ T, e.2.steps.length = 1)
    (h2 : ∀ e ∈ T, e.1 = .valuesChanged ∨ e.1 = .typeChanges → ∃ (i : Nat) (p2 : Option PyVal), e.2.steps = [⟨.iter, some (.int i), p2⟩] ∧ touched ops i)
    (h3 : ∀ e ∈ T, e.1 ≠ .setAdded ∧ e.1 ≠ .setRemoved ∧ e.1 ≠ .dictAdded ∧ e.1 ≠ .dictRemoved) :
    let d := buildDelta directed always (.list xs) (.list ys) ⟨T, [([], ops)]⟩
    (∀ c ∈ d.valuesChanged, ∃ i : Nat, c.path = [.int i] ∧ touched ops i) ∧
    (∀ c ∈ d.typeChanges, ∃ i : Nat, c.path = [.int i] ∧ touched ops i) ∧
    (∃ vs, d.opcodes = [([], vs)] ∧ ∀ l, replayOps l vs = replayOps l (withValues xs ys ops)) ∧
    (d.setAdded = [] ∧ d.setRemoved = [] ∧ d.iterAdded = [] ∧ d.iterRemoved = [] ∧ d.dictAdded = [] ∧ d.dictRemoved = []) := by
  intro d
  have hcatnil : ∀ c : Cat, (∀ e ∈ T, e.1 ≠ c) → T.filter (fun e => e.1 == c) = [] := by
    intro c h
    rw [List.filter_eq_nil_iff]
    intro e he
    simpa using h e he
  have hone : ∀ e ∈ T, ∃ s, e.2.steps = [s] := by
    intro e he
    have := h1 e he
    cases hst : e.2.steps with
    | nil => rw [hst] at this; simp at this
    | cons a l =>
      cases l with
      | nil => exact ⟨a, rfl⟩
      | cons b l' => rw [hst] at this; simp at this
  refine ⟨?_, ?_, ?_, ?_⟩
  · intro c hc
    simp only [d, buildDelta, List.mem_filterMap, List.mem_filter] at hc
    obtain ⟨e, ⟨he, hcat⟩, hsome⟩ := hc
    obtain ⟨i, p2, hs, ht⟩ := h2 e he (Or.inl (by simpa using hcat))
    refine ⟨i, ?_, ht⟩
    rw [hs] at hsome
    cases p2 <;> cases directed <;> simp [sidePath, Step.param] at hsome <;> rw [← hsome]
  · intro c hc
    simp only [d, buildDelta, List.mem_filterMap, List.mem_filter] at hc
    obtain ⟨e, ⟨he, hcat⟩, hsome⟩ := hc
    obtain ⟨i, p2, hs, ht⟩ := h2 e he (Or.inr (by simpa using hcat))
    refine ⟨i, ?_, ht⟩
    rw [hs] at hsome
    cases p2 <;> cases directed <;> simp [sidePath, Step.param] at hsome <;> rw [← hsome]
  · by_cases hd : (directed && !always) = true
    · refine ⟨(withValues xs ys ops).map (fun o => { o with oldValues := Option.none }), ?_, ?_⟩
      · simp [d, buildDelta, sidePath, follow, seqItems, hd]
      · intro l
        rw [replayOps_eq, replayOps_eq]
        exact replay_strip l _ _
    · refine ⟨withValues xs ys ops, ?_, fun _ => rfl⟩
      have hd' : (directed && !always) = false := by simpa using hd
      simp [d, buildDelta, sidePath, follow, seqItems, hd']
  · have f1 := hcatnil .setAdded (fun e he => (h3 e he).1)
    have f2 := hcatnil .setRemoved (fun e he => (h3 e he).2.1)
    have f3 := hcatnil .dictAdded (fun e he => (h3 e he).2.2.1)
    have f4 := hcatnil .dictRemoved (fun e he => (h3 e he).2.2.2)
    refine ⟨by simp [d, buildDelta, f1, groupSet], by simp [d, buildDelta, f2, groupSet], ?_, ?_, by simp [d, buildDelta, f3], by simp [d, buildDelta, f4]⟩
    · simp only [d, buildDelta]
      rw [List.filterMap_eq_nil_iff]
      intro e he
      obtain ⟨s, hs⟩ := hone e (List.mem_filter.1 he).1
      rw [hs]
      simp [sidePath]
    · simp only [d, buildDelta]
      rw [List.filterMap_eq_nil_iff]
      intro e he
      obtain ⟨s, hs⟩ := hone e (List.mem_filter.1 he).1
      rw [hs]
      simp [sidePath]


theorem pairBasic_shape : ∀ (X Y : List PyVal) (i j : Nat) (e : Cat × Level), e ∈ pairBasic [] i j X Y →
    e.2.steps.length = 1 ∧ (e.1 = .iterRemoved ∨ e.1 = .iterAdded ∨ e.1 = .iterMoved ∨ e.1 = .typeChanges ∨ e.1 = .valuesChanged)
  | [], [], _, _, e, he => by simp [pairBasic] at he
  | x :: X, [], i, j, e, he => by
    simp only [pairBasic, List.mem_cons] at he
    rcases he with rfl | he
    · exact ⟨by simp [removedLevel], Or.inl rfl⟩
    · exact pairBasic_shape X [] (i + 1) (j + 1) e he
  | [], y :: Y, i, j, e, he => by
    simp only [pairBasic, List.mem_cons] at he
    rcases he with rfl | he
    · exact ⟨by simp [addedLevel], Or.inr (Or.inl rfl)⟩
    · exact pairBasic_shape [] Y (i + 1) (j + 1) e he
  | x :: X, y :: Y, i, j, e, he => by
    simp only [pairBasic, List.mem_append] at he
    rcases he with he | he
    · split at he
      · simp at he; rw [he]; exact ⟨rfl, Or.inr (Or.inr (Or.inl rfl))⟩
      · split at he
        · simp at he; rw [he]; exact ⟨rfl, Or.inr (Or.inr (Or.inr (Or.inl rfl)))⟩
        · rcases leafDiff_shape' _ x y with h | ⟨ud, h⟩
          · rw [h] at he; simp at he
          · rw [h] at he; simp at he; rw [he]; exact ⟨rfl, Or.inr (Or.inr (Or.inr (Or.inr rfl)))⟩
    · exact pairBasic_shape X Y (i + 1) (j + 1) e he

theorem opcodeEntries_shape (xs ys : List PyVal) : ∀ (ops : List Opcode) (e : Cat × Level), e ∈ opcodeEntries [] xs ys ops →
    e.2.steps.length = 1 ∧ (e.1 = .iterRemoved ∨ e.1 = .iterAdded ∨ e.1 = .iterMoved ∨ e.1 = .typeChanges ∨ e.1 = .valuesChanged)
  | [], e, he => by simp [opcodeEntries] at he
  | o :: ops, e, he => by
    simp only [opcodeEntries, List.mem_append] at he
    rcases he with he | he
    · split at he
      · exact pairBasic_shape _ _ _ _ e he
      · split at he
        · obtain ⟨⟨x, k⟩, _, rfl⟩ := List.mem_map.1 he
          exact ⟨by simp [removedLevel], Or.inl rfl⟩
        · split at he
          · obtain ⟨⟨y, k⟩, _, rfl⟩ := List.mem_map.1 he
            exact ⟨by simp [addedLevel], Or.inr (Or.inl rfl)⟩
          · simp at he
    · exact opcodeEntries_shape xs ys ops e he

theorem mutualAddRemoves_mem (t : Tree) (e : Cat × Level) (he : e ∈ mutualAddRemoves t) :
    e ∈ t ∨ (e.1 = .valuesChanged ∧ ∃ e0 ∈ t, e0.1 = .iterRemoved ∧ e.2.steps = e0.2.steps) := by
  unfold mutualAddRemoves at he
  simp only [List.mem_append, List.mem_filter, List.mem_filterMap] at he
  rcases he with ⟨hm, _⟩ | ⟨e0, ⟨hm0, hc0⟩, hsome⟩
  · exact Or.inl hm
  · right
    split at hsome
    · split at hsome
      · simp only [Option.some.injEq] at hsome
        rw [← hsome]
        exact ⟨rfl, e0, hm0, by simpa using hc0, rfl⟩
      · cases hsome
    · cases hsome

/-- the facts `opcode_payload` needs, for the difflib pass and for its merged form -/
theorem pass1_facts (xs ys : List PyVal) (ops : List Opcode) (T : Tree)
    (hT : T = opcodeEntries [] xs ys ops ∨ T = mutualAddRemoves (opcodeEntries [] xs ys ops)) :
    (∀ e ∈ T, e.2.steps.length = 1) ∧
    (∀ e ∈ T, e.1 = .valuesChanged ∨ e.1 = .typeChanges → ∃ (i : Nat) (p2 : Option PyVal), e.2.steps = [⟨.iter, some (.int i), p2⟩] ∧ touched ops i) ∧
    (∀ e ∈ T, e.1 ≠ .setAdded ∧ e.1 ≠ .setRemoved ∧ e.1 ≠ .dictAdded ∧ e.1 ≠ .dictRemoved) := by
  have hcat : ∀ e : Cat × Level, (e.1 = .iterRemoved ∨ e.1 = .iterAdded ∨ e.1 = .iterMoved ∨ e.1 = .typeChanges ∨ e.1 = .valuesChanged) →
      e.1 ≠ .setAdded ∧ e.1 ≠ .setRemoved ∧ e.1 ≠ .dictAdded ∧ e.1 ≠ .dictRemoved := by
    intro e h
    rcases h with h | h | h | h | h <;> rw [h] <;> exact ⟨by simp, by simp, by simp, by simp⟩
  rcases hT with rfl | rfl
  · refine ⟨fun e he => (opcodeEntries_shape xs ys ops e he).1, ?_, fun e he => hcat e (opcodeEntries_shape xs ys ops e he).2⟩
    intro e he hc
    exact opcodeEntries_steps xs ys ops e he (by rcases hc with h | h <;> rw [h] <;> simp)
  · refine ⟨?_, ?_, ?_⟩
    · intro e he
      rcases mutualAddRemoves_mem _ e he with h | ⟨_, e0, he0, _, hs⟩
      · exact (opcodeEntries_shape xs ys ops e h).1
      · rw [hs]; exact (opcodeEntries_shape xs ys ops e0 he0).1
    · intro e he hc
      obtain ⟨e0, he0, hne0, hs⟩ := mutualAddRemoves_steps _ e he (by rcases hc with h | h <;> rw [h] <;> simp)
      rw [hs]
      exact opcodeEntries_steps xs ys ops e0 he0 hne0
    · intro e he
      rcases mutualAddRemoves_mem _ e he with h | ⟨hv, _⟩
      · exact hcat e (opcodeEntries_shape xs ys ops e h).2
      · exact hcat e (Or.inr (Or.inr (Or.inr (Or.inr hv))))


/-- default mode: the difflib pass is kept together with its opcodes -/
theorem list_diffV_opcodes (cfg : DCfg) (hp : Diff.Plain cfg) (hz : cfg.zip = false) (al : Align) (hashOf : PyVal → String)
    (xs ys : List PyVal) (hbx : ∀ x ∈ xs, isBasic x = true) (hby : ∀ y ∈ ys, isBasic y = true)
    (h1 : 2 ≤ (opcodeEntries [] xs ys (al xs ys)).length)
    (h2 : (opcodeEntries [] xs ys (al xs ys)).length < (pairBasic [] 0 0 xs ys).length) :
    diffV cfg al hashOf [] (.list xs) (.list ys) = ⟨opcodeEntries [] xs ys (al xs ys), [([], al xs ys)]⟩ := by
  have hax : xs.all isBasic = true := List.all_eq_true.2 hbx
  have hay : ys.all isBasic = true := List.all_eq_true.2 hby
  simp only [diffV, iterInOrder, hz, hax, hay, Bool.not_false, Bool.and_self, if_true, keepReported_plain hp]
  have h1' : (opcodeEntries [] xs ys (al xs ys)).length ≥ 1 := by omega
  have hne : ((opcodeEntries [] xs ys (al xs ys)).length == 1) = false := by simp; omega
  have hlt : ¬ ((opcodeEntries [] xs ys (al xs ys)).length ≥ (pairBasic [] 0 0 xs ys).length) := by omega
  simp [h1', hne, hlt]

/-- **Round trip for lists of scalars in the default mode when the opcodes are recorded**: for every alignment that
tiles the two lists with monotone blocks, `t1 + Delta(DeepDiff(t1, t2))` is exactly `t2`, a list, and nothing escapes. -/
theorem list_opcodes_roundtrip (cfg : DCfg) (hp : Diff.Plain cfg) (hz : cfg.zip = false) (al : Align) (hashOf : PyVal → String)
    (bidir directed always : Bool) (xs ys : List PyVal) (hbx : ∀ x ∈ xs, isBasic x = true) (hby : ∀ y ∈ ys, isBasic y = true)
    (htiles : TilesO xs ys 0 0 (al xs ys)) (hmono : ∀ o ∈ al xs ys, o.i1 ≤ o.i2)
    (h1 : 2 ≤ (opcodeEntries [] xs ys (al xs ys)).length)
    (h2 : (opcodeEntries [] xs ys (al xs ys)).length < (pairBasic [] 0 0 xs ys).length) :
    (applyDelta bidir (buildDelta directed always (.list xs) (.list ys) (deepDiff cfg al hashOf (.list xs) (.list ys))) (.list xs)).root = .list ys ∧
    (applyDelta bidir (buildDelta directed always (.list xs) (.list ys) (deepDiff cfg al hashOf (.list xs) (.list ys))) (.list xs)).raised = none := by
  have hdd : ∃ T, (T = opcodeEntries [] xs ys (al xs ys) ∨ T = mutualAddRemoves (opcodeEntries [] xs ys (al xs ys))) ∧
      deepDiff cfg al hashOf (.list xs) (.list ys) = ⟨T, [([], al xs ys)]⟩ := by
    unfold deepDiff
    simp only [skipSteps_plain hp, Bool.false_eq_true, if_false, list_diffV_opcodes cfg hp hz al hashOf xs ys hbx hby h1 h2,
      keepReported_plain hp]
    split
    · exact ⟨_, Or.inl rfl, rfl⟩
    · exact ⟨_, Or.inr rfl, rfl⟩
  obtain ⟨T, hT, hd⟩ := hdd
  rw [hd]
  obtain ⟨f1, f2, f3⟩ := pass1_facts xs ys (al xs ys) T hT
  obtain ⟨pv, pt, ⟨vs, hop, hvs⟩, he⟩ := opcode_payload directed always xs ys (al xs ys) T f1 f2 f3
  exact opcode_apply bidir _ xs ys (al xs ys) htiles hmono vs pv pt hop hvs he

end Delta
