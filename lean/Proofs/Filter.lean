import Proofs.Diff
/-!
`exclude_paths` is a pure filter in positional mode (`zip_ordered_iterables=True`,
`threshold_to_diff_deeper=0`): the restricted result is the unrestricted result minus the entries at
or below an excluded path.
-/
namespace Diff
open Py

/-- positional mode, dictionaries always descended, no regex / include restriction -/
structure Pos (cfg : DCfg) : Prop where
  zip : cfg.zip = true
  thr : cfg.thrNum = 0
  exP : cfg.excludePrefix = []
  inc : cfg.incl = []

/-- the same configuration with `exclude_paths = E` -/
def withExclude (cfg : DCfg) (E : List String) : DCfg := { cfg with exclude := E }

theorem pos_withExclude {cfg : DCfg} (h : Pos cfg) (E : List String) : Pos (withExclude cfg E) :=
  ⟨h.zip, h.thr, h.exP, h.inc⟩

/-- the level's path is one of the excluded paths -/
def hit (E : List String) (st : List Step) : Bool :=
  match pathStr st false with
  | some p => E.contains p
  | none => false

/-- some level strictly below depth `n` on the way to `st` (or `st` itself) is excluded -/
def blockedFrom (H : List Step → Bool) (n : Nat) (st : List Step) : Bool :=
  (List.range (st.length - n)).any (fun d => H (st.take (n + 1 + d)))

/-- a restricted configuration `cfgX` of `cfg`: positional, same keys, and its skip test is `H` -/
structure Restrict (cfg cfgX : DCfg) (H : List Step → Bool) : Prop where
  zip : cfgX.zip = true
  thr : cfgX.thrNum = 0
  skip : ∀ st, skipSteps cfgX st = H st
  keys : ∀ steps kvs, keysOf cfgX steps kvs = keysOf cfg steps kvs
  priv : cfgX.ignorePrivate = cfg.ignorePrivate

theorem belowThreshold_X {cfg cfgX : DCfg} {H : List Step → Bool} (h : Restrict cfg cfgX H) (a b : Nat) : belowThreshold cfgX a b = false := by
  simp [belowThreshold, h.thr]

theorem iterInOrder_X {cfg cfgX : DCfg} {H : List Step → Bool} (h : Restrict cfg cfgX H) (al : Align) (steps : List Step) (xs ys : List PyVal)
    (pw : Unit → Result) : iterInOrder cfgX al steps xs ys pw = pw () := by
  simp [iterInOrder, h.zip]

theorem skipSteps_hit {cfg : DCfg} (h : Pos cfg) (E : List String) (st : List Step) :
    skipSteps (withExclude cfg E) st = hit E st := by
  unfold skipSteps skipPath hit withExclude
  simp only [h.inc, h.exP, List.isEmpty_nil, Bool.not_true, Bool.false_and, Bool.false_eq_true, if_false]
  cases hp : pathStr st false with
  | none => simp
  | some p =>
    cases E with
    | nil => simp
    | cons a l => simp

theorem skipSteps_none {cfg : DCfg} (h : Pos cfg) (he : cfg.exclude = []) (st : List Step) : skipSteps cfg st = false := by
  simp [skipSteps, skipPath, h.inc, h.exP, he]

theorem keepReported_hit {cfg : DCfg} (h : Pos cfg) (E : List String) (t : Tree) :
    keepReported (withExclude cfg E) t = t.filter (fun e => !hit E e.2.steps) := by
  unfold keepReported
  congr 1
  funext e
  rw [skipSteps_hit h]

theorem skipKey_pos {cfg : DCfg} (h : Pos cfg) (steps : List Step) (k : PyVal) : skipKey cfg steps k = false := by
  simp [skipKey, h.inc]

theorem keysOf_withExclude {cfg : DCfg} (h : Pos cfg) (E : List String) (steps : List Step) (kvs : List (PyVal × PyVal)) :
    keysOf (withExclude cfg E) steps kvs = keysOf cfg steps kvs := by
  simp only [keysOf, skipKey_pos h, skipKey_pos (pos_withExclude h E)]
  rfl

theorem belowThreshold_pos {cfg : DCfg} (h : Pos cfg) (a b : Nat) : belowThreshold cfg a b = false := by
  simp [belowThreshold, h.thr]

theorem iterInOrder_pos {cfg : DCfg} (h : Pos cfg) (al : Align) (steps : List Step) (xs ys : List PyVal) (pw : Unit → Result) :
    iterInOrder cfg al steps xs ys pw = pw () := by
  simp [iterInOrder, h.zip]

/-! ### entries sit at or below the level that produced them -/

theorem mem_foldl_kids (children : List (PyVal × Result)) (f : Result → PyVal → Result)
    (hf : ∀ acc k, f acc k = match children.find? (fun p => keyEq p.1 k) with
      | some (_, r) => acc ++ r
      | Option.none => acc) :
    ∀ (ks : List PyVal) (acc : Result) (e : Cat × Level), e ∈ (ks.foldl f acc).tree →
      e ∈ acc.tree ∨ ∃ q ∈ children, e ∈ q.2.tree := by
  intro ks
  induction ks with
  | nil => intro acc e h; exact Or.inl h
  | cons k ks ih =>
    intro acc e h
    rw [List.foldl_cons] at h
    rcases ih (f acc k) e h with h1 | h1
    · rw [hf] at h1
      cases hfind : children.find? (fun p => keyEq p.1 k) with
      | none => rw [hfind] at h1; exact Or.inl h1
      | some p =>
        obtain ⟨k1, r1⟩ := p
        rw [hfind] at h1
        simp only [Result.append_def, List.mem_append] at h1
        rcases h1 with h1 | h1
        · exact Or.inl h1
        · exact Or.inr ⟨(k1, r1), List.mem_of_find?_eq_some hfind, h1⟩
    · exact Or.inr h1

theorem prefix_snoc (steps : List Step) (s : Step) : steps <+: steps ++ [s] := List.prefix_append _ _

theorem prefix_of_snoc {steps es : List Step} {s : Step} (h : steps ++ [s] <+: es) : steps <+: es :=
  List.IsPrefix.trans (prefix_snoc steps s) h

theorem mem_tree_mk (t : Tree) (e : Cat × Level) (h : e ∈ ({ tree := t } : Result).tree) : e ∈ t := h

theorem leafDiff_steps (steps : List Step) (a b : PyVal) : ∀ e ∈ leafDiff steps a b, e.2.steps = steps := by
  intro e he
  unfold leafDiff at he
  split at he
  all_goals first
    | (split at he
       · simp at he
       · simp only [List.mem_singleton] at he; subst he; rfl)
    | simp at he

theorem leaf_pre (steps : List Step) (a b : PyVal) (e : Cat × Level)
    (he : e ∈ (if typeName a != typeName b then ([(.typeChanges, { steps := steps, t1 := some a, t2 := some b })] : Tree) else leafDiff steps a b)) :
    steps <+: e.2.steps := by
  split at he
  · simp only [List.mem_singleton] at he; subst he; exact List.prefix_refl _
  · rw [leafDiff_steps steps a b e he]
    exact List.prefix_refl _

mutual
theorem pre_V {cfg : DCfg} (hp : Pos cfg) (al : Align) (hashOf : PyVal → String) :
    ∀ (a b : PyVal) (steps : List Step), ∀ e ∈ (diffV cfg al hashOf steps a b).tree, steps <+: e.2.steps
  | .dict kvs1, b, steps, e, he => by
    cases b with
    | dict kvs2 =>
      unfold diffV at he
      simp only [belowThreshold_pos hp, Bool.false_eq_true, if_false, Result.append_def, List.mem_append, List.mem_map] at he
      rcases he with (⟨k, _, rfl⟩ | ⟨k, _, rfl⟩) | he
      · exact prefix_snoc _ _
      · exact prefix_snoc _ _
      · rcases mem_foldl_kids _ _ (fun _ _ => rfl) _ _ e he with h1 | ⟨q, hq, h1⟩
        · simp at h1
        · exact pre_P hp al hashOf kvs1 kvs2 _ steps q hq e h1
    | _ => all_goals (simp [diffV] at he; subst he; exact List.prefix_refl _)
  | .list xs, b, steps, e, he => by
    cases b with
    | list ys =>
      simp only [diffV, iterInOrder_pos hp] at he
      exact pre_L hp al hashOf xs ys steps 0 e he
    | _ => all_goals (simp [diffV] at he; subst he; exact List.prefix_refl _)
  | .tuple xs, b, steps, e, he => by
    cases b with
    | tuple ys =>
      simp only [diffV, iterInOrder_pos hp] at he
      exact pre_L hp al hashOf xs ys steps 0 e he
    | _ => all_goals (simp [diffV] at he; subst he; exact List.prefix_refl _)
  | .set xs, b, steps, e, he => by
    cases b with
    | set ys =>
      simp only [diffV, diffSet, List.mem_append, List.mem_map] at he
      rcases he with ⟨y, _, rfl⟩ | ⟨x, _, rfl⟩ <;> exact prefix_snoc _ _
    | _ => all_goals (simp [diffV] at he; subst he; exact List.prefix_refl _)
  | .frozenset xs, b, steps, e, he => by
    cases b with
    | frozenset ys =>
      simp only [diffV, diffSet, List.mem_append, List.mem_map] at he
      rcases he with ⟨y, _, rfl⟩ | ⟨x, _, rfl⟩ <;> exact prefix_snoc _ _
    | _ => all_goals (simp [diffV] at he; subst he; exact List.prefix_refl _)
  | .none, b, steps, e, he => by
    simp only [diffV] at he
    split at he
    · simp only [List.mem_singleton] at he; subst he; exact List.prefix_refl _
    · have he' := mem_tree_mk _ e he
      rw [leafDiff_steps _ _ _ e he']
      exact List.prefix_refl _
  | .bool _, b, steps, e, he => by
    simp only [diffV] at he
    split at he
    · simp only [List.mem_singleton] at he; subst he; exact List.prefix_refl _
    · have he' := mem_tree_mk _ e he
      rw [leafDiff_steps _ _ _ e he']
      exact List.prefix_refl _
  | .int _, b, steps, e, he => by
    simp only [diffV] at he
    split at he
    · simp only [List.mem_singleton] at he; subst he; exact List.prefix_refl _
    · have he' := mem_tree_mk _ e he
      rw [leafDiff_steps _ _ _ e he']
      exact List.prefix_refl _
  | .float _ _, b, steps, e, he => by
    simp only [diffV] at he
    split at he
    · simp only [List.mem_singleton] at he; subst he; exact List.prefix_refl _
    · have he' := mem_tree_mk _ e he
      rw [leafDiff_steps _ _ _ e he']
      exact List.prefix_refl _
  | .str _, b, steps, e, he => by
    simp only [diffV] at he
    split at he
    · simp only [List.mem_singleton] at he; subst he; exact List.prefix_refl _
    · have he' := mem_tree_mk _ e he
      rw [leafDiff_steps _ _ _ e he']
      exact List.prefix_refl _
  | .bytes _, b, steps, e, he => by
    simp only [diffV] at he
    split at he
    · simp only [List.mem_singleton] at he; subst he; exact List.prefix_refl _
    · have he' := mem_tree_mk _ e he
      rw [leafDiff_steps _ _ _ e he']
      exact List.prefix_refl _
theorem pre_P {cfg : DCfg} (hp : Pos cfg) (al : Align) (hashOf : PyVal → String) :
    ∀ (kvs1 kvs2 : List (PyVal × PyVal)) (k2s : List PyVal) (steps : List Step),
      ∀ q ∈ diffKVs cfg al hashOf steps kvs1 kvs2 k2s, ∀ e ∈ q.2.tree, steps <+: e.2.steps
  | [], _, _, _, q, hq, _, _ => by simp [diffKVs] at hq
  | (k1, v1) :: rest, kvs2, k2s, steps, q, hq, e, he => by
    have ih := pre_P hp al hashOf rest kvs2 k2s steps
    simp only [diffKVs] at hq
    split at hq
    · exact ih q hq e he
    · split at hq
      · split at hq
        · rcases List.mem_cons.1 hq with rfl | hq'
          · simp only at he
            split at he
            · simp at he
            · exact prefix_of_snoc (pre_V hp al hashOf v1 _ _ e he)
          · exact ih q hq' e he
        · exact ih q hq e he
      · exact ih q hq e he
theorem pre_L {cfg : DCfg} (hp : Pos cfg) (al : Align) (hashOf : PyVal → String) :
    ∀ (xs ys : List PyVal) (steps : List Step) (i : Nat), ∀ e ∈ (diffPairs cfg al hashOf steps i xs ys).tree, steps <+: e.2.steps
  | [], [], _, _, e, he => by simp [diffPairs] at he
  | x :: xs, [], steps, i, e, he => by
    simp only [diffPairs, Result.append_def, List.mem_append, List.mem_singleton] at he
    rcases he with rfl | he
    · exact prefix_snoc _ _
    · exact pre_L hp al hashOf xs [] steps (i + 1) e he
  | [], y :: ys, steps, i, e, he => by
    simp only [diffPairs, List.mem_cons, List.mem_map] at he
    rcases he with rfl | ⟨p, _, rfl⟩
    · exact prefix_snoc _ _
    · exact prefix_snoc _ _
  | x :: xs, y :: ys, steps, i, e, he => by
    simp only [diffPairs, Result.append_def, List.mem_append] at he
    rcases he with he | he
    · split at he
      · simp at he
      · exact prefix_of_snoc (pre_V hp al hashOf x y _ e he)
    · exact pre_L hp al hashOf xs ys steps (i + 1) e he
end

/-! ### the restricted tree is the filtered unrestricted tree -/


theorem blockedFrom_child (H : List Step → Bool) (n : Nat) (st es : List Step) (hl : st.length = n + 1) (hpre : st <+: es) :
    blockedFrom H n es = (H st || blockedFrom H (n + 1) es) := by
  obtain ⟨rest, rfl⟩ := hpre
  unfold blockedFrom
  have h1 : (st ++ rest).length - n = rest.length + 1 := by rw [List.length_append, hl]; omega
  have h2 : (st ++ rest).length - (n + 1) = rest.length := by rw [List.length_append, hl]; omega
  rw [h1, h2, List.range_succ_eq_map, List.any_cons, List.any_map]
  congr 1
  · rw [Nat.add_zero, ← hl, List.take_left']
    rfl
  · congr 1
    funext d
    simp only [Function.comp]
    congr 2
    omega

theorem blockedFrom_level (H : List Step → Bool) (steps : List Step) : blockedFrom H steps.length steps = false := by
  simp [blockedFrom]

theorem blockedFrom_snoc (H : List Step → Bool) (steps : List Step) (s : Step) :
    blockedFrom H steps.length (steps ++ [s]) = H (steps ++ [s]) := by
  rw [blockedFrom_child H steps.length (steps ++ [s]) (steps ++ [s]) (by simp) (List.prefix_refl _)]
  have : blockedFrom H (steps.length + 1) (steps ++ [s]) = false := by simp [blockedFrom]
  rw [this, Bool.or_false]

/-- the filter of the restricted run: the entry's own path is not excluded -/
def fX (H : List Step → Bool) : Cat × Level → Bool := fun e => !H e.2.steps
/-- the filter applied to the unrestricted run below depth `n`: no level on the way is excluded -/
def f0 (H : List Step → Bool) (n : Nat) : Cat × Level → Bool := fun e => !blockedFrom H n e.2.steps

theorem agree_child (H : List Step → Bool) (steps : List Step) (s : Step) (e : Cat × Level) (he : e.2.steps = steps ++ [s]) :
    fX H e = f0 H steps.length e := by
  simp only [fX, f0, he, blockedFrom_snoc]

theorem keep_level (H : List Step → Bool) (steps : List Step) (hns : H steps = false) (e : Cat × Level) (he : e.2.steps = steps) :
    fX H e = true ∧ f0 H steps.length e = true := by
  simp only [fX, f0, he, hns, blockedFrom_level, Bool.not_false, and_self]

theorem filter_child (H : List Step → Bool) (n : Nat) (st : List Step) (hl : st.length = n + 1) (t : Tree)
    (hpre : ∀ e ∈ t, st <+: e.2.steps) :
    t.filter (f0 H n) = if H st then [] else t.filter (f0 H (n + 1)) := by
  split
  · rename_i hh
    rw [List.filter_eq_nil_iff]
    intro e he
    simp [f0, blockedFrom_child H n st e.2.steps hl (hpre e he), hh]
  · rename_i hh
    apply List.filter_congr
    intro e he
    simp [f0, blockedFrom_child H n st e.2.steps hl (hpre e he), hh]

theorem filter_level (H : List Step → Bool) (steps : List Step) (hns : H steps = false) (t : Tree)
    (ht : ∀ e ∈ t, e.2.steps = steps) : t.filter (fX H) = t.filter (f0 H steps.length) := by
  rw [List.filter_eq_self.2, List.filter_eq_self.2]
  · intro e he; exact (keep_level H steps hns e (ht e he)).2
  · intro e he; exact (keep_level H steps hns e (ht e he)).1

theorem leaf_level (steps : List Step) (a b : PyVal) :
    ∀ e ∈ (if typeName a != typeName b then (⟨[(.typeChanges, { steps := steps, t1 := some a, t2 := some b })], []⟩ : Result)
           else ⟨leafDiff steps a b, []⟩).tree, e.2.steps = steps := by
  intro e he
  split at he
  · simp only [List.mem_singleton] at he; subst he; rfl
  · exact leafDiff_steps steps a b e he

inductive Rel2 (f1 f2 : Cat × Level → Bool) : List (PyVal × Result) → List (PyVal × Result) → Prop
  | nil : Rel2 f1 f2 [] []
  | cons (k : PyVal) (r1 r2 : Result) (l1 l2 : List (PyVal × Result)) :
      r1.tree.filter f1 = r2.tree.filter f2 → Rel2 f1 f2 l1 l2 → Rel2 f1 f2 ((k, r1) :: l1) ((k, r2) :: l2)

theorem find_rel2 {f1 f2 : Cat × Level → Bool} {l1 l2 : List (PyVal × Result)} (h : Rel2 f1 f2 l1 l2) (k : PyVal) :
    (l1.find? (fun p => keyEq p.1 k) = none ∧ l2.find? (fun p => keyEq p.1 k) = none) ∨
    ∃ k' r1 r2, l1.find? (fun p => keyEq p.1 k) = some (k', r1) ∧ l2.find? (fun p => keyEq p.1 k) = some (k', r2) ∧
      r1.tree.filter f1 = r2.tree.filter f2 := by
  induction h with
  | nil => left; simp
  | cons k0 r1 r2 l1 l2 hr _ ih =>
    by_cases hk : keyEq k0 k = true
    · right
      exact ⟨k0, r1, r2, by simp [List.find?_cons, hk], by simp [List.find?_cons, hk], hr⟩
    · have hk' : keyEq k0 k = false := by simpa using hk
      simp only [List.find?_cons, hk']
      exact ih

theorem foldl_rel2 {f1 f2 : Cat × Level → Bool} {c1 c2 : List (PyVal × Result)} (h : Rel2 f1 f2 c1 c2)
    (F1 F2 : Result → PyVal → Result)
    (hF1 : ∀ acc k, F1 acc k = match c1.find? (fun p => keyEq p.1 k) with
      | some (_, r) => acc ++ r
      | Option.none => acc)
    (hF2 : ∀ acc k, F2 acc k = match c2.find? (fun p => keyEq p.1 k) with
      | some (_, r) => acc ++ r
      | Option.none => acc) :
    ∀ (ks : List PyVal) (a1 a2 : Result), a1.tree.filter f1 = a2.tree.filter f2 →
      (ks.foldl F1 a1).tree.filter f1 = (ks.foldl F2 a2).tree.filter f2 := by
  intro ks
  induction ks with
  | nil => intro a1 a2 ha; exact ha
  | cons k ks ih =>
    intro a1 a2 ha
    rw [List.foldl_cons, List.foldl_cons]
    apply ih
    rw [hF1, hF2]
    rcases find_rel2 h k with ⟨h1, h2⟩ | ⟨k', r1, r2, h1, h2, hr⟩
    · rw [h1, h2]; exact ha
    · rw [h1, h2]
      simp only [Result.append_def, List.filter_append, ha, hr]

theorem child_rel {cfg : DCfg} (cfgX : DCfg) (hp : Pos cfg) (H : List Step → Bool) (al : Align) (hashOf : PyVal → String)
    (steps : List Step) (s : Step) (v1 v2 : PyVal)
    (IH : H (steps ++ [s]) = false →
      (diffV (cfgX) al hashOf (steps ++ [s]) v1 v2).tree.filter (fX H) =
      (diffV cfg al hashOf (steps ++ [s]) v1 v2).tree.filter (f0 H (steps ++ [s]).length)) :
    (if H (steps ++ [s]) = true then ({} : Result) else diffV (cfgX) al hashOf (steps ++ [s]) v1 v2).tree.filter (fX H) =
      (diffV cfg al hashOf (steps ++ [s]) v1 v2).tree.filter (f0 H steps.length) := by
  rw [filter_child H steps.length (steps ++ [s]) (by simp) _ (pre_V hp al hashOf v1 v2 _)]
  by_cases hh : H (steps ++ [s]) = true
  · simp only [hh, if_true]
    rfl
  · have hh' : H (steps ++ [s]) = false := by simpa using hh
    simp only [hh', Bool.false_eq_true, if_false]
    have := IH hh'
    simpa using this

set_option maxHeartbeats 1000000 in
mutual
theorem filt_V {cfg cfgX : DCfg} {H : List Step → Bool} (hp : Pos cfg) (he0 : cfg.exclude = []) (hR : Restrict cfg cfgX H) (al : Align) (hashOf : PyVal → String) :
    ∀ (a b : PyVal) (steps : List Step), H steps = false →
      (diffV (cfgX) al hashOf steps a b).tree.filter (fX H) = (diffV cfg al hashOf steps a b).tree.filter (f0 H steps.length)
  | .dict kvs1, b, steps, hns => by
    cases b with
    | dict kvs2 =>
      have hrel := filt_P hp he0 hR al hashOf kvs1 kvs2 (keysOf cfg steps kvs2) steps hns
      unfold diffV
      simp only [belowThreshold_pos hp, belowThreshold_X hR, hR.keys, Bool.false_eq_true, if_false,
        Result.append_def, List.filter_append]
      congr 1
      · congr 1
        · apply List.filter_congr
          intro e he
          obtain ⟨k, _, rfl⟩ := List.mem_map.1 he
          exact agree_child H steps _ _ rfl
        · apply List.filter_congr
          intro e he
          obtain ⟨k, _, rfl⟩ := List.mem_map.1 he
          exact agree_child H steps _ _ rfl
      · exact foldl_rel2 hrel _ _ (fun _ _ => rfl) (fun _ _ => rfl) _ _ _ rfl
    | _ =>
      all_goals (
        simp only [diffV]
        exact filter_level H steps hns _ (by intro e he; simp only [List.mem_singleton] at he; subst he; rfl))
  | .list xs, b, steps, hns => by
    cases b with
    | list ys =>
      simp only [diffV, iterInOrder_pos hp, iterInOrder_X hR]
      exact filt_L hp he0 hR al hashOf xs ys steps 0 hns
    | _ =>
      all_goals (
        simp only [diffV]
        exact filter_level H steps hns _ (by intro e he; simp only [List.mem_singleton] at he; subst he; rfl))
  | .tuple xs, b, steps, hns => by
    cases b with
    | tuple ys =>
      simp only [diffV, iterInOrder_pos hp, iterInOrder_X hR]
      exact filt_L hp he0 hR al hashOf xs ys steps 0 hns
    | _ =>
      all_goals (
        simp only [diffV]
        exact filter_level H steps hns _ (by intro e he; simp only [List.mem_singleton] at he; subst he; rfl))
  | .set xs, b, steps, hns => by
    cases b with
    | set ys =>
      simp only [diffV]
      apply List.filter_congr
      intro e he
      simp only [diffSet, List.mem_append, List.mem_map] at he
      rcases he with ⟨y, _, rfl⟩ | ⟨x, _, rfl⟩ <;> exact agree_child H steps _ _ rfl
    | _ =>
      all_goals (
        simp only [diffV]
        exact filter_level H steps hns _ (by intro e he; simp only [List.mem_singleton] at he; subst he; rfl))
  | .frozenset xs, b, steps, hns => by
    cases b with
    | frozenset ys =>
      simp only [diffV]
      apply List.filter_congr
      intro e he
      simp only [diffSet, List.mem_append, List.mem_map] at he
      rcases he with ⟨y, _, rfl⟩ | ⟨x, _, rfl⟩ <;> exact agree_child H steps _ _ rfl
    | _ =>
      all_goals (
        simp only [diffV]
        exact filter_level H steps hns _ (by intro e he; simp only [List.mem_singleton] at he; subst he; rfl))
  | .none, b, steps, hns => by
    simp only [diffV]
    exact filter_level H steps hns _ (leaf_level steps _ b)
  | .bool _, b, steps, hns => by
    simp only [diffV]
    exact filter_level H steps hns _ (leaf_level steps _ b)
  | .int _, b, steps, hns => by
    simp only [diffV]
    exact filter_level H steps hns _ (leaf_level steps _ b)
  | .float _ _, b, steps, hns => by
    simp only [diffV]
    exact filter_level H steps hns _ (leaf_level steps _ b)
  | .str _, b, steps, hns => by
    simp only [diffV]
    exact filter_level H steps hns _ (leaf_level steps _ b)
  | .bytes _, b, steps, hns => by
    simp only [diffV]
    exact filter_level H steps hns _ (leaf_level steps _ b)
theorem filt_P {cfg cfgX : DCfg} {H : List Step → Bool} (hp : Pos cfg) (he0 : cfg.exclude = []) (hR : Restrict cfg cfgX H) (al : Align) (hashOf : PyVal → String) :
    ∀ (kvs1 kvs2 : List (PyVal × PyVal)) (k2s : List PyVal) (steps : List Step), H steps = false →
      Rel2 (fX H) (f0 H steps.length) (diffKVs (cfgX) al hashOf steps kvs1 kvs2 k2s) (diffKVs cfg al hashOf steps kvs1 kvs2 k2s)
  | [], _, _, _, _ => by simp only [diffKVs]; exact Rel2.nil
  | (k1, v1) :: rest, kvs2, k2s, steps, hns => by
    have ih := filt_P hp he0 hR al hashOf rest kvs2 k2s steps hns
    simp only [diffKVs]
    rw [hR.priv]
    split
    · exact ih
    · split
      · split
        · apply Rel2.cons _ _ _ _ _ _ ih
          rw [hR.skip, skipSteps_none hp he0]
          simp only [Bool.false_eq_true, if_false]
          exact child_rel cfgX hp H al hashOf steps _ v1 _ (fun hh' => filt_V hp he0 hR al hashOf v1 _ _ hh')
        · exact ih
      · exact ih
theorem filt_L {cfg cfgX : DCfg} {H : List Step → Bool} (hp : Pos cfg) (he0 : cfg.exclude = []) (hR : Restrict cfg cfgX H) (al : Align) (hashOf : PyVal → String) :
    ∀ (xs ys : List PyVal) (steps : List Step) (i : Nat), H steps = false →
      (diffPairs (cfgX) al hashOf steps i xs ys).tree.filter (fX H) =
      (diffPairs cfg al hashOf steps i xs ys).tree.filter (f0 H steps.length)
  | [], [], _, _, _ => by simp [diffPairs]
  | x :: xs, [], steps, i, hns => by
    have ih := filt_L hp he0 hR al hashOf xs [] steps (i + 1) hns
    simp only [diffPairs, Result.append_def, List.filter_append, ih]
    congr 1
    apply List.filter_congr
    intro e he
    simp only [List.mem_singleton] at he
    subst he
    exact agree_child H steps _ _ rfl
  | [], y :: ys, steps, i, hns => by
    simp only [diffPairs]
    apply List.filter_congr
    intro e he
    simp only [List.mem_cons, List.mem_map] at he
    rcases he with rfl | ⟨p, _, rfl⟩ <;> exact agree_child H steps _ _ rfl
  | x :: xs, y :: ys, steps, i, hns => by
    have ih := filt_L hp he0 hR al hashOf xs ys steps (i + 1) hns
    simp only [diffPairs, Result.append_def, List.filter_append, ih]
    congr 1
    rw [hR.skip, skipSteps_none hp he0]
    simp only [Bool.false_eq_true, if_false]
    exact child_rel cfgX hp H al hashOf steps _ x y (fun hh' => filt_V hp he0 hR al hashOf x y _ hh')
end

/-- `exclude_paths = E` is a restriction whose skip test is `hit E` -/
theorem restrict_exclude {cfg : DCfg} (hp : Pos cfg) (E : List String) : Restrict cfg (withExclude cfg E) (hit E) :=
  ⟨hp.zip, hp.thr, skipSteps_hit hp E, keysOf_withExclude hp E, rfl⟩

/-! ### anchored `exclude_regex_paths`, alone and together with `exclude_paths` -/

/-- the same configuration with `exclude_regex_paths = [^<p>(\[|$) for p in R]` and `exclude_paths = E` -/
def withBoth (cfg : DCfg) (E R : List String) : DCfg := { cfg with exclude := E, excludePrefix := R }

/-- the level's path is at or below one of the anchored patterns (as text: equal, or continued by `[`) -/
def hitR (R : List String) (st : List Step) : Bool :=
  R.any (fun pre => (pathStr st false).getD "None" == pre || ((pathStr st false).getD "None").startsWith (pre ++ "["))

theorem skipSteps_both {cfg : DCfg} (h : Pos cfg) (E R : List String) (st : List Step) :
    skipSteps (withBoth cfg E R) st = (hitR R st || hit E st) := by
  unfold skipSteps skipPath hit hitR withBoth
  simp only [h.inc, List.isEmpty_nil, Bool.not_true, Bool.false_and, Bool.false_eq_true, if_false]
  cases hp : pathStr st false with
  | none =>
    cases R with
    | nil => simp
    | cons r R =>
      simp only [List.isEmpty_cons, Bool.not_false, Bool.true_and, Option.getD_none, Option.isSome_none, Bool.and_false, Bool.false_and,
        Bool.or_false]
      split
      · rename_i h1; rw [h1]
      · rename_i h1; simp only [Bool.not_eq_true] at h1; rw [h1]
  | some p =>
    cases R with
    | nil => cases E <;> simp
    | cons r R =>
      simp only [List.isEmpty_cons, Bool.not_false, Bool.true_and, Option.getD_some, Option.isSome_some, Bool.and_true]
      split
      · rename_i h1; rw [h1]; simp
      · rename_i h1; simp only [Bool.not_eq_true] at h1; rw [h1]; cases E <;> simp

theorem keysOf_withBoth {cfg : DCfg} (h : Pos cfg) (E R : List String) (steps : List Step) (kvs : List (PyVal × PyVal)) :
    keysOf (withBoth cfg E R) steps kvs = keysOf cfg steps kvs := by
  have h' : (withBoth cfg E R).incl = [] := h.inc
  simp only [keysOf, skipKey_pos h]
  simp only [skipKey, h', List.isEmpty_nil, if_true]
  rfl

/-- `exclude_paths = E` together with anchored `exclude_regex_paths = R` is a restriction whose skip test is `hitR R || hit E` -/
theorem restrict_both {cfg : DCfg} (hp : Pos cfg) (E R : List String) :
    Restrict cfg (withBoth cfg E R) (fun st => hitR R st || hit E st) :=
  ⟨hp.zip, hp.thr, skipSteps_both hp E R, keysOf_withBoth hp E R, rfl⟩

end Diff
