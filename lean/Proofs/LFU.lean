import Model.Cache.LFUSpec
/-! Helper lemmas for C18 (LFU cache).  Core Lean only. -/
namespace LFU


theorem flat_cons (b : Bucket) (bs : List Bucket) :
    flat (b :: bs) = b.ents.map (fun e => (b.freq, e)) ++ flat bs := rfl

theorem mem_flat {bs : List Bucket} {p : Nat × Ent} :
    p ∈ flat bs ↔ ∃ b ∈ bs, b.freq = p.1 ∧ p.2 ∈ b.ents := by
  induction bs with
  | nil => simp [flat]
  | cons b bs ih =>
    simp only [flat_cons, List.mem_append, List.mem_map, ih, List.mem_cons]
    constructor
    · rintro (⟨e, he, rfl⟩ | ⟨b', hb', h⟩)
      · exact ⟨b, Or.inl rfl, rfl, he⟩
      · exact ⟨b', Or.inr hb', h⟩
    · rintro ⟨b', (rfl | hb'), h1, h2⟩
      · left; exact ⟨p.2, h2, by cases p; simp_all⟩
      · right; exact ⟨b', hb', h1, h2⟩

end LFU

namespace LFU

/-! ### attach / moveFwd -/

theorem mem_attach {f : Nat} {e : Ent} {rest : List Bucket} {b' : Bucket} (h : b' ∈ attach f e rest) :
    b'.freq = f ∨ b' ∈ rest := by
  cases rest with
  | nil => simp [attach] at h; simp [h]
  | cons nb rr =>
    simp only [attach] at h
    split at h
    · rcases List.mem_cons.1 h with rfl | h
      · left; assumption
      · right; simp [h]
    · rcases List.mem_cons.1 h with rfl | h
      · left; rfl
      · right; exact h

theorem attach_freqAsc {f : Nat} {e : Ent} {rest : List Bucket}
    (hasc : rest.Pairwise (fun a b => a.freq < b.freq)) (hlb : ∀ b ∈ rest, f ≤ b.freq) :
    (attach f e rest).Pairwise (fun a b => a.freq < b.freq) := by
  cases rest with
  | nil => simp [attach]
  | cons nb rr =>
    simp only [attach]
    split
    · rw [List.pairwise_cons] at *
      exact ⟨hasc.1, hasc.2⟩
    · rw [List.pairwise_cons]
      refine ⟨?_, hasc⟩
      intro a ha
      rw [List.pairwise_cons] at hasc
      rcases List.mem_cons.1 ha with rfl | ha
      · have := hlb a (by simp); simp; omega
      · have h1 := hlb nb (by simp); have h2 := hasc.1 a ha; simp; omega

theorem moveFwd_freq_lb (c k lo : Nat) (bs : List Bucket)
    (h : ∀ b ∈ bs, lo ≤ b.freq) : ∀ b' ∈ moveFwd c k bs, lo ≤ b'.freq := by
  induction bs with
  | nil => simp [moveFwd]
  | cons b rest ih =>
    have hb := h b (by simp)
    have hrest : ∀ x ∈ rest, lo ≤ x.freq := fun x hx => h x (by simp [hx])
    unfold moveFwd
    split
    · intro b' hb'
      rcases List.mem_cons.1 hb' with rfl | hb'
      · exact hb
      · exact ih hrest b' hb'
    · intro b' hb'
      simp only at hb'
      have key : ∀ e, ∀ x ∈ attach (b.freq + 1) e rest, lo ≤ x.freq := by
        intro e x hx
        rcases mem_attach hx with h1 | h1
        · omega
        · exact hrest x h1
      split at hb'
      · exact key _ _ hb'
      · rcases List.mem_cons.1 hb' with rfl | hb'
        · exact hb
        · exact key _ _ hb'

theorem moveFwd_freqAsc (c k : Nat) (bs : List Bucket)
    (hasc : bs.Pairwise (fun a b => a.freq < b.freq)) :
    (moveFwd c k bs).Pairwise (fun a b => a.freq < b.freq) := by
  induction bs with
  | nil => simp [moveFwd]
  | cons b rest ih =>
    rw [List.pairwise_cons] at hasc
    unfold moveFwd
    split
    · rw [List.pairwise_cons]
      refine ⟨?_, ih hasc.2⟩
      intro a ha
      have := moveFwd_freq_lb c k (b.freq + 1) rest (fun x hx => hasc.1 x hx) a ha
      omega
    · simp only
      have hatt := fun e => attach_freqAsc (f := b.freq + 1) (e := e) hasc.2 (fun x hx => hasc.1 x hx)
      split
      · exact hatt _
      · rw [List.pairwise_cons]
        refine ⟨?_, hatt _⟩
        intro a ha
        rcases mem_attach ha with h1 | h1
        · simp; omega
        · exact hasc.1 a h1

end LFU

namespace LFU

/-- per-bucket well-formedness at clock `c` -/
def BOK (c : Nat) (b : Bucket) : Prop :=
  b.ents ≠ [] ∧ b.ents.Pairwise (fun x y => x.stamp < y.stamp) ∧ ∀ e ∈ b.ents, e.stamp < c

theorem BOK.mono {c c' : Nat} {b : Bucket} (h : BOK c b) (hc : c ≤ c') : BOK c' b :=
  ⟨h.1, h.2.1, fun e he => Nat.lt_of_lt_of_le (h.2.2 e he) hc⟩

theorem BOK_single (c f : Nat) (e : Ent) (h : e.stamp = c) : BOK (c + 1) ⟨f, [e]⟩ := by
  refine ⟨by simp, by simp, ?_⟩
  intro x hx; simp at hx; subst hx; omega

theorem BOK_append (c : Nat) (b : Bucket) (e : Ent) (h : BOK c b) (he : e.stamp = c) :
    BOK (c + 1) { b with ents := b.ents ++ [e] } := by
  refine ⟨by simp, ?_, ?_⟩
  · simp only [List.pairwise_append, List.pairwise_cons, List.Pairwise.nil, and_true]
    refine ⟨h.2.1, by simp, ?_⟩
    intro a ha b' hb'; simp at hb'; subst hb'; have := h.2.2 a ha; omega
  · intro x hx; simp at hx
    rcases hx with hx | rfl
    · have := h.2.2 x hx; omega
    · omega

theorem attach_BOK {c f : Nat} {e : Ent} {rest : List Bucket} (he : e.stamp = c)
    (h : ∀ b ∈ rest, BOK c b) : ∀ b ∈ attach f e rest, BOK (c + 1) b := by
  cases rest with
  | nil => intro b hb; simp [attach] at hb; subst hb; exact BOK_single c f e he
  | cons nb rr =>
    intro b hb
    simp only [attach] at hb
    split at hb
    · rcases List.mem_cons.1 hb with rfl | hb
      · exact BOK_append c nb e (h nb (by simp)) he
      · exact (h b (by simp [hb])).mono (by omega)
    · rcases List.mem_cons.1 hb with rfl | hb
      · exact BOK_single c f e he
      · exact (h b hb).mono (by omega)

theorem moveFwd_BOK (c k : Nat) (bs : List Bucket) (h : ∀ b ∈ bs, BOK c b) :
    ∀ b ∈ moveFwd c k bs, BOK (c + 1) b := by
  induction bs with
  | nil => simp [moveFwd]
  | cons b rest ih =>
    have hb := h b (by simp)
    have hrest : ∀ x ∈ rest, BOK c x := fun x hx => h x (by simp [hx])
    unfold moveFwd
    split
    · intro b' hb'
      rcases List.mem_cons.1 hb' with rfl | hb'
      · exact hb.mono (by omega)
      · exact ih hrest b' hb'
    · intro b' hb'
      simp only at hb'
      split at hb'
      · exact attach_BOK rfl hrest b' hb'
      · rename_i hne
        rcases List.mem_cons.1 hb' with rfl | hb'
        · refine ⟨?_, ?_, ?_⟩
          · simpa using hne
          · exact hb.2.1.sublist List.filter_sublist
          · intro x hx; have := hb.2.2 x (List.mem_filter.1 hx).1; simp; omega
        · exact attach_BOK rfl hrest b' hb'

/-! ### flat characterisations -/

theorem flat_attach (f : Nat) (e : Ent) (rest : List Bucket) :
    (flat (attach f e rest)).Perm ((f, e) :: flat rest) := by
  cases rest with
  | nil => simp [attach, flat]
  | cons nb rr =>
    simp only [attach]
    split
    · rename_i h
      simp only [flat_cons, List.map_append, List.map_cons, List.map_nil, h]
      rw [List.append_assoc]
      simp only [List.singleton_append]
      exact List.perm_middle
    · simp [flat_cons]

theorem lookup_cons (b : Bucket) (rest : List Bucket) (k : Nat) :
    lookup (b :: rest) k =
      ((b.ents.find? (fun e => e.key == k)).map (fun e => (b.freq, e))).or (lookup rest k) := by
  simp only [lookup, flat_cons, List.find?_append, List.find?_map]
  congr 1

theorem filter_flat_cons (b : Bucket) (rest : List Bucket) (k : Nat) :
    (flat (b :: rest)).filter (fun p => p.2.key != k) =
      (b.ents.filter (fun e => e.key != k)).map (fun e => (b.freq, e)) ++
        (flat rest).filter (fun p => p.2.key != k) := by
  simp only [flat_cons, List.filter_append, List.filter_map]
  congr 1

theorem flat_moveFwd (c k : Nat) (bs : List Bucket) (u : Nat) (e : Ent)
    (hnd : ((flat bs).map (fun p => p.2.key)).Nodup)
    (hl : lookup bs k = some (u, e)) :
    (flat (moveFwd c k bs)).Perm
      ((u + 1, { e with stamp := c }) :: (flat bs).filter (fun p => p.2.key != k)) := by
  induction bs with
  | nil => simp [lookup, flat] at hl
  | cons b rest ih =>
    rw [lookup_cons] at hl
    rw [filter_flat_cons]
    unfold moveFwd
    split
    · rename_i hnone
      rw [hnone] at hl
      simp only [Option.map_none, Option.none_or] at hl
      have hnd' : ((flat rest).map (fun p => p.2.key)).Nodup := by
        rw [flat_cons, List.map_append] at hnd
        exact (List.nodup_append.1 hnd).2.1
      have := ih hnd' hl
      rw [flat_cons]
      have hfil : b.ents.filter (fun e => e.key != k) = b.ents := by
        rw [List.filter_eq_self]
        intro a ha
        have := List.find?_eq_none.1 hnone a ha
        simpa using this
      rw [hfil]
      refine (List.Perm.append_left _ this).trans ?_
      exact List.perm_middle
    · rename_i e0 hsome
      rw [hsome] at hl
      simp only [Option.map_some, Option.some_or, Option.some.injEq, Prod.mk.injEq] at hl
      obtain ⟨rfl, rfl⟩ := hl
      have he0 := List.find?_some hsome
      have hmem := List.mem_of_find?_eq_some hsome
      simp only [beq_iff_eq] at he0
      -- k does not occur in rest
      have hrest : (flat rest).filter (fun p => p.2.key != k) = flat rest := by
        rw [List.filter_eq_self]
        intro p hp
        rw [flat_cons, List.map_append] at hnd
        have hdis := (List.nodup_append.1 hnd).2.2
        have h1 : e0.key ∈ (b.ents.map (fun e => (b.freq, e))).map (fun p => p.2.key) := by
          simp only [List.map_map, List.mem_map, Function.comp]
          exact ⟨e0, hmem, rfl⟩
        have h2 : p.2.key ∈ (flat rest).map (fun p => p.2.key) := List.mem_map.2 ⟨p, hp, rfl⟩
        have := hdis _ h1 _ h2
        simp only [bne_iff_ne, ne_eq]
        intro hpk; apply this; rw [he0, hpk]
      rw [hrest]
      simp only
      have hatt := flat_attach (b.freq + 1) { e0 with stamp := c } rest
      split
      · rename_i hemp
        have : b.ents.filter (fun x => x.key != k) = [] := by simpa using hemp
        rw [this]
        simpa using hatt
      · rw [flat_cons]
        simp only
        refine (List.Perm.append_left _ hatt).trans ?_
        exact List.perm_middle

end LFU

namespace LFU

/-- The representation invariant of the bucket list. -/
structure Inv (s : State) : Prop where
  freqAsc : s.buckets.Pairwise (fun a b => a.freq < b.freq)
  bok : ∀ b ∈ s.buckets, BOK s.clock b
  keysNodup : ((flat s.buckets).map (fun p => p.2.key)).Nodup
  bounded : size s.buckets ≤ s.cap

theorem hasKey_iff {bs : List Bucket} {k : Nat} :
    hasKey bs k = true ↔ ∃ p ∈ flat bs, p.2.key = k := by
  simp only [hasKey, lookup, List.find?_isSome, beq_iff_eq]

theorem lookup_none_iff {bs : List Bucket} {k : Nat} :
    lookup bs k = none ↔ ∀ p ∈ flat bs, p.2.key ≠ k := by
  simp [lookup, List.find?_eq_none]

/-! ### update -/

theorem flat_update (k v : Nat) (bs : List Bucket) :
    flat (update k v bs) =
      (flat bs).map (fun p => if p.2.key == k then (p.1, { p.2 with val := v }) else p) := by
  induction bs with
  | nil => simp [update, flat]
  | cons b rest ih =>
    simp only [update, flat_cons, ih, List.map_append, List.map_map]
    congr 1
    apply List.map_congr_left
    intro a _
    simp only [Function.comp]
    split <;> simp_all

theorem update_freqs (k v : Nat) (bs : List Bucket) :
    (update k v bs).map (·.freq) = bs.map (·.freq) := by
  induction bs with
  | nil => simp [update]
  | cons b rest ih => simp [update, ih]

theorem update_BOK (c k v : Nat) (bs : List Bucket) (h : ∀ b ∈ bs, BOK c b) :
    ∀ b ∈ update k v bs, BOK c b := by
  induction bs with
  | nil => simp [update]
  | cons b rest ih =>
    intro b' hb'
    simp only [update] at hb'
    rcases List.mem_cons.1 hb' with rfl | hb'
    · have hb := h b (by simp)
      refine ⟨?_, ?_, ?_⟩
      · simpa using hb.1
      · simp only [List.pairwise_map]
        refine hb.2.1.imp ?_
        intro x y hxy
        split <;> split <;> simpa using hxy
      · intro e he
        simp only [List.mem_map] at he
        obtain ⟨a, ha, rfl⟩ := he
        have := hb.2.2 a ha
        split <;> simpa using this
    · exact ih (fun x hx => h x (by simp [hx])) b' hb'

theorem pairwise_freq_of_map {bs bs' : List Bucket} (h : bs'.map (·.freq) = bs.map (·.freq))
    (hp : bs.Pairwise (fun a b => a.freq < b.freq)) : bs'.Pairwise (fun a b => a.freq < b.freq) := by
  have h1 : (bs.map (·.freq)).Pairwise (· < ·) := by simpa [List.pairwise_map] using hp
  rw [← h] at h1
  simpa [List.pairwise_map] using h1

/-! ### create -/

theorem flat_create (c k v : Nat) (bs : List Bucket) :
    (flat (create c k v bs)).Perm ((0, ⟨k, v, c⟩) :: flat bs) := by
  cases bs with
  | nil => simp [create, flat]
  | cons b rest =>
    simp only [create]
    split
    · rename_i h
      simp only [flat_cons, List.map_append, List.map_cons, List.map_nil, h]
      rw [List.append_assoc]
      simp only [List.singleton_append]
      exact List.perm_middle
    · simp [flat_cons]

theorem create_freqAsc (c k v : Nat) (bs : List Bucket)
    (h : bs.Pairwise (fun a b => a.freq < b.freq)) :
    (create c k v bs).Pairwise (fun a b => a.freq < b.freq) := by
  cases bs with
  | nil => simp [create]
  | cons b rest =>
    simp only [create]
    split
    · rw [List.pairwise_cons] at *; exact h
    · rw [List.pairwise_cons]
      refine ⟨?_, h⟩
      rw [List.pairwise_cons] at h
      intro a ha
      rcases List.mem_cons.1 ha with rfl | ha
      · simp; omega
      · have := h.1 a ha; simp; omega

theorem create_BOK (c k v : Nat) (bs : List Bucket) (h : ∀ b ∈ bs, BOK c b) :
    ∀ b ∈ create c k v bs, BOK (c + 1) b := by
  cases bs with
  | nil => intro b hb; simp [create] at hb; subst hb; exact BOK_single c 0 _ rfl
  | cons b rest =>
    intro b' hb'
    simp only [create] at hb'
    split at hb'
    · rcases List.mem_cons.1 hb' with rfl | hb'
      · exact BOK_append c b _ (h b (by simp)) rfl
      · exact (h b' (by simp [hb'])).mono (by omega)
    · rcases List.mem_cons.1 hb' with rfl | hb'
      · exact BOK_single c 0 _ rfl
      · exact (h b' hb').mono (by omega)

/-! ### dump -/

theorem dump_spec (bs : List Bucket) (c : Nat) (hne : bs ≠ []) (hbok : ∀ b ∈ bs, BOK c b) :
    ∃ p, (dump bs).2 = some p.2.key ∧ flat bs = p :: flat (dump bs).1 ∧
      (∀ b ∈ (dump bs).1, BOK c b) ∧
      ((dump bs).1.Sublist bs ∨ ∃ b rest es, bs = b :: rest ∧ (dump bs).1 = { b with ents := es } :: rest) := by
  cases bs with
  | nil => exact absurd rfl hne
  | cons b rest =>
    have hb := hbok b (by simp)
    cases hents : b.ents with
    | nil => exact absurd hents hb.1
    | cons e es =>
      simp only [dump, hents]
      refine ⟨(b.freq, e), rfl, ?_, ?_, ?_⟩
      · split
        · rename_i h
          have : es = [] := by simpa using h
          simp [flat_cons, hents, this]
        · simp [flat_cons, hents]
      · split
        · intro x hx; exact hbok x (by simp [hx])
        · intro x hx
          rcases List.mem_cons.1 hx with rfl | hx
          · rename_i hne'
            unfold BOK at hb
            rw [hents] at hb
            refine ⟨by simpa using hne', ?_, ?_⟩
            · exact (List.pairwise_cons.1 hb.2.1).2
            · intro y hy; exact hb.2.2 y (by simp [hy])
          · exact hbok x (by simp [hx])
      · split
        · left; simp
        · right; exact ⟨b, rest, es, rfl, rfl⟩

theorem dump_freqAsc (bs : List Bucket) (h : bs.Pairwise (fun a b => a.freq < b.freq)) :
    (dump bs).1.Pairwise (fun a b => a.freq < b.freq) := by
  cases bs with
  | nil => simp [dump]
  | cons b rest =>
    cases hents : b.ents with
    | nil => simpa [dump, hents] using h
    | cons e es =>
      simp only [dump, hents]
      rw [List.pairwise_cons] at h
      split
      · exact h.2
      · rw [List.pairwise_cons]; exact ⟨h.1, h.2⟩

end LFU

namespace LFU

theorem flat_sorted (c : Nat) (bs : List Bucket)
    (hasc : bs.Pairwise (fun a b => a.freq < b.freq)) (hbok : ∀ b ∈ bs, BOK c b) :
    (flat bs).Pairwise lexLt := by
  induction bs with
  | nil => simp [flat]
  | cons b rest ih =>
    rw [List.pairwise_cons] at hasc
    rw [flat_cons, List.pairwise_append]
    refine ⟨?_, ih hasc.2 (fun x hx => hbok x (by simp [hx])), ?_⟩
    · rw [List.pairwise_map]
      exact (hbok b (by simp)).2.1.imp (fun h => Or.inr ⟨rfl, h⟩)
    · intro a ha p hp
      obtain ⟨e, _, rfl⟩ := List.mem_map.1 ha
      obtain ⟨b', hb', hf, _⟩ := mem_flat.1 hp
      left
      have := hasc.1 b' hb'
      simp only; omega

theorem filter_key_length (A : List AEnt) (k : Nat)
    (hnd : (A.map (fun p => p.2.key)).Nodup) (hk : ∃ p ∈ A, p.2.key = k) :
    (A.filter (fun p => p.2.key != k)).length + 1 = A.length := by
  induction A with
  | nil => simp at hk
  | cons a A ih =>
    simp only [List.map_cons, List.nodup_cons] at hnd
    by_cases hak : a.2.key = k
    · have : A.filter (fun p => p.2.key != k) = A := by
        rw [List.filter_eq_self]
        intro p hp
        simp only [bne_iff_ne, ne_eq]
        intro hpk
        apply hnd.1
        rw [hak, ← hpk]
        exact List.mem_map.2 ⟨p, hp, rfl⟩
      simp [hak, this]
    · obtain ⟨p, hp, hpk⟩ := hk
      have hp' : p ∈ A := by
        rcases List.mem_cons.1 hp with rfl | h
        · exact absurd hpk hak
        · exact h
      have := ih hnd.2 ⟨p, hp', hpk⟩
      simp [hak]
      omega

theorem filter_keys_nodup (A : List AEnt) (k : Nat) (hnd : (A.map (fun p => p.2.key)).Nodup) :
    ((A.filter (fun p => p.2.key != k)).map (fun p => p.2.key)).Nodup :=
  hnd.sublist (List.Sublist.map _ List.filter_sublist)

theorem not_mem_filter_keys (A : List AEnt) (k : Nat) :
    k ∉ (A.filter (fun p => p.2.key != k)).map (fun p => p.2.key) := by
  intro h
  obtain ⟨p, hp, hpk⟩ := List.mem_map.1 h
  have := (List.mem_filter.1 hp).2
  simp at this
  exact this hpk

end LFU

namespace LFU

theorem step_cap (s : State) (op : Op) : (step s op).1.cap = s.cap := by
  cases op with
  | get k => simp only [step]; split <;> rfl
  | set k v =>
    simp only [step]
    split
    · rfl
    · split <;> rfl

theorem size_pos_nonempty {bs : List Bucket} (h : 0 < size bs) : bs ≠ [] := by
  intro hb; subst hb; simp [size, flat] at h

/-- one step preserves the invariant and is an allowed step of the specification -/
theorem step_spec (s : State) (op : Op) (hinv : Inv s) (hcap : 0 < s.cap) :
    Inv (step s op).1 ∧
      SpecStep s.cap s.clock (flat s.buckets) op (step s op).2 (flat (step s op).1.buckets) := by
  obtain ⟨hasc, hbok, hnd, hbd⟩ := hinv
  cases op with
  | get k =>
    simp only [step]
    cases hl : lookup s.buckets k with
    | none =>
      exact ⟨⟨hasc, hbok, hnd, hbd⟩, SpecStep.getMiss k (lookup_none_iff.1 hl)⟩
    | some p =>
      obtain ⟨u, e⟩ := p
      have hmem : (u, e) ∈ flat s.buckets := List.mem_of_find?_eq_some hl
      have hkey : e.key = k := by
        have := List.find?_some hl; simpa using this
      subst hkey
      have hperm := flat_moveFwd s.clock e.key s.buckets u e hnd hl
      simp only
      refine ⟨⟨moveFwd_freqAsc _ _ _ hasc, moveFwd_BOK _ _ _ hbok, ?_, ?_⟩,
              SpecStep.getHit e.key u e _ hmem rfl hperm⟩
      · have := (hperm.map (fun p => p.2.key)).nodup_iff.2 (by
          simp only [List.map_cons, List.nodup_cons]
          exact ⟨not_mem_filter_keys _ _, filter_keys_nodup _ _ hnd⟩)
        exact this
      · have hlen := hperm.length_eq
        have h2 := filter_key_length (flat s.buckets) e.key hnd ⟨(u, e), hmem, rfl⟩
        simp only [size]
        rw [hlen, List.length_cons, h2]; exact hbd
  | set k v =>
    simp only [step]
    split
    · rename_i hk
      refine ⟨⟨pairwise_freq_of_map (update_freqs k v _) hasc, update_BOK _ _ _ _ hbok, ?_, ?_⟩,
              SpecStep.setOld k v _ (hasKey_iff.1 hk) (flat_update k v _)⟩
      · rw [flat_update, List.map_map]
        have : ((fun p : AEnt => p.2.key) ∘ fun p : AEnt => if p.2.key == k then (p.1, { p.2 with val := v }) else p)
            = fun p => p.2.key := by
          funext p; simp only [Function.comp]; split <;> rfl
        rw [this]; exact hnd
      · simp only [size, flat_update, List.length_map] at *; exact hbd
    · rename_i hk
      have hnk : ∀ p ∈ flat s.buckets, p.2.key ≠ k := by
        intro p hp hpk
        exact hk (hasKey_iff.2 ⟨p, hp, hpk⟩)
      split
      · rename_i hfull
        have hne : s.buckets ≠ [] := size_pos_nonempty (by omega)
        obtain ⟨victim, hev, hflat, hbok', _⟩ := dump_spec s.buckets s.clock hne hbok
        have hsorted := flat_sorted s.clock s.buckets hasc hbok
        rw [hflat, List.pairwise_cons] at hsorted
        have hnd2 := hnd
        rw [hflat, List.map_cons, List.nodup_cons] at hnd2
        have hfil : (flat s.buckets).filter (fun p => p.2.key != victim.2.key) = flat (dump s.buckets).1 := by
          rw [hflat, List.filter_cons]
          simp only [bne_self_eq_false, Bool.false_eq_true, ↓reduceIte]
          rw [List.filter_eq_self]
          intro p hp
          simp only [bne_iff_ne, ne_eq]
          intro hpk
          exact hnd2.1 (List.mem_map.2 ⟨p, hp, hpk⟩)
        have hcreate := flat_create s.clock k v (dump s.buckets).1
        have hnk' : ∀ p ∈ flat (dump s.buckets).1, p.2.key ≠ k := by
          intro p hp; exact hnk p (by rw [hflat]; simp [hp])
        cases hd : dump s.buckets with
        | mk bs ev =>
          rw [hd] at hev hflat hbok' hfil hcreate hnk' hnd2 hsorted
          simp only at hev hflat hbok' hfil hcreate hnk' hnd2 hsorted ⊢
          subst hev
          refine ⟨⟨create_freqAsc _ _ _ _ (by have := dump_freqAsc s.buckets hasc; rw [hd] at this; exact this),
                   create_BOK _ _ _ _ hbok', ?_, ?_⟩, ?_⟩
          · refine (hcreate.map (fun p => p.2.key)).nodup_iff.2 ?_
            simp only [List.map_cons, List.nodup_cons]
            refine ⟨?_, hnd2.2⟩
            intro h
            obtain ⟨p, hp, hpk⟩ := List.mem_map.1 h
            exact hnk' p hp hpk
          · have h1 := hcreate.length_eq
            have h2 : (flat s.buckets).length = (flat bs).length + 1 := by rw [hflat]; simp
            simp only [size, List.length_cons] at *
            omega
          · refine SpecStep.setEvict k v victim _ hnk hfull (by rw [hflat]; simp) ?_ (by rw [hfil]; exact hcreate)
            intro p hp hne'
            rw [hflat] at hp
            rcases List.mem_cons.1 hp with rfl | hp
            · exact absurd rfl hne'
            · exact hsorted.1 p hp
      · rename_i hroom
        have hcreate := flat_create s.clock k v s.buckets
        refine ⟨⟨create_freqAsc _ _ _ _ hasc, create_BOK _ _ _ _ hbok, ?_, ?_⟩,
                SpecStep.setNew k v _ hnk (by simp only [size] at hroom; omega) hcreate⟩
        · refine (hcreate.map (fun p => p.2.key)).nodup_iff.2 ?_
          simp only [List.map_cons, List.nodup_cons]
          refine ⟨?_, hnd⟩
          intro h
          obtain ⟨p, hp, hpk⟩ := List.mem_map.1 h
          exact hnk p hp hpk
        · have h1 := hcreate.length_eq
          simp only [size, List.length_cons] at *
          omega

theorem init_inv (cap : Nat) : Inv (init cap) := by
  refine ⟨?_, ?_, ?_, ?_⟩ <;> simp [init, flat, size]

theorem exec_inv (s : State) (ops : List Op) (hinv : Inv s) (hcap : 0 < s.cap) :
    Inv (exec s ops) ∧ (exec s ops).cap = s.cap := by
  induction ops generalizing s with
  | nil => exact ⟨hinv, rfl⟩
  | cons op ops ih =>
    have h1 := (step_spec s op hinv hcap).1
    have h2 := step_cap s op
    have := ih (step s op).1 h1 (by omega)
    simp only [exec, List.foldl_cons] at *
    exact ⟨this.1, by omega⟩

end LFU

namespace LFU

theorem specStep_hasVal {cap c : Nat} {A A' : List AEnt} {op : Op} {out : Out}
    (h : SpecStep cap c A op out A') (k : Nat) (m : Option Nat)
    (hm : ∀ v, HasVal A k v ↔ m = some v) :
    ∀ v, HasVal A' k v ↔ refStep k m (op, out) = some v := by
  intro v
  cases h with
  | getMiss k0 hk => simpa [refStep] using hm v
  | getHit k0 u e A1 hmem hkey hperm =>
    simp only [refStep]
    rw [← hm v]
    unfold HasVal
    constructor
    · rintro ⟨p, hp, hpk, hpv⟩
      rcases List.mem_cons.1 (hperm.mem_iff.1 hp) with rfl | hp
      · exact ⟨(u, e), hmem, by simpa using hpk, by simpa using hpv⟩
      · exact ⟨p, (List.mem_filter.1 hp).1, hpk, hpv⟩
    · rintro ⟨p, hp, hpk, hpv⟩
      by_cases hk : k = k0
      · subst hk
        have h1 : m = some p.2.val := (hm _).1 ⟨p, hp, hpk, rfl⟩
        have h2 : m = some e.val := (hm _).1 ⟨(u, e), hmem, hkey, rfl⟩
        have : e.val = v := by rw [h1] at h2; simp at h2; omega
        exact ⟨_, hperm.mem_iff.2 (List.mem_cons_self ..), hkey, this⟩
      · refine ⟨p, hperm.mem_iff.2 (List.mem_cons_of_mem _ (List.mem_filter.2 ⟨hp, ?_⟩)), hpk, hpv⟩
        simp only [bne_iff_ne, ne_eq]; omega
  | setOld k0 v0 A1 hex heq =>
    subst heq
    simp only [refStep]
    by_cases hk : k0 = k
    · subst hk
      simp only [↓reduceIte, Option.some.injEq]
      unfold HasVal
      constructor
      · rintro ⟨p, hp, hpk, hpv⟩
        obtain ⟨q, hq, rfl⟩ := List.mem_map.1 hp
        by_cases he : q.2.key = k0
        · simp [he] at hpv; exact hpv
        · simp [he] at hpk
      · rintro rfl
        obtain ⟨q, hq, hqk⟩ := hex
        refine ⟨_, List.mem_map.2 ⟨q, hq, rfl⟩, ?_, ?_⟩ <;> simp [hqk]
    · simp only [hk, ↓reduceIte, reduceCtorEq]
      rw [← hm v]
      unfold HasVal
      constructor
      · rintro ⟨p, hp, hpk, hpv⟩
        obtain ⟨q, hq, rfl⟩ := List.mem_map.1 hp
        by_cases he : q.2.key = k0
        · simp [he] at hpk; omega
        · simp [he] at hpk hpv; exact ⟨q, hq, hpk, hpv⟩
      · rintro ⟨p, hp, hpk, hpv⟩
        refine ⟨_, List.mem_map.2 ⟨p, hp, rfl⟩, ?_, ?_⟩
        · split
          · rename_i he; simp at he; omega
          · exact hpk
        · split
          · rename_i he; simp at he; omega
          · exact hpv
  | setNew k0 v0 A1 hnk hroom hperm =>
    simp only [refStep]
    by_cases hk : k0 = k
    · subst hk
      simp only [↓reduceIte, Option.some.injEq]
      unfold HasVal
      constructor
      · rintro ⟨p, hp, hpk, hpv⟩
        rcases List.mem_cons.1 (hperm.mem_iff.1 hp) with rfl | hp
        · simpa using hpv
        · exact absurd hpk (hnk p hp)
      · rintro rfl
        exact ⟨_, hperm.mem_iff.2 (List.mem_cons_self ..), rfl, rfl⟩
    · simp only [hk, ↓reduceIte, reduceCtorEq]
      rw [← hm v]
      unfold HasVal
      constructor
      · rintro ⟨p, hp, hpk, hpv⟩
        rcases List.mem_cons.1 (hperm.mem_iff.1 hp) with rfl | hp
        · simp at hpk; omega
        · exact ⟨p, hp, hpk, hpv⟩
      · rintro ⟨p, hp, hpk, hpv⟩
        exact ⟨p, hperm.mem_iff.2 (List.mem_cons_of_mem _ hp), hpk, hpv⟩
  | setEvict k0 v0 victim A1 hnk hfull hvic hmin hperm =>
    simp only [refStep]
    by_cases hk : k0 = k
    · subst hk
      simp only [↓reduceIte, Option.some.injEq]
      unfold HasVal
      constructor
      · rintro ⟨p, hp, hpk, hpv⟩
        rcases List.mem_cons.1 (hperm.mem_iff.1 hp) with rfl | hp
        · simpa using hpv
        · exact absurd hpk (hnk p (List.mem_filter.1 hp).1)
      · rintro rfl
        exact ⟨_, hperm.mem_iff.2 (List.mem_cons_self ..), rfl, rfl⟩
    · simp only [hk, ↓reduceIte, Option.some.injEq]
      by_cases hv : victim.2.key = k
      · simp only [hv, ↓reduceIte, reduceCtorEq, iff_false]
        rintro ⟨p, hp, hpk, hpv⟩
        rcases List.mem_cons.1 (hperm.mem_iff.1 hp) with rfl | hp
        · simp at hpk; omega
        · have := (List.mem_filter.1 hp).2
          simp only [bne_iff_ne, ne_eq] at this
          omega
      · simp only [hv, ↓reduceIte]
        rw [← hm v]
        unfold HasVal
        constructor
        · rintro ⟨p, hp, hpk, hpv⟩
          rcases List.mem_cons.1 (hperm.mem_iff.1 hp) with rfl | hp
          · simp at hpk; omega
          · exact ⟨p, (List.mem_filter.1 hp).1, hpk, hpv⟩
        · rintro ⟨p, hp, hpk, hpv⟩
          refine ⟨p, hperm.mem_iff.2 (List.mem_cons_of_mem _ (List.mem_filter.2 ⟨hp, ?_⟩)), hpk, hpv⟩
          simp only [bne_iff_ne, ne_eq]; omega

/-- history level: after any history, the cache holds for `k` exactly the reference value -/
theorem trace_hasVal (s : State) (ops : List Op) (hinv : Inv s) (hcap : 0 < s.cap) (k : Nat)
    (m : Option Nat) (hm : ∀ v, HasVal (flat s.buckets) k v ↔ m = some v) :
    ∀ v, HasVal (flat (exec s ops).buckets) k v ↔ (trace s ops).foldl (refStep k) m = some v := by
  induction ops generalizing s m with
  | nil => simpa [exec, trace] using hm
  | cons op ops ih =>
    have hs := step_spec s op hinv hcap
    have hc := step_cap s op
    have := ih (step s op).1 hs.1 (by omega) _ (specStep_hasVal hs.2 k m hm)
    simpa [exec, trace] using this

theorem get_out_iff (s : State) (k v : Nat) :
    (step s (.get k)).2 = .found v ↔ ∃ p, lookup s.buckets k = some p ∧ p.2.val = v := by
  simp only [step]
  cases hl : lookup s.buckets k with
  | none => simp
  | some p => simp

theorem nodup_map_inj {α β : Type} (f : α → β) (l : List α) (h : (l.map f).Nodup) {a b : α}
    (ha : a ∈ l) (hb : b ∈ l) (hab : f a = f b) : a = b := by
  induction l with
  | nil => cases ha
  | cons x xs ih =>
    simp only [List.map_cons, List.nodup_cons] at h
    rcases List.mem_cons.1 ha with ha1 | ha1 <;> rcases List.mem_cons.1 hb with hb1 | hb1
    · rw [ha1, hb1]
    · subst ha1; exact absurd (List.mem_map.2 ⟨b, hb1, hab.symm⟩) h.1
    · subst hb1; exact absurd (List.mem_map.2 ⟨a, ha1, hab⟩) h.1
    · exact ih h.2 ha1 hb1

theorem lookup_hasVal (bs : List Bucket) (k v : Nat)
    (hnd : ((flat bs).map (fun p => p.2.key)).Nodup) :
    (∃ p, lookup bs k = some p ∧ p.2.val = v) ↔ HasVal (flat bs) k v := by
  constructor
  · rintro ⟨p, hl, hv⟩
    have h1 := List.mem_of_find?_eq_some hl
    have h2 := List.find?_some hl
    exact ⟨p, h1, by simpa using h2, hv⟩
  · rintro ⟨p, hp, hpk, hpv⟩
    cases hl : lookup bs k with
    | none => exact absurd hpk (lookup_none_iff.1 hl p hp)
    | some q =>
      have h1 : q ∈ flat bs := List.mem_of_find?_eq_some hl
      have h2 : q.2.key = k := by have := List.find?_some hl; simpa using this
      have : q = p := by
        exact nodup_map_inj _ _ hnd h1 hp (by rw [h2, hpk])
      exact ⟨q, rfl, by rw [this]; exact hpv⟩

end LFU
