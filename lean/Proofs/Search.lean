import Model.Search.Search
import Proofs.Keys
/-!
Soundness and completeness of the DeepSearch model against a declarative notion of *reachable
location*: `Reach c env obj parent rel p w` says that following the key sequence `rel` from `obj`
(whose own path text is `parent`) arrives at the value `w` with path text `p`, and that no value
on the way (both ends included) is excluded by `exclude_paths` / `exclude_regex_paths` /
`exclude_types`.
-/
namespace Search
open Py

def seqOf : PyVal → Option (List PyVal)
  | .list xs | .tuple xs | .set xs | .frozenset xs => some xs
  | _ => none

inductive Reach (c : SCfg) (env : SEnv) : PyVal → String → List PyVal → String → PyVal → Prop where
  | here (obj : PyVal) (parent : String) : skipThis c env obj parent = false → Reach c env obj parent [] parent obj
  | dict (kvs : List (PyVal × PyVal)) (parent : String) (k v : PyVal) (rest : List PyVal) (p : String) (w : PyVal) :
      skipThis c env (.dict kvs) parent = false → (k, v) ∈ kvs → Reach c env v (childPath parent k) rest p w →
      Reach c env (.dict kvs) parent (k :: rest) p w
  | seq (obj : PyVal) (xs : List PyVal) (parent : String) (i : Nat) (x : PyVal) (rest : List PyVal) (p : String) (w : PyVal) :
      seqOf obj = some xs → skipThis c env obj parent = false → xs[i]? = some x → Reach c env x (indexPath parent i) rest p w →
      Reach c env obj parent (.int i :: rest) p w

def isLeaf : PyVal → Bool
  | .str _ | .int _ | .float _ _ | .bool _ | .none => true
  | _ => false

def scalarItem : PyVal → Bool
  | .str _ | .int _ | .float _ _ | .bool _ | .none => true
  | _ => false

/-- a value hit / a path hit is justified -/
def HitOK (c : SCfg) (env : SEnv) (cs : Bool) (item : PyVal) (obj : PyVal) (parent : String) (keys : List PyVal) (h : Hit) : Prop :=
  (h.isPath = false → ∃ rel, h.keys = keys ++ rel ∧ Reach c env obj parent rel h.path h.val ∧ isLeaf h.val = true ∧
      leafMatch c env cs item h.val = true) ∧
  (h.isPath = true → ∃ rel kvs k pp, h.keys = keys ++ rel ++ [k] ∧ Reach c env obj parent rel pp (.dict kvs) ∧ (k, h.val) ∈ kvs ∧
      h.path = childPath pp k ∧ skipThis c env h.val h.path = false ∧ pathMatch c env cs item h.path = true)

/-! ### small facts -/

theorem isPrefixOf_self (a : List Char) : a.isPrefixOf a = true := by
  induction a with
  | nil => rfl
  | cons x xs ih => simp [List.isPrefixOf, ih]

theorem infixB_self (a : String) : infixB a a = true := by
  unfold infixB
  cases h : a.toList with
  | nil => simp [tailsOf]
  | cons x xs => simp [tailsOf, isPrefixOf_self]

theorem pyEq_num_flip {x item : PyVal} (hx : isNumber x = true) (h : pyEq x item = true) : pyEq item x = true := by
  have h1 : numEq x item = true := by
    cases x <;> simp [isNumber] at hx <;> simpa [pyEq] using h
  have h2 := numEq_symm h1
  have hnum : (numOf item).isSome := by
    unfold numEq at h1
    cases hi : numOf item with
    | none => simp [hi] at h1
    | some p => rfl
  cases item <;> simp [numOf] at hnum <;> simpa [pyEq] using h2

theorem casedThing_str (cs : Bool) (s : String) : casedThing cs (.str s) = .str (if cs then s else lower s) := by
  cases cs <;> rfl

theorem pyEq_str_left {t : String} {item : PyVal} (h : pyEq (.str t) item = true) : item = .str t := by
  cases item <;> simp [pyEq] at h
  simp [h]

/-- the equality shortcut of `__search_iterable` only fires on leaves that match under the mode -/
theorem shortcut_sound (c : SCfg) (env : SEnv) (cs : Bool) (item x : PyVal) (hi : scalarItem item = true)
    (hr : c.useRegexp = false) (h : pyEq (casedThing cs x) item = true) :
    isLeaf x = true ∧ leafMatch c env cs item x = true := by
  cases x with
  | str s =>
    refine ⟨rfl, ?_⟩
    rw [casedThing_str] at h
    have := pyEq_str_left h
    subst this
    simp only [leafMatch, isStr, Bool.true_or, Bool.true_and, strMatch, hr]
    generalize (if cs = true then s else lower s) = t
    cases c.matchString <;> simp [infixB_self]
  | int i =>
    refine ⟨rfl, ?_⟩
    have := pyEq_num_flip (x := .int i) rfl (by simpa [casedThing] using h)
    simp [leafMatch, numMatch, hr, this]
  | float n s =>
    refine ⟨rfl, ?_⟩
    have := pyEq_num_flip (x := .float n s) rfl (by simpa [casedThing] using h)
    simp [leafMatch, numMatch, hr, this]
  | bool b =>
    refine ⟨rfl, ?_⟩
    have := pyEq_num_flip (x := .bool b) rfl (by simpa [casedThing] using h)
    simp [leafMatch, numMatch, hr, this]
  | none =>
    refine ⟨rfl, ?_⟩
    cases item <;> simp [casedThing, pyEq] at h
    simp [leafMatch, hr, isNone]
  | bytes b => cases item <;> simp [casedThing, pyEq, scalarItem] at h hi
  | list xs => cases item <;> simp [casedThing, pyEq, scalarItem] at h hi
  | tuple xs => cases item <;> simp [casedThing, pyEq, scalarItem] at h hi
  | set xs => cases item <;> simp [casedThing, pyEq, scalarItem] at h hi
  | frozenset xs => cases item <;> simp [casedThing, pyEq, scalarItem] at h hi
  | dict kvs => cases item <;> simp [casedThing, pyEq, scalarItem] at h hi

theorem prep_scalar (c : SCfg) (item : PyVal) (hi : scalarItem item = true) : scalarItem (prepItem c item) = true := by
  cases item <;> simp [scalarItem] at hi <;>
    (cases hs : c.strict <;> cases hc : c.caseSensitive <;> simp [prepItem, isNumber, scalarItem, hs, hc])

/-! ### lifting a child's hits to its container -/

theorem HitOK.lift_dict {c : SCfg} {env : SEnv} {cs : Bool} {item : PyVal} {kvs : List (PyVal × PyVal)} {parent : String}
    {keys : List PyVal} {k v : PyVal} {h : Hit}
    (hs : skipThis c env (.dict kvs) parent = false) (hm : (k, v) ∈ kvs)
    (hc : HitOK c env cs item v (childPath parent k) (keys ++ [k]) h) : HitOK c env cs item (.dict kvs) parent keys h := by
  refine ⟨fun hp => ?_, fun hp => ?_⟩
  · obtain ⟨rel, hk, hr, hl, hmm⟩ := hc.1 hp
    exact ⟨k :: rel, by simp [hk], Reach.dict kvs parent k v rel _ _ hs hm hr, hl, hmm⟩
  · obtain ⟨rel, kvs', k', pp, hk, hr, hm', hpath, hsk, hpm⟩ := hc.2 hp
    exact ⟨k :: rel, kvs', k', pp, by simp [hk], Reach.dict kvs parent k v rel _ _ hs hm hr, hm', hpath, hsk, hpm⟩

theorem HitOK.lift_seq {c : SCfg} {env : SEnv} {cs : Bool} {item obj : PyVal} {xs : List PyVal} {parent : String}
    {keys : List PyVal} {i : Nat} {x : PyVal} {h : Hit}
    (hq : seqOf obj = some xs) (hs : skipThis c env obj parent = false) (hx : xs[i]? = some x)
    (hc : HitOK c env cs item x (indexPath parent i) (keys ++ [.int i]) h) : HitOK c env cs item obj parent keys h := by
  refine ⟨fun hp => ?_, fun hp => ?_⟩
  · obtain ⟨rel, hk, hr, hl, hmm⟩ := hc.1 hp
    exact ⟨.int i :: rel, by simp [hk], Reach.seq obj xs parent i x rel _ _ hq hs hx hr, hl, hmm⟩
  · obtain ⟨rel, kvs', k', pp, hk, hr, hm', hpath, hsk, hpm⟩ := hc.2 hp
    exact ⟨.int i :: rel, kvs', k', pp, by simp [hk], Reach.seq obj xs parent i x rel _ _ hq hs hx hr, hm', hpath, hsk, hpm⟩

theorem leaf_hit_ok {c : SCfg} {env : SEnv} {cs : Bool} {item v : PyVal} {parent : String} {keys : List PyVal}
    (hs : skipThis c env v parent = false) (hl : isLeaf v = true) (hm : leafMatch c env cs item v = true) :
    HitOK c env cs item v parent keys ⟨false, parent, keys, v⟩ :=
  ⟨fun _ => ⟨[], by simp, Reach.here v parent hs, hl, hm⟩, fun hp => by simp at hp⟩

/-! ### soundness -/

mutual
theorem search_sound (c : SCfg) (env : SEnv) (cs : Bool) (item : PyVal) (hi : scalarItem item = true) :
    ∀ (obj : PyVal) (parent : String) (keys : List PyVal) (h : Hit),
      h ∈ search c env cs item obj parent keys → HitOK c env cs item obj parent keys h
  | .str s, parent, keys, h => by
    intro hh
    simp only [search] at hh
    split at hh
    · simp at hh
    · rename_i hsk
      split at hh
      · rename_i hm
        simp only [List.mem_singleton] at hh
        subst hh
        exact leaf_hit_ok (by simpa using hsk) rfl (by simpa [leafMatch] using hm)
      · simp at hh
  | .dict kvs, parent, keys, h => by
    intro hh
    simp only [search] at hh
    split at hh
    · simp at hh
    · rename_i hsk
      exact searchDict_sound c env cs item hi kvs kvs parent keys h (by simpa using hsk) (fun p hp => hp) hh
  | .list xs, parent, keys, h => by
    intro hh
    simp only [search] at hh
    split at hh
    · simp at hh
    · rename_i hsk
      exact searchIter_sound c env cs item hi xs (.list xs) xs 0 parent keys h rfl (by simpa using hsk) (fun j x hx => by simpa using hx) hh
  | .tuple xs, parent, keys, h => by
    intro hh
    simp only [search] at hh
    split at hh
    · simp at hh
    · rename_i hsk
      exact searchIter_sound c env cs item hi xs (.tuple xs) xs 0 parent keys h rfl (by simpa using hsk) (fun j x hx => by simpa using hx) hh
  | .set xs, parent, keys, h => by
    intro hh
    simp only [search] at hh
    split at hh
    · simp at hh
    · rename_i hsk
      exact searchIter_sound c env cs item hi xs (.set xs) xs 0 parent keys h rfl (by simpa using hsk) (fun j x hx => by simpa using hx) hh
  | .frozenset xs, parent, keys, h => by
    intro hh
    simp only [search] at hh
    split at hh
    · simp at hh
    · rename_i hsk
      exact searchIter_sound c env cs item hi xs (.frozenset xs) xs 0 parent keys h rfl (by simpa using hsk) (fun j x hx => by simpa using hx) hh
  | .bytes b, parent, keys, h => by
    intro hh
    simp [search] at hh
  | .int i, parent, keys, h => by
    intro hh
    simp only [search] at hh
    split at hh
    · simp at hh
    · rename_i hsk
      split at hh
      · rename_i hm
        simp only [List.mem_singleton] at hh
        subst hh
        exact leaf_hit_ok (by simpa using hsk) rfl hm
      · simp at hh
  | .float n sc, parent, keys, h => by
    intro hh
    simp only [search] at hh
    split at hh
    · simp at hh
    · rename_i hsk
      split at hh
      · rename_i hm
        simp only [List.mem_singleton] at hh
        subst hh
        exact leaf_hit_ok (by simpa using hsk) rfl hm
      · simp at hh
  | .bool b, parent, keys, h => by
    intro hh
    simp only [search] at hh
    split at hh
    · simp at hh
    · rename_i hsk
      split at hh
      · rename_i hm
        simp only [List.mem_singleton] at hh
        subst hh
        exact leaf_hit_ok (by simpa using hsk) rfl hm
      · simp at hh
  | .none, parent, keys, h => by
    intro hh
    simp only [search] at hh
    split at hh
    · simp at hh
    · rename_i hsk
      split at hh
      · rename_i hm
        simp only [List.mem_singleton] at hh
        subst hh
        exact leaf_hit_ok (by simpa using hsk) rfl hm
      · simp at hh
theorem searchDict_sound (c : SCfg) (env : SEnv) (cs : Bool) (item : PyVal) (hi : scalarItem item = true) :
    ∀ (rest kvs : List (PyVal × PyVal)) (parent : String) (keys : List PyVal) (h : Hit),
      skipThis c env (.dict kvs) parent = false → (∀ p ∈ rest, p ∈ kvs) →
      h ∈ searchDict c env cs item rest parent keys → HitOK c env cs item (.dict kvs) parent keys h
  | [], _, _, _, _, _, _ => by intro hh; simp [searchDict] at hh
  | (k, v) :: rest, kvs, parent, keys, h, hs, hsub => by
    intro hh
    simp only [searchDict, List.mem_append] at hh
    have hmem : (k, v) ∈ kvs := hsub _ (List.mem_cons_self ..)
    rcases hh with hh | hh
    · split at hh
      · simp at hh
      · rename_i hskv
        simp only [List.mem_append] at hh
        rcases hh with hh | hh
        · split at hh
          · rename_i hpm
            simp only [List.mem_singleton] at hh
            subst hh
            refine ⟨fun hp => by simp at hp, fun _ => ?_⟩
            exact ⟨[], kvs, k, parent, by simp, Reach.here _ _ hs, hmem, rfl, by simpa using hskv, hpm⟩
          · simp at hh
        · exact HitOK.lift_dict hs hmem (search_sound c env cs item hi v _ _ h hh)
    · exact searchDict_sound c env cs item hi rest kvs parent keys h hs (fun p hp => hsub p (List.mem_cons_of_mem _ hp)) hh
theorem searchIter_sound (c : SCfg) (env : SEnv) (cs : Bool) (item : PyVal) (hi : scalarItem item = true) :
    ∀ (rest : List PyVal) (obj : PyVal) (xs : List PyVal) (i : Nat) (parent : String) (keys : List PyVal) (h : Hit),
      seqOf obj = some xs → skipThis c env obj parent = false → (∀ j x, rest[j]? = some x → xs[i + j]? = some x) →
      h ∈ searchIter c env cs item rest i parent keys → HitOK c env cs item obj parent keys h
  | [], _, _, _, _, _, _, _, _, _ => by intro hh; simp [searchIter] at hh
  | x :: rest, obj, xs, i, parent, keys, h, hq, hs, hidx => by
    intro hh
    simp only [searchIter, List.mem_append] at hh
    have hx : xs[i]? = some x := by simpa using hidx 0 x (by simp)
    rcases hh with hh | hh
    · split at hh
      · simp at hh
      · rename_i hskx
        split at hh
        · rename_i hsc
          simp only [List.mem_singleton] at hh
          subst hh
          simp only [Bool.and_eq_true, Bool.not_eq_true'] at hsc
          obtain ⟨hl, hm⟩ := shortcut_sound c env cs item x hi hsc.1 hsc.2
          exact HitOK.lift_seq hq hs hx (leaf_hit_ok (by simpa using hskx) hl hm)
        · exact HitOK.lift_seq hq hs hx (search_sound c env cs item hi x _ _ h hh)
    · exact searchIter_sound c env cs item hi rest obj xs (i + 1) parent keys h hq hs
        (fun j y hy => by have := hidx (j + 1) y (by simpa using hy); simpa [Nat.add_assoc, Nat.add_comm 1 j] using this) hh
end

/-! ### completeness -/

def isContainer : PyVal → Bool
  | .dict _ | .list _ | .tuple _ | .set _ | .frozenset _ => true
  | _ => false

theorem Reach.head_open {c : SCfg} {env : SEnv} {obj : PyVal} {parent : String} {rel : List PyVal} {p : String} {w : PyVal}
    (h : Reach c env obj parent rel p w) : skipThis c env obj parent = false := by
  cases h <;> assumption

theorem Reach.tail_open {c : SCfg} {env : SEnv} {obj : PyVal} {parent : String} {rel : List PyVal} {p : String} {w : PyVal}
    (h : Reach c env obj parent rel p w) : skipThis c env w p = false := by
  induction h with
  | here _ _ hs => exact hs
  | dict _ _ _ _ _ _ _ _ _ _ ih => exact ih
  | seq _ _ _ _ _ _ _ _ _ _ _ _ ih => exact ih

theorem seqOf_container {obj : PyVal} {xs : List PyVal} (h : seqOf obj = some xs) : isContainer obj = true := by
  cases obj <;> simp [seqOf] at h <;> rfl

theorem Reach.src_container {c : SCfg} {env : SEnv} {obj : PyVal} {parent : String} {rel : List PyVal} {p : String} {w : PyVal}
    (h : Reach c env obj parent rel p w) (hw : isContainer w = true) : isContainer obj = true := by
  cases h with
  | here _ _ _ => exact hw
  | dict _ _ _ _ _ _ _ _ _ _ => rfl
  | seq _ _ _ _ _ _ _ _ hq _ _ _ => exact seqOf_container hq

theorem pyEq_container_scalar {x item : PyVal} (cs : Bool) (hx : isContainer x = true) (hi : scalarItem item = true) :
    pyEq (casedThing cs x) item = false := by
  cases x <;> simp [isContainer] at hx <;> cases item <;> simp [scalarItem] at hi <;> simp [casedThing, pyEq]

theorem mem_searchDict (c : SCfg) (env : SEnv) (cs : Bool) (item : PyVal) (parent : String) (keys : List PyVal) (k v : PyVal) (h : Hit) :
    ∀ (kvs : List (PyVal × PyVal)), (k, v) ∈ kvs → skipThis c env v (childPath parent k) = false →
      (h ∈ search c env cs item v (childPath parent k) (keys ++ [k]) ∨
        (pathMatch c env cs item (childPath parent k) = true ∧ h = ⟨true, childPath parent k, keys ++ [k], v⟩)) →
      h ∈ searchDict c env cs item kvs parent keys
  | [], hm, _, _ => by simp at hm
  | (k0, v0) :: rest, hm, hs, hh => by
    simp only [searchDict, List.mem_append]
    rcases List.mem_cons.1 hm with heq | hm'
    · cases heq
      left
      simp only [hs, Bool.false_eq_true, if_false, List.mem_append]
      rcases hh with hh | ⟨hpm, rfl⟩
      · right; exact hh
      · left; simp [hpm]
    · right
      exact mem_searchDict c env cs item parent keys k v h rest hm' hs hh

theorem mem_searchIter (c : SCfg) (env : SEnv) (cs : Bool) (item : PyVal) (parent : String) (keys : List PyVal) (x : PyVal) (h : Hit) :
    ∀ (rest : List PyVal) (i0 j : Nat), rest[j]? = some x → skipThis c env x (indexPath parent (i0 + j)) = false →
      ((!c.useRegexp && pyEq (casedThing cs x) item) = true → h = ⟨false, indexPath parent (i0 + j), keys ++ [.int ((i0 + j : Nat) : Int)], x⟩) →
      ((!c.useRegexp && pyEq (casedThing cs x) item) = false → h ∈ search c env cs item x (indexPath parent (i0 + j)) (keys ++ [.int ((i0 + j : Nat) : Int)])) →
      h ∈ searchIter c env cs item rest i0 parent keys
  | [], _, _, hx, _, _, _ => by simp at hx
  | y :: rest, i0, 0, hx, hs, h1, h2 => by
    simp only [List.getElem?_cons_zero, Option.some.injEq] at hx
    subst hx
    simp only [Nat.add_zero] at hs h1 h2
    simp only [searchIter, List.mem_append]
    left
    simp only [hs, Bool.false_eq_true, if_false]
    by_cases hsc : (!c.useRegexp && pyEq (casedThing cs y) item) = true
    · simp only [hsc, if_true, List.mem_singleton]
      exact h1 hsc
    · have hsc' : (!c.useRegexp && pyEq (casedThing cs y) item) = false := by simpa using hsc
      simp only [hsc', Bool.false_eq_true, if_false]
      exact h2 hsc'
  | y :: rest, i0, j + 1, hx, hs, h1, h2 => by
    simp only [List.getElem?_cons_succ] at hx
    simp only [searchIter, List.mem_append]
    right
    have e : i0 + (j + 1) = (i0 + 1) + j := by omega
    rw [e] at hs h1 h2
    exact mem_searchIter c env cs item parent keys x h rest (i0 + 1) j hx hs h1 h2

theorem search_dict_eq (c : SCfg) (env : SEnv) (cs : Bool) (item : PyVal) (kvs : List (PyVal × PyVal)) (parent : String) (keys : List PyVal)
    (hs : skipThis c env (.dict kvs) parent = false) :
    search c env cs item (.dict kvs) parent keys = searchDict c env cs item kvs parent keys := by
  simp [search, hs]

theorem search_seq_eq (c : SCfg) (env : SEnv) (cs : Bool) (item obj : PyVal) (xs : List PyVal) (parent : String) (keys : List PyVal)
    (hq : seqOf obj = some xs) (hs : skipThis c env obj parent = false) :
    search c env cs item obj parent keys = searchIter c env cs item xs 0 parent keys := by
  cases obj <;> simp [seqOf] at hq <;> subst hq <;> simp [search, hs]

/-- hits found below a reachable container are hits of the whole search -/
theorem reach_mono (c : SCfg) (env : SEnv) (cs : Bool) (item : PyVal) (hi : scalarItem item = true)
    {obj : PyVal} {parent : String} {rel : List PyVal} {p : String} {w : PyVal}
    (hr : Reach c env obj parent rel p w) (hw : isContainer w = true) :
    ∀ (keys : List PyVal) (h : Hit), h ∈ search c env cs item w p (keys ++ rel) → h ∈ search c env cs item obj parent keys := by
  induction hr with
  | here _ _ _ => intro keys h hh; simpa using hh
  | dict kvs parent k v rest p w hs hm hr ih =>
    intro keys h hh
    have := ih hw (keys ++ [k]) h (by simpa using hh)
    rw [search_dict_eq c env cs item kvs parent keys hs]
    exact mem_searchDict c env cs item parent keys k v h kvs hm hr.head_open (Or.inl this)
  | seq obj xs parent i x rest p w hq hs hx hr ih =>
    intro keys h hh
    have := ih hw (keys ++ [.int i]) h (by simpa using hh)
    rw [search_seq_eq c env cs item obj xs parent keys hq hs]
    have hxc := hr.src_container hw
    have hno : (!c.useRegexp && pyEq (casedThing cs x) item) = false := by
      simp [pyEq_container_scalar cs hxc hi]
    exact mem_searchIter c env cs item parent keys x h xs 0 i hx (by simpa using hr.head_open)
      (fun hsc => by rw [hno] at hsc; simp at hsc) (fun _ => by simpa using this)

/-- **completeness for values**: every reachable (not excluded) leaf that matches is reported,
with its path text and key sequence -/
theorem values_complete (c : SCfg) (env : SEnv) (cs : Bool) (item : PyVal) (hi : scalarItem item = true)
    {obj : PyVal} {parent : String} {rel : List PyVal} {p : String} {v : PyVal}
    (hr : Reach c env obj parent rel p v) (hl : isLeaf v = true) (hm : leafMatch c env cs item v = true) :
    ∀ (keys : List PyVal), (⟨false, p, keys ++ rel, v⟩ : Hit) ∈ search c env cs item obj parent keys := by
  induction hr with
  | here obj parent hs =>
    intro keys
    cases obj <;> simp [isLeaf] at hl <;> simp [search, hs, hm] <;> simpa [leafMatch] using hm
  | dict kvs parent k v' rest p w hs hmem hr ih =>
    intro keys
    have := ih hl hm (keys ++ [k])
    rw [search_dict_eq c env cs item kvs parent keys hs]
    exact mem_searchDict c env cs item parent keys k v' _ kvs hmem hr.head_open (Or.inl (by simpa using this))
  | seq obj xs parent i x rest p w hq hs hx hr ih =>
    intro keys
    have := ih hl hm (keys ++ [.int i])
    rw [search_seq_eq c env cs item obj xs parent keys hq hs]
    refine mem_searchIter c env cs item parent keys x _ xs 0 i hx (by simpa using hr.head_open) (fun hsc => ?_) (fun _ => by simpa using this)
    -- the shortcut fired: `x` is not a container, so the location is `x` itself
    cases hr with
    | here _ _ _ => simp
    | dict kvs' _ _ _ _ _ _ _ _ _ =>
      have := pyEq_container_scalar (x := .dict kvs') cs rfl hi
      simp [this] at hsc
    | seq _ _ _ _ _ _ _ _ hq' _ _ _ =>
      have := pyEq_container_scalar cs (seqOf_container hq') hi
      simp [this] at hsc

/-- **completeness for paths**: every child of a reachable dictionary that is not excluded and whose
path text matches is reported under `matched_paths` -/
theorem paths_complete (c : SCfg) (env : SEnv) (cs : Bool) (item : PyVal) (hi : scalarItem item = true)
    {obj : PyVal} {parent : String} {rel : List PyVal} {pp : String} {kvs : List (PyVal × PyVal)} {k v : PyVal}
    (hr : Reach c env obj parent rel pp (.dict kvs)) (hm : (k, v) ∈ kvs)
    (hs : skipThis c env v (childPath pp k) = false) (hpm : pathMatch c env cs item (childPath pp k) = true) (keys : List PyVal) :
    (⟨true, childPath pp k, keys ++ rel ++ [k], v⟩ : Hit) ∈ search c env cs item obj parent keys := by
  apply reach_mono c env cs item hi hr rfl keys
  rw [search_dict_eq c env cs item kvs pp (keys ++ rel) hr.tail_open]
  exact mem_searchDict c env cs item pp (keys ++ rel) k v _ kvs hm hs (Or.inr ⟨hpm, rfl⟩)

end Search
