import Model.Diff.Resolve
import Proofs.Keys
import Proofs.Diff
/-! C04 / C10: every entry of the ordered diff is backed by the inputs. -/
namespace Diff
open Py

theorem follow_nil (root : PyVal) (u : Bool) : follow root [] u = some root := rfl

theorem getElem?_int (xs : List PyVal) (i : Nat) : getItem (.list xs) (.int i) = xs[i]? ∧ getItem (.tuple xs) (.int i) = xs[i]? := by
  simp [getItem]

/-- lifting: an entry backed by a pair of children is backed by the parents -/
theorem Backed.lift {a b c1 c2 : PyVal} {steps0 : List Step} {st : Step} {e : Cat × Level}
    (hrel : st.rel ≠ .set) (p1 p2 : PyVal) (hp1 : st.p1 = some p1) (hp2 : st.p2 = some p2)
    (h1 : getItem a p1 = some c1) (h2 : getItem b p2 = some c2)
    (h : Backed c1 c2 (steps0 ++ [st]) e) : Backed a b steps0 e := by
  obtain ⟨rest, hs, ht1, ht2⟩ := h
  refine ⟨st :: rest, by rw [hs]; simp, ?_, ?_⟩
  · intro v hv
    have := ht1 v hv
    simp only [follow, hp1, Bool.false_eq_true, ↓reduceIte]
    cases hr : st.rel <;> simp_all
  · intro v hv
    have := ht2 v hv
    simp only [follow, hp2, ↓reduceIte]
    cases hr : st.rel <;> simp_all

theorem leafDiff_backed (steps : List Step) (a b : PyVal) : ∀ e ∈ leafDiff steps a b, Backed a b steps e := by
  intro e he
  have key : e.2.steps = steps ∧ e.2.t1 = some a ∧ e.2.t2 = some b := by
    unfold leafDiff at he
    split at he
    · split at he <;> simp at he; subst he; exact ⟨rfl, rfl, rfl⟩
    · split at he <;> simp at he; subst he; exact ⟨rfl, rfl, rfl⟩
    · simp at he
    · split at he <;> simp at he; subst he; exact ⟨rfl, rfl, rfl⟩
  refine ⟨[], by simp [key.1], ?_, ?_⟩
  · intro v hv; rw [key.2.1] at hv; cases hv; rfl
  · intro v hv; rw [key.2.2] at hv; cases hv; rfl

end Diff

namespace Diff
open Py

/-- the two sequence constructors -/
inductive SeqKind where | list | tuple
def SeqKind.mk : SeqKind → List PyVal → PyVal
  | .list, xs => .list xs
  | .tuple, xs => .tuple xs

theorem getItem_seq (sk : SeqKind) (xs : List PyVal) (i : Nat) : getItem (sk.mk xs) (.int i) = xs[i]? := by
  cases sk <;> simp [SeqKind.mk, getItem]

theorem removed_backed (sk : SeqKind) (steps : List Step) (X Y : List PyVal) (i : Nat) (x : PyVal) (c : Cat)
    (h : X[i]? = some x) : Backed (sk.mk X) (sk.mk Y) steps (c, removedLevel steps .iter (.int i) x) := by
  refine ⟨[⟨.iter, some (.int i), Option.none⟩], rfl, ?_, ?_⟩
  · intro v hv
    simp only [removedLevel] at hv; cases hv
    simp [follow, getItem_seq, h]
  · intro v hv; simp [removedLevel] at hv

theorem added_backed (sk : SeqKind) (steps : List Step) (X Y : List PyVal) (j : Nat) (y : PyVal) (c : Cat)
    (h : Y[j]? = some y) : Backed (sk.mk X) (sk.mk Y) steps (c, addedLevel steps .iter (.int j) y) := by
  refine ⟨[⟨.iter, Option.none, some (.int j)⟩], rfl, ?_, ?_⟩
  · intro v hv; simp [addedLevel] at hv
  · intro v hv
    simp only [addedLevel] at hv; cases hv
    simp [follow, getItem_seq, h]

theorem pairBasic_backed (sk : SeqKind) (steps : List Step) (X Y : List PyVal) :
    ∀ (cx cy : List PyVal) (i j : Nat),
      (∀ k x, cx[k]? = some x → X[i + k]? = some x) → (∀ k y, cy[k]? = some y → Y[j + k]? = some y) →
      ∀ e ∈ pairBasic steps i j cx cy, Backed (sk.mk X) (sk.mk Y) steps e
  | [], [], _, _, _, _ => by intro e he; simp [pairBasic] at he
  | x :: xs, [], i, j, hx, hy => by
    intro e he
    simp only [pairBasic, List.mem_cons] at he
    rcases he with rfl | he
    · exact removed_backed sk steps X Y i x _ (by simpa using hx 0 x rfl)
    · exact pairBasic_backed sk steps X Y xs [] (i + 1) (j + 1)
        (fun k v hk => by have := hx (k + 1) v (by simpa using hk); simpa [Nat.add_assoc, Nat.add_comm 1 k] using this)
        (fun k v hk => by simp at hk) e he
  | [], y :: ys, i, j, hx, hy => by
    intro e he
    simp only [pairBasic, List.mem_cons] at he
    rcases he with rfl | he
    · exact added_backed sk steps X Y j y _ (by simpa using hy 0 y rfl)
    · exact pairBasic_backed sk steps X Y [] ys (i + 1) (j + 1)
        (fun k v hk => by simp at hk)
        (fun k v hk => by have := hy (k + 1) v (by simpa using hk); simpa [Nat.add_assoc, Nat.add_comm 1 k] using this) e he
  | x :: xs, y :: ys, i, j, hx, hy => by
    intro e he
    simp only [pairBasic, List.mem_append] at he
    have hxi : X[i]? = some x := by simpa using hx 0 x rfl
    have hyj : Y[j]? = some y := by simpa using hy 0 y rfl
    rcases he with he | he
    · -- the entry for this pair
      have pairLevel : ∀ c, Backed (sk.mk X) (sk.mk Y) steps
          (c, { steps := steps ++ [⟨.iter, some (.int i), some (.int j)⟩], t1 := some x, t2 := some y }) := by
        intro c
        refine ⟨[⟨.iter, some (.int i), some (.int j)⟩], rfl, ?_, ?_⟩
        · intro v hv; cases hv; simp [follow, getItem_seq, hxi]
        · intro v hv; cases hv; simp [follow, getItem_seq, hyj]
      split at he
      · simp at he; subst he; exact pairLevel _
      · split at he
        · simp at he; subst he; exact pairLevel _
        · exact Backed.lift (st := ⟨.iter, some (.int i), some (.int j)⟩) (by simp) (.int i) (.int j) rfl rfl
            (by rw [getItem_seq]; exact hxi) (by rw [getItem_seq]; exact hyj) (leafDiff_backed _ x y e he)
    · exact pairBasic_backed sk steps X Y xs ys (i + 1) (j + 1)
        (fun k v hk => by have := hx (k + 1) v (by simpa using hk); simpa [Nat.add_assoc, Nat.add_comm 1 k] using this)
        (fun k v hk => by have := hy (k + 1) v (by simpa using hk); simpa [Nat.add_assoc, Nat.add_comm 1 k] using this) e he

end Diff

namespace Diff
open Py

theorem chunk_get (X : List PyVal) (i n k : Nat) (x : PyVal) (h : ((X.drop i).take n)[k]? = some x) :
    X[i + k]? = some x := by
  rw [List.getElem?_take] at h
  split at h
  · rw [List.getElem?_drop] at h; exact h
  · cases h

theorem mem_zipIdx_get {xs : List PyVal} {x : PyVal} {k : Nat} (h : (x, k) ∈ xs.zipIdx) : xs[k]? = some x :=
  List.mk_mem_zipIdx_iff_getElem?.1 h

theorem opcodeEntries_backed (sk : SeqKind) (steps : List Step) (X Y : List PyVal) :
    ∀ (ops : List Opcode), ∀ e ∈ opcodeEntries steps X Y ops, Backed (sk.mk X) (sk.mk Y) steps e
  | [], e, he => by simp [opcodeEntries] at he
  | op :: ops, e, he => by
    simp only [opcodeEntries, List.mem_append] at he
    rcases he with he | he
    · split at he
      · exact pairBasic_backed sk steps X Y _ _ op.i1 op.j1 (fun k x hk => chunk_get X _ _ k x hk)
          (fun k y hk => chunk_get Y _ _ k y hk) e he
      · split at he
        · obtain ⟨⟨x, k⟩, hmem, rfl⟩ := List.mem_map.1 he
          have := chunk_get X _ _ k x (mem_zipIdx_get hmem)
          exact removed_backed sk steps X Y (k + op.i1) x _ (by rw [Nat.add_comm]; exact this)
        · split at he
          · obtain ⟨⟨y, k⟩, hmem, rfl⟩ := List.mem_map.1 he
            have := chunk_get Y _ _ k y (mem_zipIdx_get hmem)
            exact added_backed sk steps X Y (k + op.j1) y _ (by rw [Nat.add_comm]; exact this)
          · simp at he
    · exact opcodeEntries_backed sk steps X Y ops e he

end Diff

namespace Diff
open Py

theorem top_backed (a b : PyVal) (steps : List Step) (c : Cat) (ud : Bool) :
    Backed a b steps (c, { steps := steps, t1 := some a, t2 := some b, udiff := ud }) :=
  ⟨[], by simp, fun v hv => by cases hv; rfl, fun v hv => by cases hv; rfl⟩

theorem mem_foldl_children {children : List (PyVal × Result)} {ks : List PyVal} {e : Cat × Level} (acc : Result)
    (h : e ∈ (ks.foldl (fun acc k => match children.find? (fun p => keyEq p.1 k) with
      | some (_, r) => acc ++ r
      | Option.none => acc) acc).tree) :
    e ∈ acc.tree ∨ ∃ p ∈ children, e ∈ p.2.tree := by
  induction ks generalizing acc with
  | nil => exact Or.inl h
  | cons k ks ih =>
    simp only [List.foldl_cons] at h
    cases hf : children.find? (fun p => keyEq p.1 k) with
    | none => rw [hf] at h; exact ih acc h
    | some p =>
      obtain ⟨k', r⟩ := p
      rw [hf] at h
      rcases ih _ h with h1 | h1
      · simp only [Result.append_def, List.mem_append] at h1
        rcases h1 with h1 | h1
        · exact Or.inl h1
        · exact Or.inr ⟨(k', r), List.mem_of_find?_eq_some hf, h1⟩
      · exact Or.inr h1

theorem dictGet_isSome_of_mem {kvs : List (PyVal × PyVal)} {k : PyVal} (hk : k ∈ kvs.map (·.1))
    (hh : hashable k = true) : ∃ v, dictGet kvs k = some v := by
  obtain ⟨p, hp, rfl⟩ := List.mem_map.1 hk
  unfold dictGet
  cases hf : kvs.find? (fun q => keyEq q.1 p.1) with
  | some q => exact ⟨q.2, rfl⟩
  | none =>
    have := List.find?_eq_none.1 hf p hp
    simp [keyEq_refl p.1 hh] at this

set_option maxHeartbeats 1000000
mutual
theorem diffV_backed (cfg : DCfg) (al : Align) (hashOf : PyVal → String) :
    ∀ (a b : PyVal) (steps : List Step), wf a = true → wf b = true →
    ∀ e ∈ (diffV cfg al hashOf steps a b).tree, isSetCat e.1 = false → Backed a b steps e
  | .dict kvs1, b, steps, ha, hb => by
    intro e he hns
    cases b with
    | dict kvs2 =>
      simp only [wf, Bool.and_eq_true] at ha hb
      simp only [diffV] at he
      have main : ∀ (h : e ∈ ((⟨(List.filter (fun k => !(keysOf cfg steps kvs1).any fun k' => keyEq k' k) (keysOf cfg steps kvs2)).map
              (fun k => (Cat.dictAdded, addedLevel steps .dict k ((dictGet kvs2 k).getD .none))) ++
            (List.filter (fun k => !(keysOf cfg steps kvs2).any fun k' => keyEq k' k) (keysOf cfg steps kvs1)).map
              (fun k => (Cat.dictRemoved, removedLevel steps .dict k ((dictGet kvs1 k).getD .none))), []⟩ : Result) ++
            (List.filter (fun k => (keysOf cfg steps kvs1).any fun k' => keyEq k' k) (keysOf cfg steps kvs2)).foldl
              (fun acc k => match (diffKVs cfg al hashOf steps kvs1 kvs2 (keysOf cfg steps kvs2)).find? (fun p => keyEq p.1 k) with
                | some (_, r) => acc ++ r
                | Option.none => acc) {}).tree),
          Backed (.dict kvs1) (.dict kvs2) steps e := by
        intro he
        simp only [Result.append_def, List.mem_append, List.mem_map] at he
        rcases he with (⟨k, hk, rfl⟩ | ⟨k, hk, rfl⟩) | he
        · -- dictionary_item_added
          have hkm := keysOf_subset cfg steps kvs2 k (List.mem_filter.1 hk).1
          obtain ⟨v, hv⟩ := dictGet_isSome_of_mem hkm (List.all_eq_true.1 hb.1.1 k hkm)
          refine ⟨[⟨.dict, Option.none, some k⟩], rfl, ?_, ?_⟩
          · intro w hw; simp [addedLevel] at hw
          · intro w hw
            simp only [addedLevel, hv, Option.getD_some] at hw; cases hw
            simp [follow, getItem, hv]
        · -- dictionary_item_removed
          have hkm := keysOf_subset cfg steps kvs1 k (List.mem_filter.1 hk).1
          obtain ⟨v, hv⟩ := dictGet_isSome_of_mem hkm (List.all_eq_true.1 ha.1.1 k hkm)
          refine ⟨[⟨.dict, some k, Option.none⟩], rfl, ?_, ?_⟩
          · intro w hw
            simp only [removedLevel, hv, Option.getD_some] at hw; cases hw
            simp [follow, getItem, hv]
          · intro w hw; simp [removedLevel] at hw
        · -- shared keys
          rcases mem_foldl_children {} he with h0 | ⟨p, hp, hpe⟩
          · simp at h0
          · exact diffKVs_backed cfg al hashOf kvs1 kvs1 kvs2 _ steps (fun x hx => hx) ha.1.2 ha.2 (by simp [wf, hb.1.1, hb.1.2, hb.2]) p hp e hpe hns
      split at he <;> split at he
      · simp at he; subst he; exact top_backed _ _ _ _ _
      · exact main he
      · simp at he; subst he; exact top_backed _ _ _ _ _
      · exact main he
    | _ => all_goals (simp [diffV] at he; subst he; exact top_backed _ _ _ _ _)
  | .list xs, b, steps, ha, hb => by
    intro e he hns
    cases b with
    | list ys =>
      simp only [wf] at ha hb
      simp only [diffV, iterInOrder] at he
      split at he
      · have hsub : ∀ t : Tree, ∀ x ∈ keepReported cfg t, x ∈ t := fun t x hx => (List.mem_filter.1 hx).1
        have h1 : ∀ x ∈ keepReported cfg (opcodeEntries steps xs ys (al xs ys)), Backed (.list xs) (.list ys) steps x :=
          fun x hx => opcodeEntries_backed .list steps xs ys _ x (hsub _ x hx)
        have h2 : ∀ x ∈ keepReported cfg (pairBasic steps 0 0 xs ys), Backed (.list xs) (.list ys) steps x :=
          fun x hx => pairBasic_backed .list steps xs ys xs ys 0 0 (by intro k v hk; simpa using hk) (by intro k v hk; simpa using hk) x (hsub _ x hx)
        split at he
        · split at he
          · split at he
            · exact h2 e he
            · exact h1 e he
          · split at he
            · exact h2 e he
            · exact h1 e he
        · exact h1 e he
      · exact diffPairs_backed cfg al hashOf .list xs ys xs ys 0 steps ha hb (by intro k v hk; simpa using hk) (by intro k v hk; simpa using hk) e he hns
    | _ => all_goals (simp [diffV] at he; subst he; exact top_backed _ _ _ _ _)
  | .tuple xs, b, steps, ha, hb => by
    intro e he hns
    cases b with
    | tuple ys =>
      simp only [wf] at ha hb
      simp only [diffV, iterInOrder] at he
      split at he
      · have hsub : ∀ t : Tree, ∀ x ∈ keepReported cfg t, x ∈ t := fun t x hx => (List.mem_filter.1 hx).1
        have h1 : ∀ x ∈ keepReported cfg (opcodeEntries steps xs ys (al xs ys)), Backed (.tuple xs) (.tuple ys) steps x :=
          fun x hx => opcodeEntries_backed .tuple steps xs ys _ x (hsub _ x hx)
        have h2 : ∀ x ∈ keepReported cfg (pairBasic steps 0 0 xs ys), Backed (.tuple xs) (.tuple ys) steps x :=
          fun x hx => pairBasic_backed .tuple steps xs ys xs ys 0 0 (by intro k v hk; simpa using hk) (by intro k v hk; simpa using hk) x (hsub _ x hx)
        split at he
        · split at he
          · split at he
            · exact h2 e he
            · exact h1 e he
          · split at he
            · exact h2 e he
            · exact h1 e he
        · exact h1 e he
      · exact diffPairs_backed cfg al hashOf .tuple xs ys xs ys 0 steps ha hb (by intro k v hk; simpa using hk) (by intro k v hk; simpa using hk) e he hns
    | _ => all_goals (simp [diffV] at he; subst he; exact top_backed _ _ _ _ _)
  | .set xs, b, steps, _, _ => by
    intro e he hns
    cases b with
    | set ys =>
      simp only [diffV, diffSet, List.mem_append, List.mem_map] at he
      rcases he with ⟨_, _, rfl⟩ | ⟨_, _, rfl⟩ <;> simp [isSetCat] at hns
    | _ => all_goals (simp [diffV] at he; subst he; exact top_backed _ _ _ _ _)
  | .frozenset xs, b, steps, _, _ => by
    intro e he hns
    cases b with
    | frozenset ys =>
      simp only [diffV, diffSet, List.mem_append, List.mem_map] at he
      rcases he with ⟨_, _, rfl⟩ | ⟨_, _, rfl⟩ <;> simp [isSetCat] at hns
    | _ => all_goals (simp [diffV] at he; subst he; exact top_backed _ _ _ _ _)
  | .none, b, steps, _, _ => by
    intro e he _
    simp only [diffV] at he
    split at he
    · simp at he; subst he; exact top_backed _ _ _ _ _
    · exact leafDiff_backed steps _ b e he
  | .bool x, b, steps, _, _ => by
    intro e he _
    simp only [diffV] at he
    split at he
    · simp at he; subst he; exact top_backed _ _ _ _ _
    · exact leafDiff_backed steps _ b e he
  | .int x, b, steps, _, _ => by
    intro e he _
    simp only [diffV] at he
    split at he
    · simp at he; subst he; exact top_backed _ _ _ _ _
    · exact leafDiff_backed steps _ b e he
  | .float x s, b, steps, _, _ => by
    intro e he _
    simp only [diffV] at he
    split at he
    · simp at he; subst he; exact top_backed _ _ _ _ _
    · exact leafDiff_backed steps _ b e he
  | .str x, b, steps, _, _ => by
    intro e he _
    simp only [diffV] at he
    split at he
    · simp at he; subst he; exact top_backed _ _ _ _ _
    · exact leafDiff_backed steps _ b e he
  | .bytes x, b, steps, _, _ => by
    intro e he _
    simp only [diffV] at he
    split at he
    · simp at he; subst he; exact top_backed _ _ _ _ _
    · exact leafDiff_backed steps _ b e he
theorem diffKVs_backed (cfg : DCfg) (al : Align) (hashOf : PyVal → String) :
    ∀ (rest kvs1 kvs2 : List (PyVal × PyVal)) (k2s : List PyVal) (steps : List Step),
    (∀ x ∈ rest, x ∈ kvs1) → distinctKeys (kvs1.map (·.1)) = true → wfP rest = true →
    wf (.dict kvs2) = true →
    ∀ p ∈ diffKVs cfg al hashOf steps rest kvs2 k2s, ∀ e ∈ p.2.tree, isSetCat e.1 = false →
      Backed (.dict kvs1) (.dict kvs2) steps e
  | [], _, _, _, _, _, _, _, _ => by intro p hp; simp [diffKVs] at hp
  | (k1, v1) :: rest, kvs1, kvs2, k2s, steps, hsub, hd, hw, hb => by
    simp only [wfP, Bool.and_eq_true] at hw
    have ih := diffKVs_backed cfg al hashOf rest kvs1 kvs2 k2s steps
      (fun x hx => hsub x (List.mem_cons_of_mem _ hx)) hd hw.2 hb
    intro p hp e he hns
    simp only [diffKVs] at hp
    split at hp
    · exact ih p hp e he hns
    · split at hp
      · rename_i k hfind
        have hkeq : keyEq k1 k = true := by have := List.find?_some hfind; simpa using this
        split at hp
        · rename_i v2 hget2
          rcases List.mem_cons.1 hp with rfl | hp
          · simp only at he
            split at he
            · simp at he
            · have hb2 : wf v2 = true := by
                simp only [wf, Bool.and_eq_true] at hb
                unfold dictGet at hget2
                simp only [Option.map_eq_some_iff] at hget2
                obtain ⟨q, hq, rfl⟩ := hget2
                exact wfP_all hb.2 q (List.mem_of_find?_eq_some hq)
              have hch := diffV_backed cfg al hashOf v1 v2 _ hw.1 hb2 e he hns
              exact Backed.lift (st := ⟨.dict, some k, some k⟩) (by simp) k k rfl rfl
                (by simp only [getItem]; exact dictGet_of_keyEq kvs1 k1 v1 k hd (hsub _ (List.mem_cons_self ..)) hkeq)
                (by simp only [getItem]; exact hget2) hch
          · exact ih p hp e he hns
        · exact ih p hp e he hns
      · exact ih p hp e he hns
theorem diffPairs_backed (cfg : DCfg) (al : Align) (hashOf : PyVal → String) (sk : SeqKind) (X Y : List PyVal) :
    ∀ (xs ys : List PyVal) (i : Nat) (steps : List Step), wfL xs = true → wfL ys = true →
    (∀ k x, xs[k]? = some x → X[i + k]? = some x) → (∀ k y, ys[k]? = some y → Y[i + k]? = some y) →
    ∀ e ∈ (diffPairs cfg al hashOf steps i xs ys).tree, isSetCat e.1 = false → Backed (sk.mk X) (sk.mk Y) steps e
  | [], [], _, _, _, _, _, _ => by intro e he; simp [diffPairs] at he
  | x :: xs, [], i, steps, ha, hb, hx, hy => by
    intro e he hns
    simp only [wfL, Bool.and_eq_true] at ha
    simp only [diffPairs, Result.append_def, List.mem_append, List.mem_singleton] at he
    rcases he with rfl | he
    · exact removed_backed sk steps X Y i x _ (by simpa using hx 0 x rfl)
    · exact diffPairs_backed cfg al hashOf sk X Y xs [] (i + 1) steps ha.2 hb
        (fun k v hk => by have := hx (k + 1) v (by simpa using hk); simpa [Nat.add_assoc, Nat.add_comm 1 k] using this)
        (fun k v hk => by simp at hk) e he hns
  | [], y :: ys, i, steps, ha, hb, hx, hy => by
    intro e he hns
    simp only [diffPairs, List.mem_cons, List.mem_map] at he
    rcases he with rfl | ⟨⟨y', k⟩, hmem, rfl⟩
    · exact added_backed sk steps X Y i y _ (by simpa using hy 0 y rfl)
    · have hk := mem_zipIdx_get hmem
      have h2 : Y[i + 1 + k]? = some y' := by
        have := hy (k + 1) y' (by simpa using hk)
        simpa [Nat.add_assoc, Nat.add_comm 1 k] using this
      have hcast : (PyVal.int ((i : Int) + 1 + (k : Int))) = PyVal.int ((i + 1 + k : Nat) : Int) := by
        congr 1
      rw [hcast]
      exact added_backed sk steps X Y (i + 1 + k) y' _ h2
  | x :: xs, y :: ys, i, steps, ha, hb, hx, hy => by
    intro e he hns
    simp only [wfL, Bool.and_eq_true] at ha hb
    simp only [diffPairs, Result.append_def, List.mem_append] at he
    rcases he with he | he
    · split at he
      · simp at he
      · have hch := diffV_backed cfg al hashOf x y _ ha.1 hb.1 e he hns
        exact Backed.lift (st := ⟨.iter, some (.int i), some (.int i)⟩) (by simp)
          (.int i) (.int i) rfl rfl
          (by rw [getItem_seq]; simpa using hx 0 x rfl) (by rw [getItem_seq]; simpa using hy 0 y rfl) hch
    · exact diffPairs_backed cfg al hashOf sk X Y xs ys (i + 1) steps ha.2 hb.2
        (fun k v hk => by have := hx (k + 1) v (by simpa using hk); simpa [Nat.add_assoc, Nat.add_comm 1 k] using this)
        (fun k v hk => by have := hy (k + 1) v (by simpa using hk); simpa [Nat.add_assoc, Nat.add_comm 1 k] using this) e he hns
end

end Diff
