import Model.Diff.IgnoreOrder
import Proofs.Diff
import Proofs.Faithful
/-!
The ignore-order diff is empty exactly when the pairing-free, hash-level verdict holds — whatever
the pairing oracle.
-/
namespace Diff
open Py

theorem not_not_true {b : Bool} (h : ¬ ((!b) = true)) : b = true := by cases b <;> simp_all

theorem mutualAddRemoves_nil_iff (t : Tree) : mutualAddRemoves t = [] ↔ t = [] := by
  constructor
  · intro h
    cases t with
    | nil => rfl
    | cons e rest =>
      exfalso
      unfold mutualAddRemoves at h
      simp only [List.append_eq_nil_iff] at h
      obtain ⟨hkept, hmerged⟩ := h
      have hC := not_not_true ((List.filter_eq_nil_iff.1 hkept) e (List.mem_cons_self ..))
      rw [Bool.and_eq_true] at hC
      obtain ⟨_, hmp⟩ := hC
      have hmp' := hmp
      rw [Bool.and_eq_true, Bool.and_eq_true] at hmp'
      obtain ⟨⟨_, hadd⟩, hrem⟩ := hmp'
      rw [List.any_eq_true] at hadd hrem
      obtain ⟨a, ha, hpa⟩ := hadd
      obtain ⟨r, hr, hpr⟩ := hrem
      have hpa' : pathStr a.2.steps false = pathStr e.2.steps false := by simpa using hpa
      have hpr' : pathStr r.2.steps false = pathStr e.2.steps false := by simpa using hpr
      have hr2 := (List.filterMap_eq_nil_iff.1 hmerged) r hr
      rw [hpr'] at hr2
      rw [if_pos hmp] at hr2
      cases hf : List.find? (fun a => pathStr a.2.steps false == pathStr e.2.steps false)
          (List.filter (fun e => e.1 == Cat.iterAdded) (e :: rest)) with
      | none =>
        have := List.find?_eq_none.1 hf a ha
        simp [hpa'] at this
      | some a' => rw [hf] at hr2; simp at hr2
  · intro h; subst h; rfl

end Diff

namespace DiffIO
open Py Diff

/-! ### the verdict: equal as nested sets / multisets, at the level of item hashes -/

mutual
def verdict (c : IOCfg) (hashOf : PyVal → String) : PyVal → PyVal → Bool
  | .dict kvs1, b =>
    (match b with
     | .dict kvs2 =>
       let cfg := toDCfg c
       let k1 := keysOf cfg [] kvs1
       let k2 := keysOf cfg [] kvs2
       (k2.filter (fun k => !k1.any (fun k' => keyEq k' k))).isEmpty &&
       (k1.filter (fun k => !k2.any (fun k' => keyEq k' k))).isEmpty &&
       (k2.filter (fun k => k1.any (fun k' => keyEq k' k))).all (fun k =>
         match (verdictKVs c hashOf kvs1 kvs2 k2).find? (fun p => keyEq p.1 k) with
         | some (_, ok) => ok
         | Option.none => true)
     | _ => false)
  | .list xs, b =>
    (match b with
     | .list ys => (addedOf (hashTable hashOf xs) (hashTable hashOf ys)).isEmpty && (removedOf (hashTable hashOf xs) (hashTable hashOf ys)).isEmpty &&
                   (repEntries c [] (hashTable hashOf xs) (hashTable hashOf ys)).isEmpty
     | _ => false)
  | .tuple xs, b =>
    (match b with
     | .tuple ys => (addedOf (hashTable hashOf xs) (hashTable hashOf ys)).isEmpty && (removedOf (hashTable hashOf xs) (hashTable hashOf ys)).isEmpty &&
                    (repEntries c [] (hashTable hashOf xs) (hashTable hashOf ys)).isEmpty
     | _ => false)
  | .set xs, b => (match b with | .set ys => (diffSet hashOf [] xs ys).isEmpty | _ => false)
  | .frozenset xs, b => (match b with | .frozenset ys => (diffSet hashOf [] xs ys).isEmpty | _ => false)
  | a, b => typeName a == typeName b && (leafDiff [] a b).isEmpty
/-- the verdicts of the children under matching keys, listed exactly as `diffKVs` lists the child diffs -/
def verdictKVs (c : IOCfg) (hashOf : PyVal → String) : List (PyVal × PyVal) → List (PyVal × PyVal) → List PyVal → List (PyVal × Bool)
  | [], _, _ => []
  | (k1, v1) :: rest, kvs2, k2s =>
    let tail := verdictKVs c hashOf rest kvs2 k2s
    if c.ignorePrivate && isPrivate k1 then tail
    else match k2s.find? (fun k => keyEq k1 k) with
      | some k =>
        match dictGet kvs2 k with
        | some v2 => (k, verdict c hashOf v1 v2) :: tail
        | Option.none => tail
      | Option.none => tail
end

/-- the item hash respects the verdict: values the diff cannot tell apart hash equally (for DeepHash:
equal sets / multisets of child hashes serialise equally; no injectivity is involved) -/
def HashSound (c : IOCfg) (hashOf : PyVal → String) : Prop := ∀ x y, verdict c hashOf x y = true → hashOf x = hashOf y

/-- the same, for the values of a domain `D` (e.g. values without numerically aliased keys) -/
def HashSoundOn (D : PyVal → Prop) (c : IOCfg) (hashOf : PyVal → String) : Prop :=
  ∀ x y, D x → D y → verdict c hashOf x y = true → hashOf x = hashOf y

/-- a domain that contains the children of its members -/
structure Closed (D : PyVal → Prop) : Prop where
  list : ∀ xs, D (.list xs) → ∀ x ∈ xs, D x
  tuple : ∀ xs, D (.tuple xs) → ∀ x ∈ xs, D x
  dict : ∀ kvs, D (.dict kvs) → ∀ p ∈ kvs, D p.2

theorem hashSoundOn_of (c : IOCfg) (hashOf : PyVal → String) (h : HashSound c hashOf) (D : PyVal → Prop) : HashSoundOn D c hashOf :=
  fun x y _ _ hv => h x y hv

theorem closed_true : Closed (fun _ => True) := ⟨fun _ _ _ _ => trivial, fun _ _ _ _ => trivial, fun _ _ _ _ => trivial⟩

theorem dictGet_mem {kvs : List (PyVal × PyVal)} {k v : PyVal} (h : dictGet kvs k = some v) : ∃ k', (k', v) ∈ kvs := by
  unfold dictGet at h
  cases hf : kvs.find? (fun p => keyEq p.1 k) with
  | none => simp [hf] at h
  | some p =>
    simp only [hf, Option.map_some, Option.some.injEq] at h
    exact ⟨p.1, by rw [← h]; exact List.mem_of_find?_eq_some hf⟩

/-! ### small facts -/

theorem tree_append (a b : Result) : (a ++ b).tree = a.tree ++ b.tree := rfl

theorem isEmpty_iff_nil {α} (l : List α) : l.isEmpty = true ↔ l = [] := by cases l <;> simp

theorem foldl_inv {α β} (f : β → α → β) (Inv : β → Prop) (xs : List α) (b : β) (h0 : Inv b)
    (hstep : ∀ b x, x ∈ xs → Inv b → Inv (f b x)) : Inv (xs.foldl f b) := by
  induction xs generalizing b with
  | nil => exact h0
  | cons x xs ih =>
    simp only [List.foldl_cons]
    exact ih (f b x) (hstep b x (by simp) h0) (fun b y hy hb => hstep b y (by simp [hy]) hb)

/-- every entry of a hash table has an index, its item sits at its first index, and its hash is the item's -/
def GoodEntry (hashOf : PyVal → String) (xs : List PyVal) (e : HEntry) : Prop :=
  e.idxs ≠ [] ∧ xs[e.idx0]? = some e.item ∧ e.h = hashOf e.item

theorem hashTable_good (hashOf : PyVal → String) (xs : List PyVal) : ∀ e ∈ hashTable hashOf xs, GoodEntry hashOf xs e := by
  unfold hashTable
  apply foldl_inv (Inv := fun acc => ∀ e ∈ acc, GoodEntry hashOf xs e)
  · intro e he; simp at he
  · intro acc p hp hacc
    obtain ⟨x, i⟩ := p
    simp only
    split
    · intro e he
      rw [List.mem_map] at he
      obtain ⟨e0, he0, rfl⟩ := he
      have h0 := hacc e0 he0
      split
      · refine ⟨by simp, ?_, h0.2.2⟩
        have : ({ e0 with idxs := e0.idxs ++ [i] } : HEntry).idx0 = e0.idx0 := by
          simp only [HEntry.idx0]
          cases hh : e0.idxs with
          | nil => exact absurd hh h0.1
          | cons a t => simp
        rw [this]; exact h0.2.1
      · exact h0
    · intro e he
      rcases List.mem_append.1 he with he | he
      · exact hacc e he
      · simp only [List.mem_singleton] at he
        subst he
        exact ⟨by simp, by simpa [HEntry.idx0] using mem_zipIdx_get hp, rfl⟩

/-! ### rows -/

theorem rows_get (c : IOCfg) (hashOf : PyVal → String) (P : Pairs) (steps : List Step) :
    ∀ (xs ys : List PyVal) (i j p1 p2 : Nat) (x y : PyVal), xs[i]? = some x → ys[j]? = some y →
      (rows c hashOf P steps xs ys).get i j p1 p2 = diffV c hashOf P (steps ++ [⟨.iter, some (.int p1), some (.int p2)⟩]) x y
  | [], _, i, _, _, _, _, _, hx, _ => by simp at hx
  | x0 :: xs, ys, 0, j, p1, p2, x, y, hx, hy => by
    simp only [List.getElem?_cons_zero, Option.some.injEq] at hx
    subst hx
    simp [rows, Matrix.get, List.getElem?_map, hy]
  | x0 :: xs, ys, i + 1, j, p1, p2, x, y, hx, hy => by
    simp only [List.getElem?_cons_succ] at hx
    have := rows_get c hashOf P steps xs ys i j p1 p2 x y hx hy
    simpa [rows, Matrix.get] using this

/-! ### the iterable level -/

theorem pairStep_append (c : IOCfg) (P : Pairs) (lp : String) (steps : List Step) (removed : List HEntry) (m : Matrix)
    (acc : Result × List String) (a : HEntry) :
    ∃ t, (pairStep c P lp steps removed m acc a).1.tree = acc.1.tree ++ t := by
  unfold pairStep
  simp only
  split
  · split
    · rename_i r _ _
      have : ∀ (l : List Nat) (res : Result), ∃ t, (l.foldl (fun res i => res ++ m.get r.idx0 a.idx0 i ((if a.idxs.length == 1 then some a.idx0 else none).getD i)) res).tree = res.tree ++ t := by
        intro l
        induction l with
        | nil => intro res; exact ⟨[], by simp⟩
        | cons i l ih =>
          intro res
          obtain ⟨t, ht⟩ := ih (res ++ m.get r.idx0 a.idx0 i ((if a.idxs.length == 1 then some a.idx0 else none).getD i))
          exact ⟨(m.get r.idx0 a.idx0 i ((if a.idxs.length == 1 then some a.idx0 else none).getD i)).tree ++ t, by simp only [List.foldl_cons, ht, tree_append, List.append_assoc]⟩
      exact this _ _
    · exact ⟨_, rfl⟩
  · split <;> exact ⟨_, rfl⟩

theorem foldl_pairStep_append (c : IOCfg) (P : Pairs) (lp : String) (steps : List Step) (removed : List HEntry) (m : Matrix) :
    ∀ (as : List HEntry) (acc : Result × List String),
    ∃ t, (as.foldl (pairStep c P lp steps removed m) acc).1.tree = acc.1.tree ++ t := by
  intro as
  induction as with
  | nil => intro acc; exact ⟨[], by simp⟩
  | cons a as ih =>
    intro acc
    obtain ⟨t1, h1⟩ := pairStep_append c P lp steps removed m acc a
    obtain ⟨t2, h2⟩ := ih (pairStep c P lp steps removed m acc a)
    exact ⟨t1 ++ t2, by simp only [List.foldl_cons, h2, h1, List.append_assoc]⟩

/-- the first added hash leaves something in the result, provided paired child diffs are never empty -/
theorem pairStep_nonempty (c : IOCfg) (P : Pairs) (lp : String) (steps : List Step) (removed : List HEntry) (m : Matrix)
    (acc : Result × List String) (a : HEntry) (ha : a.idxs ≠ [])
    (hr : ∀ r ∈ removed, r.idxs ≠ [] ∧ ∀ p1 p2, (m.get r.idx0 a.idx0 p1 p2).tree ≠ []) :
    (pairStep c P lp steps removed m acc a).1.tree ≠ [] := by
  unfold pairStep
  simp only
  split
  · rename_i r hpart
    have hrmem : r ∈ removed := by
      split at hpart
      · exact List.mem_of_find?_eq_some hpart
      · simp at hpart
    obtain ⟨hri, hrm⟩ := hr r hrmem
    split
    · cases hl : r.idxs with
      | nil => exact absurd hl hri
      | cons i l =>
        simp only [List.foldl_cons]
        have : ∀ (l : List Nat) (res : Result), res.tree ≠ [] →
            (l.foldl (fun res i => res ++ m.get r.idx0 a.idx0 i ((if a.idxs.length == 1 then some a.idx0 else none).getD i)) res).tree ≠ [] := by
          intro l
          induction l with
          | nil => intro res h; exact h
          | cons j l ih => intro res h; simp only [List.foldl_cons]; exact ih _ (by simp [tree_append, h])
        exact this l _ (by simp [tree_append, hrm])
    · simp [tree_append, hrm]
  · split
    · cases hl : a.idxs with
      | nil => exact absurd hl ha
      | cons i l => simp [tree_append]
    · simp [tree_append]

theorem removedEntries_nil_iff (c : IOCfg) (steps : List Step) (rs : List HEntry) (hg : ∀ r ∈ rs, r.idxs ≠ []) :
    removedEntries c steps rs = [] ↔ rs = [] := by
  unfold removedEntries
  split
  · cases rs with
    | nil => simp
    | cons r rs =>
      cases hl : r.idxs with
      | nil => exact absurd hl (hg r (by simp))
      | cons i l => simp [hl]
  · cases rs <;> simp

theorem repEntries_steps (c : IOCfg) (s1 s2 : List Step) (t1 t2 : List HEntry) (h : repEntries c s1 t1 t2 = []) : repEntries c s2 t1 t2 = [] := by
  unfold repEntries at h ⊢
  split
  · rename_i hc
    simp only [hc, if_true, List.filterMap_eq_nil_iff] at h ⊢
    intro e he
    have := h e he
    split at this
    · split at this
      · simp at this
      · rename_i e1 hf hne; simp [hf, hne]
    · rename_i hf; simp [hf]
  · rfl

/-- **the iterable level is empty iff nothing was added, removed, or changed in multiplicity** -/
theorem ioIter_empty_iff (c : IOCfg) (P : Pairs) (steps : List Step) (t1 t2 : List HEntry) (m : Matrix)
    (hg1 : ∀ e ∈ t1, e.idxs ≠ []) (hg2 : ∀ e ∈ t2, e.idxs ≠ [])
    (hm : ∀ a ∈ addedOf t1 t2, ∀ r ∈ removedOf t1 t2, ∀ p1 p2, (m.get r.idx0 a.idx0 p1 p2).tree ≠ []) :
    (ioIter c P steps t1 t2 m).tree = [] ↔
      (addedOf t1 t2 = [] ∧ removedOf t1 t2 = [] ∧ repEntries c [] t1 t2 = []) := by
  unfold ioIter
  simp only [tree_append, List.append_eq_nil_iff]
  have hgr : ∀ r ∈ removedOf t1 t2, r.idxs ≠ [] := fun r hr => hg1 r (List.mem_filter.1 hr).1
  constructor
  · rintro ⟨hres, hrem, hrep⟩
    cases hadd : addedOf t1 t2 with
    | cons a as =>
      exfalso
      rw [hadd] at hres
      simp only [List.foldl_cons] at hres
      have hne := pairStep_nonempty c P ((pathStr steps false).getD "None") steps (removedOf t1 t2) m ({}, []) a
        (hg2 a (List.mem_filter.1 (by rw [hadd]; simp : a ∈ addedOf t1 t2)).1)
        (fun r hr => ⟨hgr r hr, fun p1 p2 => hm a (by rw [hadd]; simp) r hr p1 p2⟩)
      obtain ⟨t, ht⟩ := foldl_pairStep_append c P ((pathStr steps false).getD "None") steps (removedOf t1 t2) m as
        (pairStep c P ((pathStr steps false).getD "None") steps (removedOf t1 t2) m ({}, []) a)
      rw [ht] at hres
      exact hne (List.append_eq_nil_iff.1 hres).1
    | nil =>
      rw [hadd] at hrem
      have hft : (removedOf t1 t2).filter (fun _ => true) = removedOf t1 t2 := List.filter_eq_self.2 (fun _ _ => rfl)
      simp only [List.foldl_nil, List.contains_nil, Bool.not_false, hft] at hrem
      exact ⟨rfl, (removedEntries_nil_iff c steps _ hgr).1 hrem, repEntries_steps c steps [] t1 t2 hrep⟩
  · rintro ⟨hadd, hrem, hrep⟩
    rw [hadd, hrem]
    refine ⟨rfl, ?_, repEntries_steps c [] steps t1 t2 hrep⟩
    simp [removedEntries]

/-- a paired added / removed item never has an empty diff: their hashes differ, and an empty diff
would make them hash equally -/
theorem iter_pairs_nonempty (D : PyVal → Prop) (c : IOCfg) (hashOf : PyVal → String) (P : Pairs) (hs : HashSoundOn D c hashOf) (hc : c.thrNum ≤ c.thrDen)
    (xs ys : List PyVal) (steps : List Step) (hDx : ∀ x ∈ xs, D x) (hDy : ∀ y ∈ ys, D y)
    (hsound : ∀ x, x ∈ xs → ∀ (y : PyVal) (steps : List Step), D x → D y → (diffV c hashOf P steps x y).tree = [] → verdict c hashOf x y = true) :
    ∀ a ∈ addedOf (hashTable hashOf xs) (hashTable hashOf ys), ∀ r ∈ removedOf (hashTable hashOf xs) (hashTable hashOf ys), ∀ p1 p2,
      ((rows c hashOf P steps xs ys).get r.idx0 a.idx0 p1 p2).tree ≠ [] := by
  intro a ha r hr p1 p2 hempty
  have ha' := List.mem_filter.1 ha
  have hr' := List.mem_filter.1 hr
  obtain ⟨_, hax, hah⟩ := hashTable_good hashOf ys a ha'.1
  obtain ⟨_, hrx, hrh⟩ := hashTable_good hashOf xs r hr'.1
  rw [rows_get c hashOf P steps xs ys r.idx0 a.idx0 p1 p2 r.item a.item hrx hax] at hempty
  have hmem : r.item ∈ xs := List.mem_of_getElem? hrx
  have hmemy : a.item ∈ ys := List.mem_of_getElem? hax
  have hv := hsound r.item hmem a.item _ (hDx _ hmem) (hDy _ hmemy) hempty
  have heq := hs r.item a.item (hDx _ hmem) (hDy _ hmemy) hv
  have : a.h = r.h := by rw [hah, hrh, heq]
  have hcontra := ha'.2
  simp only [Bool.not_eq_true', List.any_eq_false] at hcontra
  have := hcontra r hr'.1
  simp_all

/-! ### the main theorem -/

theorem keysOf_steps (c : IOCfg) (steps : List Step) (kvs : List (PyVal × PyVal)) :
    keysOf (toDCfg c) steps kvs = keysOf (toDCfg c) [] kvs := by
  simp [keysOf, skipKey, toDCfg]

theorem leafDiff_steps (s1 s2 : List Step) (a b : PyVal) (h : leafDiff s1 a b = []) : leafDiff s2 a b = [] := by
  unfold leafDiff at h ⊢
  split <;> simp_all
  all_goals (split at h <;> simp_all)

theorem diffSet_steps (hashOf : PyVal → String) (s1 s2 : List Step) (xs ys : List PyVal) (h : diffSet hashOf s1 xs ys = []) :
    diffSet hashOf s2 xs ys = [] := by
  unfold diffSet at h ⊢
  simp only [List.append_eq_nil_iff, List.map_eq_nil_iff] at h ⊢
  exact h

/-- two child lists that correspond entry by entry -/
inductive Corr : List (PyVal × Result) → List (PyVal × Bool) → Prop where
  | nil : Corr [] []
  | cons (p : PyVal × Result) (q : PyVal × Bool) (l1 : List (PyVal × Result)) (l2 : List (PyVal × Bool)) :
      p.1 = q.1 → (p.2.tree = [] ↔ q.2 = true) → Corr l1 l2 → Corr (p :: l1) (q :: l2)

theorem corr_find {l1 : List (PyVal × Result)} {l2 : List (PyVal × Bool)} (h : Corr l1 l2) (q : PyVal → Bool) :
    (match l1.find? (fun p => q p.1) with | some p => p.2.tree = [] | Option.none => True) ↔
    (match l2.find? (fun p => q p.1) with | some p => p.2 = true | Option.none => True) := by
  induction h with
  | nil => simp
  | cons p p' l1 l2 hk hv _ ih =>
    simp only [List.find?_cons]
    rw [← hk]
    cases hq : q p.1 with
    | true => simp only; exact hv
    | false => simp only; exact ih

theorem foldl_tree_flat (f : Result → PyVal → Result) (g : PyVal → Tree) (hf : ∀ acc k, (f acc k).tree = acc.tree ++ g k) :
    ∀ (ks : List PyVal) (acc : Result), (ks.foldl f acc).tree = acc.tree ++ ks.flatMap g := by
  intro ks
  induction ks with
  | nil => intro acc; simp
  | cons k ks ih => intro acc; simp only [List.foldl_cons, ih, hf, List.flatMap_cons, List.append_assoc]

theorem ordered_empty_iff (children : List (PyVal × Result)) (vchildren : List (PyVal × Bool)) (hcorr : Corr children vchildren)
    (f : Result → PyVal → Result)
    (hf : ∀ acc k, (f acc k).tree = acc.tree ++ (match children.find? (fun p => keyEq p.1 k) with | some p => p.2.tree | Option.none => []))
    (ks : List PyVal) :
    ((({} : Result) ++ ks.foldl f {}).tree = []) ↔
      ∀ k ∈ ks, (match vchildren.find? (fun p => keyEq p.1 k) with | some p => p.2 | Option.none => true) = true := by
  rw [tree_append, foldl_tree_flat f _ hf ks {}]
  simp only [show ({} : Result).tree = [] from rfl, List.nil_append, List.flatMap_eq_nil_iff]
  constructor
  · intro h k hk
    have h1 := h k hk
    have h2 := corr_find hcorr (fun x => keyEq x k)
    cases hc1 : children.find? (fun p => keyEq p.1 k) <;> cases hc2 : vchildren.find? (fun p => keyEq p.1 k) <;> simp_all
  · intro h k hk
    have h1 := h k hk
    have h2 := corr_find hcorr (fun x => keyEq x k)
    cases hc1 : children.find? (fun p => keyEq p.1 k) <;> cases hc2 : vchildren.find? (fun p => keyEq p.1 k) <;> simp_all

set_option maxHeartbeats 1000000
mutual
/-- **empty ⇔ verdict**, for every pairing -/
theorem diffV_empty_iff (D : PyVal → Prop) (hD : Closed D) (c : IOCfg) (hashOf : PyVal → String) (P : Pairs) (hs : HashSoundOn D c hashOf) (hc : c.thrNum ≤ c.thrDen) :
    ∀ (a b : PyVal) (steps : List Step), D a → D b → ((diffV c hashOf P steps a b).tree = [] ↔ verdict c hashOf a b = true)
  | .dict kvs1, b, steps, da, db => by
    cases b with
    | dict kvs2 =>
      have hcorr := diffKVs_corr D hD c hashOf P hs hc kvs1 kvs2 (keysOf (toDCfg c) [] kvs2) steps (hD.dict kvs1 da) (hD.dict kvs2 db)
      unfold diffV verdict
      simp only [keysOf_steps c steps]
      generalize hk1 : keysOf (toDCfg c) [] kvs1 = k1 at *
      generalize hk2 : keysOf (toDCfg c) [] kvs2 = k2 at *
      by_cases hadd : (k2.filter (fun k => !k1.any (fun k' => keyEq k' k))) = []
      · by_cases hrem : (k1.filter (fun k => !k2.any (fun k' => keyEq k' k))) = []
        · have hinter : k2.filter (fun k => k1.any (fun k' => keyEq k' k)) = k2 := by
            rw [List.filter_eq_self]
            intro k hk
            have := (List.filter_eq_nil_iff.1 hadd) k hk
            simpa using this
          have hthr : belowThreshold (toDCfg c) k2.length (k2.length + 0) = false :=
            belowThreshold_false (toDCfg c) hc (by omega)
          simp only [hadd, hrem, hinter, List.length_nil, hthr, Bool.false_eq_true, if_false, List.map_nil, List.append_nil,
            List.isEmpty_nil, Bool.true_and, List.all_eq_true]
          refine Iff.trans (ordered_empty_iff _ _ hcorr _ ?_ k2) ?_
          · intro acc k
            cases (diffKVs c hashOf P steps kvs1 kvs2 k2).find? (fun p => keyEq p.1 k) <;> simp [tree_append]
          · constructor <;> intro h k hk <;> have := h k hk <;>
              cases hfd : (verdictKVs c hashOf kvs1 kvs2 k2).find? (fun p => keyEq p.1 k) <;> simp_all
        · have hne : (k1.filter (fun k => !k2.any (fun k' => keyEq k' k))).isEmpty = false := by
            cases hl : k1.filter (fun k => !k2.any (fun k' => keyEq k' k)) with
            | nil => exact absurd hl hrem
            | cons _ _ => rfl
          simp only [hne, Bool.and_false, Bool.false_and, Bool.false_eq_true, iff_false]
          split
          · simp
          · simp only [tree_append, List.append_eq_nil_iff, List.map_eq_nil_iff]
            intro h; exact hrem h.1.2
      · have hne : (k2.filter (fun k => !k1.any (fun k' => keyEq k' k))).isEmpty = false := by
          cases hl : k2.filter (fun k => !k1.any (fun k' => keyEq k' k)) with
          | nil => exact absurd hl hadd
          | cons _ _ => rfl
        simp only [hne, Bool.false_and, Bool.false_eq_true, iff_false]
        split
        · simp
        · simp only [tree_append, List.append_eq_nil_iff, List.map_eq_nil_iff]
          intro h; exact hadd h.1.1
    | _ => all_goals simp [diffV, verdict]
  | .list xs, b, steps, da, db => by
    cases b with
    | list ys =>
      unfold diffV verdict
      simp only
      rw [ioIter_empty_iff c P steps _ _ _ (fun e he => (hashTable_good hashOf xs e he).1) (fun e he => (hashTable_good hashOf ys e he).1)
        (iter_pairs_nonempty D c hashOf P hs hc xs ys steps (hD.list xs da) (hD.list ys db) (diffVL_sound D hD c hashOf P hs hc xs))]
      simp [isEmpty_iff_nil, and_assoc]
    | _ => all_goals simp [diffV, verdict]
  | .tuple xs, b, steps, da, db => by
    cases b with
    | tuple ys =>
      unfold diffV verdict
      simp only
      rw [ioIter_empty_iff c P steps _ _ _ (fun e he => (hashTable_good hashOf xs e he).1) (fun e he => (hashTable_good hashOf ys e he).1)
        (iter_pairs_nonempty D c hashOf P hs hc xs ys steps (hD.tuple xs da) (hD.tuple ys db) (diffVL_sound D hD c hashOf P hs hc xs))]
      simp [isEmpty_iff_nil, and_assoc]
    | _ => all_goals simp [diffV, verdict]
  | .set xs, b, steps, da, db => by
    cases b with
    | set ys =>
      simp only [diffV, verdict, isEmpty_iff_nil]
      exact ⟨diffSet_steps hashOf steps [] xs ys, diffSet_steps hashOf [] steps xs ys⟩
    | _ => all_goals simp [diffV, verdict]
  | .frozenset xs, b, steps, da, db => by
    cases b with
    | frozenset ys =>
      simp only [diffV, verdict, isEmpty_iff_nil]
      exact ⟨diffSet_steps hashOf steps [] xs ys, diffSet_steps hashOf [] steps xs ys⟩
    | _ => all_goals simp [diffV, verdict]
  | .none, b, steps, da, db => by
    simp only [diffV, verdict]
    split
    · rename_i h; simp at h; simp [h]
    · rename_i h; simp at h; simp only [h, beq_self_eq_true, Bool.true_and, isEmpty_iff_nil]
      exact ⟨leafDiff_steps steps [] _ _, leafDiff_steps [] steps _ _⟩
  | .bool x, b, steps, da, db => by
    simp only [diffV, verdict]
    split
    · rename_i h; simp at h; simp [h]
    · rename_i h; simp at h; simp only [h, beq_self_eq_true, Bool.true_and, isEmpty_iff_nil]
      exact ⟨leafDiff_steps steps [] _ _, leafDiff_steps [] steps _ _⟩
  | .int x, b, steps, da, db => by
    simp only [diffV, verdict]
    split
    · rename_i h; simp at h; simp [h]
    · rename_i h; simp at h; simp only [h, beq_self_eq_true, Bool.true_and, isEmpty_iff_nil]
      exact ⟨leafDiff_steps steps [] _ _, leafDiff_steps [] steps _ _⟩
  | .float n sc, b, steps, da, db => by
    simp only [diffV, verdict]
    split
    · rename_i h; simp at h; simp [h]
    · rename_i h; simp at h; simp only [h, beq_self_eq_true, Bool.true_and, isEmpty_iff_nil]
      exact ⟨leafDiff_steps steps [] _ _, leafDiff_steps [] steps _ _⟩
  | .str x, b, steps, da, db => by
    simp only [diffV, verdict]
    split
    · rename_i h; simp at h; simp [h]
    · rename_i h; simp at h; simp only [h, beq_self_eq_true, Bool.true_and, isEmpty_iff_nil]
      exact ⟨leafDiff_steps steps [] _ _, leafDiff_steps [] steps _ _⟩
  | .bytes x, b, steps, da, db => by
    simp only [diffV, verdict]
    split
    · rename_i h; simp at h; simp [h]
    · rename_i h; simp at h; simp only [h, beq_self_eq_true, Bool.true_and, isEmpty_iff_nil]
      exact ⟨leafDiff_steps steps [] _ _, leafDiff_steps [] steps _ _⟩
/-- an empty diff of an item of `xs` against anything means the verdict holds for them -/
theorem diffVL_sound (D : PyVal → Prop) (hD : Closed D) (c : IOCfg) (hashOf : PyVal → String) (P : Pairs) (hs : HashSoundOn D c hashOf) (hc : c.thrNum ≤ c.thrDen) :
    ∀ (xs : List PyVal) (x : PyVal), x ∈ xs → ∀ (y : PyVal) (steps : List Step), D x → D y →
      (diffV c hashOf P steps x y).tree = [] → verdict c hashOf x y = true
  | x0 :: xs, _, .head _, y, steps, dx, dy, h => (diffV_empty_iff D hD c hashOf P hs hc x0 y steps dx dy).1 h
  | _ :: xs, x, .tail _ hx', y, steps, dx, dy, h => diffVL_sound D hD c hashOf P hs hc xs x hx' y steps dx dy h
/-- the child diffs and the child verdicts of a dictionary correspond entry by entry -/
theorem diffKVs_corr (D : PyVal → Prop) (hD : Closed D) (c : IOCfg) (hashOf : PyVal → String) (P : Pairs) (hs : HashSoundOn D c hashOf) (hc : c.thrNum ≤ c.thrDen) :
    ∀ (rest kvs2 : List (PyVal × PyVal)) (k2s : List PyVal) (steps : List Step),
      (∀ p ∈ rest, D p.2) → (∀ p ∈ kvs2, D p.2) →
      Corr (diffKVs c hashOf P steps rest kvs2 k2s) (verdictKVs c hashOf rest kvs2 k2s)
  | [], _, _, _, _, _ => by simp only [diffKVs, verdictKVs]; exact Corr.nil
  | (k1, v1) :: rest, kvs2, k2s, steps, hd1, hd2 => by
    have ih := diffKVs_corr D hD c hashOf P hs hc rest kvs2 k2s steps (fun p hp => hd1 p (List.mem_cons_of_mem _ hp)) hd2
    simp only [diffKVs, verdictKVs]
    by_cases hp : (c.ignorePrivate && isPrivate k1) = true
    · simp only [hp, if_true]; exact ih
    · simp only [hp, Bool.false_eq_true, if_false]
      cases hf : k2s.find? (fun k => keyEq k1 k) with
      | none => simp only; exact ih
      | some k =>
        simp only
        cases hg : dictGet kvs2 k with
        | none => simp only; exact ih
        | some v2 =>
          simp only
          obtain ⟨k', hk'⟩ := dictGet_mem hg
          exact Corr.cons _ _ _ _ rfl (diffV_empty_iff D hD c hashOf P hs hc v1 v2 _ (hd1 (k1, v1) (List.mem_cons_self ..)) (hd2 (k', v2) hk')) ih
end

end DiffIO
