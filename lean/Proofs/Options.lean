import Model.Diff.Options
import Proofs.Diff
/-!
`sim o a b`: the two values differ at most in what the options of `o` ignore, position by position
(dict keys through their cleaned form).  Main theorem: similar values give an empty diff.
-/
namespace DiffO
open Py Diff

mutual
/-- structural similarity under the options -/
def sim (o : OCfg) : PyVal → PyVal → Bool
  | .dict kvs1, b =>
    skipTypes o (some (.dict kvs1)) (some b) ||
    (match b with
     | .dict kvs2 =>
       (cleanKeys o kvs2).all (fun k => (cleanKeys o kvs1).any (fun k' => keyEq k'.1 k.1)) &&
       (cleanKeys o kvs1).all (fun k => (cleanKeys o kvs2).any (fun k' => keyEq k'.1 k.1)) &&
       simKVs o kvs1 kvs2 (cleanKeys o kvs1) (cleanKeys o kvs2)
     | _ => false)
  | .list xs, b =>
    skipTypes o (some (.list xs)) (some b) || (match b with | .list ys => simL o xs ys | _ => false)
  | .tuple xs, b =>
    skipTypes o (some (.tuple xs)) (some b) || (match b with | .tuple ys => simL o xs ys | _ => false)
  | .set xs, b =>
    skipTypes o (some (.set xs)) (some b) || (match b with | .set ys => (diffSet o [] xs ys).isEmpty | _ => false)
  | .frozenset xs, b =>
    skipTypes o (some (.frozenset xs)) (some b) || (match b with | .frozenset ys => (diffSet o [] xs ys).isEmpty | _ => false)
  | a, b => skipTypes o (some a) (some b) || (sameGroup o a b && (leafDiff o [] a b).isEmpty)
/-- the values under matching (cleaned) keys are similar; same recursion as `diffKVs` -/
def simKVs (o : OCfg) : List (PyVal × PyVal) → List (PyVal × PyVal) → List (PyVal × PyVal) → List (PyVal × PyVal) → Bool
  | [], _, _, _ => true
  | (k1, v1) :: rest, kvs2, ck1, ck2 =>
    (match ck1.find? (fun p => strictEq p.2 k1) with
     | some (c, _) =>
       (match ck2.find? (fun p => keyEq p.1 c) with
        | some (_, k2) => (match dictGet kvs2 k2 with | some v2 => sim o v1 v2 | Option.none => true)
        | Option.none => true)
     | Option.none => true) && simKVs o rest kvs2 ck1 ck2
def simL (o : OCfg) : List PyVal → List PyVal → Bool
  | [], [] => true
  | x :: xs, y :: ys => sim o x y && simL o xs ys
  | _, _ => false
end

/-! ### leaf and set comparisons do not depend on the path -/

theorem leafDiff_nil_iff (o : OCfg) (steps : List Step) (a b : PyVal) : leafDiff o steps a b = [] ↔ leafSame o a b = true := by
  unfold leafDiff
  by_cases h : leafSame o a b = true
  · simp [h]
  · simp only [h, Bool.false_eq_true, if_false, false_iff]
    split <;> simp

theorem leafDiff_steps (o : OCfg) (s1 s2 : List Step) (a b : PyVal) (h : leafDiff o s1 a b = []) : leafDiff o s2 a b = [] :=
  (leafDiff_nil_iff o s2 a b).2 ((leafDiff_nil_iff o s1 a b).1 h)

theorem diffSet_steps (o : OCfg) (s1 s2 : List Step) (xs ys : List PyVal) (h : diffSet o s1 xs ys = []) : diffSet o s2 xs ys = [] := by
  unfold diffSet Diff.diffSet at h ⊢
  simp only [List.append_eq_nil_iff, List.map_eq_nil_iff] at h ⊢
  exact h

theorem isEmpty_nil {α} {l : List α} (h : l.isEmpty = true) : l = [] := by
  cases l <;> simp_all

/-! ### the pairwise pass over similar basic items is silent -/

theorem sim_basic (o : OCfg) {x y : PyVal} (hx : isBasic x = true) (h : sim o x y = true) :
    skipTypes o (some x) (some y) = true ∨ (sameGroup o x y = true ∧ ∀ steps, leafDiff o steps x y = []) := by
  cases x <;> simp [isBasic] at hx <;> simp only [sim, Bool.or_eq_true, Bool.and_eq_true] at h <;>
    (rcases h with h | ⟨h1, h2⟩
     · exact Or.inl h
     · exact Or.inr ⟨h1, fun steps => leafDiff_steps o [] steps _ _ (isEmpty_nil h2)⟩)

theorem pairBasic_sim (o : OCfg) (steps : List Step) : ∀ (xs ys : List PyVal) (i : Nat), xs.all isBasic = true →
    simL o xs ys = true → pairBasic o steps i i xs ys = []
  | [], [], _, _, _ => by simp [pairBasic]
  | [], _ :: _, _, _, h => by simp [simL] at h
  | _ :: _, [], _, _, h => by simp [simL] at h
  | x :: xs, y :: ys, i, hb, h => by
    simp only [List.all_cons, Bool.and_eq_true] at hb
    simp only [simL, Bool.and_eq_true] at h
    simp only [pairBasic, bne_self_eq_false, Bool.false_and, Bool.false_eq_true, if_false]
    rw [pairBasic_sim o steps xs ys (i + 1) hb.2 h.2, List.append_nil]
    rcases sim_basic o hb.1 h.1 with hs | ⟨hg, hl⟩
    · simp [hs]
    · simp [hg, hl]

/-- a pair of scalars that passes the type test and compares equal is similar -/
theorem sim_of_leafSame (o : OCfg) {a b : PyVal} (ha : isBasic a = true) (hg : sameGroup o a b = true)
    (hl : leafSame o a b = true) : sim o a b = true := by
  have : (leafDiff o [] a b).isEmpty = true := by rw [(leafDiff_nil_iff o [] a b).2 hl]; rfl
  cases a <;> simp [isBasic] at ha <;> simp [sim, hg, this]

theorem sim_of_skip (o : OCfg) {a b : PyVal} (hs : skipTypes o (some a) (some b) = true) : sim o a b = true := by
  cases a <;> (unfold sim; simp [hs])

/-! ### main theorem -/

theorem keepReported_nil (o : OCfg) : keepReported o [] = [] := rfl

theorem length_le_one_ne_one {α} {l : List α} (h1 : ¬ l.length > 1) (h2 : l.length ≠ 1) : l = [] := by
  cases l with
  | nil => rfl
  | cons a t =>
    cases t with
    | nil => simp at h2
    | cons b t' => simp at h1

set_option maxHeartbeats 1000000
mutual
theorem diffV_sim (o : OCfg) (al : Align) (hc : o.base.thrNum ≤ o.base.thrDen) :
    ∀ (a b : PyVal) (steps : List Step), sim o a b = true → diffV o al steps a b = {}
  | .dict kvs1, b, steps, h => by
    unfold sim at h
    simp only [Bool.or_eq_true] at h
    unfold diffV
    split
    · rfl
    · rename_i hsk
      rcases h with h | h
      · exact absurd h hsk
      · cases b with
        | dict kvs2 =>
          simp only [Bool.and_eq_true, List.all_eq_true] at h
          obtain ⟨⟨h2in1, h1in2⟩, hkv⟩ := h
          have hinter : (cleanKeys o kvs2).filter (fun k => (cleanKeys o kvs1).any (fun k' => keyEq k'.1 k.1)) = cleanKeys o kvs2 := by
            rw [List.filter_eq_self]; exact h2in1
          have hadd : (cleanKeys o kvs2).filter (fun k => !(cleanKeys o kvs1).any (fun k' => keyEq k'.1 k.1)) = [] := by
            rw [List.filter_eq_nil_iff]; intro k hk; simp [h2in1 k hk]
          have hrem : (cleanKeys o kvs1).filter (fun k => !(cleanKeys o kvs2).any (fun k' => keyEq k'.1 k.1)) = [] := by
            rw [List.filter_eq_nil_iff]; intro k hk; simp [h1in2 k hk]
          have hch := diffKVs_sim o al hc kvs1 kvs2 (cleanKeys o kvs1) (cleanKeys o kvs2) steps hkv
          simp only [hinter, hadd, hrem, List.length_nil, Nat.add_zero, List.map_nil, List.append_nil]
          have hthr : belowThreshold o.base (cleanKeys o kvs2).length (cleanKeys o kvs2).length = false :=
            belowThreshold_false o.base hc (Nat.le_refl _)
          simp only [hthr, Bool.false_eq_true, if_false]
          have hstep : ∀ k : PyVal × PyVal, (match List.find? (fun p => keyEq p.fst k.1) (diffKVs o al steps kvs1 kvs2 (cleanKeys o kvs1) (cleanKeys o kvs2)) with
              | some (_, r) => ({} : Result) ++ r
              | Option.none => ({} : Result)) = {} := by
            intro k
            cases hf : List.find? (fun p => keyEq p.fst k.1) (diffKVs o al steps kvs1 kvs2 (cleanKeys o kvs1) (cleanKeys o kvs2)) with
            | none => rfl
            | some p =>
              obtain ⟨k', r⟩ := p
              have hr : r = {} := hch (k', r) (List.mem_of_find?_eq_some hf)
              subst hr; rfl
          have hfold : ∀ f : Result → PyVal × PyVal → Result, (∀ k, f {} k = {}) →
              ({} : Result) ++ List.foldl f {} (cleanKeys o kvs2) = {} := by
            intro f hf
            have : ∀ l : List (PyVal × PyVal), List.foldl f {} l = {} := by
              intro l
              induction l with
              | nil => rfl
              | cons k l ih => simp only [List.foldl_cons, hf k]; exact ih
            rw [this]; rfl
          exact hfold _ hstep
        | _ => simp at h
  | .list xs, b, steps, h => by
    unfold sim at h
    simp only [Bool.or_eq_true] at h
    unfold diffV
    split
    · rfl
    · rename_i hsk
      rcases h with h | h
      · exact absurd h hsk
      · cases b with
        | list ys => exact iter_sim o al hc xs ys steps h _ (diffPairs_sim o al hc xs ys 0 steps h)
        | _ => simp at h
  | .tuple xs, b, steps, h => by
    unfold sim at h
    simp only [Bool.or_eq_true] at h
    unfold diffV
    split
    · rfl
    · rename_i hsk
      rcases h with h | h
      · exact absurd h hsk
      · cases b with
        | tuple ys => exact iter_sim o al hc xs ys steps h _ (diffPairs_sim o al hc xs ys 0 steps h)
        | _ => simp at h
  | .set xs, b, steps, h => by
    unfold sim at h
    simp only [Bool.or_eq_true] at h
    unfold diffV
    split
    · rfl
    · rename_i hsk
      rcases h with h | h
      · exact absurd h hsk
      · cases b with
        | set ys => simp only; rw [diffSet_steps o [] steps xs ys (isEmpty_nil h)]
        | _ => simp at h
  | .frozenset xs, b, steps, h => by
    unfold sim at h
    simp only [Bool.or_eq_true] at h
    unfold diffV
    split
    · rfl
    · rename_i hsk
      rcases h with h | h
      · exact absurd h hsk
      · cases b with
        | frozenset ys => simp only; rw [diffSet_steps o [] steps xs ys (isEmpty_nil h)]
        | _ => simp at h
  | .none, b, steps, h => by
    rcases sim_basic o (x := .none) rfl h with hs | ⟨hg, hl⟩
    · simp [diffV, hs]
    · simp only [diffV, hg, hl]; split <;> rfl
  | .bool x, b, steps, h => by
    rcases sim_basic o (x := .bool x) rfl h with hs | ⟨hg, hl⟩
    · simp [diffV, hs]
    · simp only [diffV, hg, hl]; split <;> rfl
  | .int x, b, steps, h => by
    rcases sim_basic o (x := .int x) rfl h with hs | ⟨hg, hl⟩
    · simp [diffV, hs]
    · simp only [diffV, hg, hl]; split <;> rfl
  | .float n s, b, steps, h => by
    rcases sim_basic o (x := .float n s) rfl h with hs | ⟨hg, hl⟩
    · simp [diffV, hs]
    · simp only [diffV, hg, hl]; split <;> rfl
  | .str x, b, steps, h => by
    rcases sim_basic o (x := .str x) rfl h with hs | ⟨hg, hl⟩
    · simp [diffV, hs]
    · simp only [diffV, hg, hl]; split <;> rfl
  | .bytes x, b, steps, h => by
    rcases sim_basic o (x := .bytes x) rfl h with hs | ⟨hg, hl⟩
    · simp [diffV, hs]
    · simp only [diffV, hg, hl]; split <;> rfl
theorem diffKVs_sim (o : OCfg) (al : Align) (hc : o.base.thrNum ≤ o.base.thrDen) :
    ∀ (rest kvs2 ck1 ck2 : List (PyVal × PyVal)) (steps : List Step), simKVs o rest kvs2 ck1 ck2 = true →
    ∀ p ∈ diffKVs o al steps rest kvs2 ck1 ck2, p.2 = {}
  | [], _, _, _, _, _ => by intro p hp; simp [diffKVs] at hp
  | (k1, v1) :: rest, kvs2, ck1, ck2, steps, h => by
    simp only [simKVs, Bool.and_eq_true] at h
    have ih := diffKVs_sim o al hc rest kvs2 ck1 ck2 steps h.2
    intro p hp
    simp only [diffKVs] at hp
    have h1 := h.1
    split at hp
    · rename_i c _ hf1
      simp only [hf1] at h1
      split at hp
      · rename_i c2 k2 hf2
        simp only [hf2] at h1
        split at hp
        · rename_i v2 hg
          simp only [hg] at h1
          rcases List.mem_cons.1 hp with rfl | hp
          · exact diffV_sim o al hc v1 v2 _ h1
          · exact ih p hp
        · exact ih p hp
      · exact ih p hp
    · exact ih p hp
theorem diffPairs_sim (o : OCfg) (al : Align) (hc : o.base.thrNum ≤ o.base.thrDen) :
    ∀ (xs ys : List PyVal) (i : Nat) (steps : List Step), simL o xs ys = true → diffPairs o al steps i xs ys = {}
  | [], [], _, _, _ => by simp [diffPairs]
  | [], _ :: _, _, _, h => by simp [simL] at h
  | _ :: _, [], _, _, h => by simp [simL] at h
  | x :: xs, y :: ys, i, steps, h => by
    simp only [simL, Bool.and_eq_true] at h
    simp only [diffPairs]
    rw [diffPairs_sim o al hc xs ys (i + 1) steps h.2, diffV_sim o al hc x y _ h.1]
    rfl
theorem iter_sim (o : OCfg) (al : Align) (hc : o.base.thrNum ≤ o.base.thrDen) :
    ∀ (xs ys : List PyVal) (steps : List Step), simL o xs ys = true → (pw : Result) → pw = {} →
    iterInOrder o al steps xs ys (fun _ => pw) = {}
  | xs, ys, steps, h, pw, hpw => by
    unfold iterInOrder
    split
    · rename_i hcond
      simp only [Bool.and_eq_true, Bool.not_eq_true'] at hcond
      have hp2 : pairBasic o steps 0 0 xs ys = [] := pairBasic_sim o steps xs ys 0 hcond.1.2 h
      simp only [hp2, keepReported_nil, List.length_nil, Nat.zero_le, ge_iff_le, if_true, beq_self_eq_true]
      split
      · split <;> rfl
      · rename_i hlen
        have : keepReported o (opcodeEntries o steps xs ys (al xs ys)) = [] := by
          cases hl : keepReported o (opcodeEntries o steps xs ys (al xs ys)) with
          | nil => rfl
          | cons a t => rw [hl] at hlen; simp at hlen
        rw [this]
    · exact hpw
end

end DiffO
