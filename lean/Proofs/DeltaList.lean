import Proofs.DeltaFlat
/-!
The round trip for lists of scalars compared position by position: how each phase of `Delta.__add__` acts on a
root list (item assignment, removal from the end, appending), the order `Delta` sorts index paths in, the payload of
the pairwise diff in closed form, and the assembly.
-/
namespace Delta
open Py Diff


/-- a `values_changed` / `type_changes` entry on a root list -/
theorem applyChange_list (bidir isType : Bool) (st : AState) (xs : List PyVal) (i : Nat) (cur res : PyVal) (c : Change)
    (hr : st.root = .list xs) (hg : xs[i]? = some cur) (hp : c.path = [.int i]) (hv : resolve isType c cur = some res)
    (hver : Verified bidir c cur) :
    applyChange bidir isType true st c = { st with root := .list (xs.set i res) } := by
  unfold resolve at hv
  have hv' : (if isType = true ∧ c.newValue = Option.none then castTo c.newType cur else c.newValue) = some res := by
    rw [← hv]
    cases isType <;> cases hn : c.newValue <;> simp [hn]
  have hlt : i < xs.length := by
    rcases Nat.lt_or_ge i xs.length with h | h
    · exact h
    · rw [List.getElem?_eq_none h] at hg; cases hg
  have hgi : xs[i] = cur := by
    have := List.getElem?_eq_getElem hlt
    rw [this] at hg; exact Option.some.inj hg
  unfold applyChange
  simp only [hp, List.getLast?_singleton, List.dropLast_singleton, getAt, List.foldlM_nil, hr]
  cases bidir with
  | false => simp [getItem, hg, hgi, hv', setNewValue, withContainer, getAt, isTuple, setElem, replaceAt, hr, hlt]
  | true =>
    obtain ⟨o, ho, heq⟩ := hver rfl
    simp [getItem, hg, hgi, hv', setNewValue, withContainer, getAt, isTuple, setElem, replaceAt, hr, hlt, ho, heq]

/-- `iterable_item_added` at the end of a root list: appended -/
theorem applyAdded_list_end (st : AState) (xs : List PyVal) (v : PyVal) (hr : st.root = .list xs) (hs : st.raised = none) :
    applyAdded true st ([.int xs.length], v) = { st with root := .list (xs ++ [v]) } := by
  unfold applyAdded
  simp [getAt, hr, setNewValue, withContainer, isTuple, setElem, replaceAt]

theorem eraseIdx_last (xs : List PyVal) (x : PyVal) : (xs ++ [x]).eraseIdx xs.length = xs := by
  induction xs with
  | nil => rfl
  | cons a xs ih => simp [List.eraseIdx_cons_succ, ih]

/-- `iterable_item_removed` of the last item of a root list, when it is the recorded one -/
theorem applyRemoved_list_last (bidir : Bool) (st : AState) (xs : List PyVal) (x v : PyVal) (hr : st.root = .list (xs ++ [x]))
    (he : pyEq x v = true) (hver : bidir = true → pyEq v x = true) :
    applyRemoved bidir st ([.int xs.length], v) = { st with root := .list xs } := by
  unfold applyRemoved
  simp only [List.getLast?_singleton, List.dropLast_singleton, getAt, List.foldlM_nil, hr]
  cases bidir with
  | false => simp [getItem, he, withContainer, getAt, isTuple, delElem, replaceAt, hr, eraseIdx_last]
  | true => simp [getItem, he, withContainer, getAt, isTuple, delElem, replaceAt, hr, hver rfl, eraseIdx_last]


/-- a program of item assignments on a list -/
def setMany (ops : List (Nat × PyVal)) (xs : List PyVal) : List PyVal := ops.foldl (fun l p => l.set p.1 p.2) xs

theorem setMany_length : ∀ (ops : List (Nat × PyVal)) (xs : List PyVal), (setMany ops xs).length = xs.length
  | [], _ => rfl
  | op :: ops, xs => by
    show (setMany ops (xs.set op.1 op.2)).length = xs.length
    rw [setMany_length ops, List.length_set]

theorem setMany_spec : ∀ (ops : List (Nat × PyVal)) (xs : List PyVal), (ops.map (·.1)).Nodup → ∀ j,
    (∀ v, (j, v) ∈ ops → j < xs.length → (setMany ops xs)[j]? = some v) ∧
    (j ∉ ops.map (·.1) → (setMany ops xs)[j]? = xs[j]?)
  | [], xs, _, j => ⟨by intro v hv; simp at hv, fun _ => rfl⟩
  | op :: ops, xs, hnd, j => by
    rw [List.map_cons, List.nodup_cons] at hnd
    obtain ⟨ih1, ih2⟩ := setMany_spec ops (xs.set op.1 op.2) hnd.2 j
    constructor
    · intro v hv hj
      rcases List.mem_cons.1 hv with h | h
      · have h1 : op.1 = j := by rw [← h]
        have h2 : op.2 = v := by rw [← h]
        have hnot : j ∉ ops.map (·.1) := by rw [← h1]; exact hnd.1
        show (setMany ops (xs.set op.1 op.2))[j]? = some v
        rw [ih2 hnot, h1, h2]
        simp [hj]
      · show (setMany ops (xs.set op.1 op.2))[j]? = some v
        exact ih1 v h (by rw [List.length_set]; exact hj)
    · intro hnot
      have h1 : op.1 ≠ j := fun e => hnot (by rw [← e]; exact List.mem_cons_self ..)
      have h2 : j ∉ ops.map (·.1) := fun h => hnot (List.mem_cons_of_mem _ h)
      show (setMany ops (xs.set op.1 op.2))[j]? = xs[j]?
      rw [ih2 h2, List.getElem?_set_ne h1]

/-- one item of a change phase on a root list -/
structure ChItemL where
  c : Change
  i : Nat
  cur : PyVal
  res : PyVal

theorem fold_changes_list (bidir isType : Bool) : ∀ (items : List ChItemL) (st : AState) (xs : List PyVal),
    st.root = .list xs →
    (∀ it ∈ items, it.c.path = [.int it.i] ∧ resolve isType it.c it.cur = some it.res ∧ xs[it.i]? = some it.cur ∧ Verified bidir it.c it.cur) →
    (items.map (·.i)).Nodup →
    (items.map (·.c)).foldl (applyChange bidir isType true) st =
      { st with root := .list (setMany (items.map (fun it => (it.i, it.res))) xs) }
  | [], st, xs, hr, _, _ => by simp [setMany, ← hr]
  | it :: items, st, xs, hr, hi, hnd => by
    obtain ⟨hp, hv, hg, hver⟩ := hi it (List.mem_cons_self ..)
    rw [List.map_cons, List.nodup_cons] at hnd
    rw [List.map_cons, List.foldl_cons, applyChange_list bidir isType st xs it.i it.cur it.res it.c hr hg hp hv hver]
    rw [fold_changes_list bidir isType items _ (xs.set it.i it.res) rfl ?_ hnd.2]
    · simp [setMany]
    · intro j hj
      obtain ⟨hp', hv', hg', hver'⟩ := hi j (List.mem_cons_of_mem _ hj)
      refine ⟨hp', hv', ?_, hver'⟩
      have hne : it.i ≠ j.i := fun e => hnd.1 (e ▸ List.mem_map.2 ⟨j, hj, rfl⟩)
      rw [List.getElem?_set_ne hne]
      exact hg'

/-- the `iterable_item_removed` entries for a tail of items starting at index `n` -/
def remsFrom : Nat → List PyVal → List (DPath × PyVal)
  | _, [] => []
  | n, x :: t => ([.int n], x) :: remsFrom (n + 1) t

/-- the `iterable_item_added` entries for a tail of items starting at index `n` -/
def addsFrom : Nat → List PyVal → List (DPath × PyVal)
  | _, [] => []
  | n, y :: t => ([.int n], y) :: addsFrom (n + 1) t

/-- removing a tail, last index first -/
theorem fold_removed_tail (bidir : Bool) : ∀ (tail pre : List PyVal) (st : AState), st.root = .list (pre ++ tail) →
    (∀ x ∈ tail, pyEq x x = true) →
    (remsFrom pre.length tail).reverse.foldl (applyRemoved bidir) st = { st with root := .list pre }
  | [], pre, st, hr, _ => by
    rw [List.append_nil] at hr
    simp [remsFrom, ← hr]
  | x :: t, pre, st, hr, hx => by
    have hr' : st.root = .list ((pre ++ [x]) ++ t) := by rw [hr]; simp
    have ih := fold_removed_tail bidir t (pre ++ [x]) st hr' (fun y hy => hx y (List.mem_cons_of_mem _ hy))
    rw [List.length_append, List.length_singleton] at ih
    simp only [remsFrom, List.reverse_cons, List.foldl_append, List.foldl_cons, List.foldl_nil, ih]
    have hxx := hx x (List.mem_cons_self ..)
    rw [applyRemoved_list_last bidir _ pre x x rfl hxx (fun _ => hxx)]

/-- appending a tail, first index first -/
theorem fold_added_tail : ∀ (tail pre : List PyVal) (st : AState), st.root = .list pre → st.raised = none →
    (addsFrom pre.length tail).foldl (fun s e => if s.raised.isSome then s else applyAdded true s e) st = { st with root := .list (pre ++ tail) }
  | [], pre, st, hr, _ => by simp [addsFrom, ← hr]
  | y :: t, pre, st, hr, hs => by
    simp only [addsFrom, List.foldl_cons, hs, Option.isSome_none, Bool.false_eq_true, if_false]
    rw [applyAdded_list_end st pre y hr hs]
    have := fold_added_tail t (pre ++ [y]) { st with root := .list (pre ++ [y]) } rfl hs
    rw [List.length_append, List.length_singleton] at this
    rw [this]
    simp only [List.append_assoc, List.singleton_append, hs]


theorem compare_cast (i j : Nat) : compare ((i : Int) * 10 ^ 0) ((j : Int) * 10 ^ 0) = compare i j := by
  rw [Int.pow_zero, Int.mul_one, Int.mul_one]
  rcases Nat.lt_trichotomy i j with h | h | h
  · rw [Nat.compare_eq_lt.2 h, Int.compare_eq_lt]; omega
  · subst h; simp
  · rw [Nat.compare_eq_gt.2 h, Int.compare_eq_gt]; omega

theorem cmpPath_int (i j : Nat) : cmpPath [.int i] [.int j] = some (compare i j) := by
  simp only [cmpPath, cmpElem, keyEq, numOf, pow10, compare_cast]
  by_cases h : i = j
  · subst h; simp
  · have hne : numEq (PyVal.int ↑i) (PyVal.int ↑j) = false := by
      simp [numEq, numOf, pow10]; omega
    rw [hne]
    simp only [Bool.false_eq_true, if_false]
    rcases Nat.lt_or_gt_of_ne h with h' | h'
    · rw [Nat.compare_eq_lt.2 h']
    · rw [Nat.compare_eq_gt.2 h']


/-- the index of an entry whose path is one list index -/
def idxOf {α} (e : DPath × α) : Nat :=
  match e.1 with
  | [.int i] => i.toNat
  | _ => 0

theorem mergeSort_congr {α} {r s : α → α → Bool} (l : List α) (h : ∀ a ∈ l, ∀ b ∈ l, r a b = s a b) :
    l.mergeSort r = l.mergeSort s := by
  have := List.map_mergeSort (f := id) (l := l) (r := r) (s := s) h
  simpa using this

theorem sortPaths_int {α} (xs : List (DPath × α)) (desc : Bool) (h : ∀ e ∈ xs, ∃ i : Nat, e.1 = [.int i]) :
    sortPaths xs desc = some (xs.mergeSort (fun a b => if desc then decide (idxOf b ≤ idxOf a) else decide (idxOf a ≤ idxOf b))) := by
  have hall : (xs.zipIdx).all (fun a => (xs.zipIdx).all (fun b => a.2 == b.2 || (cmpPath a.1.1 b.1.1).isSome)) = true := by
    rw [List.all_eq_true]
    intro a ha
    rw [List.all_eq_true]
    intro b hb
    have ha' : a.1 ∈ xs := by
      obtain ⟨_, h2⟩ := List.mem_zipIdx' ha
      rw [h2]; exact List.getElem_mem _
    have hb' : b.1 ∈ xs := by
      obtain ⟨_, h2⟩ := List.mem_zipIdx' hb
      rw [h2]; exact List.getElem_mem _
    obtain ⟨i, hi⟩ := h a.1 ha'
    obtain ⟨j, hj⟩ := h b.1 hb'
    rw [hi, hj, cmpPath_int]
    simp
  unfold sortPaths
  simp only [hall, if_true]
  congr 1
  apply mergeSort_congr
  intro a ha b hb
  obtain ⟨i, hi⟩ := h a ha
  obtain ⟨j, hj⟩ := h b hb
  have ia : idxOf a = i := by simp [idxOf, hi]
  have ib : idxOf b = j := by simp [idxOf, hj]
  simp only [hi, hj, cmpPath_int, ia, ib]
  rcases Nat.lt_trichotomy i j with hlt | heq | hgt
  · rw [Nat.compare_eq_lt.2 hlt]
    cases desc <;> simp <;> omega
  · subst heq
    simp
  · rw [Nat.compare_eq_gt.2 hgt]
    cases desc <;> simp <;> omega


theorem idxOf_int {α} (i : Nat) (v : α) : idxOf (([.int i] : DPath), v) = i := by simp [idxOf]

theorem remsFrom_idx : ∀ (t : List PyVal) (n : Nat) (e : DPath × PyVal), e ∈ remsFrom n t → (∃ i : Nat, e.1 = [.int i]) ∧ n ≤ idxOf e
  | [], _, e, h => by simp [remsFrom] at h
  | x :: t, n, e, h => by
    simp only [remsFrom, List.mem_cons] at h
    rcases h with rfl | h
    · exact ⟨⟨n, rfl⟩, by rw [idxOf_int]; exact Nat.le_refl _⟩
    · obtain ⟨h1, h2⟩ := remsFrom_idx t (n + 1) e h
      exact ⟨h1, by omega⟩

theorem remsFrom_inj : ∀ (t : List PyVal) (n : Nat) (a b : DPath × PyVal), a ∈ remsFrom n t → b ∈ remsFrom n t → idxOf a = idxOf b → a = b
  | [], _, a, _, h, _, _ => by simp [remsFrom] at h
  | x :: t, n, a, b, ha, hb, he => by
    simp only [remsFrom, List.mem_cons] at ha hb
    rcases ha with rfl | ha <;> rcases hb with rfl | hb
    · rfl
    · have := (remsFrom_idx t (n + 1) b hb).2
      rw [idxOf_int] at he; omega
    · have := (remsFrom_idx t (n + 1) a ha).2
      rw [idxOf_int] at he; omega
    · exact remsFrom_inj t (n + 1) a b ha hb he

theorem remsFrom_pairwise : ∀ (t : List PyVal) (n : Nat), (remsFrom n t).Pairwise (fun a b => decide (idxOf a ≤ idxOf b) = true)
  | [], _ => by simp [remsFrom]
  | x :: t, n => by
    simp only [remsFrom, List.pairwise_cons]
    refine ⟨?_, remsFrom_pairwise t (n + 1)⟩
    intro b hb
    have := (remsFrom_idx t (n + 1) b hb).2
    rw [idxOf_int]
    simp; omega

/-- removals are applied from the largest index down -/
theorem sort_rems (t : List PyVal) (n : Nat) : sortPaths (remsFrom n t) true = some (remsFrom n t).reverse := by
  rw [sortPaths_int _ true (fun e he => (remsFrom_idx t n e he).1)]
  congr 1
  simp only [if_true]
  apply List.Perm.eq_of_pairwise (le := fun a b => decide (idxOf b ≤ idxOf a) = true)
  · intro a b ha hb h1 h2
    have ha' : a ∈ remsFrom n t := List.mem_mergeSort.1 ha
    have hb' : b ∈ remsFrom n t := List.mem_reverse.1 hb
    apply remsFrom_inj t n a b ha' hb'
    simp at h1 h2; omega
  · apply List.pairwise_mergeSort
    · intro a b c h1 h2; simp at h1 h2 ⊢; omega
    · intro a b; simp; omega
  · rw [List.pairwise_reverse]
    exact remsFrom_pairwise t n
  · exact (List.mergeSort_perm _ _).trans (List.reverse_perm _).symm

theorem addsFrom_idx : ∀ (t : List PyVal) (n : Nat) (e : DPath × PyVal), e ∈ addsFrom n t → (∃ i : Nat, e.1 = [.int i]) ∧ n ≤ idxOf e
  | [], _, e, h => by simp [addsFrom] at h
  | x :: t, n, e, h => by
    simp only [addsFrom, List.mem_cons] at h
    rcases h with rfl | h
    · exact ⟨⟨n, rfl⟩, by rw [idxOf_int]; exact Nat.le_refl _⟩
    · obtain ⟨h1, h2⟩ := addsFrom_idx t (n + 1) e h
      exact ⟨h1, by omega⟩

theorem addsFrom_pairwise : ∀ (t : List PyVal) (n : Nat), (addsFrom n t).Pairwise (fun a b => decide (idxOf a ≤ idxOf b) = true)
  | [], _ => by simp [addsFrom]
  | x :: t, n => by
    simp only [addsFrom, List.pairwise_cons]
    refine ⟨?_, addsFrom_pairwise t (n + 1)⟩
    intro b hb
    have := (addsFrom_idx t (n + 1) b hb).2
    rw [idxOf_int]
    simp; omega

/-- additions are applied from the smallest index up -/
theorem sort_adds (t : List PyVal) (n : Nat) : sortPaths (addsFrom n t) false = some (addsFrom n t) := by
  rw [sortPaths_int _ false (fun e he => (addsFrom_idx t n e he).1)]
  congr 1
  simp only [Bool.false_eq_true, if_false]
  exact List.mergeSort_of_pairwise (addsFrom_pairwise t n)

/-- the diff of two scalars at list index `i` -/
def childTreeI (i : Nat) (a b : PyVal) : Tree :=
  if typeName a != typeName b then [(.typeChanges, { steps := [⟨.iter, some (.int i), some (.int i)⟩], t1 := some a, t2 := some b })]
  else leafDiff [⟨.iter, some (.int i), some (.int i)⟩] a b

/-- the tree of the position-by-position diff of two lists of scalars, from index `i` on -/
def listT : Nat → List PyVal → List PyVal → Tree
  | _, [], [] => []
  | i, x :: xs, [] => (.iterRemoved, removedLevel [] .iter (.int i) x) :: listT (i + 1) xs []
  | i, [], y :: ys => (.iterAdded, addedLevel [] .iter (.int i) y) :: listT (i + 1) [] ys
  | i, x :: xs, y :: ys => childTreeI i x y ++ listT (i + 1) xs ys

theorem childTreeI_cases (i : Nat) (a b : PyVal) :
    (typeName a ≠ typeName b ∧ childTreeI i a b = [(.typeChanges, { steps := [⟨.iter, some (.int i), some (.int i)⟩], t1 := some a, t2 := some b })]) ∨
    (typeName a = typeName b ∧ childTreeI i a b = []  ∧ leafDiff [⟨.iter, some (.int i), some (.int i)⟩] a b = []) ∨
    (typeName a = typeName b ∧ ∃ ud, childTreeI i a b = [(.valuesChanged, { steps := [⟨.iter, some (.int i), some (.int i)⟩], t1 := some a, t2 := some b, udiff := ud })]) := by
  unfold childTreeI
  by_cases ht : typeName a = typeName b
  · have : (typeName a != typeName b) = false := by simpa using ht
    simp only [this, Bool.false_eq_true, if_false]
    rcases leafDiff_shape' [⟨.iter, some (.int i), some (.int i)⟩] a b with h | ⟨ud, h⟩
    · exact Or.inr (Or.inl ⟨ht, h, h⟩)
    · exact Or.inr (Or.inr ⟨ht, ud, h⟩)
  · have : (typeName a != typeName b) = true := by simpa using ht
    simp only [this, if_true]
    exact Or.inl ⟨ht, trivial⟩

theorem int_beq_self (i : Nat) : ((PyVal.int i) == (PyVal.int i)) = true := by
  show strictEq (PyVal.int i) (PyVal.int i) = true
  simp [strictEq]

theorem catMap_childI (directed always : Bool) (i : Nat) (a b : PyVal) :
    catMap .iterAdded plainF (childTreeI i a b) = [] ∧ catMap .iterRemoved plainF (childTreeI i a b) = [] ∧
    ((typeName a ≠ typeName b ∧ catMap .typeChanges (tcF directed always) (childTreeI i a b) = [tcChange directed always (.int i) a b] ∧
        catMap .valuesChanged (vcF directed) (childTreeI i a b) = []) ∨
     (typeName a = typeName b ∧ leafDiff [⟨.iter, some (.int i), some (.int i)⟩] a b = [] ∧ catMap .typeChanges (tcF directed always) (childTreeI i a b) = [] ∧
        catMap .valuesChanged (vcF directed) (childTreeI i a b) = []) ∨
     (typeName a = typeName b ∧ catMap .typeChanges (tcF directed always) (childTreeI i a b) = [] ∧
        catMap .valuesChanged (vcF directed) (childTreeI i a b) = [vcChange directed (.int i) a b])) := by
  have hk := int_beq_self i
  rcases childTreeI_cases i a b with ⟨ht, h⟩ | ⟨ht, h, hl⟩ | ⟨ht, ud, h⟩
  · rw [h]
    refine ⟨by simp [catMap], by simp [catMap], Or.inl ⟨ht, ?_, by simp [catMap]⟩⟩
    cases directed <;> simp [catMap, tcF, tcChange, sidePath, Step.param, hk] <;> first | rfl | exact ⟨rfl, rfl⟩
  · rw [h]
    exact ⟨rfl, rfl, Or.inr (Or.inl ⟨ht, hl, rfl, rfl⟩)⟩
  · rw [h]
    refine ⟨by simp [catMap], by simp [catMap], Or.inr (Or.inr ⟨ht, by simp [catMap], ?_⟩)⟩
    cases directed <;> simp [catMap, vcF, vcChange, sidePath, Step.param, hk]

/-- the entries of a change category that come from index `i` -/
def VCi (directed : Bool) (i : Nat) (a b : PyVal) : List Change := catMap .valuesChanged (vcF directed) (childTreeI i a b)
def TCi (directed always : Bool) (i : Nat) (a b : PyVal) : List Change := catMap .typeChanges (tcF directed always) (childTreeI i a b)

theorem catMap_cons {β} (c : Cat) (F : Cat × Level → Option β) (e : Cat × Level) (t : Tree) :
    catMap c F (e :: t) = catMap c F [e] ++ catMap c F t := by
  rw [← catMap_append]; rfl

/-- the change entries of the payload: one block per shared index -/
theorem listT_changes {β : Type} (c : Cat) (F : Cat × Level → Option β) (hc1 : c ≠ .iterAdded) (hc2 : c ≠ .iterRemoved) :
    ∀ (xs ys : List PyVal) (i : Nat),
      catMap c F (listT i xs ys) = ((List.zip xs ys).zipIdx i).flatMap (fun p => catMap c F (childTreeI p.2 p.1.1 p.1.2))
  | [], [], _ => by simp [listT, catMap]
  | x :: xs, [], i => by
    have ih := listT_changes c F hc1 hc2 xs [] (i + 1)
    rw [listT, catMap_cons, ih]
    have : catMap c F [(Cat.iterRemoved, removedLevel [] .iter (.int i) x)] = [] :=
      catMap_other c .iterRemoved F _ (by intro e he; simp at he; rw [he]) (Ne.symm hc2)
    rw [this]; simp
  | [], y :: ys, i => by
    have ih := listT_changes c F hc1 hc2 [] ys (i + 1)
    rw [listT, catMap_cons, ih]
    have : catMap c F [(Cat.iterAdded, addedLevel [] .iter (.int i) y)] = [] :=
      catMap_other c .iterAdded F _ (by intro e he; simp at he; rw [he]) (Ne.symm hc1)
    rw [this]; simp
  | x :: xs, y :: ys, i => by
    have ih := listT_changes c F hc1 hc2 xs ys (i + 1)
    rw [listT, catMap_append, ih]
    simp [List.zipIdx_cons]

/-- the removed items of the payload: the tail of the first list beyond the second -/
theorem listT_removed : ∀ (xs ys : List PyVal) (i : Nat),
    catMap .iterRemoved plainF (listT i xs ys) = remsFrom (i + min xs.length ys.length) (xs.drop (min xs.length ys.length))
  | [], [], _ => by simp [listT, catMap, remsFrom]
  | x :: xs, [], i => by
    have ih := listT_removed xs [] (i + 1)
    rw [listT, catMap_cons, ih]
    simp [catMap, plainF, removedLevel, sidePath, Step.param, itemOf, remsFrom]
  | [], y :: ys, i => by
    have ih := listT_removed [] ys (i + 1)
    rw [listT, catMap_cons, ih]
    simp [catMap, remsFrom]
  | x :: xs, y :: ys, i => by
    have ih := listT_removed xs ys (i + 1)
    rw [listT, catMap_append, ih, (catMap_childI false false i x y).2.1]
    simp only [List.nil_append, List.length_cons, Nat.add_min_add_right, List.drop_succ_cons]
    congr 1
    omega

/-- the added items of the payload: the tail of the second list beyond the first -/
theorem listT_added : ∀ (xs ys : List PyVal) (i : Nat),
    catMap .iterAdded plainF (listT i xs ys) = addsFrom (i + min xs.length ys.length) (ys.drop (min xs.length ys.length))
  | [], [], _ => by simp [listT, catMap, addsFrom]
  | x :: xs, [], i => by
    have ih := listT_added xs [] (i + 1)
    rw [listT, catMap_cons, ih]
    simp [catMap, addsFrom]
  | [], y :: ys, i => by
    have ih := listT_added [] ys (i + 1)
    rw [listT, catMap_cons, ih]
    simp [catMap, plainF, addedLevel, sidePath, Step.param, itemOf, addsFrom]
  | x :: xs, y :: ys, i => by
    have ih := listT_added xs ys (i + 1)
    rw [listT, catMap_append, ih, (catMap_childI false false i x y).1]
    simp only [List.nil_append, List.length_cons, Nat.add_min_add_right, List.drop_succ_cons]
    congr 1
    omega

theorem phase_ir (bidir : Bool) (d : DeltaD) (st : AState) (h : st.raised = none) (ys : List (DPath × PyVal))
    (hs : sortPaths d.iterRemoved true = some ys) :
    phase bidir d "_do_iterable_item_removed" st = ys.foldl (applyRemoved bidir) st := by
  simp [phase, h, hs]

theorem phase_ia (bidir : Bool) (d : DeltaD) (st : AState) (h : st.raised = none) (ys : List (DPath × PyVal))
    (hs : sortPaths d.iterAdded false = some ys) :
    phase bidir d "_do_iterable_item_added" st = ys.foldl (fun s e => if s.raised.isSome then s else applyAdded true s e) st := by
  simp [phase, h, hs]

theorem phase_empty_lists' (bidir : Bool) (d : DeltaD) (st : AState) (h : st.raised = none) (hp : st.post = [])
    (he : d.setAdded = [] ∧ d.setRemoved = [] ∧ d.opcodes = [] ∧ d.dictAdded = [] ∧ d.dictRemoved = []) (name : String)
    (hn : name = "_do_set_item_added" ∨ name = "_do_set_item_removed" ∨ name = "_do_iterable_opcodes" ∨ name = "_do_dictionary_item_added" ∨
          name = "_do_dictionary_item_removed" ∨ name = "_do_post_process") :
    phase bidir d name st = st := by
  obtain ⟨h1, h2, h3, h4, h5⟩ := he
  rcases hn with rfl | rfl | rfl | rfl | rfl | rfl <;> simp [phase, h, h1, h2, h3, h4, h5, sortPaths_nil, postProcess, hp]

theorem pyEqL_of_getElem : ∀ (a b : List PyVal), a.length = b.length →
    (∀ k, k < a.length → pyEq (a[k]?.getD .none) (b[k]?.getD .none) = true) → pyEqL a b = true
  | [], [], _, _ => by simp [pyEqL]
  | [], _ :: _, h, _ => by simp at h
  | _ :: _, [], h, _ => by simp at h
  | x :: a, y :: b, hl, h => by
    simp only [pyEqL, Bool.and_eq_true]
    refine ⟨by simpa using h 0 (by simp), pyEqL_of_getElem a b (by simpa using hl) ?_⟩
    intro k hk
    have := h (k + 1) (by simp; omega)
    simpa using this

set_option maxHeartbeats 1000000 in
/-- **A pairwise payload applied to a list of scalars**, in either direction mode. -/
theorem list_apply_gen (bidir : Bool) (d : DeltaD) (xs ys : List PyVal)
    (hbx : ∀ x ∈ xs, isBasic x = true) (hby : ∀ y ∈ ys, isBasic y = true)
    (pV pT : Nat → Bool) (vc tc : Nat → Change)
    (hVC : d.valuesChanged = ((List.range (min xs.length ys.length)).filter pV).map vc)
    (hTC : d.typeChanges = ((List.range (min xs.length ys.length)).filter pT).map tc)
    (hIR : d.iterRemoved = remsFrom (min xs.length ys.length) (xs.drop (min xs.length ys.length)))
    (hIA : d.iterAdded = addsFrom (min xs.length ys.length) (ys.drop (min xs.length ys.length)))
    (he : d.setAdded = [] ∧ d.setRemoved = [] ∧ d.opcodes = [] ∧ d.dictAdded = [] ∧ d.dictRemoved = [])
    (hvc : ∀ k, k < min xs.length ys.length → pV k = true → pT k = false ∧ (vc k).path = [.int k] ∧
        resolve false (vc k) (xs[k]?.getD .none) = some (ys[k]?.getD .none) ∧ Verified bidir (vc k) (xs[k]?.getD .none))
    (htc : ∀ k, k < min xs.length ys.length → pT k = true → (tc k).path = [.int k] ∧
        (∃ res, resolve true (tc k) (xs[k]?.getD .none) = some res ∧ (res = ys[k]?.getD .none ∨ pyEq res (ys[k]?.getD .none) = true)) ∧
        Verified bidir (tc k) (xs[k]?.getD .none))
    (hsame : ∀ k, k < min xs.length ys.length → pV k = false → pT k = false → pyEq (xs[k]?.getD .none) (ys[k]?.getD .none) = true) :
    ∃ r, applyDelta bidir d (.list xs) = { root := .list r } ∧ pyEqL r ys = true := by
  generalize hn : min xs.length ys.length = n at *
  have hnx : n ≤ xs.length := by omega
  have hny : n ≤ ys.length := by omega
  let A : Nat → PyVal := fun k => xs[k]?.getD .none
  let B : Nat → PyVal := fun k => ys[k]?.getD .none
  have hAget : ∀ k, k < n → xs[k]? = some (A k) := by
    intro k hk
    have : k < xs.length := by omega
    simp [A, List.getElem?_eq_getElem this]
  let resT : Nat → PyVal := fun k => (resolve true (tc k) (A k)).getD (B k)
  have hresT : ∀ k, k < n → pT k = true → resolve true (tc k) (A k) = some (resT k) ∧ (resT k = B k ∨ pyEq (resT k) (B k) = true) := by
    intro k hk hp
    obtain ⟨_, ⟨res, h1, h2⟩, _⟩ := htc k hk hp
    have : resT k = res := by
      show (resolve true (tc k) (xs[k]?.getD .none)).getD (ys[k]?.getD .none) = res
      rw [h1]; rfl
    rw [this]; exact ⟨h1, h2⟩
  let IV := (List.range n).filter pV
  let IT := (List.range n).filter pT
  let vcI : List ChItemL := IV.map (fun k => ⟨vc k, k, A k, B k⟩)
  let tcI : List ChItemL := IT.map (fun k => ⟨tc k, k, A k, resT k⟩)
  have kvcI : vcI.map (·.i) = IV := by simp [vcI, List.map_map, Function.comp_def]
  have ktcI : tcI.map (·.i) = IT := by simp [tcI, List.map_map, Function.comp_def]
  have hIVn : IV.Nodup := (List.nodup_range).sublist List.filter_sublist
  have hITn : IT.Nodup := (List.nodup_range).sublist List.filter_sublist
  have hIVm : ∀ k, k ∈ IV ↔ k < n ∧ pV k = true := by intro k; simp [IV]
  have hITm : ∀ k, k ∈ IT ↔ k < n ∧ pT k = true := by intro k; simp [IT]
  let opsV : List (Nat × PyVal) := vcI.map (fun it => (it.i, it.res))
  let opsT : List (Nat × PyVal) := tcI.map (fun it => (it.i, it.res))
  have kV : opsV.map (·.1) = IV := by simp [opsV, vcI, List.map_map, Function.comp_def]
  have kT : opsT.map (·.1) = IT := by simp [opsT, tcI, List.map_map, Function.comp_def]
  let L1 := setMany opsV xs
  let L2 := setMany opsT L1
  have hL1len : L1.length = xs.length := setMany_length _ _
  have hL2len : L2.length = xs.length := by rw [setMany_length, hL1len]
  have g1 := setMany_spec opsV xs (by rw [kV]; exact hIVn)
  have g2 := setMany_spec opsT L1 (by rw [kT]; exact hITn)
  -- beyond the shared indexes nothing is touched
  have hdrop : L2.drop n = xs.drop n := by
    apply List.ext_getElem?
    intro j
    rw [List.getElem?_drop, List.getElem?_drop]
    have n2 : n + j ∉ opsT.map (·.1) := by rw [kT, hITm]; omega
    have n1 : n + j ∉ opsV.map (·.1) := by rw [kV, hIVm]; omega
    rw [(g2 (n + j)).2 n2, (g1 (n + j)).2 n1]
  have hsplit : L2 = L2.take n ++ xs.drop n := by rw [← hdrop, List.take_append_drop]
  have htake : (L2.take n).length = n := by rw [List.length_take, hL2len]; omega
  -- evaluate the phases
  have hphase : applyDelta bidir d (.list xs) = { root := .list (L2.take n ++ ys.drop n) } := by
    unfold applyDelta
    simp only [Gen.deltaPhases, List.foldl_cons, List.foldl_nil]
    rw [phase_noop bidir d _ "_do_pre_process" (Or.inl rfl)]
    rw [phase_vc bidir d _ rfl, hVC]
    have e1 : IV.map vc = vcI.map (·.c) := by simp [vcI, List.map_map, Function.comp_def]
    rw [e1, fold_changes_list bidir false vcI _ xs rfl ?_ (by rw [kvcI]; exact hIVn)]
    · rw [phase_empty_lists' bidir d _ rfl rfl he "_do_set_item_added" (Or.inl rfl)]
      rw [phase_empty_lists' bidir d _ rfl rfl he "_do_set_item_removed" (Or.inr (Or.inl rfl))]
      rw [phase_tc bidir d _ rfl, hTC]
      have e2 : IT.map tc = tcI.map (·.c) := by simp [tcI, List.map_map, Function.comp_def]
      rw [e2, fold_changes_list bidir true tcI _ L1 rfl ?_ (by rw [ktcI]; exact hITn)]
      · rw [phase_empty_lists' bidir d _ rfl rfl he "_do_iterable_opcodes" (Or.inr (Or.inr (Or.inl rfl)))]
        rw [phase_ir bidir d _ rfl _ (by rw [hIR]; exact sort_rems _ _)]
        have hroot : ({ root := PyVal.list xs, post := [], errs := 0, raised := none } : AState) = { root := .list xs } := rfl
        have hfold := fold_removed_tail bidir (xs.drop n) (L2.take n) { root := .list L2 } (by
            show PyVal.list L2 = _
            rw [← hsplit]) (fun x hx => pyEq_refl_basic' x (hbx x (List.mem_of_mem_drop hx)))
        rw [htake] at hfold
        show phase bidir d "_do_post_process" (phase bidir d "_do_attribute_removed" (phase bidir d "_do_attribute_added"
          (phase bidir d "_do_dictionary_item_removed" (phase bidir d "_do_dictionary_item_added" (phase bidir d "_do_ignore_order"
          (phase bidir d "_do_iterable_item_added"
            ((remsFrom n (xs.drop n)).reverse.foldl (applyRemoved bidir) { root := .list L2 }))))))) = _
        rw [hfold]
        rw [phase_ia bidir d _ rfl _ (by rw [hIA]; exact sort_adds _ _)]
        have hfold2 := fold_added_tail (ys.drop n) (L2.take n) { root := .list (L2.take n) } rfl rfl
        rw [htake] at hfold2
        rw [hfold2]
        rw [phase_noop bidir d _ "_do_ignore_order" (Or.inr (Or.inl rfl))]
        rw [phase_empty_lists' bidir d _ rfl rfl he "_do_dictionary_item_added" (Or.inr (Or.inr (Or.inr (Or.inl rfl))))]
        rw [phase_empty_lists' bidir d _ rfl rfl he "_do_dictionary_item_removed" (Or.inr (Or.inr (Or.inr (Or.inr (Or.inl rfl)))))]
        rw [phase_noop bidir d _ "_do_attribute_added" (Or.inr (Or.inr (Or.inl rfl)))]
        rw [phase_noop bidir d _ "_do_attribute_removed" (Or.inr (Or.inr (Or.inr rfl)))]
        rw [phase_empty_lists' bidir d _ rfl rfl he "_do_post_process" (Or.inr (Or.inr (Or.inr (Or.inr (Or.inr rfl)))))]
      · -- the type changes read the original values
        intro it hit
        obtain ⟨k, hk, rfl⟩ := List.mem_map.1 hit
        obtain ⟨hkn, hpt⟩ := (hITm k).1 hk
        obtain ⟨h1, _, h3⟩ := htc k hkn hpt
        refine ⟨h1, (hresT k hkn hpt).1, ?_, h3⟩
        have n1 : k ∉ opsV.map (·.1) := by
          rw [kV, hIVm]
          rintro ⟨_, hpv⟩
          have := (hvc k hkn hpv).1
          rw [this] at hpt; cases hpt
        show L1[k]? = some (A k)
        rw [(g1 k).2 n1]
        exact hAget k hkn
    · intro it hit
      obtain ⟨k, hk, rfl⟩ := List.mem_map.1 hit
      obtain ⟨hkn, hpv⟩ := (hIVm k).1 hk
      obtain ⟨_, h1, h2, h3⟩ := hvc k hkn hpv
      exact ⟨h1, h2, hAget k hkn, h3⟩
  refine ⟨_, hphase, ?_⟩
  -- the final comparison, index by index
  have hlen : (L2.take n ++ ys.drop n).length = ys.length := by
    rw [List.length_append, htake, List.length_drop]; omega
  apply pyEqL_of_getElem _ _ hlen
  intro k hk
  rw [hlen] at hk
  by_cases hkn : k < n
  · have e1 : (L2.take n ++ ys.drop n)[k]? = L2[k]? := by
      rw [List.getElem?_append_left (by rw [htake]; exact hkn), List.getElem?_take_of_lt hkn]
    rw [e1]
    have hB : pyEq (B k) (B k) = true := by
      have : k < ys.length := by omega
      apply pyEq_refl_basic'
      apply hby
      simp only [B, List.getElem?_eq_getElem this, Option.getD_some]
      exact List.getElem_mem _
    cases cT : pT k with
    | true =>
      have hm : (k, resT k) ∈ opsT := by
        apply List.mem_map.2
        exact ⟨⟨tc k, k, A k, resT k⟩, List.mem_map.2 ⟨k, (hITm k).2 ⟨hkn, cT⟩, rfl⟩, rfl⟩
      rw [(g2 k).1 _ hm (by rw [hL1len]; omega)]
      simp only [Option.getD_some]
      rcases (hresT k hkn cT).2 with h | h
      · rw [h]; exact hB
      · exact h
    | false =>
      have n2 : k ∉ opsT.map (·.1) := by rw [kT, hITm]; rintro ⟨_, h⟩; rw [cT] at h; cases h
      rw [(g2 k).2 n2]
      cases cV : pV k with
      | true =>
        have hm : (k, B k) ∈ opsV := by
          apply List.mem_map.2
          exact ⟨⟨vc k, k, A k, B k⟩, List.mem_map.2 ⟨k, (hIVm k).2 ⟨hkn, cV⟩, rfl⟩, rfl⟩
        rw [(g1 k).1 _ hm (by omega)]
        exact hB
      | false =>
        have n1 : k ∉ opsV.map (·.1) := by rw [kV, hIVm]; rintro ⟨_, h⟩; rw [cV] at h; cases h
        rw [(g1 k).2 n1]
        exact hsame k hkn cV cT
  · have e1 : (L2.take n ++ ys.drop n)[k]? = ys[k]? := by
      rw [List.getElem?_append_right (by rw [htake]; omega), htake, List.getElem?_drop]
      congr 1; omega
    rw [e1]
    apply pyEq_refl_basic'
    apply hby
    simp only [List.getElem?_eq_getElem hk, Option.getD_some]
    exact List.getElem_mem _

theorem build_fields_list (directed always : Bool) (t1 t2 : PyVal) (T : Tree) :
    (buildDelta directed always t1 t2 ⟨T, []⟩).iterAdded = catMap .iterAdded plainF T ∧
    (buildDelta directed always t1 t2 ⟨T, []⟩).iterRemoved = catMap .iterRemoved plainF T := by
  have hm : ∀ o : Option DPath, (match o with | some _ => false | Option.none => false) = false := by
    intro o; cases o <;> rfl
  refine ⟨?_, ?_⟩ <;> simp only [buildDelta, catMap] <;> simp <;>
    (congr 1; funext e; simp only [plainF]; simp; intro h; cases hs : sidePath e.2.steps.dropLast false <;> rw [hs] at h <;> cases h)

theorem build_empty_list (directed always : Bool) (t1 t2 : PyVal) (T : Tree)
    (h : ∀ e ∈ T, e.1 = .typeChanges ∨ e.1 = .valuesChanged ∨ e.1 = .iterAdded ∨ e.1 = .iterRemoved) :
    (buildDelta directed always t1 t2 ⟨T, []⟩).setAdded = [] ∧ (buildDelta directed always t1 t2 ⟨T, []⟩).setRemoved = [] ∧
    (buildDelta directed always t1 t2 ⟨T, []⟩).opcodes = [] ∧ (buildDelta directed always t1 t2 ⟨T, []⟩).dictAdded = [] ∧
    (buildDelta directed always t1 t2 ⟨T, []⟩).dictRemoved = [] := by
  have hf : ∀ c : Cat, c ≠ .typeChanges → c ≠ .valuesChanged → c ≠ .iterAdded → c ≠ .iterRemoved → T.filter (fun e => e.1 == c) = [] := by
    intro c h1 h2 h3 h4
    rw [List.filter_eq_nil_iff]
    intro e he
    rcases h e he with h' | h' | h' | h' <;> rw [h'] <;> simp <;> first | exact h1.symm | exact h2.symm | exact h3.symm | exact h4.symm
  have f1 := hf .setAdded (by decide) (by decide) (by decide) (by decide)
  have f2 := hf .setRemoved (by decide) (by decide) (by decide) (by decide)
  have f3 := hf .dictAdded (by decide) (by decide) (by decide) (by decide)
  have f4 := hf .dictRemoved (by decide) (by decide) (by decide) (by decide)
  simp [buildDelta, f1, f2, f3, f4, groupSet]


theorem zip_zipIdx (xs ys : List PyVal) :
    (List.zip xs ys).zipIdx = (List.range (min xs.length ys.length)).map (fun k => ((xs[k]?.getD .none, ys[k]?.getD .none), k)) := by
  apply List.ext_getElem
  · simp
  · intro j h1 h2
    simp at h1
    have hx : j < xs.length := by omega
    have hy : j < ys.length := by omega
    simp [List.getElem_zipIdx, List.getElem_zip, List.getElem?_eq_getElem hx, List.getElem?_eq_getElem hy]

theorem listT_cats : ∀ (xs ys : List PyVal) (i : Nat), ∀ e ∈ listT i xs ys,
    e.1 = .typeChanges ∨ e.1 = .valuesChanged ∨ e.1 = .iterAdded ∨ e.1 = .iterRemoved
  | [], [], _, e, he => by simp [listT] at he
  | x :: xs, [], i, e, he => by
    simp only [listT, List.mem_cons] at he
    rcases he with rfl | he
    · exact Or.inr (Or.inr (Or.inr rfl))
    · exact listT_cats xs [] (i + 1) e he
  | [], y :: ys, i, e, he => by
    simp only [listT, List.mem_cons] at he
    rcases he with rfl | he
    · exact Or.inr (Or.inr (Or.inl rfl))
    · exact listT_cats [] ys (i + 1) e he
  | x :: xs, y :: ys, i, e, he => by
    simp only [listT, List.mem_append] at he
    rcases he with he | he
    · rcases childTreeI_cases i x y with ⟨_, h⟩ | ⟨_, h, _⟩ | ⟨_, ud, h⟩ <;> rw [h] at he <;> simp at he
      · rw [he]; exact Or.inl rfl
      · rw [he]; exact Or.inr (Or.inl rfl)
    · exact listT_cats xs ys (i + 1) e he

def pVi (directed : Bool) (xs ys : List PyVal) (k : Nat) : Bool := !(VCi directed k (xs[k]?.getD .none) (ys[k]?.getD .none)).isEmpty
def pTi (directed always : Bool) (xs ys : List PyVal) (k : Nat) : Bool := !(TCi directed always k (xs[k]?.getD .none) (ys[k]?.getD .none)).isEmpty

/-- every shared index is of exactly one kind -/
theorem list_cls (directed always : Bool) (k : Nat) (a b : PyVal) :
    (typeName a ≠ typeName b ∧ TCi directed always k a b = [tcChange directed always (.int k) a b] ∧ VCi directed k a b = []) ∨
    (TCi directed always k a b = [] ∧ VCi directed k a b = [] ∧ typeName a = typeName b ∧ leafDiff [⟨.iter, some (.int k), some (.int k)⟩] a b = []) ∨
    (typeName a = typeName b ∧ TCi directed always k a b = [] ∧ VCi directed k a b = [vcChange directed (.int k) a b]) := by
  obtain ⟨_, _, h⟩ := catMap_childI directed always k a b
  rcases h with ⟨ht, h1, h2⟩ | ⟨ht, hl, h1, h2⟩ | ⟨ht, h1, h2⟩
  · exact Or.inl ⟨ht, h1, h2⟩
  · exact Or.inr (Or.inl ⟨h1, h2, ht, hl⟩)
  · exact Or.inr (Or.inr ⟨ht, h1, h2⟩)

/-- **the payload of a pairwise diff tree, in closed form** -/
theorem list_payload (directed always : Bool) (t1 t2 : PyVal) (xs ys : List PyVal) :
    (buildDelta directed always t1 t2 ⟨listT 0 xs ys, []⟩).valuesChanged =
      ((List.range (min xs.length ys.length)).filter (pVi directed xs ys)).map
        (fun (k : Nat) => vcChange directed (.int k) (xs[k]?.getD .none) (ys[k]?.getD .none)) ∧
    (buildDelta directed always t1 t2 ⟨listT 0 xs ys, []⟩).typeChanges =
      ((List.range (min xs.length ys.length)).filter (pTi directed always xs ys)).map
        (fun (k : Nat) => tcChange directed always (.int k) (xs[k]?.getD .none) (ys[k]?.getD .none)) ∧
    (buildDelta directed always t1 t2 ⟨listT 0 xs ys, []⟩).iterRemoved =
      remsFrom (min xs.length ys.length) (xs.drop (min xs.length ys.length)) ∧
    (buildDelta directed always t1 t2 ⟨listT 0 xs ys, []⟩).iterAdded =
      addsFrom (min xs.length ys.length) (ys.drop (min xs.length ys.length)) := by
  obtain ⟨fV, fT, _, _⟩ := build_fields directed always t1 t2 (listT 0 xs ys)
  obtain ⟨fA, fR⟩ := build_fields_list directed always t1 t2 (listT 0 xs ys)
  refine ⟨?_, ?_, ?_, ?_⟩
  · rw [fV, listT_changes _ _ (by decide) (by decide), zip_zipIdx, List.flatMap_map]
    apply flatMap_opt
    intro k _
    rcases list_cls directed always k (xs[k]?.getD .none) (ys[k]?.getD .none) with ⟨_, _, h⟩ | ⟨_, h, _⟩ | ⟨_, _, h⟩
    · exact ⟨fun hp => by simp [pVi, VCi] at hp h; exact absurd h hp, fun _ => h⟩
    · exact ⟨fun hp => by simp [pVi, VCi] at hp h; exact absurd h hp, fun _ => h⟩
    · exact ⟨fun _ => h, fun hp => by simp [pVi, VCi] at hp h; rw [h] at hp; cases hp⟩
  · rw [fT, listT_changes _ _ (by decide) (by decide), zip_zipIdx, List.flatMap_map]
    apply flatMap_opt
    intro k _
    rcases list_cls directed always k (xs[k]?.getD .none) (ys[k]?.getD .none) with ⟨_, h, _⟩ | ⟨h, _⟩ | ⟨_, h, _⟩
    · exact ⟨fun _ => h, fun hp => by simp [pTi, TCi] at hp h; rw [h] at hp; cases hp⟩
    · exact ⟨fun hp => by simp [pTi, TCi] at hp h; exact absurd h hp, fun _ => h⟩
    · exact ⟨fun hp => by simp [pTi, TCi] at hp h; exact absurd h hp, fun _ => h⟩
  · rw [fR, listT_removed]; simp
  · rw [fA, listT_added]; simp

theorem listT_added_tail (ys : List PyVal) (j : Nat) : ∀ s,
    (ys.zipIdx s).map (fun p => (Cat.iterAdded, addedLevel [] .iter (.int ((j + p.2 : Nat) : Int)) p.1)) = listT (j + s) [] ys := by
  induction ys with
  | nil => intro s; simp [listT]
  | cons y ys ih =>
    intro s
    simp only [List.zipIdx_cons, List.map_cons, listT]
    rw [ih (s + 1)]
    rfl

/-- the position-by-position diff of two lists of scalars is the closed-form tree -/
theorem diffPairs_basic {cfg : DCfg} (hp : Diff.Plain cfg) (al : Align) (hashOf : PyVal → String) :
    ∀ (xs ys : List PyVal) (i : Nat), (∀ x ∈ xs, isBasic x = true) →
      diffPairs cfg al hashOf [] i xs ys = ⟨listT i xs ys, []⟩
  | [], [], _, _ => by simp [diffPairs, listT]
  | x :: xs, [], i, hb => by
    have ih := diffPairs_basic hp al hashOf xs [] (i + 1) (fun y hy => hb y (List.mem_cons_of_mem _ hy))
    simp only [diffPairs, ih, listT]
    rfl
  | [], y :: ys, i, _ => by
    simp only [diffPairs, listT]
    have := listT_added_tail ys (i + 1) 0
    simp only [Nat.add_zero] at this
    rw [← this]
    congr 2
  | x :: xs, y :: ys, i, hb => by
    have ih := diffPairs_basic hp al hashOf xs ys (i + 1) (fun y hy => hb y (List.mem_cons_of_mem _ hy))
    have hx := hb x (List.mem_cons_self ..)
    simp only [diffPairs, ih, listT, skipSteps_plain hp, Bool.false_eq_true, if_false, List.nil_append]
    have h1 := diffV_basic cfg al hashOf [⟨.iter, some (.int i), some (.int i)⟩] x y hx
    have h2 := diffV_basic_opcodes cfg al hashOf [⟨.iter, some (.int i), some (.int i)⟩] x y hx
    have : diffV cfg al hashOf [⟨.iter, some (.int i), some (.int i)⟩] x y = ⟨childTreeI i x y, []⟩ := by
      cases hd : diffV cfg al hashOf [⟨.iter, some (.int i), some (.int i)⟩] x y with
      | mk t o =>
        rw [hd] at h1 h2
        simp only at h1 h2
        rw [h1, h2]; rfl
    rw [this]
    rfl

theorem pairBasic_listT : ∀ (xs ys : List PyVal) (i : Nat), pairBasic [] i i xs ys = listT i xs ys
  | [], [], _ => by simp [pairBasic, listT]
  | x :: xs, [], i => by simp only [pairBasic, listT, pairBasic_listT xs [] (i + 1)]
  | [], y :: ys, i => by simp only [pairBasic, listT, pairBasic_listT [] ys (i + 1)]
  | x :: xs, y :: ys, i => by
    simp only [pairBasic, listT, pairBasic_listT xs ys (i + 1), bne_self_eq_false, Bool.false_and, Bool.false_eq_true, if_false, List.nil_append]
    rfl

theorem addsFrom_eq_remsFrom : ∀ (t : List PyVal) (n : Nat), addsFrom n t = remsFrom n t
  | [], _ => rfl
  | x :: t, n => by simp only [addsFrom, remsFrom, addsFrom_eq_remsFrom t (n + 1)]

/-- forwards: the payload of the pairwise tree applied to the first list, plain or bidirectional -/
theorem list_apply (bidir directed always : Bool) (hmode : bidir = true → directed = false ∧ always = true)
    (xs ys : List PyVal) (hbx : ∀ x ∈ xs, isBasic x = true) (hby : ∀ y ∈ ys, isBasic y = true) (t1 t2 : PyVal) :
    ∃ r, applyDelta bidir (buildDelta directed always t1 t2 ⟨listT 0 xs ys, []⟩) (.list xs) = { root := .list r } ∧ pyEqL r ys = true := by
  obtain ⟨hVC, hTC, hIR, hIA⟩ := list_payload directed always t1 t2 xs ys
  have he := build_empty_list directed always t1 t2 (listT 0 xs ys) (listT_cats xs ys 0)
  have hA : ∀ k, k < min xs.length ys.length → isBasic (xs[k]?.getD .none) = true := by
    intro k hk
    have : k < xs.length := by omega
    simp only [List.getElem?_eq_getElem this, Option.getD_some]
    exact hbx _ (List.getElem_mem _)
  refine list_apply_gen bidir _ xs ys hbx hby (pVi directed xs ys) (pTi directed always xs ys) _ _ hVC hTC hIR hIA he ?_ ?_ ?_
  · intro k hk hpv
    rcases list_cls directed always k (xs[k]?.getD .none) (ys[k]?.getD .none) with ⟨_, _, h⟩ | ⟨_, h, _⟩ | ⟨_, h1, _⟩
    · simp [pVi, h] at hpv
    · simp [pVi, h] at hpv
    · refine ⟨by simp [pTi, h1], rfl, by simp [resolve, vcChange], ?_⟩
      intro hb
      obtain ⟨rfl, _⟩ := hmode hb
      exact ⟨xs[k]?.getD .none, by simp [vcChange], pyEq_refl_basic' _ (hA k hk)⟩
  · intro k hk hpt
    refine ⟨rfl, resolve_tc directed always _ _ _, ?_⟩
    intro hb
    obtain ⟨rfl, rfl⟩ := hmode hb
    exact ⟨xs[k]?.getD .none, by simp [tcChange], pyEq_refl_basic' _ (hA k hk)⟩
  · intro k hk hpv hpt
    rcases list_cls directed always k (xs[k]?.getD .none) (ys[k]?.getD .none) with ⟨_, h, _⟩ | ⟨_, _, ht, hl⟩ | ⟨_, _, h⟩
    · simp [pTi, h] at hpt
    · exact leafDiff_nil _ _ _ (hA k hk) ht hl
    · simp [pVi, h] at hpv

/-- backwards: the reversed payload of a bidirectional delta applied to the second list gives the first -/
theorem list_apply_rev (xs ys : List PyVal) (hbx : ∀ x ∈ xs, isBasic x = true) (hby : ∀ y ∈ ys, isBasic y = true) (t1 t2 : PyVal) :
    ∃ r, applyDelta true (reverseDelta (buildDelta false true t1 t2 ⟨listT 0 xs ys, []⟩)) (.list ys) = { root := .list r } ∧
      pyEqL r xs = true := by
  obtain ⟨hVC, hTC, hIR, hIA⟩ := list_payload false true t1 t2 xs ys
  obtain ⟨e1, e2, e3, e4, e5⟩ := build_empty_list false true t1 t2 (listT 0 xs ys) (listT_cats xs ys 0)
  have hmin : min ys.length xs.length = min xs.length ys.length := Nat.min_comm _ _
  have hA : ∀ k, k < min xs.length ys.length → isBasic (xs[k]?.getD .none) = true := by
    intro k hk
    have : k < xs.length := by omega
    simp only [List.getElem?_eq_getElem this, Option.getD_some]
    exact hbx _ (List.getElem_mem _)
  have hB : ∀ k, k < min xs.length ys.length → isBasic (ys[k]?.getD .none) = true := by
    intro k hk
    have : k < ys.length := by omega
    simp only [List.getElem?_eq_getElem this, Option.getD_some]
    exact hby _ (List.getElem_mem _)
  refine list_apply_gen true _ ys xs hby hbx (pVi false xs ys) (pTi false true xs ys)
    (fun (k : Nat) => vcChange false (.int k) (ys[k]?.getD .none) (xs[k]?.getD .none))
    (fun (k : Nat) => tcChange false true (.int k) (ys[k]?.getD .none) (xs[k]?.getD .none))
    ?_ ?_ ?_ ?_ ?_ ?_ ?_ ?_
  · rw [hmin]
    simp only [reverseDelta, hVC, List.map_map]
    apply List.map_congr_left
    intro k _
    simp [vcChange]
  · rw [hmin]
    simp only [reverseDelta, hTC, List.map_map]
    apply List.map_congr_left
    intro k _
    simp [tcChange]
  · rw [hmin]; simp only [reverseDelta, hIA, addsFrom_eq_remsFrom]
  · rw [hmin]; simp only [reverseDelta, hIR, addsFrom_eq_remsFrom]
  · simp [reverseDelta, e1, e2, e3, e4, e5]
  · intro k hk hpv
    rw [hmin] at hk
    rcases list_cls false true k (xs[k]?.getD .none) (ys[k]?.getD .none) with ⟨_, _, h⟩ | ⟨_, h, _⟩ | ⟨_, h1, _⟩
    · simp [pVi, h] at hpv
    · simp [pVi, h] at hpv
    · exact ⟨by simp [pTi, h1], rfl, by simp [resolve, vcChange], fun _ => ⟨ys[k]?.getD .none, by simp [vcChange], pyEq_refl_basic' _ (hB k hk)⟩⟩
  · intro k hk hpt
    rw [hmin] at hk
    exact ⟨rfl, resolve_tc false true _ _ _, fun _ => ⟨ys[k]?.getD .none, by simp [tcChange], pyEq_refl_basic' _ (hB k hk)⟩⟩
  · intro k hk hpv hpt
    rw [hmin] at hk
    rcases list_cls false true k (xs[k]?.getD .none) (ys[k]?.getD .none) with ⟨_, h, _⟩ | ⟨_, _, ht, hl⟩ | ⟨_, _, h⟩
    · simp [pTi, h] at hpt
    · exact pyEq_symm_basic _ _ (hA k hk) ht (leafDiff_nil _ _ _ (hA k hk) ht hl)
    · simp [pVi, h] at hpv

/-- with items added only, or removed only, there is nothing to merge -/
theorem mutualAddRemoves_one_sided (t : Tree)
    (h : (∀ e ∈ t, e.1 ≠ Cat.iterAdded) ∨ (∀ e ∈ t, e.1 ≠ Cat.iterRemoved)) : mutualAddRemoves t = t := by
  rcases h with h | h
  · have ha : t.filter (fun e => e.1 == Cat.iterAdded) = [] := by
      rw [List.filter_eq_nil_iff]; intro e he; simpa using h e he
    unfold mutualAddRemoves
    simp only [ha, List.any_nil, Bool.and_false, Bool.false_and, Bool.not_false, Bool.false_eq_true, if_false]
    rw [List.filter_eq_self.2 (by intro e _; rfl)]
    simp
  · have hr : t.filter (fun e => e.1 == Cat.iterRemoved) = [] := by
      rw [List.filter_eq_nil_iff]; intro e he; simpa using h e he
    unfold mutualAddRemoves
    simp only [hr, List.any_nil, Bool.and_false, Bool.not_false, List.filterMap_nil, List.append_nil]
    rw [List.filter_eq_self.2 (by intro e _; rfl)]

theorem childTreeI_cat (i : Nat) (a b : PyVal) : ∀ e ∈ childTreeI i a b, e.1 ≠ Cat.iterAdded ∧ e.1 ≠ Cat.iterRemoved := by
  intro e he
  rcases childTreeI_cases i a b with ⟨_, h⟩ | ⟨_, h, _⟩ | ⟨_, ud, h⟩ <;> rw [h] at he <;> simp at he <;> rw [he] <;> exact ⟨by simp, by simp⟩

theorem listT_no_added : ∀ (xs ys : List PyVal) (i : Nat), ys.length ≤ xs.length → ∀ e ∈ listT i xs ys, e.1 ≠ Cat.iterAdded
  | [], [], _, _, e, he => by simp [listT] at he
  | x :: xs, [], i, _, e, he => by
    simp only [listT, List.mem_cons] at he
    rcases he with rfl | he
    · simp
    · exact listT_no_added xs [] (i + 1) (by simp) e he
  | [], y :: ys, _, h, _, _ => by simp at h
  | x :: xs, y :: ys, i, h, e, he => by
    simp only [listT, List.mem_append] at he
    rcases he with he | he
    · exact (childTreeI_cat i x y e he).1
    · exact listT_no_added xs ys (i + 1) (by simpa using h) e he

theorem listT_no_removed : ∀ (xs ys : List PyVal) (i : Nat), xs.length ≤ ys.length → ∀ e ∈ listT i xs ys, e.1 ≠ Cat.iterRemoved
  | [], [], _, _, e, he => by simp [listT] at he
  | x :: xs, [], _, h, _, _ => by simp at h
  | [], y :: ys, i, _, e, he => by
    simp only [listT, List.mem_cons] at he
    rcases he with rfl | he
    · simp
    · exact listT_no_removed [] ys (i + 1) (by simp) e he
  | x :: xs, y :: ys, i, h, e, he => by
    simp only [listT, List.mem_append] at he
    rcases he with he | he
    · exact (childTreeI_cat i x y e he).2
    · exact listT_no_removed xs ys (i + 1) (by simpa using h) e he

theorem mutualAddRemoves_listT (xs ys : List PyVal) : mutualAddRemoves (listT 0 xs ys) = listT 0 xs ys := by
  apply mutualAddRemoves_one_sided
  rcases Nat.le_total ys.length xs.length with h | h
  · exact Or.inl (listT_no_added xs ys 0 h)
  · exact Or.inr (listT_no_removed xs ys 0 h)

/-- whenever the diff of two lists of scalars is the pairwise pass (positional mode; or the default mode when the
pairwise pass is the one kept), `deepDiff` is the closed-form tree -/
theorem list_deepDiff_of_tree (cfg : DCfg) (hp : Diff.Plain cfg) (al : Align) (hashOf : PyVal → String) (xs ys : List PyVal)
    (h : diffV cfg al hashOf [] (.list xs) (.list ys) = ⟨listT 0 xs ys, []⟩) :
    deepDiff cfg al hashOf (.list xs) (.list ys) = ⟨listT 0 xs ys, []⟩ := by
  unfold deepDiff
  simp only [skipSteps_plain hp, Bool.false_eq_true, if_false, h, keepReported_plain hp]
  split
  · rfl
  · simp only [mutualAddRemoves_listT]

theorem list_diffUnmerged_of_tree (cfg : DCfg) (hp : Diff.Plain cfg) (al : Align) (hashOf : PyVal → String) (xs ys : List PyVal)
    (h : diffV cfg al hashOf [] (.list xs) (.list ys) = ⟨listT 0 xs ys, []⟩) :
    diffUnmerged cfg al hashOf (.list xs) (.list ys) = ⟨listT 0 xs ys, []⟩ := by
  unfold diffUnmerged
  simp only [skipSteps_plain hp, Bool.false_eq_true, if_false, h, keepReported_plain hp]

/-- positional mode -/
theorem list_diffV_zip (cfg : DCfg) (hp : Diff.Plain cfg) (hz : cfg.zip = true) (al : Align) (hashOf : PyVal → String)
    (xs ys : List PyVal) (hbx : ∀ x ∈ xs, isBasic x = true) :
    diffV cfg al hashOf [] (.list xs) (.list ys) = ⟨listT 0 xs ys, []⟩ := by
  simp only [diffV, iterInOrder, hz, Bool.not_true, Bool.false_and, Bool.false_eq_true, if_false]
  exact diffPairs_basic hp al hashOf xs ys 0 hbx

/-- default mode: the difflib pass reports at least as many entries as the pairwise pass (or one entry while the
pairwise pass reports none), so the pairwise pass is kept -/
theorem list_diffV_pairwise (cfg : DCfg) (hp : Diff.Plain cfg) (hz : cfg.zip = false) (al : Align) (hashOf : PyVal → String)
    (xs ys : List PyVal) (hbx : ∀ x ∈ xs, isBasic x = true) (hby : ∀ y ∈ ys, isBasic y = true)
    (h1 : 1 ≤ (opcodeEntries [] xs ys (al xs ys)).length)
    (h2 : (opcodeEntries [] xs ys (al xs ys)).length = 1 → (listT 0 xs ys).length = 0)
    (h3 : (listT 0 xs ys).length ≤ (opcodeEntries [] xs ys (al xs ys)).length) :
    diffV cfg al hashOf [] (.list xs) (.list ys) = ⟨listT 0 xs ys, []⟩ := by
  have hax : xs.all isBasic = true := List.all_eq_true.2 hbx
  have hay : ys.all isBasic = true := List.all_eq_true.2 hby
  simp only [diffV, iterInOrder, hz, hax, hay, Bool.not_false, Bool.and_self, if_true, keepReported_plain hp, pairBasic_listT]
  have h1' : (opcodeEntries [] xs ys (al xs ys)).length ≥ 1 := h1
  simp only [h1', if_true]
  by_cases hone : (opcodeEntries [] xs ys (al xs ys)).length = 1
  · have := h2 hone
    simp [hone, this]
  · have hne : ((opcodeEntries [] xs ys (al xs ys)).length == 1) = false := by simpa using hone
    have h3' : (opcodeEntries [] xs ys (al xs ys)).length ≥ (listT 0 xs ys).length := h3
    simp [hne, h3']


/-- the round trip for two lists of scalars whose diff is the pairwise pass -/
theorem list_roundtrip (cfg : DCfg) (hp : Diff.Plain cfg) (al : Align) (hashOf : PyVal → String) (directed always : Bool)
    (xs ys : List PyVal) (hbx : ∀ x ∈ xs, isBasic x = true) (hby : ∀ y ∈ ys, isBasic y = true)
    (h : diffV cfg al hashOf [] (.list xs) (.list ys) = ⟨listT 0 xs ys, []⟩) :
    ∃ r, applyDelta false (buildDelta directed always (.list xs) (.list ys) (deepDiff cfg al hashOf (.list xs) (.list ys))) (.list xs)
        = { root := .list r } ∧ pyEqL r ys = true := by
  rw [list_deepDiff_of_tree cfg hp al hashOf xs ys h]
  exact list_apply false directed always (fun h => by cases h) xs ys hbx hby _ _

/-- a bidirectional delta of two such lists inverts exactly -/
theorem list_bidirectional (cfg : DCfg) (hp : Diff.Plain cfg) (al : Align) (hashOf : PyVal → String)
    (xs ys : List PyVal) (hbx : ∀ x ∈ xs, isBasic x = true) (hby : ∀ y ∈ ys, isBasic y = true)
    (h : diffV cfg al hashOf [] (.list xs) (.list ys) = ⟨listT 0 xs ys, []⟩) :
    (∃ r, applyDelta true (buildDelta false true (.list xs) (.list ys) (deepDiff cfg al hashOf (.list xs) (.list ys))) (.list xs)
        = { root := .list r } ∧ pyEqL r ys = true) ∧
    (∃ r, subDelta true (buildDelta false true (.list xs) (.list ys) (deepDiff cfg al hashOf (.list xs) (.list ys))) (.list ys)
        = .ok { root := .list r } ∧ pyEqL r xs = true) := by
  rw [list_deepDiff_of_tree cfg hp al hashOf xs ys h]
  constructor
  · exact list_apply true false true (fun _ => ⟨rfl, rfl⟩) xs ys hbx hby _ _
  · obtain ⟨r, h1, h2⟩ := list_apply_rev xs ys hbx hby (.list xs) (.list ys)
    exact ⟨r, by simp only [subDelta, if_true, h1], h2⟩

end Delta
