import Model.Distance.Deep
import Proofs.DeltaNested
/-!
Facts about the deep-distance model: the leaf count of a value is at most its DeepHash count; the rough length of the model
is the count component of the hash model; and, for nested dictionaries (the universe `J` of `Proofs/DeltaNested.lean`), the
numerator exceeds the denominator by at most the number of `type_changes` entries -- so without a type change the distance
lies in [0, 1].
-/
namespace Dist
open Py Diff Delta

theorem startsWith_of_startsWith2 (s : String) (h : s.startsWith "__" = true) : s.startsWith "_" = true := by
  rw [String.startsWith_string_iff] at h ⊢
  have h2 : ("__" : String).toList = ['_', '_'] := by decide
  have h1 : ("_" : String).toList = ['_'] := by decide
  rw [h2] at h; rw [h1]
  obtain ⟨t, ht⟩ := h
  exact ⟨'_' :: t, by simpa using ht⟩

mutual
theorem itemLen_le_roughLen (ip : Bool) : ∀ v : PyVal, itemLen v ≤ roughLen ip v
  | .none => by simp [itemLen, roughLen]
  | .bool _ => by simp [itemLen, roughLen]
  | .int _ => by simp [itemLen, roughLen]
  | .float _ _ => by simp [itemLen, roughLen]
  | .str _ => by simp [itemLen, roughLen]
  | .bytes _ => by simp [itemLen, roughLen]
  | .list xs => by have := itemLenL_le ip xs; simp only [itemLen, roughLen]; omega
  | .tuple xs => by have := itemLenL_le ip xs; simp only [itemLen, roughLen]; omega
  | .set xs => by have := itemLenL_le ip xs; simp only [itemLen, roughLen]; omega
  | .frozenset xs => by have := itemLenL_le ip xs; simp only [itemLen, roughLen]; omega
  | .dict kvs => by have := itemLenKV_le ip kvs; simp only [itemLen, roughLen]; omega
theorem itemLenL_le (ip : Bool) : ∀ xs : List PyVal, itemLenL xs ≤ roughLenL ip xs
  | [] => by simp [itemLenL, roughLenL]
  | x :: xs => by
    have := itemLen_le_roughLen ip x; have := itemLenL_le ip xs
    simp only [itemLenL, roughLenL]; omega
theorem itemLenKV_le (ip : Bool) : ∀ kvs : List (PyVal × PyVal), itemLenKV kvs ≤ roughLenKV ip kvs
  | [] => by simp [itemLenKV, roughLenKV]
  | (k, v) :: rest => by
    have h1 := itemLen_le_roughLen ip v; have h2 := itemLenKV_le ip rest
    simp only [itemLenKV, roughLenKV]
    by_cases hk : internalKey k = true
    · simp only [hk, if_true]; split <;> omega
    · simp only [hk, Bool.false_eq_true, if_false]
      split
      · -- a private key (`__x`) is an internal key (`_…`): contradiction
        rename_i hpk
        exfalso
        simp only [Bool.and_eq_true] at hpk
        cases k with
        | str s =>
          apply hk
          simp only [internalKey, Bool.or_eq_true]
          exact Or.inl (Or.inl (startsWith_of_startsWith2 s hpk.2))
        | _ => exact absurd hpk.2 (by simp [Hash.isPrivateKey])
      · omega
end

mutual
/-- the rough length is the count `DeepHash` keeps, for every hasher and every option set -/
theorem roughLen_eq_count (cfg : Hash.HCfg) (H : String → String) : ∀ v : PyVal, (Hash.hashV cfg H v).2 = roughLen cfg.ignorePrivate v
  | .none => by simp [Hash.hashV, roughLen]
  | .bool _ => by simp [Hash.hashV, roughLen]
  | .int _ => by simp [Hash.hashV, roughLen]
  | .float _ _ => by simp [Hash.hashV, roughLen]
  | .str _ => by simp [Hash.hashV, roughLen]
  | .bytes _ => by simp [Hash.hashV, roughLen]
  | .list xs => by have := roughLenL_eq_count cfg H xs; simp only [Hash.hashV, roughLen]; omega
  | .tuple xs => by have := roughLenL_eq_count cfg H xs; simp only [Hash.hashV, roughLen]; omega
  | .set xs => by have := roughLenL_eq_count cfg H xs; simp only [Hash.hashV, roughLen]; omega
  | .frozenset xs => by have := roughLenL_eq_count cfg H xs; simp only [Hash.hashV, roughLen]; omega
  | .dict kvs => by have := roughLenKV_eq_count cfg H kvs; simp only [Hash.hashV, roughLen]; omega
theorem roughLenL_eq_count (cfg : Hash.HCfg) (H : String → String) : ∀ xs : List PyVal, (Hash.hashL cfg H xs).2 = roughLenL cfg.ignorePrivate xs
  | [] => by simp [Hash.hashL, roughLenL]
  | x :: xs => by
    have := roughLen_eq_count cfg H x; have := roughLenL_eq_count cfg H xs
    simp only [Hash.hashL, roughLenL]; omega
theorem roughLenKV_eq_count (cfg : Hash.HCfg) (H : String → String) : ∀ kvs : List (PyVal × PyVal), (Hash.hashP cfg H kvs).2 = roughLenKV cfg.ignorePrivate kvs
  | [] => by simp [Hash.hashP, roughLenKV]
  | (k, v) :: rest => by
    have h1 := roughLen_eq_count cfg H v; have h2 := roughLenKV_eq_count cfg H rest
    simp only [Hash.hashP, roughLenKV]
    split <;> simp_all <;> omega
end

end Dist

namespace Dist
open Py Diff Delta

/-! ### sums -/

theorem sumBy_append {α} (f : α → Nat) (xs ys : List α) : sumBy f (xs ++ ys) = sumBy f xs + sumBy f ys := by
  induction xs with
  | nil => simp [sumBy]
  | cons x xs ih => simp only [List.cons_append, sumBy, ih]; omega

theorem sumBy_map {α β} (f : β → Nat) (g : α → β) (xs : List α) : sumBy f (xs.map g) = sumBy (fun x => f (g x)) xs := by
  induction xs with
  | nil => rfl
  | cons x xs ih => simp only [List.map_cons, sumBy, ih]

theorem sumBy_flatMap {α β} (f : β → Nat) (g : α → List β) (xs : List α) : sumBy f (xs.flatMap g) = sumBy (fun x => sumBy f (g x)) xs := by
  induction xs with
  | nil => rfl
  | cons x xs ih => simp only [List.flatMap_cons, sumBy_append, sumBy, ih]

theorem sumBy_congr {α} (f g : α → Nat) (xs : List α) (h : ∀ x ∈ xs, f x = g x) : sumBy f xs = sumBy g xs := by
  induction xs with
  | nil => rfl
  | cons x xs ih =>
    simp only [sumBy]
    rw [h x (List.mem_cons_self ..), ih (fun y hy => h y (List.mem_cons_of_mem _ hy))]

theorem sumBy_le {α} (f g : α → Nat) (xs : List α) (h : ∀ x ∈ xs, f x ≤ g x) : sumBy f xs ≤ sumBy g xs := by
  induction xs with
  | nil => exact Nat.le_refl _
  | cons x xs ih =>
    simp only [sumBy]
    have := h x (List.mem_cons_self ..); have := ih (fun y hy => h y (List.mem_cons_of_mem _ hy)); omega

theorem sumBy_add {α} (f g : α → Nat) (xs : List α) : sumBy (fun x => f x + g x) xs = sumBy f xs + sumBy g xs := by
  induction xs with
  | nil => rfl
  | cons x xs ih => simp only [sumBy, ih]; omega

theorem sumBy_filter_split {α} (f : α → Nat) (p : α → Bool) (xs : List α) :
    sumBy f (xs.filter p) + sumBy f (xs.filter (fun x => !p x)) = sumBy f xs := by
  induction xs with
  | nil => rfl
  | cons x xs ih =>
    cases hp : p x <;> simp only [List.filter_cons, hp, Bool.not_false, Bool.not_true, if_true, Bool.false_eq_true, if_false, sumBy] <;> omega

theorem sumBy_perm {α} (f : α → Nat) {xs ys : List α} (h : xs.Perm ys) : sumBy f xs = sumBy f ys := by
  induction h with
  | nil => rfl
  | cons x _ ih => simp only [sumBy, ih]
  | swap x y l => simp only [sumBy]; omega
  | trans _ _ ih1 ih2 => exact ih1.trans ih2

theorem sumBy_length {α} (xs : List α) : sumBy (fun _ => 1) xs = xs.length := by
  induction xs with
  | nil => rfl
  | cons x xs ih => simp only [sumBy, ih, List.length_cons]; omega

/-! ### the part of the payload length that nested dictionaries can have -/

def treeLen (T : Tree) : Nat :=
  sumBy (changeLen true) (catMap .typeChanges (tcF true false) T) + sumBy (changeLen false) (catMap .valuesChanged (vcF true) T) +
  sumBy (fun e => itemLen e.2) (catMap .dictAdded plainF T) + sumBy (fun e => itemLen e.2) (catMap .dictRemoved plainF T)

def tcCount (T : Tree) : Nat := (catMap .typeChanges (tcF true false) T).length

theorem changeLen_consC (b : Bool) (k : PyVal) (c : Change) : changeLen b (consC k c) = changeLen b c := rfl

theorem roughLen_pos (ip : Bool) (v : PyVal) : 1 ≤ roughLen ip v := by
  cases v <;> simp [roughLen]

end Dist

namespace Dist
open Py Diff Delta

theorem isPrivateKey_eq (k : PyVal) : Hash.isPrivateKey k = isPrivate k := by cases k <;> rfl

theorem roughLenKV_noPrivate (ip : Bool) (kvs : List (PyVal × PyVal)) (h : ∀ p ∈ kvs, (ip && isPrivate p.1) = false) :
    roughLenKV ip kvs = sumBy (fun p => 1 + roughLen ip p.2) kvs := by
  induction kvs with
  | nil => rfl
  | cons p rest ih =>
    obtain ⟨k, v⟩ := p
    have hk := h (k, v) (List.mem_cons_self ..)
    simp only [roughLenKV, sumBy, isPrivateKey_eq]
    rw [ih (fun q hq => h q (List.mem_cons_of_mem _ hq))]
    simp only at hk
    simp [hk]

theorem sum_keys_vals (g : PyVal → Nat) (kvs : List (PyVal × PyVal)) (hs : StrKeys kvs) (hn : (kvs.map (·.1)).Nodup) :
    sumBy (fun k => g (valAt kvs k)) (kvs.map (·.1)) = sumBy (fun p => g p.2) kvs := by
  rw [sumBy_map]
  apply sumBy_congr
  intro p hp
  have := dictGet_of_mem kvs hs hn p.1 p.2 hp
  simp [valAt, this]

/-- the sum of `g` over the values of a dictionary, split along the keys shared with another dictionary and the keys it has alone -/
theorem sum_split (g : PyVal → Nat) (kvs1 kvs2 : List (PyVal × PyVal)) (hs1 : StrKeys kvs1) (hs2 : StrKeys kvs2)
    (hn1 : (kvs1.map (·.1)).Nodup) (hn2 : (kvs2.map (·.1)).Nodup) :
    sumBy (fun k => g (valAt kvs2 k)) (interK kvs1 kvs2) + sumBy (fun k => g (valAt kvs2 k)) (addedK kvs1 kvs2) = sumBy (fun p => g p.2) kvs2 ∧
    sumBy (fun k => g (valAt kvs1 k)) (interK kvs1 kvs2) + sumBy (fun k => g (valAt kvs1 k)) (removedK kvs1 kvs2) = sumBy (fun p => g p.2) kvs1 := by
  constructor
  · rw [← sum_keys_vals g kvs2 hs2 hn2]
    exact sumBy_filter_split _ (fun k => (kvs1.map (·.1)).any (fun k' => keyEq k' k)) (kvs2.map (·.1))
  · rw [← sum_keys_vals g kvs1 hs1 hn1]
    have hperm : (interK kvs1 kvs2).Perm (interK kvs2 kvs1) := by
      have h12 := flatKeys kvs1 kvs2 hs1 hs2 hn1 hn2
      have h21 := flatKeys kvs2 kvs1 hs2 hs1 hn2 hn1
      rw [List.perm_ext_iff_of_nodup h12.nd_inter h21.nd_inter]
      intro k
      rw [h12.mem_inter, h21.mem_inter]
      exact And.comm
    rw [sumBy_perm _ hperm]
    exact sumBy_filter_split _ (fun k => (kvs2.map (·.1)).any (fun k' => keyEq k' k)) (kvs1.map (·.1))

end Dist

namespace Dist
open Py Diff Delta

theorem changeLen_consC' (b : Bool) (k : PyVal) : (fun c => changeLen b (consC k c)) = changeLen b := rfl

theorem length_eq_sumBy {α} (xs : List α) : xs.length = sumBy (fun _ => 1) xs := (sumBy_length xs).symm

/-- **the numerator exceeds the denominator by at most the number of type changes**, for nested dictionaries of any depth -/
theorem J_deep_bound {cfg : DCfg} (hp : Diff.Plain cfg) (al : Align) (hashOf : PyVal → String) :
    ∀ (n : Nat) (a b : PyVal), sizeOf a ≤ n → J cfg.ignorePrivate a → J cfg.ignorePrivate b →
      treeLen (diffV cfg al hashOf [] a b).tree ≤
        roughLen cfg.ignorePrivate a + roughLen cfg.ignorePrivate b + tcCount (diffV cfg al hashOf [] a b).tree := by
  intro n
  induction n with
  | zero => intro a b h; have := sizeOf_pos a; omega
  | succ n ih =>
    intro a b hsz ja jb
    have ha1 := roughLen_pos cfg.ignorePrivate a
    have hb1 := roughLen_pos cfg.ignorePrivate b
    rcases J_tree_small hp al hashOf a b ja jb with ⟨kvs1, kvs2, rfl, rfl, hthr⟩ | ⟨h, _⟩ | ⟨ud, h⟩ | h
    · obtain ⟨hs1, hn1, hp1, hv1⟩ := J_dict_inv ja
      obtain ⟨hs2, hn2, hp2, hv2⟩ := J_dict_inv jb
      have hfk := flatKeys kvs1 kvs2 hs1 hs2 hn1 hn2
      obtain ⟨hvc, htc, hda, hdr⟩ := dict_payload hp al hashOf true false kvs1 kvs2 ja jb hthr
      have hchild : ∀ k ∈ interK kvs1 kvs2,
          treeLen (diffV cfg al hashOf [] (valAt kvs1 k) (valAt kvs2 k)).tree ≤
            roughLen cfg.ignorePrivate (valAt kvs1 k) + roughLen cfg.ignorePrivate (valAt kvs2 k) +
              tcCount (diffV cfg al hashOf [] (valAt kvs1 k) (valAt kvs2 k)).tree := fun k hk =>
        ih (valAt kvs1 k) (valAt kvs2 k)
          (by have := valAt_size kvs1 hs1 hn1 k ((hfk.mem_inter k).1 hk).1; omega)
          (J_of_valAt kvs1 ja k) (J_of_valAt kvs2 jb k)
      -- the level in terms of the children
      have hT : treeLen (diffV cfg al hashOf [] (.dict kvs1) (.dict kvs2)).tree =
          sumBy (fun k => treeLen (diffV cfg al hashOf [] (valAt kvs1 k) (valAt kvs2 k)).tree) (interK kvs1 kvs2) +
          sumBy (fun k => itemLen (valAt kvs2 k)) (addedK kvs1 kvs2) + sumBy (fun k => itemLen (valAt kvs1 k)) (removedK kvs1 kvs2) := by
        unfold treeLen
        rw [hvc, htc, hda, hdr]
        simp only [sumBy_flatMap, sumBy_map, sumBy_append, changeLen_consC', consP, sumBy_add]
        omega
      have hC : tcCount (diffV cfg al hashOf [] (.dict kvs1) (.dict kvs2)).tree =
          sumBy (fun k => tcCount (diffV cfg al hashOf [] (valAt kvs1 k) (valAt kvs2 k)).tree) (interK kvs1 kvs2) := by
        unfold tcCount
        rw [htc, length_eq_sumBy, sumBy_flatMap]
        apply sumBy_congr
        intro k _
        rw [sumBy_map, ← length_eq_sumBy]
      rw [hT, hC]
      have h1 := sumBy_le _ _ (interK kvs1 kvs2) hchild
      rw [sumBy_add, sumBy_add] at h1
      obtain ⟨s2, s1⟩ := sum_split (roughLen cfg.ignorePrivate) kvs1 kvs2 hs1 hs2 hn1 hn2
      have hA := sumBy_le (fun k => itemLen (valAt kvs2 k)) (fun k => roughLen cfg.ignorePrivate (valAt kvs2 k)) (addedK kvs1 kvs2)
        (fun k _ => itemLen_le_roughLen _ _)
      have hR := sumBy_le (fun k => itemLen (valAt kvs1 k)) (fun k => roughLen cfg.ignorePrivate (valAt kvs1 k)) (removedK kvs1 kvs2)
        (fun k _ => itemLen_le_roughLen _ _)
      have r1 : roughLen cfg.ignorePrivate (.dict kvs1) = sumBy (fun p => 1 + roughLen cfg.ignorePrivate p.2) kvs1 + 1 := by
        simp only [roughLen, roughLenKV_noPrivate _ kvs1 hp1]
      have r2 : roughLen cfg.ignorePrivate (.dict kvs2) = sumBy (fun p => 1 + roughLen cfg.ignorePrivate p.2) kvs2 + 1 := by
        simp only [roughLen, roughLenKV_noPrivate _ kvs2 hp2]
      rw [r1, r2, sumBy_add, sumBy_add]
      omega
    · -- equal leaves
      rw [h]; simp [treeLen, tcCount, catMap, sumBy]
    · -- one values_changed entry at the root
      rw [h]
      have hb := itemLen_le_roughLen cfg.ignorePrivate b
      simp [treeLen, tcCount, catMap, sumBy, vcF, sidePath, changeLen, optLen]
      omega
    · -- one type_changes entry at the root
      rw [h]
      have hb := itemLen_le_roughLen cfg.ignorePrivate b
      have hlen : ∀ c : Change, c ∈ catMap .typeChanges (tcF true false) [(Cat.typeChanges, ({ steps := [], t1 := some a, t2 := some b } : Level))] →
          changeLen true c ≤ 2 + itemLen b := by
        intro c hc
        simp only [catMap, List.filter, beq_self_eq_true, List.filterMap, tcF, sidePath, List.mapM_nil, Option.pure_def, Option.bind_eq_bind,
          Option.bind_some, Option.getD_some, if_true, List.mem_singleton] at hc
        subst hc
        have h1 : ∀ c : Bool, optLen (if c = true then some b else Option.none) ≤ itemLen b := by
          intro c; cases c <;> simp [optLen]
        simp only [changeLen, if_true]
        exact Nat.add_le_add (by simp [optLen]) (h1 _)
      have hone : (catMap .typeChanges (tcF true false) [(Cat.typeChanges, ({ steps := [], t1 := some a, t2 := some b } : Level))]).length = 1 := by
        simp [catMap, tcF, sidePath]
      have hvc0 : catMap .valuesChanged (vcF true) [(Cat.typeChanges, ({ steps := [], t1 := some a, t2 := some b } : Level))] = [] := by simp [catMap]
      have hda0 : catMap .dictAdded plainF [(Cat.typeChanges, ({ steps := [], t1 := some a, t2 := some b } : Level))] = [] := by simp [catMap]
      have hdr0 : catMap .dictRemoved plainF [(Cat.typeChanges, ({ steps := [], t1 := some a, t2 := some b } : Level))] = [] := by simp [catMap]
      unfold treeLen tcCount
      rw [hvc0, hda0, hdr0, hone]
      generalize catMap .typeChanges (tcF true false) [(Cat.typeChanges, ({ steps := [], t1 := some a, t2 := some b } : Level))] = L at hlen hone
      match L, hone, hlen with
      | [c], _, hlen =>
        have := hlen c (List.mem_singleton.2 rfl)
        simp only [sumBy]
        omega

end Dist

namespace Dist
open Py Diff Delta

theorem groupSet_nil : groupSet [] = [] := rfl

/-- on a tree with only the four dictionary categories the payload length is `treeLen` -/
theorem payloadLen_of_cats (T : Tree) (t1 t2 : PyVal)
    (h : ∀ e ∈ T, e.1 = .typeChanges ∨ e.1 = .valuesChanged ∨ e.1 = .dictAdded ∨ e.1 = .dictRemoved) :
    payloadLen (buildDelta true false t1 t2 ⟨T, []⟩) = treeLen T ∧
    (buildDelta true false t1 t2 ⟨T, []⟩).typeChanges.length = tcCount T := by
  obtain ⟨fV, fT, fA, fR⟩ := build_fields true false t1 t2 T
  have nofilter : ∀ c : Cat, c ≠ .typeChanges → c ≠ .valuesChanged → c ≠ .dictAdded → c ≠ .dictRemoved → T.filter (fun e => e.1 == c) = [] := by
    intro c h1 h2 h3 h4
    rw [List.filter_eq_nil_iff]
    intro e he
    rcases h e he with h' | h' | h' | h' <;> rw [h'] <;> simp <;> intro hc <;> first | exact h1 hc.symm | exact h2 hc.symm | exact h3 hc.symm | exact h4 hc.symm
  have e1 : (buildDelta true false t1 t2 ⟨T, []⟩).iterAdded = [] := by
    simp only [buildDelta, nofilter .iterAdded (by decide) (by decide) (by decide) (by decide), List.filterMap_nil]
  have e2 : (buildDelta true false t1 t2 ⟨T, []⟩).iterRemoved = [] := by
    simp only [buildDelta, nofilter .iterRemoved (by decide) (by decide) (by decide) (by decide), List.filterMap_nil]
  have e3 : (buildDelta true false t1 t2 ⟨T, []⟩).iterMoved = [] := by
    simp only [buildDelta, nofilter .iterMoved (by decide) (by decide) (by decide) (by decide), List.filterMap_nil]
  have e4 : (buildDelta true false t1 t2 ⟨T, []⟩).setRemoved = [] := by
    simp only [buildDelta, nofilter .setRemoved (by decide) (by decide) (by decide) (by decide), List.filterMap_nil, groupSet_nil]
  have e5 : (buildDelta true false t1 t2 ⟨T, []⟩).setAdded = [] := by
    simp only [buildDelta, nofilter .setAdded (by decide) (by decide) (by decide) (by decide), List.filterMap_nil, groupSet_nil]
  constructor
  · unfold payloadLen treeLen
    rw [fV, fT, fA, fR, e1, e2, e3, e4, e5]
    simp only [sumBy]
    omega
  · unfold tcCount; rw [fT]

/-- **deep_distance of two nested dictionaries**: numerator ≤ denominator + number of type changes; the denominator is at least 2 -/
theorem J_deep_distance {cfg : DCfg} (hp : Diff.Plain cfg) (al : Align) (hashOf : PyVal → String) (a b : PyVal)
    (ja : J cfg.ignorePrivate a) (jb : J cfg.ignorePrivate b) :
    (deepDistance cfg al hashOf a b).1 ≤ (deepDistance cfg al hashOf a b).2 +
        (buildDelta true false a b (deepDiff cfg al hashOf a b)).typeChanges.length ∧
    2 ≤ (deepDistance cfg al hashOf a b).2 := by
  have hcats := (J_tree_facts hp al hashOf (sizeOf a) a b (Nat.le_refl _) ja jb).1
  obtain ⟨h1, h2⟩ := payloadLen_of_cats (diffV cfg al hashOf [] a b).tree a b hcats
  have hb := J_deep_bound hp al hashOf (sizeOf a) a b (Nat.le_refl _) ja jb
  have ha1 := roughLen_pos cfg.ignorePrivate a
  have hb1 := roughLen_pos cfg.ignorePrivate b
  unfold deepDistance
  rw [J_deepDiff hp al hashOf a b ja jb, J_diffUnmerged hp al hashOf a b ja jb, h1, h2]
  exact ⟨hb, by simp only; omega⟩

end Dist
