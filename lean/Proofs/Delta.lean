import Model.Delta.Reverse
import Proofs.Diff
/-!
Lemmas about the Delta model: opcode replay over a tiling, error counters never decrease, an empty
payload is the identity, reversal is an involution.
-/
namespace Delta
open Py Diff

/-! ## opcode replay -/

/-- the opcodes tile `xs × ys` from `(i, j)`: each starts where the previous one ended, `equal`
blocks agree, `delete` consumes nothing of `ys`, and the tags are difflib's four -/
def TilesO (xs ys : List PyVal) : Nat → Nat → List Opcode → Prop
  | i, j, [] => j = ys.length ∧ i = xs.length
  | i, j, o :: rest =>
    o.i1 = i ∧ o.j1 = j ∧ o.j1 ≤ o.j2 ∧
    (o.tag = "equal" ∨ o.tag = "replace" ∨ o.tag = "insert" ∨ o.tag = "delete") ∧
    (o.tag = "equal" → (xs.drop o.i1).take (o.i2 - o.i1) = (ys.drop o.j1).take (o.j2 - o.j1)) ∧
    (o.tag = "delete" → o.j1 = o.j2) ∧
    TilesO xs ys o.i2 o.j2 rest

theorem take_drop_step (ys : List PyVal) (j j2 : Nat) (h : j ≤ j2) :
    (ys.drop j).take (j2 - j) ++ ys.drop j2 = ys.drop j := by
  have := List.take_append_drop (j2 - j) (ys.drop j)
  rw [List.drop_drop] at this
  have e : j + (j2 - j) = j2 := by omega
  rw [e] at this
  exact this

def wv1 (xs ys : List PyVal) (o : Opcode) : OpV :=
  if o.tag == "equal" then { tag := o.tag, i1 := o.i1, i2 := o.i2, j1 := o.j1, j2 := o.j2 }
  else { tag := o.tag, i1 := o.i1, i2 := o.i2, j1 := o.j1, j2 := o.j2,
         oldValues := some ((xs.drop o.i1).take (o.i2 - o.i1)), newValues := some ((ys.drop o.j1).take (o.j2 - o.j1)) }

theorem withValues_eq (xs ys : List PyVal) (ops : List Opcode) : withValues xs ys ops = ops.map (wv1 xs ys) := rfl
theorem wv1_tag (xs ys : List PyVal) (o : Opcode) : (wv1 xs ys o).tag = o.tag := by unfold wv1; split <;> rfl
theorem wv1_i1 (xs ys : List PyVal) (o : Opcode) : (wv1 xs ys o).i1 = o.i1 := by unfold wv1; split <;> rfl
theorem wv1_i2 (xs ys : List PyVal) (o : Opcode) : (wv1 xs ys o).i2 = o.i2 := by unfold wv1; split <;> rfl
theorem wv1_new (xs ys : List PyVal) (o : Opcode) (h : (o.tag == "equal") = false) :
    (wv1 xs ys o).newValues = some ((ys.drop o.j1).take (o.j2 - o.j1)) := by
  unfold wv1; simp [h]

/-- one step of the rebuild loop of `_do_iterable_opcodes` -/
def stepR (xs : List PyVal) (acc : List PyVal) (o : OpV) : List PyVal :=
  if o.tag == "replace" || o.tag == "insert" then acc ++ o.newValues.getD []
  else if o.tag == "equal" then acc ++ (xs.drop o.i1).take (o.i2 - o.i1)
  else acc

theorem replayOps_eq (xs : List PyVal) (ops : List OpV) : replayOps xs ops = ops.foldl (stepR xs) [] := rfl

theorem stepR_tiles (xs ys : List PyVal) (o : Opcode) (acc : List PyVal)
    (hle : o.j1 ≤ o.j2)
    (htag : o.tag = "equal" ∨ o.tag = "replace" ∨ o.tag = "insert" ∨ o.tag = "delete")
    (heq : o.tag = "equal" → (xs.drop o.i1).take (o.i2 - o.i1) = (ys.drop o.j1).take (o.j2 - o.j1))
    (hdel : o.tag = "delete" → o.j1 = o.j2) :
    stepR xs acc (wv1 xs ys o) ++ ys.drop o.j2 = acc ++ ys.drop o.j1 := by
  have hstep := take_drop_step ys o.j1 o.j2 hle
  unfold stepR
  rw [wv1_tag, wv1_i1, wv1_i2]
  rcases htag with ht | ht | ht | ht
  · have e1 : (o.tag == "replace" || o.tag == "insert") = false := by rw [ht]; decide
    have e2 : (o.tag == "equal") = true := by rw [ht]; decide
    simp only [e1, e2, Bool.false_eq_true, if_false, if_true]
    rw [heq ht, List.append_assoc, hstep]
  · have e1 : (o.tag == "replace" || o.tag == "insert") = true := by rw [ht]; decide
    have e2 : (o.tag == "equal") = false := by rw [ht]; decide
    simp only [e1, if_true, wv1_new xs ys o e2, Option.getD_some]
    rw [List.append_assoc, hstep]
  · have e1 : (o.tag == "replace" || o.tag == "insert") = true := by rw [ht]; decide
    have e2 : (o.tag == "equal") = false := by rw [ht]; decide
    simp only [e1, if_true, wv1_new xs ys o e2, Option.getD_some]
    rw [List.append_assoc, hstep]
  · have e1 : (o.tag == "replace" || o.tag == "insert") = false := by rw [ht]; decide
    have e2 : (o.tag == "equal") = false := by rw [ht]; decide
    simp only [e1, e2, Bool.false_eq_true, if_false]
    rw [← hdel ht]

/-- replaying opcodes that tile `(xs, ys)` (with the new slices recorded by `withValues`) on `xs`
produces `ys` -/
theorem replay_tiles (xs ys : List PyVal) :
    ∀ (ops : List Opcode) (i j : Nat) (acc : List PyVal), TilesO xs ys i j ops →
      (ops.map (wv1 xs ys)).foldl (stepR xs) acc = acc ++ ys.drop j := by
  intro ops
  induction ops with
  | nil =>
    intro i j acc h
    obtain ⟨hj, _⟩ := h
    simp [hj]
  | cons o rest ih =>
    intro i j acc h
    obtain ⟨_, hj, hle, htag, heq, hdel, hrest⟩ := h
    simp only [List.map_cons, List.foldl_cons]
    rw [ih o.i2 o.j2 _ hrest, stepR_tiles xs ys o acc hle htag heq hdel, hj]

theorem replayOps_tiles (xs ys : List PyVal) (ops : List Opcode) (h : TilesO xs ys 0 0 ops) :
    replayOps xs (withValues xs ys ops) = ys := by
  rw [replayOps_eq, withValues_eq, replay_tiles xs ys ops 0 0 [] h]
  simp

/-! ## the error counter never decreases, an escaped exception stays -/

/-- `s'` comes after `s`: no fewer logged errors, and an escaped exception is still there -/
def After (s s' : AState) : Prop := s.errs ≤ s'.errs ∧ (s.raised.isSome → s'.raised.isSome)

theorem After.refl (s : AState) : After s s := ⟨Nat.le_refl _, id⟩
theorem After.trans {a b c : AState} (h1 : After a b) (h2 : After b c) : After a c :=
  ⟨Nat.le_trans h1.1 h2.1, fun h => h2.2 (h1.2 h)⟩

theorem foldl_after {α} (f : AState → α → AState) (hf : ∀ s x, After s (f s x)) :
    ∀ (xs : List α) (s : AState), After s (xs.foldl f s) := by
  intro xs
  induction xs with
  | nil => intro s; exact After.refl s
  | cons x xs ih => intro s; exact After.trans (hf s x) (ih _)

theorem after_bump {s t : AState} (h : After s t) (k : Nat) :
    After s { root := t.root, post := t.post, errs := t.errs + k, raised := t.raised } :=
  ⟨Nat.le_trans h.1 (Nat.le_add_right _ _), h.2⟩

theorem after_self (s : AState) (r : PyVal) (p : List DPath) (k : Nat) :
    After s { root := r, post := p, errs := s.errs + k, raised := s.raised } :=
  ⟨Nat.le_add_right _ _, id⟩

theorem after_self0 (s : AState) (r : PyVal) (p : List DPath) :
    After s { root := r, post := p, errs := s.errs, raised := s.raised } :=
  ⟨Nat.le_refl _, id⟩

theorem after_raise (s : AState) (r : PyVal) (p : List DPath) (k : Nat) (x : String) :
    After s { root := r, post := p, errs := k + s.errs, raised := some x } :=
  ⟨Nat.le_add_left _ _, fun _ => rfl⟩

theorem after_raise' {s t : AState} (h : After s t) (x : String) :
    After s { root := t.root, post := t.post, errs := t.errs, raised := some x } :=
  ⟨h.1, fun _ => rfl⟩

theorem after_self2 (s : AState) (r : PyVal) (p : List DPath) (k j : Nat) :
    After s { root := r, post := p, errs := s.errs + k + j, raised := s.raised } :=
  ⟨by simp only []; omega, id⟩

syntax "after_auto" : tactic
macro_rules
  | `(tactic| after_auto) => `(tactic| first
    | exact After.refl _
    | exact after_self0 _ _ _
    | exact after_self _ _ _ _
    | exact after_self2 _ _ _ _ _
    | assumption
    | exact after_bump (by assumption) _
    | (split <;> after_auto)
    | (simp only [] ; after_auto))

theorem withContainer_after (st : AState) (p : DPath) (f : PyVal → PyVal × Bool) : After st (withContainer st p f) := by
  unfold withContainer
  after_auto

theorem setNewValue_after (st : AState) (p : DPath) (v : PyVal) : After st (setNewValue st p v) := by
  unfold setNewValue
  split
  · exact after_self0 _ _ _
  · exact withContainer_after _ _ _

theorem after_ite {s a b : AState} (c : Prop) [Decidable c] (ha : After s a) (hb : After s b) :
    After s (if c then a else b) := by
  split <;> assumption

theorem applyChange_after (bidir isType verify : Bool) (st : AState) (c : Change) :
    After st (applyChange bidir isType verify st c) := by
  have h := fun v => setNewValue_after st c.path v
  unfold applyChange
  split
  · simp only []
    split
    · exact after_self _ _ _ _
    · exact after_ite _ (after_self _ _ _ _) (after_self0 _ _ _)
  · split
    · exact after_self _ _ _ _
    · split
      · exact after_self _ _ _ _
      · simp only []
        split
        · exact after_self _ _ _ _
        · exact after_ite _ (after_bump (h _) _) (h _)

theorem applyRemoved_after (bidir : Bool) (st : AState) (e : DPath × PyVal) : After st (applyRemoved bidir st e) := by
  unfold applyRemoved
  split
  · after_auto
  · split
    · after_auto
    · simp only []
      split
      · exact after_ite _ (after_bump (withContainer_after _ _ _) _) (withContainer_after _ _ _)
      · exact After.refl _

theorem applyAdded_after (ins : Bool) (st : AState) (e : DPath × PyVal) : After st (applyAdded ins st e) := by
  have h1 := setNewValue_after st e.1 e.2
  unfold applyAdded
  split
  · after_auto
  · split
    · after_auto
    · split
      · split
        · exact withContainer_after _ _ _
        · exact h1
      · after_auto
      · exact h1

theorem applySetItems_after (add : Bool) (st : AState) (e : DPath × List PyVal) : After st (applySetItems add st e) := by
  unfold applySetItems
  after_auto

theorem applyOpcodes_after (st : AState) (e : DPath × List OpV) : After st (applyOpcodes st e) := by
  unfold applyOpcodes
  after_auto

theorem postProcess_after (st : AState) : After st (postProcess st) := by
  unfold postProcess
  apply foldl_after
  intro s p
  split
  · exact After.refl _
  · simp only []
    split
    · exact after_raise' (applyChange_after _ _ _ _ _) _
    · exact applyChange_after _ _ _ _ _

theorem after_set_raised (s : AState) (x : String) : After s { s with raised := some x } := ⟨Nat.le_refl _, fun _ => rfl⟩

theorem phase_after (bidir : Bool) (d : DeltaD) (name : String) (st : AState) : After st (phase bidir d name st) := by
  unfold phase
  split
  · exact After.refl _
  · split
    · exact foldl_after _ (fun s x => applyChange_after _ _ _ s x) _ _
    · exact foldl_after _ (fun s x => applySetItems_after _ s x) _ _
    · exact foldl_after _ (fun s x => applySetItems_after _ s x) _ _
    · exact foldl_after _ (fun s x => applyChange_after _ _ _ s x) _ _
    · exact foldl_after _ (fun s x => applyOpcodes_after s x) _ _
    · split
      · exact foldl_after _ (fun s x => applyRemoved_after _ s x) _ _
      · exact after_set_raised _ _
    · split
      · apply foldl_after
        intro s x
        split
        · exact After.refl _
        · exact applyAdded_after _ s x
      · exact after_set_raised _ _
    · exact foldl_after _ (fun s x => applyAdded_after _ s x) _ _
    · split
      · exact foldl_after _ (fun s x => applyRemoved_after _ s x) _ _
      · exact after_set_raised _ _
    · exact postProcess_after _
    · exact After.refl _

theorem phases_after (bidir : Bool) (d : DeltaD) (names : List String) (st : AState) :
    After st (names.foldl (fun st name => phase bidir d name st) st) :=
  foldl_after _ (fun s n => phase_after bidir d n s) names st

/-! ## the empty payload -/

theorem sortPaths_nil {α} (desc : Bool) : sortPaths ([] : List (DPath × α)) desc = some [] := by
  simp [sortPaths]

theorem phase_empty (bidir : Bool) (name : String) (st : AState) (hp : st.post = []) (hr : st.raised = none) :
    phase bidir {} name st = st := by
  unfold phase
  simp only [hr, Option.isSome_none, Bool.false_eq_true, if_false]
  split <;> simp [sortPaths_nil, postProcess, hp]

theorem applyDelta_empty (bidir : Bool) (base : PyVal) : applyDelta bidir {} base = { root := base } := by
  unfold applyDelta
  generalize Gen.deltaPhases = names
  have : ∀ (names : List String) (st : AState), st.post = [] → st.raised = none →
      names.foldl (fun st name => phase bidir {} name st) st = st := by
    intro names
    induction names with
    | nil => intros; rfl
    | cons n ns ih =>
      intro st hp hr
      simp only [List.foldl_cons, phase_empty bidir n st hp hr]
      exact ih st hp hr
  exact this names _ rfl rfl

/-! ## reversal -/

def plainTag (t : String) : Prop := t = "equal" ∨ t = "replace" ∨ t = "insert" ∨ t = "delete"

theorem reverse_op_involutive (o : OpV) (h : plainTag o.tag) :
    ({ tag := if (if o.tag == "delete" then "insert" else if o.tag == "insert" then "delete" else o.tag) == "delete" then "insert"
              else if (if o.tag == "delete" then "insert" else if o.tag == "insert" then "delete" else o.tag) == "insert" then "delete"
              else (if o.tag == "delete" then "insert" else if o.tag == "insert" then "delete" else o.tag),
       i1 := o.i1, i2 := o.i2, j1 := o.j1, j2 := o.j2, oldValues := o.oldValues, newValues := o.newValues } : OpV) = o := by
  obtain ⟨tag, i1, i2, j1, j2, ov, nv⟩ := o
  simp only [plainTag] at h
  rcases h with h | h | h | h <;> subst h <;> simp <;> decide

/-- a payload without `new_path` entries (the ordered mode never moves an item to another path)
whose opcode tags are difflib's four -/
def Plain (d : DeltaD) : Prop :=
  (∀ c ∈ d.typeChanges, c.newPath = none) ∧ (∀ c ∈ d.valuesChanged, c.newPath = none ∧ c.oldType = "" ∧ c.newType = "") ∧
  (∀ e ∈ d.opcodes, ∀ o ∈ e.2, plainTag o.tag)

theorem map_id_of {α} (f : α → α) (xs : List α) (h : ∀ x ∈ xs, f x = x) : xs.map f = xs := by
  induction xs with
  | nil => rfl
  | cons x xs ih =>
    simp only [List.map_cons]
    rw [h x (by simp), ih (fun y hy => h y (by simp [hy]))]

theorem reverse_involutive (d : DeltaD) (h : Plain d) : reverseDelta (reverseDelta d) = d := by
  obtain ⟨h1, h2, h3⟩ := h
  obtain ⟨tc, da, dr, vc, ia, ir, im, sr, sa, oc⟩ := d
  simp only [reverseDelta, List.map_map]
  congr 1
  · apply map_id_of
    intro c hc
    have := h1 c hc
    obtain ⟨p, np, ov, nv, ot, nt⟩ := c
    simp only at this
    subst this
    simp
  · apply map_id_of
    intro c hc
    obtain ⟨e1, e2, e3⟩ := h2 c hc
    obtain ⟨p, np, ov, nv, ot, nt⟩ := c
    simp only at e1 e2 e3
    subst e1 e2 e3
    simp
  · apply map_id_of
    intro x _
    obtain ⟨a, b, c⟩ := x
    rfl
  · apply map_id_of
    intro e he
    obtain ⟨p, ops⟩ := e
    simp only [Function.comp, List.map_map]
    congr 1
    apply map_id_of
    intro o ho
    exact reverse_op_involutive o (h3 (p, ops) he o ho)

/-! ## reading back what was written -/

theorem find_map_same {α} (q : α → Bool) (g : α → α) (hq : ∀ x, q (g x) = q x) :
    ∀ l : List α, (l.map g).find? q = (l.find? q).map g := by
  intro l
  induction l with
  | nil => rfl
  | cons x xs ih =>
    simp only [List.map_cons, List.find?_cons, hq]
    split
    · rfl
    · exact ih

theorem getItem_dict_replace (kvs : List (PyVal × PyVal)) (k c v : PyVal) (h : getItem (.dict kvs) k = some c) :
    getItem (.dict (kvs.map fun p => if keyEq p.1 k then (p.1, v) else p)) k = some v := by
  simp only [getItem, dictGet] at h ⊢
  rw [find_map_same (fun p => keyEq p.1 k) (fun p => if keyEq p.1 k then (p.1, v) else p)
    (by intro x; by_cases hx : keyEq x.1 k = true <;> simp [hx])]
  cases hf : kvs.find? (fun p => keyEq p.1 k) with
  | none => simp [hf] at h
  | some p =>
    have := List.find?_some hf
    simp [this]

theorem getItem_list_set (xs : List PyVal) (i : Int) (c v : PyVal) (h : getItem (.list xs) (.int i) = some c) :
    getItem (.list (xs.set i.toNat v)) (.int i) = some v := by
  simp only [getItem] at h ⊢
  split at h
  · rename_i hi
    simp only [hi, if_true]
    have hlt : i.toNat < xs.length := by
      rcases Nat.lt_or_ge i.toNat xs.length with hl | hl
      · exact hl
      · simp [List.getElem?_eq_none hl] at h
    simp [hlt]
  · simp at h

theorem getItem_tuple_set (xs : List PyVal) (i : Int) (c v : PyVal) (h : getItem (.tuple xs) (.int i) = some c) :
    getItem (.tuple (xs.set i.toNat v)) (.int i) = some v := by
  simp only [getItem] at h ⊢
  split at h
  · rename_i hi
    simp only [hi, if_true]
    have hlt : i.toNat < xs.length := by
      rcases Nat.lt_or_ge i.toNat xs.length with hl | hl
      · exact hl
      · simp [List.getElem?_eq_none hl] at h
    simp [hlt]
  · simp at h

theorem getAt_cons (r k : PyVal) (rest : DPath) : getAt r (k :: rest) = (getItem r k).bind (fun c => getAt c rest) := by
  simp [getAt, List.foldlM_cons]

/-- what `replaceAt` wrote is what `getAt` reads at the same path -/
theorem getAt_replaceAt : ∀ (p : DPath) (r v r' : PyVal), replaceAt r p v = some r' → getAt r' p = some v := by
  intro p
  induction p with
  | nil => intro r v r' h; simp [replaceAt] at h; simp [getAt, h]
  | cons k rest ih =>
    intro r v r' h
    unfold replaceAt at h
    split at h
    · simp at h
    · rename_i child hchild
      split at h
      · simp at h
      · rename_i child' hrep
        have hget := ih child v child' hrep
        rw [getAt_cons]
        split at h
        · simp only [Option.some.injEq] at h
          subst h
          rw [getItem_dict_replace _ _ child child' hchild]
          simpa using hget
        · simp only [Option.some.injEq] at h
          subst h
          rw [getItem_list_set _ _ child child' hchild]
          simpa using hget
        · simp only [Option.some.injEq] at h
          subst h
          rw [getItem_tuple_set _ _ child child' hchild]
          simpa using hget
        · simp at h

/-! ## a mismatching base is counted -/

theorem applyChange_mismatch (isType : Bool) (st : AState) (c : Change) (elem obj cur o : PyVal)
    (h1 : c.path.getLast? = some elem) (h2 : getAt st.root c.path.dropLast = some obj)
    (h3 : getItem obj elem = some cur) (h4 : c.oldValue = some o) (h5 : pyEq o cur = false) :
    st.errs + 1 ≤ (applyChange true isType true st c).errs := by
  unfold applyChange
  simp only [h1, h2, h3, h4, h5]
  split
  · simp
  · have := (setNewValue_after st c.path ‹PyVal›).1
    simp only [Bool.and_self, Bool.not_false, if_true]
    omega

theorem applyChange_mismatch_root (isType : Bool) (st : AState) (c : Change) (o : PyVal)
    (h1 : c.path = []) (h4 : c.oldValue = some o) (h5 : pyEq o st.root = false) :
    st.errs + 1 ≤ (applyChange true isType true st c).errs := by
  unfold applyChange
  simp only [h1, List.getLast?_nil, h4, h5]
  split <;> simp

end Delta
