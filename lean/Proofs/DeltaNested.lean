import Proofs.DeltaList
/-!
The round trip for nested dictionaries (string keys at every level, scalar leaves): the universe `J`, the tree of
the diff at any level, pure versions of the phase steps on dictionary containers and their behaviour on a path that
starts with a key (`k :: p` acts on the child under `k`), the lookup of a key after a run of keyed operations, the
payload of a level in terms of the payloads of its children, and the induction.
-/
namespace Delta
open Py Diff

/-- nested dictionaries with string keys (no key twice) and scalar leaves -/
inductive J (ip : Bool) : PyVal → Prop
  | basic {v : PyVal} : isBasic v = true → J ip v
  | dict {kvs : List (PyVal × PyVal)} : StrKeys kvs → (kvs.map (·.1)).Nodup → (∀ p ∈ kvs, (ip && isPrivate p.1) = false) →
      (∀ p ∈ kvs, J ip p.2) → J ip (.dict kvs)

theorem J_dict_inv {ip : Bool} {kvs : List (PyVal × PyVal)} (h : J ip (.dict kvs)) :
    StrKeys kvs ∧ (kvs.map (·.1)).Nodup ∧ (∀ p ∈ kvs, (ip && isPrivate p.1) = false) ∧ (∀ p ∈ kvs, J ip p.2) := by
  cases h with
  | basic hb => simp [isBasic] at hb
  | dict a b c d => exact ⟨a, b, c, d⟩

theorem sizeOf_child (kvs : List (PyVal × PyVal)) (p : PyVal × PyVal) (hp : p ∈ kvs) : sizeOf p.2 < sizeOf (PyVal.dict kvs) := by
  have h1 := List.sizeOf_lt_of_mem hp
  have h2 : sizeOf p.2 < sizeOf p := by
    cases p; simp; omega
  simp
  omega

theorem valAt_mem (kvs : List (PyVal × PyVal)) (hs : StrKeys kvs) (hn : (kvs.map (·.1)).Nodup) (k : PyVal) (hk : k ∈ kvs.map (·.1)) :
    (k, valAt kvs k) ∈ kvs := by
  obtain ⟨s, hks⟩ : ∃ s, k = .str s := by
    obtain ⟨p, hp, rfl⟩ := List.mem_map.1 hk; exact hs p hp
  exact mem_of_dictGet kvs hs k _ ⟨s, hks⟩ (dictGet_valAt kvs hs hn k hk)



/-- the tree of the diff of two dictionaries with string keys, at any level (when the "too different" shortcut does not fire) -/
theorem dict_tree {cfg : DCfg} (hp : Diff.Plain cfg) (al : Align) (hashOf : PyVal → String) (st : List Step) (kvs1 kvs2 : List (PyVal × PyVal))
    (hs1 : StrKeys kvs1) (hs2 : StrKeys kvs2) (hn1 : (kvs1.map (·.1)).Nodup) (hn2 : (kvs2.map (·.1)).Nodup)
    (hpriv : ∀ k, k ∈ kvs1.map (·.1) ∨ k ∈ kvs2.map (·.1) → (cfg.ignorePrivate && isPrivate k) = false)
    (hthr : belowThreshold cfg (interK kvs1 kvs2).length ((kvs2.map (·.1)) ++ removedK kvs1 kvs2).length = false) :
    (diffV cfg al hashOf st (.dict kvs1) (.dict kvs2)).tree =
      (addedK kvs1 kvs2).map (fun k => (Cat.dictAdded, addedLevel st .dict k (valAt kvs2 k))) ++
      (removedK kvs1 kvs2).map (fun k => (Cat.dictRemoved, removedLevel st .dict k (valAt kvs1 k))) ++
      (interK kvs1 kvs2).flatMap (fun k => (diffV cfg al hashOf (st ++ [⟨.dict, some k, some k⟩]) (valAt kvs1 k) (valAt kvs2 k)).tree) := by
  have hk1 := keysOf_plain hp st kvs1 (fun k hk => hpriv k (Or.inl hk))
  have hk2 := keysOf_plain hp st kvs2 (fun k hk => hpriv k (Or.inr hk))
  have hstr1 : ∀ k ∈ kvs1.map (·.1), ∃ s, k = .str s := by
    intro k hk; obtain ⟨p, hp', rfl⟩ := List.mem_map.1 hk; exact hs1 p hp'
  have hstr2 : ∀ k ∈ kvs2.map (·.1), ∃ s, k = .str s := by
    intro k hk; obtain ⟨p, hp', rfl⟩ := List.mem_map.1 hk; exact hs2 p hp'
  let K := kvs1.map (·.1) ++ kvs2.map (·.1)
  have hK : StrictKeys K := strictKeys_str K (fun k hk => by
    rcases List.mem_append.1 hk with h | h
    · exact hstr1 k h
    · exact hstr2 k h)
  have hdk1 := distinctKeys_of_nodup_str _ hstr1 hn1
  have hdk2 := distinctKeys_of_nodup_str _ hstr2 hn2
  have hkk1 : ∀ k ∈ kvs1.map (·.1), hashable k = true ∧ k ∈ K := fun k hk => ⟨hashable_str (hstr1 k hk), List.mem_append_left _ hk⟩
  have hkk2 : ∀ k ∈ kvs2.map (·.1), hashable k = true ∧ k ∈ K := fun k hk => ⟨hashable_str (hstr2 k hk), List.mem_append_right _ hk⟩
  simp only [interK, removedK] at hthr
  conv => lhs; unfold diffV
  simp only [hk1, hk2, hp.ex, List.isEmpty_nil, if_true, hthr, Bool.false_eq_true, if_false]
  rw [Result.tree_append]
  generalize hT : (List.foldl _ ({} : Result) _).tree = T
  have hfl := foldl_children_flat' _ _ (fun _ _ => rfl) _ _ T hT
  subst hfl
  simp only [List.nil_append]
  congr 1
  apply flatMap_congr'
  intro k hk
  obtain ⟨hk2m, hany⟩ := List.mem_filter.1 hk
  rw [List.any_eq_true] at hany
  obtain ⟨k', hk'1, hke⟩ := hany
  have : k' = k := (keyEq_str_iff (hstr1 k' hk'1) (hstr2 k hk2m)).1 hke
  subst this
  obtain ⟨⟨ka, v1⟩, hm10, he1⟩ := List.mem_map.1 hk'1
  obtain ⟨⟨kb, v2⟩, hm20, he2⟩ := List.mem_map.1 hk2m
  simp only at he1 he2
  subst he1
  have hm2 : (ka, v2) ∈ kvs2 := by rw [← he2]; exact hm20
  have hh : hashable ka = true := hashable_str (hstr1 ka hk'1)
  rw [children_find (skipSteps_plain hp) al hashOf K hK st kvs1 kvs2 hdk1 hkk1 hdk2 hkk2 (kvs2.map (·.1)) (fun k hk => hk) ka v1 v2 hm10 hm2 hk2m
    (hpriv ka (Or.inl hk'1))]
  simp only [valAt, dictGet_self' kvs1 ka v1 hdk1 hh hm10, dictGet_self' kvs2 ka v2 hdk2 hh hm2, Option.getD_some]

/-- the "too different" shortcut at any level -/
theorem dict_shortcut {cfg : DCfg} (hp : Diff.Plain cfg) (al : Align) (hashOf : PyVal → String) (st : List Step) (kvs1 kvs2 : List (PyVal × PyVal))
    (hpriv : ∀ k, k ∈ kvs1.map (·.1) ∨ k ∈ kvs2.map (·.1) → (cfg.ignorePrivate && isPrivate k) = false)
    (hthr : belowThreshold cfg (interK kvs1 kvs2).length ((kvs2.map (·.1)) ++ removedK kvs1 kvs2).length = true) :
    diffV cfg al hashOf st (.dict kvs1) (.dict kvs2) =
      ⟨[(.valuesChanged, { steps := st, t1 := some (.dict kvs1), t2 := some (.dict kvs2) })], []⟩ := by
  have hk1 := keysOf_plain hp st kvs1 (fun k hk => hpriv k (Or.inl hk))
  have hk2 := keysOf_plain hp st kvs2 (fun k hk => hpriv k (Or.inr hk))
  conv => lhs; unfold diffV
  simp only [interK, removedK] at hthr
  simp only [hk1, hk2, hp.ex, List.isEmpty_nil, if_true, hthr]

/-- set the item named by the last element of `p`; its container must be a dictionary -/
def setAt (root : PyVal) (p : DPath) (v : PyVal) : Option PyVal :=
  match p.getLast? with
  | Option.none => some v
  | some k =>
    match getAt root p.dropLast with
    | some (.dict kvs) => replaceAt root p.dropLast (.dict (dictSetK kvs k v))
    | _ => Option.none

/-- delete the item named by the last element of `p`; its container must be a dictionary that has the key -/
def delAt (root : PyVal) (p : DPath) : Option PyVal :=
  match p.getLast? with
  | Option.none => Option.none
  | some k =>
    match getAt root p.dropLast with
    | some (.dict kvs) =>
      if kvs.any (fun q => keyEq q.1 k) then replaceAt root p.dropLast (.dict (kvs.filter fun q => !keyEq q.1 k)) else Option.none
    | _ => Option.none

/-- `_do_verify_changes`: nothing to verify, or the recorded old value `==` the current one -/
def verifyOK (bidir : Bool) (c : Change) (cur : PyVal) : Bool :=
  !bidir || (match c.oldValue with | some o => pyEq o cur | Option.none => false)

/-- a `values_changed` / `type_changes` entry as a function on the root; `none` when anything would be logged -/
def pChange (bidir isType : Bool) (c : Change) (root : PyVal) : Option PyVal :=
  match getAt root c.path with
  | Option.none => Option.none
  | some cur =>
    match resolve isType c cur with
    | Option.none => Option.none
    | some res => if verifyOK bidir c cur then setAt root c.path res else Option.none

def pAdded (e : DPath × PyVal) (root : PyVal) : Option PyVal :=
  match e.1 with
  | [] => Option.none
  | _ => setAt root e.1 e.2

def pRemoved (bidir : Bool) (e : DPath × PyVal) (root : PyVal) : Option PyVal :=
  match getAt root e.1 with
  | Option.none => Option.none
  | some cur => if !bidir || pyEq e.2 cur then delAt root e.1 else Option.none

theorem getAt_snoc (root : PyVal) (p : DPath) (k : PyVal) : getAt root (p ++ [k]) = (getAt root p).bind (fun o => getItem o k) := by
  unfold getAt
  rw [List.foldlM_append]
  cases h : List.foldlM getItem root p with
  | none => rfl
  | some o => simp [List.foldlM]

theorem path_split : ∀ (p : DPath) (k : PyVal), p.getLast? = some k → p = p.dropLast ++ [k]
  | [], _, h => by simp at h
  | [a], k, h => by simp at h; simp [h]
  | a :: b :: l, k, h => by
    have h' : (b :: l).getLast? = some k := by simpa [List.getLast?_cons_cons] using h
    have ih := path_split (b :: l) k h'
    simp only [List.dropLast_cons₂, List.cons_append]
    rw [← ih]

theorem verify_if (bidir : Bool) (c : Change) (cur : PyVal) (h : verifyOK bidir c cur = true) (s1 s2 : AState) :
    (if (true && bidir && !(match c.oldValue with | some o => pyEq o cur | Option.none => false)) = true then s1 else s2) = s2 := by
  unfold verifyOK at h
  cases bidir with
  | false => simp
  | true =>
    cases hov : c.oldValue with
    | none => rw [hov] at h; simp at h
    | some o => rw [hov] at h; simp at h; simp [h]

/-- the bridge for changes -/
theorem applyChange_pure (bidir isType : Bool) (c : Change) (root r : PyVal) (h : pChange bidir isType c root = some r)
    (st : AState) (hr : st.root = root) : applyChange bidir isType true st c = { st with root := r } := by
  unfold pChange at h
  cases hg : getAt root c.path with
  | none => rw [hg] at h; cases h
  | some cur =>
    rw [hg] at h
    simp only at h
    cases hres : resolve isType c cur with
    | none => rw [hres] at h; cases h
    | some res =>
      rw [hres] at h
      simp only at h
      have hres' : (if (isType && c.newValue.isNone) = true then castTo c.newType cur else c.newValue) = some res := hres
      cases hv : verifyOK bidir c cur with
      | false => rw [hv] at h; simp at h
      | true =>
        rw [hv] at h
        simp only [if_true] at h
        unfold setAt at h
        cases hl : c.path.getLast? with
        | none =>
          rw [hl] at h
          have hp : c.path = [] := by
            cases hc : c.path with
            | nil => rfl
            | cons a l => rw [hc] at hl; simp at hl
          rw [hp] at hg
          have hcur : cur = root := by simpa [getAt] using hg.symm
          subst hcur
          simp only [Option.some.injEq] at h
          subst h
          unfold applyChange
          simp only [hl, hr, hres']
          exact verify_if bidir c cur hv _ _
        | some k =>
          rw [hl] at h
          simp only at h
          cases ho : getAt root c.path.dropLast with
          | none => rw [ho] at h; cases h
          | some obj =>
            rw [ho] at h
            cases obj with
            | dict kvs =>
              simp only at h
              have hsplit := path_split c.path k hl
              have hgi : getItem (.dict kvs) k = some cur := by
                rw [hsplit, getAt_snoc, ho] at hg
                simpa using hg
              unfold applyChange
              simp only [hl, hr, ho, hgi, hres']
              refine (verify_if bidir c cur hv _ _).trans ?_
              simp only [setNewValue, hl, withContainer, hr, ho, isTuple, Bool.false_eq_true, if_false, setElem, h, Nat.add_zero]
            | _ => simp at h


/-- the bridge for `dictionary_item_added` -/
theorem applyAdded_pure (e : DPath × PyVal) (root r : PyVal) (h : pAdded e root = some r)
    (st : AState) (hr : st.root = root) : applyAdded false st e = { st with root := r } := by
  unfold pAdded at h
  cases hp : e.1 with
  | nil => rw [hp] at h; cases h
  | cons a l =>
    rw [hp] at h
    simp only at h
    rw [← hp] at h
    unfold setAt at h
    cases hl : e.1.getLast? with
    | none => rw [hp] at hl; simp at hl
    | some k =>
      rw [hl] at h
      simp only at h
      cases ho : getAt root e.1.dropLast with
      | none => rw [ho] at h; cases h
      | some obj =>
        rw [ho] at h
        cases obj with
        | dict kvs =>
          simp only at h
          unfold applyAdded
          simp only [hl, hr, ho]
          simp only [setNewValue, hl, withContainer, hr, ho, isTuple, Bool.false_eq_true, if_false, setElem, h, Nat.add_zero]
        | _ => simp at h

/-- the bridge for `dictionary_item_removed` -/
theorem applyRemoved_pure (bidir : Bool) (e : DPath × PyVal) (root r : PyVal) (h : pRemoved bidir e root = some r)
    (st : AState) (hr : st.root = root) : applyRemoved bidir st e = { st with root := r } := by
  unfold pRemoved at h
  cases hg : getAt root e.1 with
  | none => rw [hg] at h; cases h
  | some cur =>
    rw [hg] at h
    simp only at h
    cases hv : (!bidir || pyEq e.2 cur) with
    | false => rw [hv] at h; simp at h
    | true =>
      rw [hv] at h
      simp only [if_true] at h
      unfold delAt at h
      cases hl : e.1.getLast? with
      | none => rw [hl] at h; cases h
      | some k =>
        rw [hl] at h
        simp only at h
        cases ho : getAt root e.1.dropLast with
        | none => rw [ho] at h; cases h
        | some obj =>
          rw [ho] at h
          cases obj with
          | dict kvs =>
            simp only at h
            cases hany : kvs.any (fun q => keyEq q.1 k) with
            | false => rw [hany] at h; simp at h
            | true =>
              rw [hany] at h
              simp only [if_true] at h
              have hsplit := path_split e.1 k hl
              have hgi : getItem (.dict kvs) k = some cur := by
                rw [hsplit, getAt_snoc, ho] at hg
                simpa using hg
              have hbv : (bidir && !pyEq e.2 cur) = false := by
                cases hb : bidir with
                | false => rfl
                | true => rw [hb] at hv; simp at hv; simp [hv]
              unfold applyRemoved
              simp only [hl, hr, ho, hgi]
              cases hlk : (!pyEq cur e.2) <;>
                simp only [withContainer, hr, ho, isTuple, Bool.false_eq_true, if_false, delElem, hany, if_true, h, hbv, Nat.add_zero]
          | _ => simp at h

/-- replace the value under an existing key -/
def updK (kvs : List (PyVal × PyVal)) (k r : PyVal) : List (PyVal × PyVal) :=
  kvs.map (fun q => if keyEq q.1 k then (q.1, r) else q)

theorem getAt_dict_cons (kvs : List (PyVal × PyVal)) (k : PyVal) (p : DPath) :
    getAt (.dict kvs) (k :: p) = (dictGet kvs k).bind (fun c => getAt c p) := by
  unfold getAt
  rw [List.foldlM_cons]
  rfl

theorem any_of_dictGet (kvs : List (PyVal × PyVal)) (k c : PyVal) (h : dictGet kvs k = some c) : kvs.any (fun q => keyEq q.1 k) = true := by
  unfold dictGet at h
  cases hf : kvs.find? (fun p => keyEq p.1 k) with
  | none => rw [hf] at h; cases h
  | some q =>
    rw [List.any_eq_true]
    exact ⟨q, List.mem_of_find?_eq_some hf, by have := List.find?_some hf; simpa using this⟩

theorem dictSetK_present (kvs : List (PyVal × PyVal)) (k c r : PyVal) (h : dictGet kvs k = some c) : dictSetK kvs k r = updK kvs k r := by
  unfold dictSetK updK
  rw [any_of_dictGet kvs k c h]; rfl

theorem replaceAt_cons (kvs : List (PyVal × PyVal)) (k c : PyVal) (p : DPath) (v : PyVal) (h : dictGet kvs k = some c) :
    replaceAt (.dict kvs) (k :: p) v = (replaceAt c p v).map (fun r => .dict (updK kvs k r)) := by
  rw [replaceAt]
  have : getItem (.dict kvs) k = some c := h
  rw [this]
  simp only
  cases replaceAt c p v with
  | none => rfl
  | some r => rfl

theorem setAt_cons (kvs : List (PyVal × PyVal)) (k c : PyVal) (p : DPath) (v : PyVal) (h : dictGet kvs k = some c) (hp : p ≠ []) :
    setAt (.dict kvs) (k :: p) v = (setAt c p v).map (fun r => .dict (updK kvs k r)) := by
  obtain ⟨a, l, rfl⟩ : ∃ a l, p = a :: l := by
    cases p with
    | nil => exact absurd rfl hp
    | cons a l => exact ⟨a, l, rfl⟩
  unfold setAt
  rw [List.getLast?_cons_cons, List.dropLast_cons_cons, getAt_dict_cons, h]
  simp only [Option.bind_some]
  cases hl : (a :: l).getLast? with
  | none => simp at hl
  | some kk =>
    simp only
    cases ho : getAt c (a :: l).dropLast with
    | none => rfl
    | some obj =>
      cases obj with
      | dict kvs' => simp only; rw [replaceAt_cons kvs k c _ _ h]
      | _ => rfl

theorem setAt_single (kvs : List (PyVal × PyVal)) (k v : PyVal) : setAt (.dict kvs) [k] v = some (.dict (dictSetK kvs k v)) := by
  simp [setAt, getAt, replaceAt]

theorem delAt_cons (kvs : List (PyVal × PyVal)) (k c : PyVal) (p : DPath) (h : dictGet kvs k = some c) (hp : p ≠ []) :
    delAt (.dict kvs) (k :: p) = (delAt c p).map (fun r => .dict (updK kvs k r)) := by
  obtain ⟨a, l, rfl⟩ : ∃ a l, p = a :: l := by
    cases p with
    | nil => exact absurd rfl hp
    | cons a l => exact ⟨a, l, rfl⟩
  unfold delAt
  rw [List.getLast?_cons_cons, List.dropLast_cons_cons, getAt_dict_cons, h]
  simp only [Option.bind_some]
  cases hl : (a :: l).getLast? with
  | none => simp at hl
  | some kk =>
    simp only
    cases ho : getAt c (a :: l).dropLast with
    | none => rfl
    | some obj =>
      cases obj with
      | dict kvs' =>
        simp only
        split
        · rw [replaceAt_cons kvs k c _ _ h]
        · rfl
      | _ => rfl

theorem delAt_single (kvs : List (PyVal × PyVal)) (k : PyVal) :
    delAt (.dict kvs) [k] = if kvs.any (fun q => keyEq q.1 k) then some (.dict (kvs.filter fun q => !keyEq q.1 k)) else Option.none := by
  simp [delAt, getAt, replaceAt]

/-- **a change whose path starts with a key acts on the child under that key** -/
theorem pChange_cons (bidir isType : Bool) (c : Change) (kvs : List (PyVal × PyVal)) (k child : PyVal) (p : DPath)
    (hp : c.path = k :: p) (hc : dictGet kvs k = some child) :
    pChange bidir isType c (.dict kvs) = (pChange bidir isType { c with path := p } child).map (fun r => .dict (updK kvs k r)) := by
  unfold pChange
  simp only [hp, getAt_dict_cons, hc, Option.bind_some]
  cases hg : getAt child p with
  | none => rfl
  | some cur =>
    simp only
    have hres : resolve isType { c with path := p } cur = resolve isType c cur := rfl
    have hver : verifyOK bidir { c with path := p } cur = verifyOK bidir c cur := rfl
    rw [hres, hver]
    cases resolve isType c cur with
    | none => rfl
    | some res =>
      simp only
      cases verifyOK bidir c cur with
      | false => rfl
      | true =>
        simp only [if_true]
        cases p with
        | nil =>
          rw [setAt_single, dictSetK_present kvs k child res hc]
          simp [setAt]
        | cons a l => exact setAt_cons kvs k child (a :: l) res hc (by simp)

theorem pAdded_cons (kvs : List (PyVal × PyVal)) (k child : PyVal) (p : DPath) (v : PyVal) (hc : dictGet kvs k = some child) (hp : p ≠ []) :
    pAdded (k :: p, v) (.dict kvs) = (pAdded (p, v) child).map (fun r => .dict (updK kvs k r)) := by
  obtain ⟨a, l, rfl⟩ : ∃ a l, p = a :: l := by
    cases p with
    | nil => exact absurd rfl hp
    | cons a l => exact ⟨a, l, rfl⟩
  simp only [pAdded]
  exact setAt_cons kvs k child (a :: l) v hc (by simp)

theorem pAdded_single (kvs : List (PyVal × PyVal)) (k v : PyVal) : pAdded ([k], v) (.dict kvs) = some (.dict (dictSetK kvs k v)) := by
  simp only [pAdded]; exact setAt_single kvs k v

theorem pRemoved_cons (bidir : Bool) (kvs : List (PyVal × PyVal)) (k child : PyVal) (p : DPath) (v : PyVal) (hc : dictGet kvs k = some child)
    (hp : p ≠ []) :
    pRemoved bidir (k :: p, v) (.dict kvs) = (pRemoved bidir (p, v) child).map (fun r => .dict (updK kvs k r)) := by
  unfold pRemoved
  simp only [getAt_dict_cons, hc, Option.bind_some]
  cases hg : getAt child p with
  | none => rfl
  | some cur =>
    simp only
    split
    · exact delAt_cons kvs k child p hc hp
    · rfl

theorem pRemoved_single (bidir : Bool) (kvs : List (PyVal × PyVal)) (k v cur : PyVal) (hc : dictGet kvs k = some cur)
    (hv : bidir = true → pyEq v cur = true) :
    pRemoved bidir ([k], v) (.dict kvs) = some (.dict (kvs.filter fun q => !keyEq q.1 k)) := by
  unfold pRemoved
  have hg : getAt (.dict kvs) [k] = some cur := by rw [getAt_dict_cons, hc]; rfl
  rw [hg]
  simp only
  have : (!bidir || pyEq v cur) = true := by
    cases hb : bidir with
    | false => rfl
    | true => simp [hv hb]
  rw [this]
  simp only [if_true]
  rw [delAt_single, any_of_dictGet kvs k cur hc]
  rfl

/-- an operation on a dictionary, named by the key it touches -/
inductive KOp
  | upd (k : PyVal) (f : PyVal → Option PyVal)
  | set (k v : PyVal)
  | del (k : PyVal) (g : PyVal → Bool)

def KOp.key : KOp → PyVal
  | .upd k _ => k
  | .set k _ => k
  | .del k _ => k

def stepK (kvs : List (PyVal × PyVal)) : KOp → Option (List (PyVal × PyVal))
  | .upd k f => (dictGet kvs k).bind (fun c => (f c).map (updK kvs k))
  | .set k v => some (dictSetK kvs k v)
  | .del k g => (dictGet kvs k).bind (fun c => if g c then some (kvs.filter fun q => !keyEq q.1 k) else Option.none)

def runK : List KOp → List (PyVal × PyVal) → Option (List (PyVal × PyVal))
  | [], kvs => some kvs
  | op :: ops, kvs => (stepK kvs op).bind (runK ops)

/-- what one operation does to the state of its own key (`none` = absent) -/
def actK : KOp → Option PyVal → Option (Option PyVal)
  | .upd _ f, some c => (f c).map some
  | .upd _ _, Option.none => Option.none
  | .set _ v, _ => some (some v)
  | .del _ g, some c => if g c then some Option.none else Option.none
  | .del _ _, Option.none => Option.none

/-- the evolution of the state of key `k` through a run -/
def evoK (k : PyVal) : List KOp → Option PyVal → Option (Option PyVal)
  | [], s => some s
  | op :: ops, s => if keyEq op.key k then (actK op s).bind (evoK k ops) else evoK k ops s

theorem updK_keys (kvs : List (PyVal × PyVal)) (k r : PyVal) : (updK kvs k r).map (·.1) = kvs.map (·.1) := by
  unfold updK
  rw [List.map_map]
  apply List.map_congr_left
  intro q _
  simp only [Function.comp]
  split <;> rfl

theorem updK_strKeys (kvs : List (PyVal × PyVal)) (hs : StrKeys kvs) (k r : PyVal) : StrKeys (updK kvs k r) := by
  intro p hp
  have : p.1 ∈ (updK kvs k r).map (·.1) := List.mem_map.2 ⟨p, hp, rfl⟩
  rw [updK_keys] at this
  obtain ⟨q, hq, he⟩ := List.mem_map.1 this
  rw [← he]; exact hs q hq

theorem updK_get_same (kvs : List (PyVal × PyVal)) (hs : StrKeys kvs) (hn : (kvs.map (·.1)).Nodup) (k c r : PyVal)
    (hk : ∃ s, k = .str s) (hc : dictGet kvs k = some c) : dictGet (updK kvs k r) k = some r := by
  have hm := mem_of_dictGet kvs hs k c hk hc
  have hmem : (k, r) ∈ updK kvs k r := by
    unfold updK
    apply List.mem_map.2
    refine ⟨(k, c), hm, ?_⟩
    simp [(keyEq_str_iff hk hk).2 rfl]
  exact dictGet_of_mem _ (updK_strKeys kvs hs k r) (by rw [updK_keys]; exact hn) k r hmem

theorem updK_get_other (kvs : List (PyVal × PyVal)) (hs : StrKeys kvs) (k r k' : PyVal)
    (hk : ∃ s, k = .str s) (hk' : ∃ s, k' = .str s) (hne : k ≠ k') : dictGet (updK kvs k r) k' = dictGet kvs k' := by
  unfold dictGet updK
  rw [List.find?_map]
  have : ((fun p : PyVal × PyVal => keyEq p.1 k') ∘ fun q : PyVal × PyVal => if keyEq q.1 k then (q.1, r) else q) = (fun p => keyEq p.1 k') := by
    funext q
    simp only [Function.comp]
    split <;> rfl
  rw [this]
  cases hf : kvs.find? (fun p => keyEq p.1 k') with
  | none => rfl
  | some q =>
    simp only [Option.map_some]
    have hq := List.mem_of_find?_eq_some hf
    have hke : keyEq q.1 k' = true := by have := List.find?_some hf; simpa using this
    have e1 := (keyEq_str_iff (hs q hq) hk').1 hke
    have : keyEq q.1 k = false := by
      cases h2 : keyEq q.1 k with
      | false => rfl
      | true => exact absurd (((keyEq_str_iff (hs q hq) hk).1 h2).symm.trans e1) hne
    simp [this]


/-- one step: the key's own state follows `actK`, every other string key keeps its state -/
theorem stepK_spec (kvs : List (PyVal × PyVal)) (hs : StrKeys kvs) (hn : (kvs.map (·.1)).Nodup) (op : KOp)
    (hk : ∃ s, op.key = .str s) (s1 : Option PyVal) (hact : actK op (dictGet kvs op.key) = some s1) :
    ∃ kvs', stepK kvs op = some kvs' ∧ StrKeys kvs' ∧ (kvs'.map (·.1)).Nodup ∧ dictGet kvs' op.key = s1 ∧
      ∀ k', (∃ s, k' = .str s) → op.key ≠ k' → dictGet kvs' k' = dictGet kvs k' := by
  cases op with
  | upd k f =>
    simp only [KOp.key] at hk hact ⊢
    cases hc : dictGet kvs k with
    | none => rw [hc] at hact; simp [actK] at hact
    | some c =>
      rw [hc] at hact
      simp only [actK] at hact
      cases hf : f c with
      | none => rw [hf] at hact; simp at hact
      | some r =>
        rw [hf] at hact
        simp only [Option.map_some, Option.some.injEq] at hact
        subst hact
        refine ⟨updK kvs k r, by simp [stepK, hc, hf], updK_strKeys kvs hs k r, by rw [updK_keys]; exact hn,
          updK_get_same kvs hs hn k c r hk hc, ?_⟩
        intro k' hk' hne
        exact updK_get_other kvs hs k r k' hk hk' hne
  | set k v =>
    simp only [KOp.key] at hk hact ⊢
    have hs1 : s1 = some v := by
      cases hd : dictGet kvs k <;> rw [hd] at hact <;> simp [actK] at hact <;> exact hact.symm
    subst hs1
    have e : dictSetK kvs k v = stepOp kvs (k, some v) := rfl
    refine ⟨dictSetK kvs k v, rfl, ?_, ?_, ?_, ?_⟩
    · rw [e]; exact strKeys_step kvs hs (k, some v) hk
    · rw [e]; exact nodup_step kvs hs hn (k, some v) hk
    · rw [e]; exact get_step_same kvs hs hn (k, some v) hk
    · intro k' hk' hne
      rw [e]; exact get_step_other kvs hs (k, some v) hk k' hk' hne
  | del k g =>
    simp only [KOp.key] at hk hact ⊢
    cases hc : dictGet kvs k with
    | none => rw [hc] at hact; simp [actK] at hact
    | some c =>
      rw [hc] at hact
      simp only [actK] at hact
      cases hg : g c with
      | false => rw [hg] at hact; simp at hact
      | true =>
      rw [hg] at hact
      simp only [if_true, Option.some.injEq] at hact
      subst hact
      have e : (kvs.filter fun q => !keyEq q.1 k) = stepOp kvs (k, Option.none) := rfl
      refine ⟨kvs.filter fun q => !keyEq q.1 k, by simp [stepK, hc, hg], ?_, ?_, ?_, ?_⟩
      · rw [e]; exact strKeys_step kvs hs (k, Option.none) hk
      · rw [e]; exact nodup_step kvs hs hn (k, Option.none) hk
      · rw [e]; exact get_step_same kvs hs hn (k, Option.none) hk
      · intro k' hk' hne
        rw [e]; exact get_step_other kvs hs (k, Option.none) hk k' hk' hne

/-- **the lookup of every key after a run of keyed operations** -/
theorem runK_spec : ∀ (ops : List KOp) (kvs : List (PyVal × PyVal)), StrKeys kvs → (kvs.map (·.1)).Nodup →
    (∀ op ∈ ops, ∃ s, op.key = .str s) →
    (∀ k, (∃ s, k = .str s) → (evoK k ops (dictGet kvs k)).isSome = true) →
    ∃ kvs', runK ops kvs = some kvs' ∧ StrKeys kvs' ∧ (kvs'.map (·.1)).Nodup ∧
      ∀ k, (∃ s, k = .str s) → evoK k ops (dictGet kvs k) = some (dictGet kvs' k)
  | [], kvs, hs, hn, _, _ => ⟨kvs, rfl, hs, hn, fun _ _ => rfl⟩
  | op :: ops, kvs, hs, hn, hks, hev => by
    have hk0 := hks op (List.mem_cons_self ..)
    have hself : keyEq op.key op.key = true := (keyEq_str_iff hk0 hk0).2 rfl
    -- the key's own step succeeds
    have h0 := hev op.key hk0
    simp only [evoK, hself, if_true] at h0
    cases hact : actK op (dictGet kvs op.key) with
    | none => rw [hact] at h0; simp at h0
    | some s1 =>
      obtain ⟨kvs1, hstep, hs1, hn1, hget, hother⟩ := stepK_spec kvs hs hn op hk0 s1 hact
      have hev1 : ∀ k, (∃ s, k = .str s) → (evoK k ops (dictGet kvs1 k)).isSome = true ∧
          evoK k (op :: ops) (dictGet kvs k) = evoK k ops (dictGet kvs1 k) := by
        intro k hk
        by_cases he : op.key = k
        · subst he
          have := hev op.key hk0
          simp only [evoK, hself, if_true, hact, Option.bind_some] at this ⊢
          rw [hget]
          exact ⟨this, rfl⟩
        · have hne : keyEq op.key k = false := by
            cases h : keyEq op.key k with
            | false => rfl
            | true => exact absurd ((keyEq_str_iff hk0 hk).1 h) he
          have := hev k hk
          simp only [evoK, hne, Bool.false_eq_true, if_false] at this ⊢
          rw [hother k hk he]
          exact ⟨this, rfl⟩
      obtain ⟨kvs', hrun, hs', hn', hfin⟩ := runK_spec ops kvs1 hs1 hn1 (fun o ho => hks o (List.mem_cons_of_mem _ ho))
        (fun k hk => (hev1 k hk).1)
      refine ⟨kvs', by simp [runK, hstep, hrun], hs', hn', ?_⟩
      intro k hk
      rw [(hev1 k hk).2]
      exact hfin k hk

/-- an entry one level further down: its steps continue `st` -/
def shiftE (st : List Step) (e : Cat × Level) : Cat × Level := (e.1, { e.2 with steps := st ++ e.2.steps })

theorem leafDiff_shift (st s : List Step) (a b : PyVal) : leafDiff (st ++ s) a b = (leafDiff s a b).map (shiftE st) := by
  unfold leafDiff
  split
  · split <;> rfl
  · split <;> rfl
  · rfl
  · split <;> rfl

theorem sizeOf_pos (a : PyVal) : 0 < sizeOf a := by
  cases a <;> simp <;> omega

theorem J_of_valAt {ip : Bool} (kvs : List (PyVal × PyVal)) (hj : J ip (.dict kvs)) (k : PyVal) : J ip (valAt kvs k) := by
  obtain ⟨_, _, _, hv⟩ := J_dict_inv hj
  unfold valAt dictGet
  cases hf : kvs.find? (fun p => keyEq p.1 k) with
  | none => exact J.basic rfl
  | some q => exact hv q (List.mem_of_find?_eq_some hf)

theorem valAt_size (kvs : List (PyVal × PyVal)) (hs : StrKeys kvs) (hn : (kvs.map (·.1)).Nodup) (k : PyVal) (hk : k ∈ kvs.map (·.1)) :
    sizeOf (valAt kvs k) < sizeOf (PyVal.dict kvs) :=
  sizeOf_child kvs (k, valAt kvs k) (valAt_mem kvs hs hn k hk)

set_option maxHeartbeats 1000000 in
/-- on nested dictionaries the diff records no opcodes, and the tree at a deeper level is the shifted tree -/
theorem J_diff {cfg : DCfg} (hp : Diff.Plain cfg) (al : Align) (hashOf : PyVal → String) :
    ∀ (n : Nat) (a b : PyVal), sizeOf a ≤ n → J cfg.ignorePrivate a → J cfg.ignorePrivate b →
      (∀ s, (diffV cfg al hashOf s a b).opcodes = []) ∧
      (∀ st s, (diffV cfg al hashOf (st ++ s) a b).tree = (diffV cfg al hashOf s a b).tree.map (shiftE st)) := by
  intro n
  induction n with
  | zero => intro a b h; have := sizeOf_pos a; omega
  | succ n ih =>
    intro a b hsz ja jb
    cases ja with
    | basic hb =>
      refine ⟨fun s => diffV_basic_opcodes cfg al hashOf s a b hb, ?_⟩
      intro st s
      rw [diffV_basic cfg al hashOf (st ++ s) a b hb, diffV_basic cfg al hashOf s a b hb]
      split
      · rfl
      · exact leafDiff_shift st s a b
    | @dict kvs1 hs1 hn1 hp1 hv1 =>
      cases jb with
      | basic hb =>
        constructor
        · intro s; cases b <;> simp [isBasic] at hb <;> simp only [diffV]
        · intro st s; cases b <;> simp [isBasic] at hb <;> simp only [diffV] <;> rfl
      | @dict kvs2 hs2 hn2 hp2 hv2 =>
        have hpriv : ∀ k, k ∈ kvs1.map (·.1) ∨ k ∈ kvs2.map (·.1) → (cfg.ignorePrivate && isPrivate k) = false := by
          intro k hk
          rcases hk with hk | hk <;> obtain ⟨p, hpm, rfl⟩ := List.mem_map.1 hk
          · exact hp1 p hpm
          · exact hp2 p hpm
        have jd1 : J cfg.ignorePrivate (.dict kvs1) := J.dict hs1 hn1 hp1 hv1
        have jd2 : J cfg.ignorePrivate (.dict kvs2) := J.dict hs2 hn2 hp2 hv2
        have hchild : ∀ k ∈ interK kvs1 kvs2,
            (∀ s, (diffV cfg al hashOf s (valAt kvs1 k) (valAt kvs2 k)).opcodes = []) ∧
            (∀ st s, (diffV cfg al hashOf (st ++ s) (valAt kvs1 k) (valAt kvs2 k)).tree =
              (diffV cfg al hashOf s (valAt kvs1 k) (valAt kvs2 k)).tree.map (shiftE st)) := by
          intro k hk
          have hk1 : k ∈ kvs1.map (·.1) := ((flatKeys kvs1 kvs2 hs1 hs2 hn1 hn2).mem_inter k).1 hk |>.1
          have := valAt_size kvs1 hs1 hn1 k hk1
          exact ih (valAt kvs1 k) (valAt kvs2 k) (by omega) (J_of_valAt kvs1 jd1 k) (J_of_valAt kvs2 jd2 k)
        constructor
        · -- opcodes
          intro s
          have hch : ∀ k2s, ∀ q ∈ diffKVs cfg al hashOf s kvs1 kvs2 k2s, q.2.opcodes = [] := by
            intro k2s q hq
            obtain ⟨k1, v1, kk, v2, hm, _, _, hg2, rfl⟩ := (mem_diffKVs cfg al hashOf s kvs2 k2s kvs1 q).1 hq
            simp only
            split
            · rfl
            · have hsz1 : sizeOf v1 < sizeOf (PyVal.dict kvs1) := sizeOf_child kvs1 (k1, v1) hm
              have jv2 : J cfg.ignorePrivate v2 := by
                have := J_of_valAt kvs2 jd2 kk
                simpa [valAt, hg2] using this
              exact (ih v1 v2 (by omega) (hv1 (k1, v1) hm) jv2).1 _
          conv => lhs; unfold diffV
          simp only
          split <;> split
          · rfl
          · simp only [Result.append_def, List.nil_append]
            exact foldl_opcodes_nil _ _ (hch _)
          · rfl
          · simp only [Result.append_def, List.nil_append]
            exact foldl_opcodes_nil _ _ (hch _)
        · intro st s
          cases hthr : belowThreshold cfg (interK kvs1 kvs2).length ((kvs2.map (·.1)) ++ removedK kvs1 kvs2).length with
          | true =>
            rw [dict_shortcut hp al hashOf (st ++ s) kvs1 kvs2 hpriv hthr, dict_shortcut hp al hashOf s kvs1 kvs2 hpriv hthr]
            rfl
          | false =>
            rw [dict_tree hp al hashOf (st ++ s) kvs1 kvs2 hs1 hs2 hn1 hn2 hpriv hthr,
              dict_tree hp al hashOf s kvs1 kvs2 hs1 hs2 hn1 hn2 hpriv hthr]
            simp only [List.map_append, List.map_map, List.map_flatMap]
            congr 1
            · congr 1
              · apply List.map_congr_left
                intro k _
                simp [shiftE, addedLevel]
              · apply List.map_congr_left
                intro k _
                simp [shiftE, removedLevel]
            · apply flatMap_congr'
              intro k hk
              rw [List.append_assoc]
              exact (hchild k hk).2 st _

/-- the dictionary step for key `k` -/
def dstep (k : PyVal) : Step := ⟨.dict, some k, some k⟩

def consC (k : PyVal) (c : Change) : Change := { c with path := k :: c.path, newPath := c.newPath.map (k :: ·) }
def consP (k : PyVal) (e : DPath × PyVal) : DPath × PyVal := (k :: e.1, e.2)

theorem sidePath_cons (k : PyVal) (steps : List Step) (b : Bool) :
    sidePath (dstep k :: steps) b = (sidePath steps b).map (k :: ·) := by
  unfold sidePath
  rw [List.mapM_cons]
  have : (dstep k).param b = some k := by cases b <;> rfl
  rw [this]
  cases List.mapM (fun s => s.param b) steps <;> rfl

theorem vcF_shift (directed : Bool) (k : PyVal) (hk : (k == k) = true) (e : Cat × Level) :
    vcF directed (shiftE [dstep k] e) = (vcF directed e).map (consC k) := by
  unfold vcF shiftE
  simp only [List.singleton_append, sidePath_cons]
  cases h1 : sidePath e.2.steps false with
  | none => rfl
  | some p =>
    cases h2 : sidePath e.2.steps true with
    | none => rfl
    | some p2 =>
      have hb : ((k :: p) == (k :: p2)) = (p == p2) := by
        show (k == k && p == p2) = (p == p2)
        rw [hk, Bool.true_and]
      cases directed <;> simp [consC, hb] <;> split <;> simp_all

theorem tcF_shift (directed always : Bool) (k : PyVal) (hk : (k == k) = true) (e : Cat × Level) :
    tcF directed always (shiftE [dstep k] e) = (tcF directed always e).map (consC k) := by
  unfold tcF shiftE
  simp only [List.singleton_append, sidePath_cons]
  cases h1 : sidePath e.2.steps false with
  | none => rfl
  | some p =>
    cases h2 : sidePath e.2.steps true with
    | none => rfl
    | some p2 =>
      have hb : ((k :: p) == (k :: p2)) = (p == p2) := by
        show (k == k && p == p2) = (p == p2)
        rw [hk, Bool.true_and]
      cases directed <;> simp [consC, hb] <;> split <;> simp_all

theorem plainF_shift (k : PyVal) (e : Cat × Level) : plainF (shiftE [dstep k] e) = (plainF e).map (consP k) := by
  unfold plainF shiftE
  simp only [List.singleton_append, sidePath_cons]
  cases sidePath e.2.steps false <;> rfl

theorem catMap_shift {β : Type} (c : Cat) (F : Cat × Level → Option β) (g : β → β) (k : PyVal)
    (hF : ∀ e, F (shiftE [dstep k] e) = (F e).map g) (t : Tree) :
    catMap c F (t.map (shiftE [dstep k])) = (catMap c F t).map g := by
  unfold catMap
  induction t with
  | nil => rfl
  | cons e t ih =>
    simp only [List.map_cons, List.filter_cons]
    have hc : (shiftE [dstep k] e).1 = e.1 := rfl
    rw [hc]
    split
    · simp only [List.filterMap_cons, hF]
      cases F e with
      | none => simpa using ih
      | some b => simp [ih]
    · exact ih


/-- a run of pure steps; `none` as soon as one fails -/
def foldO {α} (f : α → PyVal → Option PyVal) : List α → PyVal → Option PyVal
  | [], v => some v
  | x :: xs, v => (f x v).bind (foldO f xs)

/-- the four phases that touch nested dictionaries, as pure functions; `ys` is the order the removals are applied in -/
def run4 (bidir : Bool) (vc tc : List Change) (da ys : List (DPath × PyVal)) (v : PyVal) : Option PyVal :=
  (foldO (pChange bidir false) vc v).bind fun v1 =>
    (foldO (pChange bidir true) tc v1).bind fun v2 =>
      (foldO pAdded da v2).bind (foldO (pRemoved bidir) ys)

theorem foldO_append {α} (f : α → PyVal → Option PyVal) (xs ys : List α) (v : PyVal) :
    foldO f (xs ++ ys) v = (foldO f xs v).bind (foldO f ys) := by
  induction xs generalizing v with
  | nil => rfl
  | cons x xs ih =>
    simp only [List.cons_append, foldO]
    cases f x v with
    | none => rfl
    | some w => simp [ih]

theorem runK_append (a b : List KOp) (kvs : List (PyVal × PyVal)) : runK (a ++ b) kvs = (runK a kvs).bind (runK b) := by
  induction a generalizing kvs with
  | nil => rfl
  | cons op a ih =>
    simp only [List.cons_append, runK]
    cases stepK kvs op with
    | none => rfl
    | some w => simp [ih]

/-- a run of pure steps on a root dictionary, each of which is a keyed operation -/
theorem foldO_runK {α} (f : α → PyVal → Option PyVal) (toK : α → KOp) :
    ∀ (xs : List α), (∀ x ∈ xs, ∀ kvs, f x (.dict kvs) = (stepK kvs (toK x)).map PyVal.dict) →
      ∀ kvs, foldO f xs (.dict kvs) = (runK (xs.map toK) kvs).map PyVal.dict
  | [], _, kvs => rfl
  | x :: xs, h, kvs => by
    simp only [foldO, List.map_cons, runK, h x (List.mem_cons_self ..) kvs]
    cases stepK kvs (toK x) with
    | none => rfl
    | some w =>
      simp only [Option.map_some, Option.bind_some]
      exact foldO_runK f toK xs (fun y hy => h y (List.mem_cons_of_mem _ hy)) w

theorem pChange_consC (bidir isType : Bool) (k : PyVal) (c : Change) (kvs : List (PyVal × PyVal)) :
    pChange bidir isType (consC k c) (.dict kvs) = (stepK kvs (.upd k (pChange bidir isType c))).map PyVal.dict := by
  simp only [stepK]
  cases hc : dictGet kvs k with
  | none =>
    unfold pChange
    simp [consC, getAt_dict_cons, hc]
  | some child =>
    rw [pChange_cons bidir isType (consC k c) kvs k child c.path rfl hc]
    have : ({ consC k c with path := c.path } : Change) = { c with newPath := c.newPath.map (k :: ·) } := rfl
    rw [this]
    have hsame : pChange bidir isType { c with newPath := c.newPath.map (k :: ·) } child = pChange bidir isType c child := rfl
    rw [hsame]
    simp [Option.map_map, Function.comp_def]

theorem pAdded_consP (k : PyVal) (e : DPath × PyVal) (he : e.1 ≠ []) (kvs : List (PyVal × PyVal)) :
    pAdded (consP k e) (.dict kvs) = (stepK kvs (.upd k (pAdded e))).map PyVal.dict := by
  simp only [stepK]
  cases hc : dictGet kvs k with
  | none =>
    obtain ⟨a, l, hal⟩ : ∃ a l, e.1 = a :: l := by
      cases h : e.1 with
      | nil => exact absurd h he
      | cons a l => exact ⟨a, l, rfl⟩
    simp only [pAdded, consP, setAt, hal, List.getLast?_cons_cons, List.dropLast_cons_cons, getAt_dict_cons, hc]
    cases hl : (a :: l).getLast? with
    | none => simp at hl
    | some kk => simp
  | some child =>
    have := pAdded_cons kvs k child e.1 e.2 hc he
    simp only [consP]
    rw [this]
    simp [Option.map_map, Function.comp_def]

theorem pAdded_level (k v : PyVal) (kvs : List (PyVal × PyVal)) :
    pAdded ([k], v) (.dict kvs) = (stepK kvs (.set k v)).map PyVal.dict := by
  rw [pAdded_single]; rfl

theorem pRemoved_consP (bidir : Bool) (k : PyVal) (e : DPath × PyVal) (he : e.1 ≠ []) (kvs : List (PyVal × PyVal)) :
    pRemoved bidir (consP k e) (.dict kvs) = (stepK kvs (.upd k (pRemoved bidir e))).map PyVal.dict := by
  simp only [stepK]
  cases hc : dictGet kvs k with
  | none => simp [pRemoved, consP, getAt_dict_cons, hc]
  | some child =>
    have := pRemoved_cons bidir kvs k child e.1 e.2 hc he
    simp only [consP]
    rw [this]
    simp [Option.map_map, Function.comp_def]

theorem pRemoved_level (bidir : Bool) (k v : PyVal) (kvs : List (PyVal × PyVal)) :
    pRemoved bidir ([k], v) (.dict kvs) = (stepK kvs (.del k (fun c => !bidir || pyEq v c))).map PyVal.dict := by
  simp only [stepK]
  cases hc : dictGet kvs k with
  | none => simp [pRemoved, getAt_dict_cons, hc]
  | some cur =>
    simp only [Option.bind_some]
    by_cases hg : (!bidir || pyEq v cur) = true
    · have hv : bidir = true → pyEq v cur = true := by
        intro hb; rw [hb] at hg; simpa using hg
      rw [pRemoved_single bidir kvs k v cur hc hv]
      simp [hg]
    · unfold pRemoved
      have hgg : getAt (.dict kvs) [k] = some cur := by rw [getAt_dict_cons, hc]; rfl
      rw [hgg]
      simp [hg]

theorem evoK_append (k : PyVal) (a b : List KOp) (s : Option PyVal) : evoK k (a ++ b) s = (evoK k a s).bind (evoK k b) := by
  induction a generalizing s with
  | nil => rfl
  | cons op a ih =>
    simp only [List.cons_append, evoK]
    split
    · cases actK op s with
      | none => rfl
      | some s1 => simp [ih]
    · exact ih s

theorem evoK_other (k : PyVal) (ops : List KOp) (s : Option PyVal) (h : ∀ op ∈ ops, keyEq op.key k = false) : evoK k ops s = some s := by
  induction ops with
  | nil => rfl
  | cons op ops ih =>
    simp only [evoK, h op (List.mem_cons_self ..), Bool.false_eq_true, if_false]
    exact ih (fun o ho => h o (List.mem_cons_of_mem _ ho))

theorem evoK_upd_map {α} (k : PyVal) (hk : keyEq k k = true) (F : α → PyVal → Option PyVal) :
    ∀ (xs : List α) (c : PyVal), evoK k (xs.map (fun x => KOp.upd k (F x))) (some c) = (foldO F xs c).map some
  | [], c => rfl
  | x :: xs, c => by
    simp only [List.map_cons, evoK, KOp.key, hk, if_true, actK, foldO]
    cases F x c with
    | none => rfl
    | some r => simp [evoK_upd_map k hk F xs r]

theorem evoK_flatMap (k : PyVal) (hk : ∃ s, k = .str s) (g : PyVal → List KOp) :
    ∀ (L : List PyVal), L.Nodup → (∀ k' ∈ L, ∃ s, k' = .str s) → (∀ k' ∈ L, ∀ op ∈ g k', op.key = k') → ∀ s,
      (k ∈ L → evoK k (L.flatMap g) s = evoK k (g k) s) ∧ (k ∉ L → evoK k (L.flatMap g) s = some s)
  | [], _, _, _, s => by simp [evoK]
  | k' :: L, hn, hs, hg, s => by
    rw [List.nodup_cons] at hn
    have ih := evoK_flatMap k hk g L hn.2 (fun x hx => hs x (List.mem_cons_of_mem _ hx)) (fun x hx => hg x (List.mem_cons_of_mem _ hx))
    rw [List.flatMap_cons, evoK_append]
    by_cases he : k' = k
    · subst he
      have hnot : k' ∉ L := hn.1
      refine ⟨fun _ => ?_, fun h => absurd (List.mem_cons_self ..) h⟩
      cases evoK k' (g k') s with
      | none => rfl
      | some s1 => simp [(ih s1).2 hnot]
    · have hoth : ∀ op ∈ g k', keyEq op.key k = false := by
        intro op hop
        rw [hg k' (List.mem_cons_self ..) op hop]
        cases h : keyEq k' k with
        | false => rfl
        | true => exact absurd ((keyEq_str_iff (hs k' (List.mem_cons_self ..)) hk).1 h) he
      rw [evoK_other k (g k') s hoth]
      simp only [Option.bind_some]
      constructor
      · intro hm
        rcases List.mem_cons.1 hm with h | h
        · exact absurd h.symm he
        · exact (ih s).1 h
      · intro hm
        exact (ih s).2 (fun h => hm (List.mem_cons_of_mem _ h))

/-- `==` is reflexive on nested dictionaries of scalars -/
theorem pyEq_refl_J {ip : Bool} : ∀ (n : Nat) (v : PyVal), sizeOf v ≤ n → J ip v → pyEq v v = true := by
  intro n
  induction n with
  | zero => intro v h; have := sizeOf_pos v; omega
  | succ n ih =>
    intro v hsz jv
    cases jv with
    | basic hb => exact pyEq_refl_basic' v hb
    | @dict kvs hs hn hp hv =>
      apply pyEq_dict_of_lookup kvs kvs hs hn hs hn
      intro k hk
      refine ⟨fun x hx => ⟨x, hx, ?_⟩, fun h => h⟩
      have hm := mem_of_dictGet kvs hs k x hk hx
      have hsz1 : sizeOf x < sizeOf (PyVal.dict kvs) := sizeOf_child kvs (k, x) hm
      exact ih x (by omega) (hv (k, x) hm)

theorem pyEq_self_J {ip : Bool} (v : PyVal) (h : J ip v) : pyEq v v = true := pyEq_refl_J (sizeOf v) v (Nat.le_refl _) h

theorem evoK_filter (k : PyVal) : ∀ (ops : List KOp) (s : Option PyVal),
    evoK k ops s = evoK k (ops.filter (fun op => keyEq op.key k)) s
  | [], _ => rfl
  | op :: ops, s => by
    simp only [evoK, List.filter_cons]
    cases h : keyEq op.key k with
    | true =>
      simp only [if_true, evoK, h]
      cases actK op s with
      | none => rfl
      | some s1 => simp [evoK_filter k ops s1]
    | false =>
      simp only [Bool.false_eq_true, if_false]
      exact evoK_filter k ops s

theorem filter_flatMap_mem {α} (P : α → Bool) (g : PyVal → List α) : ∀ (L : List PyVal) (k : PyVal), L.Nodup → k ∈ L →
    (∀ x ∈ g k, P x = true) → (∀ k' ∈ L, k' ≠ k → ∀ x ∈ g k', P x = false) → (L.flatMap g).filter P = g k
  | [], _, _, h, _, _ => by simp at h
  | k' :: L, k, hn, hm, h1, h2 => by
    rw [List.nodup_cons] at hn
    rw [List.flatMap_cons, List.filter_append]
    by_cases he : k' = k
    · subst he
      have e1 : (g k').filter P = g k' := List.filter_eq_self.2 h1
      have e2 : (L.flatMap g).filter P = [] := by
        rw [List.filter_eq_nil_iff]
        intro x hx
        obtain ⟨k2, hk2, hx2⟩ := List.mem_flatMap.1 hx
        have : k2 ≠ k' := fun e => hn.1 (e ▸ hk2)
        simp [h2 k2 (List.mem_cons_of_mem _ hk2) this x hx2]
      rw [e1, e2, List.append_nil]
    · have e1 : (g k').filter P = [] := by
        rw [List.filter_eq_nil_iff]
        intro x hx
        simp [h2 k' (List.mem_cons_self ..) he x hx]
      have hm' : k ∈ L := by
        rcases List.mem_cons.1 hm with h | h
        · exact absurd h.symm he
        · exact h
      rw [e1, List.nil_append]
      exact filter_flatMap_mem P g L k hn.2 hm' h1 (fun k2 hk2 hne => h2 k2 (List.mem_cons_of_mem _ hk2) hne)

theorem filter_flatMap_none {α} (P : α → Bool) (g : PyVal → List α) (L : List PyVal)
    (h : ∀ k' ∈ L, ∀ x ∈ g k', P x = false) : (L.flatMap g).filter P = [] := by
  rw [List.filter_eq_nil_iff]
  intro x hx
  obtain ⟨k2, hk2, hx2⟩ := List.mem_flatMap.1 hx
  simp [h k2 hk2 x hx2]


/-- one `values_changed` at the root -/
theorem run4_root_vc (bidir directed always : Bool) (hmode : bidir = true → directed = false ∧ always = true)
    (a b : PyVal) (ud : Bool) (ha : pyEq a a = true) :
    run4 bidir (catMap .valuesChanged (vcF directed) [(.valuesChanged, { steps := [], t1 := some a, t2 := some b, udiff := ud })])
      (catMap .typeChanges (tcF directed always) [(.valuesChanged, { steps := [], t1 := some a, t2 := some b, udiff := ud })])
      (catMap .dictAdded plainF [(.valuesChanged, { steps := [], t1 := some a, t2 := some b, udiff := ud })]) [] a = some b := by
  have hver : ∀ o, verifyOK bidir { path := [], oldValue := (if directed then Option.none else some a), newValue := some b, newPath := o } a = true := by
    intro o
    unfold verifyOK
    cases hb : bidir with
    | false => rfl
    | true =>
      obtain ⟨rfl, _⟩ := hmode hb
      simp [ha]
  cases directed <;>
    simp [catMap, vcF, sidePath, run4, foldO, pChange, getAt, resolve, setAt] <;>
    first
    | exact hver _
    | (have := hver Option.none; simp at this; exact this)


/-- one `type_changes` at the root -/
theorem run4_root_tc (bidir directed always : Bool) (hmode : bidir = true → directed = false ∧ always = true)
    (a b : PyVal) (ha : pyEq a a = true) :
    ∃ r, run4 bidir (catMap .valuesChanged (vcF directed) [(.typeChanges, { steps := [], t1 := some a, t2 := some b })])
      (catMap .typeChanges (tcF directed always) [(.typeChanges, { steps := [], t1 := some a, t2 := some b })])
      (catMap .dictAdded plainF [(.typeChanges, { steps := [], t1 := some a, t2 := some b })]) [] a = some r ∧
      (r = b ∨ pyEq r b = true) := by
  obtain ⟨res, hres, hrb⟩ := resolve_tc directed always (.int 0) a b
  have hTC : catMap .typeChanges (tcF directed always) [(.typeChanges, { steps := [], t1 := some a, t2 := some b })] =
      [{ tcChange directed always (.int 0) a b with path := [] }] := by
    cases directed <;> simp [catMap, tcF, tcChange, sidePath] <;> first | rfl | exact ⟨rfl, rfl⟩
  have hVC : catMap .valuesChanged (vcF directed) [(Cat.typeChanges, ({ steps := [], t1 := some a, t2 := some b } : Level))] = [] := by
    simp [catMap]
  have hDA : catMap .dictAdded plainF [(Cat.typeChanges, ({ steps := [], t1 := some a, t2 := some b } : Level))] = [] := by
    simp [catMap]
  rw [hTC, hVC, hDA]
  have hres' : resolve true { tcChange directed always (.int 0) a b with path := [] } a = some res := hres
  have hver : verifyOK bidir { tcChange directed always (.int 0) a b with path := [] } a = true := by
    unfold verifyOK
    cases hb : bidir with
    | false => rfl
    | true =>
      obtain ⟨rfl, rfl⟩ := hmode hb
      simp [tcChange, ha]
  refine ⟨res, ?_, hrb⟩
  simp [run4, foldO, pChange, getAt, hres', hver, setAt]

/-- the keyed operation of a change entry on a root dictionary -/
def toKC (bidir isType : Bool) (c : Change) : KOp :=
  match c.path with
  | k :: p => .upd k (pChange bidir isType { c with path := p })
  | [] => .set .none .none

def toKA (e : DPath × PyVal) : KOp :=
  match e.1 with
  | [k] => .set k e.2
  | k :: p => .upd k (pAdded (p, e.2))
  | [] => .set .none .none

def toKR (bidir : Bool) (e : DPath × PyVal) : KOp :=
  match e.1 with
  | [k] => .del k (fun c => !bidir || pyEq e.2 c)
  | k :: p => .upd k (pRemoved bidir (p, e.2))
  | [] => .set .none .none

theorem toKC_consC (bidir isType : Bool) (k : PyVal) (c : Change) : toKC bidir isType (consC k c) = .upd k (pChange bidir isType c) := by
  simp only [toKC, consC]
  congr 1

theorem toKA_consP (k : PyVal) (e : DPath × PyVal) (he : e.1 ≠ []) : toKA (consP k e) = .upd k (pAdded e) := by
  obtain ⟨a, l, hal⟩ : ∃ a l, e.1 = a :: l := by
    cases h : e.1 with
    | nil => exact absurd h he
    | cons a l => exact ⟨a, l, rfl⟩
  simp only [toKA, consP, hal]
  rw [← hal]

theorem toKR_consP (bidir : Bool) (k : PyVal) (e : DPath × PyVal) (he : e.1 ≠ []) : toKR bidir (consP k e) = .upd k (pRemoved bidir e) := by
  obtain ⟨a, l, hal⟩ : ∃ a l, e.1 = a :: l := by
    cases h : e.1 with
    | nil => exact absurd h he
    | cons a l => exact ⟨a, l, rfl⟩
  simp only [toKR, consP, hal]
  rw [← hal]


/-- the four phases on a root dictionary, when every entry is a keyed operation -/
theorem run4_dict (bidir : Bool) (vc tc : List Change) (da ys : List (DPath × PyVal))
    (hV : ∀ x ∈ vc, ∀ kvs, pChange bidir false x (.dict kvs) = (stepK kvs (toKC bidir false x)).map PyVal.dict)
    (hT : ∀ x ∈ tc, ∀ kvs, pChange bidir true x (.dict kvs) = (stepK kvs (toKC bidir true x)).map PyVal.dict)
    (hA : ∀ x ∈ da, ∀ kvs, pAdded x (.dict kvs) = (stepK kvs (toKA x)).map PyVal.dict)
    (hR : ∀ x ∈ ys, ∀ kvs, pRemoved bidir x (.dict kvs) = (stepK kvs (toKR bidir x)).map PyVal.dict)
    (kvs : List (PyVal × PyVal)) :
    run4 bidir vc tc da ys (.dict kvs) =
      (runK (vc.map (toKC bidir false) ++ tc.map (toKC bidir true) ++ da.map toKA ++ ys.map (toKR bidir)) kvs).map PyVal.dict := by
  unfold run4
  rw [foldO_runK _ _ vc hV kvs, List.append_assoc, List.append_assoc, runK_append]
  cases runK (vc.map (toKC bidir false)) kvs with
  | none => rfl
  | some k1 =>
    simp only [Option.map_some, Option.bind_some]
    rw [foldO_runK _ _ tc hT k1, runK_append]
    cases runK (tc.map (toKC bidir true)) k1 with
    | none => rfl
    | some k2 =>
      simp only [Option.map_some, Option.bind_some]
      rw [foldO_runK _ _ da hA k2, runK_append]
      cases runK (da.map toKA) k2 with
      | none => rfl
      | some k3 =>
        simp only [Option.map_some, Option.bind_some]
        exact foldO_runK _ _ ys hR k3

theorem evoK_map_filter {α} (k : PyVal) (toK : α → KOp) (xs : List α) (s : Option PyVal) :
    evoK k (xs.map toK) s = evoK k ((xs.filter (fun x => keyEq (toK x).key k)).map toK) s := by
  rw [evoK_filter, List.filter_map]
  rfl

/-- the entries of a keyed family that belong to key `k` -/
theorem fam_filter {α β} (toK : α → KOp) (cons : PyVal → β → α) (hkey : ∀ k' x, (toK (cons k' x)).key = k')
    (L : List PyVal) (hn : L.Nodup) (hs : ∀ k' ∈ L, ∃ s, k' = .str s) (X : PyVal → List β) (k : PyVal) (hk : ∃ s, k = .str s) :
    (k ∈ L → (L.flatMap (fun k' => (X k').map (cons k'))).filter (fun x => keyEq (toK x).key k) = (X k).map (cons k)) ∧
    (k ∉ L → (L.flatMap (fun k' => (X k').map (cons k'))).filter (fun x => keyEq (toK x).key k) = []) := by
  constructor
  · intro hm
    apply filter_flatMap_mem _ _ L k hn hm
    · intro x hx
      obtain ⟨b, _, rfl⟩ := List.mem_map.1 hx
      rw [hkey]; exact (keyEq_str_iff hk hk).2 rfl
    · intro k' hk' hne x hx
      obtain ⟨b, _, rfl⟩ := List.mem_map.1 hx
      rw [hkey]
      cases h : keyEq k' k with
      | false => rfl
      | true => exact absurd ((keyEq_str_iff (hs k' hk') hk).1 h) hne
  · intro hm
    apply filter_flatMap_none
    intro k' hk' x hx
    obtain ⟨b, _, rfl⟩ := List.mem_map.1 hx
    rw [hkey]
    cases h : keyEq k' k with
    | false => rfl
    | true => exact absurd (((keyEq_str_iff (hs k' hk') hk).1 h) ▸ hk') hm

def tailP (e : DPath × PyVal) : DPath × PyVal := (e.1.tail, e.2)

theorem key_toKC (bidir isType : Bool) (k' : PyVal) (x : Change) : (toKC bidir isType (consC k' x)).key = k' := by
  rw [toKC_consC]; rfl

set_option maxHeartbeats 2000000 in
/-- **one level of the round trip**, for any lists of shared, added and removed keys: given the round trip of every shared
key's child, the four phases applied to the first dictionary give a dictionary `==` the second -/
theorem level_apply_gen (bidir : Bool) (kvs1 kvs2 : List (PyVal × PyVal))
    (hs1 : StrKeys kvs1) (hs2 : StrKeys kvs2) (hn1 : (kvs1.map (·.1)).Nodup) (hn2 : (kvs2.map (·.1)).Nodup)
    (hr1 : ∀ k, pyEq (valAt kvs1 k) (valAt kvs1 k) = true) (hr2 : ∀ k, pyEq (valAt kvs2 k) (valAt kvs2 k) = true)
    (L added removed : List PyVal) (hLn : L.Nodup) (hAn : added.Nodup) (hRn : removed.Nodup)
    (hLm : ∀ k, k ∈ L ↔ k ∈ kvs1.map (·.1) ∧ k ∈ kvs2.map (·.1))
    (hAm : ∀ k, k ∈ added ↔ k ∈ kvs2.map (·.1) ∧ k ∉ kvs1.map (·.1))
    (hRmm : ∀ k, k ∈ removed ↔ k ∈ kvs1.map (·.1) ∧ k ∉ kvs2.map (·.1))
    (VCk TCk : PyVal → List Change) (DAk DRk : PyVal → List (DPath × PyVal))
    (hda : ∀ k ∈ L, ∀ e ∈ DAk k, e.1 ≠ []) (hdr : ∀ k ∈ L, ∀ e ∈ DRk k, e.1 ≠ [])
    (ys : List (DPath × PyVal))
    (hys : ys.Perm (removed.map (fun k => (([k] : DPath), valAt kvs1 k)) ++ L.flatMap (fun k => (DRk k).map (consP k))))
    (hchild : ∀ k ∈ L, ∀ ysk, ysk.Perm (DRk k) →
      ∃ r, run4 bidir (VCk k) (TCk k) (DAk k) ysk (valAt kvs1 k) = some r ∧ pyEq r (valAt kvs2 k) = true) :
    ∃ r, run4 bidir (L.flatMap (fun k => (VCk k).map (consC k))) (L.flatMap (fun k => (TCk k).map (consC k)))
        (added.map (fun k => (([k] : DPath), valAt kvs2 k)) ++ L.flatMap (fun k => (DAk k).map (consP k)))
        ys (.dict kvs1) = some r ∧ pyEq r (.dict kvs2) = true := by
  have hstr1 : ∀ k ∈ kvs1.map (·.1), ∃ s, k = .str s := by
    intro k hk; obtain ⟨p, hp', rfl⟩ := List.mem_map.1 hk; exact hs1 p hp'
  have hstr2 : ∀ k ∈ kvs2.map (·.1), ∃ s, k = .str s := by
    intro k hk; obtain ⟨p, hp', rfl⟩ := List.mem_map.1 hk; exact hs2 p hp'
  have hLs : ∀ k ∈ L, ∃ s, k = .str s := fun k hkL => hstr1 k ((hLm k).1 hkL).1
  have hAs : ∀ k ∈ added, ∃ s, k = .str s := fun k hkA => hstr2 k ((hAm k).1 hkA).1
  have hRs : ∀ k ∈ removed, ∃ s, k = .str s := fun k hkR => hstr1 k ((hRmm k).1 hkR).1
  -- the lists
  let VC := L.flatMap (fun k => (VCk k).map (consC k))
  let TC := L.flatMap (fun k => (TCk k).map (consC k))
  let DAl := added.map (fun k => (([k] : DPath), valAt kvs2 k))
  let DAd := L.flatMap (fun k => (DAk k).map (consP k))
  let DRl := removed.map (fun k => (([k] : DPath), valAt kvs1 k))
  let DRd := L.flatMap (fun k => (DRk k).map (consP k))
  -- 1. every entry is a keyed operation
  have hV : ∀ x ∈ VC, ∀ kvs, pChange bidir false x (.dict kvs) = (stepK kvs (toKC bidir false x)).map PyVal.dict := by
    intro x hx kvs
    obtain ⟨k, _, hx'⟩ := List.mem_flatMap.1 hx
    obtain ⟨c, _, rfl⟩ := List.mem_map.1 hx'
    rw [pChange_consC, toKC_consC]
  have hT : ∀ x ∈ TC, ∀ kvs, pChange bidir true x (.dict kvs) = (stepK kvs (toKC bidir true x)).map PyVal.dict := by
    intro x hx kvs
    obtain ⟨k, _, hx'⟩ := List.mem_flatMap.1 hx
    obtain ⟨c, _, rfl⟩ := List.mem_map.1 hx'
    rw [pChange_consC, toKC_consC]
  have hA : ∀ x ∈ DAl ++ DAd, ∀ kvs, pAdded x (.dict kvs) = (stepK kvs (toKA x)).map PyVal.dict := by
    intro x hx kvs
    rcases List.mem_append.1 hx with h | h
    · obtain ⟨k, _, rfl⟩ := List.mem_map.1 h
      exact pAdded_level k _ kvs
    · obtain ⟨k, hkL, hx'⟩ := List.mem_flatMap.1 h
      obtain ⟨e, he, rfl⟩ := List.mem_map.1 hx'
      rw [pAdded_consP k e (hda k hkL e he), toKA_consP k e (hda k hkL e he)]
  have hR : ∀ x ∈ ys, ∀ kvs, pRemoved bidir x (.dict kvs) = (stepK kvs (toKR bidir x)).map PyVal.dict := by
    intro x hx kvs
    rcases List.mem_append.1 (hys.mem_iff.1 hx) with h | h
    · obtain ⟨k, _, rfl⟩ := List.mem_map.1 h
      exact pRemoved_level bidir k _ kvs
    · obtain ⟨k, hkL, hx'⟩ := List.mem_flatMap.1 h
      obtain ⟨e, he, rfl⟩ := List.mem_map.1 hx'
      rw [pRemoved_consP bidir k e (hdr k hkL e he), toKR_consP bidir k e (hdr k hkL e he)]
  rw [run4_dict bidir VC TC (DAl ++ DAd) ys hV hT hA hR kvs1]
  -- 2. the evolution of every key
  let tv := toKC bidir false
  let tt := toKC bidir true
  let tr := toKR bidir
  have key_toKA : ∀ (k' : PyVal) (e : DPath × PyVal), (toKA (consP k' e)).key = k' := by
    intro k' e
    cases h : e.1 with
    | nil => simp [toKA, consP, h, KOp.key]
    | cons a l => rw [toKA_consP k' e (by rw [h]; simp)]; rfl
  have key_toKR : ∀ (k' : PyVal) (e : DPath × PyVal), (tr (consP k' e)).key = k' := by
    intro k' e
    cases h : e.1 with
    | nil => simp [tr, toKR, consP, h, KOp.key]
    | cons a l => show (toKR bidir (consP k' e)).key = k'; rw [toKR_consP bidir k' e (by rw [h]; simp)]; rfl
  have hDAl' : DAl = added.flatMap (fun k' => [(([] : DPath), valAt kvs2 k')].map (consP k')) := by
    show added.map _ = _
    rw [List.map_eq_flatMap]; rfl
  have hDRl' : DRl = removed.flatMap (fun k' => [(([] : DPath), valAt kvs1 k')].map (consP k')) := by
    show removed.map _ = _
    rw [List.map_eq_flatMap]; rfl
  have evo : ∀ k s0, evoK k (VC.map tv ++ TC.map tt ++ (DAl ++ DAd).map toKA ++ ys.map tr) s0 =
      (((evoK k ((VC.filter (fun x => keyEq (tv x).key k)).map tv) s0).bind
        (evoK k ((TC.filter (fun x => keyEq (tt x).key k)).map tt))).bind
        (evoK k (((DAl.filter (fun x => keyEq (toKA x).key k)) ++ (DAd.filter (fun x => keyEq (toKA x).key k))).map toKA))).bind
        (evoK k ((ys.filter (fun x => keyEq (tr x).key k)).map tr)) := by
    intro k s0
    have e1 : evoK k (TC.map tt) = evoK k ((TC.filter (fun x => keyEq (tt x).key k)).map tt) := by
      funext s; exact evoK_map_filter k tt TC s
    have e2 : evoK k ((DAl ++ DAd).map toKA) = evoK k (((DAl ++ DAd).filter (fun x => keyEq (toKA x).key k)).map toKA) := by
      funext s; exact evoK_map_filter k toKA _ s
    have e3 : evoK k (ys.map tr) = evoK k ((ys.filter (fun x => keyEq (tr x).key k)).map tr) := by
      funext s; exact evoK_map_filter k tr ys s
    rw [evoK_append, evoK_append, evoK_append, evoK_map_filter k tv, e1, e2, e3, List.filter_append]
  have hys_f : ∀ k, (ys.filter (fun x => keyEq (tr x).key k)).Perm
      (DRl.filter (fun x => keyEq (tr x).key k) ++ DRd.filter (fun x => keyEq (tr x).key k)) := by
    intro k
    have := hys.filter (fun x => keyEq (tr x).key k)
    rwa [List.filter_append] at this
  have hevo : ∀ k, (∃ s, k = .str s) →
      ∃ fin, evoK k (VC.map tv ++ TC.map tt ++ (DAl ++ DAd).map toKA ++ ys.map tr) (dictGet kvs1 k) = some fin ∧
        (∀ x, fin = some x → ∃ y, dictGet kvs2 k = some y ∧ pyEq x y = true) ∧ (fin = Option.none → dictGet kvs2 k = Option.none) := by
    intro k hks
    have hkk : keyEq k k = true := (keyEq_str_iff hks hks).2 rfl
    rw [evo]
    have fV := fam_filter tv consC (key_toKC bidir false) L hLn hLs VCk k hks
    have fT := fam_filter tt consC (key_toKC bidir true) L hLn hLs TCk k hks
    have fAd := fam_filter toKA consP key_toKA L hLn hLs DAk k hks
    have fAl := fam_filter toKA consP key_toKA added hAn hAs (fun k' => [(([] : DPath), valAt kvs2 k')]) k hks
    have fRd := fam_filter tr consP key_toKR L hLn hLs DRk k hks
    have fRl := fam_filter tr consP key_toKR removed hRn hRs (fun k' => [(([] : DPath), valAt kvs1 k')]) k hks
    rw [← hDAl'] at fAl
    rw [← hDRl'] at fRl
    by_cases h2 : k ∈ kvs2.map (·.1)
    · have hg2 : dictGet kvs2 k = some (valAt kvs2 k) := dictGet_valAt kvs2 hs2 hn2 k h2
      by_cases h1 : k ∈ kvs1.map (·.1)
      · -- a shared key: the child's own round trip
        have hkL : k ∈ L := (hLm k).2 ⟨h1, h2⟩
        have hnA : k ∉ added := fun h => ((hAm k).1 h).2 h1
        have hnR : k ∉ removed := fun h => ((hRmm k).1 h).2 h2
        have hyk := hys_f k
        rw [fRl.2 hnR, fRd.1 hkL, List.nil_append] at hyk
        let yk := ys.filter (fun x => keyEq (tr x).key k)
        let ysk := yk.map tailP
        have hysk : ysk.Perm (DRk k) := by
          have := hyk.map tailP
          rw [List.map_map] at this
          have e : (tailP ∘ consP k) = id := by funext e; rfl
          rw [e, List.map_id] at this
          exact this
        have hyk_eq : yk = ysk.map (consP k) := by
          show yk = (yk.map tailP).map (consP k)
          rw [List.map_map]
          have : ∀ x ∈ yk, (consP k ∘ tailP) x = x := by
            intro x hx
            obtain ⟨e, _, rfl⟩ := List.mem_map.1 (hyk.mem_iff.1 hx)
            rfl
          rw [List.map_congr_left this]
          simp
        obtain ⟨r, hrun, hpe⟩ := hchild k hkL ysk hysk
        rw [fV.1 hkL, fT.1 hkL, fAl.2 hnA, fAd.1 hkL, List.nil_append, dictGet_valAt kvs1 hs1 hn1 k h1]
        have hyk_eq' : ys.filter (fun x => keyEq (tr x).key k) = ysk.map (consP k) := hyk_eq
        rw [hyk_eq']
        simp only [List.map_map]
        have eV : (tv ∘ consC k) = (fun c => KOp.upd k (pChange bidir false c)) := by funext c; exact toKC_consC bidir false k c
        have eT : (tt ∘ consC k) = (fun c => KOp.upd k (pChange bidir true c)) := by funext c; exact toKC_consC bidir true k c
        have eA : (DAk k).map (toKA ∘ consP k) = (DAk k).map (fun e => KOp.upd k (pAdded e)) := by
          apply List.map_congr_left
          intro e he
          exact toKA_consP k e (hda k hkL e he)
        have eR : ysk.map (tr ∘ consP k) = ysk.map (fun e => KOp.upd k (pRemoved bidir e)) := by
          apply List.map_congr_left
          intro e he
          exact toKR_consP bidir k e (hdr k hkL e (hysk.mem_iff.1 he))
        rw [eV, eT, eA, eR, evoK_upd_map k hkk]
        unfold run4 at hrun
        cases h1' : foldO (pChange bidir false) (VCk k) (valAt kvs1 k) with
        | none => rw [h1'] at hrun; simp at hrun
        | some v1 =>
          rw [h1'] at hrun
          simp only [Option.bind_some] at hrun
          simp only [Option.map_some, Option.bind_some]
          rw [evoK_upd_map k hkk]
          cases h2' : foldO (pChange bidir true) (TCk k) v1 with
          | none => rw [h2'] at hrun; simp at hrun
          | some v2 =>
            rw [h2'] at hrun
            simp only [Option.bind_some] at hrun
            simp only [Option.map_some, Option.bind_some]
            rw [evoK_upd_map k hkk]
            cases h3' : foldO pAdded (DAk k) v2 with
            | none => rw [h3'] at hrun; simp at hrun
            | some v3 =>
              rw [h3'] at hrun
              simp only [Option.bind_some] at hrun
              simp only [Option.map_some, Option.bind_some]
              rw [evoK_upd_map k hkk, hrun]
              refine ⟨some r, rfl, ?_, ?_⟩
              · intro x hx
                cases hx
                exact ⟨valAt kvs2 k, hg2, hpe⟩
              · intro h; cases h
      · -- an added key
        have hkA : k ∈ added := (hAm k).2 ⟨h2, h1⟩
        have hnL : k ∉ L := fun h => h1 ((hLm k).1 h).1
        have hnR : k ∉ removed := fun h => h1 ((hRmm k).1 h).1
        have hyk := hys_f k
        rw [fRl.2 hnR, fRd.2 hnL] at hyk
        have hyk0 := hyk.eq_nil
        rw [fV.2 hnL, fT.2 hnL, fAl.1 hkA, fAd.2 hnL, hyk0, (dictGet_none_iff kvs1 hs1 k hks).2 h1]
        refine ⟨some (valAt kvs2 k), ?_, ?_, ?_⟩
        · simp [evoK, toKA, consP, KOp.key, hkk, actK]
        · intro x hx
          cases hx
          exact ⟨valAt kvs2 k, hg2, hr2 k⟩
        · intro h; cases h
    · have hg2 : dictGet kvs2 k = Option.none := (dictGet_none_iff kvs2 hs2 k hks).2 h2
      have hnL : k ∉ L := fun h => h2 ((hLm k).1 h).2
      have hnA : k ∉ added := fun h => h2 ((hAm k).1 h).1
      by_cases h1 : k ∈ kvs1.map (·.1)
      · -- a removed key
        have hkR : k ∈ removed := (hRmm k).2 ⟨h1, h2⟩
        have hyk := hys_f k
        rw [fRl.1 hkR, fRd.2 hnL, List.append_nil] at hyk
        have hyk1 : ys.filter (fun x => keyEq (tr x).key k) = [consP k (([] : DPath), valAt kvs1 k)] := by
          simpa using hyk
        rw [fV.2 hnL, fT.2 hnL, fAl.2 hnA, fAd.2 hnL, hyk1, dictGet_valAt kvs1 hs1 hn1 k h1]
        refine ⟨Option.none, ?_, ?_, fun _ => hg2⟩
        · have hg : (!bidir || pyEq (valAt kvs1 k) (valAt kvs1 k)) = true := by rw [hr1 k]; simp
          simp [evoK, tr, toKR, consP, KOp.key, hkk, actK, hg]
        · intro x hx; cases hx
      · -- a key of neither dictionary
        have hnR : k ∉ removed := fun h => h1 ((hRmm k).1 h).1
        have hyk := hys_f k
        rw [fRl.2 hnR, fRd.2 hnL] at hyk
        have hyk0 := hyk.eq_nil
        rw [fV.2 hnL, fT.2 hnL, fAl.2 hnA, fAd.2 hnL, hyk0, (dictGet_none_iff kvs1 hs1 k hks).2 h1]
        exact ⟨Option.none, by simp [evoK], ⟨fun x hx => (by cases hx), fun _ => hg2⟩⟩
  -- 3. the run succeeds and every lookup agrees with the second dictionary
  have hopkeys : ∀ op ∈ VC.map tv ++ TC.map tt ++ (DAl ++ DAd).map toKA ++ ys.map tr, ∃ s, op.key = .str s := by
    intro op hop
    rcases List.mem_append.1 hop with h | h
    · rcases List.mem_append.1 h with h | h
      · rcases List.mem_append.1 h with h | h
        · obtain ⟨x, hx, rfl⟩ := List.mem_map.1 h
          obtain ⟨k, hkL, hx'⟩ := List.mem_flatMap.1 hx
          obtain ⟨c, _, rfl⟩ := List.mem_map.1 hx'
          rw [key_toKC]; exact hLs k hkL
        · obtain ⟨x, hx, rfl⟩ := List.mem_map.1 h
          obtain ⟨k, hkL, hx'⟩ := List.mem_flatMap.1 hx
          obtain ⟨c, _, rfl⟩ := List.mem_map.1 hx'
          rw [key_toKC]; exact hLs k hkL
      · obtain ⟨x, hx, rfl⟩ := List.mem_map.1 h
        rcases List.mem_append.1 hx with h' | h'
        · obtain ⟨k, hkA, rfl⟩ := List.mem_map.1 h'
          exact hAs k hkA
        · obtain ⟨k, hkL, hx'⟩ := List.mem_flatMap.1 h'
          obtain ⟨e, _, rfl⟩ := List.mem_map.1 hx'
          rw [key_toKA]; exact hLs k hkL
    · obtain ⟨x, hx, rfl⟩ := List.mem_map.1 h
      rcases List.mem_append.1 (hys.mem_iff.1 hx) with h' | h'
      · obtain ⟨k, hkR, rfl⟩ := List.mem_map.1 h'
        exact hRs k hkR
      · obtain ⟨k, hkL, hx'⟩ := List.mem_flatMap.1 h'
        obtain ⟨e, _, rfl⟩ := List.mem_map.1 hx'
        rw [key_toKR]; exact hLs k hkL
  obtain ⟨kvs', hrun, hs', hn', hfin⟩ := runK_spec _ kvs1 hs1 hn1 hopkeys (fun k hks => by
    obtain ⟨fin, h, _⟩ := hevo k hks
    rw [h]; rfl)
  refine ⟨.dict kvs', by rw [hrun]; rfl, ?_⟩
  apply pyEq_dict_of_lookup kvs' kvs2 hs' hn' hs2 hn2
  intro k hks
  obtain ⟨fin, h, h1, h2⟩ := hevo k hks
  have hf := hfin k hks
  rw [h] at hf
  have hfe : fin = dictGet kvs' k := Option.some.inj hf
  exact ⟨fun x hx => h1 x (by rw [hfe, hx]), fun hnone => h2 (by rw [hfe, hnone])⟩

/-- the instance for the key lists of the diff -/
theorem level_apply (bidir : Bool) (kvs1 kvs2 : List (PyVal × PyVal)) (hk : FlatKeys kvs1 kvs2)
    (hs1 : StrKeys kvs1) (hs2 : StrKeys kvs2) (hn1 : (kvs1.map (·.1)).Nodup) (hn2 : (kvs2.map (·.1)).Nodup)
    (hr1 : ∀ k, pyEq (valAt kvs1 k) (valAt kvs1 k) = true) (hr2 : ∀ k, pyEq (valAt kvs2 k) (valAt kvs2 k) = true)
    (VCk TCk : PyVal → List Change) (DAk DRk : PyVal → List (DPath × PyVal))
    (hda : ∀ k ∈ interK kvs1 kvs2, ∀ e ∈ DAk k, e.1 ≠ []) (hdr : ∀ k ∈ interK kvs1 kvs2, ∀ e ∈ DRk k, e.1 ≠ [])
    (ys : List (DPath × PyVal))
    (hys : ys.Perm ((removedK kvs1 kvs2).map (fun k => (([k] : DPath), valAt kvs1 k)) ++
                    (interK kvs1 kvs2).flatMap (fun k => (DRk k).map (consP k))))
    (hchild : ∀ k ∈ interK kvs1 kvs2, ∀ ysk, ysk.Perm (DRk k) →
      ∃ r, run4 bidir (VCk k) (TCk k) (DAk k) ysk (valAt kvs1 k) = some r ∧ pyEq r (valAt kvs2 k) = true) :
    ∃ r, run4 bidir ((interK kvs1 kvs2).flatMap (fun k => (VCk k).map (consC k)))
        ((interK kvs1 kvs2).flatMap (fun k => (TCk k).map (consC k)))
        ((addedK kvs1 kvs2).map (fun k => (([k] : DPath), valAt kvs2 k)) ++ (interK kvs1 kvs2).flatMap (fun k => (DAk k).map (consP k)))
        ys (.dict kvs1) = some r ∧ pyEq r (.dict kvs2) = true :=
  level_apply_gen bidir kvs1 kvs2 hs1 hs2 hn1 hn2 hr1 hr2 _ _ _ hk.nd_inter hk.nd_added hk.nd_removed hk.mem_inter hk.mem_added
    hk.mem_removed VCk TCk DAk DRk hda hdr ys hys hchild

/-- the payload of one level in terms of the payloads of the children (no shortcut) -/
theorem dict_payload {cfg : DCfg} (hp : Diff.Plain cfg) (al : Align) (hashOf : PyVal → String) (directed always : Bool)
    (kvs1 kvs2 : List (PyVal × PyVal)) (j1 : J cfg.ignorePrivate (.dict kvs1)) (j2 : J cfg.ignorePrivate (.dict kvs2))
    (hthr : belowThreshold cfg (interK kvs1 kvs2).length ((kvs2.map (·.1)) ++ removedK kvs1 kvs2).length = false) :
    let T := (diffV cfg al hashOf [] (.dict kvs1) (.dict kvs2)).tree
    let Tk := fun k => (diffV cfg al hashOf [] (valAt kvs1 k) (valAt kvs2 k)).tree
    catMap .valuesChanged (vcF directed) T = (interK kvs1 kvs2).flatMap (fun k => (catMap .valuesChanged (vcF directed) (Tk k)).map (consC k)) ∧
    catMap .typeChanges (tcF directed always) T =
      (interK kvs1 kvs2).flatMap (fun k => (catMap .typeChanges (tcF directed always) (Tk k)).map (consC k)) ∧
    catMap .dictAdded plainF T = (addedK kvs1 kvs2).map (fun k => (([k] : DPath), valAt kvs2 k)) ++
      (interK kvs1 kvs2).flatMap (fun k => (catMap .dictAdded plainF (Tk k)).map (consP k)) ∧
    catMap .dictRemoved plainF T = (removedK kvs1 kvs2).map (fun k => (([k] : DPath), valAt kvs1 k)) ++
      (interK kvs1 kvs2).flatMap (fun k => (catMap .dictRemoved plainF (Tk k)).map (consP k)) := by
  intro T Tk
  obtain ⟨hs1, hn1, hp1, hv1⟩ := J_dict_inv j1
  obtain ⟨hs2, hn2, hp2, hv2⟩ := J_dict_inv j2
  have hpriv : ∀ k, k ∈ kvs1.map (·.1) ∨ k ∈ kvs2.map (·.1) → (cfg.ignorePrivate && isPrivate k) = false := by
    intro k hk
    rcases hk with hk | hk <;> obtain ⟨p, hpm, rfl⟩ := List.mem_map.1 hk
    · exact hp1 p hpm
    · exact hp2 p hpm
  have hfk := flatKeys kvs1 kvs2 hs1 hs2 hn1 hn2
  have hT : T = (addedK kvs1 kvs2).map (fun k => (Cat.dictAdded, addedLevel [] .dict k (valAt kvs2 k))) ++
      (removedK kvs1 kvs2).map (fun k => (Cat.dictRemoved, removedLevel [] .dict k (valAt kvs1 k))) ++
      (interK kvs1 kvs2).flatMap (fun k => (Tk k).map (shiftE [dstep k])) := by
    show (diffV cfg al hashOf [] (.dict kvs1) (.dict kvs2)).tree = _
    rw [dict_tree hp al hashOf [] kvs1 kvs2 hs1 hs2 hn1 hn2 hpriv hthr]
    congr 1
    apply flatMap_congr'
    intro k _
    have := (J_diff hp al hashOf (sizeOf (valAt kvs1 k)) (valAt kvs1 k) (valAt kvs2 k) (Nat.le_refl _)
      (J_of_valAt kvs1 j1 k) (J_of_valAt kvs2 j2 k)).2 [dstep k] []
    simpa [dstep] using this
  have hkk : ∀ k ∈ interK kvs1 kvs2, (k == k) = true := fun k hk => str_beq_self k (hfk.str1 k ((hfk.mem_inter k).1 hk).1)
  rw [hT]
  simp only [catMap_append, catMap_flatMap]
  refine ⟨?_, ?_, ?_, ?_⟩
  · rw [(catMap_added _ _).2 (β := Change) .valuesChanged (vcF directed) (by decide),
      (catMap_removed _ _).2 (β := Change) .valuesChanged (vcF directed) (by decide), List.nil_append, List.nil_append]
    apply flatMap_congr'
    intro k hk
    exact catMap_shift _ _ _ k (vcF_shift directed k (hkk k hk)) _
  · rw [(catMap_added _ _).2 (β := Change) .typeChanges (tcF directed always) (by decide),
      (catMap_removed _ _).2 (β := Change) .typeChanges (tcF directed always) (by decide), List.nil_append, List.nil_append]
    apply flatMap_congr'
    intro k hk
    exact catMap_shift _ _ _ k (tcF_shift directed always k (hkk k hk)) _
  · rw [(catMap_added _ _).1, (catMap_removed _ _).2 (β := DPath × PyVal) .dictAdded plainF (by decide), List.append_nil]
    congr 1
    apply flatMap_congr'
    intro k _
    exact catMap_shift _ _ _ k (plainF_shift k) _
  · rw [(catMap_added _ _).2 (β := DPath × PyVal) .dictRemoved plainF (by decide), (catMap_removed _ _).1, List.nil_append]
    congr 1
    apply flatMap_congr'
    intro k _
    exact catMap_shift _ _ _ k (plainF_shift k) _


/-- the trees of the other shapes: one entry at the root, or nothing -/
theorem J_tree_small {cfg : DCfg} (hp : Diff.Plain cfg) (al : Align) (hashOf : PyVal → String) (a b : PyVal)
    (ja : J cfg.ignorePrivate a) (jb : J cfg.ignorePrivate b) :
    (∃ kvs1 kvs2, a = .dict kvs1 ∧ b = .dict kvs2 ∧
        belowThreshold cfg (interK kvs1 kvs2).length ((kvs2.map (·.1)) ++ removedK kvs1 kvs2).length = false) ∨
    (diffV cfg al hashOf [] a b).tree = [] ∧ isBasic a = true ∧ typeName a = typeName b ∧ leafDiff [] a b = [] ∨
    (∃ ud, (diffV cfg al hashOf [] a b).tree = [(.valuesChanged, { steps := [], t1 := some a, t2 := some b, udiff := ud })]) ∨
    (diffV cfg al hashOf [] a b).tree = [(.typeChanges, { steps := [], t1 := some a, t2 := some b })] := by
  cases ja with
  | basic hb =>
    rw [diffV_basic cfg al hashOf [] a b hb]
    by_cases ht : typeName a = typeName b
    · have : (typeName a != typeName b) = false := by simpa using ht
      simp only [this, Bool.false_eq_true, if_false]
      rcases leafDiff_shape' [] a b with h | ⟨ud, h⟩
      · exact Or.inr (Or.inl ⟨h, hb, ht, h⟩)
      · exact Or.inr (Or.inr (Or.inl ⟨ud, h⟩))
    · have : (typeName a != typeName b) = true := by simpa using ht
      simp only [this, if_true]
      exact Or.inr (Or.inr (Or.inr trivial))
  | @dict kvs1 hs1 hn1 hp1 hv1 =>
    cases jb with
    | basic hb =>
      refine Or.inr (Or.inr (Or.inr ?_))
      cases b <;> simp [isBasic] at hb <;> simp only [diffV]
    | @dict kvs2 hs2 hn2 hp2 hv2 =>
      have hpriv : ∀ k, k ∈ kvs1.map (·.1) ∨ k ∈ kvs2.map (·.1) → (cfg.ignorePrivate && isPrivate k) = false := by
        intro k hk
        rcases hk with hk | hk <;> obtain ⟨p, hpm, rfl⟩ := List.mem_map.1 hk
        · exact hp1 p hpm
        · exact hp2 p hpm
      cases hthr : belowThreshold cfg (interK kvs1 kvs2).length ((kvs2.map (·.1)) ++ removedK kvs1 kvs2).length with
      | false => exact Or.inl ⟨kvs1, kvs2, rfl, rfl, hthr⟩
      | true =>
        refine Or.inr (Or.inr (Or.inl ⟨false, ?_⟩))
        rw [dict_shortcut hp al hashOf [] kvs1 kvs2 hpriv hthr]

/-- added and removed items are never reported at the root itself -/
theorem plain_nonempty {cfg : DCfg} (hp : Diff.Plain cfg) (al : Align) (hashOf : PyVal → String) (a b : PyVal)
    (ja : J cfg.ignorePrivate a) (jb : J cfg.ignorePrivate b) (c : Cat) (hc : c = .dictAdded ∨ c = .dictRemoved) :
    ∀ e ∈ catMap c plainF (diffV cfg al hashOf [] a b).tree, e.1 ≠ [] := by
  have hcv : c ≠ .valuesChanged := by rcases hc with rfl | rfl <;> decide
  have hct : c ≠ .typeChanges := by rcases hc with rfl | rfl <;> decide
  rcases J_tree_small hp al hashOf a b ja jb with ⟨kvs1, kvs2, rfl, rfl, hthr⟩ | ⟨h, _⟩ | ⟨ud, h⟩ | h
  · obtain ⟨_, _, hA, hR⟩ := dict_payload hp al hashOf false false kvs1 kvs2 ja jb hthr
    intro e he
    rcases hc with rfl | rfl
    · rw [hA] at he
      rcases List.mem_append.1 he with h | h
      · obtain ⟨k, _, rfl⟩ := List.mem_map.1 h; simp
      · obtain ⟨k, _, h'⟩ := List.mem_flatMap.1 h
        obtain ⟨x, _, rfl⟩ := List.mem_map.1 h'
        simp [consP]
    · rw [hR] at he
      rcases List.mem_append.1 he with h | h
      · obtain ⟨k, _, rfl⟩ := List.mem_map.1 h; simp
      · obtain ⟨k, _, h'⟩ := List.mem_flatMap.1 h
        obtain ⟨x, _, rfl⟩ := List.mem_map.1 h'
        simp [consP]
  · rw [h]; intro e he; simp [catMap] at he
  · rw [h]
    rw [catMap_other c .valuesChanged plainF _ (by intro e he; simp at he; rw [he]) (Ne.symm hcv)]
    intro e he; simp at he
  · rw [h]
    rw [catMap_other c .typeChanges plainF _ (by intro e he; simp at he; rw [he]) (Ne.symm hct)]
    intro e he; simp at he


set_option maxHeartbeats 1000000 in
/-- **The round trip for nested dictionaries, as pure functions**: for every pair of nested dictionaries with string keys
and scalar leaves (any depth, any width, any threshold), whatever order the removals are applied in, the four phases map
the first value to a value `==` the second. -/
theorem nested_main {cfg : DCfg} (hp : Diff.Plain cfg) (al : Align) (hashOf : PyVal → String) (bidir directed always : Bool)
    (hmode : bidir = true → directed = false ∧ always = true) :
    ∀ (n : Nat) (v1 v2 : PyVal), sizeOf v1 ≤ n → J cfg.ignorePrivate v1 → J cfg.ignorePrivate v2 →
      ∀ ys, ys.Perm (catMap .dictRemoved plainF (diffV cfg al hashOf [] v1 v2).tree) →
      ∃ r, run4 bidir (catMap .valuesChanged (vcF directed) (diffV cfg al hashOf [] v1 v2).tree)
          (catMap .typeChanges (tcF directed always) (diffV cfg al hashOf [] v1 v2).tree)
          (catMap .dictAdded plainF (diffV cfg al hashOf [] v1 v2).tree) ys v1 = some r ∧ pyEq r v2 = true := by
  intro n
  induction n with
  | zero => intro v1 v2 h; have := sizeOf_pos v1; omega
  | succ n ih =>
    intro v1 v2 hsz j1 j2 ys hys
    have hr1 : pyEq v1 v1 = true := pyEq_self_J v1 j1
    have hr2 : pyEq v2 v2 = true := pyEq_self_J v2 j2
    rcases J_tree_small hp al hashOf v1 v2 j1 j2 with ⟨kvs1, kvs2, rfl, rfl, hthr⟩ | ⟨h, hb, ht, hl⟩ | ⟨ud, h⟩ | h
    · -- two dictionaries, compared key by key
      obtain ⟨hs1, hn1, hp1, hv1⟩ := J_dict_inv j1
      obtain ⟨hs2, hn2, hp2, hv2⟩ := J_dict_inv j2
      obtain ⟨hV, hT, hA, hR⟩ := dict_payload hp al hashOf directed always kvs1 kvs2 j1 j2 hthr
      simp only at hV hT hA hR
      rw [hR] at hys
      rw [hV, hT, hA]
      have hfk := flatKeys kvs1 kvs2 hs1 hs2 hn1 hn2
      apply level_apply bidir kvs1 kvs2 hfk hs1 hs2 hn1 hn2
        (fun k => pyEq_self_J _ (J_of_valAt kvs1 j1 k)) (fun k => pyEq_self_J _ (J_of_valAt kvs2 j2 k))
        _ _ _ _ ?_ ?_ ys hys ?_
      · intro k _ e he
        exact plain_nonempty hp al hashOf _ _ (J_of_valAt kvs1 j1 k) (J_of_valAt kvs2 j2 k) .dictAdded (Or.inl rfl) e he
      · intro k _ e he
        exact plain_nonempty hp al hashOf _ _ (J_of_valAt kvs1 j1 k) (J_of_valAt kvs2 j2 k) .dictRemoved (Or.inr rfl) e he
      · intro k hk ysk hysk
        have hk1 : k ∈ kvs1.map (·.1) := ((hfk.mem_inter k).1 hk).1
        have := valAt_size kvs1 hs1 hn1 k hk1
        exact ih (valAt kvs1 k) (valAt kvs2 k) (by omega) (J_of_valAt kvs1 j1 k) (J_of_valAt kvs2 j2 k) ysk hysk
    · -- nothing to report
      rw [h] at hys ⊢
      have : ys = [] := by simpa [catMap] using hys
      subst this
      exact ⟨v1, by simp [catMap, run4, foldO], leafDiff_nil [] v1 v2 hb ht hl⟩
    · -- one change of value at the root
      rw [h] at hys ⊢
      have : ys = [] := by simpa [catMap] using hys
      subst this
      exact ⟨v2, run4_root_vc bidir directed always hmode v1 v2 ud hr1, hr2⟩
    · -- one change of type at the root
      rw [h] at hys ⊢
      have : ys = [] := by simpa [catMap] using hys
      subst this
      obtain ⟨r, hrun, hrb⟩ := run4_root_tc bidir directed always hmode v1 v2 hr1
      refine ⟨r, hrun, ?_⟩
      rcases hrb with rfl | hrb
      · exact hr2
      · exact hrb

theorem foldO_changes (bidir isType : Bool) : ∀ (cs : List Change) (v r : PyVal), foldO (pChange bidir isType) cs v = some r →
    ∀ st : AState, st.root = v → cs.foldl (applyChange bidir isType true) st = { st with root := r }
  | [], v, r, h, st, hr => by
    simp only [foldO, Option.some.injEq] at h
    subst h; subst hr; rfl
  | c :: cs, v, r, h, st, hr => by
    simp only [foldO] at h
    cases h1 : pChange bidir isType c v with
    | none => rw [h1] at h; simp at h
    | some w =>
      rw [h1] at h
      simp only [Option.bind_some] at h
      rw [List.foldl_cons, applyChange_pure bidir isType c v w h1 st hr]
      exact foldO_changes bidir isType cs w r h _ rfl

theorem foldO_added : ∀ (es : List (DPath × PyVal)) (v r : PyVal), foldO pAdded es v = some r →
    ∀ st : AState, st.root = v → es.foldl (applyAdded false) st = { st with root := r }
  | [], v, r, h, st, hr => by
    simp only [foldO, Option.some.injEq] at h
    subst h; subst hr; rfl
  | e :: es, v, r, h, st, hr => by
    simp only [foldO] at h
    cases h1 : pAdded e v with
    | none => rw [h1] at h; simp at h
    | some w =>
      rw [h1] at h
      simp only [Option.bind_some] at h
      rw [List.foldl_cons, applyAdded_pure e v w h1 st hr]
      exact foldO_added es w r h _ rfl

theorem foldO_removed (bidir : Bool) : ∀ (es : List (DPath × PyVal)) (v r : PyVal), foldO (pRemoved bidir) es v = some r →
    ∀ st : AState, st.root = v → es.foldl (applyRemoved bidir) st = { st with root := r }
  | [], v, r, h, st, hr => by
    simp only [foldO, Option.some.injEq] at h
    subst h; subst hr; rfl
  | e :: es, v, r, h, st, hr => by
    simp only [foldO] at h
    cases h1 : pRemoved bidir e v with
    | none => rw [h1] at h; simp at h
    | some w =>
      rw [h1] at h
      simp only [Option.bind_some] at h
      rw [List.foldl_cons, applyRemoved_pure bidir e v w h1 st hr]
      exact foldO_removed bidir es w r h _ rfl

/-- **from the pure run to `Delta.__add__`**: a payload with only the four dictionary categories, whose removals are
sorted into `ys`, applies without a logged error and gives the pure result -/
theorem applyDelta_of_run4 (bidir : Bool) (d : DeltaD) (v r : PyVal) (ys : List (DPath × PyVal))
    (he : d.setAdded = [] ∧ d.setRemoved = [] ∧ d.opcodes = [] ∧ d.iterAdded = [] ∧ d.iterRemoved = [])
    (hsort : sortPaths d.dictRemoved true = some ys)
    (hrun : run4 bidir d.valuesChanged d.typeChanges d.dictAdded ys v = some r) :
    applyDelta bidir d v = { root := r } := by
  unfold run4 at hrun
  cases h1 : foldO (pChange bidir false) d.valuesChanged v with
  | none => rw [h1] at hrun; simp at hrun
  | some v1 =>
    rw [h1] at hrun
    simp only [Option.bind_some] at hrun
    cases h2 : foldO (pChange bidir true) d.typeChanges v1 with
    | none => rw [h2] at hrun; simp at hrun
    | some v2 =>
      rw [h2] at hrun
      simp only [Option.bind_some] at hrun
      cases h3 : foldO pAdded d.dictAdded v2 with
      | none => rw [h3] at hrun; simp at hrun
      | some v3 =>
        rw [h3] at hrun
        simp only [Option.bind_some] at hrun
        unfold applyDelta
        simp only [Gen.deltaPhases, List.foldl_cons, List.foldl_nil]
        rw [phase_noop bidir d _ "_do_pre_process" (Or.inl rfl)]
        rw [phase_vc bidir d _ rfl, foldO_changes bidir false _ v v1 h1 _ rfl]
        rw [phase_empty_lists bidir d _ rfl rfl he "_do_set_item_added" (Or.inl rfl)]
        rw [phase_empty_lists bidir d _ rfl rfl he "_do_set_item_removed" (Or.inr (Or.inl rfl))]
        rw [phase_tc bidir d _ rfl, foldO_changes bidir true _ v1 v2 h2 _ rfl]
        rw [phase_empty_lists bidir d _ rfl rfl he "_do_iterable_opcodes" (Or.inr (Or.inr (Or.inl rfl)))]
        rw [phase_empty_lists bidir d _ rfl rfl he "_do_iterable_item_removed" (Or.inr (Or.inr (Or.inr (Or.inl rfl))))]
        rw [phase_empty_lists bidir d _ rfl rfl he "_do_iterable_item_added" (Or.inr (Or.inr (Or.inr (Or.inr (Or.inl rfl)))))]
        rw [phase_noop bidir d _ "_do_ignore_order" (Or.inr (Or.inl rfl))]
        rw [phase_da bidir d _ rfl, foldO_added _ v2 v3 h3 _ rfl]
        rw [phase_dr bidir d _ rfl ys hsort, foldO_removed bidir _ v3 r hrun _ rfl]
        rw [phase_noop bidir d _ "_do_attribute_added" (Or.inr (Or.inr (Or.inl rfl)))]
        rw [phase_noop bidir d _ "_do_attribute_removed" (Or.inr (Or.inr (Or.inr rfl)))]
        rw [phase_empty_lists bidir d _ rfl rfl he "_do_post_process" (Or.inr (Or.inr (Or.inr (Or.inr (Or.inr rfl)))))]


theorem cmpPath_strs : ∀ (p q : DPath), (∀ k ∈ p, ∃ s, k = .str s) → (∀ k ∈ q, ∃ s, k = .str s) → (cmpPath p q).isSome = true
  | [], [], _, _ => rfl
  | [], _ :: _, _, _ => rfl
  | _ :: _, [], _, _ => rfl
  | a :: as, b :: bs, hp, hq => by
    obtain ⟨s, rfl⟩ := hp a (List.mem_cons_self ..)
    obtain ⟨t, rfl⟩ := hq b (List.mem_cons_self ..)
    have ih := cmpPath_strs as bs (fun k hk => hp k (List.mem_cons_of_mem _ hk)) (fun k hk => hq k (List.mem_cons_of_mem _ hk))
    simp only [cmpPath, cmpElem]
    split
    · exact ih
    · cases compare s t
      · rfl
      · exact ih
      · rfl

theorem sortPaths_strs {α} (xs : List (DPath × α)) (desc : Bool) (h : ∀ e ∈ xs, ∀ k ∈ e.1, ∃ s, k = .str s) :
    ∃ ys, sortPaths xs desc = some ys ∧ ys.Perm xs := by
  have hall : (xs.zipIdx).all (fun a => (xs.zipIdx).all (fun b => a.2 == b.2 || (cmpPath a.1.1 b.1.1).isSome)) = true := by
    rw [List.all_eq_true]
    intro a ha
    rw [List.all_eq_true]
    intro b hb
    have ha' : a.1 ∈ xs := by
      obtain ⟨_, h2⟩ := List.mem_zipIdx' ha
      rw [h2]; exact List.getElem_mem _
    have hb' : b.1 ∈ xs := by
      obtain ⟨_, h2⟩ := List.mem_zipIdx' hb
      rw [h2]; exact List.getElem_mem _
    rw [cmpPath_strs _ _ (h a.1 ha') (h b.1 hb')]
    simp
  unfold sortPaths
  simp only [hall, if_true]
  exact ⟨_, rfl, List.mergeSort_perm _ _⟩

/-- the entries of the diff of two nested dictionaries are of the four dictionary categories, and the paths of the removed
items are made of string keys -/
theorem J_tree_facts {cfg : DCfg} (hp : Diff.Plain cfg) (al : Align) (hashOf : PyVal → String) :
    ∀ (n : Nat) (a b : PyVal), sizeOf a ≤ n → J cfg.ignorePrivate a → J cfg.ignorePrivate b →
      (∀ e ∈ (diffV cfg al hashOf [] a b).tree, e.1 = .typeChanges ∨ e.1 = .valuesChanged ∨ e.1 = .dictAdded ∨ e.1 = .dictRemoved) ∧
      (∀ e ∈ catMap .dictRemoved plainF (diffV cfg al hashOf [] a b).tree, ∀ k ∈ e.1, ∃ s, k = .str s) ∧
      (∀ e ∈ catMap .dictAdded plainF (diffV cfg al hashOf [] a b).tree, ∀ k ∈ e.1, ∃ s, k = .str s) := by
  intro n
  induction n with
  | zero => intro a b h; have := sizeOf_pos a; omega
  | succ n ih =>
    intro a b hsz ja jb
    rcases J_tree_small hp al hashOf a b ja jb with ⟨kvs1, kvs2, rfl, rfl, hthr⟩ | ⟨h, _⟩ | ⟨ud, h⟩ | h
    · obtain ⟨hs1, hn1, hp1, hv1⟩ := J_dict_inv ja
      obtain ⟨hs2, hn2, hp2, hv2⟩ := J_dict_inv jb
      have hfk := flatKeys kvs1 kvs2 hs1 hs2 hn1 hn2
      have hchild : ∀ k ∈ interK kvs1 kvs2, _ := fun k hk =>
        ih (valAt kvs1 k) (valAt kvs2 k)
          (by have := valAt_size kvs1 hs1 hn1 k ((hfk.mem_inter k).1 hk).1; omega)
          (J_of_valAt kvs1 ja k) (J_of_valAt kvs2 jb k)
      constructor
      · have hpriv : ∀ k, k ∈ kvs1.map (·.1) ∨ k ∈ kvs2.map (·.1) → (cfg.ignorePrivate && isPrivate k) = false := by
          intro k hk
          rcases hk with hk | hk <;> obtain ⟨p, hpm, rfl⟩ := List.mem_map.1 hk
          · exact hp1 p hpm
          · exact hp2 p hpm
        rw [dict_tree hp al hashOf [] kvs1 kvs2 hs1 hs2 hn1 hn2 hpriv hthr]
        intro e he
        simp only [List.mem_append, List.mem_map, List.mem_flatMap] at he
        rcases he with (⟨k, _, rfl⟩ | ⟨k, _, rfl⟩) | ⟨k, hk, hek⟩
        · exact Or.inr (Or.inr (Or.inl rfl))
        · exact Or.inr (Or.inr (Or.inr rfl))
        · have hsh := (J_diff hp al hashOf (sizeOf (valAt kvs1 k)) (valAt kvs1 k) (valAt kvs2 k) (Nat.le_refl _)
            (J_of_valAt kvs1 ja k) (J_of_valAt kvs2 jb k)).2 [dstep k] []
          simp only [List.nil_append] at hek
          have hek' : e ∈ (diffV cfg al hashOf [dstep k] (valAt kvs1 k) (valAt kvs2 k)).tree := hek
          rw [show [dstep k] = [dstep k] ++ [] from rfl, hsh] at hek'
          obtain ⟨e0, he0, rfl⟩ := List.mem_map.1 hek'
          exact (hchild k hk).1 e0 he0
      · obtain ⟨_, _, hA, hR⟩ := dict_payload hp al hashOf false false kvs1 kvs2 ja jb hthr
        simp only at hR hA
        rw [hR, hA]
        constructor
        · intro e he k' hk'
          rcases List.mem_append.1 he with h | h
          · obtain ⟨k, hkr, rfl⟩ := List.mem_map.1 h
            simp only [List.mem_singleton] at hk'
            rw [hk']
            exact hfk.str1 k ((hfk.mem_removed k).1 hkr).1
          · obtain ⟨k, hk, h'⟩ := List.mem_flatMap.1 h
            obtain ⟨x, hx, rfl⟩ := List.mem_map.1 h'
            simp only [consP, List.mem_cons] at hk'
            rcases hk' with rfl | hk'
            · exact hfk.str1 k' ((hfk.mem_inter k').1 hk).1
            · exact (hchild k hk).2.1 x hx k' hk'
        · intro e he k' hk'
          rcases List.mem_append.1 he with h | h
          · obtain ⟨k, hkr, rfl⟩ := List.mem_map.1 h
            simp only [List.mem_singleton] at hk'
            rw [hk']
            exact hfk.str2 k ((hfk.mem_added k).1 hkr).1
          · obtain ⟨k, hk, h'⟩ := List.mem_flatMap.1 h
            obtain ⟨x, hx, rfl⟩ := List.mem_map.1 h'
            simp only [consP, List.mem_cons] at hk'
            rcases hk' with rfl | hk'
            · exact hfk.str1 k' ((hfk.mem_inter k').1 hk).1
            · exact (hchild k hk).2.2 x hx k' hk'
    · rw [h]; exact ⟨by intro e he; simp at he, by intro e he; simp [catMap] at he, by intro e he; simp [catMap] at he⟩
    · rw [h]
      refine ⟨by intro e he; simp at he; rw [he]; exact Or.inr (Or.inl rfl), ?_, ?_⟩ <;>
        (intro e he; simp [catMap] at he)
    · rw [h]
      refine ⟨by intro e he; simp at he; rw [he]; exact Or.inl rfl, ?_, ?_⟩ <;>
        (intro e he; simp [catMap] at he)


/-- `deepDiff` of two nested dictionaries: the tree of `diffV`, no opcodes -/
theorem J_deepDiff {cfg : DCfg} (hp : Diff.Plain cfg) (al : Align) (hashOf : PyVal → String) (a b : PyVal)
    (ja : J cfg.ignorePrivate a) (jb : J cfg.ignorePrivate b) :
    deepDiff cfg al hashOf a b = ⟨(diffV cfg al hashOf [] a b).tree, []⟩ := by
  have hops := (J_diff hp al hashOf (sizeOf a) a b (Nat.le_refl _) ja jb).1 []
  have hcats := (J_tree_facts hp al hashOf (sizeOf a) a b (Nat.le_refl _) ja jb).1
  have hnoiter : ∀ e ∈ (diffV cfg al hashOf [] a b).tree, e.1 ≠ Cat.iterAdded ∧ e.1 ≠ Cat.iterRemoved := by
    intro e he
    rcases hcats e he with h | h | h | h <;> rw [h] <;> exact ⟨by simp, by simp⟩
  unfold deepDiff
  simp only [skipSteps_plain hp, Bool.false_eq_true, if_false, keepReported_plain hp, hops]
  split
  · rfl
  · simp only [mutualAddRemoves_noiter _ hnoiter]

/-- the unmerged result of two nested dictionaries is the same tree (there is nothing to fold) -/
theorem J_diffUnmerged {cfg : DCfg} (hp : Diff.Plain cfg) (al : Align) (hashOf : PyVal → String) (a b : PyVal)
    (ja : J cfg.ignorePrivate a) (jb : J cfg.ignorePrivate b) :
    diffUnmerged cfg al hashOf a b = ⟨(diffV cfg al hashOf [] a b).tree, []⟩ := by
  have hops := (J_diff hp al hashOf (sizeOf a) a b (Nat.le_refl _) ja jb).1 []
  unfold diffUnmerged
  simp only [skipSteps_plain hp, Bool.false_eq_true, if_false, keepReported_plain hp, hops]

/-- **The round trip for nested dictionaries**, plain or bidirectional: `t1 + Delta(DeepDiff(t1, t2))` is `== t2`, nothing logged. -/
theorem nested_roundtrip (cfg : DCfg) (hp : Diff.Plain cfg) (al : Align) (hashOf : PyVal → String) (bidir directed always : Bool)
    (hmode : bidir = true → directed = false ∧ always = true)
    (v1 v2 : PyVal) (j1 : J cfg.ignorePrivate v1) (j2 : J cfg.ignorePrivate v2) :
    ∃ r, applyDelta bidir (buildDelta directed always v1 v2 (deepDiff cfg al hashOf v1 v2)) v1 = { root := r } ∧ pyEq r v2 = true := by
  rw [J_deepDiff hp al hashOf v1 v2 j1 j2]
  generalize hT : (diffV cfg al hashOf [] v1 v2).tree = T
  obtain ⟨hcats, hstrs, _⟩ := J_tree_facts hp al hashOf (sizeOf v1) v1 v2 (Nat.le_refl _) j1 j2
  rw [hT] at hcats hstrs
  obtain ⟨fV, fT, fA, fR⟩ := build_fields directed always v1 v2 T
  have he := build_empty directed always v1 v2 T hcats
  obtain ⟨ys, hsort, hperm⟩ := sortPaths_strs (buildDelta directed always v1 v2 ⟨T, []⟩).dictRemoved true (by rw [fR]; exact hstrs)
  obtain ⟨r, hrun, hpe⟩ := nested_main hp al hashOf bidir directed always hmode (sizeOf v1) v1 v2 (Nat.le_refl _) j1 j2 ys
    (by rw [hT, ← fR]; exact hperm)
  rw [hT] at hrun
  refine ⟨r, applyDelta_of_run4 bidir _ v1 r ys he hsort ?_, hpe⟩
  rw [fV, fT, fA]
  exact hrun

/-- what `_get_reverse_diff` does to a `values_changed` / `type_changes` entry -/
def revV (c : Change) : Change := { path := c.newPath.getD c.path, oldValue := c.newValue, newValue := c.oldValue }
def revT (c : Change) : Change :=
  { path := c.newPath.getD c.path, oldType := c.newType, newType := c.oldType, oldValue := c.newValue, newValue := c.oldValue }

theorem revV_consC (k : PyVal) (c : Change) : revV (consC k c) = consC k (revV c) := by
  cases h : c.newPath <;> simp [revV, consC, h]

theorem revT_consC (k : PyVal) (c : Change) : revT (consC k c) = consC k (revT c) := by
  cases h : c.newPath <;> simp [revT, consC, h]

theorem reverse_fields (d : DeltaD) :
    (reverseDelta d).valuesChanged = d.valuesChanged.map revV ∧ (reverseDelta d).typeChanges = d.typeChanges.map revT ∧
    (reverseDelta d).dictAdded = d.dictRemoved ∧ (reverseDelta d).dictRemoved = d.dictAdded := ⟨rfl, rfl, rfl, rfl⟩

/-- the reversed entry of one `values_changed` at the root -/
theorem run4_root_vc_rev (a b : PyVal) (ud : Bool) (hb : pyEq b b = true) :
    run4 true ((catMap .valuesChanged (vcF false) [(.valuesChanged, { steps := [], t1 := some a, t2 := some b, udiff := ud })]).map revV)
      ((catMap .typeChanges (tcF false true) [(.valuesChanged, { steps := [], t1 := some a, t2 := some b, udiff := ud })]).map revT)
      (catMap .dictRemoved plainF [(.valuesChanged, { steps := [], t1 := some a, t2 := some b, udiff := ud })]) [] b = some a := by
  simp [catMap, vcF, sidePath, run4, foldO, pChange, getAt, resolve, setAt, revV, verifyOK, hb]

/-- the reversed entry of one `type_changes` at the root (a bidirectional payload always holds the values) -/
theorem run4_root_tc_rev (a b : PyVal) (hb : pyEq b b = true) :
    run4 true ((catMap .valuesChanged (vcF false) [(.typeChanges, { steps := [], t1 := some a, t2 := some b })]).map revV)
      ((catMap .typeChanges (tcF false true) [(.typeChanges, { steps := [], t1 := some a, t2 := some b })]).map revT)
      (catMap .dictRemoved plainF [(.typeChanges, { steps := [], t1 := some a, t2 := some b })]) [] b = some a := by
  simp [catMap, tcF, sidePath, run4, foldO, pChange, getAt, resolve, setAt, revT, verifyOK, hb]


set_option maxHeartbeats 1000000 in
/-- **The way back for nested dictionaries, as pure functions**: the reversed bidirectional payload maps the second value
to a value `==` the first, every recorded old value verified. -/
theorem nested_main_rev {cfg : DCfg} (hp : Diff.Plain cfg) (al : Align) (hashOf : PyVal → String) :
    ∀ (n : Nat) (v1 v2 : PyVal), sizeOf v1 ≤ n → J cfg.ignorePrivate v1 → J cfg.ignorePrivate v2 →
      ∀ ys, ys.Perm (catMap .dictAdded plainF (diffV cfg al hashOf [] v1 v2).tree) →
      ∃ r, run4 true ((catMap .valuesChanged (vcF false) (diffV cfg al hashOf [] v1 v2).tree).map revV)
          ((catMap .typeChanges (tcF false true) (diffV cfg al hashOf [] v1 v2).tree).map revT)
          (catMap .dictRemoved plainF (diffV cfg al hashOf [] v1 v2).tree) ys v2 = some r ∧ pyEq r v1 = true := by
  intro n
  induction n with
  | zero => intro v1 v2 h; have := sizeOf_pos v1; omega
  | succ n ih =>
    intro v1 v2 hsz j1 j2 ys hys
    have hr1 : pyEq v1 v1 = true := pyEq_self_J v1 j1
    have hr2 : pyEq v2 v2 = true := pyEq_self_J v2 j2
    rcases J_tree_small hp al hashOf v1 v2 j1 j2 with ⟨kvs1, kvs2, rfl, rfl, hthr⟩ | ⟨h, hb, ht, hl⟩ | ⟨ud, h⟩ | h
    · obtain ⟨hs1, hn1, hp1, hv1⟩ := J_dict_inv j1
      obtain ⟨hs2, hn2, hp2, hv2⟩ := J_dict_inv j2
      obtain ⟨hV, hT, hA, hR⟩ := dict_payload hp al hashOf false true kvs1 kvs2 j1 j2 hthr
      simp only at hV hT hA hR
      rw [hA] at hys
      rw [hV, hT, hR]
      have hfk := flatKeys kvs1 kvs2 hs1 hs2 hn1 hn2
      have eV : ((interK kvs1 kvs2).flatMap (fun k => (catMap .valuesChanged (vcF false) (diffV cfg al hashOf [] (valAt kvs1 k) (valAt kvs2 k)).tree).map (consC k))).map revV =
          (interK kvs1 kvs2).flatMap (fun k => ((catMap .valuesChanged (vcF false) (diffV cfg al hashOf [] (valAt kvs1 k) (valAt kvs2 k)).tree).map revV).map (consC k)) := by
        rw [List.map_flatMap]
        apply flatMap_congr'
        intro k _
        rw [List.map_map, List.map_map]
        apply List.map_congr_left
        intro c _
        exact revV_consC k c
      have eT : ((interK kvs1 kvs2).flatMap (fun k => (catMap .typeChanges (tcF false true) (diffV cfg al hashOf [] (valAt kvs1 k) (valAt kvs2 k)).tree).map (consC k))).map revT =
          (interK kvs1 kvs2).flatMap (fun k => ((catMap .typeChanges (tcF false true) (diffV cfg al hashOf [] (valAt kvs1 k) (valAt kvs2 k)).tree).map revT).map (consC k)) := by
        rw [List.map_flatMap]
        apply flatMap_congr'
        intro k _
        rw [List.map_map, List.map_map]
        apply List.map_congr_left
        intro c _
        exact revT_consC k c
      rw [eV, eT]
      apply level_apply_gen true kvs2 kvs1 hs2 hs1 hn2 hn1
        (fun k => pyEq_self_J _ (J_of_valAt kvs2 j2 k)) (fun k => pyEq_self_J _ (J_of_valAt kvs1 j1 k))
        (interK kvs1 kvs2) (removedK kvs1 kvs2) (addedK kvs1 kvs2) hfk.nd_inter hfk.nd_removed hfk.nd_added
        (fun k => (hfk.mem_inter k).trans And.comm) hfk.mem_removed hfk.mem_added
        _ _ _ _ ?_ ?_ ys hys ?_
      · intro k _ e he
        exact plain_nonempty hp al hashOf _ _ (J_of_valAt kvs1 j1 k) (J_of_valAt kvs2 j2 k) .dictRemoved (Or.inr rfl) e he
      · intro k _ e he
        exact plain_nonempty hp al hashOf _ _ (J_of_valAt kvs1 j1 k) (J_of_valAt kvs2 j2 k) .dictAdded (Or.inl rfl) e he
      · intro k hk ysk hysk
        have hk1 : k ∈ kvs1.map (·.1) := ((hfk.mem_inter k).1 hk).1
        have := valAt_size kvs1 hs1 hn1 k hk1
        exact ih (valAt kvs1 k) (valAt kvs2 k) (by omega) (J_of_valAt kvs1 j1 k) (J_of_valAt kvs2 j2 k) ysk hysk
    · rw [h] at hys ⊢
      have : ys = [] := by simpa [catMap] using hys
      subst this
      exact ⟨v2, by simp [catMap, run4, foldO], pyEq_symm_basic v1 v2 hb ht (leafDiff_nil [] v1 v2 hb ht hl)⟩
    · rw [h] at hys ⊢
      have : ys = [] := by simpa [catMap] using hys
      subst this
      exact ⟨v1, run4_root_vc_rev v1 v2 ud hr2, hr1⟩
    · rw [h] at hys ⊢
      have : ys = [] := by simpa [catMap] using hys
      subst this
      exact ⟨v1, run4_root_tc_rev v1 v2 hr2, hr1⟩

/-- **A bidirectional delta of two nested dictionaries inverts exactly**: `t1 + delta == t2` and `t2 - delta == t1`, every
recorded old value verified, nothing logged. -/
theorem nested_bidirectional (cfg : DCfg) (hp : Diff.Plain cfg) (al : Align) (hashOf : PyVal → String)
    (v1 v2 : PyVal) (j1 : J cfg.ignorePrivate v1) (j2 : J cfg.ignorePrivate v2) :
    (∃ r, applyDelta true (buildDelta false true v1 v2 (deepDiff cfg al hashOf v1 v2)) v1 = { root := r } ∧ pyEq r v2 = true) ∧
    (∃ r, subDelta true (buildDelta false true v1 v2 (deepDiff cfg al hashOf v1 v2)) v2 = .ok { root := r } ∧ pyEq r v1 = true) := by
  refine ⟨nested_roundtrip cfg hp al hashOf true false true (fun _ => ⟨rfl, rfl⟩) v1 v2 j1 j2, ?_⟩
  rw [J_deepDiff hp al hashOf v1 v2 j1 j2]
  generalize hT : (diffV cfg al hashOf [] v1 v2).tree = T
  obtain ⟨hcats, _, hstrs⟩ := J_tree_facts hp al hashOf (sizeOf v1) v1 v2 (Nat.le_refl _) j1 j2
  rw [hT] at hcats hstrs
  obtain ⟨fV, fT, fA, fR⟩ := build_fields false true v1 v2 T
  obtain ⟨e1, e2, e3, e4, e5⟩ := build_empty false true v1 v2 T hcats
  obtain ⟨rV, rT, rA, rR⟩ := reverse_fields (buildDelta false true v1 v2 ⟨T, []⟩)
  have he' : (reverseDelta (buildDelta false true v1 v2 ⟨T, []⟩)).setAdded = [] ∧ (reverseDelta (buildDelta false true v1 v2 ⟨T, []⟩)).setRemoved = [] ∧
      (reverseDelta (buildDelta false true v1 v2 ⟨T, []⟩)).opcodes = [] ∧ (reverseDelta (buildDelta false true v1 v2 ⟨T, []⟩)).iterAdded = [] ∧
      (reverseDelta (buildDelta false true v1 v2 ⟨T, []⟩)).iterRemoved = [] := by
    simp [reverseDelta, e1, e2, e3, e4, e5]
  obtain ⟨ys, hsort, hperm⟩ := sortPaths_strs (reverseDelta (buildDelta false true v1 v2 ⟨T, []⟩)).dictRemoved true (by rw [rR, fA]; exact hstrs)
  obtain ⟨r, hrun, hpe⟩ := nested_main_rev hp al hashOf (sizeOf v1) v1 v2 (Nat.le_refl _) j1 j2 ys
    (by rw [hT, ← fA, ← rR]; exact hperm)
  rw [hT] at hrun
  refine ⟨r, ?_, hpe⟩
  simp only [subDelta, if_true]
  congr 1
  apply applyDelta_of_run4 true _ v2 r ys he' hsort
  rw [rV, rT, rA, fV, fT, fR]
  exact hrun

end Delta
