import Model.Diff.Ordered
import Model.Py.WF
/-! Helper lemmas for the ordered-diff properties (C02, C03, C04, C10, C13). -/
namespace Diff
open Py

theorem numEq_refl_of_num {a : PyVal} (h : (numOf a).isSome) : numEq a a = true := by
  unfold numEq
  cases hn : numOf a with
  | none => simp [hn] at h
  | some p => obtain ⟨n, s⟩ := p; simp

mutual
theorem keyEq_refl : ∀ (k : PyVal), hashable k = true → keyEq k k = true
  | .none, _ => by simp [keyEq]
  | .bool b, _ => by simp [keyEq, numEq, numOf]
  | .int i, _ => by simp [keyEq, numEq, numOf]
  | .float n s, _ => by simp [keyEq, numEq, numOf]
  | .str s, _ => by simp [keyEq]
  | .bytes s, _ => by simp [keyEq]
  | .tuple xs, h => by
    simp only [hashable] at h
    simp only [keyEq]
    exact keyEqL_refl xs h
  | .list _, h => by simp [hashable] at h
  | .set _, h => by simp [hashable] at h
  | .frozenset _, h => by simp [hashable] at h
  | .dict _, h => by simp [hashable] at h
theorem keyEqL_refl : ∀ (xs : List PyVal), hashableL xs = true → keyEqL xs xs = true
  | [], _ => by simp [keyEqL]
  | x :: xs, h => by
    simp only [hashableL, Bool.and_eq_true] at h
    simp only [keyEqL, Bool.and_eq_true]
    exact ⟨keyEq_refl x h.1, keyEqL_refl xs h.2⟩
end

theorem leafDiff_self (steps : List Step) (a : PyVal) (h : isBasic a = true) : leafDiff steps a a = [] := by
  cases a <;> simp_all [leafDiff, isBasic, numEq, numOf]

theorem diffSet_self (hashOf : PyVal → String) (steps : List Step) (xs : List PyVal) :
    diffSet hashOf steps xs xs = [] := by
  unfold diffSet
  have h1 : xs.filter (fun y => !(xs.map hashOf).contains (hashOf y)) = [] := by
    rw [List.filter_eq_nil_iff]
    intro a ha
    have : hashOf a ∈ xs.map hashOf := List.mem_map.2 ⟨a, ha, rfl⟩
    simp [this]
  simp only [h1, List.map_nil, List.nil_append]

/-- with pairwise different keys: looking up a key `k` of the dict that is `keyEq` to the key of an
entry returns that entry's value -/
theorem dictGet_of_entry : ∀ (kvs : List (PyVal × PyVal)) (k1 v1 k : PyVal),
    distinctKeys (kvs.map (·.1)) = true → (k1, v1) ∈ kvs → k ∈ kvs.map (·.1) → keyEq k1 k = true →
    dictGet kvs k = some v1
  | [], _, _, _, _, hm, _, _ => by simp at hm
  | (k0, v0) :: rest, k1, v1, k, hd, hm, hkm, hk => by
    simp only [List.map_cons, distinctKeys, Bool.and_eq_true, Bool.not_eq_true', List.any_eq_false] at hd
    rcases List.mem_cons.1 hm with heq | hm'
    · cases heq
      simp [dictGet, List.find?_cons, hk]
    · have hk1 : k1 ∈ rest.map (·.1) := List.mem_map.2 ⟨(k1, v1), hm', rfl⟩
      rcases List.mem_cons.1 hkm with rfl | hkm'
      · exact absurd hk (by simpa using hd.1.2 k1 hk1)
      · have h0 : keyEq k0 k = false := by simpa using hd.1.1 k hkm'
        have := dictGet_of_entry rest k1 v1 k hd.2 hm' hkm' hk
        simp only [dictGet, List.find?_cons, h0] at this ⊢
        exact this

end Diff

namespace Diff
open Py

/-- the alignment oracle finds nothing to report between a list and itself (difflib yields only
`equal` blocks; checked on the real difflib by the harness) -/
def AlignRefl (al : Align) : Prop := ∀ (steps : List Step) (xs : List PyVal), opcodeEntries steps xs xs (al xs xs) = []

theorem Result.empty_append_empty : ({} : Result) ++ ({} : Result) = {} := rfl

theorem Result.append_def (a b : Result) : a ++ b = ⟨a.tree ++ b.tree, a.opcodes ++ b.opcodes⟩ := rfl

theorem Result.append_empty (r : Result) : r ++ ({} : Result) = r := by
  cases r; simp only [Result.append_def, List.append_nil]

theorem Result.empty_append (r : Result) : ({} : Result) ++ r = r := by
  cases r; simp only [Result.append_def, List.nil_append]

theorem belowThreshold_false (cfg : DCfg) (hc : cfg.thrNum ≤ cfg.thrDen) {n u : Nat} (h : u ≤ n) :
    belowThreshold cfg n u = false := by
  unfold belowThreshold
  have : ¬ (n * cfg.thrDen < cfg.thrNum * u) := by
    have h1 : cfg.thrNum * u ≤ cfg.thrDen * n := Nat.mul_le_mul hc h
    rw [Nat.mul_comm cfg.thrDen n] at h1
    omega
  simp [this]

theorem foldl_children_empty (children : List (PyVal × Result)) (hch : ∀ p ∈ children, p.2 = {})
    (ks : List PyVal) :
    ks.foldl (fun acc k => match children.find? (fun p => keyEq p.1 k) with
      | some (_, r) => acc ++ r
      | Option.none => acc) ({} : Result) = {} := by
  induction ks with
  | nil => rfl
  | cons k ks ih =>
    simp only [List.foldl_cons]
    cases hf : children.find? (fun p => keyEq p.1 k) with
    | none => simpa using ih
    | some p =>
      obtain ⟨k', r⟩ := p
      have hr : r = {} := hch (k', r) (List.mem_of_find?_eq_some hf)
      subst hr
      simpa [Result.empty_append_empty] using ih

theorem foldl_fix {f : Result → PyVal → Result} (hf : ∀ k, f {} k = {}) (ks : List PyVal) :
    ks.foldl f {} = {} := by
  induction ks with
  | nil => rfl
  | cons k ks ih => simp only [List.foldl_cons, hf k, ih]

theorem foldl_opcodes_nil (children : List (PyVal × Result)) (ks : List PyVal)
    (h : ∀ p ∈ children, p.2.opcodes = []) :
    (ks.foldl (fun acc k => match children.find? (fun p => keyEq p.1 k) with
      | some (_, r) => acc ++ r
      | Option.none => acc) ({} : Result)).opcodes = [] := by
  suffices ∀ acc : Result, acc.opcodes = [] →
      (ks.foldl (fun acc k => match children.find? (fun p => keyEq p.1 k) with
        | some (_, r) => acc ++ r
        | Option.none => acc) acc).opcodes = [] from this {} rfl
  induction ks with
  | nil => intro acc h0; exact h0
  | cons k ks ih =>
    intro acc h0
    simp only [List.foldl_cons]
    cases hf : children.find? (fun p => keyEq p.1 k) with
    | none => exact ih acc h0
    | some p =>
      obtain ⟨k', r⟩ := p
      apply ih
      have hr : r.opcodes = [] := h (k', r) (List.mem_of_find?_eq_some hf)
      simp only [Result.append_def, h0, hr, List.append_nil]

theorem keysOf_subset (cfg : DCfg) (steps : List Step) (kvs : List (PyVal × PyVal)) :
    ∀ k ∈ keysOf cfg steps kvs, k ∈ kvs.map (·.1) := by
  intro k hk
  exact (List.mem_filter.1 hk).1

end Diff

namespace Diff
open Py

theorem wfL_all {xs : List PyVal} (h : wfL xs = true) : ∀ x ∈ xs, wf x = true := by
  induction xs with
  | nil => intro x hx; cases hx
  | cons y ys ih =>
    simp only [wfL, Bool.and_eq_true] at h
    intro x hx
    rcases List.mem_cons.1 hx with rfl | hx
    · exact h.1
    · exact ih h.2 x hx

theorem wfP_all {kvs : List (PyVal × PyVal)} (h : wfP kvs = true) : ∀ p ∈ kvs, wf p.2 = true := by
  induction kvs with
  | nil => intro x hx; cases hx
  | cons y ys ih =>
    obtain ⟨k, v⟩ := y
    simp only [wfP, Bool.and_eq_true] at h
    intro x hx
    rcases List.mem_cons.1 hx with rfl | hx
    · exact h.1
    · exact ih h.2 x hx

set_option maxHeartbeats 1000000
mutual
/-- a value diffed against itself reports nothing, in every ordered configuration -/
theorem diffV_self (cfg : DCfg) (al : Align) (hashOf : PyVal → String) (hal : AlignRefl al)
    (hc : cfg.thrNum ≤ cfg.thrDen) : ∀ (t : PyVal) (steps : List Step), wf t = true →
    diffV cfg al hashOf steps t t = {}
  | .none, steps, _ => by simp [diffV, leafDiff]
  | .bool b, steps, _ => by simp [diffV, leafDiff, numEq, numOf]
  | .int i, steps, _ => by simp [diffV, leafDiff, numEq, numOf]
  | .float n s, steps, _ => by simp [diffV, leafDiff, numEq, numOf]
  | .str s, steps, _ => by simp [diffV, leafDiff]
  | .bytes s, steps, _ => by simp [diffV, leafDiff]
  | .set xs, steps, _ => by simp [diffV, diffSet_self]
  | .frozenset xs, steps, _ => by simp [diffV, diffSet_self]
  | .list xs, steps, h => by
    simp only [wf] at h
    simp only [diffV, iterInOrder]
    split
    · simp [hal steps xs, keepReported]
    · exact diffPairs_self cfg al hashOf hal hc xs 0 steps h
  | .tuple xs, steps, h => by
    simp only [wf] at h
    simp only [diffV, iterInOrder]
    split
    · simp [hal steps xs, keepReported]
    · exact diffPairs_self cfg al hashOf hal hc xs 0 steps h
  | .dict kvs, steps, h => by
    simp only [wf, Bool.and_eq_true] at h
    obtain ⟨⟨hh, hd⟩, hp⟩ := h
    have hsub := keysOf_subset cfg steps kvs
    have hrefl : ∀ k ∈ keysOf cfg steps kvs, (keysOf cfg steps kvs).any (fun k' => keyEq k' k) = true := by
      intro k hk
      rw [List.any_eq_true]
      exact ⟨k, hk, keyEq_refl k (List.all_eq_true.1 hh k (hsub k hk))⟩
    have hinter : (keysOf cfg steps kvs).filter (fun k => (keysOf cfg steps kvs).any (fun k' => keyEq k' k)) = keysOf cfg steps kvs := by
      rw [List.filter_eq_self]; exact hrefl
    have hadd : (keysOf cfg steps kvs).filter (fun k => !(keysOf cfg steps kvs).any (fun k' => keyEq k' k)) = [] := by
      rw [List.filter_eq_nil_iff]; intro k hk; simp [hrefl k hk]
    have hch := diffKVs_self cfg al hashOf hal hc kvs kvs (keysOf cfg steps kvs) steps (fun e he => he) hd hp hsub
    simp only [diffV, hinter, hadd, List.append_nil, List.map_nil]
    have hthr : ∀ u, u ≤ (keysOf cfg steps kvs).length → belowThreshold cfg (keysOf cfg steps kvs).length u = false :=
      fun u hu => belowThreshold_false cfg hc hu
    have hfold : ∀ f : Result → PyVal → Result, (∀ k, f {} k = {}) →
        ({} : Result) ++ List.foldl f {} (keysOf cfg steps kvs) = {} := by
      intro f hf; rw [foldl_fix hf]; rfl
    have hstep : ∀ k, (match List.find? (fun p => keyEq p.fst k) (diffKVs cfg al hashOf steps kvs kvs (keysOf cfg steps kvs)) with
        | some (_, r) => ({} : Result) ++ r
        | Option.none => ({} : Result)) = {} := by
      intro k
      cases hf : List.find? (fun p => keyEq p.fst k) (diffKVs cfg al hashOf steps kvs kvs (keysOf cfg steps kvs)) with
      | none => rfl
      | some p =>
        obtain ⟨k', r⟩ := p
        have hr : r = {} := hch (k', r) (List.mem_of_find?_eq_some hf)
        subst hr; rfl
    split <;> split
    · rename_i hb; rw [hthr _ (Nat.le_refl _)] at hb; cases hb
    · exact hfold _ hstep
    · rename_i hb; rw [hthr _ (List.length_filter_le _ _)] at hb; cases hb
    · exact hfold _ hstep
/-- every child diff computed for a dict against itself is empty -/
theorem diffKVs_self (cfg : DCfg) (al : Align) (hashOf : PyVal → String) (hal : AlignRefl al)
    (hc : cfg.thrNum ≤ cfg.thrDen) : ∀ (rest kvs : List (PyVal × PyVal)) (k2s : List PyVal) (steps : List Step),
    (∀ e ∈ rest, e ∈ kvs) → distinctKeys (kvs.map (·.1)) = true → wfP rest = true →
    (∀ k ∈ k2s, k ∈ kvs.map (·.1)) →
    ∀ p ∈ diffKVs cfg al hashOf steps rest kvs k2s, p.2 = {}
  | [], _, _, _, _, _, _, _ => by intro p hp; simp [diffKVs] at hp
  | (k1, v1) :: rest, kvs, k2s, steps, hsub, hd, hw, hk2 => by
    simp only [wfP, Bool.and_eq_true] at hw
    have ih := diffKVs_self cfg al hashOf hal hc rest kvs k2s steps (fun e he => hsub e (List.mem_cons_of_mem _ he)) hd hw.2 hk2
    intro p hp
    simp only [diffKVs] at hp
    split at hp
    · exact ih p hp
    · split at hp
      · rename_i k hfind
        have hkmem := hk2 k (List.mem_of_find?_eq_some hfind)
        have hkeq : keyEq k1 k = true := by have := List.find?_some hfind; simpa using this
        have hget := dictGet_of_entry kvs k1 v1 k hd (hsub (k1, v1) (List.mem_cons_self ..)) hkmem hkeq
        rw [hget] at hp
        simp only at hp
        rcases List.mem_cons.1 hp with rfl | hp
        · simp only
          split
          · rfl
          · exact diffV_self cfg al hashOf hal hc v1 _ hw.1
        · exact ih p hp
      · exact ih p hp
theorem diffPairs_self (cfg : DCfg) (al : Align) (hashOf : PyVal → String) (hal : AlignRefl al)
    (hc : cfg.thrNum ≤ cfg.thrDen) : ∀ (xs : List PyVal) (i : Nat) (steps : List Step), wfL xs = true →
    diffPairs cfg al hashOf steps i xs xs = {}
  | [], _, _, _ => by simp [diffPairs]
  | x :: xs, i, steps, h => by
    simp only [wfL, Bool.and_eq_true] at h
    simp only [diffPairs]
    rw [diffPairs_self cfg al hashOf hal hc xs (i + 1) steps h.2]
    split
    · rfl
    · rw [diffV_self cfg al hashOf hal hc x _ h.1]; rfl
end

end Diff
