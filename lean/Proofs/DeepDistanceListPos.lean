import Proofs.DeepDistanceList
import Proofs.DeepDistanceSet
/-!
deep_distance of two lists of scalars compared position by position is positive as soon as the diff is not empty,
when no item is `None` (which `_get_item_length` does not count).
-/
namespace Dist
open Py Diff Delta

theorem sumBy_pos_of_mem {α} (f : α → Nat) (l : List α) (x : α) (hx : x ∈ l) (hf : 0 < f x) : 0 < sumBy f l := by
  induction l with
  | nil => simp at hx
  | cons y ys ih =>
    simp only [sumBy]
    rcases List.mem_cons.1 hx with rfl | h
    · omega
    · have := ih h; omega

/-- a position-by-position tree of two lists of equal length that contributes neither a value change nor a type change is empty -/
theorem listT_nil_of_fields (directed always : Bool) : ∀ (xs ys : List PyVal) (i : Nat), xs.length = ys.length →
    catMap .typeChanges (tcF directed always) (listT i xs ys) = [] → catMap .valuesChanged (vcF directed) (listT i xs ys) = [] →
    listT i xs ys = []
  | [], [], _, _, _, _ => by simp [listT]
  | [], _ :: _, _, h, _, _ => by simp at h
  | _ :: _, [], _, h, _, _ => by simp at h
  | x :: xs, y :: ys, i, hl, hT, hV => by
    simp only [listT, catMap_append, List.append_eq_nil_iff] at hT hV ⊢
    have hrest := listT_nil_of_fields directed always xs ys (i + 1) (by simpa using hl) hT.2 hV.2
    refine ⟨?_, hrest⟩
    have hT1 : TCi directed always i x y = [] := hT.1
    have hV1 : VCi directed i x y = [] := hV.1
    rcases list_cls directed always i x y with ⟨_, h, _⟩ | ⟨_, _, ht, hl'⟩ | ⟨_, _, h⟩
    · rw [hT1] at h; cases h
    · simp [childTreeI, ht, hl']
    · rw [hV1] at h; cases h

/-- **lists of scalars other than `None`, position by position**: a non-empty diff has a positive numerator -/
theorem list_deep_pos (cfg : DCfg) (hp : Diff.Plain cfg) (hz : cfg.zip = true) (al : Align) (hashOf : PyVal → String)
    (xs ys : List PyVal) (hbx : ∀ x ∈ xs, isBasic x = true ∧ x ≠ .none) (hby : ∀ y ∈ ys, isBasic y = true ∧ y ≠ .none)
    (hne : (deepDiff cfg al hashOf (.list xs) (.list ys)).tree ≠ []) :
    0 < (deepDistance cfg al hashOf (.list xs) (.list ys)).1 := by
  have hbx' : ∀ x ∈ xs, isBasic x = true := fun x hx => (hbx x hx).1
  have hdv := list_diffV_zip cfg hp hz al hashOf xs ys hbx'
  have hdd := list_deepDiff_of_tree cfg hp al hashOf xs ys hdv
  have hdu := list_diffUnmerged_of_tree cfg hp al hashOf xs ys hdv
  rw [hdd] at hne
  simp only at hne
  obtain ⟨hV, hT, hR, hA⟩ := list_payload true false (.list xs) (.list ys) xs ys
  obtain ⟨fV, fT, _, _⟩ := build_fields true false (.list xs) (.list ys) (listT 0 xs ys)
  unfold deepDistance
  rw [hdu]
  simp only
  unfold payloadLen
  generalize hm : min xs.length ys.length = m at hV hT hR hA
  by_cases hlen : xs.length = ys.length
  · -- equal lengths: some shared position changes its value or its type
    have hfields : ¬ (catMap .typeChanges (tcF true false) (listT 0 xs ys) = [] ∧ catMap .valuesChanged (vcF true) (listT 0 xs ys) = []) := by
      intro h; exact hne (listT_nil_of_fields true false xs ys 0 hlen h.1 h.2)
    by_cases hTe : catMap .typeChanges (tcF true false) (listT 0 xs ys) = []
    · have hVe : catMap .valuesChanged (vcF true) (listT 0 xs ys) ≠ [] := fun h => hfields ⟨hTe, h⟩
      rw [← fV, hV] at hVe
      obtain ⟨c, hc⟩ := List.exists_mem_of_ne_nil _ hVe
      have hpos : 0 < changeLen false c := by
        obtain ⟨k, hk, rfl⟩ := List.mem_map.1 hc
        have hk' : k < m := by simpa using (List.mem_filter.1 hk).1
        have hy : k < ys.length := by omega
        have hyb := hby _ (List.getElem_mem hy)
        have := itemLen_basic_pos _ hyb.1 hyb.2
        simp only [changeLen, vcChange, optLen, if_true, Bool.false_eq_true, if_false, List.getElem?_eq_getElem hy, Option.getD_some]
        omega
      have hc' : c ∈ (buildDelta true false (.list xs) (.list ys) ⟨listT 0 xs ys, []⟩).valuesChanged := by rw [hV]; exact hc
      have := sumBy_pos_of_mem (changeLen false) _ c hc' hpos
      omega
    · rw [← fT] at hTe
      obtain ⟨c, hc⟩ := List.exists_mem_of_ne_nil _ hTe
      have hpos : 0 < changeLen true c := by simp only [changeLen, if_true]; omega
      have := sumBy_pos_of_mem (changeLen true) _ c hc hpos
      omega
  · -- different lengths: the longer list has a tail that is removed or added
    by_cases hlt : xs.length < ys.length
    · have hmx : m = xs.length := by omega
      have hd : ys.drop m ≠ [] := by
        intro h; have := congrArg List.length h; simp at this; omega
      obtain ⟨y, rest, hyr⟩ := List.exists_cons_of_ne_nil hd
      have hymem : y ∈ ys := List.mem_of_mem_drop (by rw [hyr]; exact List.mem_cons_self ..)
      have hyb := hby y hymem
      have hyp := itemLen_basic_pos y hyb.1 hyb.2
      rw [hA, hyr]
      simp only [addsFrom, sumBy]
      omega
    · have hmy : m = ys.length := by omega
      have hd : xs.drop m ≠ [] := by
        intro h; have := congrArg List.length h; simp at this; omega
      obtain ⟨x, rest, hxr⟩ := List.exists_cons_of_ne_nil hd
      have hxmem : x ∈ xs := List.mem_of_mem_drop (by rw [hxr]; exact List.mem_cons_self ..)
      have hxb := hbx x hxmem
      have hxp := itemLen_basic_pos x hxb.1 hxb.2
      rw [hR, hxr]
      simp only [remsFrom, sumBy]
      omega

end Dist
