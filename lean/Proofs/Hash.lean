import Model.Hash.Prep
/-! Helper lemmas for C06 (equal content hashes equally). Core Lean only. -/
namespace Hash
open Py

theorem sortStr_perm {xs ys : List String} (h : xs.Perm ys) : sortStr xs = sortStr ys := by
  unfold sortStr
  have hle_trans : ∀ a b c : String, (decide (a ≤ b)) = true → (decide (b ≤ c)) = true → (decide (a ≤ c)) = true := by
    intro a b c h1 h2; simp only [decide_eq_true_eq] at *; exact String.le_trans h1 h2
  have hle_total : ∀ a b : String, (decide (a ≤ b) || decide (b ≤ a)) = true := by
    intro a b; simp only [Bool.or_eq_true, decide_eq_true_eq]; exact String.le_total a b
  have p1 := List.mergeSort_perm xs (fun a b => decide (a ≤ b))
  have p2 := List.mergeSort_perm ys (fun a b => decide (a ≤ b))
  have s1 := List.pairwise_mergeSort (le := fun a b => decide (a ≤ b)) hle_trans hle_total xs
  have s2 := List.pairwise_mergeSort (le := fun a b => decide (a ≤ b)) hle_trans hle_total ys
  apply List.Perm.eq_of_pairwise (le := fun a b => decide (a ≤ b) = true)
  · intro a b _ _ h1 h2
    simp only [decide_eq_true_eq] at h1 h2
    exact String.le_antisymm h1 h2
  · exact s1
  · exact s2
  · exact p1.trans (h.trans p2.symm)

theorem mem_dedupFirst {hs : List String} {x : String} : x ∈ dedupFirst hs ↔ x ∈ hs := by
  induction hs with
  | nil => simp [dedupFirst]
  | cons y ys ih =>
    simp only [dedupFirst, List.mem_cons, List.mem_filter, ih, bne_iff_ne, ne_eq]
    constructor
    · rintro (h | ⟨h, _⟩)
      · exact Or.inl h
      · exact Or.inr h
    · rintro (h | h)
      · exact Or.inl h
      · by_cases hxy : x = y
        · exact Or.inl hxy
        · exact Or.inr ⟨h, hxy⟩

theorem nodup_dedupFirst (hs : List String) : (dedupFirst hs).Nodup := by
  induction hs with
  | nil => simp [dedupFirst]
  | cons y ys ih =>
    simp only [dedupFirst, List.nodup_cons, List.mem_filter, bne_iff_ne, ne_eq, not_true_eq_false, and_false,
      not_false_eq_true, true_and]
    exact ih.sublist List.filter_sublist

theorem dedupFirst_perm {xs ys : List String} (h : xs.Perm ys) : (dedupFirst xs).Perm (dedupFirst ys) := by
  rw [List.perm_iff_count]
  intro a
  rw [(nodup_dedupFirst xs).count, (nodup_dedupFirst ys).count]
  simp only [mem_dedupFirst, h.mem_iff]

theorem countDedup_perm {xs ys : List String} (h : xs.Perm ys) : (countDedup xs).Perm (countDedup ys) := by
  unfold countDedup
  have : (fun x => (x, List.count x xs)) = (fun x => (x, List.count x ys)) := by
    funext x; rw [h.count_eq]
  rw [this]
  exact (dedupFirst_perm h).map _

/-- `_prep_iterable` in an order-ignoring mode does not depend on the order of the item hashes -/
theorem prepIterable_perm (cfg : HCfg) (ho : cfg.ignoreOrder = true) (tag : String) {xs ys : List String}
    (h : xs.Perm ys) : prepIterable cfg tag xs = prepIterable cfg tag ys := by
  unfold prepIterable
  simp only [ho, ↓reduceIte]
  have hp := countDedup_perm h
  congr 2
  split
  · exact sortStr_perm (hp.map _)
  · exact sortStr_perm (hp.map _)

end Hash

namespace Hash
open Py

theorem hashL_cons (cfg : HCfg) (H : String → String) (x : PyVal) (xs : List PyVal) :
    hashL cfg H (x :: xs) = ((hashV cfg H x).1 :: (hashL cfg H xs).1, (hashV cfg H x).2 + (hashL cfg H xs).2) := by
  simp [hashL]

theorem hashL_perm (cfg : HCfg) (H : String → String) {xs ys : List PyVal} (h : xs.Perm ys) :
    (hashL cfg H xs).1.Perm (hashL cfg H ys).1 ∧ (hashL cfg H xs).2 = (hashL cfg H ys).2 := by
  induction h with
  | nil => exact ⟨List.Perm.refl _, rfl⟩
  | cons x _ ih =>
    simp only [hashL_cons]
    exact ⟨ih.1.cons _, by rw [ih.2]⟩
  | swap x y l =>
    simp only [hashL_cons]
    exact ⟨List.Perm.swap _ _ _, by omega⟩
  | trans _ _ ih1 ih2 => exact ⟨ih1.1.trans ih2.1, ih1.2.trans ih2.2⟩

theorem hashP_cons (cfg : HCfg) (H : String → String) (k v : PyVal) (rest : List (PyVal × PyVal)) :
    hashP cfg H ((k, v) :: rest) =
      if cfg.ignorePrivate && isPrivateKey k then ((hashP cfg H rest).1, (hashP cfg H rest).2 + 1)
      else (((hashV cfg H k).1 ++ ":" ++ (hashV cfg H v).1) :: (hashP cfg H rest).1,
            (hashP cfg H rest).2 + 1 + (hashV cfg H v).2) := by
  simp only [hashP]

theorem hashP_perm (cfg : HCfg) (H : String → String) {xs ys : List (PyVal × PyVal)} (h : xs.Perm ys) :
    (hashP cfg H xs).1.Perm (hashP cfg H ys).1 ∧ (hashP cfg H xs).2 = (hashP cfg H ys).2 := by
  induction h with
  | nil => exact ⟨List.Perm.refl _, rfl⟩
  | cons x _ ih =>
    obtain ⟨k, v⟩ := x
    simp only [hashP_cons]
    split
    · exact ⟨ih.1, by rw [ih.2]⟩
    · exact ⟨ih.1.cons _, by rw [ih.2]⟩
  | swap x y l =>
    obtain ⟨k, v⟩ := x
    obtain ⟨k', v'⟩ := y
    simp only [hashP_cons]
    split <;> split
    · exact ⟨List.Perm.refl _, by simp⟩
    · exact ⟨List.Perm.refl _, by simp; omega⟩
    · exact ⟨List.Perm.refl _, by simp; omega⟩
    · exact ⟨List.Perm.swap _ _ _, by simp; omega⟩
  | trans _ _ ih1 ih2 => exact ⟨ih1.1.trans ih2.1, ih1.2.trans ih2.2⟩

theorem hashV_list (cfg : HCfg) (H : String → String) (xs : List PyVal) :
    hashV cfg H (.list xs) = (finish cfg H false (prepIterable cfg "list" (hashL cfg H xs).1), (hashL cfg H xs).2 + 1) := by
  simp [hashV]
theorem hashV_tuple (cfg : HCfg) (H : String → String) (xs : List PyVal) :
    hashV cfg H (.tuple xs) = (finish cfg H false (prepIterable cfg "tuple" (hashL cfg H xs).1), (hashL cfg H xs).2 + 1) := by
  simp [hashV]
theorem hashV_set (cfg : HCfg) (H : String → String) (xs : List PyVal) :
    hashV cfg H (.set xs) = (finish cfg H false (prepIterable cfg "set" (hashL cfg H xs).1), (hashL cfg H xs).2 + 1) := by
  simp [hashV]
theorem hashV_frozenset (cfg : HCfg) (H : String → String) (xs : List PyVal) :
    hashV cfg H (.frozenset xs) = (finish cfg H false (prepIterable cfg "frozenset" (hashL cfg H xs).1), (hashL cfg H xs).2 + 1) := by
  simp [hashV]
theorem hashV_dict (cfg : HCfg) (H : String → String) (kvs : List (PyVal × PyVal)) :
    hashV cfg H (.dict kvs) =
      (finish cfg H false ("dict:{" ++ joinWith ";" (sortStr (hashP cfg H kvs).1) ++ "}"), (hashP cfg H kvs).2 + 1) := by
  simp [hashV]

end Hash
