import Proofs.IgnoreOrder
import Proofs.Hash
import Proofs.Keys
/-!
`HashSound` for the concrete item hash `Hash.deepHash {ignoreRepetition := !rep} H` — lists, tuples,
sets (set mode) and leaves: values the ignore-order verdict cannot tell apart hash equally, for every
hasher `H`.  No injectivity is used.  (Dictionaries additionally need NoNumAlias; see the property file.)
-/
namespace DiffIO
open Py Diff Hash

/-! ### facts about `hashTable` -/

/-- one step of `_create_hashtable` -/
def tstep (hashOf : PyVal → String) (acc : List HEntry) (p : PyVal × Nat) : List HEntry :=
  if acc.any (fun e => e.h == hashOf p.1) then acc.map (fun e => if e.h == hashOf p.1 then { e with idxs := e.idxs ++ [p.2] } else e)
  else acc ++ [{ h := hashOf p.1, idxs := [p.2], item := p.1 }]

theorem hashTable_eq_foldl (hashOf : PyVal → String) (xs : List PyVal) :
    hashTable hashOf xs = (xs.zipIdx).foldl (tstep hashOf) [] := by
  unfold hashTable
  rfl

def hasH (t : List HEntry) (h : String) : Prop := ∃ e ∈ t, e.h = h

theorem tstep_hasH (hashOf : PyVal → String) (acc : List HEntry) (p : PyVal × Nat) (h : String) :
    hasH (tstep hashOf acc p) h ↔ hasH acc h ∨ h = hashOf p.1 := by
  unfold tstep hasH
  split
  · rename_i hany
    rw [List.any_eq_true] at hany
    obtain ⟨e0, he0, heq0⟩ := hany
    have heq0' : e0.h = hashOf p.1 := by simpa using heq0
    constructor
    · rintro ⟨e, he, rfl⟩
      obtain ⟨e1, he1, rfl⟩ := List.mem_map.1 he
      left
      refine ⟨e1, he1, ?_⟩
      split <;> rfl
    · rintro (⟨e, he, rfl⟩ | rfl)
      · refine ⟨_, List.mem_map.2 ⟨e, he, rfl⟩, ?_⟩
        split <;> rfl
      · refine ⟨_, List.mem_map.2 ⟨e0, he0, rfl⟩, ?_⟩
        split <;> simp [heq0']
  · constructor
    · rintro ⟨e, he, rfl⟩
      rcases List.mem_append.1 he with he | he
      · exact Or.inl ⟨e, he, rfl⟩
      · simp only [List.mem_singleton] at he; subst he; exact Or.inr rfl
    · rintro (⟨e, he, rfl⟩ | rfl)
      · exact ⟨e, List.mem_append_left _ he, rfl⟩
      · exact ⟨_, List.mem_append_right _ (List.mem_singleton.2 rfl), rfl⟩

theorem foldl_hasH (hashOf : PyVal → String) (h : String) :
    ∀ (l : List (PyVal × Nat)) (acc : List HEntry), hasH (l.foldl (tstep hashOf) acc) h ↔ hasH acc h ∨ h ∈ l.map (fun p => hashOf p.1) := by
  intro l
  induction l with
  | nil => intro acc; simp
  | cons p l ih =>
    intro acc
    simp only [List.foldl_cons, ih, tstep_hasH, List.map_cons, List.mem_cons]
    constructor
    · rintro ((h1 | h1) | h1)
      · exact Or.inl h1
      · exact Or.inr (Or.inl h1)
      · exact Or.inr (Or.inr h1)
    · rintro (h1 | h1 | h1)
      · exact Or.inl (Or.inl h1)
      · exact Or.inl (Or.inr h1)
      · exact Or.inr h1

theorem zipIdx_map_fst (hashOf : PyVal → String) (xs : List PyVal) :
    (xs.zipIdx).map (fun p => hashOf p.1) = xs.map hashOf := by
  have : (fun (p : PyVal × Nat) => hashOf p.1) = hashOf ∘ Prod.fst := rfl
  rw [this, ← List.map_map, List.zipIdx_map_fst]

/-- the hashes in the table are exactly the hashes of the items -/
theorem hashTable_hasH (hashOf : PyVal → String) (xs : List PyVal) (h : String) :
    hasH (hashTable hashOf xs) h ↔ h ∈ xs.map hashOf := by
  rw [hashTable_eq_foldl, foldl_hasH, zipIdx_map_fst]
  simp [hasH]

/-- multiplicity recorded for a hash: the number of indexes of its (first) entry -/
def cnt (t : List HEntry) (h : String) : Nat := ((t.find? (fun e => e.h == h)).map (fun e => e.idxs.length)).getD 0

theorem find_map_same' {α} (q : α → Bool) (g : α → α) (hq : ∀ x, q (g x) = q x) :
    ∀ l : List α, (l.map g).find? q = (l.find? q).map g := by
  intro l
  induction l with
  | nil => rfl
  | cons x xs ih =>
    simp only [List.map_cons, List.find?_cons, hq]
    split
    · rfl
    · exact ih

theorem tstep_cnt (hashOf : PyVal → String) (acc : List HEntry) (p : PyVal × Nat) (h : String) :
    cnt (tstep hashOf acc p) h = cnt acc h + (if hashOf p.1 = h then 1 else 0) := by
  unfold tstep cnt
  split
  · rename_i hany
    rw [find_map_same' (fun (e : HEntry) => e.h == h) (fun (e : HEntry) => if e.h == hashOf p.1 then { e with idxs := e.idxs ++ [p.2] } else e)
      (by intro x; split <;> rfl)]
    cases hf : acc.find? (fun e => e.h == h) with
    | none =>
      simp only [Option.map_none, Option.getD_none]
      -- h is not in acc, but hashOf p.1 is: they differ
      rw [List.any_eq_true] at hany
      obtain ⟨e0, he0, heq0⟩ := hany
      have hne : hashOf p.1 ≠ h := by
        intro heq
        have := List.find?_eq_none.1 hf e0 he0
        simp only [beq_iff_eq] at heq0 this
        exact this (heq0.trans heq)
      simp [hne]
    | some e =>
      have heh : e.h = h := by have := List.find?_some hf; simpa using this
      simp only [Option.map_some, Option.getD_some]
      by_cases hh : hashOf p.1 = h
      · have : (e.h == hashOf p.1) = true := by simp [heh, hh]
        simp [this, hh, heh]
      · have : (e.h == hashOf p.1) = false := by
          simp only [beq_eq_false_iff_ne, ne_eq, heh]
          exact fun h' => hh h'.symm
        simp [this, hh]
  · rename_i hany
    have hnone : ∀ e ∈ acc, e.h ≠ hashOf p.1 := by
      intro e he heq
      apply hany
      rw [List.any_eq_true]
      exact ⟨e, he, by simp [heq]⟩
    rw [List.find?_append]
    cases hf : acc.find? (fun e => e.h == h) with
    | some e =>
      have heh : e.h = h := by have := List.find?_some hf; simpa using this
      have hne : hashOf p.1 ≠ h := by
        intro heq
        exact hnone e (List.mem_of_find?_eq_some hf) (heh.trans heq.symm)
      simp [hne]
    | none =>
      simp only [Option.none_or, Option.map_none, Option.getD_none, Nat.zero_add, List.find?_cons, List.find?_nil]
      by_cases hh : hashOf p.1 = h
      · simp [hh]
      · have : (hashOf p.1 == h) = false := by simp [hh]
        simp [this, hh]

theorem foldl_cnt (hashOf : PyVal → String) (h : String) :
    ∀ (l : List (PyVal × Nat)) (acc : List HEntry),
      cnt (l.foldl (tstep hashOf) acc) h = cnt acc h + (l.map (fun p => hashOf p.1)).count h := by
  intro l
  induction l with
  | nil => intro acc; simp
  | cons p l ih =>
    intro acc
    simp only [List.foldl_cons, ih, tstep_cnt, List.map_cons, List.count_cons]
    by_cases hh : hashOf p.1 = h
    · simp [hh]; omega
    · have : (hashOf p.1 == h) = false := by simp [hh]
      simp [hh, this]

/-- the multiplicity recorded in the table is the number of items with that hash -/
theorem hashTable_cnt (hashOf : PyVal → String) (xs : List PyVal) (h : String) :
    cnt (hashTable hashOf xs) h = (xs.map hashOf).count h := by
  rw [hashTable_eq_foldl, foldl_cnt, zipIdx_map_fst]
  simp [cnt]

/-! ### from the list verdict to equal serialisations -/

theorem addedOf_nil_iff (t1 t2 : List HEntry) : addedOf t1 t2 = [] ↔ ∀ e ∈ t2, hasH t1 e.h := by
  unfold addedOf hasH
  rw [List.filter_eq_nil_iff]
  constructor
  · intro h e he
    have := h e he
    simp only [Bool.not_eq_true, Bool.not_eq_false', List.any_eq_true, beq_iff_eq] at this
    obtain ⟨e', he', heq⟩ := this
    exact ⟨e', he', heq⟩
  · intro h e he
    obtain ⟨e', he', heq⟩ := h e he
    simp only [Bool.not_eq_true, Bool.not_eq_false', List.any_eq_true, beq_iff_eq]
    exact ⟨e', he', heq⟩

theorem removedOf_nil_iff (t1 t2 : List HEntry) : removedOf t1 t2 = [] ↔ ∀ e ∈ t1, hasH t2 e.h := by
  unfold removedOf hasH
  rw [List.filter_eq_nil_iff]
  constructor
  · intro h e he
    have := h e he
    simp only [Bool.not_eq_true, Bool.not_eq_false', List.any_eq_true, beq_iff_eq] at this
    obtain ⟨e', he', heq⟩ := this
    exact ⟨e', he', heq⟩
  · intro h e he
    obtain ⟨e', he', heq⟩ := h e he
    simp only [Bool.not_eq_true, Bool.not_eq_false', List.any_eq_true, beq_iff_eq]
    exact ⟨e', he', heq⟩

/-- same hashes on both sides -/
theorem same_members (hashOf : PyVal → String) (xs ys : List PyVal)
    (ha : addedOf (hashTable hashOf xs) (hashTable hashOf ys) = []) (hr : removedOf (hashTable hashOf xs) (hashTable hashOf ys) = []) :
    ∀ h, h ∈ xs.map hashOf ↔ h ∈ ys.map hashOf := by
  intro h
  rw [addedOf_nil_iff] at ha
  rw [removedOf_nil_iff] at hr
  constructor
  · intro hm
    obtain ⟨e, he, rfl⟩ := (hashTable_hasH hashOf xs h).2 hm
    exact (hashTable_hasH hashOf ys e.h).1 (hr e he)
  · intro hm
    obtain ⟨e, he, rfl⟩ := (hashTable_hasH hashOf ys h).2 hm
    exact (hashTable_hasH hashOf xs e.h).1 (ha e he)

/-- with repetition reporting and no `repetition_change`: same multiplicities -/
theorem same_counts (c : IOCfg) (hashOf : PyVal → String) (xs ys : List PyVal) (hrep : c.rep = true)
    (hmem : ∀ h, h ∈ xs.map hashOf ↔ h ∈ ys.map hashOf)
    (hre : repEntries c [] (hashTable hashOf xs) (hashTable hashOf ys) = []) :
    ∀ h, (xs.map hashOf).count h = (ys.map hashOf).count h := by
  intro h
  by_cases hin : h ∈ ys.map hashOf
  · rw [← hashTable_cnt hashOf xs h, ← hashTable_cnt hashOf ys h]
    -- the first entry of `h` in t2
    obtain ⟨e2w, he2w, heq2w⟩ := (hashTable_hasH hashOf ys h).2 hin
    cases hf2 : (hashTable hashOf ys).find? (fun e => e.h == h) with
    | none =>
      have := List.find?_eq_none.1 hf2 e2w he2w
      simp [heq2w] at this
    | some e2 =>
      have he2 : e2 ∈ hashTable hashOf ys := List.mem_of_find?_eq_some hf2
      have heh2 : e2.h = h := by have := List.find?_some hf2; simpa using this
      unfold repEntries at hre
      simp only [hrep, if_true, List.filterMap_eq_nil_iff] at hre
      have hthis := hre e2 he2
      rw [heh2] at hthis
      unfold cnt
      rw [hf2]
      cases hf1 : (hashTable hashOf xs).find? (fun e => e.h == h) with
      | none =>
        exfalso
        obtain ⟨e1w, he1w, heq1w⟩ := (hashTable_hasH hashOf xs h).2 ((hmem h).2 hin)
        have := List.find?_eq_none.1 hf1 e1w he1w
        simp [heq1w] at this
      | some e1 =>
        rw [hf1] at hthis
        simp only [Option.map_some, Option.getD_some]
        by_cases hlen : e1.idxs.length = e2.idxs.length
        · exact hlen
        · simp [hlen] at hthis
  · have hin' : h ∉ xs.map hashOf := fun hx => hin ((hmem h).1 hx)
    rw [List.count_eq_zero_of_not_mem hin, List.count_eq_zero_of_not_mem hin']

/-- equal sets of item hashes (and equal multiplicities when repetition counts) serialise equally -/
theorem prepIterable_same (cfg : HCfg) (ho : cfg.ignoreOrder = true) (tag : String) (hs1 hs2 : List String)
    (hmem : ∀ h, h ∈ hs1 ↔ h ∈ hs2) (hcnt : cfg.ignoreRepetition = false → ∀ h, hs1.count h = hs2.count h) :
    prepIterable cfg tag hs1 = prepIterable cfg tag hs2 := by
  unfold prepIterable
  simp only [ho, if_true]
  have hperm : (dedupFirst hs1).Perm (dedupFirst hs2) := by
    rw [List.perm_ext_iff_of_nodup (nodup_dedupFirst hs1) (nodup_dedupFirst hs2)]
    intro a
    rw [mem_dedupFirst, mem_dedupFirst]
    exact hmem a
  congr 2
  cases hrep : cfg.ignoreRepetition with
  | true =>
    simp only [if_true]
    apply sortStr_perm
    unfold countDedup
    simp only [List.map_map]
    exact hperm.map _
  | false =>
    simp only [Bool.false_eq_true, if_false]
    apply sortStr_perm
    unfold countDedup
    simp only [List.map_map]
    have hc := hcnt hrep
    have : ((fun p : String × Nat => p.1 ++ "|" ++ toString p.2) ∘ fun x => (x, List.count x hs1)) =
           ((fun p : String × Nat => p.1 ++ "|" ++ toString p.2) ∘ fun x => (x, List.count x hs2)) := by
      funext x; simp [hc x]
    rw [this]
    exact hperm.map _

theorem hashL_fst (cfg : HCfg) (H : String → String) : ∀ xs : List PyVal, (hashL cfg H xs).1 = xs.map (deepHash cfg H)
  | [] => by simp [hashL]
  | x :: xs => by
    have := hashL_fst cfg H xs
    simp only [hashL, List.map_cons, deepHash]
    rw [← this]

/-! ### the concrete item hash and its domain -/

/-- the `DeepHash` configuration `DeepDiff` uses for items: `ignore_repetition = not report_repetition`,
private keys as in the diff -/
def hcfg (c : IOCfg) : HCfg := { ignoreRepetition := !c.rep, ignorePrivate := c.ignorePrivate }

/-- `DeepHash(item, **deephash_parameters)[item]` in the model -/
def dh (c : IOCfg) (H : String → String) : PyVal → String := Hash.deepHash (hcfg c) H

/-- short-decimal floats in canonical form (no trailing zero in the fraction) -/
def canonFloat (n : Int) (s : Nat) : Prop := s = 0 ∨ n % 10 ≠ 0

mutual
/-- the domain of `C12_hashSound_concrete`: dictionaries with pairwise different, hashable keys taken
from the key universe `K`; sets whose members hash differently; floats in canonical form -/
def domV (K : List PyVal) (hashOf : PyVal → String) : PyVal → Prop
  | .dict kvs => distinctKeys (kvs.map (·.1)) = true ∧ (∀ k ∈ kvs.map (·.1), hashable k = true ∧ k ∈ K) ∧ domP K hashOf kvs
  | .list xs => domL K hashOf xs
  | .tuple xs => domL K hashOf xs
  | .set xs => (xs.map hashOf).Nodup
  | .frozenset xs => (xs.map hashOf).Nodup
  | .float n s => canonFloat n s
  | _ => True
def domL (K : List PyVal) (hashOf : PyVal → String) : List PyVal → Prop
  | [] => True
  | x :: xs => domV K hashOf x ∧ domL K hashOf xs
def domP (K : List PyVal) (hashOf : PyVal → String) : List (PyVal × PyVal) → Prop
  | [] => True
  | (_, v) :: rest => domV K hashOf v ∧ domP K hashOf rest
end

/-- `==` on the key universe is identity (NoNumAlias: no `1` next to `1.0` or `True`) -/
def StrictK (K : List PyVal) : Prop := ∀ k ∈ K, ∀ k' ∈ K, keyEq k k' = true → k = k'

theorem domL_all {K : List PyVal} {hashOf : PyVal → String} : ∀ {xs : List PyVal}, domL K hashOf xs → ∀ x ∈ xs, domV K hashOf x
  | [], _, x, hx => by simp at hx
  | y :: ys, h, x, hx => by
    simp only [domL] at h
    rcases List.mem_cons.1 hx with rfl | hx'
    · exact h.1
    · exact domL_all h.2 x hx'

theorem domP_all {K : List PyVal} {hashOf : PyVal → String} : ∀ {kvs : List (PyVal × PyVal)}, domP K hashOf kvs → ∀ p ∈ kvs, domV K hashOf p.2
  | [], _, p, hp => by simp at hp
  | (k, v) :: rest, h, p, hp => by
    simp only [domP] at h
    rcases List.mem_cons.1 hp with rfl | hp'
    · exact h.1
    · exact domP_all h.2 p hp'

theorem domV_closed (K : List PyVal) (hashOf : PyVal → String) : Closed (domV K hashOf) :=
  ⟨fun xs h => by simp only [domV] at h; exact domL_all h,
   fun xs h => by simp only [domV] at h; exact domL_all h,
   fun kvs h => by simp only [domV] at h; exact domP_all h.2.2⟩

/-! ### leaves -/

theorem pow10_add (a b : Nat) : pow10 (a + b) = pow10 a * pow10 b := by
  unfold pow10; exact Int.pow_add 10 a b

theorem pow10_pos' (a : Nat) : 0 < pow10 a := by
  unfold pow10; exact Int.pow_pos (by decide)

theorem pow10_succ' (d : Nat) : pow10 (d + 1) = 10 * pow10 d := by
  unfold pow10; rw [Int.pow_succ]; exact Int.mul_comm _ _

/-- two canonical short decimals with the same value are the same pair -/
theorem canon_eq (n n' : Int) (s s' : Nat) (h : n * pow10 s' = n' * pow10 s) (hc : canonFloat n s) (hc' : canonFloat n' s') :
    n = n' ∧ s = s' := by
  have hne : ∀ a, pow10 a ≠ 0 := fun a => Int.ne_of_gt (pow10_pos' a)
  rcases Nat.lt_trichotomy s s' with hlt | heq | hgt
  · exfalso
    obtain ⟨d, rfl⟩ : ∃ d, s' = s + (d + 1) := ⟨s' - s - 1, by omega⟩
    rw [pow10_add, ← Int.mul_assoc, Int.mul_comm n, Int.mul_assoc] at h
    have h2 : pow10 s * (n * pow10 (d + 1)) = pow10 s * n' := by rw [h]; exact Int.mul_comm _ _
    have h3 := Int.eq_of_mul_eq_mul_left (hne s) h2
    rw [pow10_succ'] at h3
    rcases hc' with h0 | hm
    · omega
    · apply hm
      have : n' = 10 * (n * pow10 d) := by rw [← h3, ← Int.mul_assoc, Int.mul_comm n 10, Int.mul_assoc]
      omega
  · subst heq
    exact ⟨Int.eq_of_mul_eq_mul_right (hne s) h, rfl⟩
  · exfalso
    obtain ⟨d, rfl⟩ : ∃ d, s = s' + (d + 1) := ⟨s - s' - 1, by omega⟩
    rw [pow10_add, ← Int.mul_assoc, Int.mul_comm n', Int.mul_assoc] at h
    have h2 : pow10 s' * (n' * pow10 (d + 1)) = pow10 s' * n := by rw [← h]; exact Int.mul_comm _ _
    have h3 := Int.eq_of_mul_eq_mul_left (hne s') h2
    rw [pow10_succ'] at h3
    rcases hc with h0 | hm
    · omega
    · apply hm
      have : n = 10 * (n' * pow10 d) := by rw [← h3, ← Int.mul_assoc, Int.mul_comm n' 10, Int.mul_assoc]
      omega

theorem leaf_sound (K : List PyVal) (c : IOCfg) (H : String → String) (a b : PyVal) (ha : isBasic a = true)
    (hda : domV K (dh c H) a) (hdb : domV K (dh c H) b)
    (hv : (typeName a == typeName b && (leafDiff [] a b).isEmpty) = true) : dh c H a = dh c H b := by
  simp only [Bool.and_eq_true, beq_iff_eq, isEmpty_iff_nil] at hv
  obtain ⟨ht, hl⟩ := hv
  cases a <;> simp [isBasic] at ha <;> cases b <;> simp [typeName] at ht
  · rfl
  · rename_i x y
    simp only [leafDiff] at hl
    split at hl
    · rename_i hn
      have : x = y := by
        cases x <;> cases y <;> simp [numEq, numOf, pow10] at hn ⊢
      rw [this]
    · simp at hl
  · rename_i x y
    simp only [leafDiff] at hl
    split at hl
    · rename_i hn
      have : x = y := by simpa [numEq, numOf, pow10] using hn
      rw [this]
    · simp at hl
  · rename_i n s n' s'
    simp only [leafDiff] at hl
    split at hl
    · rename_i hn
      simp only [domV] at hda hdb
      have h' : n * pow10 s' = n' * pow10 s := by simpa [numEq, numOf] using hn
      obtain ⟨h1, h2⟩ := canon_eq n n' s s' h' hda hdb
      rw [h1, h2]
    · simp at hl
  · rename_i x y
    simp only [leafDiff] at hl
    split at hl
    · rename_i he
      have : x = y := by simpa using he
      rw [this]
    · simp at hl
  · rename_i x y
    simp only [leafDiff] at hl
    split at hl
    · rename_i he
      have : x = y := by simpa using he
      rw [this]
    · simp at hl

/-! ### lists, tuples, sets -/

theorem dh_list (c : IOCfg) (H : String → String) (xs : List PyVal) :
    dh c H (.list xs) = finish (hcfg c) H false (prepIterable (hcfg c) "list" (xs.map (dh c H))) := by
  unfold dh deepHash
  rw [hashV_list, hashL_fst]
  rfl

theorem dh_tuple (c : IOCfg) (H : String → String) (xs : List PyVal) :
    dh c H (.tuple xs) = finish (hcfg c) H false (prepIterable (hcfg c) "tuple" (xs.map (dh c H))) := by
  unfold dh deepHash
  rw [hashV_tuple, hashL_fst]
  rfl

theorem dh_set (c : IOCfg) (H : String → String) (xs : List PyVal) :
    dh c H (.set xs) = finish (hcfg c) H false (prepIterable (hcfg c) "set" (xs.map (dh c H))) := by
  unfold dh deepHash
  rw [hashV_set, hashL_fst]
  rfl

theorem dh_frozenset (c : IOCfg) (H : String → String) (xs : List PyVal) :
    dh c H (.frozenset xs) = finish (hcfg c) H false (prepIterable (hcfg c) "frozenset" (xs.map (dh c H))) := by
  unfold dh deepHash
  rw [hashV_frozenset, hashL_fst]
  rfl

/-- the list verdict makes the two serialisations equal -/
theorem iter_verdict_sound (c : IOCfg) (H : String → String) (tag : String) (xs ys : List PyVal)
    (hv : ((addedOf (hashTable (dh c H) xs) (hashTable (dh c H) ys)).isEmpty && (removedOf (hashTable (dh c H) xs) (hashTable (dh c H) ys)).isEmpty &&
           (repEntries c [] (hashTable (dh c H) xs) (hashTable (dh c H) ys)).isEmpty) = true) :
    prepIterable (hcfg c) tag (xs.map (dh c H)) = prepIterable (hcfg c) tag (ys.map (dh c H)) := by
  simp only [Bool.and_eq_true, isEmpty_iff_nil] at hv
  obtain ⟨⟨ha, hr⟩, hre⟩ := hv
  have hmem := same_members (dh c H) xs ys ha hr
  apply prepIterable_same (hcfg c) rfl tag _ _ hmem
  intro hrep
  have hrep' : c.rep = true := by simpa [hcfg] using hrep
  exact same_counts c (dh c H) xs ys hrep' hmem hre

theorem set_verdict_sound (c : IOCfg) (H : String → String) (tag : String) (xs ys : List PyVal)
    (hn1 : (xs.map (dh c H)).Nodup) (hn2 : (ys.map (dh c H)).Nodup)
    (hv : (diffSet (dh c H) [] xs ys).isEmpty = true) :
    prepIterable (hcfg c) tag (xs.map (dh c H)) = prepIterable (hcfg c) tag (ys.map (dh c H)) := by
  rw [isEmpty_iff_nil] at hv
  unfold diffSet at hv
  simp only [List.append_eq_nil_iff, List.map_eq_nil_iff, List.filter_eq_nil_iff] at hv
  have hmem : ∀ h, h ∈ xs.map (dh c H) ↔ h ∈ ys.map (dh c H) := by
    intro h
    constructor
    · intro hm
      obtain ⟨x, hx, rfl⟩ := List.mem_map.1 hm
      have := hv.2 x hx
      simpa using this
    · intro hm
      obtain ⟨y, hy, rfl⟩ := List.mem_map.1 hm
      have := hv.1 y hy
      simpa using this
  apply prepIterable_same (hcfg c) rfl tag _ _ hmem
  intro _ h
  rw [hn1.count, hn2.count]
  simp only [hmem h]

/-! ### dictionaries -/

theorem isPrivateKey_eq (k : PyVal) : Hash.isPrivateKey k = isPrivate k := by
  cases k <;> rfl

/-- the entries a dictionary contributes to its serialisation -/
theorem hashP_fst (c : IOCfg) (H : String → String) : ∀ kvs : List (PyVal × PyVal),
    (hashP (hcfg c) H kvs).1 =
      (kvs.filter (fun p => !(c.ignorePrivate && isPrivate p.1))).map (fun p => dh c H p.1 ++ ":" ++ dh c H p.2)
  | [] => by simp [hashP]
  | (k, v) :: rest => by
    rw [hashP_cons, isPrivateKey_eq]
    have ih := hashP_fst c H rest
    by_cases hp : (c.ignorePrivate && isPrivate k) = true
    · have : ((hcfg c).ignorePrivate && isPrivate k) = true := by simpa [hcfg] using hp
      simp only [this, if_true, List.filter_cons, hp, Bool.not_true, Bool.false_eq_true, if_false]
      exact ih
    · have hp' : (c.ignorePrivate && isPrivate k) = false := by simpa using hp
      have : ((hcfg c).ignorePrivate && isPrivate k) = false := by simpa [hcfg] using hp'
      simp only [this, Bool.false_eq_true, if_false, List.filter_cons, hp', Bool.not_false, if_true, List.map_cons]
      rw [ih]
      rfl

theorem keysOf_eq (c : IOCfg) (kvs : List (PyVal × PyVal)) :
    keysOf (toDCfg c) [] kvs = (kvs.filter (fun p => !(c.ignorePrivate && isPrivate p.1))).map (·.1) := by
  simp only [keysOf, skipKey, toDCfg, List.isEmpty_nil, if_true, Bool.not_false, Bool.and_true]
  induction kvs with
  | nil => rfl
  | cons p rest ih =>
    simp only [List.map_cons, List.filter_cons]
    split <;> simp_all

theorem nodup_of_distinctKeys : ∀ (ks : List PyVal), distinctKeys ks = true → (∀ k ∈ ks, hashable k = true) → ks.Nodup
  | [], _, _ => List.nodup_nil
  | k :: ks, hd, hh => by
    simp only [distinctKeys, Bool.and_eq_true, Bool.not_eq_true', List.any_eq_false] at hd
    rw [List.nodup_cons]
    refine ⟨?_, nodup_of_distinctKeys ks hd.2 (fun x hx => hh x (List.mem_cons_of_mem _ hx))⟩
    intro hmem
    have := hd.1.1 k hmem
    rw [keyEq_refl k (hh k (List.mem_cons_self ..))] at this
    exact absurd rfl this

theorem find_unique {β} (l : List (PyVal × β)) (k : PyVal) (b : β) (hk : keyEq k k = true) (hm : (k, b) ∈ l)
    (hu : ∀ p ∈ l, keyEq p.1 k = true → p = (k, b)) : l.find? (fun p => keyEq p.1 k) = some (k, b) := by
  induction l with
  | nil => simp at hm
  | cons q l ih =>
    simp only [List.find?_cons]
    by_cases hq : keyEq q.1 k = true
    · rw [hq, hu q (List.mem_cons_self ..) hq]
    · have hq' : keyEq q.1 k = false := by simpa using hq
      rw [hq']
      rcases List.mem_cons.1 hm with heq | hm'
      · rw [← heq] at hq; simp [hk] at hq
      · exact ih hm' (fun p hp => hu p (List.mem_cons_of_mem _ hp))

theorem mem_verdictKVs (c : IOCfg) (hashOf : PyVal → String) (kvs2 : List (PyVal × PyVal)) (k2s : List PyVal) :
    ∀ (kvs1 : List (PyVal × PyVal)) (q : PyVal × Bool),
      q ∈ verdictKVs c hashOf kvs1 kvs2 k2s ↔
        ∃ k1 v1 kk v2, (k1, v1) ∈ kvs1 ∧ (c.ignorePrivate && isPrivate k1) = false ∧ k2s.find? (fun k => keyEq k1 k) = some kk ∧
          dictGet kvs2 kk = some v2 ∧ q = (kk, verdict c hashOf v1 v2)
  | [], q => by simp [verdictKVs]
  | (k, v) :: rest, q => by
    have ih := mem_verdictKVs c hashOf kvs2 k2s rest q
    simp only [verdictKVs]
    by_cases hp : (c.ignorePrivate && isPrivate k) = true
    · simp only [hp, if_true, ih]
      constructor
      · rintro ⟨k1, v1, kk, v2, hm, h⟩; exact ⟨k1, v1, kk, v2, List.mem_cons_of_mem _ hm, h⟩
      · rintro ⟨k1, v1, kk, v2, hm, hnp, h⟩
        rcases List.mem_cons.1 hm with heq | hm'
        · cases heq; rw [hp] at hnp; cases hnp
        · exact ⟨k1, v1, kk, v2, hm', hnp, h⟩
    · have hp' : (c.ignorePrivate && isPrivate k) = false := by simpa using hp
      simp only [hp', Bool.false_eq_true, if_false]
      cases hf : k2s.find? (fun x => keyEq k x) with
      | none =>
        simp only [ih]
        constructor
        · rintro ⟨k1, v1, kk, v2, hm, h⟩; exact ⟨k1, v1, kk, v2, List.mem_cons_of_mem _ hm, h⟩
        · rintro ⟨k1, v1, kk, v2, hm, hnp, hfk, h⟩
          rcases List.mem_cons.1 hm with heq | hm'
          · cases heq; rw [hf] at hfk; cases hfk
          · exact ⟨k1, v1, kk, v2, hm', hnp, hfk, h⟩
      | some kk0 =>
        simp only
        cases hg : dictGet kvs2 kk0 with
        | none =>
          simp only [ih]
          constructor
          · rintro ⟨k1, v1, kk, v2, hm, h⟩; exact ⟨k1, v1, kk, v2, List.mem_cons_of_mem _ hm, h⟩
          · rintro ⟨k1, v1, kk, v2, hm, hnp, hfk, hdg, h⟩
            rcases List.mem_cons.1 hm with heq | hm'
            · cases heq; rw [hf] at hfk; cases hfk; rw [hg] at hdg; cases hdg
            · exact ⟨k1, v1, kk, v2, hm', hnp, hfk, hdg, h⟩
        | some v20 =>
          rw [List.mem_cons, ih]
          constructor
          · rintro (rfl | ⟨k1, v1, kk, v2, hm, h⟩)
            · exact ⟨k, v, kk0, v20, List.mem_cons_self .., hp', hf, hg, rfl⟩
            · exact ⟨k1, v1, kk, v2, List.mem_cons_of_mem _ hm, h⟩
          · rintro ⟨k1, v1, kk, v2, hm, hnp, hfk, hdg, h⟩
            rcases List.mem_cons.1 hm with heq | hm'
            · cases heq
              rw [hf] at hfk; cases hfk; rw [hg] at hdg; cases hdg
              exact Or.inl h
            · exact Or.inr ⟨k1, v1, kk, v2, hm', hnp, hfk, hdg, h⟩

theorem dh_dict (c : IOCfg) (H : String → String) (kvs : List (PyVal × PyVal)) :
    dh c H (.dict kvs) = finish (hcfg c) H false ("dict:{" ++ joinWith ";" (sortStr
      ((kvs.filter (fun p => !(c.ignorePrivate && isPrivate p.1))).map (fun p => dh c H p.1 ++ ":" ++ dh c H p.2))) ++ "}") := by
  unfold dh deepHash
  rw [hashV_dict]
  have := hashP_fst c H kvs
  unfold dh deepHash at this
  rw [this]

/-- the value stored under a key -/
def valOf (kvs : List (PyVal × PyVal)) (k : PyVal) : PyVal := (dictGet kvs k).getD .none

theorem dictGet_self (kvs : List (PyVal × PyVal)) (k v : PyVal) (hd : distinctKeys (kvs.map (·.1)) = true)
    (hh : hashable k = true) (hm : (k, v) ∈ kvs) : dictGet kvs k = some v :=
  dictGet_of_keyEq kvs k v k hd hm (keyEq_refl k hh)

/-- the entries of a dictionary, listed along its compared keys -/
theorem entries_by_keys (c : IOCfg) (H : String → String) (kvs : List (PyVal × PyVal))
    (hd : distinctKeys (kvs.map (·.1)) = true) (hh : ∀ k ∈ kvs.map (·.1), hashable k = true) :
    (kvs.filter (fun p => !(c.ignorePrivate && isPrivate p.1))).map (fun p => dh c H p.1 ++ ":" ++ dh c H p.2) =
      (keysOf (toDCfg c) [] kvs).map (fun k => dh c H k ++ ":" ++ dh c H (valOf kvs k)) := by
  rw [keysOf_eq, List.map_map]
  apply List.map_congr_left
  intro p hp
  have hm : p ∈ kvs := (List.mem_filter.1 hp).1
  have hk : hashable p.1 = true := hh p.1 (List.mem_map.2 ⟨p, hm, rfl⟩)
  simp only [Function.comp, valOf, dictGet_self kvs p.1 p.2 hd hk hm, Option.getD_some]

theorem dict_sound (K : List PyVal) (hK : StrictK K) (c : IOCfg) (H : String → String) (kvs1 kvs2 : List (PyVal × PyVal))
    (hd1 : domV K (dh c H) (.dict kvs1)) (hd2 : domV K (dh c H) (.dict kvs2))
    (ihP : ∀ p ∈ kvs1, ∀ y, domV K (dh c H) p.2 → domV K (dh c H) y → verdict c (dh c H) p.2 y = true → dh c H p.2 = dh c H y)
    (hv : verdict c (dh c H) (.dict kvs1) (.dict kvs2) = true) : dh c H (.dict kvs1) = dh c H (.dict kvs2) := by
  simp only [domV] at hd1 hd2
  obtain ⟨hdk1, hkk1, hp1⟩ := hd1
  obtain ⟨hdk2, hkk2, hp2⟩ := hd2
  unfold verdict at hv
  simp only [Bool.and_eq_true, isEmpty_iff_nil, List.all_eq_true] at hv
  obtain ⟨⟨hadd, hrem⟩, hall⟩ := hv
  generalize hk1 : keysOf (toDCfg c) [] kvs1 = k1 at *
  generalize hk2 : keysOf (toDCfg c) [] kvs2 = k2 at *
  -- the compared keys are keys of the dictionaries
  have hsub1 : ∀ k ∈ k1, k ∈ kvs1.map (·.1) := by
    intro k hk; rw [← hk1] at hk; exact (List.mem_filter.1 hk).1
  have hsub2 : ∀ k ∈ k2, k ∈ kvs2.map (·.1) := by
    intro k hk; rw [← hk2] at hk; exact (List.mem_filter.1 hk).1
  have hnd1 : k1.Nodup := by
    rw [← hk1]; exact (nodup_of_distinctKeys _ hdk1 (fun k hk => (hkk1 k hk).1)).sublist List.filter_sublist
  have hnd2 : k2.Nodup := by
    rw [← hk2]; exact (nodup_of_distinctKeys _ hdk2 (fun k hk => (hkk2 k hk).1)).sublist List.filter_sublist
  -- same keys, as terms
  have h21 : ∀ k ∈ k2, k ∈ k1 := by
    intro k hk
    have := (List.filter_eq_nil_iff.1 hadd) k hk
    simp only [Bool.not_eq_true, Bool.not_eq_false', List.any_eq_true] at this
    obtain ⟨k', hk', heq⟩ := this
    have : k' = k := hK k' (hkk1 k' (hsub1 k' hk')).2 k (hkk2 k (hsub2 k hk)).2 heq
    rw [← this]; exact hk'
  have h12 : ∀ k ∈ k1, k ∈ k2 := by
    intro k hk
    have := (List.filter_eq_nil_iff.1 hrem) k hk
    simp only [Bool.not_eq_true, Bool.not_eq_false', List.any_eq_true] at this
    obtain ⟨k', hk', heq⟩ := this
    have : k' = k := hK k' (hkk2 k' (hsub2 k' hk')).2 k (hkk1 k (hsub1 k hk)).2 heq
    rw [← this]; exact hk'
  have hperm : k1.Perm k2 := by
    rw [List.perm_ext_iff_of_nodup hnd1 hnd2]
    exact fun k => ⟨h12 k, h21 k⟩
  -- the values under a common key hash equally
  have hvals : ∀ k ∈ k2, dh c H (valOf kvs1 k) = dh c H (valOf kvs2 k) := by
    intro k hk
    have hk1m := h21 k hk
    obtain ⟨⟨ka, v1⟩, hp1m0, hp1k⟩ := List.mem_map.1 (hsub1 k hk1m)
    obtain ⟨⟨kb, v2⟩, hp2m0, hp2k⟩ := List.mem_map.1 (hsub2 k hk)
    simp only at hp1k hp2k
    have hp1m : (k, v1) ∈ kvs1 := by rw [← hp1k]; exact hp1m0
    have hp2m : (k, v2) ∈ kvs2 := by rw [← hp2k]; exact hp2m0
    have hhk : hashable k = true := (hkk1 k (hsub1 k hk1m)).1
    have hkK : k ∈ K := (hkk1 k (hsub1 k hk1m)).2
    have hg1 : dictGet kvs1 k = some v1 := dictGet_self kvs1 k v1 hdk1 hhk hp1m
    have hg2 : dictGet kvs2 k = some v2 := dictGet_self kvs2 k v2 hdk2 hhk hp2m
    -- k is in the intersection
    have hinter : k ∈ k2.filter (fun k => k1.any (fun k' => keyEq k' k)) := by
      rw [List.mem_filter]
      exact ⟨hk, by rw [List.any_eq_true]; exact ⟨k, hk1m, keyEq_refl k hhk⟩⟩
    have hok := hall k hinter
    -- the private-key filter let k through
    have hnp : (c.ignorePrivate && isPrivate k) = false := by
      have : k ∈ keysOf (toDCfg c) [] kvs1 := by rw [hk1]; exact hk1m
      have := (List.mem_filter.1 this).2
      simp only [toDCfg, Bool.and_eq_true, Bool.not_eq_true'] at this
      exact this.1
    -- looking k up among t2's keys finds k itself
    have hfind : k2.find? (fun x => keyEq k x) = some k := by
      cases hf : k2.find? (fun x => keyEq k x) with
      | none =>
        have := List.find?_eq_none.1 hf k hk
        simp [keyEq_refl k hhk] at this
      | some x =>
        have hx : x ∈ k2 := List.mem_of_find?_eq_some hf
        have hxe : keyEq k x = true := by have := List.find?_some hf; simpa using this
        rw [hK k hkK x (hkk2 x (hsub2 x hx)).2 hxe]
    have hmemV : (k, verdict c (dh c H) v1 v2) ∈ verdictKVs c (dh c H) kvs1 kvs2 k2 :=
      (mem_verdictKVs c (dh c H) kvs2 k2 kvs1 _).2 ⟨k, v1, k, v2, hp1m, hnp, hfind, hg2, rfl⟩
    have hfu : (verdictKVs c (dh c H) kvs1 kvs2 k2).find? (fun p => keyEq p.1 k) = some (k, verdict c (dh c H) v1 v2) := by
      apply find_unique _ _ _ (keyEq_refl k hhk) hmemV
      intro q hq hqk
      obtain ⟨ka, va, kk, vb, hma, _, hfa, hgb, rfl⟩ := (mem_verdictKVs c (dh c H) kvs2 k2 kvs1 q).1 hq
      have hkk2m : kk ∈ k2 := List.mem_of_find?_eq_some hfa
      have hkke : keyEq ka kk = true := by have := List.find?_some hfa; simpa using this
      have hkaK : ka ∈ K := (hkk1 ka (List.mem_map.2 ⟨(ka, va), hma, rfl⟩)).2
      have hkkK : kk ∈ K := (hkk2 kk (hsub2 kk hkk2m)).2
      have e1 : kk = k := hK kk hkkK k hkK hqk
      have e2 : ka = kk := hK ka hkaK kk hkkK hkke
      subst e1
      subst e2
      have : dictGet kvs1 ka = some va := dictGet_self kvs1 ka va hdk1 hhk hma
      rw [hg1] at this
      rw [hg2] at hgb
      cases this; cases hgb
      rfl
    rw [hfu] at hok
    simp only at hok
    have := ihP (k, v1) hp1m v2 (domP_all hp1 _ hp1m) (domP_all hp2 _ hp2m) hok
    simp only [valOf, hg1, hg2, Option.getD_some]
    exact this
  -- assemble
  rw [dh_dict, dh_dict, entries_by_keys c H kvs1 hdk1 (fun k hk => (hkk1 k hk).1), entries_by_keys c H kvs2 hdk2 (fun k hk => (hkk2 k hk).1), hk1, hk2]
  have hE : (k1.map (fun k => dh c H k ++ ":" ++ dh c H (valOf kvs1 k))).Perm (k2.map (fun k => dh c H k ++ ":" ++ dh c H (valOf kvs2 k))) := by
    have h1 := hperm.map (fun k => dh c H k ++ ":" ++ dh c H (valOf kvs1 k))
    have h2 : k2.map (fun k => dh c H k ++ ":" ++ dh c H (valOf kvs1 k)) = k2.map (fun k => dh c H k ++ ":" ++ dh c H (valOf kvs2 k)) := by
      apply List.map_congr_left
      intro k hk
      rw [hvals k hk]
    rw [← h2]; exact h1
  rw [sortStr_perm hE]

/-! ### the theorem -/

mutual
/-- **HashSound for the DeepHash model**: values of the domain that the ignore-order verdict cannot
tell apart hash equally, for every hasher `H` -/
theorem hashSound_V (K : List PyVal) (hK : StrictK K) (c : IOCfg) (H : String → String) :
    ∀ (x y : PyVal), domV K (dh c H) x → domV K (dh c H) y → verdict c (dh c H) x y = true → dh c H x = dh c H y
  | .dict kvs1, y, dx, dy, hv => by
    cases y with
    | dict kvs2 => exact dict_sound K hK c H kvs1 kvs2 dx dy (hashSound_P K hK c H kvs1) hv
    | _ => all_goals simp [verdict] at hv
  | .list xs, y, _, _, hv => by
    cases y with
    | list ys =>
      unfold verdict at hv
      rw [dh_list, dh_list, iter_verdict_sound c H "list" xs ys hv]
    | _ => all_goals simp [verdict] at hv
  | .tuple xs, y, _, _, hv => by
    cases y with
    | tuple ys =>
      unfold verdict at hv
      rw [dh_tuple, dh_tuple, iter_verdict_sound c H "tuple" xs ys hv]
    | _ => all_goals simp [verdict] at hv
  | .set xs, y, dx, dy, hv => by
    cases y with
    | set ys =>
      unfold verdict at hv
      simp only [domV] at dx dy
      rw [dh_set, dh_set, set_verdict_sound c H "set" xs ys dx dy hv]
    | _ => all_goals simp [verdict] at hv
  | .frozenset xs, y, dx, dy, hv => by
    cases y with
    | frozenset ys =>
      unfold verdict at hv
      simp only [domV] at dx dy
      rw [dh_frozenset, dh_frozenset, set_verdict_sound c H "frozenset" xs ys dx dy hv]
    | _ => all_goals simp [verdict] at hv
  | .none, y, dx, dy, hv => leaf_sound K c H .none y rfl dx dy (by unfold verdict at hv; exact hv)
  | .bool b, y, dx, dy, hv => leaf_sound K c H (.bool b) y rfl dx dy (by unfold verdict at hv; exact hv)
  | .int i, y, dx, dy, hv => leaf_sound K c H (.int i) y rfl dx dy (by unfold verdict at hv; exact hv)
  | .float n s, y, dx, dy, hv => leaf_sound K c H (.float n s) y rfl dx dy (by unfold verdict at hv; exact hv)
  | .str s, y, dx, dy, hv => leaf_sound K c H (.str s) y rfl dx dy (by unfold verdict at hv; exact hv)
  | .bytes s, y, dx, dy, hv => leaf_sound K c H (.bytes s) y rfl dx dy (by unfold verdict at hv; exact hv)
theorem hashSound_P (K : List PyVal) (hK : StrictK K) (c : IOCfg) (H : String → String) :
    ∀ (kvs : List (PyVal × PyVal)) (p : PyVal × PyVal), p ∈ kvs → ∀ (y : PyVal), domV K (dh c H) p.2 → domV K (dh c H) y →
      verdict c (dh c H) p.2 y = true → dh c H p.2 = dh c H y
  | (_, v) :: _, _, .head _, y, d1, d2, hv => hashSound_V K hK c H v y d1 d2 hv
  | _ :: rest, p, .tail _ hm, y, d1, d2, hv => hashSound_P K hK c H rest p hm y d1 d2 hv
end

theorem hashSound_concrete (K : List PyVal) (hK : StrictK K) (c : IOCfg) (H : String → String) :
    HashSoundOn (domV K (dh c H)) c (dh c H) :=
  fun x y dx dy hv => hashSound_V K hK c H x y dx dy hv

end DiffIO
