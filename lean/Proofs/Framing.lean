import Model.Hash.Prep
/-!
Decoding the framing of DeepHash serialisations: a separator-joined list of separator-free,
non-empty parts determines the parts; `h|count` determines `h` and `count`.
-/
namespace Hash

theorem append_sep_inj (sep : Char) : ∀ (x y r1 r2 : List Char), sep ∉ x → sep ∉ y →
    x ++ sep :: r1 = y ++ sep :: r2 → x = y ∧ r1 = r2
  | [], [], _, _, _, _, h => by simp at h; exact ⟨rfl, h⟩
  | [], b :: y, _, _, _, hy, h => by
    simp only [List.nil_append, List.cons_append, List.cons.injEq] at h
    exact absurd (by rw [h.1]; simp) hy
  | a :: x, [], _, _, hx, _, h => by
    simp only [List.nil_append, List.cons_append, List.cons.injEq] at h
    exact absurd (by rw [← h.1]; simp) hx
  | a :: x, b :: y, r1, r2, hx, hy, h => by
    simp only [List.cons_append, List.cons.injEq] at h
    have := append_sep_inj sep x y r1 r2 (fun hm => hx (List.mem_cons_of_mem _ hm)) (fun hm => hy (List.mem_cons_of_mem _ hm)) h.2
    exact ⟨by rw [h.1, this.1], this.2⟩

theorem no_sep_ne (sep : Char) (x y r : List Char) (hx : sep ∉ x) : x ≠ y ++ sep :: r := by
  intro h; apply hx; rw [h]; simp

def joinL (sep : Char) : List (List Char) → List Char
  | [] => []
  | [x] => x
  | x :: y :: rest => x ++ sep :: joinL sep (y :: rest)

theorem joinL_inj (sep : Char) : ∀ (xs ys : List (List Char)), (∀ x ∈ xs, sep ∉ x ∧ x ≠ []) → (∀ y ∈ ys, sep ∉ y ∧ y ≠ []) →
    joinL sep xs = joinL sep ys → xs = ys
  | [], [], _, _, _ => rfl
  | [], [y], _, hy, h => by simp only [joinL] at h; exact absurd h.symm (hy y (by simp)).2
  | [], y :: y' :: r, _, _, h => by simp [joinL] at h
  | [x], [], hx, _, h => by simp only [joinL] at h; exact absurd h (hx x (by simp)).2
  | x :: x' :: r, [], _, _, h => by simp [joinL] at h
  | [x], [y], _, _, h => by simp only [joinL] at h; rw [h]
  | [x], y :: y' :: r, hx, _, h => by
    simp only [joinL] at h
    exact absurd h (no_sep_ne sep x y _ (hx x (by simp)).1)
  | x :: x' :: r, [y], _, hy, h => by
    simp only [joinL] at h
    exact absurd h.symm (no_sep_ne sep y x _ (hy y (by simp)).1)
  | x :: x' :: r, y :: y' :: r', hx, hy, h => by
    simp only [joinL] at h
    obtain ⟨h1, h2⟩ := append_sep_inj sep x y _ _ (hx x (by simp)).1 (hy y (by simp)).1 h
    have := joinL_inj sep (x' :: r) (y' :: r') (fun z hz => hx z (List.mem_cons_of_mem _ hz)) (fun z hz => hy z (List.mem_cons_of_mem _ hz)) h2
    rw [h1, this]

theorem joinWith_toList (sep : Char) : ∀ xs : List String,
    (joinWith (String.singleton sep) xs).toList = joinL sep (xs.map String.toList)
  | [] => by simp [joinWith, joinL]
  | [x] => by simp [joinWith, joinL]
  | x :: y :: rest => by
    have ih := joinWith_toList sep (y :: rest)
    simp only [joinWith, String.toList_append, List.map_cons, joinL] at ih ⊢
    rw [ih]
    simp

/-- the parts of a separator-joined string are determined by it -/
theorem joinWith_inj (sep : Char) (xs ys : List String)
    (hx : ∀ x ∈ xs, sep ∉ x.toList ∧ x ≠ "") (hy : ∀ y ∈ ys, sep ∉ y.toList ∧ y ≠ "")
    (h : joinWith (String.singleton sep) xs = joinWith (String.singleton sep) ys) : xs = ys := by
  have h' := congrArg String.toList h
  rw [joinWith_toList, joinWith_toList] at h'
  have hne : ∀ (s : String), s ≠ "" → s.toList ≠ [] := by
    intro s hs hl; apply hs; exact String.toList_inj.1 (by rw [hl]; rfl)
  have := joinL_inj sep _ _
    (by intro z hz; obtain ⟨x, hxm, rfl⟩ := List.mem_map.1 hz; exact ⟨(hx x hxm).1, hne x (hx x hxm).2⟩)
    (by intro z hz; obtain ⟨y, hym, rfl⟩ := List.mem_map.1 hz; exact ⟨(hy y hym).1, hne y (hy y hym).2⟩) h'
  exact (List.map_inj_right (fun a b hab => String.toList_inj.1 hab)).1 this

/-- `a ++ sep ++ b` determines `a` and `b` when `a` is free of the separator -/
theorem append_sep_str_inj (sep : Char) (a b a' b' : String) (ha : sep ∉ a.toList) (ha' : sep ∉ a'.toList)
    (h : a ++ String.singleton sep ++ b = a' ++ String.singleton sep ++ b') : a = a' ∧ b = b' := by
  have h' := congrArg String.toList h
  simp only [String.toList_append, String.toList_singleton, List.append_assoc, List.singleton_append] at h'
  have h2 : a.toList ++ sep :: b.toList = a'.toList ++ sep :: b'.toList := h'
  obtain ⟨h3, h4⟩ := append_sep_inj sep _ _ _ _ ha ha' h2
  exact ⟨String.toList_inj.1 h3, String.toList_inj.1 h4⟩

end Hash
