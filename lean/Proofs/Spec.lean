import Proofs.Filter
import Proofs.Converse
/-!
A Lean copy of the "obvious recursive definition of structural difference" (`harness/props/C03.py:
struct_diff`) and the proof that the model of `DeepDiff._diff` in positional mode produces exactly
its entries (as a multiset: the specification collects entries in a dictionary keyed by path).
-/
namespace Diff
open Py

mutual
/-- the recursive definition of structural difference; `priv` = ignore double-underscore keys -/
def specV (priv : Bool) (hashOf : PyVal → String) (steps : List Step) : PyVal → PyVal → Tree
  | .dict kvs1, b =>
    match b with
    | .dict kvs2 =>
      let ka := (kvs1.map (·.1)).filter (fun k => !(priv && isPrivate k))
      let kb := (kvs2.map (·.1)).filter (fun k => !(priv && isPrivate k))
      (kb.filter (fun k => !ka.any (fun k' => keyEq k' k))).map (fun k => (Cat.dictAdded, addedLevel steps .dict k ((dictGet kvs2 k).getD .none))) ++
      (ka.filter (fun k => !kb.any (fun k' => keyEq k' k))).map (fun k => (Cat.dictRemoved, removedLevel steps .dict k ((dictGet kvs1 k).getD .none))) ++
      specKVs priv hashOf steps kvs1 kvs2
    | _ => [(.typeChanges, { steps := steps, t1 := some (.dict kvs1), t2 := some b })]
  | .list xs, b =>
    match b with
    | .list ys => specL priv hashOf steps 0 xs ys
    | _ => [(.typeChanges, { steps := steps, t1 := some (.list xs), t2 := some b })]
  | .tuple xs, b =>
    match b with
    | .tuple ys => specL priv hashOf steps 0 xs ys
    | _ => [(.typeChanges, { steps := steps, t1 := some (.tuple xs), t2 := some b })]
  | .set xs, b =>
    match b with
    | .set ys => diffSet hashOf steps xs ys
    | _ => [(.typeChanges, { steps := steps, t1 := some (.set xs), t2 := some b })]
  | .frozenset xs, b =>
    match b with
    | .frozenset ys => diffSet hashOf steps xs ys
    | _ => [(.typeChanges, { steps := steps, t1 := some (.frozenset xs), t2 := some b })]
  | a, b =>
    if typeName a != typeName b then [(.typeChanges, { steps := steps, t1 := some a, t2 := some b })]
    else leafDiff steps a b
/-- `for k in a: if k in b: rec(a[k], b[k], path[k])` -/
def specKVs (priv : Bool) (hashOf : PyVal → String) (steps : List Step) : List (PyVal × PyVal) → List (PyVal × PyVal) → Tree
  | [], _ => []
  | (k, v1) :: rest, kvs2 =>
    (if priv && isPrivate k then []
     else match dictGet kvs2 k with
       | some v2 => specV priv hashOf (steps ++ [⟨.dict, some k, some k⟩]) v1 v2
       | Option.none => []) ++ specKVs priv hashOf steps rest kvs2
/-- `zip_longest` over the two sequences -/
def specL (priv : Bool) (hashOf : PyVal → String) (steps : List Step) (i : Nat) : List PyVal → List PyVal → Tree
  | [], [] => []
  | x :: xs, [] => (.iterRemoved, removedLevel steps .iter (.int i) x) :: specL priv hashOf steps (i + 1) xs []
  | [], y :: ys => (.iterAdded, addedLevel steps .iter (.int i) y) :: specL priv hashOf steps (i + 1) [] ys
  | x :: xs, y :: ys =>
    specV priv hashOf (steps ++ [⟨.iter, some (.int i), some (.int i)⟩]) x y ++ specL priv hashOf steps (i + 1) xs ys
end

mutual
/-- dictionaries with pairwise different, hashable keys from `K`, at every depth -/
def domD (K : List PyVal) : PyVal → Prop
  | .dict kvs => distinctKeys (kvs.map (·.1)) = true ∧ (∀ k ∈ kvs.map (·.1), hashable k = true ∧ k ∈ K) ∧ domDP K kvs
  | .list xs => domDL K xs
  | .tuple xs => domDL K xs
  | _ => True
def domDL (K : List PyVal) : List PyVal → Prop
  | [] => True
  | x :: xs => domD K x ∧ domDL K xs
def domDP (K : List PyVal) : List (PyVal × PyVal) → Prop
  | [] => True
  | (_, v) :: rest => domD K v ∧ domDP K rest
end

theorem domDP_all {K : List PyVal} : ∀ {kvs : List (PyVal × PyVal)}, domDP K kvs → ∀ p ∈ kvs, domD K p.2
  | [], _, p, hp => by simp at hp
  | (k, v) :: rest, h, p, hp => by
    simp only [domDP] at h
    rcases List.mem_cons.1 hp with rfl | hp'
    · exact h.1
    · exact domDP_all h.2 p hp'

/-! ### list lemmas -/

theorem perm_flatMap_left {α β} (l : List α) {f g : α → List β} (h : ∀ a ∈ l, (f a).Perm (g a)) : (l.flatMap f).Perm (l.flatMap g) := by
  induction l with
  | nil => exact List.Perm.refl _
  | cons a l ih =>
    simp only [List.flatMap_cons]
    exact (h a (List.mem_cons_self ..)).append (ih (fun b hb => h b (List.mem_cons_of_mem _ hb)))

theorem flatMap_congr' {α β} (l : List α) {f g : α → List β} (h : ∀ a ∈ l, f a = g a) : l.flatMap f = l.flatMap g := by
  induction l with
  | nil => rfl
  | cons a l ih =>
    simp only [List.flatMap_cons, h a (List.mem_cons_self ..), ih (fun b hb => h b (List.mem_cons_of_mem _ hb))]

theorem nb {x : Bool} (h : (!x) = true) : x = false := by cases x <;> simp_all
theorem bn {x : Bool} (h : x = false) : (!x) = true := by cases x <;> simp_all

theorem flatMap_filter_of_nil {α β} (l : List α) (f : α → List β) (P : α → Bool) (h : ∀ a ∈ l, P a = false → f a = []) :
    l.flatMap f = (l.filter P).flatMap f := by
  induction l with
  | nil => rfl
  | cons a l ih =>
    have ih' := ih (fun b hb => h b (List.mem_cons_of_mem _ hb))
    by_cases hp : P a = true
    · simp only [List.flatMap_cons, List.filter_cons, hp, if_true, ih']
    · have hp' : P a = false := by simpa using hp
      simp only [List.flatMap_cons, List.filter_cons, hp', Bool.false_eq_true, if_false, ih', h a (List.mem_cons_self ..) hp', List.nil_append]

theorem foldl_children_flat (children : List (PyVal × Result)) (f : Result → PyVal → Result)
    (hf : ∀ acc k, f acc k = match children.find? (fun p => keyEq p.1 k) with
      | some (_, r) => acc ++ r
      | Option.none => acc) :
    ∀ (ks : List PyVal) (acc : Result), (ks.foldl f acc).tree =
      acc.tree ++ ks.flatMap (fun k => match children.find? (fun p => keyEq p.1 k) with
        | some (_, r) => r.tree
        | Option.none => []) := by
  intro ks
  induction ks with
  | nil => intro acc; simp
  | cons k ks ih =>
    intro acc
    rw [List.foldl_cons, ih, hf, List.flatMap_cons]
    cases hfind : children.find? (fun p => keyEq p.1 k) with
    | none => simp
    | some p =>
      obtain ⟨k', r⟩ := p
      simp [Result.append_def, List.append_assoc]

theorem specKVs_flat (priv : Bool) (hashOf : PyVal → String) (steps : List Step) (kvs2 : List (PyVal × PyVal)) :
    ∀ kvs1 : List (PyVal × PyVal), specKVs priv hashOf steps kvs1 kvs2 =
      kvs1.flatMap (fun p => if priv && isPrivate p.1 then []
        else match dictGet kvs2 p.1 with
          | some v2 => specV priv hashOf (steps ++ [⟨.dict, some p.1, some p.1⟩]) p.2 v2
          | Option.none => [])
  | [] => by simp [specKVs]
  | (k, v) :: rest => by
    simp only [specKVs, List.flatMap_cons, specKVs_flat priv hashOf steps kvs2 rest]

theorem specL_nil_left (priv : Bool) (hashOf : PyVal → String) (steps : List Step) :
    ∀ (ys : List PyVal) (i : Nat), specL priv hashOf steps i [] ys =
      (ys.zipIdx).map (fun (y, k) => (Cat.iterAdded, addedLevel steps .iter (.int (i + k)) y))
  | [], _ => by simp [specL]
  | y :: ys, i => by
    simp only [specL, specL_nil_left priv hashOf steps ys (i + 1), List.zipIdx_cons, List.map_cons, Nat.add_zero, List.cons.injEq, true_and]
    rw [List.zipIdx_succ]
    rw [List.map_map]
    refine ⟨by simp, ?_⟩
    apply List.map_congr_left
    intro p _
    rcases p with ⟨a, k⟩
    simp only [Function.comp]
    have e : ((i + 1 : Nat) : Int) + (k : Int) = (i : Int) + ((k + 1 : Nat) : Int) := by omega
    rw [e]

/-! ### the children of a dictionary -/

theorem keysOf_pos {cfg : DCfg} (hp : Pos cfg) (steps : List Step) (kvs : List (PyVal × PyVal)) :
    keysOf cfg steps kvs = (kvs.map (·.1)).filter (fun k => !(cfg.ignorePrivate && isPrivate k)) := by
  simp only [keysOf, skipKey_pos hp]
  congr 1
  funext k
  simp

theorem children_find {cfg : DCfg} (hsk : ∀ st, skipSteps cfg st = false) (al : Align) (hashOf : PyVal → String)
    (K : List PyVal) (hK : StrictKeys K) (steps : List Step) (kvs1 kvs2 : List (PyVal × PyVal))
    (hdk1 : distinctKeys (kvs1.map (·.1)) = true) (hkk1 : ∀ k ∈ kvs1.map (·.1), hashable k = true ∧ k ∈ K)
    (hdk2 : distinctKeys (kvs2.map (·.1)) = true) (hkk2 : ∀ k ∈ kvs2.map (·.1), hashable k = true ∧ k ∈ K)
    (k2 : List PyVal) (hk2sub : ∀ k ∈ k2, k ∈ kvs2.map (·.1))
    (k v1 v2 : PyVal) (hm1 : (k, v1) ∈ kvs1) (hm2 : (k, v2) ∈ kvs2) (hk2 : k ∈ k2)
    (hnp : (cfg.ignorePrivate && isPrivate k) = false) :
    (diffKVs cfg al hashOf steps kvs1 kvs2 k2).find? (fun p => keyEq p.1 k) =
      some (k, diffV cfg al hashOf (steps ++ [⟨.dict, some k, some k⟩]) v1 v2) := by
  have hk1m : k ∈ kvs1.map (·.1) := List.mem_map.2 ⟨(k, v1), hm1, rfl⟩
  have hhk : hashable k = true := (hkk1 k hk1m).1
  have hkK : k ∈ K := (hkk1 k hk1m).2
  have hget1 : dictGet kvs1 k = some v1 := dictGet_self' kvs1 k v1 hdk1 hhk hm1
  have hget2 : dictGet kvs2 k = some v2 := dictGet_self' kvs2 k v2 hdk2 hhk hm2
  have hfind : k2.find? (fun x => keyEq k x) = some k := by
    cases hf : k2.find? (fun x => keyEq k x) with
    | none =>
      have := List.find?_eq_none.1 hf k hk2
      simp [keyEq_refl k hhk] at this
    | some x =>
      have hx : x ∈ k2 := List.mem_of_find?_eq_some hf
      have hxe : keyEq k x = true := by have := List.find?_some hf; simpa using this
      rw [hK k hkK x (hkk2 x (hk2sub x hx)).2 hxe]
  have hmemV : (k, diffV cfg al hashOf (steps ++ [⟨.dict, some k, some k⟩]) v1 v2) ∈ diffKVs cfg al hashOf steps kvs1 kvs2 k2 := by
    rw [mem_diffKVs]
    exact ⟨k, v1, k, v2, hm1, hnp, hfind, hget2, by simp [hsk]⟩
  apply find_unique' _ _ _ (keyEq_refl k hhk) hmemV
  intro q hq hqk
  obtain ⟨ka, va, kk, vb, hma, _, hfa, hgb, rfl⟩ := (mem_diffKVs cfg al hashOf steps kvs2 k2 kvs1 q).1 hq
  have hkk2m : kk ∈ k2 := List.mem_of_find?_eq_some hfa
  have hkke : keyEq ka kk = true := by have := List.find?_some hfa; simpa using this
  have hkaK : ka ∈ K := (hkk1 ka (List.mem_map.2 ⟨(ka, va), hma, rfl⟩)).2
  have hkkK : kk ∈ K := (hkk2 kk (hk2sub kk hkk2m)).2
  have e1 : kk = k := hK kk hkkK k hkK hqk
  have e2 : ka = kk := hK ka hkaK kk hkkK hkke
  subst e1
  subst e2
  have : dictGet kvs1 ka = some va := dictGet_self' kvs1 ka va hdk1 hhk hma
  rw [hget1] at this
  rw [hget2] at hgb
  cases this; cases hgb
  simp [hsk]

/-- the value stored under a key -/
def valAt (kvs : List (PyVal × PyVal)) (k : PyVal) : PyVal := (dictGet kvs k).getD .none

/-- the children of a dictionary, model against specification, given the statement for the values -/
theorem dict_children {cfg : DCfg} (hp : Pos cfg) (he0 : cfg.exclude = []) (al : Align) (hashOf : PyVal → String)
    (K : List PyVal) (hK : StrictKeys K) (steps : List Step) (kvs1 kvs2 : List (PyVal × PyVal))
    (hd1 : domD K (.dict kvs1)) (hd2 : domD K (.dict kvs2))
    (ihP : ∀ p ∈ kvs1, ∀ (y : PyVal) (st : List Step), domD K p.2 → domD K y →
      (diffV cfg al hashOf st p.2 y).tree.Perm (specV cfg.ignorePrivate hashOf st p.2 y)) :
    (((keysOf cfg steps kvs2).filter (fun k => (keysOf cfg steps kvs1).any (fun k' => keyEq k' k))).flatMap
        (fun k => match (diffKVs cfg al hashOf steps kvs1 kvs2 (keysOf cfg steps kvs2)).find? (fun p => keyEq p.1 k) with
          | some (_, r) => r.tree
          | Option.none => [])).Perm (specKVs cfg.ignorePrivate hashOf steps kvs1 kvs2) := by
  simp only [domD] at hd1 hd2
  obtain ⟨hdk1, hkk1, hp1⟩ := hd1
  obtain ⟨hdk2, hkk2, hp2⟩ := hd2
  rw [keysOf_pos hp, keysOf_pos hp, specKVs_flat]
  generalize hpriv : cfg.ignorePrivate = priv at *
  -- names
  let ka := (kvs1.map (·.1)).filter (fun k => !(priv && isPrivate k))
  let kb := (kvs2.map (·.1)).filter (fun k => !(priv && isPrivate k))
  let inter := kb.filter (fun k => ka.any (fun k' => keyEq k' k))
  have hkb_sub : ∀ k ∈ kb, k ∈ kvs2.map (·.1) := fun k hk => (List.mem_filter.1 hk).1
  have hnd1 : (kvs1.map (·.1)).Nodup := nodup_of_distinctKeys' _ hdk1 (fun k hk => (hkk1 k hk).1)
  have hnd2 : (kvs2.map (·.1)).Nodup := nodup_of_distinctKeys' _ hdk2 (fun k hk => (hkk2 k hk).1)
  -- facts about a key of the intersection
  have hinter : ∀ k ∈ inter, k ∈ kvs1.map (·.1) ∧ k ∈ kb ∧ (priv && isPrivate k) = false := by
    intro k hk
    obtain ⟨hkb, hany⟩ := List.mem_filter.1 hk
    rw [List.any_eq_true] at hany
    obtain ⟨k', hk', heq⟩ := hany
    obtain ⟨hk'1, hk'np⟩ := List.mem_filter.1 hk'
    have hk2m := hkb_sub k hkb
    have : k' = k := hK k' (hkk1 k' hk'1).2 k (hkk2 k hk2m).2 heq
    subst this
    exact ⟨hk'1, hkb, nb hk'np⟩
  -- step 1: the model side, key by key
  have step1 : inter.flatMap (fun k => match (diffKVs cfg al hashOf steps kvs1 kvs2 kb).find? (fun p => keyEq p.1 k) with
        | some (_, r) => r.tree
        | Option.none => []) =
      inter.flatMap (fun k => (diffV cfg al hashOf (steps ++ [⟨.dict, some k, some k⟩]) (valAt kvs1 k) (valAt kvs2 k)).tree) := by
    apply flatMap_congr'
    intro k hk
    obtain ⟨hk1, hkb, hnp⟩ := hinter k hk
    obtain ⟨⟨ka', v1⟩, hm10, he1⟩ := List.mem_map.1 hk1
    obtain ⟨⟨kb', v2⟩, hm20, he2⟩ := List.mem_map.1 (hkb_sub k hkb)
    simp only at he1 he2
    subst he1
    have hm2 : (ka', v2) ∈ kvs2 := by rw [← he2]; exact hm20
    have hh : hashable ka' = true := (hkk1 ka' hk1).1
    rw [children_find (skipSteps_none hp he0) al hashOf K hK steps kvs1 kvs2 hdk1 hkk1 hdk2 hkk2 kb hkb_sub ka' v1 v2 hm10 hm2 hkb (by rw [hpriv]; exact hnp)]
    simp only [valAt, dictGet_self' kvs1 ka' v1 hdk1 hh hm10, dictGet_self' kvs2 ka' v2 hdk2 hh hm2, Option.getD_some]
  rw [show (List.filter (fun k => List.any (List.filter (fun k => !(priv && isPrivate k)) (kvs1.map (·.1))) fun k' => keyEq k' k)
        (List.filter (fun k => !(priv && isPrivate k)) (kvs2.map (·.1)))) = inter from rfl, step1]
  -- step 2: the specification side, over the keys of t1
  let h2 : PyVal → Tree := fun k => if priv && isPrivate k then []
    else match dictGet kvs2 k with
      | some v2 => specV priv hashOf (steps ++ [⟨.dict, some k, some k⟩]) (valAt kvs1 k) v2
      | Option.none => []
  have step2 : kvs1.flatMap (fun p => if priv && isPrivate p.1 then []
        else match dictGet kvs2 p.1 with
          | some v2 => specV priv hashOf (steps ++ [⟨.dict, some p.1, some p.1⟩]) p.2 v2
          | Option.none => []) = (kvs1.map (·.1)).flatMap h2 := by
    rw [List.flatMap_map]
    apply flatMap_congr'
    rintro ⟨k, v⟩ hm
    have hh : hashable k = true := (hkk1 k (List.mem_map.2 ⟨(k, v), hm, rfl⟩)).1
    simp only [h2, valAt, dictGet_self' kvs1 k v hdk1 hh hm, Option.getD_some]
  rw [step2]
  -- step 3: only the keys that are compared contribute
  let P : PyVal → Bool := fun k => !(priv && isPrivate k) && (dictGet kvs2 k).isSome
  have step3 : (kvs1.map (·.1)).flatMap h2 = ((kvs1.map (·.1)).filter P).flatMap h2 := by
    apply flatMap_filter_of_nil
    intro k _ hP
    simp only [P, Bool.and_eq_false_iff, Bool.not_eq_false'] at hP
    rcases hP with hP | hP
    · simp only [h2, hP, if_true]
    · have : dictGet kvs2 k = Option.none := by
        cases hg : dictGet kvs2 k with
        | none => rfl
        | some v => rw [hg] at hP; simp at hP
      simp only [h2, this]
      split <;> rfl
  rw [step3]
  -- step 4: those keys are the intersection, up to order
  have hperm : ((kvs1.map (·.1)).filter P).Perm inter := by
    apply (List.perm_ext_iff_of_nodup (hnd1.sublist List.filter_sublist) ((hnd2.sublist List.filter_sublist).sublist List.filter_sublist)).2
    intro k
    constructor
    · intro hk
      obtain ⟨hk1, hP⟩ := List.mem_filter.1 hk
      simp only [P, Bool.and_eq_true, Bool.not_eq_true'] at hP
      obtain ⟨hnp, hsome⟩ := hP
      obtain ⟨v2, hg⟩ := Option.isSome_iff_exists.1 hsome
      unfold dictGet at hg
      cases hf : kvs2.find? (fun p => keyEq p.1 k) with
      | none => rw [hf] at hg; cases hg
      | some q =>
        have hq : q ∈ kvs2 := List.mem_of_find?_eq_some hf
        have hqe : keyEq q.1 k = true := by have := List.find?_some hf; simpa using this
        have hq2 : q.1 ∈ kvs2.map (·.1) := List.mem_map.2 ⟨q, hq, rfl⟩
        have : q.1 = k := hK q.1 (hkk2 q.1 hq2).2 k (hkk1 k hk1).2 hqe
        rw [this] at hq2
        refine List.mem_filter.2 ⟨List.mem_filter.2 ⟨hq2, bn hnp⟩, ?_⟩
        rw [List.any_eq_true]
        exact ⟨k, List.mem_filter.2 ⟨hk1, bn hnp⟩, keyEq_refl k (hkk1 k hk1).1⟩
    · intro hk
      obtain ⟨hk1, hkb, hnp⟩ := hinter k hk
      obtain ⟨⟨kb', v2⟩, hm20, he2⟩ := List.mem_map.1 (hkb_sub k hkb)
      simp only at he2
      subst he2
      refine List.mem_filter.2 ⟨hk1, ?_⟩
      simp only [P, Bool.and_eq_true, Bool.not_eq_true']
      exact ⟨hnp, by rw [dictGet_self' kvs2 kb' v2 hdk2 (hkk1 kb' hk1).1 hm20]; rfl⟩
  refine List.Perm.trans ?_ (List.Perm.flatMap_right h2 hperm.symm)
  -- step 5: key by key, by the statement for the values
  apply perm_flatMap_left
  intro k hk
  obtain ⟨hk1, hkb, hnp⟩ := hinter k hk
  obtain ⟨⟨ka', v1⟩, hm10, he1⟩ := List.mem_map.1 hk1
  obtain ⟨⟨kb', v2⟩, hm20, he2⟩ := List.mem_map.1 (hkb_sub k hkb)
  simp only at he1 he2
  subst he1
  have hm2 : (ka', v2) ∈ kvs2 := by rw [← he2]; exact hm20
  have hh : hashable ka' = true := (hkk1 ka' hk1).1
  have hg1 := dictGet_self' kvs1 ka' v1 hdk1 hh hm10
  have hg2 := dictGet_self' kvs2 ka' v2 hdk2 hh hm2
  simp only [h2, hnp, Bool.false_eq_true, if_false, hg2, valAt, hg1, Option.getD_some]
  have := ihP (ka', v1) hm10 v2 (steps ++ [⟨.dict, some ka', some ka'⟩]) (domDP_all hp1 _ hm10) (domDP_all hp2 _ hm2)
  exact this

/-! ### the model in positional mode against the specification -/

theorem foldl_children_flat' (children : List (PyVal × Result)) (f : Result → PyVal → Result)
    (hf : ∀ acc k, f acc k = match children.find? (fun p => keyEq p.1 k) with
      | some (_, r) => acc ++ r
      | Option.none => acc)
    (ks : List PyVal) (acc : Result) (t : Tree) (ht : (ks.foldl f acc).tree = t) :
    t = acc.tree ++ ks.flatMap (fun k => match children.find? (fun p => keyEq p.1 k) with
        | some (_, r) => r.tree
        | Option.none => []) := by
  rw [← ht]; exact foldl_children_flat children f hf ks acc

theorem Result.tree_append (a b : Result) : (a ++ b).tree = a.tree ++ b.tree := rfl


set_option maxHeartbeats 1000000 in
mutual
theorem spec_V {cfg : DCfg} (hp : Pos cfg) (he0 : cfg.exclude = []) (al : Align) (hashOf : PyVal → String)
    (K : List PyVal) (hK : StrictKeys K) :
    ∀ (a b : PyVal) (steps : List Step), domD K a → domD K b →
      (diffV cfg al hashOf steps a b).tree.Perm (specV cfg.ignorePrivate hashOf steps a b)
  | .dict kvs1, b, steps, da, db => by
    cases b with
    | dict kvs2 =>
      have hch := dict_children hp he0 al hashOf K hK steps kvs1 kvs2 da db (spec_P hp he0 al hashOf K hK kvs1)
      unfold diffV
      simp only [belowThreshold_pos hp, Bool.false_eq_true, if_false]
      rw [Result.tree_append]
      generalize hT : (List.foldl _ ({} : Result) _).tree = T
      have hfl := foldl_children_flat' _ _ (fun _ _ => rfl) _ _ T hT
      subst hfl
      unfold specV
      simp only [keysOf_pos hp] at hch ⊢
      simp only [List.nil_append]
      exact List.Perm.append_left _ hch
    | _ => all_goals (simp only [diffV, specV]; exact List.Perm.refl _)
  | .list xs, b, steps, da, db => by
    cases b with
    | list ys =>
      simp only [diffV, iterInOrder_pos hp, specV]
      simp only [domD] at da db
      exact spec_L hp he0 al hashOf K hK xs ys steps 0 da db
    | _ => all_goals (simp only [diffV, specV]; exact List.Perm.refl _)
  | .tuple xs, b, steps, da, db => by
    cases b with
    | tuple ys =>
      simp only [diffV, iterInOrder_pos hp, specV]
      simp only [domD] at da db
      exact spec_L hp he0 al hashOf K hK xs ys steps 0 da db
    | _ => all_goals (simp only [diffV, specV]; exact List.Perm.refl _)
  | .set xs, b, steps, _, _ => by cases b <;> (simp only [diffV, specV]; exact List.Perm.refl _)
  | .frozenset xs, b, steps, _, _ => by cases b <;> (simp only [diffV, specV]; exact List.Perm.refl _)
  | .none, b, steps, _, _ => by simp only [diffV, specV]; split <;> exact List.Perm.refl _
  | .bool _, b, steps, _, _ => by simp only [diffV, specV]; split <;> exact List.Perm.refl _
  | .int _, b, steps, _, _ => by simp only [diffV, specV]; split <;> exact List.Perm.refl _
  | .float _ _, b, steps, _, _ => by simp only [diffV, specV]; split <;> exact List.Perm.refl _
  | .str _, b, steps, _, _ => by simp only [diffV, specV]; split <;> exact List.Perm.refl _
  | .bytes _, b, steps, _, _ => by simp only [diffV, specV]; split <;> exact List.Perm.refl _
theorem spec_P {cfg : DCfg} (hp : Pos cfg) (he0 : cfg.exclude = []) (al : Align) (hashOf : PyVal → String)
    (K : List PyVal) (hK : StrictKeys K) :
    ∀ (kvs : List (PyVal × PyVal)) (p : PyVal × PyVal), p ∈ kvs → ∀ (y : PyVal) (st : List Step), domD K p.2 → domD K y →
      (diffV cfg al hashOf st p.2 y).tree.Perm (specV cfg.ignorePrivate hashOf st p.2 y)
  | (_, v) :: _, _, .head _, y, st, d1, d2 => spec_V hp he0 al hashOf K hK v y st d1 d2
  | _ :: rest, p, .tail _ hm, y, st, d1, d2 => spec_P hp he0 al hashOf K hK rest p hm y st d1 d2
theorem spec_L {cfg : DCfg} (hp : Pos cfg) (he0 : cfg.exclude = []) (al : Align) (hashOf : PyVal → String)
    (K : List PyVal) (hK : StrictKeys K) :
    ∀ (xs ys : List PyVal) (steps : List Step) (i : Nat), domDL K xs → domDL K ys →
      (diffPairs cfg al hashOf steps i xs ys).tree.Perm (specL cfg.ignorePrivate hashOf steps i xs ys)
  | [], [], _, _, _, _ => by simp only [diffPairs, specL]; exact List.Perm.refl _
  | x :: xs, [], steps, i, dx, dy => by
    simp only [domDL] at dx
    simp only [diffPairs, specL, Result.append_def, List.singleton_append]
    exact List.Perm.cons _ (spec_L hp he0 al hashOf K hK xs [] steps (i + 1) dx.2 dy)
  | [], y :: ys, steps, i, _, _ => by
    simp only [diffPairs, specL]
    rw [specL_nil_left]
    apply List.Perm.of_eq
    congr 1
  | x :: xs, y :: ys, steps, i, dx, dy => by
    simp only [domDL] at dx dy
    simp only [diffPairs, specL, skipSteps_none hp he0, Bool.false_eq_true, if_false, Result.append_def]
    exact (spec_V hp he0 al hashOf K hK x y _ dx.1 dy.1).append (spec_L hp he0 al hashOf K hK xs ys steps (i + 1) dx.2 dy.2)
end

end Diff
