import Model.Cli.SaveFS
import Model.Cli.Patch
import Proofs.DeltaNested
import Proofs.DeltaOpcodes
/-!
# C20 — `deep patch`: failures while saving restore the file; success writes it (and the backup)

Model: `Model/Cli/SaveFS.lean`.  Theorems quantify over every file system, every path, every
content and every fault point of `_save_content` (open, serialise, write with any partial text,
close with any written text).  The end-to-end clause (diff --create-patch then patch reproduces
B) is the composition theorem `C20_patch_reproduces` at the end of this file: the two commands as functions over
the file system (`Model/Cli/Patch.lean`), with the text layers (JSON reading / writing, persistence of the delta: C14) as
a codec that reads back what it writes, and the round trip of C01 as the hypothesis it is instantiated with on the domains
where C01 is a theorem (nested JSON objects: `C20_patch_reproduces_nested_objects`; lists with recorded opcodes:
`C20_patch_reproduces_list`).
-/
namespace SaveFS

theorem bak_ne (p : String) : bak p ≠ p := by
  intro h
  have := congrArg String.length h
  simp [bak, String.length_append] at this

@[simp] theorem FS.set_apply (fs : FS) (p : String) (v : Option String) (q : String) :
    (fs.set p v) q = if q = p then v else fs q := rfl

/-- any failure inside `_save_content` leaves the target with its original content and no backup
file, and touches no other path -/
theorem C20_atomic (ser : Option String) (fs : FS) (path orig : String) (keep : Bool) (f : Fault)
    (hA : fs path = some orig) (fs' : FS) (h : save ser fs path keep f = some (fs', true)) :
    fs' path = some orig ∧ fs' (bak path) = none ∧ ∀ q, q ≠ path → q ≠ bak path → fs' q = fs q := by
  have hb := bak_ne path
  have hb' : path ≠ bak path := Ne.symm hb
  cases f <;> cases ser <;> cases keep <;>
    simp [save, hA, saveContent, rename] at h <;>
    (subst h
     refine ⟨?_, ?_, ?_⟩
     · simp [hb, hb', hA]
     · simp [hb, hb', hA]
     · intro q h1 h2; simp [h1, h2])

/-- without a failure the target holds the serialised content, the backup exists exactly when
asked for and then holds the previous content, and no other path is touched -/
theorem C20_success (ser : Option String) (fs : FS) (path orig : String) (keep : Bool) (f : Fault)
    (hA : fs path = some orig) (fs' : FS) (h : save ser fs path keep f = some (fs', false)) :
    (∃ s, ser = some s ∧ fs' path = some s) ∧
      fs' (bak path) = (if keep then some orig else none) ∧ ∀ q, q ≠ path → q ≠ bak path → fs' q = fs q := by
  have hb := bak_ne path
  have hb' : path ≠ bak path := Ne.symm hb
  cases f <;> cases ser <;> cases keep <;>
    simp [save, hA, saveContent, rename] at h <;>
    (subst h
     refine ⟨⟨_, rfl, ?_⟩, ?_, ?_⟩
     · simp [hb, hb', hA]
     · simp [hb, hb', hA]
     · intro q h1 h2; simp [h1, h2])

/-- a fault (or an unserialisable content) always surfaces as an error; no fault and serialisable
content never does -/
theorem C20_raises_iff (ser : Option String) (fs : FS) (path orig : String) (keep : Bool) (f : Fault)
    (hA : fs path = some orig) :
    ∃ fs', save ser fs path keep f = some (fs', decide (f ≠ .none ∨ ser = none)) := by
  unfold save
  rw [hA]
  cases f <;> cases ser <;> cases keep <;> simp [saveContent]

/-! Non-vacuity -/
example : ((save (some "{\"a\": 2}") (fun p => if p = "A.json" then some "{\"a\": 1}" else none) "A.json" false
    (.writeFails "{\"a")).map (fun r => (r.1 "A.json", r.1 "A.json.bak", r.2))) = some (some "{\"a\": 1}", none, true) := by
  decide

end SaveFS


namespace CliPatch
open Py Diff Delta SaveFS

/-- what the text layers have to satisfy: a document that was written reads back as the value that was written, and a
persisted delta reloads as the delta it was (property C14) -/
structure Faithful (C : Codec) : Prop where
  json : ∀ v s, C.render v = some s → C.parse s = some v
  delta : ∀ d, C.loadDelta (C.dumpDelta d) = some d

/-- **`deep diff A B --create-patch` followed by `deep patch A patch`**, for every pair of documents on which the round trip
of C01 holds (`hrt`), every faithful codec, `--backup` or not, and a fault at any point of the save path: the command
always terminates with a verdict; without an error `A` holds a text that loads as a value `== B` and `A.bak` holds the
previous content exactly when asked for; with an error `A` holds its previous content and no `A.bak` remains; no other
path is touched either way; and an error is reported exactly when a fault was injected or the patched content cannot
be serialised. -/
theorem C20_patch_reproduces_at (C : Codec) (cfg : DCfg) (al : Align) (hashOf : PyVal → String)
    (fs : FS) (pA pB pD : String) (hpD : pD ≠ pA) (a b : PyVal) (sa sb : String)
    (hA : fs pA = some sa) (hB : fs pB = some sb) (ha : C.parse sa = some a) (hb : C.parse sb = some b)
    (hdelta : C.loadDelta (C.dumpDelta (buildDelta true false a b (deepDiff cfg al hashOf a b))) = some (buildDelta true false a b (deepDiff cfg al hashOf a b)))
    (hjson : ∀ s, C.render (applyDelta false (buildDelta true false a b (deepDiff cfg al hashOf a b)) a).root = some s →
      C.parse s = some (applyDelta false (buildDelta true false a b (deepDiff cfg al hashOf a b)) a).root)
    (patch : String) (hdiff : cliDiff C cfg al hashOf fs pA pB = some patch)
    (hrt : pyEq (applyDelta false (buildDelta true false a b (deepDiff cfg al hashOf a b)) a).root b = true)
    (keep : Bool) (f : Fault) :
    ∃ fs' raised, cliPatch C (fs.set pD (some patch)) pA pD keep f = some (fs', raised) ∧
      (raised = false → ∃ s r, fs' pA = some s ∧ C.parse s = some r ∧ pyEq r b = true ∧
        fs' (bak pA) = (if keep then some sa else none)) ∧
      (raised = true → fs' pA = some sa ∧ fs' (bak pA) = none) ∧
      (∀ q, q ≠ pA → q ≠ bak pA → fs' q = (fs.set pD (some patch)) q) ∧
      (raised = true ↔ (f ≠ .none ∨ C.render (applyDelta false (buildDelta true false a b (deepDiff cfg al hashOf a b)) a).root = none)) := by
  generalize hr : (applyDelta false (buildDelta true false a b (deepDiff cfg al hashOf a b)) a).root = r at hrt hjson ⊢
  have hpatch : patch = C.dumpDelta (buildDelta true false a b (deepDiff cfg al hashOf a b)) := by
    unfold cliDiff at hdiff
    simp only [hA, hB, ha, hb, Option.some.injEq] at hdiff
    exact hdiff.symm
  have hload : C.loadDelta patch = some (buildDelta true false a b (deepDiff cfg al hashOf a b)) := by rw [hpatch]; exact hdelta
  have hA1 : (fs.set pD (some patch)) pA = some sa := by simp [FS.set, Ne.symm hpD, hA]
  have hD1 : (fs.set pD (some patch)) pD = some patch := by simp [FS.set]
  have hcli : cliPatch C (fs.set pD (some patch)) pA pD keep f = save (C.render r) (fs.set pD (some patch)) pA keep f := by
    unfold cliPatch
    simp only [hD1, hload, hA1, ha, hr]
  obtain ⟨fs', hsave⟩ := C20_raises_iff (C.render r) (fs.set pD (some patch)) pA sa keep f hA1
  refine ⟨fs', decide (f ≠ .none ∨ C.render r = none), hcli.trans hsave, ?_, ?_, ?_, ?_⟩
  · intro hfalse
    rw [hfalse] at hsave
    obtain ⟨⟨s, hs, hfs⟩, hbak, _⟩ := C20_success (C.render r) (fs.set pD (some patch)) pA sa keep f hA1 fs' hsave
    exact ⟨s, r, hfs, hjson s hs, hrt, hbak⟩
  · intro htrue
    rw [htrue] at hsave
    obtain ⟨h1, h2, _⟩ := C20_atomic (C.render r) (fs.set pD (some patch)) pA sa keep f hA1 fs' hsave
    exact ⟨h1, h2⟩
  · by_cases hd : decide (f ≠ .none ∨ C.render r = none) = true
    · rw [hd] at hsave
      exact (C20_atomic (C.render r) (fs.set pD (some patch)) pA sa keep f hA1 fs' hsave).2.2
    · have hd' : decide (f ≠ .none ∨ C.render r = none) = false := by simpa using hd
      rw [hd'] at hsave
      exact (C20_success (C.render r) (fs.set pD (some patch)) pA sa keep f hA1 fs' hsave).2.2
  · simp only [decide_eq_true_eq]

/-- the same for a codec that is faithful everywhere -/
theorem C20_patch_reproduces (C : Codec) (hC : Faithful C) (cfg : DCfg) (al : Align) (hashOf : PyVal → String)
    (fs : FS) (pA pB pD : String) (hpD : pD ≠ pA) (a b : PyVal) (sa sb : String)
    (hA : fs pA = some sa) (hB : fs pB = some sb) (ha : C.parse sa = some a) (hb : C.parse sb = some b)
    (patch : String) (hdiff : cliDiff C cfg al hashOf fs pA pB = some patch)
    (hrt : pyEq (applyDelta false (buildDelta true false a b (deepDiff cfg al hashOf a b)) a).root b = true)
    (keep : Bool) (f : Fault) :
    ∃ fs' raised, cliPatch C (fs.set pD (some patch)) pA pD keep f = some (fs', raised) ∧
      (raised = false → ∃ s r, fs' pA = some s ∧ C.parse s = some r ∧ pyEq r b = true ∧
        fs' (bak pA) = (if keep then some sa else none)) ∧
      (raised = true → fs' pA = some sa ∧ fs' (bak pA) = none) ∧
      (∀ q, q ≠ pA → q ≠ bak pA → fs' q = (fs.set pD (some patch)) q) ∧
      (raised = true ↔ (f ≠ .none ∨ C.render (applyDelta false (buildDelta true false a b (deepDiff cfg al hashOf a b)) a).root = none)) :=
  C20_patch_reproduces_at C cfg al hashOf fs pA pB pD hpD a b sa sb hA hB ha hb (hC.delta _) (fun s hs => hC.json _ s hs) patch hdiff hrt keep f

/-- the composition on **nested JSON objects** (string keys at every level, scalar leaves, any depth), where the round
trip of C01 is a theorem (`nested_roundtrip`): every plain ordered configuration, every threshold, every alignment oracle -/
theorem C20_patch_reproduces_nested_objects (C : Codec) (hC : Faithful C) (cfg : DCfg) (hp : Diff.Plain cfg) (al : Align)
    (hashOf : PyVal → String) (fs : FS) (pA pB pD : String) (hpD : pD ≠ pA) (a b : PyVal) (sa sb : String)
    (hA : fs pA = some sa) (hB : fs pB = some sb) (ha : C.parse sa = some a) (hb : C.parse sb = some b)
    (ja : J cfg.ignorePrivate a) (jb : J cfg.ignorePrivate b)
    (patch : String) (hdiff : cliDiff C cfg al hashOf fs pA pB = some patch) (keep : Bool) (f : Fault) :
    ∃ fs' raised, cliPatch C (fs.set pD (some patch)) pA pD keep f = some (fs', raised) ∧
      (raised = false → ∃ s r, fs' pA = some s ∧ C.parse s = some r ∧ pyEq r b = true ∧
        fs' (bak pA) = (if keep then some sa else none)) ∧
      (raised = true → fs' pA = some sa ∧ fs' (bak pA) = none) ∧
      (∀ q, q ≠ pA → q ≠ bak pA → fs' q = (fs.set pD (some patch)) q) := by
  have hrt : pyEq (applyDelta false (buildDelta true false a b (deepDiff cfg al hashOf a b)) a).root b = true := by
    obtain ⟨r, h, he⟩ := nested_roundtrip cfg hp al hashOf false true false (fun h => by cases h) a b ja jb
    rw [h]; exact he
  obtain ⟨fs', raised, h1, h2, h3, h4, _⟩ := C20_patch_reproduces C hC cfg al hashOf fs pA pB pD hpD a b sa sb hA hB ha hb patch hdiff hrt keep f
  exact ⟨fs', raised, h1, h2, h3, h4⟩

/-- the composition on **lists of scalars whose patch carries difflib's opcodes** (the default mode of the CLI), where the
round trip of C01 is `list_opcodes_roundtrip`: the patched file loads as exactly the second list -/
theorem C20_patch_reproduces_list (C : Codec) (hC : Faithful C) (cfg : DCfg) (hp : Diff.Plain cfg) (hz : cfg.zip = false) (al : Align)
    (hashOf : PyVal → String) (fs : FS) (pA pB pD : String) (hpD : pD ≠ pA) (xs ys : List PyVal) (sa sb : String)
    (hA : fs pA = some sa) (hB : fs pB = some sb) (ha : C.parse sa = some (.list xs)) (hb : C.parse sb = some (.list ys))
    (hbx : ∀ x ∈ xs, isBasic x = true) (hby : ∀ y ∈ ys, isBasic y = true)
    (htiles : TilesO xs ys 0 0 (al xs ys)) (hmono : ∀ o ∈ al xs ys, o.i1 ≤ o.i2)
    (h1 : 2 ≤ (opcodeEntries [] xs ys (al xs ys)).length)
    (h2 : (opcodeEntries [] xs ys (al xs ys)).length < (pairBasic [] 0 0 xs ys).length)
    (patch : String) (hdiff : cliDiff C cfg al hashOf fs pA pB = some patch) (keep : Bool) (f : Fault) :
    ∃ fs' raised, cliPatch C (fs.set pD (some patch)) pA pD keep f = some (fs', raised) ∧
      (raised = false → ∃ s r, fs' pA = some s ∧ C.parse s = some r ∧ pyEq r (.list ys) = true ∧
        fs' (bak pA) = (if keep then some sa else none)) ∧
      (raised = true → fs' pA = some sa ∧ fs' (bak pA) = none) ∧
      (∀ q, q ≠ pA → q ≠ bak pA → fs' q = (fs.set pD (some patch)) q) := by
  have hrt : pyEq (applyDelta false (buildDelta true false (.list xs) (.list ys) (deepDiff cfg al hashOf (.list xs) (.list ys))) (.list xs)).root (.list ys) = true := by
    rw [(list_opcodes_roundtrip cfg hp hz al hashOf false true false xs ys hbx hby htiles hmono h1 h2).1]
    simp only [pyEq]
    refine pyEqL_of_getElem ys ys rfl (fun k hk => ?_)
    have hm : ys[k]?.getD .none ∈ ys := by
      rw [List.getElem?_eq_getElem hk]; exact List.getElem_mem hk
    exact pyEq_refl_basic' _ (hby _ hm)
  obtain ⟨fs', raised, g1, g2, g3, g4, _⟩ := C20_patch_reproduces C hC cfg al hashOf fs pA pB pD hpD (.list xs) (.list ys) sa sb hA hB ha hb patch hdiff hrt keep f
  exact ⟨fs', raised, g1, g2, g3, g4⟩

/-! Non-vacuity: the hypotheses of `C20_patch_reproduces_at` are met by a concrete run -- `{"a": 1, "b": {"x": "u"}}` patched into
`{"a": 2, "b": {"y": null}}` through a codec that is a lookup table over the texts involved -/
section Example
def exA : PyVal := .dict [(.str "a", .int 1), (.str "b", .dict [(.str "x", .str "u")])]
def exB : PyVal := .dict [(.str "a", .int 2), (.str "b", .dict [(.str "y", .none)])]
def exCfg : DCfg := {}
def exAl : Align := fun _ _ => []
def exD : DeltaD := buildDelta true false exA exB (deepDiff exCfg exAl (fun _ => "") exA exB)
def exCodec : Codec :=
  { parse := fun s => if s = "A" then some exA else if s = "B" then some exB else if s = "OUT" then some (applyDelta false exD exA).root else none,
    render := fun _ => some "OUT", dumpDelta := fun _ => "P", loadDelta := fun s => if s = "P" then some exD else none }
def exFS : FS := fun p => if p = "A.json" then some "A" else if p = "B.json" then some "B" else none

example : cliDiff exCodec exCfg exAl (fun _ => "") exFS "A.json" "B.json" = some "P" := by
  simp [cliDiff, exFS, exCodec]
example : exCodec.loadDelta (exCodec.dumpDelta exD) = some exD := by simp [exCodec]
example : ∀ s, exCodec.render (applyDelta false exD exA).root = some s → exCodec.parse s = some (applyDelta false exD exA).root := by
  intro s hs; simp [exCodec] at hs; subst hs; simp [exCodec]
example : Diff.Plain exCfg := ⟨rfl, rfl, rfl⟩
/-- and the run itself, with `--backup` and no fault: `A.json` holds the text of the patched value, `A.json.bak` the previous text -/
example : ((cliPatch exCodec (exFS.set "p.pkl" (some "P")) "A.json" "p.pkl" true .none).map (fun r => (r.1 "A.json", r.1 "A.json.bak", r.2))) =
    some (some "OUT", some "A", false) := by
  simp [cliPatch, exCodec, exFS, FS.set, save, saveContent, rename, bak]
end Example

end CliPatch
