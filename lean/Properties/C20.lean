import Model.Cli.SaveFS
/-!
# C20 — `deep patch`: failures while saving restore the file; success writes it (and the backup)

Model: `Model/Cli/SaveFS.lean`.  Theorems quantify over every file system, every path, every
content and every fault point of `_save_content` (open, serialise, write with any partial text,
close with any written text).  The end-to-end clause (diff --create-patch then patch reproduces
B) composes C01, C14 and the JSON tree round trip and is evaluated on the real CLI in the
correspondence part; its theorem waits for the Delta model (C01).
-/
namespace SaveFS

theorem bak_ne (p : String) : bak p ≠ p := by
  intro h
  have := congrArg String.length h
  simp [bak, String.length_append] at this

@[simp] theorem FS.set_apply (fs : FS) (p : String) (v : Option String) (q : String) :
    (fs.set p v) q = if q = p then v else fs q := rfl

/-- any failure inside `_save_content` leaves the target with its original content and no backup
file, and touches no other path -/
theorem C20_atomic (ser : Option String) (fs : FS) (path orig : String) (keep : Bool) (f : Fault)
    (hA : fs path = some orig) (fs' : FS) (h : save ser fs path keep f = some (fs', true)) :
    fs' path = some orig ∧ fs' (bak path) = none ∧ ∀ q, q ≠ path → q ≠ bak path → fs' q = fs q := by
  have hb := bak_ne path
  have hb' : path ≠ bak path := Ne.symm hb
  cases f <;> cases ser <;> cases keep <;>
    simp [save, hA, saveContent, rename] at h <;>
    (subst h
     refine ⟨?_, ?_, ?_⟩
     · simp [hb, hb', hA]
     · simp [hb, hb', hA]
     · intro q h1 h2; simp [h1, h2])

/-- without a failure the target holds the serialised content, the backup exists exactly when
asked for and then holds the previous content, and no other path is touched -/
theorem C20_success (ser : Option String) (fs : FS) (path orig : String) (keep : Bool) (f : Fault)
    (hA : fs path = some orig) (fs' : FS) (h : save ser fs path keep f = some (fs', false)) :
    (∃ s, ser = some s ∧ fs' path = some s) ∧
      fs' (bak path) = (if keep then some orig else none) ∧ ∀ q, q ≠ path → q ≠ bak path → fs' q = fs q := by
  have hb := bak_ne path
  have hb' : path ≠ bak path := Ne.symm hb
  cases f <;> cases ser <;> cases keep <;>
    simp [save, hA, saveContent, rename] at h <;>
    (subst h
     refine ⟨⟨_, rfl, ?_⟩, ?_, ?_⟩
     · simp [hb, hb', hA]
     · simp [hb, hb', hA]
     · intro q h1 h2; simp [h1, h2])

/-- a fault (or an unserialisable content) always surfaces as an error; no fault and serialisable
content never does -/
theorem C20_raises_iff (ser : Option String) (fs : FS) (path orig : String) (keep : Bool) (f : Fault)
    (hA : fs path = some orig) :
    ∃ fs', save ser fs path keep f = some (fs', decide (f ≠ .none ∨ ser = none)) := by
  unfold save
  rw [hA]
  cases f <;> cases ser <;> cases keep <;> simp [saveContent]

/-! Non-vacuity -/
example : ((save (some "{\"a\": 2}") (fun p => if p = "A.json" then some "{\"a\": 1}" else none) "A.json" false
    (.writeFails "{\"a")).map (fun r => (r.1 "A.json", r.1 "A.json.bak", r.2))) = some (some "{\"a\": 1}", none, true) := by
  decide

end SaveFS
