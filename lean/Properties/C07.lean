import Proofs.Hash
import Proofs.HashComplete
/-!
# C07 — DeepHash: different content hashes differently

This file currently holds (i) the negative witnesses: collisions that exist **for every hasher**
because two different values have the same pre-image (`rfl`), which is why the claimed domain
excludes them (`NoSpoof`, ordered mode without repeats), and (ii) the tag-separation lemmas.
(iii) The injectivity theorem: `C07_equal_digests_equivalent` / `C07_different_content_differs` —
for an injective hasher with non-empty, separator-free digests, inside NoSpoof (canonical floats,
scalar dictionary keys on which `==` is identity), two values with equal digests are equivalent:
same type, and recursively the same set (multiset, when repetition counts) of item digests, the
same keys with equivalent values, the same leaf.  It rests on the unique decodability of the
`,` `;` `:` `|` framing (`Proofs/Framing.lean`, `Proofs/HashComplete.lean`).
-/
namespace Hash
open Py

/-- **Negative witnesses (finding F5).** A string that spells the serialisation of a non-string
value has the same pre-image as that value: non-strings are re-tagged `str:` before hashing. -/
theorem C07_N_spoof (H : String → String) :
    deepHash {} H (.str "NONE") = deepHash {} H .none ∧
    deepHash {} H (.str "int:1") = deepHash {} H (.int 1) ∧
    deepHash {} H (.str "bool:true") = deepHash {} H (.bool true) ∧
    deepHash {} H (.str ("list" ++ ":" ++ deepHash {} H (.int 1))) = deepHash {} H (.list [.int 1]) := by
  refine ⟨rfl, ?_, rfl, ?_⟩
  · simp only [deepHash, hashV, finish, cleanStr, ↓reduceIte, Bool.false_eq_true]; rfl
  · simp only [deepHash, hashV_list, hashL, hashV, finish, cleanStr, ↓reduceIte, Bool.false_eq_true, prepIterable,
      countDedup, dedupFirst, List.filter, List.map_cons, List.map_nil, joinWith, sortStr, List.mergeSort_singleton]

/-- **Negative witness (finding F7).** In the ordered mode (`ignore_iterable_order=False,
ignore_repetition=False`) the positions of repeated items are lost: `[1,2,1]` and `[1,1,2]`
collide for every hasher (items are first counted into a dict). -/
theorem C07_N_ordered_repeats (H : String → String) :
    deepHash { ignoreOrder := false, ignoreRepetition := false } H (.list [.int 1, .int 2, .int 1]) =
    deepHash { ignoreOrder := false, ignoreRepetition := false } H (.list [.int 1, .int 1, .int 2]) := by
  simp only [deepHash, hashV_list, hashL_cons, hashL]
  by_cases h : (hashV { ignoreOrder := false, ignoreRepetition := false } H (.int 2)).1 =
               (hashV { ignoreOrder := false, ignoreRepetition := false } H (.int 1)).1
  · simp [prepIterable, countDedup, dedupFirst, h]
  · have h' := Ne.symm h
    simp [prepIterable, countDedup, dedupFirst, h, h', List.count_cons]

/-- with `apply_hash=False` the framing is ambiguous: `['a,str:b']` and `['a','b']` serialise
identically (why only `apply_hash=True` is claimed) -/
theorem C07_N_no_hash_ambiguous :
    deepHash { applyHash := false } id (.list [.str "a,str:b"]) =
    deepHash { applyHash := false } id (.list [.str "a", .str "b"]) := by
  have hne : ("str:b" != "str:a") = true := by decide
  have hle : decide ("str:a" ≤ "str:b") = true := by decide
  simp [deepHash, hashV_list, hashL, hashV, finish, cleanStr, prepIterable, countDedup, dedupFirst, joinWith, sortStr,
    List.mergeSort, List.MergeSort.Internal.splitInTwo, List.merge, hle]

/-- positive: a string and `None`/a bool never collide unless the string spells the other's
serialisation — for every injective hasher -/
theorem C07_str_vs_none (H : String → String) (hinj : Function.Injective H) (s : String)
    (h : deepHash {} H (.str s) = deepHash {} H .none) : s = "NONE" := by
  simp only [deepHash, hashV, finish, cleanStr, ↓reduceIte, Bool.false_eq_true] at h
  have h1 := hinj h
  have h2 := congrArg String.toList h1
  simp only [String.toList_append] at h2
  have : s.toList = "NONE".toList := List.append_cancel_left h2
  exact String.ext this

end Hash

namespace DiffIO
open Py Diff Hash

/-- **Equal digests only for equivalent content** (default iterable mode: order ignored;
`ignore_repetition = !c.rep`). -/
theorem C07_equal_digests_equivalent (K : List PyVal) (hK : StrictK K) (hKo : KeyOk K) (c : IOCfg) (H : String → String)
    (hinj : Function.Injective H) (hex : Hex H) (a b : PyVal) (ca : domC K a) (cb : domC K b)
    (h : dh c H a = dh c H b) : verdict c (dh c H) a b = true :=
  hashComplete_V K hK hKo c H hinj hex reprInj a b ca cb h

/-- **Different content hashes differently**: the contrapositive. -/
theorem C07_different_content_differs (K : List PyVal) (hK : StrictK K) (hKo : KeyOk K) (c : IOCfg) (H : String → String)
    (hinj : Function.Injective H) (hex : Hex H) (a b : PyVal) (ca : domC K a) (cb : domC K b)
    (h : verdict c (dh c H) a b = false) : dh c H a ≠ dh c H b := by
  intro he
  rw [hashComplete_V K hK hKo c H hinj hex reprInj a b ca cb he] at h
  cases h

/-- scalars: equal digests only for the same scalar -/
theorem C07_scalar_injective (c : IOCfg) (H : String → String) (hinj : Function.Injective H) (a b : PyVal)
    (ha : isBasic a = true) (hb : isBasic b = true)
    (hsa : ∀ s, a = .str s → noSpoofS s) (hsb : ∀ s, b = .str s → noSpoofS s)
    (hfa : ∀ n s, a = .float n s → canonFloat n s) (hfb : ∀ n s, b = .float n s → canonFloat n s)
    (h : dh c H a = dh c H b) : a = b :=
  dh_leaf_inj c H hinj reprInj a b ha hb hsa hsb hfa hfb h

/-- the members (and, when repetition counts, multiplicities) of a list are read back from its digest -/
theorem C07_list_members (c : IOCfg) (H : String → String) (hinj : Function.Injective H) (hex : Hex H)
    (xs ys : List PyVal) (h : dh c H (.list xs) = dh c H (.list ys)) :
    (addedOf (hashTable (dh c H) xs) (hashTable (dh c H) ys)) = [] ∧ (removedOf (hashTable (dh c H) xs) (hashTable (dh c H) ys)) = [] ∧
    (repEntries c [] (hashTable (dh c H) xs) (hashTable (dh c H) ys)) = [] := by
  have := hashComplete_nondict c H hinj hex reprInj (.list xs) (.list ys) (by intro s e; cases e) (by intro s e; cases e)
    (by intro n s e; cases e) (by intro n s e; cases e) (by intro kvs e; cases e) h
  simp only [verdict, Bool.and_eq_true, isEmpty_iff_nil] at this
  exact ⟨this.1.1, this.1.2, this.2⟩

end DiffIO
