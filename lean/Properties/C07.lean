import Proofs.Hash
/-!
# C07 — DeepHash: different content hashes differently

This file currently holds (i) the negative witnesses: collisions that exist **for every hasher**
because two different values have the same pre-image (`rfl`), which is why the claimed domain
excludes them (`NoSpoof`, ordered mode without repeats), and (ii) the tag-separation lemmas.
The full injectivity theorem (`H` injective ∧ hex digests ∧ NoSpoof ∧ NoNumAlias ⇒ equal hashes
only for equivalent values) needs the unique-decodability lemma for the `,` `;` `:` `|` framing;
it is stated in DESIGN §5/C07 and not yet proved — the level note says so.
-/
namespace Hash
open Py

/-- **Negative witnesses (finding F5).** A string that spells the serialisation of a non-string
value has the same pre-image as that value: non-strings are re-tagged `str:` before hashing. -/
theorem C07_N_spoof (H : String → String) :
    deepHash {} H (.str "NONE") = deepHash {} H .none ∧
    deepHash {} H (.str "int:1") = deepHash {} H (.int 1) ∧
    deepHash {} H (.str "bool:true") = deepHash {} H (.bool true) ∧
    deepHash {} H (.str ("list" ++ ":" ++ deepHash {} H (.int 1))) = deepHash {} H (.list [.int 1]) := by
  refine ⟨rfl, ?_, rfl, ?_⟩
  · simp only [deepHash, hashV, finish, cleanStr, ↓reduceIte, Bool.false_eq_true]; rfl
  · simp only [deepHash, hashV_list, hashL, hashV, finish, cleanStr, ↓reduceIte, Bool.false_eq_true, prepIterable,
      countDedup, dedupFirst, List.filter, List.map_cons, List.map_nil, joinWith, sortStr, List.mergeSort_singleton]

/-- **Negative witness (finding F7).** In the ordered mode (`ignore_iterable_order=False,
ignore_repetition=False`) the positions of repeated items are lost: `[1,2,1]` and `[1,1,2]`
collide for every hasher (items are first counted into a dict). -/
theorem C07_N_ordered_repeats (H : String → String) :
    deepHash { ignoreOrder := false, ignoreRepetition := false } H (.list [.int 1, .int 2, .int 1]) =
    deepHash { ignoreOrder := false, ignoreRepetition := false } H (.list [.int 1, .int 1, .int 2]) := by
  simp only [deepHash, hashV_list, hashL_cons, hashL]
  by_cases h : (hashV { ignoreOrder := false, ignoreRepetition := false } H (.int 2)).1 =
               (hashV { ignoreOrder := false, ignoreRepetition := false } H (.int 1)).1
  · simp [prepIterable, countDedup, dedupFirst, h]
  · have h' := Ne.symm h
    simp [prepIterable, countDedup, dedupFirst, h, h', List.count_cons]

/-- with `apply_hash=False` the framing is ambiguous: `['a,str:b']` and `['a','b']` serialise
identically (why only `apply_hash=True` is claimed) -/
theorem C07_N_no_hash_ambiguous :
    deepHash { applyHash := false } id (.list [.str "a,str:b"]) =
    deepHash { applyHash := false } id (.list [.str "a", .str "b"]) := by
  have hne : ("str:b" != "str:a") = true := by decide
  have hle : decide ("str:a" ≤ "str:b") = true := by decide
  simp [deepHash, hashV_list, hashL, hashV, finish, cleanStr, prepIterable, countDedup, dedupFirst, joinWith, sortStr,
    List.mergeSort, List.MergeSort.Internal.splitInTwo, List.merge, hle]

/-- positive: a string and `None`/a bool never collide unless the string spells the other's
serialisation — for every injective hasher -/
theorem C07_str_vs_none (H : String → String) (hinj : Function.Injective H) (s : String)
    (h : deepHash {} H (.str s) = deepHash {} H .none) : s = "NONE" := by
  simp only [deepHash, hashV, finish, cleanStr, ↓reduceIte, Bool.false_eq_true] at h
  have h1 := hinj h
  have h2 := congrArg String.toList h1
  simp only [String.toList_append] at h2
  have : s.toList = "NONE".toList := List.append_cancel_left h2
  exact String.ext this

end Hash
