import Proofs.Memo
import Proofs.IgnoreOrder
import Model.Generated.Tables
/-!
# C17 — results do not depend on caching, pre-seeded hashes or concurrent use

Model: `Model/Cache/Memo.lean` (the memoisation of `_get_rough_distance_of_hashed_objs` over the LFU
cache of C18) and `Model/Diff/IgnoreOrder.lean` (the result as a function of the pairing).
The theorems: a memoised computation over the LFU cache returns exactly what the direct computation
returns — for every capacity (`cache_size`), every history of queries and every on/off schedule
of the auto-tuner — provided the memoised value is a function of the cache key; and the diff
result depends on the caches only through the pairing.  Thread interleavings, `cache_purge_level`
and pre-seeded `hashes` tables are exercised on the implementation (not modelled).
-/
namespace Memo
open LFU

/-- **The distance cache is transparent.** Starting from an empty cache of any positive capacity,
any sequence of queries (each with the cache switched on or off) returns the directly computed
values, in order. -/
theorem C17_cache_transparent (F : Nat → Nat) (cap : Nat) (hcap : 0 < cap) (qs : List (Bool × Nat)) :
    (run F (init cap) qs).1 = qs.map (fun q => F q.2) :=
  run_transparent F qs (init cap) (init_inv cap) hcap (init_coherent F cap)

/-- the same from any reachable (coherent) cache state: a cache shared with earlier work changes nothing -/
theorem C17_shared_cache_transparent (F : Nat → Nat) (s : State) (hinv : Inv s) (hcap : 0 < s.cap) (hco : Coherent F s)
    (qs : List (Bool × Nat)) : (run F s qs).1 = qs.map (fun q => F q.2) :=
  run_transparent F qs s hinv hcap hco

/-- one query: the value, and the cache stays coherent and within its invariant -/
theorem C17_query (F : Nat → Nat) (s : State) (hinv : Inv s) (hcap : 0 < s.cap) (hco : Coherent F s) (enabled : Bool) (key : Nat) :
    (query F s enabled key).1 = F key ∧ Inv (query F s enabled key).2 ∧ Coherent F (query F s enabled key).2 := by
  obtain ⟨h1, h2, _, h4⟩ := query_transparent F s hinv hcap hco enabled key
  exact ⟨h1, h2, h4⟩

/-- **The shape of the memoisation in the source** (regenerated each run): membership test, `get`,
the computation, `set`, in that order, guarded by the cache-enabled flag — what `Memo.query` models. -/
theorem C17_memo_shape :
    Gen.memoEvents = ["contains", "get", "compute", "set"] ∧
    Gen.memoGuards = ["self._stats[DISTANCE_CACHE_ENABLED]", "_distance is None", "cache_key in self._distance_cache",
                      "cache_key and self._stats[DISTANCE_CACHE_ENABLED]"] := by decide

/-- `get` and `set` of the cache run under its lock (regenerated each run; C18) -/
theorem C17_cache_ops_locked : "get" ∈ Gen.lfuLockedMethods ∧ "set" ∈ Gen.lfuLockedMethods := by decide

end Memo

namespace DiffIO
open Py Diff

/-- **The result depends on the caches only through the pairing**, and its emptiness not even on
that: two runs with different cache behaviour (hence possibly different pairings) agree on whether
anything is reported. -/
theorem C17_result_via_pairing (D : PyVal → Prop) (hD : Closed D) (c : IOCfg) (hashOf : PyVal → String) (P P' : Pairs)
    (hs : HashSoundOn D c hashOf) (hc : c.thrNum ≤ c.thrDen) (a b : PyVal) (da : D a) (db : D b) :
    (P = P' → deepDiff c hashOf P a b = deepDiff c hashOf P' a b) ∧
    ((deepDiff c hashOf P a b).tree = [] ↔ (deepDiff c hashOf P' a b).tree = []) := by
  refine ⟨fun h => by rw [h], ?_⟩
  have h1 : ∀ Q, (deepDiff c hashOf Q a b).tree = [] ↔ verdict c hashOf a b = true := by
    intro Q
    unfold deepDiff
    split
    · exact diffV_empty_iff D hD c hashOf Q hs hc a b [] da db
    · simp only [mutualAddRemoves_nil_iff]
      exact diffV_empty_iff D hD c hashOf Q hs hc a b [] da db
  exact (h1 P).trans (h1 P').symm

end DiffIO
