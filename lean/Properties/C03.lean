import Proofs.Diff
import Proofs.Spec
import Model.Diff.Text
/-!
# C03 — positional-mode result equals the recursive definition of structural difference

What is machine-checked here about the model in positional mode (`zip_ordered_iterables=True`,
`threshold_to_diff_deeper=0`): the dictionary shortcut never fires, no iterable goes through the
difflib pass (the result does not depend on the alignment oracle at all, no opcodes are recorded),
i.e. the model *is* the pairwise recursion; and **`C03_model_eq_spec`**: the entries the model produces
are exactly the entries of `specV` (`Proofs/Spec.lean`), a Lean copy of the recursive definition of
structural difference that the harness uses as its independent reference (`harness/props/C03.py:
struct_diff`) — as a multiset, since the definition collects entries in a dictionary keyed by path.
The comparison of the complete verbose text view of the *implementation* with that reference is
carried out by the harness on every run.
-/
namespace Diff
open Py

/-- with `threshold_to_diff_deeper = 0` the "too different, report the whole dict" shortcut never fires -/
theorem C03_threshold_off (cfg : DCfg) (h : cfg.thrNum = 0) (inter union : Nat) :
    belowThreshold cfg inter union = false := by
  simp [belowThreshold, h]

mutual
/-- in positional mode the diff does not consult the alignment oracle and records no opcodes -/
theorem C03_positional_indep (cfg : DCfg) (hz : cfg.zip = true) (al al' : Align) (hashOf : PyVal → String) :
    ∀ (a b : PyVal) (steps : List Step),
      diffV cfg al hashOf steps a b = diffV cfg al' hashOf steps a b ∧ (diffV cfg al hashOf steps a b).opcodes = []
  | .dict kvs1, b, steps => by
    cases b with
    | dict kvs2 =>
      have hk := C03_kvs_indep cfg hz al al' hashOf kvs1 kvs2 (keysOf cfg steps kvs2) steps
      have hk2 : ∀ p ∈ diffKVs cfg al' hashOf steps kvs1 kvs2 (keysOf cfg steps kvs2), p.2.opcodes = [] := by
        rw [← hk.1]; exact hk.2
      simp only [diffV, hk.1]
      refine ⟨trivial, ?_⟩
      split <;> split
      · rfl
      · simp only [Result.append_def, List.nil_append]
        exact foldl_opcodes_nil _ _ hk2
      · rfl
      · simp only [Result.append_def, List.nil_append]
        exact foldl_opcodes_nil _ _ hk2
    | _ => all_goals simp [diffV]
  | .list xs, b, steps => by
    cases b with
    | list ys => simp only [diffV, iterInOrder, hz]; exact C03_pairs_indep cfg hz al al' hashOf xs ys 0 steps
    | _ => all_goals simp [diffV]
  | .tuple xs, b, steps => by
    cases b with
    | tuple ys => simp only [diffV, iterInOrder, hz]; exact C03_pairs_indep cfg hz al al' hashOf xs ys 0 steps
    | _ => all_goals simp [diffV]
  | .set xs, b, steps => by cases b <;> simp [diffV]
  | .frozenset xs, b, steps => by cases b <;> simp [diffV]
  | .none, b, steps => by simp only [diffV]; split <;> simp
  | .bool _, b, steps => by simp only [diffV]; split <;> simp
  | .int _, b, steps => by simp only [diffV]; split <;> simp
  | .float _ _, b, steps => by simp only [diffV]; split <;> simp
  | .str _, b, steps => by simp only [diffV]; split <;> simp
  | .bytes _, b, steps => by simp only [diffV]; split <;> simp
theorem C03_kvs_indep (cfg : DCfg) (hz : cfg.zip = true) (al al' : Align) (hashOf : PyVal → String) :
    ∀ (rest kvs2 : List (PyVal × PyVal)) (k2s : List PyVal) (steps : List Step),
      diffKVs cfg al hashOf steps rest kvs2 k2s = diffKVs cfg al' hashOf steps rest kvs2 k2s ∧
      ∀ p ∈ diffKVs cfg al hashOf steps rest kvs2 k2s, p.2.opcodes = []
  | [], _, _, _ => by simp [diffKVs]
  | (k1, v1) :: rest, kvs2, k2s, steps => by
    have ih := C03_kvs_indep cfg hz al al' hashOf rest kvs2 k2s steps
    simp only [diffKVs]
    split
    · exact ih
    · split
      · split
        · rename_i _ k _ _ v2 _
          have hv := C03_positional_indep cfg hz al al' hashOf v1 v2 (steps ++ [⟨.dict, some k, some k⟩])
          refine ⟨by rw [hv.1, ih.1], ?_⟩
          intro p hp
          rcases List.mem_cons.1 hp with rfl | hp
          · simp only; split
            · rfl
            · exact hv.2
          · exact ih.2 p hp
        · exact ih
      · exact ih
theorem C03_pairs_indep (cfg : DCfg) (hz : cfg.zip = true) (al al' : Align) (hashOf : PyVal → String) :
    ∀ (xs ys : List PyVal) (i : Nat) (steps : List Step),
      diffPairs cfg al hashOf steps i xs ys = diffPairs cfg al' hashOf steps i xs ys ∧
      (diffPairs cfg al hashOf steps i xs ys).opcodes = []
  | [], [], _, _ => by simp [diffPairs]
  | x :: xs, [], i, steps => by
    have ih := C03_pairs_indep cfg hz al al' hashOf xs [] (i + 1) steps
    simp only [diffPairs, ih.1, Result.append_def, true_and, List.nil_append]
    rw [← ih.1]; exact ih.2
  | [], y :: ys, i, steps => by simp [diffPairs]
  | x :: xs, y :: ys, i, steps => by
    have ih := C03_pairs_indep cfg hz al al' hashOf xs ys (i + 1) steps
    have hv := C03_positional_indep cfg hz al al' hashOf x y (steps ++ [⟨.iter, some (.int i), some (.int i)⟩])
    simp only [diffPairs, ih.1, hv.1, Result.append_def, true_and]
    split
    · simp only [List.nil_append]; rw [← ih.1]; exact ih.2
    · rw [← hv.1, ← ih.1, hv.2, ih.2]; rfl
end

/-- **The positional-mode result is the recursive definition.**  For every pair of values of any size and
nesting (dictionaries with pairwise different hashable keys from a universe on which `==` is
identity), every alignment oracle and hasher: the entries of the model's diff tree — category, path
steps, both values, the text-diff flag — are exactly the entries of the recursive definition `specV`:
nothing missing, nothing extra, nothing at another path. -/
theorem C03_model_eq_spec (cfg : DCfg) (hp : Pos cfg) (he0 : cfg.exclude = []) (al : Align) (hashOf : PyVal → String)
    (K : List PyVal) (hK : StrictKeys K) (t1 t2 : PyVal) (d1 : domD K t1) (d2 : domD K t2) :
    (diffV cfg al hashOf [] t1 t2).tree.Perm (specV cfg.ignorePrivate hashOf [] t1 t2) :=
  spec_V hp he0 al hashOf K hK t1 t2 [] d1 d2

/-- the same for the complete result when add/remove pairs are not merged (`report_repetition=True`;
in positional mode an added and a removed item never share a path) -/
theorem C03_deepDiff_eq_spec (cfg : DCfg) (hp : Pos cfg) (he0 : cfg.exclude = []) (hr : cfg.reportRepetition = true)
    (al : Align) (hashOf : PyVal → String) (K : List PyVal) (hK : StrictKeys K) (t1 t2 : PyVal) (d1 : domD K t1) (d2 : domD K t2) :
    (deepDiff cfg al hashOf t1 t2).tree.Perm (specV cfg.ignorePrivate hashOf [] t1 t2) := by
  have hk : keepReported cfg (diffV cfg al hashOf [] t1 t2).tree = (diffV cfg al hashOf [] t1 t2).tree := by
    unfold keepReported
    rw [List.filter_eq_self]
    intro e _
    simp [skipSteps_none hp he0]
  unfold deepDiff
  simp only [hr, if_true, skipSteps_none hp he0, Bool.false_eq_true, if_false, hk]
  exact C03_model_eq_spec cfg hp he0 al hashOf K hK t1 t2 d1 d2

/-- every entry is where the definition puts it: membership in the two trees coincides -/
theorem C03_same_entries (cfg : DCfg) (hp : Pos cfg) (he0 : cfg.exclude = []) (al : Align) (hashOf : PyVal → String)
    (K : List PyVal) (hK : StrictKeys K) (t1 t2 : PyVal) (d1 : domD K t1) (d2 : domD K t2) (e : Cat × Level) :
    e ∈ (diffV cfg al hashOf [] t1 t2).tree ↔ e ∈ specV cfg.ignorePrivate hashOf [] t1 t2 :=
  (C03_model_eq_spec cfg hp he0 al hashOf K hK t1 t2 d1 d2).mem_iff

/-! Non-vacuity: a nested value of the domain. -/
example : domD [.str "a", .str "b"] (.dict [(.str "a", .list [.int 1, .dict [(.str "b", .none)]])]) := by
  simp [domD, domDP, domDL, distinctKeys, keyEq, hashable]

end Diff
