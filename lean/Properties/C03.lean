import Proofs.Diff
import Model.Diff.Text
/-!
# C03 — positional-mode result equals the recursive definition of structural difference

What is machine-checked here about the model in positional mode (`zip_ordered_iterables=True`,
`threshold_to_diff_deeper=0`): the dictionary shortcut never fires, no iterable goes through the
difflib pass (the result does not depend on the alignment oracle at all, no opcodes are recorded),
i.e. the model *is* the pairwise recursion.  The comparison of the complete verbose text view with
the independent ~70-line specification is carried out on the implementation by the harness
(`harness/props/C03.py: struct_diff`); the Lean statement `C03_model_eq_spec` against a Lean copy of
that specification is not proved yet (see DESIGN §5/C03).
-/
namespace Diff
open Py

/-- with `threshold_to_diff_deeper = 0` the "too different, report the whole dict" shortcut never fires -/
theorem C03_threshold_off (cfg : DCfg) (h : cfg.thrNum = 0) (inter union : Nat) :
    belowThreshold cfg inter union = false := by
  simp [belowThreshold, h]

mutual
/-- in positional mode the diff does not consult the alignment oracle and records no opcodes -/
theorem C03_positional_indep (cfg : DCfg) (hz : cfg.zip = true) (al al' : Align) (hashOf : PyVal → String) :
    ∀ (a b : PyVal) (steps : List Step),
      diffV cfg al hashOf steps a b = diffV cfg al' hashOf steps a b ∧ (diffV cfg al hashOf steps a b).opcodes = []
  | .dict kvs1, b, steps => by
    cases b with
    | dict kvs2 =>
      have hk := C03_kvs_indep cfg hz al al' hashOf kvs1 kvs2 (keysOf cfg steps kvs2) steps
      have hk2 : ∀ p ∈ diffKVs cfg al' hashOf steps kvs1 kvs2 (keysOf cfg steps kvs2), p.2.opcodes = [] := by
        rw [← hk.1]; exact hk.2
      simp only [diffV, hk.1]
      refine ⟨trivial, ?_⟩
      split <;> split
      · rfl
      · simp only [Result.append_def, List.nil_append]
        exact foldl_opcodes_nil _ _ hk2
      · rfl
      · simp only [Result.append_def, List.nil_append]
        exact foldl_opcodes_nil _ _ hk2
    | _ => all_goals simp [diffV]
  | .list xs, b, steps => by
    cases b with
    | list ys => simp only [diffV, iterInOrder, hz]; exact C03_pairs_indep cfg hz al al' hashOf xs ys 0 steps
    | _ => all_goals simp [diffV]
  | .tuple xs, b, steps => by
    cases b with
    | tuple ys => simp only [diffV, iterInOrder, hz]; exact C03_pairs_indep cfg hz al al' hashOf xs ys 0 steps
    | _ => all_goals simp [diffV]
  | .set xs, b, steps => by cases b <;> simp [diffV]
  | .frozenset xs, b, steps => by cases b <;> simp [diffV]
  | .none, b, steps => by simp only [diffV]; split <;> simp
  | .bool _, b, steps => by simp only [diffV]; split <;> simp
  | .int _, b, steps => by simp only [diffV]; split <;> simp
  | .float _ _, b, steps => by simp only [diffV]; split <;> simp
  | .str _, b, steps => by simp only [diffV]; split <;> simp
  | .bytes _, b, steps => by simp only [diffV]; split <;> simp
theorem C03_kvs_indep (cfg : DCfg) (hz : cfg.zip = true) (al al' : Align) (hashOf : PyVal → String) :
    ∀ (rest kvs2 : List (PyVal × PyVal)) (k2s : List PyVal) (steps : List Step),
      diffKVs cfg al hashOf steps rest kvs2 k2s = diffKVs cfg al' hashOf steps rest kvs2 k2s ∧
      ∀ p ∈ diffKVs cfg al hashOf steps rest kvs2 k2s, p.2.opcodes = []
  | [], _, _, _ => by simp [diffKVs]
  | (k1, v1) :: rest, kvs2, k2s, steps => by
    have ih := C03_kvs_indep cfg hz al al' hashOf rest kvs2 k2s steps
    simp only [diffKVs]
    split
    · exact ih
    · split
      · split
        · rename_i _ k _ _ v2 _
          have hv := C03_positional_indep cfg hz al al' hashOf v1 v2 (steps ++ [⟨.dict, some k, some k⟩])
          refine ⟨by rw [hv.1, ih.1], ?_⟩
          intro p hp
          rcases List.mem_cons.1 hp with rfl | hp
          · simp only; split
            · rfl
            · exact hv.2
          · exact ih.2 p hp
        · exact ih
      · exact ih
theorem C03_pairs_indep (cfg : DCfg) (hz : cfg.zip = true) (al al' : Align) (hashOf : PyVal → String) :
    ∀ (xs ys : List PyVal) (i : Nat) (steps : List Step),
      diffPairs cfg al hashOf steps i xs ys = diffPairs cfg al' hashOf steps i xs ys ∧
      (diffPairs cfg al hashOf steps i xs ys).opcodes = []
  | [], [], _, _ => by simp [diffPairs]
  | x :: xs, [], i, steps => by
    have ih := C03_pairs_indep cfg hz al al' hashOf xs [] (i + 1) steps
    simp only [diffPairs, ih.1, Result.append_def, true_and, List.nil_append]
    rw [← ih.1]; exact ih.2
  | [], y :: ys, i, steps => by simp [diffPairs]
  | x :: xs, y :: ys, i, steps => by
    have ih := C03_pairs_indep cfg hz al al' hashOf xs ys (i + 1) steps
    have hv := C03_positional_indep cfg hz al al' hashOf x y (steps ++ [⟨.iter, some (.int i), some (.int i)⟩])
    simp only [diffPairs, ih.1, hv.1, Result.append_def, true_and]
    split
    · simp only [List.nil_append]; rw [← ih.1]; exact ih.2
    · rw [← hv.1, ← ih.1, hv.2, ih.2]; rfl
end

end Diff
