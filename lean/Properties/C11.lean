import Proofs.Options
import Proofs.OptionsRefl
/-!
# C11 — ignore / tolerance options only remove differences and never make DeepDiff fail

Model: `Model/Diff/Options.lean` (the ordered comparison under `ignore_string_case`,
`ignore_string_type_changes`, `ignore_numeric_type_changes`, `significant_digits`, `math_epsilon`,
`exclude_types`, private keys).  `sim o a b` (`Proofs/Options.lean`) says that `a` and `b` differ,
position by position and dictionary key by cleaned key, at most in what the options of `o` ignore.
The model is total: where the code raised (findings F9, F26) it has been repaired.
-/
namespace DiffO
open Py Diff

/-- **Similar values give an empty diff**, for every option set, every threshold in [0,1], any size
and nesting, both alignment modes and every alignment oracle. -/
theorem C11_similar_empty (o : OCfg) (al : Align)
    (hc : o.base.thrNum ≤ o.base.thrDen) (a b : PyVal) (h : sim o a b = true) :
    (deepDiff o al a b).tree = [] ∧ (deepDiff o al a b).opcodes = [] := by
  have := diffV_sim o al hc a b [] h
  simp [deepDiff, this, keepReported, mutualAddRemoves]

/-! ## each normaliser lands in `sim` (leaf level; `sim` is closed under list / tuple / dict formation by definition) -/

/-- letter case -/
theorem C11_case_leaf (o : OCfg) (s t : String) (hc : o.ignoreCase = true) (h : lower s = lower t) :
    sim o (.str s) (.str t) = true :=
  sim_of_leafSame o rfl (by simp [sameGroup, typeName]) (by simp [leafSame, isStrLike, lowered, hc, textOf, h])

/-- `str` against `bytes` of the same text -/
theorem C11_strtype_leaf (o : OCfg) (s : String) (ht : o.ignoreStrType = true) :
    sim o (.str s) (.bytes s) = true ∧ sim o (.bytes s) (.str s) = true := by
  constructor <;>
    exact sim_of_leafSame o rfl (by simp [sameGroup, ht, isStrLike])
      (by cases hc : o.ignoreCase <;> simp [leafSame, isStrLike, lowered, hc, textOf])

/-- `int` against `float` of equal value (no `math_epsilon`) -/
theorem C11_numtype_leaf (o : OCfg) (i : Int) (hn : o.ignoreNumType = true) (he : o.mathEps = none) :
    sim o (.int i) (.float i 0) = true ∧ sim o (.float i 0) (.int i) = true := by
  have hs : ∃ d, o.sig = some d := by
    unfold OCfg.sig
    cases o.sigDigits with
    | some d => exact ⟨d, rfl⟩
    | none => exact ⟨12, by simp [hn]⟩
  obtain ⟨d, hd⟩ := hs
  constructor <;>
    exact sim_of_leafSame o rfl (by simp [sameGroup, hn, isNumLike])
      (by simp [leafSame, isStrLike, numOf, he, hd, typeName, numText])

/-- a perturbation within `math_epsilon` -/
theorem C11_epsilon_leaf (o : OCfg) (n n' : Int) (s s' : Nat) (eps : Int × Nat) (he : o.mathEps = some eps)
    (h : isClose (.float n s) (.float n' s') eps = true) : sim o (.float n s) (.float n' s') = true :=
  sim_of_leafSame o rfl (by simp [sameGroup, typeName]) (by simp [leafSame, isStrLike, numOf, he, h])

/-- a perturbation that leaves the `significant_digits` rendering unchanged -/
theorem C11_significant_leaf (o : OCfg) (n n' : Int) (s s' : Nat) (d : Nat) (hd : o.sigDigits = some d) (he : o.mathEps = none)
    (h : numberToString n s d = numberToString n' s' d) : sim o (.float n s) (.float n' s') = true := by
  have hs : o.sig = some d := by simp [OCfg.sig, hd]
  exact sim_of_leafSame o rfl (by simp [sameGroup, typeName]) (by simp [leafSame, isStrLike, numOf, he, hs, numText, h, typeName])

/-- a value of an excluded type against anything -/
theorem C11_excluded_leaf (o : OCfg) (a b : PyVal) (ty : String) (hty : ty ∈ o.excludeTypes) (hi : isInstance a ty = true) :
    skipTypes o (some a) (some b) = true ∧ skipTypes o (some b) (some a) = true := by
  simp only [skipTypes, List.any_eq_true]
  exact ⟨⟨ty, hty, by simp [hi]⟩, ⟨ty, hty, by simp [hi]⟩⟩

/-- double-underscore keys do not take part in the comparison -/
theorem C11_private_key (o : OCfg) (k v : PyVal) (kvs : List (PyVal × PyVal)) (hp : isPrivate k = true)
    (hi : o.base.ignorePrivate = true) : cleanKeys o ((k, v) :: kvs) = cleanKeys o kvs := by
  simp [cleanKeys, hp, hi]

/-- **Regression witness (finding F27, repaired).** `[1.5, 'a']` against `['a', b'a']` with
`exclude_types=[float]` and `ignore_string_type_changes`, under the opcodes difflib gives for them
(delete, equal, insert): the removal is filtered by the excluded type and one addition survives the
difflib pass; the pairwise pass reports nothing and is now preferred. -/
theorem C11_exclude_misaligned_fixed :
    let o : OCfg := { ignoreStrType := true, excludeTypes := ["float"] }
    let al : Align := fun _ _ => [⟨"delete", 0, 1, 0, 0⟩, ⟨"equal", 1, 2, 0, 1⟩, ⟨"insert", 2, 2, 1, 2⟩]
    (keepReported o (opcodeEntries o [] [.float 15 1, .str "a"] [.str "a", .bytes "a"] (al [] []))).length = 1 ∧
    (deepDiff o al (.list [.float 15 1, .str "a"]) (.list [.str "a", .bytes "a"])).tree = [] := by
  refine ⟨?_, ?_⟩
  · simp [opcodeEntries, keepReported, skipTypes, isInstance, typeName, removedLevel, addedLevel]
  · have h1 : sim { ignoreStrType := true, excludeTypes := ["float"] } (.float 15 1) (.str "a") = true :=
      sim_of_skip _ (by simp [skipTypes, isInstance, typeName])
    have h2 := (C11_strtype_leaf { ignoreStrType := true, excludeTypes := ["float"] } "a" rfl).1
    have hs : sim { ignoreStrType := true, excludeTypes := ["float"] } (.list [.float 15 1, .str "a"]) (.list [.str "a", .bytes "a"]) = true := by
      simp [sim, simL, h1, h2]
    exact (C11_similar_empty _ _ (by decide) _ _ hs).1

/-! Non-vacuity of `C11_similar_empty`: a nested pair that is similar under an option. -/
example : sim { ignoreStrType := true } (.list [.tuple [.str "x", .none], .str "y"]) (.list [.tuple [.bytes "x", .none], .bytes "y"]) = true := by
  have h1 := (C11_strtype_leaf { ignoreStrType := true } "x" rfl).1
  have h2 := (C11_strtype_leaf { ignoreStrType := true } "y" rfl).1
  have h3 : sim { ignoreStrType := true } .none .none = true := sim_of_leafSame _ rfl (by simp [sameGroup, typeName]) rfl
  simp [sim, simL, skipTypes, h1, h2, h3]

/-- **A copy is never different, whatever the options** (the first half of "options only remove differences", for equal
inputs listed in the same order): for every option set, threshold, alignment oracle and every well-formed value of any size
and nesting -- dictionaries whose keys collide under a key-cleaning option included -- the diff of a value with itself is empty.
`Proofs/OptionsRefl.lean`: the table of cleaned keys has pairwise different cleaned keys by construction (`cleanKeys_inv`), so
each surviving key is looked up to its own entry (`find_own`) and its own value (`dictGet_of_keyEq`). -/
theorem C11_copy_empty_all_options (o : OCfg) (al : Align) (hc : o.base.thrNum ≤ o.base.thrDen) (t : PyVal) (hw : wf t = true) :
    (deepDiff o al t t).tree = [] ∧ (deepDiff o al t t).opcodes = [] :=
  C11_similar_empty o al hc t t (sim_refl o t hw)

/-- the hypothesis is met by a dictionary with colliding cleaned keys (the input class of F50), nested in a list -/
example : wf (.list [.dict [(.str "A", .int 1), (.str "a", .list [.float 25 1])], .set [.int 1, .str "x"]]) = true := by
  simp [wf, wfL, wfP, hashable, distinctKeys, keyEq, numEq, numOf]

/-- **Negative witness (finding F50).** Two keys of one dictionary whose cleaned forms collide are represented by the
first in insertion order: the same dictionary re-inserted in the other order is compared through the other key. -/
theorem C11_N_colliding_keys_order (o : OCfg) (k1 k2 v1 v2 : PyVal) (hc : cleaning o = true)
    (hp1 : (o.base.ignorePrivate && isPrivate k1) = false) (hp2 : (o.base.ignorePrivate && isPrivate k2) = false)
    (he : keyEq (cleanKey o k1) (cleanKey o k2) = true) (he' : keyEq (cleanKey o k2) (cleanKey o k1) = true) :
    cleanKeys o [(k1, v1), (k2, v2)] = [(cleanKey o k1, k1)] ∧ cleanKeys o [(k2, v2), (k1, v1)] = [(cleanKey o k2, k2)] := by
  have f1 : (!o.base.ignorePrivate || !isPrivate k1) = true := by
    cases h1 : o.base.ignorePrivate <;> cases h2 : isPrivate k1 <;> simp_all
  have f2 : (!o.base.ignorePrivate || !isPrivate k2) = true := by
    cases h1 : o.base.ignorePrivate <;> cases h2 : isPrivate k2 <;> simp_all
  constructor <;> simp [cleanKeys, hc, f1, f2, he, he']

end DiffO
