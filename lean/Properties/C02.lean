import Model.Diff.Text
