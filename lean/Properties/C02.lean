import Proofs.Diff
import Proofs.Converse
import Proofs.IgnoreOrder
import Proofs.HashComplete
import Model.Diff.Text
import Model.Hash.Prep
/-!
# C02 — an empty diff means equal; a structural copy always gives an empty diff

Model: `Model/Diff/Ordered.lean` (ordered comparison) and `Model/Diff/Text.lean` (views).
`al` is the difflib oracle, `hashOf` the DeepHash oracle of `_diff_set`.
-/
namespace Diff
open Py

/-- **Copy ⇒ empty.** For every well-formed value of any size and nesting, every ordered
configuration (both alignment modes, every threshold in [0,1], private-key handling, any
exclude/include paths), every reflexive alignment oracle and every hasher: diffing the value with
(a structural copy of) itself yields an empty tree, hence an empty text view at every verbosity. -/
theorem C02_copy_empty (cfg : DCfg) (al : Align) (hashOf : PyVal → String) (hal : AlignRefl al)
    (hc : cfg.thrNum ≤ cfg.thrDen) (t : PyVal) (hw : wf t = true) (verbose : Nat) :
    (deepDiff cfg al hashOf t t).tree = [] ∧ (deepDiff cfg al hashOf t t).opcodes = [] ∧
      textView verbose (deepDiff cfg al hashOf t t).tree = [] := by
  have h := diffV_self cfg al hashOf hal hc t [] hw
  have hempty : (deepDiff cfg al hashOf t t) = {} := by
    unfold deepDiff
    simp only [h]
    split <;> split <;> simp [keepReported, mutualAddRemoves] <;> rfl
  rw [hempty]
  exact ⟨rfl, rfl, rfl⟩

/-- the driver's difflib port satisfies the reflexivity assumption on the empty list and the model
alignment that only ever emits `equal` blocks does in general -/
theorem C02_alignRefl_of_equal_only (al : Align) (h : ∀ xs, ∀ op ∈ al xs xs, op.tag = "equal") : AlignRefl al := by
  intro steps xs
  have : ∀ ops : List Opcode, (∀ op ∈ ops, op.tag = "equal") → opcodeEntries steps xs xs ops = [] := by
    intro ops
    induction ops with
    | nil => intro _; rfl
    | cons op ops ih =>
      intro hall
      have h1 := hall op (by simp)
      simp only [opcodeEntries, h1]
      simp [ih (fun o ho => hall o (by simp [ho]))]
  exact this _ (h xs)

/-- **Negative witness (finding F5e).** `DeepDiff({'NONE'}, {None})` is empty in the model for every
hasher: set items are compared by DeepHash, and `'NONE'` and `None` have the same pre-image. -/
theorem C02_N_spoof_set (al : Align) (H : String → String) :
    (deepDiff {} al (Hash.deepHash {} H) (.set [.str "NONE"]) (.set [.none])).tree = [] := by
  have hh : Hash.deepHash {} H (.str "NONE") = Hash.deepHash {} H .none := rfl
  have hs : ∀ steps, diffSet (Hash.deepHash {} H) steps [.str "NONE"] [.none] = [] := by
    intro steps
    simp [diffSet, hh]
  have hskip : skipSteps {} [] = false := by decide
  simp [deepDiff, hskip, diffV, hs, keepReported, mutualAddRemoves]

/-- **Empty ⇒ equal.** In the ordered model without path restrictions: if the result is empty, the two
values are equal in the sense of Python's `==` (`pyEq`) — for both alignment modes, every threshold,
every sound difflib oracle (`AlignSound`: an all-`equal` answer is right), any size and nesting.
Domain (`domE`): dictionary keys pairwise different, hashable, from a universe `K` on which `==` is
identity (NoNumAlias) and that holds no ignored private key; sets without repeated members, from a
universe `S` on which the item hash is injective (discharged for DeepHash below). -/
theorem C02_empty_implies_equal (cfg : DCfg) (hp : Plain cfg) (al : Align) (hal : AlignSound al) (hashOf : PyVal → String)
    (K S : List PyVal) (hK : StrictKeys K) (hpriv : ∀ k ∈ K, (cfg.ignorePrivate && isPrivate k) = false)
    (hS : ∀ x ∈ S, hashable x = true ∧ ∀ y ∈ S, hashOf x = hashOf y → x = y)
    (t1 t2 : PyVal) (d1 : domE K S t1) (d2 : domE K S t2) (h : (deepDiff cfg al hashOf t1 t2).tree = []) :
    pyEq t1 t2 = true := by
  unfold deepDiff at h
  simp only [skipSteps_plain hp, Bool.false_eq_true, if_false, keepReported_plain hp] at h
  split at h
  · exact conv_V hp al hal hashOf K S hK hpriv hS t1 t2 [] d1 d2 h
  · exact conv_V hp al hal hashOf K S hK hpriv hS t1 t2 [] d1 d2 ((mutualAddRemoves_nil_iff _).1 h)

/-- the item hash of `_diff_set` is injective on scalars inside NoSpoof: the hypothesis `hS` of
`C02_empty_implies_equal` holds for the DeepHash model with any injective hasher -/
theorem C02_set_members_deephash (c : DiffIO.IOCfg) (H : String → String) (hinj : Function.Injective H) (S : List PyVal)
    (hSok : ∀ x ∈ S, isBasic x = true ∧ (∀ s, x = .str s → DiffIO.noSpoofS s) ∧ (∀ n s, x = .float n s → DiffIO.canonFloat n s)) :
    ∀ x ∈ S, hashable x = true ∧ ∀ y ∈ S, DiffIO.dh c H x = DiffIO.dh c H y → x = y := by
  intro x hx
  obtain ⟨hb, hs, hf⟩ := hSok x hx
  refine ⟨by cases x <;> simp_all [isBasic, hashable], ?_⟩
  intro y hy he
  obtain ⟨hb', hs', hf'⟩ := hSok y hy
  exact DiffIO.dh_leaf_inj c H hinj DiffIO.reprInj x y hb hb' hs hs' hf hf' he

/-- **empty ⇔ equal for copies and conversely**: with `C02_copy_empty`, on the domain the ordered diff of
`t1` with `t2` is empty only if `t1 == t2`, and the diff of a value with itself is empty. -/
theorem C02_empty_implies_equal_deephash (cfg : DCfg) (hp : Plain cfg) (al : Align) (hal : AlignSound al)
    (c : DiffIO.IOCfg) (H : String → String) (hinj : Function.Injective H)
    (K S : List PyVal) (hK : StrictKeys K) (hpriv : ∀ k ∈ K, (cfg.ignorePrivate && isPrivate k) = false)
    (hSok : ∀ x ∈ S, isBasic x = true ∧ (∀ s, x = .str s → DiffIO.noSpoofS s) ∧ (∀ n s, x = .float n s → DiffIO.canonFloat n s))
    (t1 t2 : PyVal) (d1 : domE K S t1) (d2 : domE K S t2) (h : (deepDiff cfg al (DiffIO.dh c H) t1 t2).tree = []) :
    pyEq t1 t2 = true :=
  C02_empty_implies_equal cfg hp al hal (DiffIO.dh c H) K S hK hpriv (C02_set_members_deephash c H hinj S hSok) t1 t2 d1 d2 h

/-! Non-vacuity: a configuration, a key universe, a member universe and a nested value of the domain. -/
example : Plain {} := ⟨rfl, rfl, rfl⟩
example : domE [.str "a", .int 2] [.str "x", .int 1]
    (.dict [(.str "a", .list [.int 1, .tuple [.none, .float 15 1]]), (.int 2, .set [.str "x", .int 1])]) := by
  simp [domE, domEP, domEL, distinctKeys, keyEq, numEq, numOf, hashable]
example : StrictKeys [.str "a", .int 2] := by
  intro k hk k' hk' h
  simp at hk hk'
  rcases hk with rfl | rfl <;> rcases hk' with rfl | rfl <;> simp_all [keyEq, numEq, numOf]
/-- an alignment oracle that satisfies `AlignSound`: the one that answers with a single `replace`
block (then the pairwise comparison decides) -/
example : AlignSound (fun xs ys => [⟨"replace", 0, xs.length, 0, ys.length⟩]) := by
  intro steps xs ys hx hy h
  simp only [opcodeEntries, beq_self_eq_true, if_true, List.append_nil, Nat.sub_zero, List.drop_zero, List.take_length] at h
  exact pairBasic_nil steps 0 xs ys hx hy h

/-! Non-vacuity: a nested value that satisfies `wf`. -/
example : wf (.dict [(.str "a", .list [.int 1, .tuple [.none, .float 15 1]]), (.int 2, .set [.str "x", .bool true])]) = true := by
  decide

end Diff
